#!/bin/sh
# ./run.sh <Cxx> [quick|thorough]   |   ./run.sh --setup   |   ./run.sh --replay <file>
exec python3 "$(dirname "$0")/tools/check.py" "$@"
