(* BitmapRank2Proofs.v - correctness of the word-level helpers of BitmapRank2.v, part 1:
     of_cap_spec        bitmap.Of(idx, cap): bit k set <-> k listed; number of words
     of_many_get/rank   bitmap.OfMany = concatenation of the sub-bitmaps
     index_rank64_t_nth entry w of IndexRank64(ws, true) = set bits below 64*w
     index_rank128_nth  entry k of IndexRank128 = set bits below 128*k
     rank128_correct    Rank128 with that index = (rank_spec, bit); rank128_total: no panic
                        below 64*len(words)
   Part 2 (select) is BitmapSelectProofs.v. *)
From Coq Require Import List Arith Bool NArith ZArith Lia Sorted.
From Coq Require Import ZifyN ZifyNat ZifyBool.
From Slim Require Import BitmapRank BitmapRankProofs BitmapRank2.
Import ListNotations.
Local Open Scope N_scope.
Ltac Zify.zify_post_hook ::= Z.div_mod_to_equations.

(* ---------- small facts ---------- *)
Lemma bm_get_repeat0 : forall n k, bm_get (repeat 0 n) k = false.
Proof.
  intros n k. unfold bm_get. destruct (nthN (repeat 0 n) (word_of k)) eqn:E; [|reflexivity].
  rewrite nthN_nth_error in E. apply nth_error_In in E. apply repeat_spec in E. subst. apply N.bits_0.
Qed.

Lemma words_ok_repeat0 : forall n, words_ok (repeat 0 n).
Proof. intros n. unfold words_ok. rewrite Forall_forall. intros x H. apply repeat_spec in H. subst. reflexivity. Qed.

Lemma bm_get_ge64 : forall x r k, 64 <= k -> bm_get (x :: r) k = bm_get r (k - 64).
Proof. intros x r k H. replace k with (64 + (k - 64)) at 1 by lia. apply bm_get_cons_high. Qed.

Lemma word_of_lt : forall i n, i < n -> word_of i < nwords_for n.
Proof.
  intros i n H. unfold nwords_for. rewrite word_of_spec, N.shiftr_div_pow2. change (2 ^ 6) with 64. lia.
Qed.

Lemma existsb_eqb_In : forall k l, existsb (N.eqb k) l = true <-> In k l.
Proof.
  intros k l. rewrite existsb_exists. split.
  - intros (x & Hx & E). apply N.eqb_eq in E. subst. exact Hx.
  - intros H. exists k. split; [exact H|apply N.eqb_refl].
Qed.

(* ---------- or_bit / or_bits ---------- *)
Lemma or_bit_spec : forall ws wi b ws',
  b < 64 -> or_bit ws wi b = Some ws' ->
  length ws' = length ws /\
  (forall k, bm_get ws' k = bm_get ws k || (k =? 64 * wi + b)) /\
  (words_ok ws -> words_ok ws').
Proof.
  induction ws as [|x r IH]; intros wi b ws' Hb H; [discriminate|].
  cbn [or_bit] in H. destruct (N.eqb_spec wi 0) as [->|Hw].
  - injection H as <-. change (N.pos (Pos.shiftl 1 b)) with (N.shiftl 1 b).
    split; [reflexivity|]. split.
    + intros k. destruct (N.lt_ge_cases k 64) as [Hk|Hk].
      * rewrite !bm_get_cons_low by assumption. rewrite testbit_set.
        replace (64 * 0 + b) with b by lia. rewrite (N.eqb_sym b k). reflexivity.
      * rewrite !bm_get_ge64 by assumption.
        destruct (N.eqb_spec k (64 * 0 + b)); [lia|]. rewrite orb_false_r. reflexivity.
    + intros Hok. inversion Hok; subst. constructor; [|assumption].
      apply lor_lt_64; [assumption|apply bit_lt_64; assumption].
  - destruct (or_bit r (N.pred wi) b) as [r'|] eqn:E; [|discriminate]. injection H as <-.
    destruct (IH _ _ _ Hb E) as (H1 & H2 & H3). split; [cbn [length]; congruence|]. split.
    + intros k. destruct (N.lt_ge_cases k 64) as [Hk|Hk].
      * rewrite !bm_get_cons_low by assumption.
        destruct (N.eqb_spec k (64 * wi + b)); [lia|]. rewrite orb_false_r. reflexivity.
      * rewrite !bm_get_ge64 by assumption. rewrite H2. f_equal.
        destruct (N.eqb_spec (k - 64) (64 * N.pred wi + b)); destruct (N.eqb_spec k (64 * wi + b)); try reflexivity; lia.
    + intros Hok. inversion Hok; subst. constructor; [assumption|]. apply H3. assumption.
Qed.

Lemma or_bit_some : forall ws wi b, wi < N.of_nat (length ws) -> exists ws', or_bit ws wi b = Some ws'.
Proof.
  induction ws as [|x r IH]; intros wi b H; [cbn in H; lia|].
  cbn [or_bit]. destruct (N.eqb_spec wi 0); [eauto|].
  destruct (IH (N.pred wi) b) as [r' E]; [cbn [length] in H; lia|]. rewrite E. eauto.
Qed.

Lemma or_bits_spec : forall idx ws,
  Forall (fun i => word_of i < N.of_nat (length ws)) idx ->
  exists ws', or_bits ws idx = Val ws' /\ length ws' = length ws /\
    (forall k, bm_get ws' k = bm_get ws k || existsb (N.eqb k) idx) /\
    (words_ok ws -> words_ok ws').
Proof.
  induction idx as [|i r IH]; intros ws H.
  - exists ws. cbn. repeat split; auto. intros k. rewrite orb_false_r. reflexivity.
  - inversion H as [|? ? Hi Hr]; subst. cbn [or_bits].
    destruct (or_bit_some ws (word_of i) (bit_of i) Hi) as [ws1 E]. rewrite E.
    destruct (or_bit_spec _ _ _ _ (bit_of_lt i) E) as (L1 & G1 & O1).
    destruct (IH ws1) as (ws' & E2 & L2 & G2 & O2); [rewrite L1; exact Hr|].
    exists ws'. split; [exact E2|]. split; [congruence|]. split; [|auto].
    intros k. rewrite G2, G1. cbn [existsb]. rewrite <- (pos_split i). rewrite orb_assoc. reflexivity.
Qed.

(* ---------- of_cap ---------- *)
Definition bits_cap (idx : list N) (cap : N) : N :=
  match last_N idx with Some m => N.max cap (m + 1) | None => cap end.

Theorem of_cap_spec : forall idx cap,
  Forall (fun i => i < bits_cap idx cap) idx ->
  exists ws, of_cap idx cap = Val ws /\
    N.of_nat (length ws) = nwords_for (bits_cap idx cap) /\
    words_ok ws /\
    (forall k, bm_get ws k = existsb (N.eqb k) idx).
Proof.
  intros idx cap H. unfold of_cap. fold (bits_cap idx cap).
  set (n := bits_cap idx cap) in *.
  destruct (or_bits_spec idx (repeat 0 (N.to_nat (nwords_for n)))) as (ws & E & L & G & O).
  - rewrite repeat_length, N2Nat.id. eapply Forall_impl; [|exact H]. cbv beta. intros i Hi. apply word_of_lt. exact Hi.
  - exists ws. split; [exact E|]. split; [rewrite L, repeat_length, N2Nat.id; reflexivity|].
    split; [apply O, words_ok_repeat0|]. intros k. rewrite G, bm_get_repeat0. reflexivity.
Qed.

(* monotone lists: every element is at most the last one *)
Lemma last_N_le : forall idx m,
  StronglySorted N.le idx -> last_N idx = Some m -> Forall (fun i => i <= m) idx.
Proof.
  induction idx as [|x r IH]; intros m Hs H; [constructor|].
  destruct r as [|y r'].
  - injection H as <-. constructor; [lia|constructor].
  - change (last_N (x :: y :: r')) with (last_N (y :: r')) in H.
    inversion Hs as [|? ? Hs' Hall]; subst. pose proof (IH _ Hs' H) as Hr.
    constructor; [|exact Hr].
    inversion Hall as [|? ? Hxy _]; subst. inversion Hr; subst. lia.
Qed.

Lemma sorted_lt_le : forall l, StronglySorted N.lt l -> StronglySorted N.le l.
Proof.
  induction 1; constructor; auto. eapply Forall_impl; [|eassumption]. cbv beta. intros. lia.
Qed.

Lemma bits_cap_bound : forall idx cap, StronglySorted N.le idx -> Forall (fun i => i < bits_cap idx cap) idx.
Proof.
  intros idx cap Hs. unfold bits_cap. destruct (last_N idx) as [m|] eqn:E.
  - eapply Forall_impl; [|apply (last_N_le _ _ Hs E)]. cbv beta. intros. lia.
  - apply last_N_None in E. subst. constructor.
Qed.

Lemma last_N_in : forall idx m, last_N idx = Some m -> In m idx.
Proof. intros idx m H. apply (last_N_spec _ _ H). Qed.

(* the capacity wins when every position is below it *)
Lemma bits_cap_eq : forall idx cap, Forall (fun i => i < cap) idx -> bits_cap idx cap = cap.
Proof.
  intros idx cap H. unfold bits_cap. destruct (last_N idx) as [m|] eqn:E; [|reflexivity].
  apply last_N_in in E. rewrite Forall_forall in H. apply H in E. lia.
Qed.

(* bitmap built from a monotone list: the form used by every caller *)
Theorem of_cap_sorted : forall idx cap,
  StronglySorted N.le idx ->
  exists ws, of_cap idx cap = Val ws /\
    N.of_nat (length ws) = nwords_for (bits_cap idx cap) /\
    words_ok ws /\
    (forall k, bm_get ws k = true <-> In k idx).
Proof.
  intros idx cap Hs. destruct (of_cap_spec idx cap (bits_cap_bound _ _ Hs)) as (ws & E & L & O & G).
  exists ws. repeat split; auto.
  - intros H. rewrite G in H. apply existsb_eqb_In. exact H.
  - intros H. rewrite G. apply existsb_eqb_In. exact H.
Qed.

(* ---------- rank from a listed bitmap ---------- *)
Lemma rank_spec_listed : forall ws idx p,
  StronglySorted N.lt idx -> (forall k, bm_get ws k = true <-> In k idx) ->
  rank_spec ws p = N.of_nat (count_lt idx p).
Proof.
  intros ws idx p Hs Hf. unfold rank_spec. rewrite (count_below_sorted _ idx Hs Hf), N2Nat.id. reflexivity.
Qed.

Lemma rank_spec_mono : forall ws a b, a <= b -> rank_spec ws a <= rank_spec ws b.
Proof.
  intros ws a b H. unfold rank_spec.
  replace (N.to_nat b) with (N.to_nat a + (N.to_nat b - N.to_nat a))%nat by lia.
  rewrite count_below_add. lia.
Qed.

(* ---------- OfMany ---------- *)
Lemma SS_app_intro {A} (R : A -> A -> Prop) a b :
  StronglySorted R a -> StronglySorted R b -> (forall x y, In x a -> In y b -> R x y) ->
  StronglySorted R (a ++ b).
Proof.
  induction 1 as [|x a Ha IH Hx]; intros Hb Hab; [exact Hb|].
  cbn [app]. constructor.
  - apply IH; [exact Hb|]. intros. apply Hab; [right|]; assumption.
  - apply Forall_app. split; [exact Hx|]. rewrite Forall_forall. intros y Hy. apply Hab; [left; reflexivity|exact Hy].
Qed.

Definition seg_ok (s : list N * N) : Prop :=
  StronglySorted N.lt (fst s) /\ Forall (fun k => k < snd s) (fst s).

Lemma flat_pos_spec : forall segs base l t,
  Forall seg_ok segs -> flat_pos base segs = (l, t) ->
  t = base + fold_right (fun s a => snd s + a) 0 segs /\
  StronglySorted N.lt l /\ Forall (fun p => base <= p < t) l.
Proof.
  induction segs as [|[sub sz] r IH]; intros base l t Hok H.
  - cbn in H. injection H as <- <-. cbn. split; [lia|]. split; constructor.
  - cbn [flat_pos] in H. destruct (flat_pos (base + sz) r) as [l' t'] eqn:E. injection H as <- <-.
    inversion Hok as [|? ? [Hs Hb] Hr]; subst. cbn [fst snd] in *.
    destruct (IH _ _ _ Hr E) as (Ht & Hs' & Hb'). split; [cbn [fold_right snd]; lia|].
    assert (Hm : Forall (fun p => base <= p < base + sz) (map (N.add base) sub)).
    { rewrite Forall_forall in *. intros p Hp. apply in_map_iff in Hp. destruct Hp as (k & <- & Hk).
      apply Hb in Hk. lia. }
    split.
    + apply SS_app_intro.
      * clear -Hs. induction Hs; cbn [map]; constructor; auto.
        rewrite Forall_forall in *. intros p Hp. apply in_map_iff in Hp. destruct Hp as (k & <- & Hk).
        apply H in Hk. lia.
      * exact Hs'.
      * rewrite Forall_forall in *. intros p q Hp Hq. apply Hm in Hp. apply Hb' in Hq. lia.
    + apply Forall_app. split.
      * eapply Forall_impl; [|exact Hm]. cbv beta. intros. subst t'. lia.
      * eapply Forall_impl; [|exact Hb']. cbv beta. intros. lia.
Qed.

(* offsets and label counts of the segments before the i-th *)
Definition seg_off (segs : list (list N * N)) (i : nat) : N :=
  fold_right (fun s a => snd s + a) 0 (firstn i segs).
Definition seg_cnt (segs : list (list N * N)) (i : nat) : nat :=
  fold_right (fun s a => (length (fst s) + a)%nat) 0%nat (firstn i segs).

Lemma count_lt_app : forall a b p, count_lt (a ++ b) p = (count_lt a p + count_lt b p)%nat.
Proof. intros. unfold count_lt. rewrite filter_app, app_length. reflexivity. Qed.

Lemma count_lt_all : forall l p, Forall (fun x => x < p) l -> count_lt l p = length l.
Proof.
  induction l as [|x r IH]; intros p H; [reflexivity|]. inversion H; subst.
  unfold count_lt in *. cbn [filter]. destruct (N.ltb_spec x p); [|lia]. cbn [length]. rewrite IH; auto.
Qed.

Lemma count_lt_map_add : forall l b k, count_lt (map (N.add b) l) (b + k) = count_lt l k.
Proof.
  induction l as [|x r IH]; intros b k; [reflexivity|]. unfold count_lt in *. cbn [map filter].
  destruct (N.ltb_spec (b + x) (b + k)); destruct (N.ltb_spec x k); try lia; cbn [length]; rewrite IH; reflexivity.
Qed.

Lemma flat_pos_count : forall segs base l t,
  Forall seg_ok segs -> flat_pos base segs = (l, t) ->
  forall i sub sz k, nth_error segs i = Some (sub, sz) -> k <= sz ->
  count_lt l (base + seg_off segs i + k) = (seg_cnt segs i + count_lt sub k)%nat.
Proof.
  induction segs as [|[sub0 sz0] r IH]; intros base l t Hok H i sub sz k Hn Hk.
  - destruct i; discriminate.
  - cbn [flat_pos] in H. destruct (flat_pos (base + sz0) r) as [l' t'] eqn:E. injection H as <- <-.
    inversion Hok as [|? ? [Hs Hb] Hr]; subst. cbn [fst snd] in *.
    destruct (flat_pos_spec _ _ _ _ Hr E) as (_ & _ & Hb').
    rewrite count_lt_app. destruct i as [|i].
    + cbn in Hn. injection Hn as <- <-. unfold seg_off, seg_cnt. cbn [firstn fold_right].
      replace (base + 0 + k) with (base + k) by lia. rewrite count_lt_map_add.
      rewrite (count_lt_none l'); [lia|]. eapply Forall_impl; [|exact Hb']. cbv beta. intros. lia.
    + cbn [nth_error] in Hn. unfold seg_off, seg_cnt. cbn [firstn fold_right fst snd].
      fold (seg_off r i). fold (seg_cnt r i).
      rewrite count_lt_all.
      * rewrite map_length. replace (base + (sz0 + seg_off r i) + k) with (base + sz0 + seg_off r i + k) by lia.
        rewrite (IH _ _ _ Hr E _ _ _ _ Hn Hk). lia.
      * rewrite Forall_forall in *. intros p Hp. apply in_map_iff in Hp. destruct Hp as (q & <- & Hq).
        apply Hb in Hq. lia.
Qed.

Lemma flat_pos_in : forall segs base l t,
  Forall seg_ok segs -> flat_pos base segs = (l, t) ->
  forall i sub sz k, nth_error segs i = Some (sub, sz) -> k < sz ->
  (In (base + seg_off segs i + k) l <-> In k sub).
Proof.
  induction segs as [|[sub0 sz0] r IH]; intros base l t Hok H i sub sz k Hn Hk.
  - destruct i; discriminate.
  - cbn [flat_pos] in H. destruct (flat_pos (base + sz0) r) as [l' t'] eqn:E. injection H as <- <-.
    inversion Hok as [|? ? [Hs Hb] Hr]; subst. cbn [fst snd] in *.
    destruct (flat_pos_spec _ _ _ _ Hr E) as (_ & _ & Hb').
    rewrite in_app_iff, in_map_iff. destruct i as [|i].
    + cbn in Hn. injection Hn as <- <-. unfold seg_off. cbn [firstn fold_right].
      split.
      * intros [(q & Hq & Hin)|Hin]; [replace k with q by lia; exact Hin|].
        rewrite Forall_forall in Hb'. apply Hb' in Hin. lia.
      * intros Hin. left. exists k. split; [lia|exact Hin].
    + cbn [nth_error] in Hn. unfold seg_off. cbn [firstn fold_right fst snd]. fold (seg_off r i).
      replace (base + (sz0 + seg_off r i) + k) with (base + sz0 + seg_off r i + k) by lia.
      rewrite <- (IH _ _ _ Hr E _ _ _ _ Hn Hk). split; [|auto].
      intros [(q & Hq & Hin)|Hin]; [|exact Hin].
      rewrite Forall_forall in Hb. apply Hb in Hin. lia.
Qed.

Lemma flat_pos_total : forall segs base, snd (flat_pos base segs) = base + seg_off segs (length segs).
Proof.
  induction segs as [|[sub sz] r IH]; intros base; [cbn; lia|].
  cbn [flat_pos]. specialize (IH (base + sz)). destruct (flat_pos (base + sz) r) as [l t]. cbn [snd] in *.
  unfold seg_off in *. cbn [length firstn fold_right snd]. lia.
Qed.

(* OfMany = the concatenation of the sub-bitmaps: bit and rank at offset k of segment i *)
Theorem of_many_spec : forall segs,
  Forall seg_ok segs ->
  exists ws, of_many segs = Val ws /\ words_ok ws /\
    N.of_nat (length ws) = nwords_for (seg_off segs (length segs)) /\
    (forall k, bm_get ws k = true -> k < seg_off segs (length segs)) /\
    (forall i sub sz k, nth_error segs i = Some (sub, sz) -> k < sz ->
       (bm_get ws (seg_off segs i + k) = true <-> In k sub)) /\
    (forall i sub sz k, nth_error segs i = Some (sub, sz) -> k <= sz ->
       rank_spec ws (seg_off segs i + k) = N.of_nat (seg_cnt segs i + count_lt sub k)).
Proof.
  intros segs Hok. unfold of_many. pose proof (flat_pos_total segs 0) as Ht.
  destruct (flat_pos 0 segs) as [l t] eqn:E. cbn [snd] in Ht. rewrite N.add_0_l in Ht.
  destruct (flat_pos_spec _ _ _ _ Hok E) as (_ & Hs & Hb).
  assert (Hcap : bits_cap l t = t).
  { apply bits_cap_eq. eapply Forall_impl; [|exact Hb]. cbv beta. intros. lia. }
  destruct (of_cap_sorted l t (sorted_lt_le _ Hs)) as (ws & Ev & L & O & G).
  exists ws. split; [exact Ev|]. split; [exact O|]. split; [rewrite L, Hcap, Ht; reflexivity|].
  split; [|split].
  - intros k Hk. apply G in Hk. rewrite Forall_forall in Hb. apply Hb in Hk. lia.
  - intros i sub sz k Hn Hk. rewrite G.
    pose proof (flat_pos_in _ _ _ _ Hok E _ _ _ _ Hn Hk) as Hin. rewrite N.add_0_l in Hin. exact Hin.
  - intros i sub sz k Hn Hk. rewrite (rank_spec_listed ws l _ Hs G).
    pose proof (flat_pos_count _ _ _ _ Hok E _ _ _ _ Hn Hk) as Hc. rewrite N.add_0_l in Hc. rewrite Hc. reflexivity.
Qed.

(* ---------- IndexRank64 with the trailing total ---------- *)
Lemma index_rank64_t_length : forall ws n, length (index_rank64_t ws n) = S (length ws).
Proof. induction ws; intros; cbn [index_rank64_t length]; auto. Qed.

Lemma index_rank64_t_nth : forall ws, words_ok ws -> forall n0 w x,
  nthN (index_rank64_t ws n0) w = Some x ->
  x = n0 + N.of_nat (count_below (bm_get ws) (64 * N.to_nat w)).
Proof.
  induction ws as [|x0 r IH]; intros Hok n0 w x H.
  - cbn [index_rank64_t nthN] in H. destruct (N.eqb_spec w 0); [|discriminate]. injection H as <-.
    rewrite (count_below_false (bm_get [])); [lia|]. intros. apply bm_get_nil.
  - inversion Hok as [|? ? Hx0 Hr]; subst. cbn [index_rank64_t] in H.
    destruct (N.eqb_spec w 0) as [->|Hw].
    + cbn [nthN] in H. cbn in H. injection H as <-. cbn. lia.
    + replace w with (N.succ (N.pred w)) in H by lia. rewrite nthN_cons_succ in H.
      apply (IH Hr) in H. subst x.
      replace (64 * N.to_nat w)%nat with (64 + 64 * N.to_nat (N.pred w))%nat by lia.
      rewrite count_below_add.
      rewrite (count_below_ext (fun k => bm_get (x0 :: r) (N.of_nat 64 + k)) (bm_get r))
        by (intros k _; apply bm_get_cons_high).
      pose proof (count_below_word x0 r Hx0). lia.
Qed.

(* ---------- IndexRank128 / Rank128 ---------- *)
Lemma index_rank128_nth : forall n (ws : list N), (length ws <= n)%nat -> words_ok ws -> forall n0 k x,
  nthN (index_rank128 ws n0) k = Some x ->
  x = n0 + N.of_nat (count_below (bm_get ws) (128 * N.to_nat k)).
Proof.
  induction n as [|n IH]; intros ws Hlen Hok n0 k x H.
  - destruct ws; [|cbn in Hlen; lia]. cbn [index_rank128 nthN] in H.
    destruct (N.eqb_spec k 0); [|discriminate]. injection H as <-.
    rewrite (count_below_false (bm_get [])); [lia|]. intros. apply bm_get_nil.
  - destruct ws as [|w1 [|w2 r]].
    + cbn [index_rank128 nthN] in H. destruct (N.eqb_spec k 0); [|discriminate]. injection H as <-.
      rewrite (count_below_false (bm_get [])); [lia|]. intros. apply bm_get_nil.
    + cbn [index_rank128 nthN] in H. destruct (N.eqb_spec k 0) as [->|]; [|discriminate]. injection H as <-.
      cbn. lia.
    + inversion Hok as [|? ? H1 Hok']; subst. inversion Hok' as [|? ? H2 Hr]; subst.
      cbn [index_rank128] in H. destruct (N.eqb_spec k 0) as [->|Hk].
      * cbn [nthN] in H. cbn in H. injection H as <-. cbn. lia.
      * replace k with (N.succ (N.pred k)) in H by lia. rewrite nthN_cons_succ in H.
        apply (IH r) in H; [|cbn [length] in Hlen; lia|exact Hr]. subst x.
        replace (128 * N.to_nat k)%nat with (64 + (64 + 128 * N.to_nat (N.pred k)))%nat by lia.
        rewrite count_below_add.
        rewrite (count_below_ext (fun j => bm_get (w1 :: w2 :: r) (N.of_nat 64 + j)) (bm_get (w2 :: r)))
          by (intros j _; apply bm_get_cons_high).
        rewrite count_below_add.
        rewrite (count_below_ext (fun j => bm_get (w2 :: r) (N.of_nat 64 + j)) (bm_get r))
          by (intros j _; apply bm_get_cons_high).
        pose proof (count_below_word w1 (w2 :: r) H1). pose proof (count_below_word w2 r H2). lia.
Qed.

Lemma index_rank128_length : forall n (ws : list N), (length ws <= n)%nat -> forall n0,
  length (index_rank128 ws n0) = S (length ws / 2).
Proof.
  induction n as [|n IH]; intros ws Hlen n0.
  - destruct ws; [reflexivity|cbn in Hlen; lia].
  - destruct ws as [|w1 [|w2 r]]; [reflexivity|reflexivity|].
    cbn [index_rank128 length]. rewrite (IH r) by (cbn [length] in Hlen; lia).
    replace (S (S (length r))) with (length r + 1 * 2)%nat by lia. rewrite Nat.div_add by lia. lia.
Qed.

(* set bits of one word *)
Lemma count_word_at : forall ws w x,
  words_ok ws -> nthN ws w = Some x ->
  N.of_nat (count_below (bm_get ws) (64 * N.to_nat w + 64)) =
  N.of_nat (count_below (bm_get ws) (64 * N.to_nat w)) + popcount x.
Proof.
  intros ws w x Hok H. rewrite count_below_add.
  assert (Hx : x < 2 ^ 64).
  { unfold words_ok in Hok. rewrite Forall_forall in Hok. apply Hok.
    rewrite nthN_nth_error in H. eapply nth_error_In; exact H. }
  rewrite (popcount_spec 64 x Hx).
  rewrite (count_below_ext (fun k => bm_get ws (N.of_nat (64 * N.to_nat w) + k)) (N.testbit x) 64); [lia|].
  intros k Hk. replace (N.of_nat (64 * N.to_nat w)) with (64 * w) by lia. apply bm_get_word; [assumption|lia].
Qed.

Theorem rank128_correct : forall ws i r bit,
  words_ok ws ->
  rank128 ws (index_rank128 ws 0) i = Val (r, bit) ->
  r = rank_spec ws i /\ bit = N.b2n (bm_get ws i).
Proof.
  intros ws i r bit Hok H. unfold rank128 in H.
  destruct (nthN (index_rank128 ws 0) (N.shiftr (i + 64) 7)) as [n|] eqn:En; [|discriminate].
  destruct (nthN ws (word_of i)) as [x|] eqn:Ex; [|discriminate].
  injection H as <- <-.
  apply (index_rank128_nth (length ws) ws (le_n _) Hok) in En. rewrite N.add_0_l in En.
  split.
  - rewrite (pos_split i) at 3.
    rewrite (rank_spec_split ws _ _ x Ex) by (pose proof (bit_of_lt i); lia).
    rewrite popcount_land_ones.
    pose proof (count_word_at ws (word_of i) x Hok Ex) as Hc.
    pose proof (bit_of_lt i) as Hb. pose proof (pos_split i) as Hp.
    assert (Hs : N.shiftr (i + 64) 7 = (i + 64) / 128) by (rewrite N.shiftr_div_pow2; reflexivity).
    assert (Hl : N.land (word_of i) 1 = word_of i mod 2) by (change 1 with (N.ones 1); rewrite N.land_ones; reflexivity).
    rewrite Hl. destruct (N.eq_dec (word_of i mod 2) 0) as [He|He].
    + rewrite He.
      assert (Hq : N.shiftr (i + 64) 7 = word_of i / 2) by lia.
      rewrite Hq in En. subst n.
      replace (128 * N.to_nat (word_of i / 2))%nat with (64 * N.to_nat (word_of i))%nat by lia. lia.
    + assert (Ho : word_of i mod 2 = 1) by lia. rewrite Ho.
      assert (Hq : N.shiftr (i + 64) 7 = (word_of i + 1) / 2) by lia.
      rewrite Hq in En. subst n.
      replace (128 * N.to_nat ((word_of i + 1) / 2))%nat with (64 * N.to_nat (word_of i) + 64)%nat by lia.
      lia.
  - unfold bm_get. rewrite Ex. apply bit_test_spec.
Qed.

Theorem rank128_total : forall ws i,
  i < 64 * N.of_nat (length ws) -> exists r bit, rank128 ws (index_rank128 ws 0) i = Val (r, bit).
Proof.
  intros ws i H. unfold rank128.
  assert (Hw : word_of i < N.of_nat (length ws)) by (rewrite word_of_spec; lia).
  destruct (nthN_lt_Some ws (word_of i) Hw) as [x Ex]. rewrite Ex.
  destruct (nthN_lt_Some (index_rank128 ws 0) (N.shiftr (i + 64) 7)) as [n En].
  - rewrite (index_rank128_length (length ws) ws (le_n _)).
    rewrite N.shiftr_div_pow2. change (2 ^ 7) with 128. rewrite word_of_spec in Hw.
    assert (N.of_nat (length ws / 2) = N.of_nat (length ws) / 2) by (rewrite Nat2N.inj_div; reflexivity).
    lia.
  - rewrite En. eauto.
Qed.

Theorem rank64_total : forall ws i,
  i < 64 * N.of_nat (length ws) -> exists r bit, rank64 ws (index_rank64 ws 0) i = Val (r, bit).
Proof.
  intros ws i H. destruct (rank64 ws (index_rank64 ws 0) i) as [[r b]|] eqn:E; [eauto|].
  apply rank64_panic_iff in E. rewrite index_rank64_length in E. rewrite word_of_spec in E. lia.
Qed.
