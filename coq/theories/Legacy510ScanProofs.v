(* Legacy510ScanProofs.v - the scan APIs over a loaded 0.5.10 / 0.5.11 message.

   Section OldSelScan: for every message m whose position bitmaps carry the indexes of
   IndexSelect32R64 (Legacy510QueryProofs.pos_ok), every function of ScanMsg.v (getGEPath,
   NewIter, the iterator closure, ScanFrom, ScanFromTo) returns on old_sel_msg m exactly what
   it returns on m.  loaded510_scans composes this with conv510_built and the theorems of
   ScanMsgMainProofs.v. *)
From Coq Require Import List Arith Bool NArith ZArith Lia Sorted.
From Slim Require Import Base Keys Model BitmapRank BitmapRank2 Bits Msg MsgProofs Scan ScanBasicProofs ScanProofs ScanMsg
     ScanMsgIterProofs ScanMsgMainProofs Legacy510 Legacy510Proofs Legacy510QueryProofs.
Import ListNotations.
Local Open Scope N_scope.

Section OldSelScan.
  Variable m : msg.
  Hypothesis Hpos : pos_ok m.
  Let m' := old_sel_msg m.

  Lemma mleftmost_path_old vs : forall fuel id, mleftmost_path fuel m' vs id = mleftmost_path fuel m vs id.
  Proof.
    induction fuel as [|f IH]; intros id; [reflexivity|]. cbn [mleftmost_path]. unfold m'. rewrite (get_node_old m Hpos). fold m'.
    destruct (get_node m vs (N.of_nat id)) as [[ith tail|ith wsz from to bm plen pfx]|]; try reflexivity.
    change (first_child m' from) with (first_child m from). destruct (first_child m from); [rewrite IH|]; reflexivity.
  Qed.

  Lemma msg_complete_old : msg_complete m' = msg_complete m.
  Proof.
    unfold msg_complete, m'. cbn [old_sel_msg m_innerpfx m_leafpfx].
    destruct (m_innerpfx m) as [ip|]; cbn [option_map]; [|reflexivity].
    unfold old_sel_vl at 1. cbn [v_position]. destruct (v_position ip); cbn [option_map]; [|reflexivity].
    destruct (m_leafpfx m); reflexivity.
  Qed.

  Lemma mge_down_old vs qn l : forall fuel id i path rc,
    mge_down fuel m' vs qn l id i path rc = mge_down fuel m vs qn l id i path rc.
  Proof.
    induction fuel as [|f IH]; intros id i path rc; [reflexivity|]. cbn [mge_down].
    unfold m'. rewrite (get_node_old m Hpos), (get_view_old m Hpos). fold m'.
    destruct (get_node m vs (N.of_nat id)) as [[ith tail|ith wsz from to bm plen pfx]|]; [reflexivity| |reflexivity].
    destruct (get_view m vs (N.of_nat id)) as [[? ? ?|vid big step vpfx fc labels]|]; [reflexivity| |reflexivity].
    destruct (ge_advance qn i vpfx) as [i1| |]; [|reflexivity|reflexivity].
    change (left_child m' from to bm (N.of_nat (label_at big qn i1))) with (left_child m from to bm (N.of_nat (label_at big qn i1))).
    change (last_child m' to) with (last_child m to).
    destruct (left_child m from to bm (N.of_nat (label_at big qn i1))) as [[lch has]|]; [|reflexivity].
    destruct (last_child m to) as [rm|]; [|reflexivity].
    cbv zeta. destruct (N.eqb has 0); [reflexivity|]. destruct (Nat.eqb i1 l); [reflexivity|]. apply IH.
  Qed.

  Lemma mge_path_old fuel vs q : mge_path fuel m' vs q = mge_path fuel m vs q.
  Proof.
    unfold mge_path. change (m_nodetype m') with (m_nodetype m). destruct (m_nodetype m); [|reflexivity].
    rewrite msg_complete_old. destruct (msg_complete m); [|reflexivity]. cbv zeta. rewrite mge_down_old.
    destruct (mge_down fuel m vs (nibs q) (length (nibs q)) 0 0 [] None) as [[[path eq] rc]|]; cbn [bind]; [|reflexivity].
    assert (Hfb : match rc with
                  | Some (rid, rpl) => do lp <- mleftmost_path fuel m' vs rid; Ok (firstn rpl path ++ lp, false)
                  | None => Ok ([], false)
                  end =
                  match rc with
                  | Some (rid, rpl) => do lp <- mleftmost_path fuel m vs rid; Ok (firstn rpl path ++ lp, false)
                  | None => Ok ([], false)
                  end).
    { destruct rc as [[rid rpl]|]; [rewrite mleftmost_path_old|]; reflexivity. }
    rewrite Hfb. destruct eq as [[[id i] visited]|]; [|reflexivity].
    unfold m' at 1. cbn [old_sel_msg m_leafpfx]. destruct (m_leafpfx m); cbn [option_map]; [|reflexivity].
    fold m'. unfold m'. rewrite (msess_tail_old m Hpos). reflexivity.
  Qed.

  Lemma mdescend_first_old vs : forall fuel c last buf stk,
    mdescend_first fuel m' vs c last buf stk = mdescend_first fuel m vs c last buf stk.
  Proof.
    induction fuel as [|f IH]; intros c last buf stk; [reflexivity|]. cbn [mdescend_first].
    unfold m'. rewrite (get_view_old m Hpos). fold m'.
    destruct (get_view m vs (N.of_nat c)) as [[? ? ?|vid big step vpfx fc labels]|]; [reflexivity| |reflexivity].
    destruct (minit_frame _ None (mf_le last)) as [f0|]; cbn [bind]; [|reflexivity].
    destruct (mappend_inner_prefix f0 _ buf) as [b1|]; cbn [bind]; [|reflexivity].
    destruct (mappend_label f0 b1) as [b2|]; cbn [bind]; [|reflexivity]. apply IH.
  Qed.

  Lemma mleaf_val_old vs withv id : mleaf_val m' vs withv id = mleaf_val m vs withv id.
  Proof. unfold mleaf_val. destruct withv; [|reflexivity]. unfold m'. rewrite (get_node_old m Hpos). reflexivity. Qed.

  Lemma minit_frames_old vs : forall path bufidx buf stk,
    minit_frames m' vs path bufidx buf stk = minit_frames m vs path bufidx buf stk.
  Proof.
    induction path as [|t rest IH]; intros bufidx buf stk; [reflexivity|]. cbn [minit_frames].
    destruct rest as [|c rest']; [reflexivity|].
    unfold m'. rewrite (get_view_old m Hpos). fold m'.
    destruct (get_view m vs (N.of_nat t)) as [v|]; [|reflexivity].
    destruct (minit_frame v (Some c) bufidx) as [f0|]; cbn [bind]; [|reflexivity].
    destruct (mappend_inner_prefix f0 _ buf) as [b1|]; cbn [bind]; [|reflexivity].
    destruct (mappend_label f0 b1) as [b2|]; cbn [bind]; [|reflexivity]. apply IH.
  Qed.

  Lemma mnew_iter_old vs path skip withv : mnew_iter m' vs path skip withv = mnew_iter m vs path skip withv.
  Proof. unfold mnew_iter. rewrite minit_frames_old. reflexivity. Qed.

  Lemma miter_init_old fuel vs start incl withv : miter_init fuel m' vs start incl withv = miter_init fuel m vs start incl withv.
  Proof.
    unfold miter_init. rewrite mge_path_old. destruct (mge_path fuel m vs start) as [[path eq]|]; cbn [bind]; [|reflexivity].
    apply mnew_iter_old.
  Qed.

  Lemma miter_next_old fuel vs it : miter_next fuel m' vs it = miter_next fuel m vs it.
  Proof.
    unfold miter_next. destruct (mit_mode it) as [|c consumed].
    - destruct (mit_stack it) as [|top rest]; [reflexivity|].
      destruct (mappend_label top (mit_buf it)) as [b1|]; cbn [bind]; [|reflexivity].
      destruct (nth_error (mf_labels top) (mf_idx top)); [|reflexivity].
      rewrite mdescend_first_old.
      destruct (mdescend_first fuel m vs (mf_fc top + mf_idx top) top b1 (top :: rest)) as [[sb leaf]|]; cbn [bind]; [|reflexivity].
      destruct (pack_res (snd sb)); cbn [bind]; [|reflexivity]. rewrite mleaf_val_old. reflexivity.
    - destruct consumed; [reflexivity|]. unfold m'. rewrite (get_view_old m Hpos). fold m'.
      destruct (get_view m vs (N.of_nat c)) as [[? ? tail|? ? ? ? ? ?]|]; [|reflexivity|reflexivity].
      destruct (pack_res _); cbn [bind]; [|reflexivity]. rewrite mleaf_val_old. reflexivity.
  Qed.

  Lemma miter_run_old fuel vs : forall n it, miter_run fuel n m' vs it = miter_run fuel n m vs it.
  Proof.
    induction n as [|n IH]; intros it; [reflexivity|]. cbn [miter_run]. rewrite miter_next_old.
    destruct (miter_next fuel m vs it) as [[r it']|]; cbn [bind]; [|reflexivity]. rewrite IH. reflexivity.
  Qed.

  Lemma miter_drain_old fuel vs : forall lfuel it, miter_drain fuel lfuel m' vs it = miter_drain fuel lfuel m vs it.
  Proof.
    induction lfuel as [|f IH]; intros it; [reflexivity|]. cbn [miter_drain]. rewrite miter_next_old.
    destruct (miter_next fuel m vs it) as [[r it']|]; cbn [bind]; [|reflexivity]. destruct r; [rewrite IH|]; reflexivity.
  Qed.

  Lemma miter_all_old fuel lfuel vs start incl withv extra :
    miter_all fuel lfuel m' vs start incl withv extra = miter_all fuel lfuel m vs start incl withv extra.
  Proof.
    unfold miter_all. rewrite miter_init_old. destruct (miter_init fuel m vs start incl withv) as [it|]; cbn [bind]; [|reflexivity].
    rewrite miter_drain_old. destruct (miter_drain fuel lfuel m vs it) as [[xs it']|]; cbn [bind]; [|reflexivity].
    rewrite miter_run_old. reflexivity.
  Qed.

  Lemma mscan_loop_old fuel vs wrap : forall lfuel it i,
    mscan_loop fuel lfuel m' vs it wrap i = mscan_loop fuel lfuel m vs it wrap i.
  Proof.
    induction lfuel as [|f IH]; intros it i; [reflexivity|]. cbn [mscan_loop]. rewrite miter_next_old.
    destruct (miter_next fuel m vs it) as [[r it']|]; cbn [bind]; [|reflexivity]. destruct r as [x|]; [|reflexivity].
    destruct (wrap i x) as [cont delivered]. destruct cont; [rewrite IH|]; reflexivity.
  Qed.

  Lemma mscan_from_old fuel lfuel vs start incl withv fn :
    mscan_from fuel lfuel m' vs start incl withv fn = mscan_from fuel lfuel m vs start incl withv fn.
  Proof.
    unfold mscan_from. rewrite miter_init_old. destruct (miter_init fuel m vs start incl withv); cbn [bind]; [|reflexivity].
    apply mscan_loop_old.
  Qed.

  Lemma mscan_from_to_old fuel lfuel vs start incl e incle withv fn :
    mscan_from_to fuel lfuel m' vs start incl e incle withv fn = mscan_from_to fuel lfuel m vs start incl e incle withv fn.
  Proof.
    unfold mscan_from_to. rewrite miter_init_old. destruct (miter_init fuel m vs start incl withv); cbn [bind]; [|reflexivity].
    apply mscan_loop_old.
  Qed.

  Lemma msg_scan_fuel_old : msg_scan_fuel m' = msg_scan_fuel m.
  Proof. reflexivity. Qed.
End OldSelScan.

(* ---------- scans over a loaded 0.5.10 / 0.5.11 message ---------- *)
Theorem loaded510_scans : forall o keys vals T esize,
  build o keys vals = Ok T -> leaves_fixed esize T ->
  exists Om L vs,
    encode_0510 T = Val Om /\ load510 esize Om = Ok L /\ init_vars L = Val vs /\
    forall fuel, (trie_height T <= fuel)%nat ->
      (* NewIter and every call of its closure: what Scan.v's iterator gives on the tree *)
      (forall s incl withv,
         match iter_init T s incl withv with
         | Ok it => miter_init fuel L vs s incl withv = Ok (ScanMsgIterProofs.miter_of it) /\
                    forall n, miter_run fuel n L vs (ScanMsgIterProofs.miter_of it) = iter_run n T it
         | Err e => miter_init fuel L vs s incl withv = Err e
         end) /\
      (* full prefixes: exactly the retained entries in range, in order, with their values *)
      (complete_opts o = true ->
       forall s incl withv, exists mit outs,
         miter_init fuel L vs s incl withv = Ok mit /\
         Forall2 (elem_ok keys vals withv) (scan_indexes o keys vals s incl) outs /\
         (forall n, miter_run fuel n L vs mit = Ok (firstn n (map Some outs ++ repeat None n))) /\
         (forall lfuel fn, (scan_fuel T <= lfuel)%nat -> mscan_from fuel lfuel L vs s incl withv fn = Ok (cut fn 0 outs)) /\
         (forall lfuel e incle fn, (scan_fuel T <= lfuel)%nat ->
            mscan_from_to fuel lfuel L vs s incl e incle withv fn = Ok (cut_to e incle fn 0 outs))) /\
      (* otherwise: the explicit refusal of getGEPath *)
      (keys <> [] -> complete_opts o = false ->
       forall lfuel s incl withv,
         miter_init fuel L vs s incl withv = Err (EPanic 20) /\
         (forall fn, mscan_from fuel lfuel L vs s incl withv fn = Err (EPanic 20)) /\
         (forall e incle fn, mscan_from_to fuel lfuel L vs s incl e incle withv fn = Err (EPanic 20))).
Proof.
  intros o keys vals T esize Hb Hlv.
  destruct (built_encodes o keys vals T Hb) as (M & vs & Em & Ev).
  destruct (conv510_built o keys vals T esize M Hb Em Hlv) as (Om & Eo & El).
  pose proof (encoded_pos_ok T M Em) as Hp.
  exists Om, (old_sel_msg M), vs. split; [exact Eo|]. split; [exact El|]. split; [exact Ev|].
  intros fuel Hf. split; [|split].
  - intros s incl withv. pose proof (miter_run_init o keys vals T M vs fuel Hb Em Ev Hf s incl withv) as H.
    rewrite (miter_init_old M Hp). destruct (iter_init T s incl withv) as [it|e]; [|exact H].
    destruct H as [H1 H2]. split; [exact H1|]. intros n. rewrite (miter_run_old M Hp). apply H2.
  - intros Hc s incl withv.
    destruct (mscan_complete o keys vals T M vs fuel Hb Em Ev Hf Hc s incl withv) as (mit & outs & H1 & H2 & H3 & H4 & H5).
    exists mit, outs. rewrite (miter_init_old M Hp). split; [exact H1|]. split; [exact H2|]. split; [|split].
    + intros n. rewrite (miter_run_old M Hp). apply H3.
    + intros lfuel fn Hl. rewrite (mscan_from_old M Hp). apply H4. exact Hl.
    + intros lfuel e incle fn Hl. rewrite (mscan_from_to_old M Hp). apply H5. exact Hl.
  - intros Hne Hc lfuel s incl withv.
    destruct (mscan_refuses o keys vals T M vs fuel lfuel Hb Em Ev Hf Hne Hc s incl withv) as (H1 & H2 & H3).
    rewrite (miter_init_old M Hp). split; [exact H1|]. split.
    + intros fn. rewrite (mscan_from_old M Hp). apply H2.
    + intros e incle fn. rewrite (mscan_from_to_old M Hp). apply H3.
Qed.
