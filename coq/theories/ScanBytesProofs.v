(* ScanBytesProofs.v - the byte-level key buffer of the scan iterator
   (ScanBytes.v: appendInnerPrefix / appendLabel / appendLeafPrefix / init /
   updateLabel as the Go code performs them, bitstr.New / bitstr.Len) refines the
   nibble buffer of Scan.v:

   * [represents nb bb]: the byte buffer has ceil(|nb|/2) bytes and its first |nb|
     nibbles are nb (the low half of the last byte is unconstrained when |nb| is
     odd);
   * each byte operation maps a representing buffer to a buffer representing the
     result of the nibble operation, with cursors bits = 4 x nibbles;
   * bitstr.New on a key = the bitstr of the nibble prefix the tree model stores;
   * the byte-level iterator is simulated by Scan's iterator call by call
     (whenever the latter does not fail): same keys, same values;
   * on built tries every stored prefix is made of nibbles and every label is
     < 17 / < 257, so the simulation applies; composed with ScanProofs.scan_complete
     this gives C04 for the byte-level iterator. *)
From Slim Require Import Base Keys KeysProofs ListFacts Model TrieInv BuildProofs OrderProofs
     Scan ScanBasicProofs ScanIterProofs ScanItemsProofs ScanGeProofs ScanProofs ScanBytes.
From Coq Require Import ZifyN ZifyNat ZifyBool.
Ltac Zify.zify_post_hook ::= Z.div_mod_to_equations.

Arguments Nat.div : simpl never.
Arguments Nat.modulo : simpl never.

(* ---------- position arithmetic: bits = 4 x nibbles ---------- *)
Lemma even_mod2 n : Nat.even n = (n mod 2 =? 0).
Proof.
  destruct (Nat.even n) eqn:E.
  - apply Nat.even_spec in E. destruct E as [k ->]. symmetry. apply Nat.eqb_eq. lia.
  - rewrite <- Nat.negb_odd in E. apply negb_false_iff in E. apply Nat.odd_spec in E. destruct E as [k ->].
    symmetry. apply Nat.eqb_neq. lia.
Qed.

Lemma shr3_4 n : shr3 (4 * n) = n / 2.
Proof. unfold shr3. lia. Qed.

Lemma shr3_4_up n : shr3 (4 * n + 7) = (n + 1) / 2.
Proof. unfold shr3. lia. Qed.

Lemma clr7_4 n : clr7 (4 * n) = 4 * even_down n.
Proof. unfold clr7, even_down. lia. Qed.

Lemma and7_4 n : (and7 (4 * n) =? 0) = Nat.even n.
Proof.
  rewrite even_mod2. unfold and7. destruct (Nat.eqb_spec (n mod 2) 0) as [H|H].
  - apply Nat.eqb_eq. lia.
  - apply Nat.eqb_neq. lia.
Qed.

Lemma even_down_half_up n : (even_down n + 1) / 2 = n / 2.
Proof. unfold even_down. lia. Qed.

Lemma even_length_even_down n : Nat.even (even_down n) = true.
Proof. apply even_down_even. Qed.

(* ---------- uint8 ---------- *)
Lemma to_N_trunc n : (n < 256)%N -> Byte.to_N (byte_trunc n) = n.
Proof.
  intros H. unfold byte_trunc. rewrite N.mod_small by exact H.
  destruct (Byte.of_N n) eqn:E; [apply Byte.to_of_N; exact E|].
  apply Byte.of_N_None_iff in E. lia.
Qed.

Lemma to_nat_trunc n : n < 256 -> Byte.to_nat (byte_trunc (N.of_nat n)) = n.
Proof. intros H. rewrite Byte.to_nat_via_N, to_N_trunc by lia. lia. Qed.

Lemma trunc_to_N c : byte_trunc (Byte.to_N c) = c.
Proof.
  unfold byte_trunc. pose proof (Byte.to_N_bounded c). rewrite N.mod_small by lia.
  rewrite Byte.of_to_N. reflexivity.
Qed.

Lemma trunc_to_nat c : byte_trunc (N.of_nat (Byte.to_nat c)) = c.
Proof. rewrite <- Byte.to_N_via_nat. apply trunc_to_N. Qed.

Lemma nibs_of_nib2 a b : a < 16 -> b < 16 -> nibs_of_byte (byte_of_nib2 a b) = [a; b].
Proof.
  intros Ha Hb. unfold nibs_of_byte, byte_of_nib2. rewrite to_nat_trunc by lia.
  f_equal; [lia|f_equal; lia].
Qed.

(* exhaustive checks over all byte values *)
Definition all_bytes : list byte := map (fun n => byte_trunc (N.of_nat n)) (seq 0 256).

Lemma in_all_bytes c : In c all_bytes.
Proof.
  unfold all_bytes. apply in_map_iff. exists (Byte.to_nat c). split; [apply trunc_to_nat|].
  apply in_seq. pose proof (byte_to_nat_lt c). lia.
Qed.

Definition nats_eqb (a b : list nat) : bool := list_eqb Nat.eqb a b.

Lemma nats_eqb_eq : forall a b, nats_eqb a b = true -> a = b.
Proof.
  unfold nats_eqb. induction a as [|x a IH]; intros [|y b] H; cbn in H; try discriminate; [reflexivity|].
  apply andb_true_iff in H. destruct H as [H1 H2]. apply Nat.eqb_eq in H1. subst y. f_equal. apply IH. exact H2.
Qed.

Lemma forall_byte_nat (n : nat) (P : byte -> nat -> bool) :
  forallb (fun c => forallb (P c) (seq 0 n)) all_bytes = true ->
  forall c v, v < n -> P c v = true.
Proof.
  intros H c v Hv. rewrite forallb_forall in H. specialize (H c (in_all_bytes c)).
  rewrite forallb_forall in H. apply H. apply in_seq. lia.
Qed.

(* appendLabel, 4-bit label at an odd nibble: c&^0x0f | label&0x0f keeps the high half *)
Lemma merge_label_nibs c v : v < 16 ->
  nibs_of_byte (merge_label c v (mask8 4)) = [Byte.to_nat c / 16; v].
Proof.
  intros Hv. apply nats_eqb_eq. revert c v Hv.
  apply (forall_byte_nat 16 (fun c v => nats_eqb (nibs_of_byte (merge_label c v (mask8 4))) [Byte.to_nat c / 16; v])).
  vm_compute. reflexivity.
Qed.

(* appendLabel, 4-bit label at an even nibble: the fresh byte label<<4 *)
Lemma fresh_label4_nibs v : v < 16 -> nibs_of_byte (fresh_label v 4 (mask8 4)) = [v; 0].
Proof.
  intros Hv. apply nats_eqb_eq. revert v Hv.
  assert (forallb (fun v => nats_eqb (nibs_of_byte (fresh_label v 4 (mask8 4))) [v; 0]) (seq 0 16) = true) as H
      by (vm_compute; reflexivity).
  intros v Hv. rewrite forallb_forall in H. apply H. apply in_seq. lia.
Qed.

(* appendLabel, 8-bit label: the fresh byte is the label *)
Lemma fresh_label8_nibs v : v < 256 -> nibs_of_byte (fresh_label v 8 (mask8 8)) = [v / 16; v mod 16].
Proof.
  intros Hv. apply nats_eqb_eq. revert v Hv.
  assert (forallb (fun v => nats_eqb (nibs_of_byte (fresh_label v 8 (mask8 8))) [v / 16; v mod 16]) (seq 0 256) = true) as H
      by (vm_compute; reflexivity).
  intros v Hv. rewrite forallb_forall in H. apply H. apply in_seq. lia.
Qed.

(* bitstr.New: the last payload byte & RMask *)
Lemma byte_and_rmask0 c : byte_and c (rmask8 0) = c.
Proof.
  assert (forallb (fun c => Byte.eqb (byte_and c (rmask8 0)) c) all_bytes = true) as H by (vm_compute; reflexivity).
  rewrite forallb_forall in H. specialize (H c (in_all_bytes c)). apply Byte.byte_dec_bl in H. exact H.
Qed.

Lemma byte_and_rmask4 c : byte_and c (rmask8 4) = byte_of_nib2 (Byte.to_nat c / 16) 0.
Proof.
  assert (forallb (fun c => Byte.eqb (byte_and c (rmask8 4)) (byte_of_nib2 (Byte.to_nat c / 16) 0)) all_bytes = true) as H
      by (vm_compute; reflexivity).
  rewrite forallb_forall in H. specialize (H c (in_all_bytes c)). apply Byte.byte_dec_bl in H. exact H.
Qed.

(* ---------- nibbles of byte strings ---------- *)
Lemma nibs_app a b : nibs (a ++ b) = nibs a ++ nibs b.
Proof. unfold nibs. apply flat_map_app. Qed.

Lemma firstn_nibs : forall n k, firstn (2 * n) (nibs k) = nibs (firstn n k).
Proof.
  induction n as [|n IH]; intros k; [reflexivity|].
  destruct k as [|b k]; [reflexivity|].
  replace (2 * S n) with (S (S (2 * n))) by lia. rewrite nibs_cons. cbn [firstn]. rewrite IH, nibs_cons. reflexivity.
Qed.

Lemma pair_ind {A} (P : list A -> Prop) :
  P [] -> (forall a, P [a]) -> (forall a b r, P r -> P (a :: b :: r)) -> forall l, P l.
Proof.
  intros H0 H1 H2. fix IH 1. intros [|a [|b r]]; [exact H0|apply H1|apply H2; apply IH].
Qed.

Lemma pack0_length : forall p, length (pack0 p) = (length p + 1) / 2.
Proof.
  induction p as [|a|a b r IH] using pair_ind; [reflexivity|reflexivity|].
  cbn [pack0 length]. rewrite IH. lia.
Qed.

Lemma nibs_pack0 : forall p, Forall (fun x => x < 16) p ->
  nibs (pack0 p) = p ++ (if Nat.even (length p) then [] else [0]).
Proof.
  induction p as [|a|a b r IH] using pair_ind; intros F; [reflexivity| |].
  - inversion F; subst. cbn [pack0]. unfold nibs. cbn [flat_map]. rewrite nibs_of_nib2 by lia. reflexivity.
  - inversion F as [|? ? Ha F']; subst. inversion F' as [|? ? Hb F'']; subst.
    cbn [pack0]. change (nibs (byte_of_nib2 a b :: pack0 r)) with (nibs_of_byte (byte_of_nib2 a b) ++ nibs (pack0 r)).
    rewrite nibs_of_nib2 by assumption. rewrite (IH F''). reflexivity.
Qed.

Lemma pack0_nibs : forall k, pack0 (nibs k) = k.
Proof.
  induction k as [|b k IH]; [reflexivity|]. rewrite nibs_cons. cbn [pack0]. rewrite IH. f_equal.
  unfold byte_of_nib2. pose proof (byte_to_nat_lt b).
  replace (16 * (Byte.to_nat b / 16) + Byte.to_nat b mod 16) with (Byte.to_nat b) by lia.
  apply trunc_to_nat.
Qed.

(* ---------- the representation relation ---------- *)
Lemma rep_nil : represents [] [].
Proof. split; reflexivity. Qed.

Lemma rep_length nb bb : represents nb bb -> length bb = (length nb + 1) / 2.
Proof. intros [_ H]. exact H. Qed.

Lemma rep_lt16 nb bb : represents nb bb -> Forall (fun x => x < 16) nb.
Proof.
  intros [H _]. rewrite <- H. unfold unpack_n.
  rewrite Forall_forall. intros x Hx. apply In_firstn_in in Hx.
  pose proof (nibs_lt bb) as F. rewrite Forall_forall in F. apply F. exact Hx.
Qed.

(* an even-length nibble buffer is represented by exactly one byte string *)
Lemma rep_even_nibs nb bb : represents nb bb -> Nat.even (length nb) = true -> nibs bb = nb.
Proof.
  intros [H L] E. rewrite <- H. unfold unpack_n. symmetry. apply firstn_all2.
  rewrite nibs_length, L. rewrite even_mod2 in E. apply Nat.eqb_eq in E. lia.
Qed.

Lemma rep_nibs k : represents (nibs k) k.
Proof.
  split.
  - unfold unpack_n. apply firstn_all2. lia.
  - rewrite nibs_length. lia.
Qed.

Lemma rep_pack0 p : Forall (fun x => x < 16) p -> represents p (pack0 p).
Proof.
  intros F. split; [|apply pack0_length].
  unfold unpack_n. rewrite (nibs_pack0 p F). rewrite firstn_app_le by lia. apply firstn_all2. lia.
Qed.

(* cutting both buffers: (buf)[:ceil(n/2)] represents the first n nibbles *)
Lemma rep_firstn nb bb n : represents nb bb -> n <= length nb ->
  represents (firstn n nb) (firstn ((n + 1) / 2) bb).
Proof.
  intros [H L] Hn. unfold represents, unpack_n in *.
  rewrite !firstn_length, L. split; [|lia].
  replace (Nat.min n (length nb)) with n by lia.
  rewrite <- firstn_nibs, firstn_firstn.
  replace (Nat.min n (2 * ((n + 1) / 2))) with n by lia.
  transitivity (firstn n (firstn (length nb) (nibs bb))); [|rewrite H; reflexivity].
  rewrite firstn_firstn. f_equal. lia.
Qed.

(* appending at a byte boundary *)
Lemma rep_app nb bb x y : represents nb bb -> Nat.even (length nb) = true -> represents x y ->
  represents (nb ++ x) (bb ++ y).
Proof.
  intros R E [Hx Lx]. pose proof (rep_even_nibs nb bb R E) as Hn. destruct R as [_ L].
  rewrite even_mod2 in E. apply Nat.eqb_eq in E.
  unfold represents, unpack_n in *. rewrite !app_length, nibs_app, Hn. split; [|lia].
  rewrite firstn_app. replace (length nb + length x - length nb) with (length x) by lia.
  rewrite Hx. rewrite firstn_all2 by lia. reflexivity.
Qed.

(* an odd-length buffer: the last byte holds the last nibble in its high half *)
Lemma rep_odd_inv nb bb : represents nb bb -> Nat.even (length nb) = false ->
  exists bb0 c, bb = bb0 ++ [c] /\ nb = nibs bb0 ++ [Byte.to_nat c / 16].
Proof.
  intros [H L] E. rewrite even_mod2 in E. apply Nat.eqb_neq in E.
  assert (bb <> []) as Hne by (intros ->; cbn in L; lia).
  exists (removelast bb), (last bb x00). split; [apply app_removelast_last; exact Hne|].
  rewrite (app_removelast_last x00 Hne) in H, L. set (bb0 := removelast bb) in *. set (c := last bb x00) in *.
  rewrite app_length in L. cbn [length] in L.
  unfold unpack_n in H. rewrite nibs_app in H. rewrite <- H.
  rewrite firstn_app, nibs_length. replace (length nb - 2 * length bb0) with 1 by lia.
  rewrite firstn_all2 by (rewrite nibs_length; lia). reflexivity.
Qed.

(* the key handed out: an even-length nibble buffer packs to exactly the byte buffer *)
Lemma rep_pack nb bb : represents nb bb -> Nat.even (length nb) = true -> pack nb = Some bb.
Proof. intros R E. rewrite <- (rep_even_nibs nb bb R E). apply pack_nibs. Qed.

Lemma rep_pack0_eq nb bb : represents nb bb -> Nat.even (length nb) = true -> pack0 nb = bb.
Proof. intros R E. rewrite <- (rep_even_nibs nb bb R E). apply pack0_nibs. Qed.

Lemma rep_byte c x : nibs_of_byte c = x -> represents x [c].
Proof.
  intros <-. pose proof (rep_nibs [c]) as H. unfold nibs in H. cbn [flat_map] in H. rewrite app_nil_r in H. exact H.
Qed.

Lemma rep_half c v w : nibs_of_byte c = [v; w] -> represents [v] [c].
Proof.
  intros H. split; [|reflexivity]. unfold unpack_n, nibs. cbn [flat_map length]. rewrite H. reflexivity.
Qed.

Lemma upd_last_app f l c : upd_last f (l ++ [c]) = Ok (l ++ [f c]).
Proof. unfold upd_last. rewrite rev_app_distr. cbn [rev app]. rewrite rev_involutive. reflexivity. Qed.

(* ---------- bitstr ---------- *)
Lemma bitstr_of_nibs_last p : bitstr_of_nibs p <> [] /\ removelast (bitstr_of_nibs p) = pack0 p.
Proof.
  destruct p as [|a r]; [split; [discriminate|reflexivity]|].
  unfold bitstr_of_nibs. split; [intros E; apply app_eq_nil in E; destruct E; discriminate|].
  apply removelast_last.
Qed.

(* bitstr.Len of the stored prefix = 4 x its number of nibbles *)
Lemma bitstr_len_of_nibs p : bitstr_len (bitstr_of_nibs p) = Ok (4 * length p).
Proof.
  destruct p as [|a r]; [reflexivity|].
  unfold bitstr_of_nibs, bitstr_len. rewrite rev_app_distr. cbn [rev app].
  rewrite app_length, pack0_length. cbn [length] in *.
  set (n := S (length r)). rewrite even_mod2.
  destruct (Nat.eqb_spec (n mod 2) 0) as [E|E].
  - change (popcount8 xff) with 8. destruct (Nat.ltb_spec (8 * ((n + 1) / 2 + 1) + 8) 16); [lia|]. f_equal. lia.
  - change (popcount8 xf0) with 4. destruct (Nat.ltb_spec (8 * ((n + 1) / 2 + 1) + 4) 16); [lia|]. f_equal. lia.
Qed.

(* ---------- frames ---------- *)
Definition frame_rel (f : frame) (bf : bframe) : Prop :=
  bf_big bf = f_big f /\ bf_ch bf = f_ch f /\ bf_idx bf = f_idx f /\
  bf_ps bf = 4 * f_ps f /\ bf_pe bf = 4 * f_pe f /\ bf_le bf = 4 * f_le f /\
  exists lb c, nth_error (f_ch f) (f_idx f) = Some (lb, c) /\
               (bf_lw bf, bf_label bf) = label_wl (f_big f) lb.

(* the label with index lb fits its word: < 17 for a 17-bit bitmap, < 257 for a 257-bit bitmap *)
Definition lab_ok (big : bool) (lb : nat) : Prop := lb <= (if big then 256 else 16).

Lemma label_wl_width big lb : fst (label_wl big lb) = 4 * label_width big lb.
Proof. destruct lb; [reflexivity|]. destruct big; reflexivity. Qed.

(* ---------- (1) appendInnerPrefix ---------- *)
Theorem append_inner_prefix_rep f bf p nb bb nb' :
  frame_rel f bf -> represents nb bb -> Forall (fun x => x < 16) p ->
  append_inner_prefix f (Some p) nb = Ok nb' ->
  exists bb', b_append_inner_prefix bf (Some (bitstr_of_nibs p)) bb = Ok bb' /\ represents nb' bb'.
Proof.
  intros (_ & _ & _ & Hps & _) R F H. unfold append_inner_prefix in H.
  destruct (Nat.ltb_spec (length nb) (even_down (f_ps f))) as [|Hlen]; [discriminate|].
  inversion H; subst nb'. clear H.
  unfold b_append_inner_prefix. rewrite Hps, shr3_4.
  pose proof (rep_length _ _ R) as L. pose proof (even_down_le (f_ps f)) as Hed.
  assert (f_ps f / 2 = (even_down (f_ps f) + 1) / 2) as Ehalf by (symmetry; apply even_down_half_up).
  destruct (Nat.ltb_spec (length bb) (f_ps f / 2)) as [Hc|_]; [unfold even_down in *; lia|].
  destruct (bitstr_of_nibs_last p) as [Hne Hrl].
  destruct (bitstr_of_nibs p) as [|b0 br] eqn:Eb; [congruence|]. rewrite Hrl.
  eexists. split; [reflexivity|].
  apply rep_app.
  - rewrite Ehalf. apply rep_firstn; assumption.
  - rewrite firstn_length. replace (Nat.min (even_down (f_ps f)) (length nb)) with (even_down (f_ps f)) by lia.
    apply even_down_even.
  - apply rep_pack0. exact F.
Qed.

Lemma append_inner_prefix_none f bf nb bb :
  append_inner_prefix f None nb = Ok nb /\ b_append_inner_prefix bf None bb = Ok bb.
Proof. split; reflexivity. Qed.

(* ---------- (2) appendLabel ---------- *)
Theorem append_label_rep f bf nb bb nb' :
  frame_rel f bf -> represents nb bb ->
  (forall lb c, nth_error (f_ch f) (f_idx f) = Some (lb, c) -> lab_ok (f_big f) lb) ->
  append_label f nb = Ok nb' ->
  exists bb', b_append_label bf bb = Ok bb' /\ represents nb' bb'.
Proof.
  intros (_ & _ & _ & _ & Hpe & _ & lb & c & Hn & Hwl) R Hlab H.
  specialize (Hlab lb c Hn). unfold append_label in H. rewrite Hn in H.
  destruct (Nat.ltb_spec (length nb) (f_pe f)) as [|Hlen]; [discriminate|].
  destruct (f_big f && negb (Nat.even (f_pe f)) && negb (lb =? 0)) eqn:E42; [discriminate|].
  inversion H; subst nb'. clear H.
  pose proof (rep_length _ _ R) as L.
  pose proof (rep_firstn nb bb (f_pe f) R Hlen) as R1.
  assert (length (firstn (f_pe f) nb) = f_pe f) as L1 by (rewrite firstn_length; lia).
  unfold b_append_label. rewrite Hpe, shr3_4_up, and7_4.
  destruct (Nat.ltb_spec (length bb) ((f_pe f + 1) / 2)) as [|_]; [lia|].
  destruct lb as [|v].
  - (* the end-of-key label: width 0 *)
    cbn [label_wl] in Hwl. injection Hwl as Hw Hl. rewrite Hw. cbn [Nat.ltb Nat.leb].
    eexists. split; [reflexivity|]. cbn [label_nibs]. rewrite app_nil_r. exact R1.
  - cbn [Nat.eqb negb] in E42. rewrite andb_true_r in E42.
    destruct (f_big f) eqn:Eb.
    + (* 8-bit label: only at a byte boundary *)
      cbn [andb] in E42. apply negb_false_iff in E42.
      cbn [label_wl] in Hwl. injection Hwl as Hw Hl. rewrite Hw, Hl, E42. cbn [Nat.ltb Nat.leb negb].
      eexists. split; [reflexivity|]. cbn [label_nibs].
      apply rep_app; [exact R1|rewrite L1; exact E42|].
      apply rep_byte. apply fresh_label8_nibs. unfold lab_ok in Hlab. lia.
    + cbn [label_wl] in Hwl. injection Hwl as Hw Hl. rewrite Hw, Hl. cbn [Nat.ltb Nat.leb label_nibs].
      unfold lab_ok in Hlab.
      destruct (Nat.even (f_pe f)) eqn:Ev; cbn [negb].
      * (* 4-bit label at an even nibble: a fresh byte label<<4 *)
        eexists. split; [reflexivity|].
        apply rep_app; [exact R1|rewrite L1; exact Ev|].
        apply (rep_half _ v 0). apply fresh_label4_nibs. lia.
      * (* 4-bit label at an odd nibble: merged into the low half of the last byte *)
        destruct (rep_odd_inv _ _ R1 (ltac:(rewrite L1; exact Ev))) as (bb0 & c0 & Ebb & Enb).
        rewrite Ebb, upd_last_app. eexists. split; [reflexivity|].
        rewrite Enb, <- app_assoc. cbn [app].
        apply rep_app; [apply rep_nibs| |].
        -- rewrite nibs_length. apply Nat.even_spec. exists (length bb0). lia.
        -- apply rep_byte. apply merge_label_nibs. lia.
Qed.

(* ---------- (3) appendLeafPrefix, (4) the key handed out ---------- *)
Definition tail_bytes (tail : option (list byte)) : list byte := match tail with Some t => t | None => [] end.

Theorem append_leaf_prefix_rep f bf tail nb bb nb' :
  frame_rel f bf -> represents nb bb ->
  append_leaf_prefix f tail nb = Ok nb' ->
  exists bb', b_append_leaf_prefix bf tail bb = Ok bb' /\ represents nb' bb' /\
              Nat.even (length nb') = true /\ pack nb' = Some bb'.
Proof.
  intros (_ & _ & _ & _ & _ & Hle & _) R H. unfold append_leaf_prefix in H.
  destruct (Nat.ltb_spec (length nb) (even_down (f_le f))) as [|Hlen]; [discriminate|].
  inversion H; subst nb'. clear H.
  pose proof (rep_length _ _ R) as L. pose proof (even_down_le (f_le f)) as Hed.
  unfold b_append_leaf_prefix. rewrite Hle, shr3_4.
  destruct (Nat.ltb_spec (length bb) (f_le f / 2)) as [|_]; [unfold even_down in *; lia|].
  eexists. split; [reflexivity|].
  assert (length (firstn (even_down (f_le f)) nb) = even_down (f_le f)) as L1 by (rewrite firstn_length; lia).
  assert (represents (firstn (even_down (f_le f)) nb ++ tail_nibs tail)
                     (firstn (f_le f / 2) bb ++ match tail with Some t => t | None => [] end)) as R'.
  { apply rep_app.
    - rewrite <- (even_down_half_up (f_le f)). apply rep_firstn; assumption.
    - rewrite L1. apply even_down_even.
    - destruct tail as [t|]; [apply rep_nibs|apply rep_nil]. }
  assert (Nat.even (length (firstn (even_down (f_le f)) nb ++ tail_nibs tail)) = true) as Ev.
  { rewrite app_length, L1. rewrite Nat.even_add, even_down_even.
    destruct tail as [t|]; cbn [tail_nibs]; [|reflexivity]. rewrite nibs_length.
    replace (Nat.even (2 * length t)) with true; [reflexivity|].
    symmetry. apply Nat.even_spec. exists (length t). lia. }
  split; [exact R'|]. split; [exact Ev|]. apply rep_pack; assumption.
Qed.

(* ---------- bitstr.New on a key = the bitstr of the nibble prefix ---------- *)
Lemma pack0_nibs_app : forall q x, pack0 (nibs q ++ x) = q ++ pack0 x.
Proof.
  induction q as [|b q IH]; intros x; [reflexivity|]. rewrite nibs_cons. cbn [app pack0]. rewrite IH. f_equal.
  unfold byte_of_nib2. pose proof (byte_to_nat_lt b).
  replace (16 * (Byte.to_nat b / 16) + Byte.to_nat b mod 16) with (Byte.to_nat b) by lia.
  apply trunc_to_nat.
Qed.

Lemma bitstr_new_payload k m :
  1 <= m -> m <= 2 * length k ->
  (do masked <- upd_last (fun c => byte_and c (rmask8 (if Nat.even m then 0 else 4))) (firstn ((m + 1) / 2) k);
   Ok (masked ++ [byte_trunc (rmask8 (if Nat.even m then 0 else 4))])) =
  Ok (bitstr_of_nibs (firstn m (nibs k))).
Proof.
  intros H1 H2. set (j := (m + 1) / 2 - 1).
  assert (j < length k) as Hj by (unfold j; lia).
  destruct (nth_split k x00 Hj) as (q0 & rest & Ek & Lq). set (c := nth j k x00) in *.
  assert (firstn ((m + 1) / 2) k = q0 ++ [c]) as Ef.
  { rewrite Ek. replace ((m + 1) / 2) with (length q0 + 1) by (unfold j in Lq; lia).
    rewrite firstn_app_2. reflexivity. }
  rewrite Ef, upd_last_app. cbn [bind]. f_equal.
  assert (nibs k = nibs q0 ++ Byte.to_nat c / 16 :: Byte.to_nat c mod 16 :: nibs rest) as En
      by (rewrite Ek, nibs_app, nibs_cons; reflexivity).
  rewrite even_mod2. destruct (Nat.eqb_spec (m mod 2) 0) as [E|E].
  - (* the prefix ends at a byte boundary: mask 0xff *)
    assert (firstn m (nibs k) = nibs (q0 ++ [c])) as Ep.
    { rewrite En. replace m with (length (nibs q0) + 2) by (rewrite nibs_length; unfold j in Lq; lia).
      rewrite firstn_app_2. rewrite nibs_app. reflexivity. }
    rewrite Ep, byte_and_rmask0. unfold bitstr_of_nibs.
    destruct (nibs (q0 ++ [c])) as [|a r] eqn:En2.
    { apply nibs_nil_inv in En2. apply app_eq_nil in En2. destruct En2; discriminate. }
    rewrite <- En2, pack0_nibs. rewrite nibs_length.
    replace (Nat.even (2 * length (q0 ++ [c]))) with true; [reflexivity|].
    symmetry. apply Nat.even_spec. exists (length (q0 ++ [c])). lia.
  - (* the prefix ends in the middle of a byte: mask 0xf0, low half cleared *)
    assert (firstn m (nibs k) = nibs q0 ++ [Byte.to_nat c / 16]) as Ep.
    { rewrite En. replace m with (length (nibs q0) + 1) by (rewrite nibs_length; unfold j in Lq; lia).
      rewrite firstn_app_2. reflexivity. }
    rewrite Ep, byte_and_rmask4. unfold bitstr_of_nibs.
    destruct (nibs q0 ++ [Byte.to_nat c / 16]) as [|a r] eqn:En2.
    { apply app_eq_nil in En2. destruct En2; discriminate. }
    rewrite <- En2, pack0_nibs_app. cbn [pack0]. rewrite app_length, nibs_length. cbn [length].
    replace (Nat.even (2 * length q0 + 1)) with false; [reflexivity|].
    symmetry. rewrite even_mod2. apply Nat.eqb_neq. lia.
Qed.

(* setPrefix stores bitstr.New(key, prefixBitFrom, prefixBitTo): it starts at the byte
   boundary at or below prefixBitFrom, i.e. it is the bitstr of the nibbles
   [even_down from, to) of the key *)
Theorem bitstr_new_nibs key from to :
  from <= to -> to <= 2 * length key ->
  bitstr_new key (4 * from) (4 * to) =
  Ok (bitstr_of_nibs (firstn (to - even_down from) (skipn (even_down from) (nibs key)))).
Proof.
  intros Hft Hto. unfold bitstr_new. rewrite and7_4.
  destruct (Nat.eqb_spec (4 * from) (4 * to)) as [E|E]; cbn [andb].
  - assert (from = to) as -> by lia.
    destruct (Nat.even to) eqn:Ev.
    + rewrite (even_down_id to Ev), Nat.sub_diag. reflexivity.
    + (* an empty prefix that starts in the middle of a byte *)
      rewrite shr3_4, shr3_4_up. rewrite even_mod2 in Ev. apply Nat.eqb_neq in Ev.
      destruct (Nat.ltb_spec ((to + 1) / 2) (to / 2)) as [|_]; [lia|].
      destruct (Nat.ltb_spec (length key) ((to + 1) / 2)) as [|_]; [lia|]. cbn [orb].
      rewrite even_down_half, skipn_nibs.
      assert ((8 - and7 (4 * to)) mod 8 = 4) as -> by (unfold and7; lia).
      pose proof (bitstr_new_payload (skipn (to / 2) key) 1 (le_n 1)) as P. cbn [Nat.even] in P.
      replace ((to + 1) / 2 - to / 2) with ((1 + 1) / 2) by lia.
      replace (to - 2 * (to / 2)) with 1 by lia.
      apply P. rewrite skipn_length. lia.
  - rewrite shr3_4, shr3_4_up.
    destruct (Nat.ltb_spec ((to + 1) / 2) (from / 2)) as [|_]; [lia|].
    destruct (Nat.ltb_spec (length key) ((to + 1) / 2)) as [|_]; [lia|]. cbn [orb].
    rewrite even_down_half, skipn_nibs.
    set (m := to - 2 * (from / 2)).
    assert (1 <= m) as Hm by (unfold m; lia).
    assert ((8 - and7 (4 * to)) mod 8 = if Nat.even m then 0 else 4) as ->.
    { rewrite even_mod2. unfold and7, m. destruct (Nat.eqb_spec ((to - 2 * (from / 2)) mod 2) 0); lia. }
    replace ((to + 1) / 2 - from / 2) with ((m + 1) / 2) by (unfold m; lia).
    apply bitstr_new_payload; [exact Hm|]. rewrite skipn_length. unfold m. lia.
Qed.

(* what the model stores as the prefix of an inner node is that bitstr *)
Theorem stored_prefix_is_bitstr_new o isbig s big step p labels kids b' :
  SubInv s ->
  process_subset o isbig s = Ok (DInner big step (Some p) labels kids, b') ->
  exists e0 r, s_ents s = e0 :: r /\
    bitstr_new (e_key e0) (4 * s_from s) (4 * sub_w big s) = Ok (bitstr_of_nibs p).
Proof.
  intros I Hp. pose proof (process_inner_inv _ _ _ _ _ _ _ _ _ Hp) as Hinv. cbv zeta in Hinv.
  destruct Hinv as ((e0 & e1 & r & Es & Hpfx) & Hw & _).
  exists e0, (e1 :: r). split; [exact Es|].
  assert (In e0 (s_ents s)) as He0 by (rewrite Es; left; reflexivity).
  assert (2 <= length (s_ents s)) as Htwo by (rewrite Es; cbn; lia).
  pose proof (sub_w_len big s e0 Htwo He0) as Hlen.
  pose proof (si_ok s I) as Hok. rewrite Forall_forall in Hok. pose proof (Hok e0 He0) as Hk. unfold ent_ok in Hk.
  rewrite Hk, nibs_length in Hlen.
  destruct (o_inner o && (0 <? sub_w big s - s_from s)); [|discriminate].
  inversion Hpfx; subst p. rewrite Hk. apply bitstr_new_nibs; assumption.
Qed.

(* ---------- trees whose stored prefixes are nibbles and whose labels fit ---------- *)
Definition pfx_ok (pfx : option (list nat)) : Prop :=
  match pfx with Some p => Forall (fun x => x < 16) p | None => True end.

Fixpoint nib_wf (t : tree) : Prop :=
  match t with
  | Leaf _ _ _ _ => True
  | Inner _ big _ pfx _ ch =>
      pfx_ok pfx /\
      (fix all (ch : list (nat * tree)) : Prop :=
         match ch with
         | [] => True
         | (lb, c) :: r => (lab_ok big lb /\ nib_wf c) /\ all r
         end) ch
  end.

Definition kid_nib (big : bool) (p : nat * tree) : Prop := lab_ok big (fst p) /\ nib_wf (snd p).

Lemma nib_wf_inner id big step pfx fc ch :
  nib_wf (Inner id big step pfx fc ch) <-> pfx_ok pfx /\ Forall (kid_nib big) ch.
Proof.
  cbn [nib_wf].
  assert ((fix all (ch : list (nat * tree)) : Prop :=
             match ch with
             | [] => True
             | (lb, c) :: r => (lab_ok big lb /\ nib_wf c) /\ all r
             end) ch <-> Forall (kid_nib big) ch) as E.
  { induction ch as [|[lb c] r IH]; [split; [constructor|trivial]|].
    split.
    - intros [H1 H2]. constructor; [exact H1|apply IH; exact H2].
    - intros H. inversion H as [|? ? H1 H2]; subst. split; [exact H1|apply IH; exact H2]. }
  rewrite E. tauto.
Qed.

Definition frame_nib (f : frame) : Prop := Forall (kid_nib (f_big f)) (f_ch f).
Definition stk_nib (stk : list frame) : Prop := Forall frame_nib stk.

Lemma frame_nib_lab f : frame_nib f ->
  forall lb c, nth_error (f_ch f) (f_idx f) = Some (lb, c) -> lab_ok (f_big f) lb.
Proof.
  intros H lb c Hn. unfold frame_nib in H. rewrite Forall_forall in H.
  apply (H (lb, c)). eapply nth_error_In. exact Hn.
Qed.

Lemma frame_nib_kid f : frame_nib f ->
  forall lb c, nth_error (f_ch f) (f_idx f) = Some (lb, c) -> nib_wf c.
Proof.
  intros H lb c Hn. unfold frame_nib in H. rewrite Forall_forall in H.
  apply (H (lb, c)). eapply nth_error_In. exact Hn.
Qed.

(* ---------- init / updateLabel ---------- *)
Lemma init_frame_sim t child i f :
  init_frame t child i = Ok f ->
  exists bf, b_init_frame t child (4 * i) = Ok bf /\ frame_rel f bf /\
             (nib_wf t -> frame_nib f).
Proof.
  destruct t as [id ord tail eidx|id big step pfx fc ch]; [discriminate|].
  unfold init_frame, b_init_frame, node_bitstr, node_pfx.
  assert ((match match pfx with Some p => Some (bitstr_of_nibs p) | None => None end with
           | Some bs => do n <- bitstr_len bs; Ok (clr7 (4 * i) + n)
           | None => Ok (4 * i)
           end) = Ok (4 * match pfx with Some p => even_down i + length p | None => i end)) as ->.
  { destruct pfx as [p|]; [|reflexivity]. rewrite bitstr_len_of_nibs, clr7_4. cbn [bind]. f_equal. lia. }
  cbn [bind].
  destruct (match child with
            | Some c => if tree_id c <? fc then Err (EPanic 40) else Ok (tree_id c - fc)
            | None => Ok 0
            end) as [idx|e]; [|discriminate]. cbn [bind].
  destruct (nth_error ch idx) as [[lb c]|] eqn:En; [|discriminate].
  intros H. inversion H; subst f. clear H.
  destruct (label_wl big lb) as [lw label] eqn:Ewl.
  eexists. split; [reflexivity|]. split.
  - unfold frame_rel. cbn [bf_big bf_ch bf_idx bf_ps bf_pe bf_le bf_lw bf_label f_big f_ch f_idx f_ps f_pe f_le].
    repeat split; try reflexivity.
    + pose proof (label_wl_width big lb) as Hw. rewrite Ewl in Hw. cbn [fst] in Hw. lia.
    + exists lb, c. split; [exact En|symmetry; exact Ewl].
  - intros Hwf. apply nib_wf_inner in Hwf. unfold frame_nib. cbn [f_big f_ch]. tauto.
Qed.

(* ---------- next ---------- *)
Lemma next_stack_sim : forall stk bstk,
  Forall2 frame_rel stk bstk -> Forall2 frame_rel (next_stack stk) (b_next_stack bstk).
Proof.
  induction 1 as [|f bf stk bstk Hf HF IH]; [constructor|].
  destruct Hf as (Hb & Hc & Hi & Hps & Hpe & Hle & _).
  cbn [next_stack b_next_stack]. rewrite Hc, Hi.
  destruct (nth_error (f_ch f) (S (f_idx f))) as [[lb c]|] eqn:En; [|exact IH].
  destruct (label_wl (bf_big bf) lb) as [lw label] eqn:Ewl. rewrite Hb in Ewl.
  constructor; [|assumption].
  unfold frame_rel. cbn [bf_big bf_ch bf_idx bf_ps bf_pe bf_le bf_lw bf_label f_big f_ch f_idx f_ps f_pe f_le].
  repeat split; try assumption.
  - pose proof (label_wl_width (f_big f) lb) as Hw. rewrite Ewl in Hw. cbn [fst] in Hw. lia.
  - exists lb, c. split; [exact En|symmetry; exact Ewl].
Qed.

Lemma next_stack_nib : forall stk, stk_nib stk -> stk_nib (next_stack stk).
Proof.
  induction stk as [|f r IH]; intros H; [constructor|].
  inversion H as [|? ? Hf Hr]; subst. cbn [next_stack].
  destruct (nth_error (f_ch f) (S (f_idx f))) as [[lb c]|]; [|apply IH; exact Hr].
  constructor; [exact Hf|exact Hr].
Qed.

Ltac csplit := repeat match goal with |- _ /\ _ => split end.

(* ---------- one node: init + appendInnerPrefix + appendLabel ---------- *)
Lemma node_step_sim t child i nb bb f nb1 nb2 :
  nib_wf t -> represents nb bb ->
  init_frame t child i = Ok f ->
  append_inner_prefix f (node_pfx t) nb = Ok nb1 ->
  append_label f nb1 = Ok nb2 ->
  exists bf bb1 bb2,
    b_init_frame t child (4 * i) = Ok bf /\
    b_append_inner_prefix bf (node_bitstr t) bb = Ok bb1 /\
    b_append_label bf bb1 = Ok bb2 /\
    frame_rel f bf /\ frame_nib f /\ represents nb2 bb2.
Proof.
  intros Hwf R Hi Hp Hl.
  destruct (init_frame_sim t child i f Hi) as (bf & Hbi & Hrel & Hnib). specialize (Hnib Hwf).
  assert (exists bb1, b_append_inner_prefix bf (node_bitstr t) bb = Ok bb1 /\ represents nb1 bb1) as (bb1 & Hbp & R1).
  { destruct t as [id ord tail eidx|id big step pfx fc ch]; [discriminate|].
    cbn [node_pfx node_bitstr] in *. destruct pfx as [p|].
    - apply nib_wf_inner in Hwf. destruct Hwf as [Hpf _]. cbn [pfx_ok] in Hpf.
      apply (append_inner_prefix_rep f bf p nb bb nb1 Hrel R Hpf Hp).
    - cbn in Hp. inversion Hp; subst nb1. exists bb. split; [reflexivity|exact R]. }
  destruct (append_label_rep f bf nb1 bb1 nb2 Hrel R1 (frame_nib_lab f Hnib) Hl) as (bb2 & Hbl & R2).
  exists bf, bb1, bb2. csplit; try assumption; reflexivity.
Qed.

(* ---------- the walk down to the next leaf ---------- *)
Lemma descend_sim : forall c last buf stk blast bbuf bstk stk' buf' leaf,
  nib_wf c -> frame_rel last blast -> represents buf bbuf ->
  Forall2 frame_rel stk bstk -> stk_nib stk ->
  descend_first c last buf stk = Ok (stk', buf', leaf) ->
  exists bstk' bbuf',
    b_descend_first c blast bbuf bstk = Ok (bstk', bbuf', leaf) /\
    Forall2 frame_rel stk' bstk' /\ stk_nib stk' /\ represents buf' bbuf' /\
    Nat.even (length buf') = true /\ pack buf' = Some bbuf'.
Proof.
  induction c as [id ord tail eidx|id big step pfx fc ch IH] using tree_ind';
    intros last buf stk blast bbuf bstk stk' buf' leaf Hwf Hrel R HF Hnib H.
  - cbn [descend_first] in H.
    destruct (append_leaf_prefix last tail buf) as [b'|e] eqn:Ea; [|discriminate]. cbn [bind] in H.
    inversion H; subst stk' buf' leaf. clear H.
    destruct (append_leaf_prefix_rep last blast tail buf bbuf b' Hrel R Ea) as (bb' & Hb & R' & Ev & Hpk).
    exists bstk, bb'. cbn [b_descend_first]. rewrite Hb. cbn [bind].
    csplit; try assumption; reflexivity.
  - cbn [descend_first] in H.
    destruct (init_frame (Inner id big step pfx fc ch) None (f_le last)) as [f|e] eqn:Ei; [|discriminate]. cbn [bind] in H.
    destruct (append_inner_prefix f pfx buf) as [buf1|e] eqn:Ep; [|discriminate]. cbn [bind] in H.
    destruct (append_label f buf1) as [buf2|e] eqn:El; [|discriminate]. cbn [bind] in H.
    destruct ch as [|[lb0 c0] chr]; [discriminate|].
    destruct (node_step_sim (Inner id big step pfx fc ((lb0, c0) :: chr)) None (f_le last) buf bbuf f buf1 buf2 Hwf R Ei Ep El)
      as (bf & bb1 & bb2 & Hbi & Hbp & Hbl & Hrelf & Hnibf & R2).
    assert (bf_le blast = 4 * f_le last) as Hle by (destruct Hrel as (_ & _ & _ & _ & _ & Hle & _); exact Hle).
    inversion IH as [|? ? IH0 _]; subst. cbn [snd] in IH0.
    apply nib_wf_inner in Hwf. destruct Hwf as [_ Hk]. inversion Hk as [|? ? [_ Hc0] _]; subst. cbn [snd] in Hc0.
    destruct (IH0 f buf2 (f :: stk) bf bb2 (bf :: bstk) stk' buf' leaf Hc0 Hrelf R2
                  (Forall2_cons _ _ Hrelf HF) (Forall_cons _ Hnibf Hnib) H)
      as (bstk' & bbuf' & Hd & HF' & Hnib' & R' & Ev & Hpk).
    exists bstk', bbuf'. cbn [b_descend_first]. rewrite Hle, Hbi. cbn [bind]. rewrite Hbp. cbn [bind]. rewrite Hbl. cbn [bind].
    csplit; try assumption; reflexivity.
Qed.

(* ---------- the iterator ---------- *)
Definition iter_rel (it : iter) (bit : biter) : Prop :=
  bit_mode bit = it_mode it /\ bit_withv bit = it_withv it /\
  Forall2 frame_rel (it_stack it) (bit_stack bit) /\ stk_nib (it_stack it) /\
  represents (it_buf it) (bit_buf bit) /\
  (match it_mode it with MNormal => True | MSingle _ _ => Nat.even (length (it_buf it)) = true end).

(* one call of the closure *)
Theorem iter_next_sim T it bit r it' :
  iter_rel it bit -> iter_next T it = Ok (r, it') ->
  exists bit', b_iter_next T bit = Ok (r, bit') /\ iter_rel it' bit'.
Proof.
  intros (Hm & Hw & HF & Hnib & R & Hev) H. unfold iter_next in H. unfold b_iter_next. rewrite Hm.
  destruct (it_mode it) as [|c consumed] eqn:Em.
  - inversion HF as [E1 E2|top btop rest brest Htop Hrest E1 E2].
    + rewrite <- E1 in H. inversion H; subst r it'. exists bit. split; [reflexivity|].
      unfold iter_rel. rewrite Hm, Hw, Em, <- E1, <- E2. csplit; try assumption; constructor.
    + rewrite <- E1 in H. rewrite <- E1 in Hnib. inversion Hnib as [|? ? Hnt Hnr]; subst.
      destruct (append_label top (it_buf it)) as [buf1|e] eqn:El; [|discriminate]. cbn [bind] in H.
      destruct (nth_error (f_ch top) (f_idx top)) as [[lb c]|] eqn:En; [|discriminate].
      destruct (descend_first c top buf1 (top :: rest)) as [[[stk' buf'] leaf]|e] eqn:Ed; [|discriminate]. cbn [bind fst snd] in H.
      unfold pack_res in H. destruct (pack buf') as [k|] eqn:Ek; [|discriminate]. cbn [bind] in H.
      destruct (leaf_val T (it_withv it) leaf) as [v|e] eqn:Ev; [|discriminate]. cbn [bind] in H.
      inversion H; subst r it'. clear H.
      destruct (append_label_rep top btop _ _ _ Htop R (frame_nib_lab top Hnt) El) as (bb1 & Hbl & R1).
      destruct (descend_sim c top buf1 (top :: rest) btop bb1 (btop :: brest) stk' buf' leaf
                  (frame_nib_kid top Hnt lb c En) Htop R1 (Forall2_cons _ _ Htop Hrest) (Forall_cons _ Hnt Hnr) Ed)
        as (bstk' & bbuf' & Hd & HF' & Hnib' & R' & Ev' & Hpk).
      rewrite Ek in Hpk. inversion Hpk; subst k.
      pose proof Htop as (_ & Hch & Hidx & _).
      rewrite Hbl. cbn [bind]. rewrite Hch, Hidx, En, Hd. cbn [bind fst snd]. rewrite Hw, Ev. cbn [bind].
      eexists. split; [reflexivity|].
      unfold iter_rel. cbn [bit_mode bit_withv bit_stack bit_buf it_mode it_withv it_stack it_buf].
      csplit; try assumption; try reflexivity.
      * apply next_stack_sim. exact HF'.
      * apply next_stack_nib. exact Hnib'.
  - destruct consumed.
    + inversion H; subst r it'. exists bit. split; [reflexivity|].
      unfold iter_rel. rewrite Hm, Hw, Em. csplit; try assumption; reflexivity.
    + destruct c as [id ord tail eidx|]; [|discriminate].
      unfold pack_res in H. destruct (pack (it_buf it ++ tail_nibs tail)) as [k|] eqn:Ek; [|discriminate]. cbn [bind] in H.
      destruct (leaf_val T (it_withv it) (Leaf id ord tail eidx)) as [v|e] eqn:Ev; [|discriminate]. cbn [bind] in H.
      inversion H; subst r it'. clear H.
      assert (represents (it_buf it ++ tail_nibs tail) (bit_buf bit ++ match tail with Some t => t | None => [] end)) as R'.
      { apply rep_app; [exact R|exact Hev|]. destruct tail as [t|]; [apply rep_nibs|apply rep_nil]. }
      assert (Nat.even (length (it_buf it ++ tail_nibs tail)) = true) as Ev'.
      { rewrite app_length, Nat.even_add, Hev. destruct tail as [t|]; cbn [tail_nibs]; [|reflexivity].
        rewrite nibs_length. replace (Nat.even (2 * length t)) with true; [reflexivity|].
        symmetry. apply Nat.even_spec. exists (length t). lia. }
      rewrite (rep_pack _ _ R' Ev') in Ek. inversion Ek; subst k.
      rewrite Hw, Ev. cbn [bind]. eexists. split; [reflexivity|].
      unfold iter_rel. cbn [bit_mode bit_withv bit_stack bit_buf it_mode it_withv it_stack it_buf].
      csplit; try assumption; reflexivity.
Qed.

Theorem iter_run_sim T : forall n it bit rs,
  iter_rel it bit -> iter_run n T it = Ok rs -> b_iter_run n T bit = Ok rs.
Proof.
  induction n as [|n IH]; intros it bit rs Hrel H; [exact H|].
  cbn [iter_run] in H. cbn [b_iter_run].
  destruct (iter_next T it) as [[r it']|e] eqn:En; [|discriminate]. cbn [bind] in H.
  destruct (iter_run n T it') as [rs'|e] eqn:Er; [|discriminate]. cbn [bind] in H. inversion H; subst rs.
  destruct (iter_next_sim T it bit r it' Hrel En) as (bit' & Hb & Hrel'). rewrite Hb. cbn [bind].
  rewrite (IH it' bit' rs' Hrel' Er). reflexivity.
Qed.

Theorem iter_drain_sim T : forall fuel it bit xs it',
  iter_rel it bit -> iter_drain fuel T it = Ok (xs, it') ->
  exists bit', b_iter_drain fuel T bit = Ok (xs, bit') /\ iter_rel it' bit'.
Proof.
  induction fuel as [|fuel IH]; intros it bit xs it' Hrel H; [discriminate|].
  cbn [iter_drain] in H. cbn [b_iter_drain].
  destruct (iter_next T it) as [[r it1]|e] eqn:En; [|discriminate]. cbn [bind] in H.
  destruct (iter_next_sim T it bit r it1 Hrel En) as (bit1 & Hb & Hrel1). rewrite Hb. cbn [bind].
  destruct r as [x|].
  - destruct (iter_drain fuel T it1) as [[xs1 it2]|e] eqn:Ed; [|discriminate]. cbn [bind] in H.
    inversion H; subst xs it'. destruct (IH it1 bit1 xs1 it2 Hrel1 Ed) as (bit2 & Hd & Hrel2).
    rewrite Hd. cbn [bind]. exists bit2. split; [reflexivity|exact Hrel2].
  - inversion H; subst xs it'. exists bit1. split; [reflexivity|exact Hrel1].
Qed.

Theorem scan_loop_sim T wrap : forall fuel it bit i xs,
  iter_rel it bit -> scan_loop fuel T it wrap i = Ok xs -> b_scan_loop fuel T bit wrap i = Ok xs.
Proof.
  induction fuel as [|fuel IH]; intros it bit i xs Hrel H; [discriminate|].
  cbn [scan_loop] in H. cbn [b_scan_loop].
  destruct (iter_next T it) as [[r it1]|e] eqn:En; [|discriminate]. cbn [bind] in H.
  destruct (iter_next_sim T it bit r it1 Hrel En) as (bit1 & Hb & Hrel1). rewrite Hb. cbn [bind].
  destruct r as [x|]; [|exact H].
  destruct (wrap i x) as [cont delivered]. destruct cont; [|exact H].
  destruct (scan_loop fuel T it1 wrap (S i)) as [xs1|e] eqn:Es; [|discriminate]. cbn [bind] in H.
  rewrite (IH it1 bit1 (S i) xs1 Hrel1 Es). exact H.
Qed.

(* ---------- newIter ---------- *)
Lemma init_frames_sim : forall path i nb bb stk bstk stk' nb',
  Forall nib_wf path -> represents nb bb -> Forall2 frame_rel stk bstk -> stk_nib stk ->
  init_frames path i nb stk = Ok (stk', nb') ->
  exists bstk' bb',
    b_init_frames path (4 * i) bb bstk = Ok (bstk', bb') /\
    Forall2 frame_rel stk' bstk' /\ stk_nib stk' /\ represents nb' bb'.
Proof.
  induction path as [|t rest IH]; intros i nb bb stk bstk stk' nb' Hwf R HF Hnib H.
  - cbn in H. inversion H; subst. exists bstk, bb. csplit; try assumption; reflexivity.
  - destruct rest as [|c rest'].
    + cbn in H. inversion H; subst. exists bstk, bb. csplit; try assumption; reflexivity.
    + inversion Hwf as [|? ? Ht Hrest]; subst.
      cbn [init_frames] in H.
      destruct (init_frame t (Some c) i) as [f|e] eqn:Ei; [|discriminate]. cbn [bind] in H.
      destruct (append_inner_prefix f (node_pfx t) nb) as [nb1|e] eqn:Ep; [|discriminate]. cbn [bind] in H.
      destruct (append_label f nb1) as [nb2|e] eqn:El; [|discriminate]. cbn [bind] in H.
      destruct (node_step_sim t (Some c) i nb bb f nb1 nb2 Ht R Ei Ep El)
        as (bf & bb1 & bb2 & Hbi & Hbp & Hbl & Hrelf & Hnibf & R2).
      assert (bf_le bf = 4 * f_le f) as Hle by (destruct Hrelf as (_ & _ & _ & _ & _ & Hle & _); exact Hle).
      destruct (IH (f_le f) nb2 bb2 (f :: stk) (bf :: bstk) stk' nb' Hrest R2
                   (Forall2_cons _ _ Hrelf HF) (Forall_cons _ Hnibf Hnib) H)
        as (bstk' & bb' & Hd & HF' & Hnib' & R').
      exists bstk', bb'. cbn [b_init_frames]. rewrite Hbi. cbn [bind]. rewrite Hbp. cbn [bind]. rewrite Hbl. cbn [bind].
      rewrite Hle. csplit; assumption.
Qed.

Lemma new_iter_sim path skip withv it :
  Forall nib_wf path -> new_iter path skip withv = Ok it ->
  exists bit, b_new_iter path skip withv = Ok bit /\ iter_rel it bit.
Proof.
  intros Hwf H. unfold new_iter in H. unfold b_new_iter.
  destruct (init_frames path 0 [] []) as [[stk nb]|e] eqn:Ei; [|discriminate]. cbn [bind] in H.
  destruct (init_frames_sim path 0 [] [] [] [] stk nb Hwf rep_nil (Forall2_nil _) (Forall_nil _) Ei)
    as (bstk & bb & Hb & HF & Hnib & R).
  change (4 * 0) with 0 in Hb. rewrite Hb. cbn [bind].
  destruct skip.
  - inversion H; subst it. eexists. split; [reflexivity|].
    unfold iter_rel. cbn [bit_mode bit_withv bit_stack bit_buf it_mode it_withv it_stack it_buf].
    csplit; try assumption; try reflexivity; [apply next_stack_sim; exact HF|apply next_stack_nib; exact Hnib].
  - destruct path as [|c [|c2 r]].
    + inversion H; subst it. eexists. split; [reflexivity|].
      unfold iter_rel. cbn [bit_mode bit_withv bit_stack bit_buf it_mode it_withv it_stack it_buf].
      csplit; try assumption; reflexivity.
    + cbn in Ei. inversion Ei; subst stk nb.
      inversion H; subst it. eexists. split; [reflexivity|].
      unfold iter_rel. cbn [bit_mode bit_withv bit_stack bit_buf it_mode it_withv it_stack it_buf].
      csplit; try assumption; reflexivity.
    + inversion H; subst it. eexists. split; [reflexivity|].
      unfold iter_rel. cbn [bit_mode bit_withv bit_stack bit_buf it_mode it_withv it_stack it_buf].
      csplit; try assumption; reflexivity.
Qed.

(* ---------- getGEPath returns nodes of the trie ---------- *)
Lemma leftmost_path_nib : forall t, nib_wf t -> Forall nib_wf (leftmost_path t).
Proof.
  induction t as [id ord tail eidx|id big step pfx fc ch IH] using tree_ind'; intros H.
  - cbn. constructor; [exact H|constructor].
  - cbn [leftmost_path]. constructor; [exact H|].
    destruct ch as [|[x c] r]; [constructor|].
    inversion IH as [|? ? IHc _]; subst. apply IHc.
    apply nib_wf_inner in H. destruct H as [_ Hk]. inversion Hk as [|? ? [_ Hc] _]; subst. exact Hc.
Qed.

Definition gs_nib (st : gstate) : Prop :=
  let '(path, eq, rc) := st in
  Forall nib_wf path /\
  (forall c j v, eq = Some (c, j, v) -> nib_wf c) /\
  (forall r n, rc = Some (r, n) -> nib_wf r).

Lemma ge_down_nib qn l : forall t i path rc,
  nib_wf t -> Forall nib_wf path -> (forall r n, rc = Some (r, n) -> nib_wf r) ->
  gs_nib (ge_down qn l t i path rc).
Proof.
  induction t as [id ord tail eidx|id big step pfx fc ch IH] using tree_ind'; intros i path rc Hwf Hp Hrc.
  - cbn [ge_down gs_nib]. csplit; [exact Hp| |exact Hrc]. intros c j v E. inversion E; subst. exact Hwf.
  - rewrite ge_down_inner. set (t := Inner id big step pfx fc ch) in *.
    pose proof Hwf as Hwf0. apply nib_wf_inner in Hwf. destruct Hwf as [_ Hk]. clearbody t.
    destruct (ge_advance qn i pfx) as [i1| |].
    + cbv zeta. set (path1 := path ++ [t]). set (lb := label_at big qn i1).
      assert (Forall nib_wf path1) as Hp1 by (apply Forall_app; split; [exact Hp|constructor; [exact Hwf0|constructor]]).
      induction ch as [|[x c] rest IHc]; [cbn [gs_nib]; csplit; [exact Hp1|discriminate|exact Hrc]|].
      inversion IH as [|? ? IHt IHrest]; subst. cbn [snd] in IHt.
      inversion Hk as [|? ? [_ Hc] Hkr]; subst. cbn [snd] in Hc.
      destruct (x <? lb); [apply IHc; assumption|].
      destruct (Nat.eqb x lb).
      * set (rc' := match rest with (_, c') :: _ => Some (c', length path1) | [] => rc end).
        assert (forall r n, rc' = Some (r, n) -> nib_wf r) as Hrc'.
        { unfold rc'. destruct rest as [|[y c'] rest']; [exact Hrc|].
          intros r n E. inversion E; subst. inversion Hkr as [|? ? [_ Hc'] _]; subst. exact Hc'. }
        destruct (Nat.eqb i1 l).
        -- cbn [gs_nib]. csplit; [exact Hp1| |exact Hrc']. intros c0 j v E. inversion E; subst. exact Hc.
        -- apply IHt; assumption.
      * cbn [gs_nib]. csplit; [exact Hp1|discriminate|]. intros r n E. inversion E; subst. exact Hc.
    + cbn [gs_nib]. csplit; [exact Hp|discriminate|]. intros r n E. inversion E; subst. exact Hwf0.
    + cbn [gs_nib]. csplit; [exact Hp|discriminate|exact Hrc].
Qed.

Lemma ge_path_nib T s path eq :
  (forall r, t_root T = Some r -> nib_wf r) -> ge_path T s = Ok (path, eq) -> Forall nib_wf path.
Proof.
  intros Hr H. unfold ge_path in H. destruct (t_root T) as [r|]; [|inversion H; constructor].
  destruct (t_innerpfx T && t_leafpfx T); [|discriminate].
  pose proof (ge_down_nib (nibs s) (length (nibs s)) r 0 [] None (Hr r eq_refl) (Forall_nil _)
                          (fun r n E => ltac:(discriminate))) as G.
  destruct (ge_down (nibs s) (length (nibs s)) r 0 [] None) as [[p e] rc].
  destruct G as (Hp & He & Hrc). inversion H as [Hf]. clear H. unfold ge_finish in Hf.
  assert (Forall nib_wf (fst (match rc with
                               | Some (rid, rpl) => (firstn rpl p ++ leftmost_path rid, false)
                               | None => ([], false)
                               end))) as Hfb.
  { destruct rc as [[rid rpl]|]; cbn [fst]; [|constructor].
    apply Forall_app. split.
    - rewrite Forall_forall in *. intros x Hx. apply Hp. eapply In_firstn_in. exact Hx.
    - apply leftmost_path_nib. eapply Hrc. reflexivity. }
  destruct e as [[[c j] v]|].
  - assert (Forall nib_wf (p ++ [c])) as Hpc.
    { apply Forall_app. split; [exact Hp|]. constructor; [eapply He; reflexivity|constructor]. }
    destruct (if t_leafpfx T then _ else _) in Hf;
      first [inversion Hf; subst; exact Hpc | rewrite Hf in Hfb; exact Hfb].
  - rewrite Hf in Hfb. exact Hfb.
Qed.

Theorem iter_init_sim T s incl withv it :
  (forall r, t_root T = Some r -> nib_wf r) ->
  iter_init T s incl withv = Ok it ->
  exists bit, b_iter_init T s incl withv = Ok bit /\ iter_rel it bit.
Proof.
  intros Hr H. unfold iter_init in H. unfold b_iter_init.
  destruct (ge_path T s) as [[path eq]|e] eqn:Eg; [|discriminate]. cbn [bind] in *.
  apply new_iter_sim; [|exact H]. eapply ge_path_nib; eassumption.
Qed.

(* ---------- built tries ---------- *)
Lemma label_at_ok big ns w : Forall (fun x => x < 16) ns -> lab_ok big (label_at big ns w).
Proof.
  intros F. assert (Forall (fun x => x < 16) (skipn w ns)) as F'.
  { rewrite Forall_forall in *. intros x Hx. apply F. eapply In_skipn_in. exact Hx. }
  unfold label_at, lab_ok. destruct (skipn w ns) as [|a r]; [destruct big; lia|].
  inversion F' as [|? ? Ha Fr]; subst. destruct big; [|lia].
  destruct r as [|b r']; [lia|]. inversion Fr; subst. lia.
Qed.

Lemma nib_wf_of_trie o : forall t s, trie_of o t s -> SubInv s -> nib_wf t.
Proof.
  induction t as [id ord tail eidx|id big step pfx fc ch IH] using tree_ind'; intros s Ht I; [exact Logic.I|].
  cbn [trie_of] in Ht. destruct Ht as (ib & labels & kids & b' & Hp & Hfst & Hkm).
  pose proof (inner_facts _ _ _ _ _ _ _ _ _ I Hp) as F.
  pose proof (children_ok o s big labels kids ch I F Hfst Hkm) as Hch.
  pose proof (si_ok s I) as Hok. rewrite Forall_forall in Hok.
  apply nib_wf_inner. split.
  - pose proof (process_inner_inv _ _ _ _ _ _ _ _ _ Hp) as Hinv. cbv zeta in Hinv.
    destruct Hinv as ((e0 & e1 & r & Es & Hpfx) & _).
    destruct (o_inner o && (0 <? sub_w big s - s_from s)); subst pfx; [|exact Logic.I].
    cbn [pfx_ok]. assert (In e0 (s_ents s)) as He0 by (rewrite Es; left; reflexivity).
    pose proof (ent_ok_lt16 e0 (Hok e0 He0)) as F0. rewrite Forall_forall in *.
    intros x Hx. apply F0. eapply In_skipn_in. eapply In_firstn_in. exact Hx.
  - rewrite Forall_forall in *. intros [x c] Hin. pose proof (Hch _ Hin) as Hc. cbn [fst snd] in Hc.
    split; cbn [fst snd].
    + pose proof (co_in _ _ _ _ _ Hc) as Hx. cbn [fst] in Hx.
      rewrite (if_labels _ _ _ _ _ F) in Hx. apply (proj1 (dedup_adj_In _ _)) in Hx.
      apply in_map_iff in Hx. destruct Hx as (e & Hl & He). apply filter_In in He. destruct He as [He _].
      rewrite <- Hl. unfold ent_label. apply label_at_ok. apply ent_ok_lt16. apply Hok. exact He.
    + apply (IH _ Hin _ (co_trie _ _ _ _ _ Hc) (co_inv _ _ _ _ _ Hc)).
Qed.

Lemma built_nib o keys vals T :
  build o keys vals = Ok T -> forall r, t_root T = Some r -> nib_wf r.
Proof.
  intros Hb r Hr. destruct (build_ok _ _ _ _ Hb) as [[_ ->]|(r' & lidx & Bt)]; [discriminate|].
  rewrite (bt_root _ _ _ _ _ _ Bt) in Hr. inversion Hr; subst r'.
  apply (nib_wf_of_trie o r _ (bt_trie _ _ _ _ _ _ Bt)).
  apply root_inv; [exact (bt_sorted _ _ _ _ _ _ Bt)|exact (bt_nonempty _ _ _ _ _ _ Bt)].
Qed.

(* ---------- the byte-level iterator refines Scan's iterator on every built trie ---------- *)
Theorem scan_bytes_refine o keys vals T :
  build o keys vals = Ok T ->
  forall s incl withv it,
    iter_init T s incl withv = Ok it ->
    exists bit,
      b_iter_init T s incl withv = Ok bit /\
      (forall n rs, iter_run n T it = Ok rs -> b_iter_run n T bit = Ok rs) /\
      (forall fn xs, scan_from T s incl withv fn = Ok xs -> b_scan_from T s incl withv fn = Ok xs) /\
      (forall e incle fn xs, scan_from_to T s incl e incle withv fn = Ok xs ->
                             b_scan_from_to T s incl e incle withv fn = Ok xs).
Proof.
  intros Hb s incl withv it Hi.
  destruct (iter_init_sim T s incl withv it (built_nib o keys vals T Hb) Hi) as (bit & Hbi & Hrel).
  exists bit. split; [exact Hbi|]. split; [|split].
  - intros n rs. apply iter_run_sim. exact Hrel.
  - intros fn xs H. unfold scan_from in H. unfold b_scan_from. rewrite Hi in H. rewrite Hbi. cbn [bind] in *.
    eapply scan_loop_sim; eassumption.
  - intros e incle fn xs H. unfold scan_from_to in H. unfold b_scan_from_to. rewrite Hi in H. rewrite Hbi. cbn [bind] in *.
    eapply scan_loop_sim; eassumption.
Qed.

(* ---------- C04 for the byte-level iterator ---------- *)
Theorem scan_bytes_complete o keys vals T :
  build o keys vals = Ok T -> complete_opts o = true ->
  forall s incl withv, exists bit outs,
    b_iter_init T s incl withv = Ok bit /\
    Forall2 (elem_ok keys vals withv) (scan_indexes o keys vals s incl) outs /\
    (forall n, b_iter_run n T bit = Ok (firstn n (map Some outs ++ repeat None n))) /\
    (forall fn, b_scan_from T s incl withv fn = Ok (cut fn 0 outs)) /\
    (forall e incle fn, b_scan_from_to T s incl e incle withv fn = Ok (cut_to e incle fn 0 outs)).
Proof.
  intros Hb Hc s incl withv.
  destruct (scan_complete o keys vals T Hb Hc s incl withv) as (it & outs & Hi & He & Hrun & Hsf & Hsft).
  destruct (scan_bytes_refine o keys vals T Hb s incl withv it Hi) as (bit & Hbi & Brun & Bsf & Bsft).
  exists bit, outs. split; [exact Hbi|]. split; [exact He|]. split; [|split].
  - intros n. apply Brun. apply Hrun.
  - intros fn. apply Bsf. apply Hsf.
  - intros e incle fn. apply Bsft. apply Hsft.
Qed.

(* ---------- the re-included half byte ----------
   A stored inner prefix starts at the byte boundary at or below the position
   where the node starts, a leaf tail at the byte boundary at or below the end of
   the last label: when that position is an odd nibble, the first stored byte
   repeats, in its high half, the nibble the buffer already holds there.  The
   code cuts the buffer at that byte boundary and appends; on a built trie the
   buffer below the cursor is unchanged by this (so nothing is lost), because
   the buffer agrees with every key of the node's subset on the first [from]
   nibbles and the stored bytes are bytes of such a key. *)
Theorem prefix_overlap o isbig s big step pfx labels kids b' buf :
  o_inner o = true -> SubInv s ->
  process_subset o isbig s = Ok (DInner big step pfx labels kids, b') ->
  agree s (s_from s) buf ->
  firstn (s_from s) (b1_of pfx (s_from s) buf) = firstn (s_from s) buf.
Proof.
  intros Hi I Hp Hag.
  destruct (inner_pfx_facts o isbig s big step pfx labels kids b' buf Hi I Hp Hag) as [_ Hb1].
  pose proof (inner_facts _ _ _ _ _ _ _ _ _ I Hp) as F.
  pose proof (if_two _ _ _ _ _ F) as Htwo. pose proof (if_w _ _ _ _ _ F) as Hw.
  destruct (s_ents s) as [|e0 r0] eqn:Es; [cbn in Htwo; lia|].
  rewrite (Hb1 e0 (or_introl eq_refl)). destruct Hag as [_ Hag]. rewrite <- (Hag e0); [|rewrite Es; left; reflexivity].
  rewrite firstn_firstn. f_equal. lia.
Qed.

Theorem leaf_overlap o e from buf :
  o_leaf o = true -> ent_ok e -> firstn from (e_nibs e) = firstn from buf ->
  firstn (even_down from) buf ++ tail_nibs (leaf_tail o e from) = e_nibs e /\
  firstn from (firstn (even_down from) buf ++ tail_nibs (leaf_tail o e from)) = firstn from buf.
Proof.
  intros Hl Hok Hag. rewrite (leaf_tail_nibs o e from Hl Hok).
  pose proof (even_down_le from) as Hed.
  rewrite <- (firstn_le_agree _ _ _ _ Hed Hag), firstn_skipn. split; [reflexivity|exact Hag].
Qed.
