(* ListFacts.v - generic list lemmas used by the trie proofs. *)
From Slim Require Import Base Keys.
From Coq Require Import Sorting.Sorted.

Lemma take_drop_while {A} (f : A -> bool) l : take_while f l ++ drop_while f l = l.
Proof. induction l as [|x l IH]; cbn; [reflexivity|]. destruct (f x); cbn; [f_equal; exact IH|reflexivity]. Qed.

Lemma take_while_all {A} (f : A -> bool) l : Forall (fun x => f x = true) (take_while f l).
Proof. induction l as [|x l IH]; cbn; [constructor|]. destruct (f x) eqn:E; constructor; assumption. Qed.

Lemma drop_while_head {A} (f : A -> bool) l x r : drop_while f l = x :: r -> f x = false.
Proof.
  induction l as [|y l IH]; cbn; [discriminate|]. destruct (f y) eqn:E; [exact IH|].
  intros H; inversion H; subst; exact E.
Qed.

Lemma drop_while_nil {A} (f : A -> bool) l : drop_while f l = [] -> Forall (fun x => f x = true) l.
Proof.
  induction l as [|y l IH]; cbn; [constructor|]. destruct (f y) eqn:E; [|discriminate].
  intros H; constructor; auto.
Qed.

Lemma filter_all_false {A} (f : A -> bool) l : Forall (fun x => f x = false) l -> filter f l = [].
Proof. induction 1 as [|x l Hx _ IH]; cbn; [reflexivity|]. rewrite Hx. exact IH. Qed.

Lemma filter_all_true {A} (f : A -> bool) l : Forall (fun x => f x = true) l -> filter f l = l.
Proof. induction 1 as [|x l Hx _ IH]; cbn; [reflexivity|]. rewrite Hx. f_equal. exact IH. Qed.

Lemma SS_app_inv {A} (R : A -> A -> Prop) a b :
  StronglySorted R (a ++ b) ->
  StronglySorted R a /\ StronglySorted R b /\ (forall x y, In x a -> In y b -> R x y).
Proof.
  induction a as [|x a IH]; cbn; intros H.
  - repeat split; [constructor|exact H|intros ? ? []].
  - inversion H as [|? ? Hs Hf]; subst. destruct (IH Hs) as (Ha & Hb & Hab).
    apply Forall_app in Hf. destruct Hf as [Hfa Hfb].
    repeat split; [constructor; assumption|exact Hb|].
    intros u v [->|Hu] Hv; [|auto]. rewrite Forall_forall in Hfb. auto.
Qed.

Lemma SS_filter {A} (R : A -> A -> Prop) f l : StronglySorted R l -> StronglySorted R (filter f l).
Proof.
  induction 1 as [|x l Hs IH Hf]; cbn; [constructor|].
  destruct (f x); [|exact IH]. constructor; [exact IH|].
  rewrite Forall_forall in *. intros y Hy. apply filter_In in Hy. apply Hf. tauto.
Qed.

Lemma SS_map {A B} (R : A -> A -> Prop) (S : B -> B -> Prop) (g : A -> B) l :
  (forall x y, R x y -> S (g x) (g y)) -> StronglySorted R l -> StronglySorted S (map g l).
Proof.
  intros HRS. induction 1 as [|x l Hs IH Hf]; cbn; constructor; [exact IH|].
  rewrite Forall_forall in *. intros y Hy. apply in_map_iff in Hy. destruct Hy as (z & <- & Hz). auto.
Qed.

Lemma SS_impl {A} (R S : A -> A -> Prop) l :
  (forall x y, In x l -> In y l -> R x y -> S x y) -> StronglySorted R l -> StronglySorted S l.
Proof.
  intros H Hs. induction Hs as [|x l Hs IH Hf]; constructor.
  - apply IH. intros; apply H; cbn; auto.
  - rewrite Forall_forall in *. intros y Hy. apply H; cbn; auto.
Qed.

Lemma SS_lt_NoDup l : StronglySorted lt l -> NoDup l.
Proof.
  induction 1 as [|x l Hs IH Hf]; constructor; [|exact IH].
  intros Hin. rewrite Forall_forall in Hf. specialize (Hf x Hin). lia.
Qed.

(* dedup_adj *)
Lemma dedup_adj_In x l : In x (dedup_adj l) <-> In x l.
Proof.
  induction l as [|a l IH]; [tauto|].
  cbn [dedup_adj]. destruct l as [|b l']; [tauto|].
  destruct (Nat.eqb_spec a b) as [->|Hne].
  - rewrite IH. cbn. tauto.
  - cbn [In]. rewrite IH. cbn. tauto.
Qed.

Lemma dedup_adj_sorted l : StronglySorted le l -> StronglySorted lt (dedup_adj l).
Proof.
  induction 1 as [|a l Hs IH Hf]; [constructor|].
  cbn [dedup_adj]. destruct l as [|b l']; [constructor; constructor|].
  destruct (Nat.eqb_spec a b) as [->|Hne]; [exact IH|].
  constructor; [exact IH|].
  rewrite Forall_forall in *. intros y Hy. apply (proj1 (dedup_adj_In _ _)) in Hy.
  inversion Hs as [|? ? Hs' Hfb]; subst. rewrite Forall_forall in Hfb.
  assert (a <= b) by (apply Hf; cbn; auto).
  cbn [In] in Hy. destruct Hy as [<-|Hy]; [lia|]. specialize (Hfb y Hy). lia.
Qed.

Lemma dedup_adj_nonempty l : l <> [] -> dedup_adj l <> [].
Proof.
  intros H E. destruct l as [|a l]; [congruence|].
  assert (In a (dedup_adj (a :: l))) as Hin by (apply dedup_adj_In; cbn; auto).
  rewrite E in Hin. exact Hin.
Qed.

(* list_min *)
Lemma list_min_le d l : list_min d l <= d /\ Forall (fun x => list_min d l <= x) l.
Proof.
  revert d; induction l as [|x l IH]; intros d; cbn; [split; [lia|constructor]|].
  destruct (IH (Nat.min d x)) as [H1 H2]. split; [lia|].
  constructor; [lia|exact H2].
Qed.

Lemma list_min_ge d l n : n <= d -> Forall (fun x => n <= x) l -> n <= list_min d l.
Proof.
  revert d; induction l as [|x l IH]; intros d Hd Hf; cbn; [exact Hd|].
  inversion Hf; subst. apply IH; [lia|assumption].
Qed.

Lemma nth_error_map_some {A B} (f : A -> B) l n x : nth_error l n = Some x -> nth_error (map f l) n = Some (f x).
Proof. intros H. rewrite nth_error_map, H. reflexivity. Qed.

Lemma Forall2_length_eq {A B} (R : A -> B -> Prop) l m : Forall2 R l m -> length l = length m.
Proof. induction 1; cbn; congruence. Qed.

Lemma Forall2_nth {A B} (R : A -> B -> Prop) l m n x y :
  Forall2 R l m -> nth_error l n = Some x -> nth_error m n = Some y -> R x y.
Proof.
  intros H; revert n; induction H as [|a b l m Hab _ IH]; intros [|n]; cbn; try discriminate.
  - intros Hx Hy; inversion Hx; inversion Hy; subst; exact Hab.
  - apply IH.
Qed.

Lemma sum_list_zero l : sum_list l = 0 -> Forall (fun x => x = 0) l.
Proof. induction l as [|x l IH]; cbn; [constructor|]. intros H. constructor; [lia|apply IH; lia]. Qed.

Lemma In_firstn_in {A} n (l : list A) x : In x (firstn n l) -> In x l.
Proof. intros H. rewrite <- (firstn_skipn n l). apply in_or_app. left. exact H. Qed.

Lemma In_skipn_in {A} n (l : list A) x : In x (skipn n l) -> In x l.
Proof. intros H. rewrite <- (firstn_skipn n l). apply in_or_app. right. exact H. Qed.

Lemma flat_map_ext_in {A B} (f g : A -> list B) l :
  (forall x, In x l -> f x = g x) -> flat_map f l = flat_map g l.
Proof.
  induction l as [|x l IH]; intros H; [reflexivity|]. cbn [flat_map].
  rewrite (H x (or_introl eq_refl)), IH; [reflexivity|]. intros; apply H; right; assumption.
Qed.

Lemma flat_map_map {A B C} (g : A -> B) (f : B -> list C) l : flat_map f (map g l) = flat_map (fun x => f (g x)) l.
Proof. induction l as [|x l IH]; [reflexivity|]. cbn. rewrite IH. reflexivity. Qed.

Lemma app_eq_app_length {A} (a b c d : list A) : length a = length c -> a ++ b = c ++ d -> a = c /\ b = d.
Proof.
  revert c; induction a as [|x a IH]; intros [|y c] Hl H; cbn in *; try discriminate; [auto|].
  inversion H; subst. destruct (IH c ltac:(lia) H2) as [-> ->]. auto.
Qed.
