(* BuildProofs.v - the tree returned by [build] satisfies [trie_of] for the root
   subset, its leaf ordinals index the BFS leaf list, and the root subset
   satisfies [SubInv]. *)
From Slim Require Import Base Keys KeysProofs ListFacts Model TrieInv.
From Coq Require Import Sorting.Sorted ZifyNat ZifyBool.

(* ---------- leaves of a tree: (ordinal, key index) ---------- *)
Fixpoint leaves_of (t : tree) : list (nat * nat) :=
  match t with
  | Leaf _ ord _ eidx => [(ord, eidx)]
  | Inner _ _ _ _ _ ch =>
      (fix go (ch : list (nat * tree)) : list (nat * nat) :=
         match ch with [] => [] | (_, c) :: r => leaves_of c ++ go r end) ch
  end.

Definition leaf_ok (L : list nat) (base : nat) (t : tree) : Prop :=
  Forall (fun p => base <= fst p /\ nth_error L (fst p - base) = Some (snd p)) (leaves_of t).

Lemma leaves_of_inner id big step pfx fc ch :
  leaves_of (Inner id big step pfx fc ch) = flat_map (fun p => leaves_of (snd p)) ch.
Proof.
  cbn [leaves_of]. induction ch as [|[x c] r IH]; [reflexivity|]. cbn [flat_map snd]. rewrite IH. reflexivity.
Qed.

Lemma leaf_ok_inner L base id big step pfx fc ch :
  Forall (fun p => leaf_ok L base (snd p)) ch -> leaf_ok L base (Inner id big step pfx fc ch).
Proof.
  unfold leaf_ok. rewrite leaves_of_inner. induction 1 as [|p r Hp _ IH]; cbn [flat_map]; [constructor|].
  apply Forall_app; split; assumption.
Qed.

Lemma leaf_ok_inner_inv L base id big step pfx fc ch :
  leaf_ok L base (Inner id big step pfx fc ch) -> Forall (fun p => leaf_ok L base (snd p)) ch.
Proof.
  unfold leaf_ok. rewrite leaves_of_inner. induction ch as [|p r IH]; cbn [flat_map]; [constructor|].
  intros H. apply Forall_app in H. destruct H. constructor; auto.
Qed.

Lemma leaf_ok_shift A L base t :
  leaf_ok L (base + length A) t -> leaf_ok (A ++ L) base t.
Proof.
  unfold leaf_ok. apply Forall_impl. intros [ord e] [H1 H2]. cbn [fst snd] in *. split; [lia|].
  rewrite nth_error_app2 by lia. rewrite <- H2. f_equal. lia.
Qed.

(* ---------- process_level ---------- *)
Definition produced (o : opts) (s : subset) (d : desc) : Prop :=
  exists ib b2, process_subset o ib s = Ok (d, b2).

Lemma process_level_spec o : forall ss isbig ds b',
  process_level o isbig ss = Ok (ds, b') -> Forall2 (produced o) ss ds.
Proof.
  induction ss as [|s r IH]; intros isbig ds b' H; cbn [process_level] in H.
  - inversion H; subst. constructor.
  - unfold bind in H. destruct (process_subset o isbig s) as [[d b]|] eqn:E; [|discriminate].
    destruct (process_level o b r) as [[ds' b'']|] eqn:E2; [|discriminate].
    inversion H; subst. constructor; [exists isbig, b; exact E|eapply IH; exact E2].
Qed.

Lemma split_kids_length big w labels es : length (split_kids big w labels es) = length labels.
Proof.
  revert es; induction labels as [|lb r IH]; intros es; [reflexivity|].
  cbn [split_kids]. destruct (drop_while _ es); cbn [length]; rewrite IH; reflexivity.
Qed.

Lemma produced_inner_lengths o s big step pfx labels kids :
  produced o s (DInner big step pfx labels kids) -> length kids = length labels.
Proof.
  intros (ib & b2 & H). apply process_inner_inv in H. cbv zeta in H.
  destruct H as (_ & _ & _ & Hk & _). rewrite Hk. apply split_kids_length.
Qed.

Lemma map_fst_combine {A B} (l : list A) (m : list B) : length l = length m -> map fst (combine l m) = l.
Proof.
  revert m; induction l as [|x l IH]; intros [|y m] H; cbn in *; try discriminate; [reflexivity|].
  f_equal. apply IH. lia.
Qed.

Lemma map_snd_combine {A B} (l : list A) (m : list B) : length l = length m -> map snd (combine l m) = m.
Proof.
  revert m; induction l as [|x l IH]; intros [|y m] H; cbn in *; try discriminate; [reflexivity|].
  f_equal. apply IH. lia.
Qed.

(* ---------- assemble ---------- *)
Lemma assemble_spec o : forall ss ds, Forall2 (produced o) ss ds ->
  forall id cid lord forest,
  Forall2 (trie_of o) forest (flat_map kids_of ds) ->
  Forall2 (trie_of o) (assemble ds id cid lord forest) ss.
Proof.
  induction 1 as [|s d ss ds Hsd _ IH]; intros id cid lord forest Hf; [constructor|].
  destruct d as [tail eidx|big step pfx labels kids]; cbn [assemble].
  - constructor.
    + destruct Hsd as (ib & b2 & Hp). cbn [trie_of]. eapply process_leaf_inv; exact Hp.
    + apply IH. exact Hf.
  - cbn [flat_map kids_of] in Hf. apply Forall2_app_inv_r in Hf.
    destruct Hf as (f1 & f2 & H1 & H2 & ->).
    pose proof (Forall2_length_eq _ _ _ H1) as L1.
    pose proof (produced_inner_lengths _ _ _ _ _ _ _ Hsd) as L2.
    rewrite <- L1. rewrite firstn_app, Nat.sub_diag, firstn_all, firstn_O, app_nil_r.
    rewrite skipn_app, Nat.sub_diag, skipn_all, skipn_O. cbn [app].
    constructor; [|apply IH; exact H2].
    destruct Hsd as (ib & b2 & Hp). cbn [trie_of]. exists ib, labels, kids, b2.
    split; [exact Hp|]. split; [apply map_fst_combine; lia|].
    apply kids_match_Forall2. rewrite map_snd_combine by lia. exact H1.
Qed.

Lemma assemble_leaf_ok L lbase : forall ds id cid lord forest pre post,
  L = pre ++ flat_map leaf_idx_of ds ++ post -> lord = lbase + length pre ->
  Forall (leaf_ok L lbase) forest ->
  Forall (leaf_ok L lbase) (assemble ds id cid lord forest).
Proof.
  induction ds as [|d ds IH]; intros id cid lord forest pre post HL Hlord Hf; [constructor|].
  destruct d as [tail eidx|big step pfx labels kids]; cbn [assemble].
  - constructor.
    + unfold leaf_ok. cbn [leaves_of]. constructor; [|constructor]. cbn [fst snd]. split; [lia|].
      rewrite HL, Hlord. replace (lbase + length pre - lbase) with (length pre) by lia.
      rewrite nth_error_app2 by lia. rewrite Nat.sub_diag. reflexivity.
    + apply (IH _ _ _ _ (pre ++ [eidx]) post).
      * rewrite HL. cbn [flat_map leaf_idx_of app]. rewrite <- app_assoc. reflexivity.
      * rewrite app_length. cbn. lia.
      * exact Hf.
  - constructor.
    + apply leaf_ok_inner. rewrite Forall_forall. intros [x c] Hin. cbn [snd].
      apply in_combine_r in Hin. apply (In_firstn_in) in Hin. rewrite Forall_forall in Hf. auto.
    + apply (IH _ _ _ _ pre post); [exact HL|exact Hlord|].
      rewrite Forall_forall in *. intros t Ht. apply Hf. eapply In_skipn_in; exact Ht.
Qed.

(* ---------- build_levels ---------- *)
Lemma build_levels_ok o : forall fuel isbig base lbase ss forest lidx,
  build_levels fuel o isbig base lbase ss = Ok (forest, lidx) ->
  Forall2 (trie_of o) forest ss /\ Forall (leaf_ok lidx lbase) forest.
Proof.
  induction fuel as [|f IH]; intros isbig base lbase ss forest lidx H.
  - destruct ss; cbn in H; [|discriminate]. inversion H; subst. split; constructor.
  - destruct ss as [|s0 ss0]; [cbn in H; inversion H; subst; split; constructor|].
    remember (s0 :: ss0) as ss eqn:Ess.
    assert (build_levels (S f) o isbig base lbase ss =
            (do (ds, b) <- process_level o isbig ss;
             let lidx := flat_map leaf_idx_of ds in
             let cbase := base + length ss in
             do (forest, lidx') <- build_levels f o b cbase (lbase + length lidx) (flat_map kids_of ds);
             Ok (assemble ds base cbase lbase forest, lidx ++ lidx'))) as Hunf.
    { rewrite Ess. reflexivity. }
    rewrite Hunf in H. clear Hunf. unfold bind in H.
    destruct (process_level o isbig ss) as [[ds b]|] eqn:E1; [|discriminate].
    cbv zeta in H.
    destruct (build_levels f o b (base + length ss) (lbase + length (flat_map leaf_idx_of ds)) (flat_map kids_of ds))
      as [[forest' lidx']|] eqn:E2; [|discriminate].
    inversion H; subst forest lidx. clear H.
    destruct (IH _ _ _ _ _ _ E2) as [HT HL].
    pose proof (process_level_spec _ _ _ _ _ E1) as Hp.
    split.
    + eapply assemble_spec; eassumption.
    + apply (assemble_leaf_ok _ lbase ds _ _ _ _ [] lidx').
      * reflexivity.
      * cbn. lia.
      * eapply Forall_impl; [|exact HL]. intros t Ht. apply leaf_ok_shift. exact Ht.
Qed.

(* ---------- entries ---------- *)
Lemma mk_ents_nth : forall keys b keep i k,
  nth_error keys i = Some k ->
  nth_error (mk_ents b keys keep) i =
  Some {| e_key := k; e_nibs := nibs k; e_keep := nth i keep true; e_idx := b + i |}.
Proof.
  induction keys as [|k0 r IH]; intros b keep [|i] k H; cbn in H; try discriminate.
  - inversion H; subst. cbn [mk_ents nth_error]. rewrite Nat.add_0_r. destruct keep; reflexivity.
  - cbn [mk_ents nth_error]. rewrite (IH (S b) (tl keep) i k H).
    assert (nth i (tl keep) true = nth (S i) keep true) as -> by (destruct keep; [destruct i; reflexivity|reflexivity]).
    replace (S b + i) with (b + S i) by lia. reflexivity.
Qed.

Lemma mk_ents_in : forall keys b keep e,
  In e (mk_ents b keys keep) -> ent_ok e /\ In (e_key e) keys.
Proof.
  induction keys as [|k0 r IH]; intros b keep e H; cbn [mk_ents] in H; [destruct H|].
  destruct H as [<-|H]; [split; [reflexivity|left; reflexivity]|].
  destruct (IH _ _ _ H). split; [assumption|right; assumption].
Qed.

Lemma mk_ents_sorted : forall keys b keep,
  StronglySorted key_lt keys -> StronglySorted ent_lt (mk_ents b keys keep).
Proof.
  induction keys as [|k0 r IH]; intros b keep Hs; cbn [mk_ents]; [constructor|].
  inversion Hs as [|? ? Hs' Hf]; subst. constructor; [apply IH; exact Hs'|].
  rewrite Forall_forall in *. intros e He. destruct (mk_ents_in _ _ _ _ He) as [Hok Hin].
  unfold ent_lt. cbn [e_nibs]. rewrite Hok. apply Hf. exact Hin.
Qed.

Lemma to_keep_hd o n vals : 0 < n -> hd true (to_keep o n vals) = true.
Proof.
  intros Hn. unfold to_keep. destruct vals as [vs|]; [destruct (o_dedup o)|]; try reflexivity;
    destruct n; try lia; reflexivity.
Qed.

Definition root_subset (o : opts) (keys : list key) (vals : option (list (list byte))) : subset :=
  {| s_ents := mk_ents 0 keys (to_keep o (length keys) vals); s_from := 0 |}.

Lemma root_inv o keys vals : AdjSorted keys -> keys <> [] -> SubInv (root_subset o keys vals).
Proof.
  intros Hs Hne. unfold root_subset. constructor; cbn [s_ents s_from].
  - rewrite Forall_forall. intros e He. apply (mk_ents_in _ _ _ _ He).
  - apply mk_ents_sorted. apply AdjSorted_strong. exact Hs.
  - intros a b _ _. reflexivity.
  - intros a _. lia.
  - destruct keys as [|k r]; [congruence|]. cbn [mk_ents].
    eexists. split; [left; reflexivity|]. cbn [e_keep].
    pose proof (to_keep_hd o (length (k :: r)) vals) as H.
    destruct (to_keep o (length (k :: r)) vals); [reflexivity|]. apply H. cbn. lia.
Qed.

(* ---------- build ---------- *)
Record Built (o : opts) (keys : list key) (vals : option (list (list byte))) (T : trie) (r : tree) (lidx : list nat) : Prop := {
  bt_sorted : AdjSorted keys;
  bt_nonempty : keys <> [];
  bt_root : t_root T = Some r;
  bt_trie : trie_of o r (root_subset o keys vals);
  bt_leaf : leaf_ok lidx 0 r;
  bt_leaves : t_leaves T = select_leaves vals lidx;
  bt_leafpfx : t_leafpfx T = o_leaf o;
  bt_innerpfx : t_innerpfx T = o_inner o
}.

Lemma build_gen_unfold b o keys vals : keys <> [] ->
  build_gen b o keys vals =
  match check_order keys with
  | Some i => Err (EOutOfOrder i)
  | None =>
      let ents := mk_ents 0 keys (to_keep o (length keys) vals) in
      do (forest, lidx) <- build_levels (max_nibs keys + 3) o b 0 0 [{| s_ents := ents; s_from := 0 |}];
      match forest with
      | [r] => Ok {| t_root := Some r; t_innerpfx := o_inner o; t_leafpfx := o_leaf o;
                     t_leaves := select_leaves vals lidx |}
      | _ => Err (EPanic 3)
      end
  end.
Proof. destruct keys; [congruence|reflexivity]. Qed.

Lemma build_unfold o keys vals : keys <> [] ->
  build o keys vals =
  match check_order keys with
  | Some i => Err (EOutOfOrder i)
  | None =>
      let ents := mk_ents 0 keys (to_keep o (length keys) vals) in
      do (forest, lidx) <- build_levels (max_nibs keys + 3) o true 0 0 [{| s_ents := ents; s_from := 0 |}];
      match forest with
      | [r] => Ok {| t_root := Some r; t_innerpfx := o_inner o; t_leafpfx := o_leaf o;
                     t_leaves := select_leaves vals lidx |}
      | _ => Err (EPanic 3)
      end
  end.
Proof. apply (build_gen_unfold true). Qed.

Lemma build_gen_ok b o keys vals T :
  build_gen b o keys vals = Ok T ->
  (keys = [] /\ T = empty_trie) \/ exists r lidx, Built o keys vals T r lidx.
Proof.
  destruct keys as [|k0 kr]; [intros H; inversion H; left; auto|].
  rewrite build_gen_unfold by discriminate.
  destruct (check_order (k0 :: kr)) as [i|] eqn:Ec; [discriminate|].
  cbv zeta. unfold bind.
  destruct (build_levels _ o b 0 0 _) as [[forest lidx]|] eqn:Eb; [|discriminate].
  destruct forest as [|r [|r2 rest]]; try discriminate.
  intros H. inversion H; subst T. clear H. right. exists r, lidx.
  apply build_levels_ok in Eb. destruct Eb as [HT HL].
  inversion HT as [|? ? ? ? Hr _]; subst. inversion HL as [|? ? Hl _]; subst.
  constructor; cbn [t_root t_leaves t_leafpfx t_innerpfx]; try reflexivity; try assumption.
  - apply check_order_none. exact Ec.
  - discriminate.
Qed.

Lemma build_ok o keys vals T :
  build o keys vals = Ok T ->
  (keys = [] /\ T = empty_trie) \/ exists r lidx, Built o keys vals T r lidx.
Proof. apply (build_gen_ok true). Qed.
