(* GetIntMsg.v - GetI8 / GetI16 / GetI32 / GetI64 (trie/slimtrie_getint.go) computed from
   the bit-level message, the way the Go code does (C14 through the bitmaps):

       eqID := st.GetID(key)                        Msg.mgetid (getNode, getLeftChildID,
       if eqID == -1 { return 0, false }              getLeafPrefix over the bitmaps)
       ith, _ := st.getLeafIndex(eqID)              mleaf_index: nodeid - Rank64(NodeTypeBM, nodeid)
       stIdx := ith << log2 w
       b := st.inner.Leaves.Bytes[stIdx : stIdx+w]  read DIRECTLY from v_bytes of m_leaves m:
                                                    no presence bitmap, no position bitmap, no
                                                    fixed size is consulted (this is the
                                                    "optimisation" of the typed getters)
       v := intN(b[0]) | intN(b[1])<<8 | ...        GetInt.geti_value (Go's wrapping conversions)

   Outcomes: a nil Leaves is the nil-pointer dereference EPanic 20, a slice beyond the
   buffer EPanic 21 (the same codes as GetInt.geti); a nil NodeTypeBM EPanic 24 and an index
   beyond the rank index / words of NodeTypeBM EPanic 25 (neither can happen after GetID
   returned an id).  For the id of an inner node getLeafIndex returns the same expression
   (id minus the inner nodes before it); the Go code does not look at the node type, nor
   does the model.  Definitions only; proofs in GetIntMsgProofs.v. *)
From Slim Require Import Base Keys Model BitmapRank BitmapRank2 Bits Msg GetInt.
Local Open Scope nat_scope.

(* getLeafIndex: (nodeid - r, bit) where (r, bit) = Rank64(NodeTypeBM.Words, RankIndex, nodeid) *)
Definition mleaf_index (m : msg) (id : N) : out (N * N) :=
  match m_nodetype m with
  | None => Panic
  | Some nt =>
      doo (r, isinner) <- rank64 (b_words nt) (b_rank nt) id;
      Val ((id - r)%N, isinner)
  end.

Definition mgeti (w fuel : nat) (m : msg) (vs : vars) (q : key) : res (Z * bool) :=
  do g <- mgetid fuel m vs q;
  match g with
  | None => Ok (0%Z, false)
  | Some id =>
      match m_nodetype m with
      | None => Err (EPanic 24)
      | Some _ =>
          match mleaf_index m (N.of_nat id) with
          | Panic => Err (EPanic 25)
          | Val (ith, _) =>
              match m_leaves m with
              | None => Err (EPanic 20)
              | Some va =>
                  let buf := v_bytes va in
                  let st := N.to_nat ith * w in
                  if length buf <? st + w then Err (EPanic 21)
                  else Ok (geti_value w (firstn w (skipn st buf)), true)
              end
          end
      end
  end.

(* Get on the message, followed by the decoder of the matching encoder: the reference *)
Definition mget_then_decode (w fuel : nat) (m : msg) (vs : vars) (q : key) : res (Z * bool) :=
  match mget fuel m vs q with
  | Err e => Err e
  | Ok NotFound => Ok (0%Z, false)
  | Ok (Found None) => Err (EPanic 22)
  | Ok (Found (Some b)) =>
      if length b <? w then Err (EPanic 23)
      else Ok (le_signed w (firstn w b), true)
  end.
