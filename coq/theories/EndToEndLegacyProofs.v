(* EndToEndLegacyProofs.v - C06 END TO END through the instance state machine.

   For ANY instance state and ANY history of Unmarshal / Reset calls:
   (A) the stream an 0.5.10 / 0.5.11 writer produced for a built trie T (header version,
       one pbcmpl section, protobuf body with the removed fields 12 / 13 / 15), loaded with
       Unmarshal, leaves the instance installed (conversion of the parsed message) - inner,
       vars and levels re-initialised - and GetID / Get / searchID, the scanners, the level
       table, Stat() and String() over that instance are the tree model's answers for T;
   (B) the stream a three-array writer (0.5.0 - 0.5.9, six layouts) produced for a strictly
       ascending key list, loaded with Unmarshal, leaves the instance installed (the message
       c.build() makes of the converted node table) and GetID / Get / searchID over it are the
       answers of Model.build_gen false legacy_opts keys (Some vals).

   The pieces: EndToEndLegacyWireProofs (bytes -> dispatch -> installed state), C06d's
   Legacy510*Proofs (conversion = today's message up to the irrelevant select indexes),
   C06e's LegacyBytesMainProofs (bytes -> arrays -> node table -> node view of
   build_gen false), views_flat below (that node view IS Bits.flat_nodes of the tree, so
   c.build() on it is Bits.encode_trie), EndToEndLegacyMsgProofs (queries over the message
   of build_gen b0). *)
From Coq Require Import List Arith NArith ZArith Bool Lia.
From Coq Require Import Sorting.Permutation ZifyNat ZifyN ZifyBool.
From Coq.Strings Require Import Byte.
From Slim Require Import Base Keys KeysProofs Model BuildProofs QueryProofs BitmapRank Flat FlatProofs Msg MsgProofs
     Stat StatProofs Str StatMsg Scan ScanMsg ScanMsgMainProofs.
From Slim Require Bits BitsWfProofs BitsFlatProofs StatMsgProofs.
From Slim Require Legacy510 Legacy510Proofs Legacy510QueryProofs Legacy510ScanProofs Legacy510StatProofs.
From Slim Require LegacyConv LegacyConvSimProofs LegacyConvMainProofs ArrWire LegacyBytes LegacyBytesMainProofs.
From Slim Require Import Varint Proto Semver Frame Instance Wire WireProofs EndToEnd EndToEndProofs
     EndToEndScan EndToEndScanProofs StatMsgInst EndToEndLegacy EndToEndLegacyWireProofs EndToEndLegacyMsgProofs.
Import ListNotations.

(* ====================================================================== *)
(* queries over an installed wire message                                  *)
(* ====================================================================== *)
Section WithInstalled.
  Variable Levels : Type.
  Variable init_levels : slim -> Levels.
  Local Notation installed := (Instance.installed VarsT Levels ivars init_levels).

  (* as EndToEndProofs.with_installed, for any wire record that shows the fields of m
     (unknown fields do not reach the queries) *)
  Lemma with_installed_w {A} w m vs (empty : A) f : of_wire w = m -> Bits.init_vars m = Val vs ->
    (Bits.m_nodetype m = None -> f m vs = Ok empty) ->
    with_msg Levels (installed w) empty f = f m vs.
  Proof.
    intros Ew Ev He. unfold with_msg, Instance.installed, ivars. cbn [i_inner i_vars]. rewrite Ew, Ev.
    destruct (Bits.m_nodetype m) eqn:E; [reflexivity|]. symmetry. apply He. reflexivity.
  Qed.
End WithInstalled.

(* ====================================================================== *)
(* (A) 0.5.10 / 0.5.11                                                     *)
(* ====================================================================== *)
Section A.
  Variable Levels : Type.
  Variable init_levels : slim -> Levels.
  Variable reset_levels : Levels.
  Variable esize : N.
  Variable esz : nat.
  Local Notation run := (run_legacy Levels init_levels reset_levels esize esz).
  Local Notation installed := (installed_legacy Levels init_levels).

  (* the state: dispatched to the 0.5.10 branch with the parsed old message, converted to
     today's message of T up to the two select indexes, everything re-initialised *)
  Lemma loaded_0510_state o keys vals T ver Om s (st : inst VarsT Levels) h :
    build o keys vals = Ok T -> Legacy510.leaves_fixed esize T ->
    Legacy510.encode_0510 T = Val Om -> wf_0510 Om = true ->
    old_single ver -> marshal_0510 ver Om = Some s ->
    exists M vs,
      Bits.encode_trie T = Val M /\ Bits.init_vars M = Val vs /\ Legacy510QueryProofs.pos_ok M /\
      unmarshal_gen s = OLegacy510 (wire_0510 Om) /\
      Legacy510.load510 esize Om = Ok (Legacy510.old_sel_msg M) /\
      run st (h ++ [OpUnmarshal s]) = installed (set_unk (to_wire (Legacy510.old_sel_msg M)) (unk_0510 Om)).
  Proof.
    intros Hb Hlv Eo Hwf Hv Hm.
    destruct (Legacy510QueryProofs.built_encodes o keys vals T Hb) as (M & vs & Em & Ev).
    destruct (Legacy510Proofs.conv510_built o keys vals T esize M Hb Em Hlv) as (Om' & Eo' & El).
    rewrite Eo in Eo'. injection Eo' as <-.
    pose proof (unmarshal_0510 ver Om s Hv Hwf Hm) as Hu.
    exists M, vs. split; [exact Em|]. split; [exact Ev|].
    split; [exact (Legacy510QueryProofs.encoded_pos_ok T M Em)|]. split; [exact Hu|]. split; [exact El|].
    unfold run_legacy, installed_legacy.
    rewrite (run_legacy510 compat_gen cur_gen VarsT Levels ivars init_levels reset_levels
               (conv510_e2e esize) (conv3_e2e esz) h st s (wire_0510 Om) Hu).
    f_equal. unfold conv510_e2e. rewrite of_wire_0510.
    unfold Legacy510.load510 in El. rewrite El. reflexivity.
  Qed.

  (* GetID / Get / searchID *)
  Theorem loaded_0510_answers o keys vals T ver Om s (st : inst VarsT Levels) h :
    build o keys vals = Ok T -> Legacy510.leaves_fixed esize T ->
    Legacy510.encode_0510 T = Val Om -> wf_0510 Om = true ->
    old_single ver -> marshal_0510 ver Om = Some s ->
    let st' := run st (h ++ [OpUnmarshal s]) in
    exists L,
      unmarshal_gen s = OLegacy510 (wire_0510 Om) /\
      Legacy510.load510 esize Om = Ok L /\
      st' = installed (set_unk (to_wire L) (unk_0510 Om)) /\
      forall q fuel, (trie_height T <= fuel)%nat ->
        inst_getid Levels st' (S fuel) q = Ok (getid T q) /\
        inst_get Levels st' (S fuel) q = get T q /\
        inst_searchid Levels st' (S fuel) q = Ok (let '(l, e, rr) := searchid T q in (oid l, oid e, oid rr)).
  Proof.
    intros Hb Hlv Eo Hwf Hv Hm st'.
    destruct (loaded_0510_state o keys vals T ver Om s st h Hb Hlv Eo Hwf Hv Hm) as (M & vs & Em & Ev & Hp & Hu & El & Hst).
    exists (Legacy510.old_sel_msg M). split; [exact Hu|]. split; [exact El|]. split; [exact Hst|].
    intros q fuel Hf. subst st'. rewrite Hst. unfold installed_legacy.
    unfold inst_getid, inst_get, inst_searchid.
    rewrite !(with_installed_w Levels init_levels _ (Legacy510.old_sel_msg M) vs)
      by (try exact Ev; try (rewrite of_wire_set_unk; apply of_to_wire);
          intros E; unfold mgetid, mget, msearchid, mgetid; rewrite E; reflexivity).
    rewrite (Legacy510QueryProofs.mgetid_old M Hp), (Legacy510QueryProofs.mget_old M Hp),
            (Legacy510QueryProofs.msearchid_old M Hp).
    split; [exact (mgetid_getid o keys vals T M vs q fuel Hb Em Ev Hf)|].
    split; [exact (mget_get o keys vals T M vs q fuel Hb Em Ev Hf)|].
    exact (msearchid_searchid o keys vals T M vs q fuel Hb Em Ev Hf).
  Qed.

  (* NewIter (every call of the closure), ScanFrom, ScanFromTo *)
  Theorem loaded_0510_scans o keys vals T ver Om s (st : inst VarsT Levels) h fuel :
    build o keys vals = Ok T -> Legacy510.leaves_fixed esize T ->
    Legacy510.encode_0510 T = Val Om -> wf_0510 Om = true ->
    old_single ver -> marshal_0510 ver Om = Some s ->
    (trie_height T <= fuel)%nat ->
    let st' := run st (h ++ [OpUnmarshal s]) in
    (forall start incl withv extra,
       inst_iter_all Levels st' fuel (scan_fuel T) start incl withv extra = iter_all T start incl withv extra) /\
    (forall start incl withv fn,
       inst_scan_from Levels st' fuel (scan_fuel T) start incl withv fn = scan_from T start incl withv fn) /\
    (forall start incl e incle withv fn,
       inst_scan_from_to Levels st' fuel (scan_fuel T) start incl e incle withv fn = scan_from_to T start incl e incle withv fn).
  Proof.
    intros Hb Hlv Eo Hwf Hv Hm Hf st'.
    destruct (loaded_0510_state o keys vals T ver Om s st h Hb Hlv Eo Hwf Hv Hm) as (M & vs & Em & Ev & Hp & _ & _ & Hst).
    subst st'. rewrite Hst. unfold installed_legacy.
    assert (exists lf, scan_fuel T = S lf) as (lf & Hlf) by (unfold scan_fuel; destruct (t_root T); eexists; reflexivity).
    unfold inst_iter_all, inst_scan_from, inst_scan_from_to.
    split; [|split].
    - intros start incl withv extra.
      rewrite (with_installed_w Levels init_levels _ (Legacy510.old_sel_msg M) vs)
        by (try exact Ev; try (rewrite of_wire_set_unk; apply of_to_wire); intros E; rewrite Hlf; apply miter_all_nil; exact E).
      rewrite (Legacy510ScanProofs.miter_all_old M Hp).
      exact (miter_all_eq' o keys vals T Hb M vs Em Ev fuel Hf start incl withv extra).
    - intros start incl withv fn.
      rewrite (with_installed_w Levels init_levels _ (Legacy510.old_sel_msg M) vs)
        by (try exact Ev; try (rewrite of_wire_set_unk; apply of_to_wire); intros E; rewrite Hlf; apply mscan_nil; exact E).
      rewrite (Legacy510ScanProofs.mscan_from_old M Hp).
      exact (mscan_from_eq o keys vals T Hb M vs Em Ev fuel Hf start incl withv fn).
    - intros start incl e incle withv fn.
      rewrite (with_installed_w Levels init_levels _ (Legacy510.old_sel_msg M) vs)
        by (try exact Ev; try (rewrite of_wire_set_unk; apply of_to_wire); intros E; rewrite Hlf; apply mscan_to_nil; exact E).
      rewrite (Legacy510ScanProofs.mscan_from_to_old M Hp).
      exact (mscan_from_to_eq o keys vals T Hb M vs Em Ev fuel Hf start incl e incle withv fn).
  Qed.
End A.

(* the level table st.init() computes, Stat() and String() *)
Section AStat.
  Variable esize : N.
  Variable esz : nat.
  Local Notation run := (run_legacy LevelsT ilevels reset_lv esize esz).

  Theorem loaded_0510_stat o keys vals T ver Om s (st : inst VarsT LevelsT) h :
    build o keys vals = Ok T -> Legacy510.leaves_fixed esize T ->
    Legacy510.encode_0510 T = Val Om -> wf_0510 Om = true ->
    old_single ver -> marshal_0510 ver Om = Some s ->
    let st' := run st (h ++ [OpUnmarshal s]) in
    inst_levels st' = Ok (levels T) /\ inst_stat st' = stat T /\
    forall fuel, (trie_height T <= fuel)%nat -> inst_render st' fuel = render T.
  Proof.
    intros Hb Hlv Eo Hwf Hv Hm st'.
    destruct (loaded_0510_state LevelsT ilevels reset_lv esize esz o keys vals T ver Om s st h Hb Hlv Eo Hwf Hv Hm)
      as (M & vs & Em & Ev & Hp & _ & _ & Hst).
    subst st'. rewrite Hst. unfold installed_legacy.
    pose proof (StatMsgProofs.minit_levels_levels o keys vals T M vs Hb Em Ev) as H1.
    pose proof (StatMsgProofs.mstat_stat o keys vals T M vs Hb Em Ev) as H2.
    pose proof (fun fuel => StatMsgProofs.mrender_render o keys vals T M vs fuel Hb Em Ev) as H3.
    split; [|split].
    - unfold inst_levels, Instance.installed, ilevels. cbn [i_levels]. rewrite of_wire_set_unk, of_to_wire.
      rewrite (Legacy510StatProofs.minit_levels_old M). exact H1.
    - unfold inst_stat, Instance.installed, ilevels. cbn [i_inner i_levels]. rewrite of_wire_set_unk, of_to_wire.
      rewrite (Legacy510StatProofs.minit_levels_old M), Legacy510StatProofs.mstat_old. exact H2.
    - intros fuel Hf. unfold inst_render.
      rewrite (with_installed_w LevelsT ilevels _ (Legacy510.old_sel_msg M) vs)
        by (try exact Ev; try (rewrite of_wire_set_unk; apply of_to_wire); intros E; unfold mrender; rewrite E; reflexivity).
      rewrite (Legacy510StatProofs.mrender_old M Hp). exact (H3 fuel Hf).
  Qed.
End AStat.

(* ====================================================================== *)
(* (B) three-array layouts                                                 *)
(* ====================================================================== *)

(* ---------- the node view in id order IS the flat node list of the tree ---------- *)
Lemma bfs_trees_perm : forall h F, (BitsFlatProofs.forest_height F <= h)%nat ->
  Permutation (Bits.bfs_trees h F) (flat_map subtrees F).
Proof.
  induction h as [|h IH]; intros F Hh.
  - destruct F as [|t F]; [constructor|]. exfalso.
    unfold BitsFlatProofs.forest_height in Hh. cbn [fold_right] in Hh. pose proof (BitsFlatProofs.tree_height_pos t) as Hp.
    pose proof (Nat.le_max_l (Bits.tree_height t)
                  (fold_right (fun (t0 : tree) (a : nat) => Nat.max (Bits.tree_height t0) a) 0%nat F)) as Hm.
    apply (Nat.nle_succ_0 0). eapply Nat.le_trans; [exact Hp|]. eapply Nat.le_trans; [exact Hm|exact Hh].
  - cbn [Bits.bfs_trees]. eapply Permutation_trans; [|apply Permutation_sym; apply subtrees_forest_step].
    apply Permutation_app_head. apply IH. change (flat_map kids F) with (flat_map Bits.tree_kids F).
    pose proof (BitsFlatProofs.forest_kids_height F) as Hk.
    eapply Nat.le_trans; [exact Hk|]. destruct (BitsFlatProofs.forest_height F); [apply Nat.le_0_l|apply le_S_n; exact Hh].
Qed.

Lemma flat_nodes_perm r : Permutation (Bits.flat_nodes r) (node_views r).
Proof.
  rewrite LegacyConvMainProofs.node_views_subtrees. unfold Bits.flat_nodes.
  change Bits.view_of_tree with LegacyConvSimProofs.view_of. apply Permutation_map.
  pose proof (bfs_trees_perm (Bits.tree_height r) [r]) as P. cbn [flat_map] in P. rewrite app_nil_r in P.
  apply P. unfold BitsFlatProofs.forest_height. cbn [fold_right]. lia.
Qed.

Lemma wf_from_ids : forall ipfx lpfx nodes pos nlab nleaf bigok,
  Bits.wf_from ipfx lpfx nodes pos nlab nleaf bigok = true ->
  map LegacyConv.nv_id nodes = List.seq pos (length nodes).
Proof.
  intros ipfx lpfx nodes. induction nodes as [|v nodes IH]; intros pos nlab nleaf bigok H; [reflexivity|].
  destruct v as [id ord tail|id big step pfx fc labels]; cbn [Bits.wf_from] in H; cbn [map length List.seq LegacyConv.nv_id].
  - apply andb_true_iff in H. destruct H as [H H2]. apply andb_true_iff in H. destruct H as [H _].
    apply andb_true_iff in H. destruct H as [H _]. apply Nat.eqb_eq in H. subst id. f_equal. eapply IH; exact H2.
  - apply andb_true_iff in H. destruct H as [H H2]. apply andb_true_iff in H. destruct H as [H _].
    apply andb_true_iff in H. destruct H as [H _]. apply andb_true_iff in H. destruct H as [H _].
    apply andb_true_iff in H. destruct H as [H _]. apply Nat.eqb_eq in H. subst id. f_equal. eapply IH; exact H2.
Qed.

Lemma nth_error_ext_eq {A} : forall (l1 l2 : list A), (forall p, nth_error l1 p = nth_error l2 p) -> l1 = l2.
Proof.
  induction l1 as [|a l1 IH]; intros l2 H.
  - destruct l2 as [|b l2]; [reflexivity|]. specialize (H 0%nat). discriminate.
  - destruct l2 as [|b l2]; [specialize (H 0%nat); discriminate|].
    pose proof (H 0%nat) as H0. cbn in H0. injection H0 as <-. f_equal. apply IH. intros p. exact (H (S p)).
Qed.

(* two id-sorted arrangements (ids 0, 1, 2, ..) of the same nodes are the same list *)
Lemma sorted_ids_unique : forall l1 l2 : list nview,
  Permutation l1 l2 ->
  map LegacyConv.nv_id l1 = List.seq 0 (length l1) -> map LegacyConv.nv_id l2 = List.seq 0 (length l2) -> l1 = l2.
Proof.
  intros l1 l2 P H1 H2. pose proof (Permutation_length P) as Hlen.
  assert (Hid : forall l, map LegacyConv.nv_id l = List.seq 0 (length l) ->
                forall p x, nth_error l p = Some x -> LegacyConv.nv_id x = p).
  { intros l Hl p x Hp. assert (nth_error (map LegacyConv.nv_id l) p = Some (LegacyConv.nv_id x)) as Hm by (rewrite nth_error_map, Hp; reflexivity).
    rewrite Hl in Hm. assert (p < length l)%nat as Hlt by (apply nth_error_Some; congruence).
    rewrite (nth_error_nth' _ 0%nat) in Hm by (rewrite seq_length; exact Hlt). rewrite seq_nth in Hm by exact Hlt.
    injection Hm as Hm. lia. }
  apply nth_error_ext_eq. intros p.
  destruct (nth_error l1 p) as [x|] eqn:E1.
  - pose proof (Hid l1 H1 p x E1) as Hx.
    assert (In x l2) as Hin by (eapply Permutation_in; [exact P|eapply nth_error_In; exact E1]).
    apply In_nth_error in Hin. destruct Hin as (p' & E2). pose proof (Hid l2 H2 p' x E2) as Hx'.
    assert (p' = p) as -> by lia. symmetry. exact E2.
  - symmetry. apply nth_error_None. apply nth_error_None in E1. lia.
Qed.

Lemma views_flat b0 o keys vals T r views :
  build_gen b0 o keys vals = Ok T -> t_root T = Some r ->
  LegacyConvMainProofs.trie_views T views -> views = Bits.flat_nodes r.
Proof.
  intros Hb Hr Hv. unfold LegacyConvMainProofs.trie_views in Hv. rewrite Hr in Hv. destruct Hv as [P Hids].
  pose proof (built_trie_wf_g b0 o keys vals T Hb) as W. unfold Bits.trie_wf in W. rewrite Hr in W.
  apply BitsFlatProofs.flat_wf_from in W.
  apply sorted_ids_unique; [|exact Hids|exact (wf_from_ids _ _ _ _ _ _ _ W)].
  eapply Permutation_trans; [exact P|apply Permutation_sym; apply flat_nodes_perm].
Qed.

(* ---------- the machine ---------- *)
Section B.
  Variable Levels : Type.
  Variable init_levels : slim -> Levels.
  Variable reset_levels : Levels.
  Variable esize : N.
  Variable esz : nat.
  Local Notation run := (run_legacy Levels init_levels reset_levels esize esz).
  Local Notation installed := (installed_legacy Levels init_levels).

  (* what the gated reader says about Frame.unmarshal *)
  Lemma gated_arrays b a : LegacyBytes.arrays_of_stream_gated compat_gen cur_gen b = LegacyBytes.GArrays a ->
    exists c s l, unmarshal_gen b = OLegacy3 c s l /\
      ArrWire.parse_array32 c = Some (fst (fst a)) /\ ArrWire.parse_array32 s = Some (snd (fst a)) /\
      ArrWire.parse_array32 l = Some (snd a).
  Proof.
    unfold LegacyBytes.arrays_of_stream_gated, unmarshal_gen. intros H.
    destruct (unmarshal compat_gen cur_gen b) as [m|m|c s l|sg cs| | |]; try discriminate.
    exists c, s, l. split; [reflexivity|].
    destruct (ArrWire.parse_array32 c) as [ch|]; [|discriminate].
    destruct (ArrWire.parse_array32 s) as [st|]; [|discriminate].
    destruct (ArrWire.parse_array32 l) as [lv|]; [|discriminate].
    injection H as <-. auto.
  Qed.

  (* the state: dispatched to the three-section branch with the three bodies, which parse to
     the writer's three messages; conv3 = c.build() of the node view of build_gen false;
     everything re-initialised *)
  Lemma loaded_arrays_state l keys vals ot b (st : inst VarsT Levels) h :
    In l LegacyBytes.layouts ->
    AdjSorted keys -> length vals = length keys -> LegacyBytes.vals_ok esz vals = true ->
    LegacyConv.old_write (LegacyBytes.l_leafsteps l) keys = Ok ot ->
    (N.of_nat (length ot) <= 2 ^ 26)%N -> (N.of_nat esz < 2 ^ 31)%N ->
    LegacyBytes.write_stream l keys vals = LegacyBytes.LOk b ->
    exists T views m vs c s sl,
      build_gen false LegacyConv.legacy_opts keys (Some vals) = Ok T /\
      LegacyConvMainProofs.trie_views T views /\
      unmarshal_gen b = OLegacy3 c s sl /\
      LegacyBytes.load_stream esz b = LegacyBytes.LOk (views, t_leaves T) /\
      build_views views (t_leaves T) = Val m /\ Bits.init_vars m = Val vs /\
      (forall r, t_root T = Some r -> Bits.encode_trie T = Val m) /\
      (t_root T = None -> Bits.m_nodetype m = None) /\
      conv3_e2e esz c s sl = to_wire m /\
      run st (h ++ [OpUnmarshal b]) = installed (to_wire m).
  Proof.
    intros Hl Hs Hlen Hv Ew Hn He Hw.
    destruct (LegacyBytesMainProofs.stream_loads_all l keys vals ot esz Hl Hs Hlen Hv Ew Hn He)
      as (b' & a & T & views & H1 & _ & H3 & H4 & _ & H6 & Hb & Htv & Hip & Hlp).
    rewrite Hw in H1. injection H1 as <-.
    destruct (gated_arrays b a H4) as (c & s & sl & Hu & Pc & Ps & Pl).
    assert (Hla : LegacyBytes.load_arrays esz a = LegacyBytes.LOk (views, t_leaves T)).
    { unfold LegacyBytes.load_stream in H6. rewrite H3 in H6. exact H6. }
    assert (Hmsg : exists m vs, build_views views (t_leaves T) = Val m /\ Bits.init_vars m = Val vs /\
                     (forall r, t_root T = Some r -> Bits.encode_trie T = Val m) /\
                     (t_root T = None -> Bits.m_nodetype m = None)).
    { destruct (t_root T) as [r|] eqn:Hr.
      - pose proof (views_flat false _ keys (Some vals) T r views Hb Hr Htv) as ->.
        pose proof (built_trie_wf_g false _ keys (Some vals) T Hb) as W. unfold Bits.trie_wf in W. rewrite Hr in W.
        destruct (BitsFlatProofs.encode_total_fw _ _ _ _ W (flat_nodes_ne r)) as (m & vs & Em & Ev & _).
        rewrite Hip, Hlp in Em.
        exists m, vs. split; [exact Em|]. split; [exact Ev|]. split; [|discriminate].
        intros r' Hr'. unfold Bits.encode_trie. rewrite Hr, Hip, Hlp. exact Em.
      - unfold LegacyConvMainProofs.trie_views in Htv. rewrite Hr in Htv. subst views.
        destruct (build_gen_ok false _ keys (Some vals) T Hb) as [[_ ->]|(r & lidx & B)].
        + cbn [t_leaves empty_trie]. eexists _, _. split; [vm_compute; reflexivity|]. split; [vm_compute; reflexivity|].
          split; [discriminate|reflexivity].
        + pose proof (bt_root _ _ _ _ _ _ B) as Hr'. rewrite Hr in Hr'. discriminate. }
    destruct Hmsg as (m & vs & Em & Ev & Het & Hnt).
    assert (Hc3 : conv3_e2e esz c s sl = to_wire m).
    { unfold conv3_e2e. rewrite Pc, Ps, Pl. rewrite <- !surjective_pairing. rewrite Hla, Em. reflexivity. }
    exists T, views, m, vs, c, s, sl. repeat (split; [assumption|]).
    unfold run_legacy, installed_legacy.
    rewrite (run_legacy3 compat_gen cur_gen VarsT Levels ivars init_levels reset_levels
               (conv510_e2e esize) (conv3_e2e esz) h st b c s sl Hu).
    rewrite Hc3. reflexivity.
  Qed.

  (* GetID / Get / searchID *)
  Theorem loaded_arrays_answers l keys vals ot b (st : inst VarsT Levels) h :
    In l LegacyBytes.layouts ->
    AdjSorted keys -> length vals = length keys -> LegacyBytes.vals_ok esz vals = true ->
    LegacyConv.old_write (LegacyBytes.l_leafsteps l) keys = Ok ot ->
    (N.of_nat (length ot) <= 2 ^ 26)%N -> (N.of_nat esz < 2 ^ 31)%N ->
    LegacyBytes.write_stream l keys vals = LegacyBytes.LOk b ->
    let st' := run st (h ++ [OpUnmarshal b]) in
    exists T views m c s sl,
      build_gen false LegacyConv.legacy_opts keys (Some vals) = Ok T /\
      unmarshal_gen b = OLegacy3 c s sl /\
      LegacyBytes.load_stream esz b = LegacyBytes.LOk (views, t_leaves T) /\
      build_views views (t_leaves T) = Val m /\
      conv3_e2e esz c s sl = to_wire m /\
      st' = installed (to_wire m) /\
      forall q fuel, (trie_height T <= fuel)%nat ->
        inst_getid Levels st' (S fuel) q = Ok (getid T q) /\
        inst_get Levels st' (S fuel) q = get T q /\
        inst_searchid Levels st' (S fuel) q = Ok (let '(l, e, rr) := searchid T q in (oid l, oid e, oid rr)).
  Proof.
    intros Hl Hs Hlen Hv Ew Hn He Hw st'.
    destruct (loaded_arrays_state l keys vals ot b st h Hl Hs Hlen Hv Ew Hn He Hw)
      as (T & views & m & vs & c & s & sl & Hb & _ & Hu & Hls & Em & Ev & Het & Hnt & Hc3 & Hst).
    exists T, views, m, c, s, sl. repeat (split; [assumption|]).
    intros q fuel Hf. subst st'. rewrite Hst. unfold installed_legacy.
    unfold inst_getid, inst_get, inst_searchid.
    rewrite !(with_installed_w Levels init_levels _ m vs)
      by (try exact Ev; try apply of_to_wire; intros E; unfold mgetid, mget, msearchid, mgetid; rewrite E; reflexivity).
    destruct (t_root T) as [r|] eqn:Hr.
    - pose proof (Het r eq_refl) as Et.
      split; [exact (mgetid_getid_g false _ keys (Some vals) T m vs q fuel Hb Et Ev Hf)|].
      split; [exact (mget_get_g false _ keys (Some vals) T m vs q fuel Hb Et Ev Hf)|].
      exact (msearchid_searchid_g false _ keys (Some vals) T m vs q fuel Hb Et Ev Hf).
    - pose proof (Hnt eq_refl) as E.
      unfold mget, mgetid, msearchid. rewrite E. cbn [bind].
      unfold getid, get, getid_node, searchid. rewrite Hr. repeat split.
  Qed.
End B.
