(* StatMsgProofs.v - on the bit-level message of every built trie, initLevels / Stat() and
   String() computed the way the Go code computes them (StatMsg.v: rank queries on NodeTypeBM
   and Inners, getIthInnerFrom, getNode, getLabels, getLeafIndex, getIthLeaf) return what the
   tree model returns (Stat.levels / Stat.stat / Str.render); composed with the wire layer:
   an instance that loaded Marshal(t), in any prior state after any history, reports the same
   Stat() and renders the same String() as the tree it was built from. *)
From Coq Require Import List Arith Bool NArith ZArith Lia Sorted Permutation.
From Coq Require Import ZifyN ZifyNat ZifyBool.
From Coq.Strings Require Import Byte.
From Slim Require Import Base Keys KeysProofs ListFacts Model TrieInv BuildProofs QueryProofs ConsistProofs
     Stat StatProofs Str StrProofs Flat FlatProofs
     BitmapRank BitmapRankProofs BitmapRank2 BitmapRank2Proofs BitmapSelectProofs
     Bits BitsWfProofs BitsVlenProofs BitsEncProofs BitsDecProofs BitsNodeProofs BitsProofs BitsFlatProofs
     Msg MsgProofs StatMsg.
Import ListNotations.
Ltac Zify.zify_post_hook ::= Z.div_mod_to_equations.

Local Arguments N.mul : simpl never.
Local Arguments N.div : simpl never.
Local Arguments N.add : simpl never.
Local Arguments N.sub : simpl never.

(* ====================================================================== *)
(* Rank at the last bit position = number of set bits                      *)
(* ====================================================================== *)
Lemma rank_spec_succ ws i : rank_spec ws (N.succ i) = (rank_spec ws i + N.b2n (bm_get ws i))%N.
Proof.
  unfold rank_spec. rewrite N2Nat.inj_succ, count_below_S_r, N2Nat.id.
  destruct (bm_get ws i); cbn [N.b2n]; lia.
Qed.

Lemma rank_spec_beyond ws a b :
  (a <= b)%N -> (forall k, bm_get ws k = true -> (k < a)%N) -> rank_spec ws b = rank_spec ws a.
Proof.
  intros Hab Hz. unfold rank_spec.
  replace (N.to_nat b) with (N.to_nat a + (N.to_nat b - N.to_nat a)) by lia.
  rewrite count_below_add, (count_below_false (fun k => bm_get ws (N.of_nat (N.to_nat a) + k)%N)); [lia|].
  intros k _. destruct (bm_get ws (N.of_nat (N.to_nat a) + k)) eqn:E; [|reflexivity].
  apply Hz in E. lia.
Qed.

Lemma rank64_last ws : words_ok ws -> ws <> [] ->
  exists r b, rank64 ws (index_rank64 ws 0) (64 * blen ws - 1) = Val (r, b) /\
              (r + b)%N = rank_spec ws (64 * blen ws).
Proof.
  intros Hok Hne. assert (1 <= blen ws)%N as Hl by (unfold blen; destruct ws; [congruence|cbn [length]; lia]).
  destruct (rank64_total ws (64 * blen ws - 1)) as (r & b & E); [unfold blen in *; lia|].
  exists r, b. split; [exact E|]. destruct (rank64_correct ws _ _ _ Hok E) as [-> ->].
  rewrite <- rank_spec_succ. f_equal. lia.
Qed.

Lemma rank128_last ws : words_ok ws -> ws <> [] ->
  exists r b, rank128 ws (index_rank128 ws 0) (64 * blen ws - 1) = Val (r, b) /\
              (r + b)%N = rank_spec ws (64 * blen ws).
Proof.
  intros Hok Hne. assert (1 <= blen ws)%N as Hl by (unfold blen; destruct ws; [congruence|cbn [length]; lia]).
  destruct (rank128_total ws (64 * blen ws - 1)) as (r & b & E); [unfold blen in *; lia|].
  exists r, b. split; [exact E|]. destruct (rank128_correct ws _ _ _ Hok E) as [-> ->].
  rewrite <- rank_spec_succ. f_equal. lia.
Qed.

(* the label bits of Inners: as many as the label lists hold *)
Lemma flat_pos_length : forall segs base, length (fst (flat_pos base segs)) = seg_cnt segs (length segs).
Proof.
  induction segs as [|[sub sz] r IH]; intros base; [reflexivity|].
  cbn [flat_pos]. specialize (IH (base + sz)%N). destruct (flat_pos (base + sz) r) as [l t]. cbn [fst] in *.
  rewrite app_length, map_length, IH. unfold seg_cnt. cbn [length firstn fold_right fst]. reflexivity.
Qed.

Lemma of_many_total segs iw :
  Forall seg_ok segs -> of_many segs = Val iw ->
  words_ok iw /\ N.of_nat (length iw) = nwords_for (seg_off segs (length segs)) /\
  rank_spec iw (64 * blen iw) = N.of_nat (seg_cnt segs (length segs)).
Proof.
  intros Hok H. unfold of_many in H. pose proof (flat_pos_total segs 0) as Ht. pose proof (flat_pos_length segs 0) as Hl.
  destruct (flat_pos 0 segs) as [l t] eqn:E. cbn [fst snd] in Ht, Hl. rewrite N.add_0_l in Ht.
  destruct (flat_pos_spec _ _ _ _ Hok E) as (_ & Hs & Hb).
  assert (Hcap : bits_cap l t = t).
  { apply bits_cap_eq. eapply Forall_impl; [|exact Hb]. cbv beta. intros. lia. }
  destruct (of_cap_sorted l t (sorted_lt_le _ Hs)) as (ws & Ev & L & O & G). rewrite H in Ev. injection Ev as <-.
  split; [exact O|]. split; [rewrite L, Hcap, Ht; reflexivity|].
  rewrite (rank_spec_listed iw l _ Hs G), <- Hl. f_equal. apply count_lt_all.
  eapply Forall_impl; [|exact Hb]. cbv beta. intros p Hp. unfold blen. rewrite L, Hcap.
  pose proof (nwords_cover t). lia.
Qed.

(* ====================================================================== *)
(* getIthInnerFrom yields the offset getNode computes                      *)
(* ====================================================================== *)
Lemma inner_range_from m vs ith w from to bm :
  inner_range m vs ith = Val (w, from, to, bm) -> ith_inner_from m vs ith = Val from.
Proof.
  unfold inner_range, ith_inner_from. intros H.
  destruct (ith <? m_bigcnt m)%N; [injection H as _ <- _ _; reflexivity|].
  destruct (m_shortbm m) as [sb|]; [|discriminate].
  destruct (rank64 (b_words sb) (b_rank sb) ith) as [[ithshort isshort]|]; cbn [obind] in *; [|discriminate].
  destruct (_ <? 0)%Z; [discriminate|].
  destruct (isshort =? 0)%N; [injection H as _ <- _ _; reflexivity|].
  destruct (m_inners m) as [inn|]; [|discriminate].
  destruct (nth_word _ _); cbn [obind] in H; [|discriminate].
  match type of H with obind ?X _ = _ => destruct X; cbn [obind] in H; [|discriminate] end.
  destruct (nthN _ _); [|discriminate]. injection H as _ <- _ _. reflexivity.
Qed.

(* ====================================================================== *)
(* What the encoded message holds for one node / in total                  *)
(* ====================================================================== *)
Section Encoded.
  Variables (nodes : list nview) (ipfx lpfx : bool) (leaves : option (list (list byte))) (m : msg) (vs : vars).
  Hypothesis Hwf : wf_from ipfx lpfx nodes 0 0 0 true = true.
  Hypothesis Henc : encode_msg nodes ipfx lpfx leaves = Val m.
  Hypothesis Hvs : init_vars m = Val vs.

  Lemma nodes_ne_of p v : nth_error nodes p = Some v -> nodes <> [].
  Proof. destruct nodes; [destruct p; discriminate|discriminate]. Qed.

  (* Rank64 on NodeTypeBM at a node id: inner nodes before, and the node's type *)
  Lemma rank_nt_at p v : nth_error nodes p = Some v ->
    exists nt, m_nodetype m = Some nt /\
      rank64 (b_words nt) (b_rank nt) (N.of_nat p) = Val (N.of_nat (inners_before nodes p), N.b2n (is_inner_v v)) /\
      get_bit (b_words nt) (N.of_nat p) = Val (is_inner_v v) /\
      to_array (b_words nt) = map i_id (inners_of nodes).
  Proof.
    intros Hp. pose proof (nodes_ne_of p v Hp) as Hne.
    destruct (encode_open nodes ipfx lpfx leaves Hwf Hne) as (m' & Em' & F). rewrite Henc in Em'. injection Em' as <-.
    destruct F as [s table most c d ntw sbw iw ppw ip lpo lv Em Hs Htab Hbig Hiw Osb Lsb Gsb Ont Lnt Gnt Opp Lpp Gpp Hip Hlp Hlv].
    subst m. cbn [m_nodetype]. eexists. split; [reflexivity|].
    change (b_words (index_bm ntw R64)) with ntw. change (b_rank (index_bm ntw R64)) with (index_rank64 ntw 0).
    pose proof (node_type_rank ipfx lpfx nodes ntw p v Hwf Ont Lnt Gnt Hp) as Hr.
    split; [exact Hr|]. split.
    - assert (Hpl : (p < length nodes)%nat) by (apply nth_error_Some; congruence).
      rewrite get_bit_spec by (rewrite Lnt; apply nwords_bound; lia).
      destruct (rank64_correct ntw _ _ _ Ont Hr) as [_ Hb]. f_equal.
      destruct (bm_get ntw (N.of_nat p)), (is_inner_v v); cbn in Hb; try reflexivity; discriminate.
    - destruct (inner_ids_spec _ _ _ _ _ _ _ Hwf) as (Hsort & _ & _).
      destruct (to_array_spec ntw) as [Hs1 Hi1].
      apply sorted_ext; [exact Hs1|exact Hsort|]. intros x. rewrite <- Hi1. apply Gnt.
  Qed.

  Lemma rank_nt_ok p v : nth_error nodes p = Some v ->
    rank_nt m (N.of_nat p) = Val (N.of_nat (inners_before nodes p), N.b2n (is_inner_v v)).
  Proof. intros Hp. destruct (rank_nt_at p v Hp) as (nt & E & R & _). unfold rank_nt. rewrite E. exact R. Qed.

  (* getNode on an inner node, with everything String() and initLevels read from it *)
  Lemma inner_full p id big step pfx fc labels :
    nth_error nodes p = Some (VInner id big step pfx fc labels) ->
    exists from to bm pfxb,
      get_node m vs (N.of_nat p) =
        Val (DnInner (N.of_nat (inners_before nodes p)) (if big then 8 else 4)%N from to bm
                     (N.of_nat (step_bits step pfx)) pfxb) /\
      label_size m from to = (if big then 257 else 17)%N /\
      node_labels m from to bm = Val (map N.of_nat labels) /\
      Bits.first_child m from = Val (N.of_nat fc) /\
      ith_inner_from m vs (N.of_nat (inners_before nodes p)) = Val from.
  Proof.
    intros Hp. pose proof (nodes_ne_of p _ Hp) as Hne.
    destruct (encode_open nodes ipfx lpfx leaves Hwf Hne) as (m' & Em' & F). rewrite Henc in Em'. injection Em' as <-.
    destruct F as [s table most c d ntw sbw iw ppw ip lpo lv Em Hs Htab Hbig Hiw Osb Lsb Gsb Ont Lnt Gnt Opp Lpp Gpp Hip Hlp Hlv].
    destruct (wf_records _ _ _ _ _ _ _ Hwf) as (Hrec & Hprec & Hmode & Htails).
    set (ins := inners_of nodes) in *.
    subst m.
    assert (Evs : vs = mkVars (240 * count_big ins) (Z.of_N s - 17) (N.ones s)).
    { rewrite (init_vars_m ins s table most iw sbw _ _ _ _ Hs Lsb Gsb) in Hvs. congruence. }
    subst vs.
    unfold get_node. cbn [m_nodetype].
    change (b_words (index_bm ntw R64)) with ntw. change (b_rank (index_bm ntw R64)) with (index_rank64 ntw 0).
    rewrite (node_type_rank ipfx lpfx nodes ntw p _ Hwf Ont Lnt Gnt Hp). cbn [obind is_inner_v N.b2n N.eqb].
    pose proof (wf_from_nth _ _ _ _ _ _ _ p _ Hwf Hp) as Hv.
    destruct Hv as (Hid & Hfc & Hlok & Hpok). cbn [Nat.add] in Hid, Hfc. subst id fc.
    pose proof (inners_of_nth nodes p _ _ _ _ _ _ Hp) as Hi. fold ins in Hi.
    set (j := inners_before nodes p) in *. set (i := rec_of p big step pfx labels) in *.
    destruct (inner_range_correct ins s table most iw sbw c d (Some (index_bm ntw R64)) (Some ip) lpo lv
                Hs Htab Hrec Hbig Hiw Osb Lsb Gsb j i Hi) as (bm & Erange & Hbm).
    rewrite Erange. cbn [obind].
    assert (Epfx : inner_prefix
       (mkMsg (count_big ins) s (Some (index_bm ntw R64)) (Some (index_bm iw R128)) (Some (index_bm sbw R64)) table (Some ip) lpo lv)
       (N.of_nat j) = Val (expect_prefix ipfx i)).
    { destruct ipfx.
      - destruct Hip as (ps & Eps & ->).
        apply (inner_prefix_stored ins true ppw _ _ _ _ _ _ _ _ Opp Lpp Gpp Hprec ps eq_refl Eps j i Hi).
      - subst ip. apply (inner_prefix_steps ins false ppw _ _ _ _ _ _ _ _ Opp Lpp Gpp Hprec eq_refl j i Hi). }
    rewrite Epfx. cbn [obind].
    destruct (expect_prefix ipfx i) as [plen pfxb] eqn:Eexp. cbn [obind].
    exists (seg_off (map (seg_of s most) ins) j), (seg_off (map (seg_of s most) ins) j + snd (seg_of s most i))%N, bm, pfxb.
    rewrite Forall_forall in Hmode, Hprec.
    pose proof (Hmode i (nth_error_In _ _ Hi)) as Hmi. pose proof (Hprec i (nth_error_In _ _ Hi)) as Hpi.
    unfold pfx_mode_ok in Hmi. unfold prec_ok in Hpi. unfold expect_prefix in Eexp.
    split; [|split; [|split; [|split]]].
    - (* the node *)
      f_equal. cbn [i rec_of i_big]. f_equal.
      cbn [i rec_of i_big i_labels i_pfx i_step] in *. unfold step_bits.
      destruct ipfx.
      + assert (step = 0%nat) by lia. subst step. destruct pfx as [q|]; injection Eexp as <- _; lia.
      + subst pfx. injection Eexp as <- _. lia.
    - (* size of the label bitmap *)
      unfold label_size. cbn [m_shortsize].
      replace (seg_off (map (seg_of s most) ins) j + snd (seg_of s most i) - seg_off (map (seg_of s most) ins) j)%N
        with (snd (seg_of s most i)) by lia.
      rewrite seg_of_size. change (i_big i) with big. destruct big.
      + destruct (N.eqb_spec 257 s); [lia|reflexivity].
      + destruct (is_short most i); [rewrite N.eqb_refl; reflexivity|].
        destruct (N.eqb_spec 17 s); [lia|reflexivity].
    - rewrite (node_labels_correct ins s table most iw sbw _ _ _ _ Hs Htab Hrec Hiw Lsb Gsb j i bm Hi Hbm). reflexivity.
    - rewrite (first_child_correct ins s table most iw sbw _ _ _ _ Hs Htab Hrec Hiw Lsb Gsb j i Hi).
      change (labels_before ins j) with (labels_before (inners_of nodes) (inners_before nodes p)). rewrite labels_before_eq.
      f_equal. lia.
    - eapply inner_range_from. exact Erange.
  Qed.

  (* the two totals of initLevels *)
  Lemma totals_ok : nodes <> [] ->
    total_inner m = Val (N.of_nat (length (inners_of nodes))) /\
    (inners_of nodes <> [] ->
     total_nodes m (N.of_nat (length (inners_of nodes))) = Val (N.of_nat (1 + sum_list (map nlabels nodes)))).
  Proof.
    intros Hne.
    destruct (encode_open nodes ipfx lpfx leaves Hwf Hne) as (m' & Em' & F). rewrite Henc in Em'. injection Em' as <-.
    destruct F as [s table most c d ntw sbw iw ppw ip lpo lv Em Hs Htab Hbig Hiw Osb Lsb Gsb Ont Lnt Gnt Opp Lpp Gpp Hip Hlp Hlv].
    destruct (wf_records _ _ _ _ _ _ _ Hwf) as (Hrec & Hprec & Hmode & Htails).
    destruct (inner_ids_spec _ _ _ _ _ _ _ Hwf) as (Hsort & Hidb & _).
    set (ins := inners_of nodes) in *. subst m. split.
    - unfold total_inner, last_pos. cbn [m_nodetype].
      change (b_words (index_bm ntw R64)) with ntw. change (b_rank (index_bm ntw R64)) with (index_rank64 ntw 0).
      assert (ntw <> []) as Hnt.
      { intros ->. cbn [length] in Lnt. assert (1 <= N.of_nat (length nodes))%N by (destruct nodes; [congruence|cbn [length]; lia]).
        pose proof (nwords_cover (N.of_nat (length nodes))). lia. }
      assert ((blen ntw =? 0)%N = false) as -> by (apply N.eqb_neq; unfold blen; destruct ntw; [congruence|cbn [length]; lia]).
      cbn [obind]. destruct (rank64_last ntw Ont Hnt) as (r & b & E & Hrb). rewrite E. cbn [obind]. f_equal.
      rewrite Hrb, (rank_spec_listed ntw _ _ Hsort Gnt), <- (map_length i_id ins). f_equal. apply count_lt_all.
      eapply Forall_impl; [|exact Hidb]. cbv beta. intros x Hx. unfold blen. rewrite Lnt.
      pose proof (nwords_cover (N.of_nat (length nodes))). lia.
    - intros Hins. unfold total_nodes, last_pos. cbn [m_inners].
      assert ((N.of_nat (length ins) =? 0)%N = false) as -> by (apply N.eqb_neq; destruct ins; [congruence|cbn [length]; lia]).
      change (b_words (index_bm iw R128)) with iw. change (b_rank (index_bm iw R128)) with (index_rank128 iw 0).
      assert (Hsegs : Forall seg_ok (map (seg_of s most) ins)).
      { rewrite Forall_map. eapply Forall_impl; [|exact Hrec]. intros i Hi. apply (seg_of_ok s most table i Hs Htab Hi). }
      destruct (of_many_total _ _ Hsegs Hiw) as (Oiw & Liw & Riw).
      assert (iw <> []) as Hiwne.
      { intros Eiw. rewrite Eiw in Liw. cbn [length] in Liw. destruct ins as [|i0 ins'] eqn:Eins; [congruence|].
        assert (nth_error (map (seg_of s most) (i0 :: ins')) 0 = Some (fst (seg_of s most i0), snd (seg_of s most i0))) as H0
          by (cbn [map nth_error]; f_equal; apply surjective_pairing).
        pose proof (seg_end_le _ _ _ _ H0) as Hle. unfold seg_off at 1 in Hle. cbn [firstn fold_right] in Hle.
        inversion Hrec as [|? ? Hi0 _]; subst.
        destruct (seg_of_ok s most table i0 Hs Htab Hi0) as [[_ Hbnd] Hlen]. destruct Hi0 as (Hlne & _).
        destruct (fst (seg_of s most i0)) as [|x rest] eqn:Ef;
          [cbn [length] in Hlen; destruct (i_labels i0); [congruence|discriminate]|].
        inversion Hbnd as [|? ? Hx _]; subst.
        pose proof (nwords_cover (seg_off (map (seg_of s most) (i0 :: ins')) (length (map (seg_of s most) (i0 :: ins'))))). lia. }
      assert ((blen iw =? 0)%N = false) as -> by (apply N.eqb_neq; unfold blen; destruct iw; [congruence|cbn [length]; lia]).
      cbn [obind]. destruct (rank128_last iw Oiw Hiwne) as (r & b & E & Hrb). rewrite E. cbn [obind]. f_equal.
      rewrite Hrb, Riw, map_length, (seg_cnt_labels s most table ins (length ins) Hs Htab Hrec).
      change (fold_right (fun i a => (length (i_labels i) + a)%nat) 0%nat (firstn (length ins) ins))
        with (labels_before ins (length ins)).
      assert (length ins = inners_before nodes (length nodes)) as Hib
        by (unfold inners_before; rewrite firstn_all; reflexivity).
      rewrite Hib. unfold ins. rewrite labels_before_eq. unfold lab_before. rewrite firstn_all. lia.
  Qed.
End Encoded.

(* ====================================================================== *)
(* The flat list is the breadth-first list of the subtrees                 *)
(* ====================================================================== *)
Lemma bfs_trees_perm : forall h F, forest_height F <= h -> Permutation (flat_map subtrees F) (bfs_trees h F).
Proof.
  induction h as [|h IH]; intros F H.
  - destruct F as [|t F]; [constructor|]. exfalso. unfold forest_height in H. cbn [fold_right] in H.
    pose proof (tree_height_pos t). lia.
  - cbn [bfs_trees]. eapply Permutation_trans; [apply subtrees_forest_step|].
    apply Permutation_app_head. apply (IH (flat_map tree_kids F)). pose proof (forest_kids_height F). lia.
Qed.

Lemma sum_list_app a b : sum_list (a ++ b) = sum_list a + sum_list b.
Proof. induction a as [|x a IH]; [reflexivity|]. cbn [app sum_list]. rewrite IH. lia. Qed.

Lemma labels_of_forest F : sum_list (map nlabels (map view_of_tree F)) = length (flat_map tree_kids F).
Proof.
  induction F as [|t F IH]; [reflexivity|]. cbn [map sum_list flat_map]. rewrite app_length, IH. f_equal.
  destruct t; cbn [view_of_tree nlabels tree_kids]; [reflexivity|]. rewrite !map_length. reflexivity.
Qed.

Lemma bfs_labels_count : forall h F, forest_height F <= h ->
  sum_list (map nlabels (map view_of_tree (bfs_trees h F))) + length F = length (bfs_trees h F).
Proof.
  induction h as [|h IH]; intros F H.
  - destruct F as [|t F]; [reflexivity|]. exfalso. unfold forest_height in H. cbn [fold_right] in H.
    pose proof (tree_height_pos t). lia.
  - cbn [bfs_trees]. rewrite !map_app, sum_list_app, app_length, labels_of_forest.
    specialize (IH (flat_map tree_kids F)). pose proof (forest_kids_height F). lia.
Qed.

Lemma inners_of_count L : length (inners_of (map view_of_tree L)) = count_inner L.
Proof.
  unfold count_inner. induction L as [|t L IH]; [reflexivity|].
  destruct t; cbn [map view_of_tree inners_of is_inner filter length]; rewrite IH; reflexivity.
Qed.

Lemma nth_error_firstn_some {A} : forall p (l : list A) q x,
  nth_error (firstn p l) q = Some x -> q < p /\ nth_error l q = Some x.
Proof.
  induction p as [|p IH]; intros l q x H; [destruct q; discriminate|].
  destruct l as [|y l]; [destruct q; discriminate|]. destruct q as [|q]; [cbn in *; split; [lia|exact H]|].
  cbn [firstn nth_error] in *. destruct (IH l q x H). split; [lia|assumption].
Qed.

Lemma nth_error_skipn_add {A} : forall p (l : list A) q, nth_error (skipn p l) q = nth_error l (p + q).
Proof.
  induction p as [|p IH]; intros l q; [reflexivity|]. destruct l as [|y l]; [destruct q; reflexivity|].
  cbn [skipn Nat.add nth_error]. apply IH.
Qed.

Lemma N_of_nat_eqb a b : (N.of_nat a =? N.of_nat b)%N = (a =? b).
Proof. destruct (Nat.eqb_spec a b); [apply N.eqb_eq; lia|apply N.eqb_neq; lia]. Qed.

(* ====================================================================== *)
(* One built trie and its message                                          *)
(* ====================================================================== *)
Section OneTrie.
  Variables (o : opts) (keys : list key) (vals : option (list (list byte))) (T : trie) (r : tree).
  Hypothesis Hb : build o keys vals = Ok T.
  Hypothesis Hr : t_root T = Some r.
  Variables (m : msg) (vs : vars).
  Hypothesis Em : encode_trie T = Val m.
  Hypothesis Ev : init_vars m = Val vs.

  Let B := bfs_trees (tree_height r) [r].
  Let nodes := flat_nodes r.
  Let S := subtrees r.

  Lemma W : wf_from (t_innerpfx T) (t_leafpfx T) nodes 0 0 0 true = true.
  Proof. exact (flat_wf_from _ _ _ _ (Hwf o keys vals T r Hb Hr)). Qed.
  Lemma He : encode_msg nodes (t_innerpfx T) (t_leafpfx T) (t_leaves T) = Val m.
  Proof. exact (Hem T r Hr m Em). Qed.

  Lemma B_perm : Permutation S B.
  Proof.
    pose proof (bfs_trees_perm (tree_height r) [r]) as P. cbn [flat_map] in P. rewrite app_nil_r in P.
    apply P. unfold forest_height. cbn [fold_right]. lia.
  Qed.

  Lemma B_id p t : nth_error B p = Some t -> tree_id t = p.
  Proof.
    intros H. assert (nth_error nodes p = Some (view_of_tree t)) as Hn
      by (unfold nodes, flat_nodes; apply nth_error_map_some; exact H).
    pose proof (wf_from_nth _ _ _ _ _ _ _ _ _ W Hn) as Hv. destruct t; cbn [view_of_tree tree_id] in *; destruct Hv as (Hv & _); lia.
  Qed.

  Lemma nodes_at t : In t S -> nth_error nodes (tree_id t) = Some (view_of_tree t).
  Proof. intros Ht. exact (flat_nodes_at o keys vals T r t Hb Hr Ht). Qed.

  Lemma nodes_len : length nodes = length S.
  Proof. unfold nodes, flat_nodes. rewrite map_length. symmetry. apply Permutation_length. exact B_perm. Qed.

  Lemma id_lt t : In t S -> tree_id t < length S.
  Proof. intros Ht. rewrite <- nodes_len. apply nth_error_Some. rewrite (nodes_at t Ht). discriminate. Qed.

  Lemma inners_before_rank p : inners_before nodes p = rank_inner S p.
  Proof.
    unfold inners_before, nodes, flat_nodes. fold B. rewrite firstn_map, inners_of_count.
    unfold rank_inner. rewrite (perm_filter_length _ _ _ B_perm). fold (rank_inner B p).
    rewrite <- (firstn_skipn p B) at 2. symmetry. apply rank_inner_split.
    - intros t Ht. apply In_nth_error in Ht. destruct Ht as (q & Hq). apply nth_error_firstn_some in Hq.
      destruct Hq as [Hq1 Hq2]. rewrite (B_id _ _ Hq2). exact Hq1.
    - intros t Ht. apply In_nth_error in Ht. destruct Ht as (q & Hq). rewrite nth_error_skipn_add in Hq.
      rewrite (B_id _ _ Hq). lia.
  Qed.

  Lemma inners_total : length (inners_of nodes) = count_inner S.
  Proof.
    unfold nodes, flat_nodes. fold B. rewrite inners_of_count. symmetry. apply (proj1 (count_perm _ _ B_perm)).
  Qed.

  Lemma labels_total : 1 + sum_list (map nlabels nodes) = length S.
  Proof.
    rewrite <- nodes_len. unfold nodes, flat_nodes. rewrite map_length.
    pose proof (bfs_labels_count (tree_height r) [r]) as H. cbn [length] in H. rewrite <- H; [lia|].
    unfold forest_height. cbn [fold_right]. lia.
  Qed.

  Lemma rank_le t : In t S -> rank_inner S (tree_id t) <= tree_id t.
  Proof.
    intros Ht. rewrite <- inners_before_rank. pose proof (before_total nodes (tree_id t)) as H.
    pose proof (id_lt t Ht). rewrite nodes_len in H. lia.
  Qed.

  Lemma is_inner_view t : is_inner_v (view_of_tree t) = is_inner t.
  Proof. destruct t; reflexivity. Qed.

  Lemma rank_at t : In t S ->
    rank_nt m (N.of_nat (tree_id t)) = Val (N.of_nat (rank_inner S (tree_id t)), N.b2n (is_inner t)).
  Proof.
    intros Ht. rewrite (rank_nt_ok nodes _ _ _ m vs W He Ev _ _ (nodes_at t Ht)), inners_before_rank, is_inner_view. reflexivity.
  Qed.

  (* an inner node of the tree as initLevels and String() see it in the message *)
  Lemma inner_at id big step pfx fc ch :
    In (Inner id big step pfx fc ch) S ->
    exists from to bm pfxb,
      get_node m vs (N.of_nat id) =
        Val (DnInner (N.of_nat (rank_inner S id)) (if big then 8 else 4)%N from to bm
                     (N.of_nat (step_bits step pfx)) pfxb) /\
      label_size m from to = (if big then 257 else 17)%N /\
      node_labels m from to bm = Val (map N.of_nat (map fst ch)) /\
      Bits.first_child m from = Val (N.of_nat fc) /\
      ith_inner_from m vs (N.of_nat (rank_inner S id)) = Val from.
  Proof.
    intros Ht. pose proof (nodes_at _ Ht) as Hn. cbn [tree_id view_of_tree] in Hn.
    destruct (inner_full nodes _ _ _ m vs W He Ev _ _ _ _ _ _ _ Hn) as (from & to & bm & pfxb & H).
    rewrite inners_before_rank in H. exists from, to, bm, pfxb. exact H.
  Qed.

  Lemma first_kid id big step pfx fc ch :
    In (Inner id big step pfx fc ch) S -> exists c, In c S /\ tree_id c = fc.
  Proof.
    intros Ht. pose proof (built_ids_ok o keys vals T r Hb Hr) as I.
    destruct (node_inner o keys vals T r Hb Hr m vs Em Ev _ _ _ _ _ _ Ht) as (_ & _ & _ & _ & _ & _ & _ & _ & _ & _ & _ & _ & Hne & _).
    destruct ch as [|[x c] rest]; [congruence|]. exists c. split.
    - eapply subtrees_trans; [exact Ht|eapply subtree_child; left; reflexivity].
    - assert (nth_error ((x, c) :: rest) 0 = Some (x, c)) as En by reflexivity.
      rewrite (child_id r _ _ _ _ _ _ _ _ _ I Ht En). lia.
  Qed.

  (* ---------- initLevels ---------- *)
  Lemma mwalk_walk : forall fuel t, In t S ->
    mwalk fuel m vs (N.of_nat (count_inner S)) (N.of_nat (tree_id t)) =
    walk_levels fuel S (count_inner S) (tree_id t).
  Proof.
    induction fuel as [|f IH]; intros t Ht; cbn [mwalk walk_levels]; rewrite (rank_at t Ht);
      pose proof (rank_le t Ht) as Hle;
      (destruct (N.ltb_spec (N.of_nat (tree_id t)) (N.of_nat (rank_inner S (tree_id t)))); [lia|]);
      rewrite !Nat2N.id, N_of_nat_eqb; destruct (Nat.eqb_spec (rank_inner S (tree_id t)) (count_inner S)) as [Heq|Hne];
      try reflexivity.
    pose proof (next_inner_spec S (tree_id t) None) as Hsp.
    destruct (next_inner S (tree_id t) None) as [[i f0]|].
    - destruct Hsp as ([Hs|(t' & Hin & Hc & Hi & Hf)] & Hmin & _); [discriminate|].
      unfold cand in Hc. apply andb_true_iff in Hc. destruct Hc as [Hinner Hge]. apply Nat.leb_le in Hge.
      destruct t' as [|id big step pfx fc ch]; [discriminate|]. cbn [tree_id Stat.first_child] in Hi, Hf, Hge. subst i f0.
      assert (rank_inner S id = rank_inner S (tree_id t)) as Hrk.
      { unfold rank_inner. f_equal. apply filter_ext_in. intros x Hx.
        destruct (is_inner x) eqn:Ex; [|reflexivity]. cbn [andb].
        destruct (Nat.ltb_spec (tree_id x) id), (Nat.ltb_spec (tree_id x) (tree_id t)); try reflexivity; try lia.
        exfalso. assert (id <= tree_id x); [|lia]. apply Hmin; [exact Hx|]. unfold cand. rewrite Ex. cbn [andb]. apply Nat.leb_le. lia. }
      destruct (inner_at _ _ _ _ _ _ Hin) as (from & to & bm & pfxb & _ & _ & _ & Hfc & Hfrom).
      rewrite <- Hrk, Hfrom, Hfc.
      destruct (first_kid _ _ _ _ _ _ Hin) as (c & Hc & Hcid). rewrite <- Hcid, (IH c Hc). reflexivity.
    - exfalso. destruct Hsp as [_ Hall]. apply Hne. unfold rank_inner, count_inner. f_equal. apply filter_ext_in.
      intros x Hx. specialize (Hall x Hx). unfold cand in Hall. destruct (is_inner x); [|reflexivity]. cbn [andb] in *.
      apply Nat.leb_gt in Hall. apply Nat.ltb_lt. exact Hall.
  Qed.

  Lemma nt_some : exists nt, m_nodetype m = Some nt.
  Proof.
    destruct (encode_msg_fields _ _ _ _ _ He) as (Hnt & _). specialize (Hnt (flat_nodes_ne r)).
    destruct (m_nodetype m) as [nt|]; [eauto|congruence].
  Qed.

  Lemma root_in : In r S.
  Proof. apply subtrees_self. Qed.

  Lemma mlevels_walk : mlevels m vs = levels_walk T.
  Proof.
    destruct nt_some as (nt & Ent). unfold mlevels, levels_walk. rewrite Ent, Hr. cbv zeta.
    rewrite all_nodes_subtrees. fold S. fold (count_inner S).
    destruct (totals_ok nodes _ _ _ m vs W He Ev (flat_nodes_ne r)) as (Hti & Htot).
    rewrite inners_total in Hti, Htot. rewrite Hti.
    assert (total_nodes m (N.of_nat (count_inner S)) = Val (N.of_nat (length S))) as Htn.
    { destruct (Nat.eq_dec (count_inner S) 0) as [Hz|Hnz].
      - rewrite Hz. unfold total_nodes. cbn [N.of_nat N.eqb]. f_equal.
        unfold S in *. destruct r as [id ord tail eidx|id big step pfx fc ch]; [reflexivity|].
        rewrite subtrees_inner in Hz. unfold count_inner in Hz. cbn [filter is_inner length] in Hz. discriminate.
      - rewrite Htot, labels_total; [reflexivity|]. intros E. apply Hnz. rewrite <- inners_total, E. reflexivity. }
    rewrite Htn. pose proof (StatProofs.count_total S) as Hct.
    destruct (N.ltb_spec (N.of_nat (length S)) (N.of_nat (count_inner S))); [lia|].
    rewrite !Nat2N.id.
    pose proof (mwalk_walk (length S) r root_in) as Hw. rewrite (root_id0 o keys vals T r Hb Hr) in Hw.
    cbn [N.of_nat] in Hw. rewrite Hw. reflexivity.
  Qed.

  (* ---------- String() ---------- *)
  Definition entries_of (t : tree) : list (list bool * N) :=
    match t with
    | Leaf _ _ _ _ => []
    | Inner _ big _ _ fc ch =>
        number_from (N.of_nat fc) (map (path_bits (if big then 8 else 4)) (map N.of_nat (map fst ch)))
    end.
  Definition tbl_of (L : list tree) : list (N * list (list bool * N)) :=
    map (fun t => (N.of_nat (tree_id t), entries_of t)) L.

  Lemma mnode_entries_ok t : In t S -> is_inner t = true ->
    mnode_entries m vs (N.of_nat (tree_id t)) = Ok (entries_of t).
  Proof.
    intros Ht Hi. destruct t as [|id big step pfx fc ch]; [discriminate|]. cbn [tree_id entries_of].
    destruct (inner_at _ _ _ _ _ _ Ht) as (from & to & bm & pfxb & Hgn & Hsz & Hlb & Hfc & _).
    unfold mnode_entries. rewrite Hgn, Hsz, Hlb, Hfc. destruct big; reflexivity.
  Qed.

  Lemma mtable_ok : forall L, (forall t, In t L -> In t S /\ is_inner t = true) ->
    mtable m vs (map (fun t => N.of_nat (tree_id t)) L) = Ok (tbl_of L).
  Proof.
    induction L as [|t L IH]; intros H; [reflexivity|].
    cbn [map mtable tbl_of]. destruct (H t (or_introl eq_refl)) as [Ht Hi].
    rewrite (mnode_entries_ok t Ht Hi). cbn [bind]. fold (tbl_of L).
    rewrite IH by (intros t' Ht'; apply H; right; exact Ht'). reflexivity.
  Qed.

  Lemma id_inj t t' : In t S -> In t' S -> tree_id t = tree_id t' -> t = t'.
  Proof.
    intros Ht Ht' E. apply (NoDup_map_inj tree_id S); try assumption.
    exact (built_ids_nodup o keys vals T r Hb Hr).
  Qed.

  Lemma assoc_in : forall L t, (forall t', In t' L -> In t' S) -> In t S -> In t L ->
    assocN (N.of_nat (tree_id t)) (tbl_of L) = Some (entries_of t).
  Proof.
    induction L as [|t0 L IH]; intros t HL Ht Hin; [destruct Hin|].
    cbn [tbl_of map assocN]. fold (tbl_of L).
    destruct (N.eqb_spec (N.of_nat (tree_id t0)) (N.of_nat (tree_id t))) as [E|E].
    - assert (t0 = t) as -> by (apply id_inj; [apply HL; left; reflexivity|exact Ht|lia]). reflexivity.
    - destruct Hin as [->|Hin]; [congruence|]. apply IH; [intros t' Ht'; apply HL; right; exact Ht'|exact Ht|exact Hin].
  Qed.

  Lemma assoc_notin : forall L k, (forall t', In t' L -> N.of_nat (tree_id t') <> k) -> assocN k (tbl_of L) = None (A := list (list bool * N)).
  Proof.
    induction L as [|t0 L IH]; intros k H; [reflexivity|].
    cbn [tbl_of map assocN]. fold (tbl_of L).
    destruct (N.eqb_spec (N.of_nat (tree_id t0)) k) as [E|E]; [exfalso; apply (H t0); [left; reflexivity|exact E]|].
    apply IH. intros t' Ht'. apply H. right. exact Ht'.
  Qed.

  Lemma inner_ids_of L :
    map i_id (inners_of (map view_of_tree L)) = map (fun t => N.of_nat (tree_id t)) (filter is_inner L).
  Proof.
    induction L as [|t L IH]; [reflexivity|].
    destruct t; cbn [map view_of_tree inners_of is_inner filter i_id tree_id]; rewrite IH; reflexivity.
  Qed.

  Definition inners_B : list tree := filter is_inner B.

  Lemma inners_B_in t : In t inners_B -> In t S /\ is_inner t = true.
  Proof.
    unfold inners_B. intros H. apply filter_In in H. destruct H as [H1 H2]. split; [|exact H2].
    eapply Permutation_in; [apply Permutation_sym; exact B_perm|exact H1].
  Qed.

  Lemma tbl_lookup t : In t S ->
    assocN (N.of_nat (tree_id t)) (tbl_of inners_B) = if is_inner t then Some (entries_of t) else None.
  Proof.
    intros Ht. destruct (is_inner t) eqn:Ei.
    - apply assoc_in; [intros t' Ht'; apply inners_B_in; exact Ht'|exact Ht|].
      unfold inners_B. apply filter_In. split; [eapply Permutation_in; [exact B_perm|exact Ht]|exact Ei].
    - apply assoc_notin. intros t' Ht' E. destruct (inners_B_in t' Ht') as [Hs Hi].
      assert (t' = t) by (apply id_inj; [exact Hs|exact Ht|lia]). subst t'. congruence.
  Qed.

  (* the stored value of a leaf *)
  Lemma leaf_bytes_ok id ord tail eidx : In (Leaf id ord tail eidx) S ->
    match ith_leaf_bytes m (N.of_nat ord) with Val v => Ok (Some v) | Panic => Err (EPanic 11) end =
    (do v <- leaf_value T (Leaf id ord tail eidx); Ok (Some v)).
  Proof.
    intros Hsub. cbn [leaf_value].
    destruct (build_ok o keys vals T Hb) as [[_ ->]|(r' & lidx & Bt)]; [discriminate|].
    assert (r' = r) as -> by (pose proof (bt_root _ _ _ _ _ _ Bt) as H; rewrite Hr in H; inversion H; reflexivity).
    pose proof (Hwf o keys vals T r Hb Hr) as Wf.
    pose proof (leaves_fw _ _ _ _ m Wf (flat_nodes_ne r) He) as HL.
    destruct (t_leaves T) as [elts|] eqn:El.
    - destruct HL as [_ HL].
      assert (~ Forall (fun e => e = []) elts) as Hnz.
      { rewrite (bt_leaves _ _ _ _ _ _ Bt) in El. unfold select_leaves in El. destruct vals as [vs0|]; [|discriminate].
        destruct (total_size _ =? 0) eqn:Ez; [discriminate|]. injection El as <-. apply Nat.eqb_neq in Ez.
        intros Hall. apply Ez. unfold total_size. clear -Hall. induction Hall as [|x l Hx _ IH]; [reflexivity|].
        cbn [map sum_list]. rewrite Hx. exact IH. }
      destruct (HL Hnz) as [Hin _].
      pose proof (nodes_at _ Hsub) as Hn. cbn [tree_id view_of_tree] in Hn. unfold nodes in Hn.
      assert (ord < length elts) as Hord.
      { unfold flat_wf in Wf. apply andb_true_iff in Wf. destruct Wf as [W1 W2]. unfold leaves_ok in W2. apply Nat.eqb_eq in W2.
        pose proof (wf_from_nth _ _ _ _ _ _ _ _ _ W1 Hn) as (_ & Ho & _). cbn in Ho.
        pose proof (tails_of_nth _ _ _ _ _ Hn) as Ht. rewrite <- Ho in Ht.
        rewrite W2. apply nth_error_Some. congruence. }
      rewrite (Hin ord Hord).
      destruct (nth_error elts ord) as [v|] eqn:En; [|apply nth_error_None in En; lia].
      rewrite (nth_error_nth _ _ [] En). reflexivity.
    - rewrite HL. reflexivity.
  Qed.

  Lemma number_from_length {A} : forall (l : list A) c, length (number_from c l) = length l.
  Proof. induction l as [|x l IH]; intros c; [reflexivity|]. cbn [number_from length]. rewrite IH. reflexivity. Qed.

  Lemma path_bits_label (big : bool) (x : nat) : path_bits (if big then 8 else 4) (N.of_nat x) = label_bits big x.
  Proof.
    unfold path_bits, label_bits. destruct x as [|v]; [reflexivity|].
    destruct (N.eqb_spec (N.of_nat (Datatypes.S v)) 0); [lia|].
    replace (N.to_nat (N.of_nat (Datatypes.S v) - 1)) with v by lia. destruct big; reflexivity.
  Qed.

  Lemma height_pos t : 1 <= height t.
  Proof. destruct t; cbn [height]; lia. Qed.

  Lemma mrender_node_ok nt : m_nodetype m = Some nt ->
    forall fuel t ind lbl, In t S -> height t <= fuel ->
    mrender_node fuel m vs nt (tbl_of inners_B) ind lbl (N.of_nat (tree_id t)) = render_tree T ind lbl t.
  Proof.
    intros Ent. pose proof (built_ids_ok o keys vals T r Hb Hr) as I.
    induction fuel as [|f IH]; intros t ind lbl Ht Hh; [pose proof (height_pos t); lia|].
    cbn [mrender_node]. cbv zeta. rewrite (tbl_lookup t Ht).
    destruct (rank_nt_at nodes _ _ _ m vs W He Ev _ _ (nodes_at t Ht)) as (nt' & Ent' & Hrk & Hgb & _).
    rewrite Ent in Ent'. injection Ent' as <-. rewrite Hgb, Hrk, is_inner_view, inners_before_rank.
    destruct t as [id ord tail eidx|id big step pfx fc ch]; cbn [is_inner tree_id N.b2n].
    - (* leaf *)
      cbn [bind N.eqb length Nat.ltb Nat.leb concat_res].
      pose proof (nodes_at _ Ht) as Hn. cbn [tree_id view_of_tree] in Hn.
      pose proof (wf_from_nth _ _ _ _ _ _ _ _ _ W Hn) as (_ & Hord & _). cbn [Nat.add] in Hord.
      pose proof (before_total nodes id) as Hbt. pose proof (id_lt _ Ht) as Hlt. cbn [tree_id] in Hlt. rewrite nodes_len in Hbt.
      specialize (Hbt ltac:(lia)). rewrite inners_before_rank in Hbt.
      replace (N.of_nat id - N.of_nat (rank_inner S id))%N with (N.of_nat ord) by lia.
      rewrite (leaf_bytes_ok id ord tail eidx Ht). cbn [render_tree].
      destruct (leaf_value T (Leaf id ord tail eidx)) as [v|e]; cbn [bind]; [|reflexivity].
      rewrite Nat2N.id. reflexivity.
    - (* inner *)
      destruct (inner_at _ _ _ _ _ _ Ht) as (from & to & bm & pfxb & Hgn & _).
      rewrite Hgn. cbn [bind N.eqb]. rewrite render_inner, !Nat2N.id.
      cbn [entries_of]. rewrite number_from_length, !map_length.
      set (ind' := ind + label_width_txt lbl + 1 + id_width id).
      assert (forall rest pre, ch = pre ++ rest ->
                concat_res (fun e : list bool * N => mrender_node f m vs nt (tbl_of inners_B) ind' (Some (fst e)) (snd e))
                  (number_from (N.of_nat (fc + length pre)) (map (path_bits (if big then 8 else 4)) (map N.of_nat (map fst rest)))) =
                render_kids T ind' big rest) as Hk.
      { induction rest as [|[x c] rest IHr]; intros pre Ech; [reflexivity|].
        cbn [map fst number_from concat_res render_kids].
        assert (nth_error ch (length pre) = Some (x, c)) as En
          by (rewrite Ech, nth_error_app2, Nat.sub_diag by lia; reflexivity).
        assert (In (x, c) ch) as Hin by (eapply nth_error_In; exact En).
        rewrite <- (child_id r _ _ _ _ _ _ _ _ _ I Ht En), path_bits_label. cbn [fst snd].
        rewrite IH.
        2:{ eapply subtrees_trans; [exact Ht|eapply subtree_child; exact Hin]. }
        2:{ pose proof (height_child id big step pfx fc ch x c Hin). lia. }
        rewrite (child_id r _ _ _ _ _ _ _ _ _ I Ht En).
        replace (N.succ (N.of_nat (fc + length pre))) with (N.of_nat (fc + length (pre ++ [(x, c)])))
          by (rewrite app_length; cbn [length]; lia).
        rewrite (IHr (pre ++ [(x, c)])) by (rewrite <- app_assoc; exact Ech). reflexivity. }
      specialize (Hk ch [] eq_refl). cbn [length] in Hk. rewrite Nat.add_0_r in Hk. rewrite Hk. reflexivity.
  Qed.

  Lemma mrender_tree fuel : height r <= fuel -> mrender fuel m vs = render T.
  Proof.
    intros Hf. destruct nt_some as (nt & Ent). unfold mrender, render. rewrite Ent, Hr.
    destruct (rank_nt_at nodes _ _ _ m vs W He Ev _ _ (nodes_at r root_in)) as (nt' & Ent' & _ & _ & Hta).
    rewrite Ent in Ent'. injection Ent' as <-. rewrite Hta. unfold nodes, flat_nodes. fold B.
    rewrite inner_ids_of. fold inners_B. rewrite (mtable_ok inners_B inners_B_in). cbn [bind].
    pose proof (mrender_node_ok nt Ent fuel r 0 None root_in Hf) as H.
    rewrite (root_id0 o keys vals T r Hb Hr) in H. exact H.
  Qed.
End OneTrie.

(* ====================================================================== *)
(* The message of a built trie: level table, Stat(), String()              *)
(* ====================================================================== *)
Theorem mlevels_levels o keys vals T m vs :
  build o keys vals = Ok T -> encode_trie T = Val m -> init_vars m = Val vs ->
  mlevels m vs = Ok (levels T).
Proof.
  intros Hb Em Ev. rewrite <- (levels_walk_ok o keys vals T Hb).
  destruct (t_root T) as [r|] eqn:Hr.
  - exact (mlevels_walk o keys vals T r Hb Hr m vs Em Ev).
  - unfold encode_trie in Em. rewrite Hr in Em. injection Em as <-. unfold levels_walk. rewrite Hr. reflexivity.
Qed.

Theorem minit_levels_levels o keys vals T m vs :
  build o keys vals = Ok T -> encode_trie T = Val m -> init_vars m = Val vs ->
  minit_levels m = Ok (levels T).
Proof. intros Hb Em Ev. unfold minit_levels. rewrite Ev. exact (mlevels_levels o keys vals T m vs Hb Em Ev). Qed.

Lemma nodetype_root T m : encode_trie T = Val m ->
  match m_nodetype m, t_root T with None, None => True | Some _, Some _ => True | _, _ => False end.
Proof.
  intros Em. unfold encode_trie in Em. destruct (t_root T) as [r|] eqn:Hr.
  - destruct (encode_msg_fields _ _ _ _ _ Em) as (Hnt & _). specialize (Hnt (flat_nodes_ne r)).
    destruct (m_nodetype m); [exact I|congruence].
  - injection Em as <-. exact I.
Qed.

Theorem mstat_stat o keys vals T m vs :
  build o keys vals = Ok T -> encode_trie T = Val m -> init_vars m = Val vs ->
  mstat m (minit_levels m) = stat T.
Proof.
  intros Hb Em Ev. rewrite (minit_levels_levels o keys vals T m vs Hb Em Ev). unfold mstat, stat. cbn [bind].
  destruct (last_opt (levels T)) as [e|]; [|reflexivity].
  pose proof (nodetype_root T m Em) as H. destruct (m_nodetype m), (t_root T); try contradiction; reflexivity.
Qed.

Theorem mrender_render o keys vals T m vs fuel :
  build o keys vals = Ok T -> encode_trie T = Val m -> init_vars m = Val vs ->
  trie_height T <= fuel ->
  mrender fuel m vs = render T.
Proof.
  intros Hb Em Ev Hf. unfold trie_height in Hf. destruct (t_root T) as [r|] eqn:Hr.
  - exact (mrender_tree o keys vals T r Hb Hr m vs Em Ev fuel Hf).
  - unfold encode_trie in Em. rewrite Hr in Em. injection Em as <-. unfold mrender, render. rewrite Hr. reflexivity.
Qed.
