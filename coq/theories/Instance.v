(* Instance.v - one *SlimTrie value under a history of Unmarshal / Reset calls
   (trie/slimtrie_marshal.go: Unmarshal, Reset; trie/slimtrie.go: init).
   Model file: definitions only.

   The instance state that queries read is (inner, vars, levels); the encoder is
   fixed at construction and never written by these operations.
     vars   = initVars(inner)   (slimtrie_vars.go)   - a function of inner only
     levels = initLevels(inner) (slimtrie_level.go)  - a function of inner only
   They are abstract functions here (Section variables): the wire model does not
   look inside them, it only records WHICH message they were derived from.
   The legacy conversions are abstract as well:
     conv510 m      = st.inner after before000512InnerPrefixTobitstr + before000512FixLeafSize
     conv3 c s l    = the message built by before000510ToNewChildrenArray from the three sections
   (functions of the parsed data and the fixed encoder; C06's subject; a panic
   inside them is outside this model).

   Exactly as the Go text does it:
     Unmarshal: st.inner = &Slim{} FIRST; on any error return - vars and levels
       are NOT touched (they stay stale); on success inner/vars/levels are all
       replaced.  One error leaves more than the empty message behind: when the
       body was read completely and proto.Unmarshal rejects it, the fields
       decoded before the bad one are already assigned to st.inner.  That state
       is [IPartial]: explicitly unknown to this model.
     Reset: inner = &Slim{}, vars = nil, levels = [{0,0,0,nil}]. *)
From Coq Require Import List NArith Bool.
From Coq.Strings Require Import Byte.
From Slim Require Import Varint Proto Semver Frame.
Import ListNotations.

Section Instance.
  Variable compat : list str.
  Variable cur : str.
  Variables Vars Levels : Type.
  Variable init_vars : slim -> Vars.
  Variable init_levels : slim -> Levels.
  Variable reset_levels : Levels.                  (* []levelInfo{{0,0,0,nil}} *)
  Variable conv510 : slim -> slim.
  Variable conv3 : list byte -> list byte -> list byte -> slim.

  Inductive inner_state :=
  | IMsg (m : slim)
  | IPartial.       (* a rejected protobuf body, decoded up to the error *)

  Record inst := mkInst {
    i_inner : inner_state;
    i_vars : option Vars;          (* None: nil pointer (after Reset) *)
    i_levels : Levels
  }.

  Inductive op := OpUnmarshal (b : list byte) | OpReset.

  Definition installed (m : slim) : inst := mkInst (IMsg m) (Some (init_vars m)) (init_levels m).

  (* NewSlimTrie(e, nil, nil): inner = empty message; st.init() *)
  Definition fresh : inst := installed empty_slim.

  Definition step (st : inst) (o : op) : inst * option outcome :=
    match o with
    | OpReset => (mkInst (IMsg empty_slim) None reset_levels, None)
    | OpUnmarshal b =>
      let out := unmarshal compat cur b in
      let st' :=
          match out with
          | OLoaded m => installed m
          | OLegacy510 m => installed (conv510 m)
          | OLegacy3 c s l => installed (conv3 c s l)
          | OErr SInner CProto => mkInst IPartial (i_vars st) (i_levels st)
          | OErr _ _ | OIncompatible | OPanic | OUnmodelled =>
            (* st.inner = &Slim{} happened before the failure; nothing else was written.
               (OPanic: the panic leaves the same state behind; OUnmodelled: no claim) *)
            mkInst (IMsg empty_slim) (i_vars st) (i_levels st)
          end in
      (st', Some out)
    end.

  Fixpoint run (st : inst) (h : list op) : inst :=
    match h with
    | [] => st
    | o :: r => run (fst (step st o)) r
    end.

  Definition load_ok (b : list byte) : bool :=
    match unmarshal compat cur b with
    | OLoaded _ | OLegacy510 _ | OLegacy3 _ _ _ => true
    | _ => false
    end.
End Instance.
