(* MonoCompleteProofs.v - C13, second clause: a mode that stores both prefixes
   reports found only for retained keys.  Corollary of C03 (complete_exact). *)
From Slim Require Import Base Keys KeysProofs ListFacts Model TrieInv BuildProofs QueryProofs ConsistProofs OrderProofs SearchProofs.

Lemma mk_ents_length : forall keys b keep, length (mk_ents b keys keep) = length keys.
Proof. induction keys as [|k r IH]; intros b keep; cbn [mk_ents length]; [reflexivity|]. rewrite IH. reflexivity. Qed.

Theorem complete_found_retained o keys vals T q v :
  build o keys vals = Ok T -> o_inner o = true -> o_leaf o = true ->
  get T q = Ok (Found v) ->
  exists i, nth_error keys i = Some q /\ retained o keys vals i = true.
Proof.
  intros Hb Hi Hl Hg.
  destruct keys as [|k0 kr]; [inversion Hb; subst T; cbn in Hg; discriminate|].
  destruct (complete_exact o (k0 :: kr) vals T q Hb ltac:(discriminate) Hi Hl) as (Bl & Ar & _ & _ & [H|H]).
  - destruct H as (_ & _ & Hn & _). rewrite Hn in Hg. discriminate.
  - destruct H as (x & Hk & Hx & _).
    assert (In x (kept (root_subset o (k0 :: kr) vals))) as Hin by (rewrite Hk; apply in_or_app; right; left; reflexivity).
    unfold kept in Hin. apply filter_In in Hin. destruct Hin as [Hin Hkeep].
    cbn [root_subset s_ents] in Hin. apply In_nth_error in Hin. destruct Hin as (n & Hn).
    assert (n < length (k0 :: kr)) as Hlt.
    { rewrite <- (mk_ents_length (k0 :: kr) 0 (to_keep o (length (k0 :: kr)) vals)). apply nth_error_Some. rewrite Hn. discriminate. }
    destruct (nth_error (k0 :: kr) n) as [k|] eqn:Ek; [|apply nth_error_None in Ek; lia].
    rewrite (mk_ents_nth (k0 :: kr) 0 _ n k Ek) in Hn. inversion Hn as [Ex]. subst x.
    cbn [e_key e_keep] in Hx, Hkeep. subst k. exists n. split; [exact Ek|exact Hkeep].
Qed.
