(* Encoders.v - executable model of package encode of openacid/slim (C15).
   Definitions only; the proofs are in EncodersProofs.v.

   What is modelled (file -> definitions):
     encode/int.go, int8.go, nativeint.go   -> icodec, int_encode/int_decode/...
         (the per-type parameters - width, signedness, byte order - are read
          from the Go source by `harness genc15` into SlimGen.Gen_IntCodecs and
          turned into an [icodec] by [codec_of_src])
     encode/encoder.go String16             -> s16_*
     encode/bytes.go  Bytes{Size}           -> bytes_*
     encode/dummy.go  Dummy                 -> dummy_*
     encode/type_encoder.go TypeEncoder     -> te_*   (encoding/binary.Write/Read
         and reflect are modelled at their documented specification for
         fixed-size integer types, arrays and structs)
     encode.Encoder interface               -> enc_encode/enc_decode/enc_get_size/
                                               enc_get_encoded_size over [encoder].

   Conventions.  A Go []byte argument is a [list byte] whose capacity equals its
   length (the harness passes full-slice expressions b[:n:n]); re-slicing beyond
   it, indexing out of range and a failed type assertion are the explicit
   outcome [DPanic], never a default value.  Go integers are mathematical
   integers [Z] inside the range of their type; a conversion between the signed
   and the unsigned type of the same width is [wrap]/[unwrap] (mod 2^(8w)).
   Sizes and consumed-byte counts are [nat] (they are lengths).
   Native int: 64 bit on the platform the check runs on (bits.UintSize = 64);
   the translator records the value it was compiled with. *)
From Coq Require Import List ZArith NArith Bool.
From Coq Require String.
From Coq.Strings Require Import Byte.
Import ListNotations.
Open Scope Z_scope.

(* ---------- outcomes ---------- *)
Inductive dres (A : Type) :=
| DOk (a : A)
| DPanic.          (* a Go run-time panic *)
Arguments DOk {A} a.
Arguments DPanic {A}.

Definition dbind {A B} (r : dres A) (f : A -> dres B) : dres B :=
  match r with DOk a => f a | DPanic => DPanic end.

(* ---------- bytes and fixed-width integers ---------- *)
Definition Z_of_byte (b : byte) : Z := Z.of_N (Byte.to_N b).

(* Go's conversion byte(x): the low 8 bits. Total; the [None] branch is
   unreachable because z mod 256 < 256 (lemma Z_of_byte_of_Z). *)
Definition byte_of_Z (z : Z) : byte :=
  match Byte.of_N (Z.to_N (z mod 256)) with Some b => b | None => x00 end.

(* the w little-endian bytes of x: byte i is (x / 2^(8i)) mod 256 *)
Fixpoint le_bytes (w : nat) (x : Z) : list byte :=
  match w with
  | O => []
  | S w' => byte_of_Z x :: le_bytes w' (x / 256)
  end.

Fixpoint le_value (bs : list byte) : Z :=
  match bs with
  | [] => 0
  | b :: r => Z_of_byte b + 256 * le_value r
  end.

(* binary.LittleEndian / binary.BigEndian PutUintN and UintN *)
Definition ord_bytes (big : bool) (w : nat) (x : Z) : list byte :=
  if big then rev (le_bytes w x) else le_bytes w x.
Definition ord_value (big : bool) (bs : list byte) : Z :=
  if big then le_value (rev bs) else le_value bs.

Definition modulus (w : nat) : Z := 2 ^ (8 * Z.of_nat w).

(* uintN(v) for a value v of intN or uintN *)
Definition wrap (w : nat) (v : Z) : Z := v mod modulus w.
(* intN(u) for 0 <= u < 2^(8w) when signed, the identity otherwise *)
Definition unwrap (signed : bool) (w : nat) (u : Z) : Z :=
  if signed && (modulus w <=? 2 * u) then u - modulus w else u.

(* the values of the Go type: [-2^(8w-1), 2^(8w-1)) resp. [0, 2^(8w)) *)
Definition in_range (signed : bool) (w : nat) (v : Z) : Prop :=
  if signed then - modulus w <= 2 * v /\ 2 * v < modulus w
  else 0 <= v /\ v < modulus w.
Definition in_rangeb (signed : bool) (w : nat) (v : Z) : bool :=
  if signed then (- modulus w <=? 2 * v) && (2 * v <? modulus w)
  else (0 <=? v) && (v <? modulus w).

(* b[:n] on a slice with cap = len *)
Definition take (n : nat) (bs : list byte) : dres (list byte) :=
  if Nat.ltb (length bs) n then DPanic else DOk (firstn n bs).

(* ---------- integer codecs: I8 I16 I32 I64 U16 U32 U64 Int ---------- *)
Record icodec := { ic_width : nat; ic_signed : bool; ic_big : bool }.

Definition int_encode (c : icodec) (v : Z) : list byte :=
  ord_bytes (ic_big c) (ic_width c) (wrap (ic_width c) v).
Definition int_decode (c : icodec) (bs : list byte) : dres (nat * Z) :=
  dbind (take (ic_width c) bs)
        (fun s => DOk (ic_width c, unwrap (ic_signed c) (ic_width c) (ord_value (ic_big c) s))).
Definition int_get_size (c : icodec) : nat := ic_width c.
Definition int_get_encoded_size (c : icodec) (bs : list byte) : nat := ic_width c.

(* What `harness genc15` reads from encode/int.go, int8.go, nativeint.go for
   one codec type.  Widths in bytes, bits in bits, as they stand in the source:
     sc_valbits/sc_signed : the Go type asserted in Encode (d.(int16) -> 16, true)
     sc_enc_len           : make([]byte, K) in Encode
     sc_enc_bits/_big     : binary.<Order>.PutUint<bits>
     sc_dec_len           : size := int(K) in Decode (b[:size])
     sc_dec_bits/_big     : binary.<Order>.Uint<bits>
     sc_ret_bits/_signed  : the type of the decoded value (outer conversion)
     sc_get_size, sc_get_encoded_size : the returned constants. *)
Record src_codec := {
  sc_name : String.string;
  sc_signed : bool; sc_valbits : N;
  sc_enc_len : N; sc_enc_bits : N; sc_enc_big : bool;
  sc_dec_len : N; sc_dec_bits : N; sc_dec_big : bool;
  sc_ret_signed : bool; sc_ret_bits : N;
  sc_get_size : N; sc_get_encoded_size : N
}.

(* the source describes one consistent fixed-width codec *)
Definition src_codec_wf (g : src_codec) : bool :=
  (N.eqb (sc_valbits g) (8 * sc_enc_len g) && N.eqb (sc_enc_bits g) (sc_valbits g)
   && N.eqb (sc_dec_len g) (sc_enc_len g) && N.eqb (sc_dec_bits g) (sc_valbits g)
   && N.eqb (sc_ret_bits g) (sc_valbits g) && Bool.eqb (sc_ret_signed g) (sc_signed g)
   && Bool.eqb (sc_dec_big g) (sc_enc_big g)
   && N.eqb (sc_get_size g) (sc_enc_len g) && N.eqb (sc_get_encoded_size g) (sc_enc_len g))%N.

Definition src_codec_le (g : src_codec) : bool := negb (sc_enc_big g) && negb (sc_dec_big g).

Definition codec_of_src (g : src_codec) : icodec :=
  {| ic_width := N.to_nat (sc_enc_len g); ic_signed := sc_signed g; ic_big := sc_enc_big g |}.

Fixpoint find_src_codec (name : String.string) (tbl : list src_codec) : option src_codec :=
  match tbl with
  | [] => None
  | g :: r => if String.eqb name (sc_name g) then Some g else find_src_codec name r
  end.

(* ---------- String16 ---------- *)
(* rst[0] = byte(l >> 8); rst[1] = byte(l); the length is NOT checked against
   65535: beyond it the prefix is the length mod 65536 *)
Definition s16_encode (s : list byte) : list byte :=
  byte_of_Z (Z.of_nat (length s) / 256) :: byte_of_Z (Z.of_nat (length s)) :: s.
Definition s16_len (b0 b1 : byte) : nat := Z.to_nat (Z_of_byte b0 * 256 + Z_of_byte b1).
Definition s16_decode (bs : list byte) : dres (nat * list byte) :=
  match bs with
  | b0 :: b1 :: r =>
      let l := s16_len b0 b1 in
      if Nat.ltb (length r) l then DPanic else DOk ((2 + l)%nat, firstn l r)
  | _ => DPanic
  end.
Definition s16_get_size (s : list byte) : nat := (2 + length s)%nat.
Definition s16_get_encoded_size (bs : list byte) : dres nat :=
  match bs with
  | b0 :: b1 :: _ => DOk (2 + s16_len b0 b1)%nat
  | _ => DPanic
  end.

(* ---------- Bytes{Size: n} ---------- *)
(* Encode returns its argument unchanged, whatever its length *)
Definition bytes_encode (n : nat) (v : list byte) : list byte := v.
Definition bytes_decode (n : nat) (bs : list byte) : dres (nat * list byte) :=
  dbind (take n bs) (fun s => DOk (n, s)).
Definition bytes_get_size (n : nat) : nat := n.
Definition bytes_get_encoded_size (n : nat) (bs : list byte) : nat := n.

(* ---------- TypeEncoder ---------- *)
Inductive prim := PI8 | PI16 | PI32 | PI64 | PU8 | PU16 | PU32 | PU64.
Definition prim_width (p : prim) : nat :=
  match p with
  | PI8 | PU8 => 1 | PI16 | PU16 => 2 | PI32 | PU32 => 4 | PI64 | PU64 => 8
  end%nat.
Definition prim_signed (p : prim) : bool :=
  match p with PI8 | PI16 | PI32 | PI64 => true | _ => false end.

(* fixed-size Go types built from sized integers, arrays and structs *)
Inductive ty :=
| TPrim (p : prim)
| TArray (n : nat) (t : ty)
| TStruct (fs : list ty).

(* values of every encoder: an integer, an array or struct (elements resp.
   fields in declared order), a string or []byte, nil *)
Inductive value :=
| VInt (z : Z)
| VSeq (vs : list value)
| VBytes (bs : list byte)
| VNil.

(* v is a Go value of type t *)
Fixpoint val_ok (t : ty) (v : value) {struct t} : bool :=
  match t, v with
  | TPrim p, VInt z => in_rangeb (prim_signed p) (prim_width p) z
  | TArray n t', VSeq vs => Nat.eqb (length vs) n && forallb (val_ok t') vs
  | TStruct ts, VSeq vs =>
      (fix go (ts : list ty) (vs : list value) {struct ts} : bool :=
         match ts, vs with
         | [], [] => true
         | t1 :: tr, v1 :: vr => val_ok t1 v1 && go tr vr
         | _, _ => false
         end) ts vs
  | _, _ => false
  end.

Fixpoint te_size (t : ty) : nat :=
  match t with
  | TPrim p => prim_width p
  | TArray n t' => (n * te_size t')%nat
  | TStruct ts => list_sum (map te_size ts)
  end.

(* binary.Write(order, v): fields/elements in declared order, each sized
   integer as its PutUintN bytes in the configured order *)
Fixpoint te_bytes (big : bool) (t : ty) (v : value) {struct t} : list byte :=
  match t, v with
  | TPrim p, VInt z => ord_bytes big (prim_width p) (wrap (prim_width p) z)
  | TArray n t', VSeq vs => flat_map (te_bytes big t') vs
  | TStruct ts, VSeq vs =>
      (fix go (ts : list ty) (vs : list value) {struct ts} : list byte :=
         match ts, vs with
         | t1 :: tr, v1 :: vr => te_bytes big t1 v1 ++ go tr vr
         | _, _ => []
         end) ts vs
  | _, _ => []
  end.

(* the integer leaves of a value in declared order, with their types *)
Fixpoint leaves (t : ty) (v : value) {struct t} : list (prim * Z) :=
  match t, v with
  | TPrim p, VInt z => [(p, z)]
  | TArray n t', VSeq vs => flat_map (leaves t') vs
  | TStruct ts, VSeq vs =>
      (fix go (ts : list ty) (vs : list value) {struct ts} : list (prim * Z) :=
         match ts, vs with
         | t1 :: tr, v1 :: vr => leaves t1 v1 ++ go tr vr
         | _, _ => []
         end) ts vs
  | _, _ => []
  end.

Definition parser := list byte -> dres (value * list byte).

(* n consecutive elements *)
Fixpoint dec_many (f : parser) (n : nat) (bs : list byte) : dres (list value * list byte) :=
  match n with
  | O => DOk ([], bs)
  | S n' =>
      match f bs with
      | DPanic => DPanic
      | DOk (v, r) =>
          match dec_many f n' r with
          | DPanic => DPanic
          | DOk (vs, r') => DOk (v :: vs, r')
          end
      end
  end.

(* the fields one after the other *)
Fixpoint dec_seq (fs : list parser) (bs : list byte) : dres (list value * list byte) :=
  match fs with
  | [] => DOk ([], bs)
  | f :: fr =>
      match f bs with
      | DPanic => DPanic
      | DOk (v, r) =>
          match dec_seq fr r with
          | DPanic => DPanic
          | DOk (vs, r') => DOk (v :: vs, r')
          end
      end
  end.

(* binary.Read(order, &v): returns the value and the unread bytes; running out
   of bytes (io.ErrUnexpectedEOF, which TypeEncoder.Decode turns into a panic)
   is DPanic *)
Fixpoint te_read (big : bool) (t : ty) (bs : list byte) {struct t} : dres (value * list byte) :=
  match t with
  | TPrim p =>
      let w := prim_width p in
      if Nat.ltb (length bs) w then DPanic
      else DOk (VInt (unwrap (prim_signed p) w (ord_value big (firstn w bs))), skipn w bs)
  | TArray n t' =>
      match dec_many (te_read big t') n bs with
      | DPanic => DPanic
      | DOk (vs, r) => DOk (VSeq vs, r)
      end
  | TStruct ts =>
      match dec_seq (map (te_read big) ts) bs with
      | DPanic => DPanic
      | DOk (vs, r) => DOk (VSeq vs, r)
      end
  end.

(* TypeEncoder.Encode: panics when the dynamic type differs from m.Type *)
Definition te_encode (big : bool) (t : ty) (v : value) : dres (list byte) :=
  if val_ok t v then DOk (te_bytes big t v) else DPanic.
(* TypeEncoder.Decode: b = b[0:m.Size]; binary.Read; returns (m.Size, value) *)
Definition te_decode (big : bool) (t : ty) (bs : list byte) : dres (nat * value) :=
  dbind (take (te_size t) bs)
        (fun s => dbind (te_read big t s) (fun vr => DOk (te_size t, fst vr))).

(* ---------- the Encoder interface ---------- *)
Inductive encoder :=
| EInt (c : icodec)
| EString16
| EBytes (n : nat)
| EDummy
| EType (big : bool) (t : ty).

(* a failed type assertion d.(T) panics *)
Definition enc_encode (e : encoder) (v : value) : dres (list byte) :=
  match e, v with
  | EInt c, VInt z =>
      if in_rangeb (ic_signed c) (ic_width c) z then DOk (int_encode c z) else DPanic
  | EString16, VBytes s => DOk (s16_encode s)
  | EBytes n, VBytes s => DOk (bytes_encode n s)
  | EDummy, _ => DOk []
  | EType big t, _ => te_encode big t v
  | _, _ => DPanic
  end.

Definition enc_decode (e : encoder) (bs : list byte) : dres (nat * value) :=
  match e with
  | EInt c => dbind (int_decode c bs) (fun nv => DOk (fst nv, VInt (snd nv)))
  | EString16 => dbind (s16_decode bs) (fun nv => DOk (fst nv, VBytes (snd nv)))
  | EBytes n => dbind (bytes_decode n bs) (fun nv => DOk (fst nv, VBytes (snd nv)))
  | EDummy => DOk (O, VNil)
  | EType big t => te_decode big t bs
  end.

Definition enc_get_size (e : encoder) (v : value) : dres nat :=
  match e with
  | EInt c => DOk (int_get_size c)
  | EString16 => match v with VBytes s => DOk (s16_get_size s) | _ => DPanic end
  | EBytes n => DOk (bytes_get_size n)
  | EDummy => DOk O
  | EType big t => DOk (te_size t)
  end.

Definition enc_get_encoded_size (e : encoder) (bs : list byte) : dres nat :=
  match e with
  | EInt c => DOk (int_get_encoded_size c bs)
  | EString16 => s16_get_encoded_size bs
  | EBytes n => DOk (bytes_get_encoded_size n bs)
  | EDummy => DOk O
  | EType big t => DOk (te_size t)
  end.

(* the domain of an encoder (the values the property quantifies over) *)
Definition in_domain (e : encoder) (v : value) : Prop :=
  match e, v with
  | EInt c, VInt z => in_range (ic_signed c) (ic_width c) z
  | EString16, VBytes s => Z.of_nat (length s) <= 65535
  | EBytes n, VBytes s => length s = n
  | EDummy, VNil => True
  | EType big t, _ => val_ok t v = true
  | _, _ => False
  end.

(* the four observables of one Encoder on a value followed by unrelated bytes *)
Definition roundtrip_ok (e : encoder) (v : value) (rest : list byte) : Prop :=
  exists enc,
    enc_encode e v = DOk enc /\
    enc_decode e (enc ++ rest) = DOk (length enc, v) /\
    enc_get_size e v = DOk (length enc) /\
    enc_get_encoded_size e (enc ++ rest) = DOk (length enc).
