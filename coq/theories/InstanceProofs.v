(* InstanceProofs.v - proofs about Instance.v: a successful load determines the
   whole state (no residue of any earlier history); a rejected load leaves the
   empty message in st.inner (vars and levels stay as they were). *)
From Coq Require Import List NArith Bool.
From Coq.Strings Require Import Byte.
From Slim Require Import Varint Proto Semver Frame Instance.
Import ListNotations.

Section InstanceProofs.
  Variable compat : list str.
  Variable cur : str.
  Variables Vars Levels : Type.
  Variable init_vars : slim -> Vars.
  Variable init_levels : slim -> Levels.
  Variable reset_levels : Levels.
  Variable conv510 : slim -> slim.
  Variable conv3 : list byte -> list byte -> list byte -> slim.

  Notation inst := (inst Vars Levels).
  Notation step := (step compat cur Vars Levels init_vars init_levels reset_levels conv510 conv3).
  Notation run := (run compat cur Vars Levels init_vars init_levels reset_levels conv510 conv3).
  Notation fresh := (fresh Vars Levels init_vars init_levels).
  Notation installed := (installed Vars Levels init_vars init_levels).
  Notation load_ok := (load_ok compat cur).

  Lemma run_app : forall h1 h2 (st : inst), run st (h1 ++ h2) = run (run st h1) h2.
  Proof.
    induction h1 as [|o h1 IH]; intros h2 st; cbn [app Instance.run]; [reflexivity|apply IH].
  Qed.

  (* the state after a successful load does not depend on the state before *)
  Lemma step_load_independent : forall (st st' : inst) b,
    load_ok b = true -> fst (step st (OpUnmarshal b)) = fst (step st' (OpUnmarshal b)).
  Proof.
    intros st st' b H. unfold Instance.load_ok in H. unfold Instance.step.
    destruct (unmarshal compat cur b); try discriminate; reflexivity.
  Qed.

  Theorem no_residue : forall (h : list op) (st : inst) b,
    load_ok b = true ->
    run st (h ++ [OpUnmarshal b]) = run fresh [OpUnmarshal b].
  Proof.
    intros h st b H. rewrite run_app. cbn [Instance.run].
    apply step_load_independent. exact H.
  Qed.

  (* what the state is after a successful current-format load *)
  Lemma step_loaded : forall (st : inst) b m,
    unmarshal compat cur b = OLoaded m ->
    fst (step st (OpUnmarshal b)) = installed m.
  Proof. intros st b m H. unfold Instance.step. rewrite H. reflexivity. Qed.

  (* a rejected load, other than a protobuf error inside a completely read body *)
  Definition clean_reject (o : outcome) : bool :=
    match o with
    | OErr SInner CProto => false
    | OErr _ _ | OIncompatible => true
    | _ => false
    end.

  Theorem rejected_load_state : forall (st : inst) b,
    clean_reject (unmarshal compat cur b) = true ->
    let st' := fst (step st (OpUnmarshal b)) in
    i_inner _ _ st' = IMsg empty_slim /\ i_vars _ _ st' = i_vars _ _ st /\ i_levels _ _ st' = i_levels _ _ st.
  Proof.
    intros st b H. unfold Instance.step.
    destruct (unmarshal compat cur b) as [m|m|c s l|s c| | |]; try discriminate.
    - destruct s; destruct c; try discriminate; cbn; auto.
    - cbn. auto.
  Qed.
End InstanceProofs.
