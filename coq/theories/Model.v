(* Model.v - executable model of SlimTrie construction and point queries.
   The trie is a tree whose nodes carry the breadth-first ids the Go code
   assigns (node id = rank of the parent's label bit); it is built level by
   level so that the single [isBig] flag of the Go creator is threaded in BFS
   order exactly as in trie/slimtrie_create.go:newSlim.  Positions are counted
   in nibbles (Go counts bits; every position it uses is a multiple of 4).
   No proofs in this file. *)
From Slim Require Import Base Keys.
From SlimGen Require Gen_Consts.

(* ---- options (trie/slimtrie.go: Opt, normalizeOpt) ---- *)
Record raw_opt := { r_dedup : option bool; r_inner : option bool;
                    r_leaf : option bool; r_complete : option bool }.
Record opts := { o_dedup : bool; o_inner : bool; o_leaf : bool }.

Definition normalize (r : raw_opt) : opts :=
  let d := match r_dedup r with Some b => b | None => true end in
  let i := match r_inner r with Some b => b | None => false end in
  let l := match r_leaf r with Some b => b | None => false end in
  match r_complete r with
  | Some true => {| o_dedup := d; o_inner := true; o_leaf := true |}
  | _ => {| o_dedup := d; o_inner := i; o_leaf := l |}
  end.

(* ---- constants (regenerated into Gen_Consts.v and compared, see tools/genconsts) ---- *)
Definition big_threshold : nat := N.to_nat Gen_Consts.g_bigThreshold.   (* prefCnt > 10 *)
Definition max_step : N := Gen_Consts.g_stepLimit.                      (* 16-bit step, unit 4 bits *)

(* ---- the tree ---- *)
Inductive tree :=
| Leaf (id : nat) (ord : nat) (tail : option (list byte)) (eidx : nat)
| Inner (id : nat) (big : bool) (step : nat) (pfx : option (list nat))
        (fc : nat) (ch : list (nat * tree)).

Definition tree_id (t : tree) : nat :=
  match t with Leaf id _ _ _ => id | Inner id _ _ _ _ _ => id end.

Record trie := {
  t_root : option tree;            (* None: NodeTypeBM == nil (empty) *)
  t_innerpfx : bool;               (* InnerPrefixes.PositionBM != nil *)
  t_leafpfx : bool;                (* LeafPrefixes != nil *)
  t_leaves : option (list (list byte))  (* Leaves (BFS leaf order); None: nil *)
}.

(* ---- construction ---- *)
Record ent := { e_key : key; e_nibs : list nat; e_keep : bool; e_idx : nat }.
Record subset := { s_ents : list ent; s_from : nat }.

Fixpoint neq_adj (vs : list (list byte)) : list bool :=
  match vs with
  | a :: r => match r with
              | b :: _ => negb (bytes_eqb a b) :: neq_adj r
              | [] => []
              end
  | [] => []
  end.

(* newToKeep *)
Definition to_keep (o : opts) (n : nat) (vals : option (list (list byte))) : list bool :=
  match vals with
  | Some vs => if o_dedup o then true :: neq_adj vs else repeat true n
  | None => repeat true n
  end.

Fixpoint mk_ents (i : nat) (keys : list key) (keep : list bool) : list ent :=
  match keys with
  | [] => []
  | k :: r =>
      let b := match keep with b :: _ => b | [] => true end in
      {| e_key := k; e_nibs := nibs k; e_keep := b; e_idx := i |} :: mk_ents (S i) r (tl keep)
  end.

Inductive desc :=
| DLeaf (tail : option (list byte)) (eidx : nat)
| DInner (big : bool) (step : nat) (pfx : option (list nat)) (labels : list nat) (kids : list subset).

Definition leaf_tail (o : opts) (e : ent) (from : nat) : option (list byte) :=
  if o_leaf o then
    match skipn (from / 2) (e_key e) with
    | [] => None
    | t => Some t
    end
  else None.

Definition ent_label (big : bool) (w : nat) (e : ent) : nat := label_at big (e_nibs e) w.

(* child subset scan of newSlim: for every label, skip to the first key with
   that label, take the run of keys with that label *)
Fixpoint split_kids (big : bool) (w : nat) (labels : list nat) (es : list ent) : list subset :=
  match labels with
  | [] => []
  | lb :: r =>
      let same := fun e => Nat.eqb (ent_label big w e) lb in
      let es1 := drop_while (fun e => negb (same e)) es in
      match es1 with
      | [] => {| s_ents := []; s_from := w + label_width big lb |} :: split_kids big w r []
      | e :: rest =>
          {| s_ents := e :: take_while same rest; s_from := w + label_width big lb |}
            :: split_kids big w r (drop_while same rest)
      end
  end.

Definition process_subset (o : opts) (isbig : bool) (s : subset) : res (desc * bool) :=
  match s_ents s with
  | [] => Err (EPanic 1)
  | [e] => Ok (DLeaf (leaf_tail o e (s_from s)) (e_idx e), isbig)
  | e0 :: _ =>
      let diffs := adj_lcps (map e_nibs (s_ents s)) in
      let ws := list_min (hd 0 diffs) diffs in
      let wb := even_down ws in
      let prefcnt := 1 + length (filter (fun d => d <? wb + 2) diffs) in
      let big := isbig && (big_threshold <? prefcnt) in
      let w := if big then wb else ws in
      if w <? s_from s then Err (EPanic 2) else
      let labels := dedup_adj (map (ent_label big w) (filter e_keep (s_ents s))) in
      let plen := w - s_from s in
      if negb (o_inner o) && (max_step <? N.of_nat plen)%N then Err EStepTooLong else
      let pfx := if o_inner o && (0 <? plen)
                 then let f := even_down (s_from s) in Some (firstn (w - f) (skipn f (e_nibs e0)))
                 else None in
      let step := if o_inner o then 0 else plen in
      Ok (DInner big step pfx labels (split_kids big w labels (s_ents s)), big)
  end.

Fixpoint process_level (o : opts) (isbig : bool) (ss : list subset) : res (list desc * bool) :=
  match ss with
  | [] => Ok ([], isbig)
  | s :: r =>
      do (d, b) <- process_subset o isbig s;
      do (ds, b') <- process_level o b r;
      Ok (d :: ds, b')
  end.

Definition kids_of (d : desc) : list subset :=
  match d with DLeaf _ _ => [] | DInner _ _ _ _ kids => kids end.

Definition leaf_idx_of (d : desc) : list nat :=
  match d with DLeaf _ i => [i] | DInner _ _ _ _ _ => [] end.

Fixpoint assemble (ds : list desc) (id cid lord : nat) (forest : list tree) : list tree :=
  match ds with
  | [] => []
  | DLeaf tail eidx :: r => Leaf id lord tail eidx :: assemble r (S id) cid (S lord) forest
  | DInner big step pfx labels kids :: r =>
      let n := length kids in
      Inner id big step pfx cid (combine labels (firstn n forest))
        :: assemble r (S id) (cid + n) lord (skipn n forest)
  end.

(* returns the forest of [ss] and the key indexes of all leaves below, BFS leaf order *)
Fixpoint build_levels (fuel : nat) (o : opts) (isbig : bool) (base lbase : nat)
         (ss : list subset) : res (list tree * list nat) :=
  match ss with
  | [] => Ok ([], [])
  | _ =>
      match fuel with
      | 0 => Err EFuel
      | S f =>
          do (ds, b) <- process_level o isbig ss;
          let lidx := flat_map leaf_idx_of ds in
          let cbase := base + length ss in
          do (forest, lidx') <- build_levels f o b cbase (lbase + length lidx) (flat_map kids_of ds);
          Ok (assemble ds base cbase lbase forest, lidx ++ lidx')
      end
  end.

Definition total_size (l : list (list byte)) : nat := sum_list (map (@length byte) l).

(* buildLeaves + newVLenArray's "nil if nothing to store" *)
Definition select_leaves (vals : option (list (list byte))) (lidx : list nat) : option (list (list byte)) :=
  match vals with
  | None => None
  | Some vs =>
      let elts := map (fun i => nth i vs []) lidx in
      if total_size elts =? 0 then None else Some elts
  end.

Definition max_nibs (keys : list key) : nat := fold_left (fun m k => Nat.max m (2 * length k)) keys 0.

Definition empty_trie : trie :=
  {| t_root := None; t_innerpfx := false; t_leafpfx := false; t_leaves := None |}.

(* newSlim + NewSlimTrie, values already encoded.  [big0] is the initial value of
   the creator's isBig flag: true in newSlim; the conversion of the three-array
   legacy layouts (before000510ToNewChildrenArray) runs the same creator with
   isBig = false, i.e. it never makes 257-bit nodes. *)
Definition build_gen (big0 : bool) (o : opts) (keys : list key) (vals : option (list (list byte))) : res trie :=
  match keys with
  | [] => Ok empty_trie
  | _ =>
      match check_order keys with
      | Some i => Err (EOutOfOrder i)
      | None =>
          let ents := mk_ents 0 keys (to_keep o (length keys) vals) in
          do (forest, lidx) <- build_levels (max_nibs keys + 3) o big0 0 0
                                 [{| s_ents := ents; s_from := 0 |}];
          match forest with
          | [r] => Ok {| t_root := Some r; t_innerpfx := o_inner o; t_leafpfx := o_leaf o;
                         t_leaves := select_leaves vals lidx |}
          | _ => Err (EPanic 3)
          end
      end
  end.

Definition build : opts -> list key -> option (list (list byte)) -> res trie := build_gen true.

(* ---- point queries (trie/slimtrie_query.go) ---- *)

(* the part of the loop of GetID before the label lookup *)
Definition advance (qn : list nat) (l i step : nat) (pfx : option (list nat)) : option nat :=
  match pfx with
  | Some p =>
      match cmp_upto (skipn (even_down i) qn) p with
      | Eq => let i1 := even_down i + length p in if l <? i1 then None else Some i1
      | _ => None
      end
  | None => let i1 := i + step in if l <? i1 then None else Some i1
  end.

(* GetID's loop.  Result: the node the loop stopped at, the position, and
   whether getNode was called on that node (false for the "i == l" break,
   where the session keeps its initial hasLeafPrefix = false). *)
Fixpoint descend (qn : list nat) (l : nat) (t : tree) (i : nat) {struct t} : option (tree * nat * bool) :=
  match t with
  | Leaf _ _ _ _ => Some (t, i, true)
  | Inner _ big step pfx _ ch =>
      match advance qn l i step pfx with
      | None => None
      | Some i1 =>
          let lb := label_at big qn i1 in
          (fix go (ch : list (nat * tree)) : option (tree * nat * bool) :=
             match ch with
             | [] => None
             | (x, c) :: r =>
                 if Nat.eqb x lb then
                   if Nat.eqb i1 l then Some (c, i1, false) else descend qn l c (i1 + wsize big)
                 else go r
             end) ch
      end
  end.

Definition sess_tail (c : tree) (visited : bool) : option (list byte) :=
  if visited then match c with Leaf _ _ tail _ => tail | Inner _ _ _ _ _ _ => None end else None.

(* GetID: the node reached, None for -1 *)
Definition getid_node (T : trie) (q : key) : option tree :=
  match t_root T with
  | None => None
  | Some r =>
      let qn := nibs q in
      let l := length qn in
      match descend qn l r 0 with
      | None => None
      | Some (c, i, visited) =>
          if t_leafpfx T then
            match sess_tail c visited with
            | None => if Nat.eqb i l then Some c else None
            | Some tail =>
                if Nat.eqb i l then None
                else if bytes_eqb tail (skipn (i / 2) q) then Some c else None
            end
          else Some c
      end
  end.

Definition getid (T : trie) (q : key) : option nat := option_map tree_id (getid_node T q).

Inductive found := NotFound | Found (v : option (list byte)).

(* getLeaf + getIthLeaf: the stored bytes of the value; None = nil interface *)
Definition leaf_value (T : trie) (c : tree) : res (option (list byte)) :=
  match c with
  | Inner _ _ _ _ _ _ => Err (EPanic 10)          (* panic("impossible!!") *)
  | Leaf _ ord _ _ =>
      match t_leaves T with
      | None => Ok None
      | Some ls => match nth_error ls ord with
                   | Some v => Ok (Some v)
                   | None => Err (EPanic 11)      (* VLenArray.get: out of bound *)
                   end
      end
  end.

Definition get (T : trie) (q : key) : res found :=
  match getid_node T q with
  | None => Ok NotFound
  | Some c => do v <- leaf_value T c; Ok (Found v)
  end.

Definition or_else {A} (a b : option A) : option A := match a with Some _ => a | None => b end.

Inductive adv3 := AEq (i1 : nat) | ALt | AGt.

Definition advance3 (qn : list nat) (l i step : nat) (pfx : option (list nat)) : adv3 :=
  match pfx with
  | Some p =>
      match cmp_upto (skipn (even_down i) qn) p with
      | Eq => AEq (even_down i + length p)
      | Lt => ALt
      | Gt => AGt
      end
  | None => let i1 := i + step in if l <? i1 then ALt else AEq i1
  end.

(* searchID's loop: left candidate, eq (node, position, visited), right candidate *)
Fixpoint search_down (qn : list nat) (l : nat) (t : tree) (i : nat) (lc rc : option tree) {struct t}
  : option tree * option (tree * nat * bool) * option tree :=
  match t with
  | Leaf _ _ _ _ => (lc, Some (t, i, true), rc)
  | Inner _ big step pfx _ ch =>
      match advance3 qn l i step pfx with
      | ALt => (lc, None, Some t)
      | AGt => (Some t, None, rc)
      | AEq i1 =>
          let lb := label_at big qn i1 in
          (fix go (ch : list (nat * tree)) (prev : option tree) :=
             match ch with
             | [] => (or_else prev lc, None, rc)
             | (x, c) :: rest =>
                 if x <? lb then go rest (Some c)
                 else if Nat.eqb x lb then
                   let lc' := or_else prev lc in
                   let rc' := match rest with (_, c') :: _ => Some c' | [] => rc end in
                   if Nat.eqb i1 l then (lc', Some (c, i1, false), rc')
                   else search_down qn l c (i1 + wsize big) lc' rc'
                 else (or_else prev lc, None, Some c)
             end) ch None
      end
  end.

Fixpoint leftmost (t : tree) : tree :=
  match t with
  | Leaf _ _ _ _ => t
  | Inner _ _ _ _ _ ch => match ch with (_, c) :: _ => leftmost c | [] => t end
  end.

Fixpoint rightmost (t : tree) : tree :=
  match t with
  | Leaf _ _ _ _ => t
  | Inner _ _ _ _ _ ch =>
      (fix go (ch : list (nat * tree)) : tree :=
         match ch with
         | [] => t
         | (_, c) :: r => match r with [] => rightmost c | _ :: _ => go r end
         end) ch
  end.

(* searchID *)
Definition searchid (T : trie) (q : key) : option tree * option tree * option tree :=
  match t_root T with
  | None => (None, None, None)
  | Some r =>
      let qn := nibs q in
      let l := length qn in
      let '(lc, eq, rc) := search_down qn l r 0 None None in
      let '(lc, eqn, rc) :=
        match eq with
        | None => (lc, None, rc)
        | Some (c, i, visited) =>
            if i <=? l then
              let cmp := if t_leafpfx T
                         then bytes_cmp (skipn (i / 2) q)
                                        (match sess_tail c visited with Some t => t | None => [] end)
                         else Eq in
              match cmp with
              | Lt => (lc, None, Some c)
              | Gt => (Some c, None, rc)
              | Eq => (lc, Some c, rc)
              end
            else (lc, Some c, rc)
        end in
      (option_map rightmost lc, eqn, option_map leftmost rc)
  end.

Definition opt_leaf_value (T : trie) (c : option tree) : res (option (option (list byte))) :=
  match c with
  | None => Ok None
  | Some c => do v <- leaf_value T c; Ok (Some v)
  end.

(* Search: three values; the outer option is "id != -1" *)
Definition search (T : trie) (q : key) :=
  let '(l, e, r) := searchid T q in
  do lv <- opt_leaf_value T l;
  do ev <- opt_leaf_value T e;
  do rv <- opt_leaf_value T r;
  Ok (lv, ev, rv).

Definition rangeget (T : trie) (q : key) : res found :=
  let '(l, e, _) := searchid T q in
  match e with
  | Some c => do v <- leaf_value T c; Ok (Found v)
  | None =>
      match l with
      | None => Ok NotFound
      | Some c => do v <- leaf_value T c; Ok (Found v)
      end
  end.

(* ---- node view, for the correspondence with the hook dump ---- *)
Inductive nview :=
| VLeaf (id ord : nat) (tail : option (list byte))
| VInner (id : nat) (big : bool) (step : nat) (pfx : option (list nat)) (fc : nat) (labels : list nat).

Fixpoint node_views (t : tree) : list nview :=
  match t with
  | Leaf id ord tail _ => [VLeaf id ord tail]
  | Inner id big step pfx fc ch =>
      VInner id big step pfx fc (map fst ch)
        :: (fix go (ch : list (nat * tree)) : list nview :=
              match ch with [] => [] | (_, c) :: r => node_views c ++ go r end) ch
  end.
