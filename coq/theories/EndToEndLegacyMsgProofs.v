(* EndToEndLegacyMsgProofs.v - MsgProofs.v for a trie built with ANY initial isBig flag
   (Model.build_gen b0): GetID / Get / searchID / Search / RangeGet computed the way the Go
   code computes them over the bit-level message (Msg.v) return what the tree model returns.
   Model.build is build_gen true (creator of NewSlimTrie); the loader of the three-array
   legacy layouts runs the same creator with isBig = false (Model.build_gen false), which is
   why C06 needs this form.

   The generic facts this needs beyond MsgProofs.v (which states them for Model.build):
     wf_from_bigok          a flat node list that is well formed when NO big node is allowed
                            is well formed when big nodes are allowed
     built_trie_wf_g        BitsFlatProofs.built_trie_wf for build_gen b0
     built_bfs_g / built_ids_nodup_g / built_ids_ok_g
                            StatProofs.built_bfs, built_ids_nodup, FlatProofs.built_ids_ok
   The rest of the file is the text of MsgProofs.v with [build] replaced by [build_gen b0]
   (every proof there goes through BuildProofs.Built, which build_gen_ok provides for both
   flags); the lemmas that do not mention the builder are taken from MsgProofs.v itself. *)
From Slim Require Import Base Keys KeysProofs ListFacts Model TrieInv BuildProofs QueryProofs ConsistProofs SearchProofs
  Stat StatProofs GetIntProofs Flat FlatProofs BitmapRank BitmapRank2 Bits BitsWfProofs BitsFlatProofs Msg MsgProofs.
From Coq Require Import Sorting.Sorted Sorting.Permutation ZifyNat ZifyN ZifyBool.

(* ---------- well-formedness of the flat list does not depend on the initial flag ---------- *)
Lemma wf_from_bigok : forall ipfx lpfx nodes pos nlab nleaf,
  wf_from ipfx lpfx nodes pos nlab nleaf false = true -> wf_from ipfx lpfx nodes pos nlab nleaf true = true.
Proof.
  intros ipfx lpfx nodes. induction nodes as [|v nodes IH]; intros pos nlab nleaf H; [reflexivity|].
  destruct v as [id ord tail|id big step pfx fc labels]; cbn [wf_from] in *.
  - apply andb_true_iff in H. destruct H as [H1 H2]. rewrite H1. cbn [andb]. apply IH. exact H2.
  - destruct big.
    + exfalso. cbn [implb] in H. rewrite andb_false_r in H. cbn [andb] in H. discriminate.
    + cbn [implb andb] in *. rewrite andb_true_r in *. exact H.
Qed.

Theorem built_trie_wf_g : forall b0 o keys vals T, build_gen b0 o keys vals = Ok T -> trie_wf T = true.
Proof.
  intros b0 o keys vals T Hb. destruct keys as [|k0 kr]; [injection Hb as <-; reflexivity|].
  rewrite build_gen_unfold in Hb by discriminate.
  destruct (check_order (k0 :: kr)) as [i|] eqn:Ec; [discriminate|]. cbv zeta in Hb. unfold bind in Hb.
  destruct (build_levels _ o b0 0 0 _) as [[forest lidx]|] eqn:Eb; [|discriminate].
  destruct forest as [|r [|r2 rest]]; try discriminate. injection Hb as <-.
  apply check_order_none in Ec.
  pose proof (root_inv o (k0 :: kr) vals Ec ltac:(discriminate)) as HI. unfold root_subset in HI.
  destruct (build_levels_wf o _ b0 0 0 _ [r] lidx 0 Eb (Forall_cons _ HI (Forall_nil _)) eq_refl) as (W & Hk & Hl & _).
  cbv zeta in W, Hl.
  assert (W' : wf_from (o_inner o) (o_leaf o) (map view_of_tree (bfs_trees (max_nibs (k0 :: kr) + 3) [r])) 0 0 0 true = true).
  { destruct b0; [exact W|apply wf_from_bigok; exact W]. }
  unfold trie_wf, flat_wf. cbn [t_root t_innerpfx t_leafpfx t_leaves]. unfold flat_nodes.
  assert (Hsame : bfs_trees (tree_height r) [r] = bfs_trees (max_nibs (k0 :: kr) + 3) [r]).
  { apply bfs_trees_same; [exact Hk|]. cbn [forest_height fold_right]. lia. }
  rewrite Hsame, W'. cbn [andb]. unfold leaves_ok, select_leaves.
  destruct vals as [vs|]; [|reflexivity].
  destruct (total_size (map (fun i => nth i vs []) lidx) =? 0); [reflexivity|].
  apply Nat.eqb_eq. rewrite map_length. unfold v_leaves in Hl. rewrite Hl. reflexivity.
Qed.

Lemma built_bfs_g b0 o keys vals T :
  build_gen b0 o keys vals = Ok T -> forall r, t_root T = Some r -> exists n, bfs_ok n 0 [r].
Proof.
  intros Hb r Hr. destruct keys as [|k0 kr]; [inversion Hb; subst T; discriminate|].
  rewrite build_gen_unfold in Hb by discriminate.
  destruct (check_order (k0 :: kr)); [discriminate|]. cbv zeta in Hb. unfold bind in Hb.
  destruct (build_levels _ o b0 0 0 _) as [[forest lidx]|] eqn:Eb; [|discriminate].
  destruct forest as [|r0 [|r2 rest]]; try discriminate.
  inversion Hb; subst T. cbn [t_root] in Hr. inversion Hr; subst r0.
  apply build_levels_bfs in Eb. destruct Eb as [HB _]. eexists. exact HB.
Qed.

Theorem built_ids_nodup_g b0 o keys vals T r :
  build_gen b0 o keys vals = Ok T -> t_root T = Some r -> NoDup (map tree_id (subtrees r)).
Proof. intros Hb Hr. destruct (built_bfs_g _ _ _ _ _ Hb r Hr) as (n & H). eapply bfs_ids_nodup; exact H. Qed.

Lemma built_ids_ok_g b0 o keys vals T r : build_gen b0 o keys vals = Ok T -> t_root T = Some r -> IdsOK r.
Proof.
  intros Hb Hr. constructor; [eapply built_ids_nodup_g; eassumption|].
  destruct (built_bfs_g _ _ _ _ _ Hb r Hr) as (n & H).
  pose proof (subtrees_forest_bfs _ _ _ H) as P. cbn [flat_map] in P. rewrite app_nil_r in P.
  pose proof (bfs_child_ids _ _ _ H) as Hc.
  rewrite Forall_forall in *. intros t Ht. apply Hc. eapply Permutation_in; [exact P|exact Ht].
Qed.

(* ---------- every node of the tree sits at its id in the flat node list ---------- *)

Lemma flat_nodes_at_g b0 o keys vals T r t :
  build_gen b0 o keys vals = Ok T -> t_root T = Some r -> In t (subtrees r) ->
  nth_error (flat_nodes r) (tree_id t) = Some (view_of_tree t).
Proof.
  intros Hb Hr Ht.
  pose proof (built_trie_wf_g b0 o keys vals T Hb) as Hwf_g. unfold trie_wf in Hwf_g. rewrite Hr in Hwf_g.
  apply flat_wf_from in Hwf_g.
  assert (In t (bfs_trees (tree_height r) [r])) as Hin.
  { apply (subtrees_in_bfs (tree_height r) [r]) with (f := r); [unfold forest_height; cbn [fold_right]; lia|left; reflexivity|exact Ht]. }
  apply In_nth_error in Hin. destruct Hin as (p & Hp).
  assert (nth_error (flat_nodes r) p = Some (view_of_tree t)) as Hv by (unfold flat_nodes; rewrite nth_error_map, Hp; reflexivity).
  pose proof (wf_from_nth _ _ _ _ _ _ _ _ _ Hwf_g Hv) as Hid.
  assert (tree_id t = p) as <-; [|exact Hv].
  destruct t; cbn [view_of_tree tree_id] in *; destruct Hid as (Hid & _); lia.
Qed.

(* ---------- label rank = number of smaller labels, when the label is present ---------- *)

(* ---------- fields of the encoded message ---------- *)
Ltac open_doo H :=
  repeat match type of H with
  | context [obind ?x _] => let E := fresh "E" in destruct x eqn:E; cbn [obind] in H; [|discriminate H]
  end.


(* number of labels below lb and membership, from the Rank128 answer *)

(* ---------- one built trie and its message ---------- *)
Section OneTrieG.
  Variables (b0 : bool) (o : opts) (keys : list key) (vals : option (list (list byte))) (T : trie) (r : tree).
  Hypothesis Hb : build_gen b0 o keys vals = Ok T.
  Hypothesis Hr : t_root T = Some r.
  Variables (m : msg) (vs : vars).
  Hypothesis Em : encode_trie T = Val m.
  Hypothesis Ev : init_vars m = Val vs.

  Let nodes := flat_nodes r.
  Lemma Hwf_g : flat_wf (t_innerpfx T) (t_leafpfx T) nodes (t_leaves T) = true.
  Proof. pose proof (built_trie_wf_g b0 o keys vals T Hb) as H. unfold trie_wf in H. rewrite Hr in H. exact H. Qed.
  Lemma Hem_g : encode_msg nodes (t_innerpfx T) (t_leafpfx T) (t_leaves T) = Val m.
  Proof. unfold encode_trie in Em. rewrite Hr in Em. exact Em. Qed.

  Lemma view_at_g t : In t (subtrees r) -> get_view m vs (N.of_nat (tree_id t)) = Val (view_of_tree t).
  Proof.
    intros Ht. apply (get_view_fw nodes _ _ _ m vs Hwf_g Hem_g Ev). apply (flat_nodes_at_g b0 o keys vals T r t Hb Hr Ht).
  Qed.

  Lemma node_leaf_g id ord tail eidx :
    In (Leaf id ord tail eidx) (subtrees r) ->
    get_node m vs (N.of_nat id) = Val (DnLeaf (N.of_nat ord) tail).
  Proof.
    intros Ht. pose proof (view_at_g _ Ht) as Hv. cbn [tree_id view_of_tree] in Hv.
    unfold get_view in Hv. destruct (get_node m vs (N.of_nat id)) as [d|]; cbn [obind] in Hv; [|discriminate].
    destruct d as [ith tl|ith wsz from to bm plen pfxb].
    - injection Hv as H1 H2 H3. f_equal. f_equal; [lia|exact H3].
    - destruct (node_labels m from to bm); cbn [obind] in Hv; [|discriminate].
      destruct (first_child m from); cbn [obind] in Hv; [|discriminate]. discriminate.
  Qed.

  Definition ids3_g (x : option (tree * nat * bool)) : option (nat * nat * bool) := ids_of x.

  Lemma mdescend_fdescend_g qn : Forall (fun x => x < 16) qn ->
    forall fuel t i, In t (subtrees r) ->
    mdescend fuel m vs qn (length qn) (tree_id t) i = fdescend fuel r qn (length qn) (tree_id t) i.
  Proof.
    intros Hq. pose proof (built_ids_ok_g b0 o keys vals T r Hb Hr) as I.
    induction fuel as [|f IH]; intros t i Ht; [reflexivity|].
    cbn [mdescend fdescend]. rewrite (node_at_self r t I Ht), (view_at_g t Ht).
    destruct t as [id ord tail eidx|id big step pfx fc ch].
    - cbn [tree_id view_of_tree]. rewrite (node_leaf_g id ord tail eidx Ht). reflexivity.
    - cbn [tree_id view_of_tree].
      pose proof (flat_nodes_at_g b0 o keys vals T r _ Hb Hr Ht) as Hn. cbn [tree_id view_of_tree] in Hn.
      destruct (children_fw nodes _ _ _ m vs Hwf_g Hem_g Ev _ _ _ _ _ _ _ Hn) as (ith & wsz & from & to & bm & plen & pfxb & Hgn & _ & _ & Hlc).
      rewrite Hgn.
      destruct (advance qn (length qn) i step pfx) as [i1|]; [|reflexivity].
      set (lb := label_at big qn i1).
      assert (N.of_nat lb < (if big then 257 else 17))%N as Hlb.
      { pose proof (label_at_bound big qn i1 Hq) as H. fold lb in H. destruct big; lia. }
      rewrite (Hlc (N.of_nat lb) Hlb).
      (* labels are ascending: from the well-formedness of the node *)
      pose proof (wf_from_nth _ _ _ _ _ _ _ _ _ (flat_wf_from _ _ _ _ Hwf_g) Hn) as Hnode. cbn beta iota in Hnode.
      destruct Hnode as (_ & Hfc & Hlok & _).
      assert (StronglySorted lt (map fst ch)) as Hsorted.
      { unfold labels_ok in Hlok. apply andb_true_iff in Hlok. destruct Hlok as [Hl1 _]. apply andb_true_iff in Hl1. destruct Hl1 as [_ Hasc].
        apply ascending_nat_sorted. exact Hasc. }
      rewrite (label_rank_count lb (map fst ch) Hsorted).
      destruct (existsb (N.eqb (N.of_nat lb)) (map N.of_nat (map fst ch))) eqn:Ee; cbn [N.b2n N.eqb]; [|reflexivity].
      set (j := count_lt (map N.of_nat (map fst ch)) (N.of_nat lb)).
      assert (N.to_nat (N.of_nat (fc - 1 + j)) + 1 = fc + j) as Hchild by lia.
      rewrite Hchild.
      destruct (Nat.eqb i1 (length qn)); [reflexivity|].
      (* the child is a node of the tree with that id *)
      assert (exists x c, nth_error ch j = Some (x, c)) as (x & c & Hc).
      { assert (j < length ch) as Hj.
        { pose proof (label_rank_count lb (map fst ch) Hsorted) as Hrk. rewrite Ee in Hrk. fold j in Hrk.
          apply label_rank_bound in Hrk. rewrite map_length in Hrk. exact Hrk. }
        destruct (nth_error ch j) as [[x c]|] eqn:E; [eauto|apply nth_error_None in E; lia]. }
      assert (In (x, c) ch) as Hin by (eapply nth_error_In; exact Hc).
      rewrite <- (child_id r _ _ _ _ _ _ _ _ _ I Ht Hc).
      apply IH. eapply subtrees_trans; [exact Ht|eapply subtree_child; exact Hin].
  Qed.
  (* an inner node of the tree as the message shows it *)
  Lemma node_inner_g id big step pfx fc ch :
    In (Inner id big step pfx fc ch) (subtrees r) ->
    exists ith wsz from to bm plen pfxb,
      get_node m vs (N.of_nat id) = Val (DnInner ith wsz from to bm plen pfxb) /\
      first_child m from = Val (N.of_nat fc) /\
      last_child m to = Val (N.of_nat (fc + length ch - 1)) /\
      (forall k, (k < (if big then 257 else 17))%N ->
         left_child m from to bm k =
         Val (N.of_nat (fc - 1 + count_lt (map N.of_nat (map fst ch)) k),
              N.b2n (existsb (N.eqb k) (map N.of_nat (map fst ch))))) /\
      1 <= fc /\ ch <> [] /\ StronglySorted lt (map fst ch).
  Proof.
    intros Ht.
    pose proof (flat_nodes_at_g b0 o keys vals T r _ Hb Hr Ht) as Hn. cbn [tree_id view_of_tree] in Hn.
    destruct (children_fw nodes _ _ _ m vs Hwf_g Hem_g Ev _ _ _ _ _ _ _ Hn) as (ith & wsz & from & to & bm & plen & pfxb & Hgn & Hfst & Hlst & Hlc).
    exists ith, wsz, from, to, bm, plen, pfxb. rewrite map_length in Hlst.
    split; [exact Hgn|]. split; [exact Hfst|]. split; [exact Hlst|]. split; [exact Hlc|].
    pose proof (wf_from_nth _ _ _ _ _ _ _ _ _ (flat_wf_from _ _ _ _ Hwf_g) Hn) as Hnode. cbn beta iota in Hnode.
    destruct Hnode as (_ & Hfc & Hlok & _).
    unfold labels_ok in Hlok. apply andb_true_iff in Hlok. destruct Hlok as [Hl1 _]. apply andb_true_iff in Hl1. destruct Hl1 as [Hne Hasc].
    split; [lia|]. split; [destruct ch; [discriminate Hne|discriminate]|]. apply ascending_nat_sorted. exact Hasc.
  Qed.

  Lemma mleftmost_f_g : forall fuel t, In t (subtrees r) ->
    mleftmost fuel m vs (tree_id t) = fleftmost fuel r (tree_id t).
  Proof.
    pose proof (built_ids_ok_g b0 o keys vals T r Hb Hr) as I.
    induction fuel as [|f IH]; intros t Ht; [reflexivity|].
    cbn [mleftmost fleftmost]. rewrite (node_at_self r t I Ht).
    destruct t as [id ord tail eidx|id big step pfx fc ch]; cbn [tree_id].
    - rewrite (node_leaf_g id ord tail eidx Ht). reflexivity.
    - destruct (node_inner_g _ _ _ _ _ _ Ht) as (ith & wsz & from & to & bm & plen & pfxb & Hgn & Hfst & _ & _ & _ & Hne & _).
      rewrite Hgn, Hfst. rewrite Nat2N.id.
      destruct ch as [|[x c] rest]; [congruence|].
      assert (nth_error ((x, c) :: rest) 0 = Some (x, c)) as En by reflexivity.
      pose proof (child_id r _ _ _ _ _ _ _ _ _ I Ht En) as Hcid. rewrite Nat.add_0_r in Hcid. rewrite <- Hcid.
      apply IH. eapply subtrees_trans; [exact Ht|eapply subtree_child; left; reflexivity].
  Qed.

  Lemma mrightmost_f_g : forall fuel t, In t (subtrees r) ->
    mrightmost fuel m vs (tree_id t) = frightmost fuel r (tree_id t).
  Proof.
    pose proof (built_ids_ok_g b0 o keys vals T r Hb Hr) as I.
    induction fuel as [|f IH]; intros t Ht; [reflexivity|].
    cbn [mrightmost frightmost]. rewrite (node_at_self r t I Ht).
    destruct t as [id ord tail eidx|id big step pfx fc ch]; cbn [tree_id].
    - rewrite (node_leaf_g id ord tail eidx Ht). reflexivity.
    - destruct (node_inner_g _ _ _ _ _ _ Ht) as (ith & wsz & from & to & bm & plen & pfxb & Hgn & _ & Hlst & _ & _ & Hne & _).
      rewrite Hgn, Hlst. rewrite Nat2N.id.
      destruct (exists_last Hne) as (ch' & [x c] & Ech).
      assert (nth_error ch (length ch') = Some (x, c)) as En
        by (rewrite Ech, nth_error_app2, Nat.sub_diag by lia; reflexivity).
      pose proof (child_id r _ _ _ _ _ _ _ _ _ I Ht En) as Hcid.
      assert (length ch = length ch' + 1) as Hlen by (rewrite Ech, app_length; reflexivity).
      replace (fc + length ch - 1) with (fc + length ch') by lia. rewrite <- Hcid.
      apply IH. eapply subtrees_trans; [exact Ht|eapply subtree_child; eapply nth_error_In; exact En].
  Qed.

  Lemma msearch_down_f_g qn : Forall (fun x => x < 16) qn ->
    forall fuel t i lc rc, In t (subtrees r) ->
    msearch_down fuel m vs qn (length qn) (tree_id t) i lc rc = fsearch_down fuel r qn (length qn) (tree_id t) i lc rc.
  Proof.
    intros Hq. pose proof (built_ids_ok_g b0 o keys vals T r Hb Hr) as I.
    induction fuel as [|f IH]; intros t i lc rc Ht; [reflexivity|].
    cbn [msearch_down fsearch_down]. rewrite (node_at_self r t I Ht), (view_at_g t Ht).
    destruct t as [id ord tail eidx|id big step pfx fc ch].
    - cbn [tree_id view_of_tree]. rewrite (node_leaf_g id ord tail eidx Ht). reflexivity.
    - cbn [tree_id view_of_tree].
      destruct (node_inner_g _ _ _ _ _ _ Ht) as (ith & wsz & from & to & bm & plen & pfxb & Hgn & Hfst & Hlst & Hlc & Hfc & Hne & Hsorted).
      rewrite Hgn.
      destruct (advance3 qn (length qn) i step pfx) as [i1| |]; try reflexivity.
      set (lb := label_at big qn i1).
      assert (N.of_nat lb < (if big then 257 else 17))%N as Hlb.
      { pose proof (label_at_bound big qn i1 Hq) as H. fold lb in H. destruct big; lia. }
      rewrite (Hlc (N.of_nat lb) Hlb), Hfst, Hlst.
      rewrite (label_rank_lt_count lb (map fst ch) Hsorted).
      pose proof (label_rank_lt_le lb (map fst ch)) as Hnle.
      pose proof (label_rank_lt_has lb (map fst ch)) as Hnhas.
      rewrite (label_rank_lt_count lb (map fst ch) Hsorted) in Hnle, Hnhas. cbn [fst] in Hnle. rewrite map_length in Hnle, Hnhas.
      set (n := count_lt (map N.of_nat (map fst ch)) (N.of_nat lb)) in *.
      set (has := existsb (N.eqb (N.of_nat lb)) (map N.of_nat (map fst ch))) in *.
      cbv zeta.
      assert (HL : (if ((N.of_nat fc <=? N.of_nat (fc - 1 + n))%N && (N.of_nat (fc - 1 + n) <=? N.of_nat (fc + length ch - 1))%N)%bool
                    then Some (N.to_nat (N.of_nat (fc - 1 + n))) else lc) =
                   (if 0 <? n then Some (fc + n - 1) else lc)).
      { destruct (Nat.ltb_spec 0 n).
        - assert ((N.of_nat fc <=? N.of_nat (fc - 1 + n))%N = true) as -> by (apply N.leb_le; lia).
          assert ((N.of_nat (fc - 1 + n) <=? N.of_nat (fc + length ch - 1))%N = true) as -> by (apply N.leb_le; lia).
          cbn [andb]. f_equal. lia.
        - assert ((N.of_nat fc <=? N.of_nat (fc - 1 + n))%N = false) as -> by (apply N.leb_gt; lia). reflexivity. }
      rewrite HL. clear HL.
      destruct has eqn:Ehas; cbn [N.b2n N.eqb].
      + specialize (Hnhas n eq_refl).
        assert (HR : (if ((N.of_nat fc <=? N.of_nat (fc - 1 + n) + 1 + 1)%N && (N.of_nat (fc - 1 + n) + 1 + 1 <=? N.of_nat (fc + length ch - 1))%N)%bool
                      then Some (N.to_nat (N.of_nat (fc - 1 + n) + 1 + 1)) else rc) =
                     (if fc + n + 1 <? fc + length ch then Some (fc + n + 1) else rc)).
        { destruct (Nat.ltb_spec (fc + n + 1) (fc + length ch)).
          - assert ((N.of_nat fc <=? N.of_nat (fc - 1 + n) + 1 + 1)%N = true) as -> by (apply N.leb_le; lia).
            assert ((N.of_nat (fc - 1 + n) + 1 + 1 <=? N.of_nat (fc + length ch - 1))%N = true) as -> by (apply N.leb_le; lia).
            cbn [andb]. f_equal. lia.
          - assert ((N.of_nat (fc - 1 + n) + 1 + 1 <=? N.of_nat (fc + length ch - 1))%N = false) as -> by (apply N.leb_gt; lia).
            rewrite andb_false_r. reflexivity. }
        rewrite HR. clear HR.
        assert (N.to_nat (N.of_nat (fc - 1 + n) + 1) = fc + n) as -> by lia.
        destruct (Nat.eqb i1 (length qn)); [reflexivity|].
        destruct (nth_error ch n) as [[x c]|] eqn:En; [|apply nth_error_None in En; lia].
        rewrite <- (child_id r _ _ _ _ _ _ _ _ _ I Ht En).
        apply IH. eapply subtrees_trans; [exact Ht|eapply subtree_child; eapply nth_error_In; exact En].
      + assert (HR : (if ((N.of_nat fc <=? N.of_nat (fc - 1 + n) + 0 + 1)%N && (N.of_nat (fc - 1 + n) + 0 + 1 <=? N.of_nat (fc + length ch - 1))%N)%bool
                      then Some (N.to_nat (N.of_nat (fc - 1 + n) + 0 + 1)) else rc) =
                     (if fc + n <? fc + length ch then Some (fc + n) else rc)).
        { destruct (Nat.ltb_spec (fc + n) (fc + length ch)).
          - assert ((N.of_nat fc <=? N.of_nat (fc - 1 + n) + 0 + 1)%N = true) as -> by (apply N.leb_le; lia).
            assert ((N.of_nat (fc - 1 + n) + 0 + 1 <=? N.of_nat (fc + length ch - 1))%N = true) as -> by (apply N.leb_le; lia).
            cbn [andb]. f_equal. lia.
          - assert ((N.of_nat (fc - 1 + n) + 0 + 1 <=? N.of_nat (fc + length ch - 1))%N = false) as -> by (apply N.leb_gt; lia).
            rewrite andb_false_r. reflexivity. }
        rewrite HR. reflexivity.
  Qed.
  Lemma msess_tail_ok_g c v : In c (subtrees r) -> msess_tail m vs (tree_id c) v = Ok (sess_tail c v).
  Proof.
    intros Hsub. unfold msess_tail, sess_tail. destruct v; [|reflexivity].
    destruct c as [id ord tail eidx|id big step pfx fc ch]; cbn [tree_id].
    - rewrite (node_leaf_g id ord tail eidx Hsub). reflexivity.
    - destruct (node_inner_g _ _ _ _ _ _ Hsub) as (ith & wsz & from & to & bm & plen & pfxb & Hgn & _).
      rewrite Hgn. reflexivity.
  Qed.
End OneTrieG.

(* ---------- GetID and Get from the message = GetID and Get on the tree ---------- *)

Lemma root_id0_g b0 o keys vals T r : build_gen b0 o keys vals = Ok T -> t_root T = Some r -> tree_id r = 0.
Proof.
  intros Hb Hr. destruct (built_bfs_g _ _ _ _ _ Hb r Hr) as (n & H). destruct n as [|n]; [cbn in H; discriminate|].
  destruct H as (H1 & _). cbn in H1. inversion H1. reflexivity.
Qed.


Theorem mgetid_getid_g b0 o keys vals T m vs q fuel :
  build_gen b0 o keys vals = Ok T -> encode_trie T = Val m -> init_vars m = Val vs ->
  trie_height T <= fuel ->
  mgetid (S fuel) m vs q = Ok (getid T q).
Proof.
  intros Hb Em Ev Hf. unfold trie_height in Hf.
  destruct (t_root T) as [r|] eqn:Hr.
  2:{ unfold encode_trie in Em. rewrite Hr in Em. injection Em as <-. unfold mgetid, getid, getid_node. rewrite Hr. reflexivity. }
  pose proof (Hem_g T r Hr m Em) as Hm.
  destruct (encode_msg_fields _ _ _ _ _ Hm) as (Hnt & Hlp). specialize (Hnt (flat_nodes_ne r)).
  pose proof (built_ids_ok_g b0 o keys vals T r Hb Hr) as I.
  pose proof (root_id0_g b0 o keys vals T r Hb Hr) as Hid0.
  unfold mgetid. destruct (m_nodetype m) as [nt|]; [|congruence]. cbv zeta.
  pose proof (mdescend_fdescend_g b0 o keys vals T r Hb Hr m vs Em Ev (nibs q) (nibs_lt q) (S fuel) r 0 (subtrees_self r)) as Hmd.
  rewrite Hid0 in Hmd. rewrite Hmd.
  pose proof (fdescend_sim r (nibs q) (length (nibs q)) I r (subtrees_self r) (S fuel) 0 ltac:(lia)) as Hs.
  rewrite Hid0 in Hs. rewrite Hs. unfold bind.
  unfold getid, getid_node. rewrite Hr. cbv zeta.
  destruct (descend (nibs q) (length (nibs q)) r 0) as [[[c i] v]|] eqn:Ed; cbn [ids_of]; [|reflexivity].
  pose proof (descend_subtree _ _ _ _ _ _ _ Ed) as Hsub.
  destruct (t_leafpfx T) eqn:Elp.
  - destruct (m_leafpfx m) as [lp|] eqn:Emlp; [|destruct Hlp as [Hlp _]; discriminate (Hlp eq_refl)].
    assert (msess_tail m vs (tree_id c) v = Ok (sess_tail c v)) as Ht.
    { unfold msess_tail, sess_tail. destruct v; [|reflexivity].
      destruct c as [id ord tail eidx|id big step pfx fc ch]; cbn [tree_id].
      - rewrite (node_leaf_g b0 o keys vals T r Hb Hr m vs Em Ev id ord tail eidx Hsub). reflexivity.
      - pose proof (flat_nodes_at_g b0 o keys vals T r _ Hb Hr Hsub) as Hn. cbn [tree_id view_of_tree] in Hn.
        destruct (children_fw (flat_nodes r) _ _ _ m vs (Hwf_g b0 o keys vals T r Hb Hr) (Hem_g T r Hr m Em) Ev _ _ _ _ _ _ _ Hn) as (ith & wsz & from & to & bm & plen & pfxb & Hgn & _).
        rewrite Hgn. reflexivity. }
    rewrite Ht. unfold bind.
    destruct (sess_tail c v) as [tail|].
    + destruct (Nat.eqb i (length (nibs q))); [reflexivity|]. destruct (bytes_eqb tail (skipn (i / 2) q)); reflexivity.
    + destruct (Nat.eqb i (length (nibs q))); reflexivity.
  - destruct (m_leafpfx m) as [lp|] eqn:Emlp; [|reflexivity].
    destruct Hlp as [_ Hlp]. discriminate (Hlp eq_refl).
Qed.

Theorem mget_get_g b0 o keys vals T m vs q fuel :
  build_gen b0 o keys vals = Ok T -> encode_trie T = Val m -> init_vars m = Val vs ->
  trie_height T <= fuel ->
  mget (S fuel) m vs q = get T q.
Proof.
  intros Hb Em Ev Hf. unfold mget. rewrite (mgetid_getid_g b0 o keys vals T m vs q fuel Hb Em Ev Hf). unfold bind.
  unfold getid, get. destruct (getid_node T q) as [c|] eqn:Eg; cbn [option_map]; [|reflexivity].
  destruct (build_gen_ok b0 o keys vals T Hb) as [[_ ->]|(r & lidx & B)]; [unfold getid_node in Eg; cbn in Eg; discriminate|].
  pose proof (bt_root _ _ _ _ _ _ B) as Hr.
  destruct (getid_node_leaf o keys vals T r lidx q c B Eg) as (Hsub & Hleaf).
  destruct c as [id ord tail eidx|]; [|discriminate]. cbn [tree_id leaf_value].
  rewrite (node_leaf_g b0 o keys vals T r Hb Hr m vs Em Ev id ord tail eidx Hsub).
  pose proof (Hem_g T r Hr m Em) as Hm. pose proof (Hwf_g b0 o keys vals T r Hb Hr) as W.
  pose proof (leaves_fw _ _ _ _ m W (flat_nodes_ne r) Hm) as HL.
  destruct (t_leaves T) as [elts|] eqn:El.
  - destruct HL as [_ HL].
    assert (~ Forall (fun e => e = []) elts) as Hnz.
    { rewrite (bt_leaves _ _ _ _ _ _ B) in El. unfold select_leaves in El. destruct vals as [vs0|]; [|discriminate].
      destruct (total_size _ =? 0) eqn:Ez; [discriminate|]. injection El as <-. apply Nat.eqb_neq in Ez.
      intros Hall. apply Ez. unfold total_size. clear -Hall. induction Hall as [|x l Hx _ IH]; [reflexivity|].
      cbn [map sum_list]. rewrite Hx. exact IH. }
    destruct (HL Hnz) as [Hin _].
    pose proof (flat_nodes_at_g b0 o keys vals T r _ Hb Hr Hsub) as Hn. cbn [tree_id view_of_tree] in Hn.
    assert (ord < length elts) as Hord.
    { unfold flat_wf in W. apply andb_true_iff in W. destruct W as [W1 W2]. unfold leaves_ok in W2. apply Nat.eqb_eq in W2.
      pose proof (wf_from_nth _ _ _ _ _ _ _ _ _ W1 Hn) as (_ & Ho & _). cbn in Ho.
      pose proof (tails_of_nth _ _ _ _ _ Hn) as Ht. rewrite <- Ho in Ht.
      rewrite W2. apply nth_error_Some. congruence. }
    rewrite (Hin ord Hord). unfold bind.
    destruct (nth_error elts ord) as [v|] eqn:En; [|apply nth_error_None in En; lia].
    rewrite (nth_error_nth _ _ [] En). reflexivity.
  - rewrite HL. reflexivity.
Qed.

(* searchID from the message = searchID on the tree (ids) *)
Theorem msearchid_searchid_g b0 o keys vals T m vs q fuel :
  build_gen b0 o keys vals = Ok T -> encode_trie T = Val m -> init_vars m = Val vs ->
  trie_height T <= fuel ->
  msearchid (S fuel) m vs q = Ok (let '(l, e, rr) := searchid T q in (oid l, oid e, oid rr)).
Proof.
  intros Hb Em Ev Hf. unfold trie_height in Hf.
  destruct (t_root T) as [r|] eqn:Hr.
  2:{ unfold encode_trie in Em. rewrite Hr in Em. injection Em as <-. unfold msearchid, searchid. rewrite Hr. reflexivity. }
  pose proof (Hem_g T r Hr m Em) as Hm.
  destruct (encode_msg_fields _ _ _ _ _ Hm) as (Hnt & Hlp). specialize (Hnt (flat_nodes_ne r)).
  pose proof (built_ids_ok_g b0 o keys vals T r Hb Hr) as I.
  pose proof (root_id0_g b0 o keys vals T r Hb Hr) as Hid0.
  destruct (build_gen_ok _ _ _ _ _ Hb) as [[_ ->]|(r' & lidx & B)]; [discriminate|].
  assert (r' = r) as -> by (pose proof (bt_root _ _ _ _ _ _ B) as H; rewrite Hr in H; inversion H; reflexivity).
  pose proof (root_inv o keys vals (bt_sorted _ _ _ _ _ _ B) (bt_nonempty _ _ _ _ _ _ B)) as SI.
  pose proof (trie_of_has_kids o r _ (bt_trie _ _ _ _ _ _ B) SI) as Hk.
  unfold msearchid, searchid. rewrite Hr. destruct (m_nodetype m) as [nt|]; [|congruence]. cbv zeta.
  pose proof (msearch_down_f_g b0 o keys vals T r Hb Hr m vs Em Ev (nibs q) (nibs_lt q) (S fuel) r 0 None None (subtrees_self r)) as Hmd.
  rewrite Hid0 in Hmd. rewrite Hmd.
  pose proof (fsearch_down_sim r (nibs q) (length (nibs q)) I r (subtrees_self r) (S fuel) 0 None None ltac:(lia)) as Hs.
  rewrite Hid0 in Hs. cbn [oid option_map] in Hs. rewrite Hs. unfold bind.
  pose proof (search_down_from (nibs q) (length (nibs q)) r 0 None None) as [Hf1 Hf2].
  pose proof (search_down_seq o q r _ (bt_trie _ _ _ _ _ _ B) SI (Nat.le_0_l _) None None) as Hseq.
  change (s_from (root_subset o keys vals)) with 0 in Hseq.
  destruct (search_down (nibs q) (length (nibs q)) r 0 None None) as [[lc eq] rc] eqn:Esd.
  unfold seq in Hseq. cbn [fst snd] in Hf1, Hf2, Hseq. cbn [sres_ids].
  assert (forall x, In x (subtrees r) -> mrightmost (S fuel) m vs (tree_id x) = Ok (tree_id (rightmost x))) as HRm.
  { intros x Hx. rewrite (mrightmost_f_g b0 o keys vals T r Hb Hr m vs Em Ev (S fuel) x Hx).
    rewrite (frightmost_sim r I x Hx (has_kids_sub r x Hk Hx)); [reflexivity|]. pose proof (height_sub r x Hx). lia. }
  assert (forall x, In x (subtrees r) -> mleftmost (S fuel) m vs (tree_id x) = Ok (tree_id (leftmost x))) as HLm.
  { intros x Hx. rewrite (mleftmost_f_g b0 o keys vals T r Hb Hr m vs Em Ev (S fuel) x Hx).
    rewrite (fleftmost_sim r I x Hx (has_kids_sub r x Hk Hx)); [reflexivity|]. pose proof (height_sub r x Hx). lia. }
  assert (forall x, from_tree r None x -> match x with Some y => In y (subtrees r) | None => True end) as Hin.
  { intros [y|] H; [cbn in H; destruct H as [H|H]; [discriminate|exact H]|exact Logic.I]. }
  pose proof (Hin lc Hf1) as Hlc. pose proof (Hin rc Hf2) as Hrc.
  destruct eq as [[[c i] v]|]; cbn [ids_of].
  - assert (In c (subtrees r)) as Hc by (eapply descend_subtree; symmetry; exact Hseq).
    destruct (i <=? length (nibs q)).
    + assert ((match m_leafpfx m with
               | Some _ => match msess_tail m vs (tree_id c) v with
                           | Ok t => Ok (bytes_cmp (skipn (i / 2) q) match t with Some t0 => t0 | None => [] end)
                           | Err e => Err e end
               | None => Ok Eq end) =
              Ok (if t_leafpfx T then bytes_cmp (skipn (i / 2) q) match sess_tail c v with Some t => t | None => [] end else Eq)) as Hcmp.
      { rewrite (msess_tail_ok_g b0 o keys vals T r Hb Hr m vs Em Ev c v Hc).
        destruct (t_leafpfx T) eqn:Elp.
        - destruct (m_leafpfx m) as [lp|] eqn:Emlp; [reflexivity|]. destruct Hlp as [Hlp _]. discriminate (Hlp eq_refl).
        - destruct (m_leafpfx m) as [lp|] eqn:Emlp; [|reflexivity]. destruct Hlp as [_ Hlp]. discriminate (Hlp eq_refl). }
      rewrite Hcmp.
      destruct (if t_leafpfx T then bytes_cmp (skipn (i / 2) q) match sess_tail c v with Some t => t | None => [] end else Eq);
        destruct lc as [ml|], rc as [mr|]; cbn [oid option_map]; rewrite ?HRm, ?HLm by assumption; reflexivity.
    + destruct lc as [ml|], rc as [mr|]; cbn [oid option_map]; rewrite ?HRm, ?HLm by assumption; reflexivity.
  - destruct lc as [ml|], rc as [mr|]; cbn [oid option_map]; rewrite ?HRm, ?HLm by assumption; reflexivity.
Qed.

(* ---------- leaf values, Search and RangeGet over the message ---------- *)
Lemma mleaf_value_ok_g b0 o keys vals T r lidx m vs c :
  Built o keys vals T r lidx -> build_gen b0 o keys vals = Ok T -> encode_trie T = Val m -> init_vars m = Val vs ->
  In c (subtrees r) -> mleaf_value m vs (tree_id c) = leaf_value T c.
Proof.
  intros B Hb Em Ev Hsub. pose proof (bt_root _ _ _ _ _ _ B) as Hr. unfold mleaf_value.
  destruct c as [id ord tail eidx|id big step pfx fc ch]; cbn [tree_id leaf_value].
  2:{ destruct (node_inner_g b0 o keys vals T r Hb Hr m vs Em Ev _ _ _ _ _ _ Hsub) as (ith & wsz & from & to & bm & plen & pfxb & Hgn & _).
      rewrite Hgn. reflexivity. }
  rewrite (node_leaf_g b0 o keys vals T r Hb Hr m vs Em Ev id ord tail eidx Hsub).
  pose proof (Hem_g T r Hr m Em) as Hm. pose proof (Hwf_g b0 o keys vals T r Hb Hr) as W.
  pose proof (leaves_fw _ _ _ _ m W (flat_nodes_ne r) Hm) as HL.
  destruct (t_leaves T) as [elts|] eqn:El.
  - destruct HL as [_ HL].
    assert (~ Forall (fun e => e = []) elts) as Hnz.
    { rewrite (bt_leaves _ _ _ _ _ _ B) in El. unfold select_leaves in El. destruct vals as [vs0|]; [|discriminate].
      destruct (total_size _ =? 0) eqn:Ez; [discriminate|]. injection El as <-. apply Nat.eqb_neq in Ez.
      intros Hall. apply Ez. unfold total_size. clear -Hall. induction Hall as [|x l Hx _ IH]; [reflexivity|].
      cbn [map sum_list]. rewrite Hx. exact IH. }
    destruct (HL Hnz) as [Hin _].
    pose proof (flat_nodes_at_g b0 o keys vals T r _ Hb Hr Hsub) as Hn. cbn [tree_id view_of_tree] in Hn.
    assert (ord < length elts) as Hord.
    { unfold flat_wf in W. apply andb_true_iff in W. destruct W as [W1 W2]. unfold leaves_ok in W2. apply Nat.eqb_eq in W2.
      pose proof (wf_from_nth _ _ _ _ _ _ _ _ _ W1 Hn) as (_ & Ho & _). cbn in Ho.
      pose proof (tails_of_nth _ _ _ _ _ Hn) as Ht. rewrite <- Ho in Ht.
      rewrite W2. apply nth_error_Some. congruence. }
    rewrite (Hin ord Hord).
    destruct (nth_error elts ord) as [v|] eqn:En; [|apply nth_error_None in En; lia].
    rewrite (nth_error_nth _ _ [] En). reflexivity.
  - rewrite HL. reflexivity.
Qed.

Lemma mopt_leaf_value_ok_g b0 o keys vals T r lidx m vs (c : option tree) :
  Built o keys vals T r lidx -> build_gen b0 o keys vals = Ok T -> encode_trie T = Val m -> init_vars m = Val vs ->
  (forall n, c = Some n -> In n (subtrees r)) ->
  mopt_leaf_value m vs (oid c) = opt_leaf_value T c.
Proof.
  intros B Hb Em Ev Hc. destruct c as [n|]; [|reflexivity]. cbn [oid option_map mopt_leaf_value opt_leaf_value].
  rewrite (mleaf_value_ok_g b0 o keys vals T r lidx m vs n B Hb Em Ev (Hc n eq_refl)). reflexivity.
Qed.

Theorem msearch_search_g b0 o keys vals T m vs q fuel :
  build_gen b0 o keys vals = Ok T -> encode_trie T = Val m -> init_vars m = Val vs ->
  trie_height T <= fuel ->
  msearch (S fuel) m vs q = search T q.
Proof.
  intros Hb Em Ev Hf. unfold msearch. rewrite (msearchid_searchid_g b0 o keys vals T m vs q fuel Hb Em Ev Hf). unfold bind.
  destruct (build_gen_ok b0 o keys vals T Hb) as [[_ ->]|(r & lidx & B)]; [reflexivity|].
  pose proof (SearchProofs.searchid_leaves o keys vals T r lidx B q) as HL. unfold search.
  destruct (searchid T q) as [[l e] rr]. destruct HL as (H1 & H2 & H3).
  rewrite (mopt_leaf_value_ok_g b0 o keys vals T r lidx m vs l B Hb Em Ev (fun n Hn => proj1 (H1 n Hn))).
  rewrite (mopt_leaf_value_ok_g b0 o keys vals T r lidx m vs e B Hb Em Ev (fun n Hn => proj1 (H2 n Hn))).
  rewrite (mopt_leaf_value_ok_g b0 o keys vals T r lidx m vs rr B Hb Em Ev (fun n Hn => proj1 (H3 n Hn))).
  reflexivity.
Qed.

Theorem mrangeget_rangeget_g b0 o keys vals T m vs q fuel :
  build_gen b0 o keys vals = Ok T -> encode_trie T = Val m -> init_vars m = Val vs ->
  trie_height T <= fuel ->
  mrangeget (S fuel) m vs q = rangeget T q.
Proof.
  intros Hb Em Ev Hf. unfold mrangeget. rewrite (msearchid_searchid_g b0 o keys vals T m vs q fuel Hb Em Ev Hf). unfold bind.
  destruct (build_gen_ok b0 o keys vals T Hb) as [[_ ->]|(r & lidx & B)]; [reflexivity|].
  pose proof (SearchProofs.searchid_leaves o keys vals T r lidx B q) as HL. unfold rangeget.
  destruct (searchid T q) as [[l e] rr]. destruct HL as (H1 & H2 & _).
  destruct e as [c|]; cbn [oid option_map].
  - rewrite (mleaf_value_ok_g b0 o keys vals T r lidx m vs c B Hb Em Ev (proj1 (H2 c eq_refl))). reflexivity.
  - destruct l as [c|]; cbn [oid option_map]; [|reflexivity].
    rewrite (mleaf_value_ok_g b0 o keys vals T r lidx m vs c B Hb Em Ev (proj1 (H1 c eq_refl))). reflexivity.
Qed.
