(* LegacyProofs.v - proofs about the model in Legacy.v (see props/C06.v for the
   closing theorems).  Byte-level facts are proved by enumeration of the at most
   8 bits involved, list-level facts by induction in steps of 8 bits. *)
From Slim Require Import Base Legacy.
From Coq Require Import ZifyBool.
Open Scope Z_scope.
Ltac Zify.zify_post_hook ::= Z.div_mod_to_equations.

(* ================= part 1 ================= *)
(* ---------- facts about at most 8 bits, by enumeration ---------- *)

Lemma byte_of_range : forall l, (length l <= 8)%nat -> 0 <= byte_of l < 256.
Proof.
  intros l H.
  do 9 (destruct l as [|[] l]; [vm_compute; split; congruence|..]); cbn [length] in H; lia.
Qed.

(* a tail of 1..7 bits: the marker byte, its trailing zeros, masking it away *)
Lemma tail_facts : forall t, (0 < length t < 8)%nat ->
  tz8 (byte_of (t ++ [true])) = 7 - Z.of_nat (length t) /\
  Z.land (byte_of (t ++ [true])) (rmask8 (8 - Z.of_nat (length t))) = byte_of t /\
  Z.land (byte_of t) (rmask8 (8 - Z.of_nat (length t))) = byte_of t.
Proof.
  intros t H.
  destruct t as [|b0 t]; [cbn [length] in H; lia|].
  destruct b0;
  do 7 (destruct t as [|[] t]; [vm_compute; repeat split; reflexivity|..]); cbn [length] in H; lia.
Qed.

Lemma full_byte_facts : forall a, length a = 8%nat ->
  Z.land (byte_of a) 255 = byte_of a /\ unpack_byte (byte_of a) = a.
Proof.
  intros a H.
  do 8 (destruct a as [|? a]; [cbn [length] in H; lia|]).
  destruct a; [|cbn [length] in H; lia].
  repeat match goal with b : bool |- _ => destruct b end; vm_compute; split; reflexivity.
Qed.

Lemma short_unpack : forall t, (length t < 8)%nat ->
  firstn (length t) (unpack_byte (byte_of t)) = t.
Proof.
  intros t H.
  do 8 (destruct t as [|[] t]; [vm_compute; reflexivity|..]); cbn [length] in H; lia.
Qed.

(* ================= part 2 ================= *)
Lemma pack_app8 : forall a r, length a = 8%nat -> pack (a ++ r) = byte_of a :: pack r.
Proof.
  intros a r H.
  do 8 (destruct a as [|? a]; [cbn [length] in H; lia|]).
  destruct a; [|cbn [length] in H; lia].
  reflexivity.
Qed.

Lemma pack_short : forall t, (0 < length t <= 8)%nat -> pack t = [byte_of t].
Proof.
  intros t H.
  destruct t as [|b0 t]; [cbn [length] in H; lia|].
  do 7 (destruct t as [|? t]; [reflexivity|]).
  destruct t; [reflexivity|cbn [length] in H; lia].
Qed.

Lemma list_ind8 : forall (P : list bool -> Prop),
  (forall t, (length t < 8)%nat -> P t) ->
  (forall a r, length a = 8%nat -> P r -> P (a ++ r)) ->
  forall l, P l.
Proof.
  intros P Hs Hc l.
  remember (length l) as n eqn:Hn. revert l Hn.
  induction n as [n IH] using lt_wf_ind. intros l Hn.
  destruct (Nat.ltb_spec n 8) as [Hlt|Hge].
  - apply Hs. lia.
  - rewrite <- (firstn_skipn 8 l). apply Hc.
    + rewrite firstn_length. lia.
    + apply (IH (length (skipn 8 l))); [rewrite skipn_length; lia|reflexivity].
Qed.

Lemma len_pack : forall l, Z.of_nat (length (pack l)) = (Z.of_nat (length l) + 7) / 8.
Proof.
  intros l. induction l as [t Ht|a r Ha IH] using list_ind8.
  - destruct t as [|b t]; [reflexivity|].
    rewrite pack_short by (cbn [length] in *; lia). cbn [length] in *. lia.
  - rewrite pack_app8 by assumption. rewrite app_length. cbn [length]. lia.
Qed.

(* a bit string whose length is not a multiple of 8: its last byte *)
Lemma pack_split : forall l, Z.of_nat (length l) mod 8 <> 0 ->
  exists pre t, (0 < length t < 8)%nat /\ Z.of_nat (length t) = Z.of_nat (length l) mod 8 /\
    pack l = pre ++ [byte_of t] /\ pack (l ++ [true]) = pre ++ [byte_of (t ++ [true])].
Proof.
  intros l. induction l as [t Ht|a r Ha IH] using list_ind8; intros Hm.
  - exists [], t. destruct t as [|b t]; [cbn in Hm; lia|].
    split; [cbn [length] in *; lia|]. split; [cbn [length] in *; lia|].
    split; [apply pack_short; cbn [length] in *; lia|].
    apply pack_short. rewrite app_length. cbn [length] in *. lia.
  - rewrite app_length in Hm.
    destruct IH as (pre & t & Ht & Hl & Hp & Hq); [lia|].
    exists (byte_of a :: pre), t. split; [assumption|]. split; [rewrite app_length; lia|].
    split.
    + rewrite pack_app8 by assumption. rewrite Hp. reflexivity.
    + rewrite <- app_assoc. rewrite pack_app8 by assumption. rewrite Hq. reflexivity.
Qed.

Lemma pack_range : forall l, Forall (fun b => 0 <= b < 256) (pack l).
Proof.
  intros l. induction l as [t Ht|a r Ha IH] using list_ind8.
  - destruct t as [|b t]; [constructor|].
    rewrite pack_short by (cbn [length] in *; lia). constructor; [|constructor].
    apply byte_of_range. lia.
  - rewrite pack_app8 by assumption. constructor; [apply byte_of_range; lia|assumption].
Qed.

(* ================= part 3 ================= *)
Lemma upd_last_snoc : forall f pre x, upd_last f (pre ++ [x]) = pre ++ [f x].
Proof.
  intros f pre x. induction pre as [|a pre IH]; [reflexivity|].
  cbn [app upd_last]. rewrite IH. destruct (pre ++ [x]) eqn:E; [destruct pre; discriminate|reflexivity].
Qed.

Lemma upd_last_id : forall f l, Forall (fun x => f x = x) l -> upd_last f l = l.
Proof.
  intros f l H. induction H as [|a l Ha Hl IH]; [reflexivity|].
  cbn [upd_last]. destruct l; [rewrite Ha; reflexivity|rewrite IH; reflexivity].
Qed.

Lemma land_255 : forall b, 0 <= b < 256 -> Z.land b 255 = b.
Proof. intros b H. change 255 with (Z.ones 8). rewrite Z.land_ones by lia. apply Z.mod_small. lia. Qed.

Lemma land_7 : forall x, Z.land x 7 = x mod 8.
Proof. intros x. change 7 with (Z.ones 3). rewrite Z.land_ones by lia. reflexivity. Qed.

Lemma nth_snoc_len : forall (c : Z) pre x, nth (length (pre ++ [x])) (c :: pre ++ [x]) 0 = x.
Proof.
  intros c pre x. rewrite app_length. cbn [length]. replace (length pre + 1)%nat with (S (length pre)) by lia.
  cbn [nth]. rewrite app_nth2 by lia. rewrite Nat.sub_diag. reflexivity.
Qed.

Lemma copy_into_same : forall dst src, length dst = length src -> copy_into dst src = src.
Proof.
  intros dst src H. unfold copy_into. rewrite H. rewrite firstn_all. rewrite <- H, skipn_all. apply app_nil_r.
Qed.

Theorem ctl_bitstr_same_length : forall bits, length (ctl_of_bits bits) = length (bitstr_of_bits bits).
Proof.
  intros bits. unfold ctl_of_bits, bitstr_of_bits. rewrite app_length. cbn [length].
  destruct (Z.of_nat (length bits) mod 8 =? 0) eqn:E; cbn [length]; [lia|].
  apply Nat2Z.inj. rewrite !Nat2Z.inj_succ, Nat2Z.inj_add, !len_pack, app_length. cbn [length]. lia.
Qed.

Theorem conv_prefix_ctl : forall bits, conv_prefix (ctl_of_bits bits) = Ok (bitstr_of_bits bits).
Proof.
  intros bits.
  pose proof (ctl_bitstr_same_length bits) as Hlen.
  unfold ctl_of_bits, bitstr_of_bits in *.
  pose proof (len_pack bits) as Hlp.
  destruct (Z.of_nat (length bits) mod 8 =? 0) eqn:E.
  - (* whole bytes, control byte 0 *)
    unfold conv_prefix. change (Z.land 0 1 =? 0) with true. cbv iota.
    rewrite Z.shiftl_mul_pow2 by lia. change (2 ^ 3) with 8.
    assert (Hbl : Z.of_nat (length (pack bits)) * 8 = Z.of_nat (length bits)) by lia.
    rewrite Hbl. unfold bitstr_new.
    destruct (Z.of_nat (length bits) =? 0) eqn:E0.
    + assert (length bits = 0%nat) by lia. destruct bits; [|discriminate]. reflexivity.
    + assert (Z.of_nat (length bits) <? 0 = false) as -> by lia.
      rewrite Z.shiftr_div_pow2 by lia. change (2 ^ 3) with 8.
      assert (Htb : (Z.of_nat (length bits) + 7) / 8 = Z.of_nat (length (pack bits))) by lia.
      rewrite Htb. assert (Z.of_nat (length (pack bits)) <? Z.of_nat (length (pack bits)) = false) as -> by lia.
      rewrite Nat2Z.id, firstn_all. rewrite land_7.
      assert ((8 - Z.of_nat (length bits)) mod 8 = 0) as -> by lia.
      change (rmask8 0) with 255.
      rewrite upd_last_id.
      2:{ eapply Forall_impl; [|apply pack_range]. intros b Hb. apply land_255. exact Hb. }
      cbn [bind]. rewrite copy_into_same; [|rewrite app_length in *; cbn [length] in *; lia].
      assert (Z.of_nat (length bits) mod 8 = 0) as -> by lia. reflexivity.
  - (* truncated, control byte 1, marker bit *)
    destruct (pack_split bits) as (pre & t & Ht & Hl & Hp & Hq); [lia|].
    destruct (tail_facts t Ht) as (Htz & Hland & _).
    unfold conv_prefix. change (Z.land 1 1 =? 0) with false. cbv iota.
    rewrite Hq in *. rewrite nth_snoc_len. rewrite Htz.
    rewrite Z.shiftl_mul_pow2 by lia. change (2 ^ 3) with 8.
    assert (Hpre : Z.of_nat (length (pre ++ [byte_of (t ++ [true])])) = Z.of_nat (length bits) / 8 + 1).
    { rewrite app_length in *. cbn [length] in *. rewrite Hp, app_length in Hlp. cbn [length] in Hlp. lia. }
    assert (Hbl : Z.of_nat (length (pre ++ [byte_of (t ++ [true])])) * 8 - (7 - Z.of_nat (length t)) - 1 = Z.of_nat (length bits)) by lia.
    rewrite Hbl. unfold bitstr_new.
    assert (Z.of_nat (length bits) =? 0 = false) as -> by lia.
    assert (Z.of_nat (length bits) <? 0 = false) as -> by lia.
    rewrite Z.shiftr_div_pow2 by lia. change (2 ^ 3) with 8.
    assert (Htb : (Z.of_nat (length bits) + 7) / 8 = Z.of_nat (length (pre ++ [byte_of (t ++ [true])]))) by lia.
    rewrite Htb. rewrite Z.ltb_irrefl. rewrite Nat2Z.id, firstn_all. rewrite land_7.
    assert ((8 - Z.of_nat (length bits)) mod 8 = 8 - Z.of_nat (length t)) as -> by lia.
    rewrite upd_last_snoc, Hland. cbn [bind].
    rewrite copy_into_same.
    + rewrite Hp. rewrite <- Hl. unfold mask_of.
      assert (Z.of_nat (length t) =? 0 = false) as -> by lia.
      f_equal. f_equal. f_equal.
      (* the trailing byte: rmask8 (8-r) = 256 - 2^(8-r) for r = 1..7 *)
      destruct t as [|? t]; [cbn [length] in Ht; lia|].
      do 7 (destruct t as [|? t]; [reflexivity|]). cbn [length] in Ht. lia.
    + rewrite Hp in Hlen. rewrite !app_length in *. cbn [length] in *. lia.
Qed.

(* ================= part 4 ================= *)
Lemma popcount_mask : forall r, 0 <= r < 8 -> popcount8 (mask_of r) = if r =? 0 then 8 else r.
Proof.
  intros r H.
  assert (r = 0 \/ r = 1 \/ r = 2 \/ r = 3 \/ r = 4 \/ r = 5 \/ r = 6 \/ r = 7) as Hc by lia.
  repeat (destruct Hc as [-> | Hc]; [reflexivity|]). subst r. reflexivity.
Qed.

Theorem bitstr_len_of_bits : forall bits, bitstr_len (bitstr_of_bits bits) = Z.of_nat (length bits).
Proof.
  intros bits. unfold bitstr_len, bitstr_of_bits. rewrite last_last, app_length. cbn [length].
  rewrite popcount_mask by lia. rewrite Z.shiftl_mul_pow2 by lia. change (2 ^ 3) with 8.
  rewrite Nat2Z.inj_add, len_pack. 
  destruct (Z.of_nat (length bits) mod 8 =? 0) eqn:E; lia.
Qed.

Lemma unpack_pack : forall l, firstn (length l) (unpack (pack l)) = l.
Proof.
  intros l. induction l as [t Ht|a r Ha IH] using list_ind8.
  - destruct t as [|b t]; [reflexivity|].
    rewrite pack_short by (cbn [length] in *; lia).
    unfold unpack. cbn [flat_map]. rewrite app_nil_r. apply short_unpack. exact Ht.
  - rewrite pack_app8 by assumption. unfold unpack in *. cbn [flat_map].
    destruct (full_byte_facts a Ha) as [_ Hu]. rewrite Hu.
    rewrite app_length. rewrite firstn_app_2. rewrite IH. reflexivity.
Qed.

Theorem bitstr_bits_of_bits : forall bits, bitstr_bits (bitstr_of_bits bits) = bits.
Proof.
  intros bits. unfold bitstr_bits. rewrite bitstr_len_of_bits, Nat2Z.id.
  unfold bitstr_of_bits. rewrite removelast_last. apply unpack_pack.
Qed.

(* the whole InnerPrefixes.Bytes buffer, element by element *)
Theorem conv_all_ctl : forall bss,
  conv_all (map ctl_of_bits bss) = Ok (map bitstr_of_bits bss).
Proof.
  induction bss as [|b r IH]; [reflexivity|].
  cbn [map conv_all]. rewrite conv_prefix_ctl. cbn [bind]. rewrite IH. reflexivity.
Qed.

Theorem conv_all_positions : forall bss,
  map (@length Z) (map ctl_of_bits bss) = map (@length Z) (map bitstr_of_bits bss).
Proof.
  induction bss as [|b r IH]; [reflexivity|].
  cbn [map]. rewrite ctl_bitstr_same_length, IH. reflexivity.
Qed.

(* ---- getStepBefore000510 ---- *)
Theorem step_rebase : forall p pp, pp < p -> p - pp <= 65535 ->
  step_new (old_step (p - pp)) = 4 * (p - (pp + 1)).
Proof.
  intros p pp H1 H2. unfold old_step, step_new.
  destruct (1 <? p - pp) eqn:E; [|lia].
  rewrite Z.mod_small by lia. lia.
Qed.

(* ================= part 5 ================= *)
(* ---------- the Offsets quirk is invisible on set bits ---------- *)

Lemma offsets_from_length : forall words acc, length (offsets_from acc words) = length words.
Proof. induction words as [|w r IH]; intros acc; cbn [offsets_from length]; [reflexivity|rewrite IH; reflexivity]. Qed.

Lemma quirk_length : forall words offs, length offs = length words -> length (quirk words offs) = length words.
Proof.
  induction words as [|w r IH]; intros offs H; [reflexivity|].
  destruct offs as [|o orr]; [discriminate|]. cbn [quirk length]. rewrite IH; [reflexivity|]. cbn [length] in H. lia.
Qed.

Lemma quirk_nth : forall words offs k, length offs = length words ->
  nth k words 0 <> 0 -> nth k (quirk words offs) 0 = nth k offs 0.
Proof.
  induction words as [|w r IH]; intros offs k Hl Hn.
  - destruct k; cbn in Hn; congruence.
  - destruct offs as [|o orr]; [discriminate|]. cbn [quirk]. destruct k as [|k].
    + cbn [nth] in *. destruct (w =? 0) eqn:E; [lia|reflexivity].
    + cbn [nth] in *. apply IH; [cbn [length] in Hl; lia|assumption].
Qed.

Lemma nth_res_ok : forall site l i v, nth_res site l i = Ok v ->
  0 <= i < Z.of_nat (length l) /\ v = nth (Z.to_nat i) l 0.
Proof.
  unfold nth_res. intros site l i v H.
  destruct ((i <? 0) || (Z.of_nat (length l) <=? i)) eqn:E; [discriminate|].
  injection H as <-. split; [lia|reflexivity].
Qed.

Lemma nth_res_in : forall site l i, 0 <= i < Z.of_nat (length l) -> nth_res site l i = Ok (nth (Z.to_nat i) l 0).
Proof.
  unfold nth_res. intros site l i H.
  destruct ((i <? 0) || (Z.of_nat (length l) <=? i)) eqn:E; [lia|reflexivity].
Qed.

(* Rank64 over the Offsets written by array.InitIndex (0 for an empty word)
   returns, for every SET bit, what it returns over the true ranks. *)
Theorem rank64_quirk_set_bit : forall words i r,
  rank64 words (offsets_true words) i = Ok (r, 1) ->
  rank64 words (offsets_quirk words) i = Ok (r, 1).
Proof.
  unfold rank64, offsets_quirk, offsets_true. intros words i r H. cbv zeta in *.
  destruct (nth_res 611 (offsets_from 0 words) (Z.shiftr i 6)) as [n|e] eqn:E1; [|discriminate].
  cbn [bind] in H.
  destruct (nth_res 612 words (Z.shiftr i 6)) as [w|e] eqn:E2; [|discriminate].
  cbn [bind] in H. injection H as Hr Hb.
  apply nth_res_ok in E1. apply nth_res_ok in E2.
  destruct E1 as [R1 ->]. destruct E2 as [R2 ->].
  rewrite offsets_from_length in R1.
  rewrite nth_res_in by (rewrite quirk_length; [lia|apply offsets_from_length]).
  cbn [bind].
  rewrite quirk_nth.
  - rewrite Hr, Hb. reflexivity.
  - apply offsets_from_length.
  - intros Hz. rewrite Hz in Hb. rewrite Z.shiftr_0_l in Hb. cbn in Hb. discriminate.
Qed.

(* ================= part 6 ================= *)
(* number of p in [0,n) with f p *)
Fixpoint cnt (f : Z -> bool) (n : nat) : Z :=
  match n with O => 0 | S m => cnt f m + b2z (f (Z.of_nat m)) end.

Lemma b2z_Zb2z : forall b, b2z b = Z.b2z b. Proof. destruct b; reflexivity. Qed.

Lemma cnt_ext : forall f g n, (forall p, 0 <= p < Z.of_nat n -> f p = g p) -> cnt f n = cnt g n.
Proof.
  induction n as [|n IH]; intros H; [reflexivity|].
  cbn [cnt]. rewrite IH by (intros; apply H; lia). rewrite H by lia. reflexivity.
Qed.

Lemma cnt_shift : forall f m, cnt f (S m) = b2z (f 0) + cnt (fun p => f (p + 1)) m.
Proof.
  induction m as [|m IH]; [cbn; lia|].
  change (cnt f (S (S m))) with (cnt f (S m) + b2z (f (Z.of_nat (S m)))).
  rewrite IH. cbn [cnt]. rewrite Nat2Z.inj_succ. unfold Z.succ. lia.
Qed.

Lemma cnt_add : forall f a b, cnt f (a + b) = cnt f a + cnt (fun p => f (Z.of_nat a + p)) b.
Proof.
  induction b as [|b IH]; [rewrite Nat.add_0_r; cbn; lia|].
  rewrite Nat.add_succ_r. cbn [cnt]. rewrite IH, Nat2Z.inj_add. lia.
Qed.

Lemma cnt_mask : forall f j n, (j <= n)%nat -> cnt (fun p => f p && (p <? Z.of_nat j)) n = cnt f j.
Proof.
  induction n as [|n IH]; intros H.
  - assert (j = 0%nat) by lia. subst. reflexivity.
  - destruct (Nat.eq_dec j (S n)) as [->|Hne].
    + apply cnt_ext. intros p Hp. assert (p <? Z.of_nat (S n) = true) as -> by lia. apply andb_true_r.
    + cbn [cnt]. rewrite IH by lia. assert (Z.of_nat n <? Z.of_nat j = false) as -> by lia.
      rewrite andb_false_r. cbn. lia.
Qed.

Lemma pop_fuel_cnt : forall n w, pop_fuel n w = cnt (Z.testbit w) n.
Proof.
  induction n as [|n IH]; intros w; [reflexivity|].
  cbn [pop_fuel]. rewrite cnt_shift, IH. f_equal.
  - rewrite b2z_Zb2z. symmetry. apply Z.bit0_mod.
  - apply cnt_ext. intros p Hp. change (w / 2) with (w / 2 ^ 1). rewrite Z.div_pow2_bits by lia. reflexivity.
Qed.

Lemma count_below_cnt : forall words i, count_below words i = cnt (bit_at words) i.
Proof. induction i as [|i IH]; [reflexivity|]. cbn [count_below cnt]. rewrite IH. reflexivity. Qed.

Fixpoint sum_pop (words : list Z) : Z :=
  match words with [] => 0 | w :: r => popcount64 w + sum_pop r end.

Lemma offsets_from_nth : forall words acc k, (k < length words)%nat ->
  nth k (offsets_from acc words) 0 = acc + sum_pop (firstn k words).
Proof.
  induction words as [|w r IH]; intros acc k H; [cbn [length] in H; lia|].
  destruct k as [|k]; [cbn [offsets_from nth firstn sum_pop]; lia|].
  cbn [offsets_from nth firstn sum_pop]. rewrite IH by (cbn [length] in H; lia). lia.
Qed.

Lemma bit_at_word : forall words k p, 0 <= p < 64 ->
  bit_at words (Z.of_nat (64 * k) + p) = Z.testbit (nth k words 0) p.
Proof.
  intros words k p H. unfold bit_at.
  replace ((Z.of_nat (64 * k) + p) / 64) with (Z.of_nat k) by lia.
  replace ((Z.of_nat (64 * k) + p) mod 64) with p by lia.
  rewrite Nat2Z.id. reflexivity.
Qed.

Lemma cnt_words : forall words k, (k <= length words)%nat ->
  cnt (bit_at words) (64 * k) = sum_pop (firstn k words).
Proof.
  intros words k. revert words. induction k as [|k IH]; intros words H; [reflexivity|].
  replace (64 * S k)%nat with (64 * k + 64)%nat by lia.
  rewrite cnt_add, IH by lia.
  rewrite (cnt_ext (fun p => bit_at words (Z.of_nat (64 * k) + p)) (Z.testbit (nth k words 0))) by (intros p Hp; apply bit_at_word; lia).
  assert (Hs : forall l m, (m < length l)%nat -> sum_pop (firstn (S m) l) = sum_pop (firstn m l) + popcount64 (nth m l 0)).
  { induction l as [|x l IHl]; intros m Hm; [cbn [length] in Hm; lia|].
    destruct m as [|m]; [cbn [firstn sum_pop nth]; lia|].
    change (firstn (S (S m)) (x :: l)) with (x :: firstn (S m) l).
    change (firstn (S m) (x :: l)) with (x :: firstn m l).
    cbn [sum_pop nth]. rewrite IHl by (cbn [length] in Hm; lia). lia. }
  rewrite Hs by lia. unfold popcount64. rewrite pop_fuel_cnt. reflexivity.
Qed.

Theorem rank64_true_spec : forall words i, 0 <= i < 64 * Z.of_nat (length words) ->
  rank64 words (offsets_true words) i = Ok (count_below words (Z.to_nat i), b2z (bit_at words i)).
Proof.
  intros words i H. unfold rank64, offsets_true. cbv zeta.
  rewrite Z.shiftr_div_pow2 by lia. change (2 ^ 6) with 64.
  change 63 with (Z.ones 6). rewrite Z.land_ones by lia. change (2 ^ 6) with 64.
  rewrite nth_res_in by (rewrite offsets_from_length; lia). cbn [bind].
  rewrite nth_res_in by lia. cbn [bind].
  set (k := Z.to_nat (i / 64)). set (j := Z.to_nat (i mod 64)).
  assert (Hk : (k < length words)%nat) by lia.
  assert (Hi : Z.to_nat i = (64 * k + j)%nat) by lia.
  rewrite offsets_from_nth by exact Hk.
  f_equal. f_equal.
  - rewrite Hi, count_below_cnt, cnt_add, cnt_words by lia.
    rewrite (cnt_ext _ (Z.testbit (nth k words 0)) j) by (intros p Hp; apply bit_at_word; lia).
    unfold popcount64. rewrite pop_fuel_cnt.
    rewrite (cnt_ext _ (fun p => Z.testbit (nth k words 0) p && (p <? Z.of_nat j))).
    + rewrite cnt_mask by lia. lia.
    + intros p Hp. rewrite Z.land_spec. rewrite Z.testbit_ones_nonneg by lia.
      replace (i mod 64) with (Z.of_nat j) by lia. reflexivity.
  - unfold bit_at. fold k.
    change 1 with (Z.ones 1). rewrite Z.land_ones by lia. change (2 ^ 1) with 2.
    rewrite <- Z.bit0_mod. rewrite Z.shiftr_spec by lia. rewrite Z.add_0_l. symmetry. apply b2z_Zb2z.
Qed.

Theorem rank64_quirk_correct : forall words i, 0 <= i < 64 * Z.of_nat (length words) ->
  bit_at words i = true ->
  rank64 words (offsets_quirk words) i = Ok (count_below words (Z.to_nat i), 1).
Proof.
  intros words i H Hb. apply rank64_quirk_set_bit.
  rewrite rank64_true_spec by exact H. rewrite Hb. reflexivity.
Qed.

(* ================= part 7 ================= *)
Lemma nth_range : forall (P : Z -> Prop) l n, Forall P l -> P 0 -> P (nth n l 0).
Proof.
  intros P l n H H0. revert n. induction H as [|x l Hx Hl IH]; intros n; destruct n; cbn [nth]; auto.
Qed.

(* ---- <= 0.5.3: uint32 elements ---- *)

Lemma le32_low16 : forall b f, bm16 b -> 0 <= f < 65536 ->
  match le32 (b + 65536 * f) with
  | [b0; b1; b2; b3] => Z.land (le32_dec b0 b1 b2 b3) 65535 = b
  | _ => False
  end.
Proof.
  intros b f Hb Hf. unfold le32, le32_dec, bm16 in *.
  change 65535 with (Z.ones 16). rewrite Z.land_ones by lia. change (2 ^ 16) with 65536. lia.
Qed.

Lemma skipn_enc_u32 : forall bms fcs k, length fcs = length bms -> (k < length bms)%nat ->
  exists rest, skipn (4 * k) (enc_u32 bms fcs) = le32 (nth k bms 0 + 65536 * (nth k fcs 0 mod 65536)) ++ rest.
Proof.
  induction bms as [|b br IH]; intros fcs k Hl Hk; [cbn [length] in Hk; lia|].
  destruct fcs as [|f fr]; [discriminate|].
  destruct k as [|k].
  - exists (enc_u32 br fr). reflexivity.
  - replace (4 * S k)%nat with (S (S (S (S (4 * k))))) by lia.
    cbn [enc_u32 le32 app skipn nth].
    apply IH; cbn [length] in *; lia.
Qed.

Theorem child_u32_enc : forall bms fcs k, length fcs = length bms -> Forall bm16 bms -> (k < length bms)%nat ->
  child_u32 (enc_u32 bms fcs) (Z.of_nat k) = Ok (2 * nth k bms 0).
Proof.
  intros bms fcs k Hl Hb Hk. unfold child_u32.
  assert (Z.of_nat k <? 0 = false) as -> by lia.
  replace (Z.to_nat (Z.of_nat k * 4)) with (4 * k)%nat by lia.
  destruct (skipn_enc_u32 bms fcs k Hl Hk) as [rest ->].
  pose proof (le32_low16 (nth k bms 0) (nth k fcs 0 mod 65536)) as H.
  unfold le32 in *. cbn [app]. rewrite H.
  - rewrite Z.shiftl_mul_pow2 by lia. f_equal. lia.
  - apply nth_range; [assumption|unfold bm16; lia].
  - lia.
Qed.

(* ---- >= 0.5.4: 16-bit bitmaps packed in BMElts.Words ---- *)

Lemma nth_nil : forall n, nth n (@nil Z) 0 = 0. Proof. destruct n; reflexivity. Qed.

Lemma enc_bm_nth : forall n bms q, (length bms <= n)%nat ->
  nth q (enc_bm bms) 0 =
  nth (4 * q) bms 0 + nth (4 * q + 1) bms 0 * 2 ^ 16 + nth (4 * q + 2) bms 0 * 2 ^ 32 + nth (4 * q + 3) bms 0 * 2 ^ 48.
Proof.
  induction n as [|n IH]; intros bms q Hn.
  - destruct bms; [|cbn [length] in Hn; lia]. cbn [enc_bm]. rewrite !nth_nil. reflexivity.
  - destruct bms as [|a [|b [|c [|d r]]]].
    + cbn [enc_bm]. rewrite !nth_nil. reflexivity.
    + destruct q as [|q]; [cbn; lia|].
      rewrite !(nth_overflow [a]) by (cbn [length]; lia). cbn [enc_bm nth]. destruct q; reflexivity.
    + destruct q as [|q]; [cbn; lia|].
      rewrite !(nth_overflow [a; b]) by (cbn [length]; lia). cbn [enc_bm nth]. destruct q; reflexivity.
    + destruct q as [|q]; [cbn; lia|].
      rewrite !(nth_overflow [a; b; c]) by (cbn [length]; lia). cbn [enc_bm nth]. destruct q; reflexivity.
    + destruct q as [|q]; [reflexivity|].
      cbn [enc_bm nth]. rewrite IH by (cbn [length] in Hn; lia).
      replace (4 * S q)%nat with (S (S (S (S (4 * q))))) by lia.
      replace (S (S (S (S (4 * q)))) + 1)%nat with (S (S (S (S (4 * q + 1))))) by lia.
      replace (S (S (S (S (4 * q)))) + 2)%nat with (S (S (S (S (4 * q + 2))))) by lia.
      replace (S (S (S (S (4 * q)))) + 3)%nat with (S (S (S (S (4 * q + 3))))) by lia.
      reflexivity.
Qed.

Lemma enc_bm_length : forall n bms, (length bms <= n)%nat ->
  Z.of_nat (length (enc_bm bms)) = (Z.of_nat (length bms) + 3) / 4.
Proof.
  induction n as [|n IH]; intros bms Hn.
  - destruct bms; [reflexivity|cbn [length] in Hn; lia].
  - destruct bms as [|a [|b [|c [|d r]]]]; try reflexivity.
    cbn [enc_bm length]. rewrite Nat2Z.inj_succ, IH by (cbn [length] in Hn; lia). lia.
Qed.

Lemma word16_get : forall a b c d t, bm16 a -> bm16 b -> bm16 c -> bm16 d -> 0 <= t < 4 ->
  Z.land (Z.shiftr (a + b * 2 ^ 16 + c * 2 ^ 32 + d * 2 ^ 48) (16 * t)) (Z.ones 16) =
  (if t =? 0 then a else if t =? 1 then b else if t =? 2 then c else d).
Proof.
  intros a b c d t Ha Hb Hc Hd Ht. unfold bm16 in *.
  rewrite Z.land_ones by lia. rewrite Z.shiftr_div_pow2 by lia.
  change (2 ^ 16) with 65536. change (2 ^ 32) with 4294967296. change (2 ^ 48) with 281474976710656.
  assert (t = 0 \/ t = 1 \/ t = 2 \/ t = 3) as [-> | [-> | [-> | ->]]] by lia.
  - change (2 ^ (16 * 0)) with 1. cbn [Z.eqb]. lia.
  - change (2 ^ (16 * 1)) with 65536. cbn [Z.eqb Pos.eqb]. lia.
  - change (2 ^ (16 * 2)) with 4294967296. cbn [Z.eqb Pos.eqb]. lia.
  - change (2 ^ (16 * 3)) with 281474976710656. cbn [Z.eqb Pos.eqb]. lia.
Qed.

Theorem child_bm_enc : forall bms k, Forall bm16 bms -> (k < length bms)%nat ->
  child_bm (enc_bm bms) (Z.of_nat k) = Ok (2 * nth k bms 0).
Proof.
  intros bms k Hb Hk. unfold child_bm. cbv zeta.
  rewrite Z.shiftr_div_pow2 by lia. change (2 ^ 6) with 64.
  change 63 with (Z.ones 6). rewrite Z.land_ones by lia. change (2 ^ 6) with 64.
  pose proof (enc_bm_length (length bms) bms (Nat.le_refl _)) as Hlen.
  rewrite nth_res_in by lia. cbn [bind].
  rewrite (enc_bm_nth (length bms)) by lia.
  set (q := Z.to_nat (Z.of_nat k * 16 / 64)).
  replace (Z.of_nat k * 16 mod 64) with (16 * (Z.of_nat k mod 4)) by lia.
  assert (R0 : bm16 0) by (unfold bm16; lia).
  rewrite word16_get by (try apply nth_range; try assumption; lia).
  rewrite Z.shiftl_mul_pow2 by lia. f_equal.
  assert (Z.of_nat k mod 4 = 0 \/ Z.of_nat k mod 4 = 1 \/ Z.of_nat k mod 4 = 2 \/ Z.of_nat k mod 4 = 3) as [E | [E | [E | E]]] by lia;
    rewrite E; cbn [Z.eqb Pos.eqb]; change (2 ^ 1) with 2; unfold q;
    match goal with |- ?x * 2 = 2 * ?y => replace x with y; [lia|f_equal; lia] end.
Qed.

(* ---- getBM16Child: index lookup (with the quirk) + either encoding ---- *)

Lemma cnt_nonneg : forall f n, 0 <= cnt f n.
Proof. induction n as [|n IH]; cbn [cnt]; [lia|]. destruct (f (Z.of_nat n)); cbn [b2z]; lia. Qed.

Theorem get_bm16_child_both : forall is_bm bitmaps bms fcs idx,
  0 <= idx < 64 * Z.of_nat (length bitmaps) -> bit_at bitmaps idx = true ->
  length fcs = length bms -> Forall bm16 bms ->
  (Z.to_nat (count_below bitmaps (Z.to_nat idx)) < length bms)%nat ->
  get_bm16_child is_bm bitmaps (offsets_quirk bitmaps) (enc_u32 bms fcs) (enc_bm bms) idx =
  Ok (2 * nth (Z.to_nat (count_below bitmaps (Z.to_nat idx))) bms 0).
Proof.
  intros is_bm bitmaps bms fcs idx Hi Hb Hl Hr Hk. unfold get_bm16_child.
  rewrite rank64_quirk_correct by assumption. cbn [bind fst].
  pose proof (cnt_nonneg (bit_at bitmaps) (Z.to_nat idx)) as Hnn. rewrite <- count_below_cnt in Hnn.
  remember (count_below bitmaps (Z.to_nat idx)) as r eqn:Er. clear Er.
  remember (Z.to_nat r) as n eqn:En.
  assert (r = Z.of_nat n) as -> by lia.
  destruct is_bm; [apply child_bm_enc|apply child_u32_enc]; assumption.
Qed.

(* ================= part 8 ================= *)
Lemma cnt_true : forall m, cnt (fun _ => true) m = Z.of_nat m.
Proof. induction m as [|m IH]; [reflexivity|]. cbn [cnt b2z]. lia. Qed.

Lemma popcount64_ones : forall m, 0 <= m <= 64 -> popcount64 (Z.ones m) = m.
Proof.
  intros m H. unfold popcount64. rewrite pop_fuel_cnt.
  rewrite (cnt_ext _ (fun p => true && (p <? Z.of_nat (Z.to_nat m)))).
  - rewrite (cnt_mask (fun _ => true)) by lia. rewrite cnt_true. lia.
  - intros p Hp. rewrite Z.testbit_ones_nonneg by lia. rewrite Z2Nat.id by lia. reflexivity.
Qed.

Lemma sum_pop_firstn_S : forall l m, (m < length l)%nat ->
  sum_pop (firstn (S m) l) = sum_pop (firstn m l) + popcount64 (nth m l 0).
Proof.
  induction l as [|x l IHl]; intros m Hm; [cbn [length] in Hm; lia|].
  destruct m as [|m]; [cbn [firstn sum_pop nth]; lia|].
  change (firstn (S (S m)) (x :: l)) with (x :: firstn (S m) l).
  change (firstn (S m) (x :: l)) with (x :: firstn m l).
  cbn [sum_pop nth]. rewrite IHl by (cbn [length] in Hm; lia). lia.
Qed.

Lemma full_words_length : forall k n, length (full_words k n) = k.
Proof. induction k as [|k IH]; intros n; cbn [full_words length]; [reflexivity|rewrite IH; reflexivity]. Qed.

Lemma full_words_nth : forall k n q, (q < k)%nat ->
  nth q (full_words k n) 0 = if 64 * (Z.of_nat q + 1) <=? n then Z.ones 64 else Z.ones (n - 64 * Z.of_nat q).
Proof.
  induction k as [|k IH]; intros n q H; [lia|].
  destruct q as [|q]; cbn [full_words nth].
  - change (Z.of_nat 0) with 0. rewrite Z.mul_0_r, Z.sub_0_r. destruct (64 <=? n) eqn:E1, (64 * (0 + 1) <=? n) eqn:E2; try reflexivity; lia.
  - rewrite IH by lia. rewrite Nat2Z.inj_succ.
    destruct (64 * (Z.of_nat q + 1) <=? n - 64) eqn:E1, (64 * (Z.succ (Z.of_nat q) + 1) <=? n) eqn:E2; try lia; try reflexivity.
    f_equal. lia.
Qed.

Lemma sum_pop_full : forall words q, (q <= length words)%nat ->
  (forall q', (q' < q)%nat -> nth q' words 0 = Z.ones 64) ->
  sum_pop (firstn q words) = 64 * Z.of_nat q.
Proof.
  induction q as [|q IH]; intros Hq Hf; [reflexivity|].
  rewrite sum_pop_firstn_S by lia. rewrite IH by (try lia; intros; apply Hf; lia).
  rewrite Hf by lia. rewrite popcount64_ones by lia. lia.
Qed.

Lemma concat_length_fixed : forall (vs : list (list Z)) size,
  Forall (fun v => Z.of_nat (length v) = size) vs ->
  Z.of_nat (length (concat vs)) = Z.of_nat (length vs) * size.
Proof.
  intros vs size H. induction H as [|v r Hv Hr IH]; [reflexivity|].
  cbn [concat length]. rewrite app_length. lia.
Qed.

Lemma concat_nth_fixed : forall (vs : list (list Z)) sz i,
  Forall (fun v => length v = sz) vs -> (i < length vs)%nat ->
  firstn sz (skipn (i * sz) (concat vs)) = nth i vs [].
Proof.
  intros vs sz i H. revert i. induction H as [|v r Hv Hr IH]; intros i Hi; [cbn [length] in Hi; lia|].
  destruct i as [|i]; cbn [concat nth].
  - cbn [Nat.mul skipn]. rewrite firstn_app, Hv, Nat.sub_diag. cbn [firstn]. rewrite <- Hv, firstn_all. apply app_nil_r.
  - rewrite skipn_app. rewrite skipn_all2 by (cbn [Nat.mul]; lia).
    cbn [app]. replace (S i * sz - length v)%nat with (i * sz)%nat by (cbn [Nat.mul]; lia).
    apply IH. cbn [length] in Hi. lia.
Qed.

Theorem fix_leaf_get : forall (vs : list (list Z)) size, 0 < size ->
  Forall (fun v => Z.of_nat (length v) = size) vs ->
  exists va, fix_leaf (concat vs) size = Ok va /\
    va_n va = Z.of_nat (length vs) /\ va_eltcnt va = Z.of_nat (length vs) /\ va_fixed va = size /\
    va_bytes va = concat vs /\
    forall i, (i < length vs)%nat -> vlen_get va (Z.of_nat i) = Ok (nth i vs []).
Proof.
  intros vs size Hs Hf.
  pose proof (concat_length_fixed vs size Hf) as Hlen.
  unfold fix_leaf. assert (size =? 0 = false) as -> by lia.
  rewrite Hlen. rewrite Z.div_mul by lia.
  set (n := Z.of_nat (length vs)) in *.
  set (words := full_words (Z.to_nat ((n + 63) / 64)) n).
  eexists. split; [reflexivity|]. cbn [va_n va_eltcnt va_fixed va_bytes].
  repeat (split; [reflexivity|]).
  intros i Hi. unfold vlen_get. cbn [va_n va_fixed va_words va_rank va_bytes].
  assert (n <=? Z.of_nat i = false) as -> by lia.
  rewrite Z.shiftr_div_pow2 by lia. change (2 ^ 6) with 64.
  change 63 with (Z.ones 6). rewrite Z.land_ones by lia. change (2 ^ 6) with 64.
  assert (Hwl : length words = Z.to_nat ((n + 63) / 64)) by apply full_words_length.
  set (q := Z.to_nat (Z.of_nat i / 64)). set (j := Z.of_nat i mod 64).
  assert (Hq : (q < length words)%nat) by lia.
  rewrite nth_res_in by lia. cbn [bind]. fold q.
  assert (Hw : exists m, nth q words 0 = Z.ones m /\ j < m <= 64).
  { unfold words. rewrite full_words_nth by lia.
    destruct (64 * (Z.of_nat q + 1) <=? n) eqn:E; eexists; (split; [reflexivity|lia]). }
  destruct Hw as (m & Hw & Hm). rewrite Hw.
  assert (Hbit : Z.land (Z.ones m) (Z.shiftl 1 j) =? 0 = false).
  { apply Z.eqb_neq. intros Hz.
    assert (Ht : Z.testbit (Z.land (Z.ones m) (Z.shiftl 1 j)) j = true).
    { rewrite Z.land_spec, Z.testbit_ones_nonneg by lia. rewrite Z.shiftl_1_l, Z.pow2_bits_true by lia.
      assert (j <? m = true) as -> by lia. reflexivity. }
    rewrite Hz, Z.bits_0 in Ht. discriminate. }
  rewrite Hbit.
  rewrite nth_res_in by (unfold offsets_true; rewrite offsets_from_length; lia). cbn [bind]. fold q.
  unfold offsets_true. rewrite offsets_from_nth by exact Hq.
  rewrite sum_pop_full.
  2: lia.
  2:{ intros q' Hq'. unfold words. rewrite full_words_nth by lia.
      assert (64 * (Z.of_nat q' + 1) <=? n = true) as -> by lia. reflexivity. }
  rewrite Z.land_ones by lia. rewrite Z.ones_mod_pow2 by lia. rewrite popcount64_ones by lia.
  assert (Hith : 0 + 64 * Z.of_nat q + j = Z.of_nat i) by lia. rewrite Hith.
  match goal with |- (if ?c then _ else _) = _ => assert (c = false) as -> by nia end.
  f_equal.
  replace (Z.to_nat (Z.of_nat i * size)) with (i * Z.to_nat size)%nat by nia.
  apply concat_nth_fixed; [|exact Hi].
  eapply Forall_impl; [|exact Hf]. intros v Hv. cbv beta in Hv. lia.
Qed.

(* ================= summaries used by props/C06.v ================= *)
Theorem prefix_conversion_all : forall bits : list bool,
  conv_prefix (ctl_of_bits bits) = Ok (bitstr_of_bits bits) /\
  length (ctl_of_bits bits) = length (bitstr_of_bits bits) /\
  bitstr_len (bitstr_of_bits bits) = Z.of_nat (length bits) /\
  bitstr_bits (bitstr_of_bits bits) = bits.
Proof.
  intros bits. split; [apply conv_prefix_ctl|]. split; [apply ctl_bitstr_same_length|].
  split; [apply bitstr_len_of_bits|apply bitstr_bits_of_bits].
Qed.

Theorem prefix_buffer_all : forall bss : list (list bool),
  conv_all (map ctl_of_bits bss) = Ok (map bitstr_of_bits bss) /\
  map (@length Z) (map ctl_of_bits bss) = map (@length Z) (map bitstr_of_bits bss).
Proof. intros bss. split; [apply conv_all_ctl|apply conv_all_positions]. Qed.
