(* EndToEndLegacy.v - the two legacy branches of SlimTrie.Unmarshal closed END TO END:
   bytes of an old writer -> Frame.unmarshal (header, version gate, pbcmpl sections, protobuf)
   -> the legacy conversion -> the instance state (Instance.v) -> queries over it (EndToEnd.v).
   Model file: definitions only.  Proofs: EndToEndLegacyWireProofs.v (protobuf / frame level),
   EndToEndLegacyMsgProofs.v (queries over the message of a trie built with ANY initial isBig
   flag), EndToEndLegacyProofs.v (the compositions); closing theorems in props/C06f.v.

   Instance.v keeps the two conversions abstract (conv510 : slim -> slim,
   conv3 : bytes -> bytes -> bytes -> slim).  Here they are INSTANTIATED with the functions
   that C06d / C06e / C06c / L3 tie to the Go code:

   (A) 0.5.10 / 0.5.11  (one pbcmpl section holding the old Slim message)
       ser_0510 o            proto.Marshal of the old message: today's fields in tag order with
                             the since-removed scalars 12 BigInnerOffset (int32), 13
                             ShortMinusInner (int32, negative: 10 bytes) and 15 ShortMask
                             (uint64) at their places 11 < 12 < 13 < 14 < 15 < 20 (twin of
                             harness/c06_writers.go: c06Slim0510 + proto.Marshal)
       wire_0510 o           what proto.Unmarshal(&Slim{}) makes of those bytes: the known
                             fields, and fields 12/13/15 kept verbatim in XXX_unrecognized
       marshal_0510 ver o    pbcmpl.Marshal with header version "0.5.10" / "0.5.11"
       conv510_e2e esize w   before000512InnerPrefixTobitstr + before000512FixLeafSize on the
                             parsed message IN PLACE (Legacy510.conv510_msg on the fields;
                             XXX_unrecognized stays where it is)
   (B) three-array layouts 0.5.0 - 0.5.9  (three pbcmpl sections of array.Array32)
       conv3_e2e esz c s l   proto.Unmarshal of the three accepted bodies
                             (ArrWire.parse_array32), the accessors per old id
                             (LegacyBytes.old_of_arrays), before000510ToNewChildrenArray
                             (LegacyConv.convert), c.build() + c.buildLeaves(nil)
                             (Bits.encode_msg on the node view, no prefixes), as the wire record

   A Go panic inside a conversion is outside Instance.v's model (its header says so); the
   two functions return the empty message there.  The theorems show that this branch is
   never taken on the streams they speak about (they state the Ok / Val result). *)
From Coq Require Import List NArith ZArith Bool.
From Coq.Strings Require Import Byte.
From Slim Require Import Base Keys Model BitmapRank.
From Slim Require Bits Legacy510 LegacyConv ArrWire LegacyBytes.
From Slim Require Import Varint Proto Semver Frame Instance Wire EndToEnd.
Import ListNotations.
Local Open Scope N_scope.

Definition set_unk (s : slim) (u : list byte) : slim :=
  mkSlim (s_bigcnt s) (s_shortsize s) (s_nodetype s) (s_inners s) (s_shortbm s) (s_shorttable s)
         (s_innerpref s) (s_leafpref s) (s_leaves s) u.

(* ====================================================================== *)
(* (A) 0.5.10 / 0.5.11                                                     *)
(* ====================================================================== *)

(* proto3 uint64 scalar: omitted when zero *)
Definition tk_u64 (tag v : N) : list tok := if v =? 0 then [] else [mk_var tag v].

(* the three removed fields, as written *)
Definition toks_removed (z12 z13 : Z) (v15 : N) : list tok :=
  tk_int32 12 z12 ++ tk_int32 13 z13 ++ tk_u64 15 v15.

(* the 0.5.10 message: the fields of [s] plus 12, 13, 15, in ascending tag order *)
Definition toks_old_slim (s : slim) (z12 z13 : Z) (v15 : N) : list tok :=
  tk_int32 11 (s_bigcnt s) ++
  tk_int32 12 z12 ++
  tk_int32 13 z13 ++
  tk_int32 14 (s_shortsize s) ++
  tk_u64 15 v15 ++
  tk_msg ser_bitmap 20 (s_nodetype s) ++
  tk_msg ser_bitmap 30 (s_inners s) ++
  tk_msg ser_bitmap 31 (s_shortbm s) ++
  tk_packed 32 (s_shorttable s) ++
  tk_msg ser_vlen 38 (s_innerpref s) ++
  tk_msg ser_vlen 58 (s_leafpref s) ++
  tk_msg ser_vlen 60 (s_leaves s).

Definition ser_0510 (o : Legacy510.msg510) : list byte :=
  ser_toks (toks_old_slim (to_wire (Legacy510.o_msg o)) (Z.of_N (Legacy510.o_bigoff o))
                          (Legacy510.o_shortminus o) (Legacy510.o_mask o)).

(* XXX_unrecognized after proto.Unmarshal: canonical tag + value bytes of 12, 13, 15 in
   stream order *)
Definition unk_0510 (o : Legacy510.msg510) : list byte :=
  ser_toks (toks_removed (Z.of_N (Legacy510.o_bigoff o)) (Legacy510.o_shortminus o) (Legacy510.o_mask o)).

Definition wire_0510 (o : Legacy510.msg510) : slim := set_unk (to_wire (Legacy510.o_msg o)) (unk_0510 o).

Definition ver_0_5_10 : list byte := [x30; x2e; x35; x2e; x31; x30].   (* "0.5.10" *)
Definition ver_0_5_11 : list byte := [x30; x2e; x35; x2e; x31; x31].   (* "0.5.11" *)

(* pbcmpl.Marshal(w, m) with m.GetVersion() = ver *)
Definition marshal_0510 (ver : list byte) (o : Legacy510.msg510) : option (list byte) :=
  frame ver (ser_0510 o).

(* the old message is a value of the Go types (int32 / uint32 / uint64 ranges, every
   length-delimited payload below 2^64) and its body is below 2^63 bytes *)
Definition wf_0510 (o : Legacy510.msg510) : bool :=
  wf_slim (to_wire (Legacy510.o_msg o)) &&
  int32_ok (Z.of_N (Legacy510.o_bigoff o)) && int32_ok (Legacy510.o_shortminus o) &&
  u64_ok (Legacy510.o_mask o) &&
  (blen (ser_0510 o) <? two63).

(* st.inner after before000512InnerPrefixTobitstr + before000512FixLeafSize;
   esize = st.encoder.GetEncodedSize(nil) *)
Definition conv510_e2e (esize : N) (w : slim) : slim :=
  match Legacy510.conv510_msg esize (of_wire w) with
  | Ok L => set_unk (to_wire L) (s_unk w)
  | Err _ => empty_slim              (* a Go panic: outside Instance.v's model *)
  end.

(* ====================================================================== *)
(* (B) three-array layouts                                                 *)
(* ====================================================================== *)

(* c.build() + ns.Leaves = c.buildLeaves(nil) on what the conversion loop added *)
Definition build_views (views : list nview) (leaves : option (list (list byte))) : out Bits.msg :=
  Bits.encode_msg views false false leaves.

(* st.inner after before000510; esz = st.encoder.GetEncodedSize(nil) *)
Definition conv3_e2e (esz : nat) (c s l : list byte) : slim :=
  match ArrWire.parse_array32 c, ArrWire.parse_array32 s, ArrWire.parse_array32 l with
  | Some ch, Some st, Some lv =>
    match LegacyBytes.load_arrays esz (ch, st, lv) with
    | LegacyBytes.LOk (views, leaves) =>
      match build_views views leaves with
      | Val m => to_wire m
      | Panic => empty_slim          (* a Go panic: outside Instance.v's model *)
      end
    | LegacyBytes.LErr _ => empty_slim
    end
  | _, _, _ => empty_slim            (* unreachable: an accepted body parses (ArrWireProofs) *)
  end.

(* ====================================================================== *)
(* the instance machine with both conversions in place                     *)
(* ====================================================================== *)
Section Machine.
  Variable Levels : Type.
  Variable init_levels : slim -> Levels.
  Variable reset_levels : Levels.
  Variable esize : N.        (* GetEncodedSize(nil) as the 0.5.10 branch uses it (int32 arithmetic) *)
  Variable esz : nat.        (* the same number as the three-array branch uses it (slice bounds) *)

  Definition run_legacy (st : inst VarsT Levels) (h : list op) : inst VarsT Levels :=
    run compat_gen cur_gen VarsT Levels ivars init_levels reset_levels
        (conv510_e2e esize) (conv3_e2e esz) st h.

  Definition installed_legacy (w : slim) : inst VarsT Levels :=
    installed VarsT Levels ivars init_levels w.
End Machine.

(* ====================================================================== *)
(* executable entry points of the correspondence (coq/extract/E2ELegacyX.v) *)
(* ====================================================================== *)

(* the 0.5.10 / 0.5.11 writer from keys and encoded values down to the stream: today's
   builder with the layout's prefix options and DedupValue off (as harness/c06_writers.go:
   c06WriteSlim), Legacy510.encode_0510, marshal_0510 *)
Definition write_0510 (inner leaf : bool) (ver : list byte) (keys : list key) (vals : list (list byte))
  : option (list byte) :=
  match build {| o_dedup := false; o_inner := inner; o_leaf := leaf |} keys (Some vals) with
  | Ok T =>
    match Legacy510.encode_0510 T with
    | Val Om => if wf_0510 Om then marshal_0510 ver Om else None
    | Panic => None
    end
  | Err _ => None
  end.

(* the machine without a level table (Levels := unit) *)
Definition inst_e2e : Type := inst VarsT unit.
Definition fresh_e2e : inst_e2e := fresh VarsT unit ivars (fun _ => tt).
Definition step_e2e (esize : N) (esz : nat) (st : inst_e2e) (o : op) : inst_e2e * option outcome :=
  step compat_gen cur_gen VarsT unit ivars (fun _ => tt) tt (conv510_e2e esize) (conv3_e2e esz) st o.

(* a loop budget that covers the height of the trie the instance holds *)
Definition fuel_e2e (st : inst_e2e) : nat :=
  match i_inner _ _ st with
  | IMsg w => S (S (N.to_nat (Bits.node_count (of_wire w))))
  | IPartial => O
  end.
Definition getid_e2e (st : inst_e2e) (q : key) : res (option nat) := inst_getid unit st (fuel_e2e st) q.
Definition get_e2e (st : inst_e2e) (q : key) : res found := inst_get unit st (fuel_e2e st) q.
Definition searchid_e2e (st : inst_e2e) (q : key) := inst_searchid unit st (fuel_e2e st) q.
