(* EncodersTableProofs.v - the statements of EncodersProofs.v instantiated on the
   codec table that `harness genc15` regenerates from encode/int.go, int8.go and
   nativeint.go (SlimGen.Gen_IntCodecs).  The table is finite, so the boolean
   check of each row is run by vm_compute; the per-value statements follow from
   the reflection lemma codec_table_ok (they are NOT enumerated). *)
From Coq Require Import List ZArith NArith Bool String.
From Slim Require Import Encoders EncodersProofs.
From SlimGen Require Import Gen_IntCodecs.
Import ListNotations.

Lemma g_int_codecs_wf :
  forallb (fun g => src_codec_wf g && src_codec_le g) g_int_codecs = true.
Proof. vm_compute. reflexivity. Qed.

Lemma g_int_codecs_ok : Forall codec_ok g_int_codecs.
Proof. apply codec_table_ok. exact g_int_codecs_wf. Qed.

(* the codec types the source declares, with the width (bytes), signedness and
   byte order the model is instantiated with; Int is the native int, 64 bit on
   the platform of the check *)
Lemma g_int_codecs_table :
  map (fun g => (sc_name g, (ic_width (codec_of_src g), ic_signed (codec_of_src g), ic_big (codec_of_src g))))
      g_int_codecs =
  [("U16", (2, false, false)); ("U32", (4, false, false)); ("U64", (8, false, false));
   ("I16", (2, true, false)); ("I32", (4, true, false)); ("I64", (8, true, false));
   ("I8", (1, true, false)); ("Int", (8, true, false))]%string%nat.
Proof. vm_compute. reflexivity. Qed.

(* the whole property (the statement is C15_statement in props/C15.v) *)
Lemma c15_all :
  (forall e v rest, in_domain e v -> roundtrip_ok e v rest) /\
  Forall codec_ok g_int_codecs /\
  (forall s : list Byte.byte, (Z.of_nat (List.length s) <= 65535)%Z ->
     exists b0 b1, s16_encode s = b0 :: b1 :: s /\
                   (Z_of_byte b0 * 256 + Z_of_byte b1 = Z.of_nat (List.length s))%Z /\
                   [b0; b1] = ord_bytes true 2 (Z.of_nat (List.length s))) /\
  (forall big t v, te_bytes big t v = flat_map (leaf_bytes big) (leaves t v)) /\
  (forall big w x i, (i < w)%nat ->
     Z_of_byte (nth i (ord_bytes big w x) Byte.x00) =
     ((x / 2 ^ (8 * Z.of_nat (if big then w - 1 - i else i))) mod 256)%Z).
Proof.
  split; [exact enc_roundtrip|]. split; [exact g_int_codecs_ok|]. split; [exact s16_layout|].
  split; [exact te_layout | exact ord_bytes_nth].
Qed.
