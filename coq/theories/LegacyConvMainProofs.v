(* LegacyConvMainProofs.v - the closing statements about the conversion of a
   three-array legacy stream: for every strictly ascending key list the loader's
   conversion of the table the old writer produced is, node for node, the trie
   today's builder makes without big nodes, prefixes and de-duplication. *)
From Slim Require Import Base Keys KeysProofs ListFacts Model TrieInv BuildProofs AcceptProofs OrderProofs
     QueryProofs Stat StatProofs LegacyConv LegacyConvProofs LegacyConvSimProofs.
From Coq Require Import Sorting.Sorted Sorting.Permutation ZifyNat ZifyBool.

Arguments Nat.div : simpl never.
Arguments Nat.modulo : simpl never.

(* ---------- the node view in id order ---------- *)
Lemma node_views_subtrees : forall t, node_views t = map view_of (subtrees t).
Proof.
  induction t as [id ord tail eidx|id big step pfx fc ch IH] using tree_ind'; [reflexivity|].
  rewrite subtrees_inner. cbn [map view_of node_views]. f_equal.
  induction ch as [|[x c] ch IHc]; [reflexivity|].
  inversion IH as [|? ? Hc Hr]; subst. cbn [flat_map snd]. rewrite map_app, <- (IHc Hr). cbn [snd] in Hc. rewrite Hc. reflexivity.
Qed.

Lemma nv_id_view_of t : nv_id (view_of t) = tree_id t.
Proof. destruct t; reflexivity. Qed.

(* [views] is the node view of T sorted by node id (ids are 0, 1, 2, ..) - what
   the correspondence driver prints for a model trie *)
Definition trie_views (T : trie) (views : list nview) : Prop :=
  match t_root T with
  | None => views = []
  | Some r => Permutation views (node_views r) /\ map nv_id views = List.seq 0 (length views)
  end.

Lemma bfs_views_ok f r : bfs_ok f 0 [r] ->
  Permutation (map view_of (nodes_bfs f [r])) (node_views r) /\
  map nv_id (map view_of (nodes_bfs f [r])) = List.seq 0 (length (map view_of (nodes_bfs f [r]))).
Proof.
  intros H. split.
  - rewrite node_views_subtrees. apply Permutation_map. apply Permutation_sym.
    pose proof (subtrees_forest_bfs _ _ _ H) as P. cbn [flat_map] in P. rewrite app_nil_r in P. exact P.
  - rewrite map_map, map_length. rewrite <- (nodes_bfs_ids _ _ _ H). apply map_ext. intros t. apply nv_id_view_of.
Qed.

(* ---------- the root level ---------- *)
Lemma old_root_ok keys : AdjSorted keys -> keys <> [] ->
  sub_ok (max_nibs keys) (max_nibs keys + 3) (old_root keys).
Proof.
  intros Hs Hne. split.
  { rewrite <- (root_subset_legacy keys None). apply root_inv; assumption. }
  split; [apply mk_ents_all_kept|]. split.
  { intros e He. cbn [old_root s_ents] in He. destruct (mk_ents_in _ _ _ _ He) as [Hok Hin].
    rewrite Hok. apply max_nibs_bound. exact Hin. }
  cbn [old_root s_from]. split; lia.
Qed.

(* ---------- the old writer never runs out of fuel or into an empty subset ---------- *)
Lemma stored_step_le st : stored_step st <= st.
Proof. unfold stored_step. destruct (1 <? st); lia. Qed.

Lemma old_level_total ls M f : forall ss, Forall (sub_ok M (S f)) ss ->
  exists ns ks, old_level ls ss = Ok (ns, ks) /\ Forall (sub_ok M f) ks /\ (ks <> [] -> 1 <= f) /\
                Forall (fun n => on_step n <= M + 1) ns.
Proof.
  induction ss as [|s r IH]; intros H.
  - exists [], []. split; [reflexivity|]. split; [constructor|]. split; [congruence|constructor].
  - inversion H as [|? ? Hs Hr]; subst. destruct (IH Hr) as (ns & ks & Hl & Hk & Hf & Hst).
    pose proof Hs as Hsok. destruct Hs as (I & K & B & HM & HF).
    destruct (s_ents s) as [|e0 [|e1 r']] eqn:Es.
    + destruct (si_kept s I) as (e & He & _). rewrite Es in He. destruct He.
    + eexists _, ks. cbn [old_level]. unfold old_process. rewrite Es. cbn [bind]. rewrite Hl. cbn [bind app].
      split; [reflexivity|]. split; [assumption|]. split; [assumption|].
      constructor; [|exact Hst]. cbn [on_step].
      pose proof (B e0 ltac:(rewrite Es; left; reflexivity)) as Hb.
      pose proof (stored_step_le (length (e_nibs e0) + 1 - s_from s)).
      destruct ls; lia.
    + exists (node_old s e0 e1 r' :: ns), (node_okids s e0 e1 r' ++ ks).
      cbn [old_level]. rewrite (node_old_process ls s I e0 e1 r' Es). cbn [bind]. rewrite Hl. cbn [bind].
      split; [reflexivity|].
      pose proof (node_facts s I K e0 e1 r' Es) as F.
      assert (forall k, In k (node_okids s e0 e1 r') -> sub_ok M f k /\ 1 <= f) as Hkid.
      { intros k Hin. apply (kid_sub_ok M f s _ _ k Hsok F). unfold node_kids. apply in_or_app. right. exact Hin. }
      split; [|split].
      * apply Forall_app. split; [|exact Hk]. rewrite Forall_forall. intros k Hin. apply Hkid. exact Hin.
      * intros _. specialize (HF ltac:(cbn; lia)). lia.
      * constructor; [|exact Hst]. unfold node_old. cbn [on_step].
        pose proof (stored_step_le (sub_ws s + 1 - s_from s)).
        pose proof (sub_w_len false s e0 ltac:(rewrite Es; cbn; lia) ltac:(rewrite Es; left; reflexivity)) as Hw.
        rewrite sub_w_false in Hw.
        pose proof (B e0 ltac:(rewrite Es; left; reflexivity)) as Hb. lia.
Qed.

Lemma old_levels_total ls M : forall f ss, Forall (sub_ok M f) ss -> (ss <> [] -> 1 <= f) ->
  exists ot, old_levels f ls ss = Ok ot /\ Forall (fun n => on_step n <= M + 1) ot.
Proof.
  induction f as [|f IH]; intros ss H Hne.
  - destruct ss; [exists []; split; [reflexivity|constructor]|specialize (Hne ltac:(discriminate)); lia].
  - rewrite old_levels_unfold. destruct (old_level_total ls M f ss H) as (ns & ks & Hl & Hk & Hf & Hst).
    rewrite Hl. cbn [bind]. destruct (IH ks Hk Hf) as (rest & Hr & Hst'). rewrite Hr. cbn [bind].
    eexists; split; [reflexivity|]. apply Forall_app. split; assumption.
Qed.

Theorem old_write_total ls keys : AdjSorted keys ->
  exists ot, old_write_raw ls keys = Ok ot /\ Forall (fun n => on_step n <= max_nibs keys + 1) ot.
Proof.
  intros Hs. destruct keys as [|k0 kr]; [exists []; split; [reflexivity|constructor]|].
  unfold old_write_raw.
  apply (old_levels_total ls (max_nibs (k0 :: kr))).
  - constructor; [apply old_root_ok; [exact Hs|discriminate]|constructor].
  - intros _. lia.
Qed.

(* keys of at most 32767 bytes (65534 nibbles) are always within the 16-bit steps *)
Theorem old_write_accepts ls keys :
  AdjSorted keys -> (forall k, In k keys -> (N.of_nat (length k) <= 32767)%N) ->
  exists ot, old_write ls keys = Ok ot.
Proof.
  intros Hs Hlen. destruct (old_write_total ls keys Hs) as (ot & H & Hst).
  unfold old_write. rewrite H. cbn [bind].
  assert (max_nibs keys <= 2 * N.to_nat 32767) as Hm.
  { apply max_nibs_le. intros k Hk. specialize (Hlen k Hk). lia. }
  assert (old_fits ot = true) as ->; [|eexists; reflexivity].
  unfold old_fits. apply forallb_forall. intros n Hn. rewrite Forall_forall in Hst. specialize (Hst n Hn).
  apply N.leb_le. lia.
Qed.

(* the only way the old writer refuses a strictly ascending key list is a step that
   does not fit 16 bits *)
Theorem old_write_outcomes ls keys : AdjSorted keys ->
  (exists ot, old_write ls keys = Ok ot) \/ old_write ls keys = Err EStepTooLong.
Proof.
  intros Hs. destruct (old_write_total ls keys Hs) as (ot & H & _). unfold old_write. rewrite H. cbn [bind].
  destruct (old_fits ot); [left; eexists; reflexivity|right; reflexivity].
Qed.

(* ---------- the conversion theorem ---------- *)
Theorem legacy_conversion ls keys vals ot :
  AdjSorted keys -> old_write ls keys = Ok ot ->
  exists T views lidx,
    build_gen false legacy_opts keys vals = Ok T /\
    convert ot = Ok (views, lidx) /\
    trie_views T views /\
    t_leaves T = select_leaves vals lidx /\ t_innerpfx T = false /\ t_leafpfx T = false.
Proof.
  intros Hs Hw. unfold old_write in Hw. destruct (old_write_raw ls keys) as [ot'|] eqn:Hraw; [|discriminate].
  cbn [bind] in Hw. destruct (old_fits ot') eqn:Hfit; [|discriminate]. inversion Hw; subst ot'. clear Hw.
  destruct keys as [|k0 kr].
  { cbn in Hraw. inversion Hraw; subst ot. exists empty_trie, [], []. cbn [build_gen convert].
    repeat split. destruct vals; reflexivity. }
  set (keys := k0 :: kr) in *.
  assert (keys <> []) as Hne by discriminate.
  unfold old_write_raw in Hraw. fold keys in Hraw. cbv iota in Hraw.
  set (M := max_nibs keys) in *.
  destruct (main_sim ls ot M (M + 3) [(None, old_root keys)] [] ot 0 0 (2 * length ot + 1)) as (forest & lidx & Hb & Hc).
  - constructor; [apply old_root_ok; assumption|constructor].
  - constructor; [exact Logic.I|constructor].
  - intros _. lia.
  - exact Hraw.
  - reflexivity.
  - exact Hfit.
  - cbn [map fst n_some]. lia.
  - cbn [map fst snd celts_of olds length Nat.add] in Hb, Hc.
    destruct (build_levels_bfs _ _ _ _ _ _ _ _ Hb) as [Hbfs Hfl].
    destruct forest as [|r [|r2 rest]]; cbn in Hfl; try discriminate.
    exists {| t_root := Some r; t_innerpfx := false; t_leafpfx := false; t_leaves := select_leaves vals lidx |},
           (map view_of (nodes_bfs (M + 3) [r])), lidx.
    split.
    { rewrite build_gen_unfold by exact Hne. rewrite (proj2 (check_order_none keys) Hs). cbv zeta.
      rewrite to_keep_legacy, mk_ents_repeat. fold (old_root keys). fold M. unfold bind. rewrite Hb. reflexivity. }
    split.
    { assert (ot <> []) as Hot.
      { replace (M + 3) with (S (M + 2)) in Hraw by lia. rewrite old_levels_unfold in Hraw. unfold bind in Hraw.
        destruct (old_level ls [old_root keys]) as [[ns ks]|] eqn:El; [|discriminate].
        destruct (old_levels (M + 2) ls ks); [|discriminate]. inversion Hraw.
        apply old_level_length in El. destruct ns; [discriminate|discriminate]. }
      unfold convert. destruct ot as [|n0 ot0]; [congruence|]. exact Hc. }
    split; [|repeat split].
    unfold trie_views. cbn [t_root]. apply bfs_views_ok. exact Hbfs.
Qed.

(* the same, read from today's builder: whenever the old writer could write the key
   list, today's builder accepts it and the converted table is its trie *)
Corollary legacy_conversion_unique ls keys vals ot T :
  AdjSorted keys -> old_write ls keys = Ok ot -> build_gen false legacy_opts keys vals = Ok T ->
  exists views lidx, convert ot = Ok (views, lidx) /\ trie_views T views /\
                     t_leaves T = select_leaves vals lidx.
Proof.
  intros Hs Hw Hb. destruct (legacy_conversion ls keys vals ot Hs Hw) as (T' & views & lidx & Hb' & Hc & Hv & Hl & _).
  rewrite Hb in Hb'. inversion Hb'; subst T'. exists views, lidx. auto.
Qed.

(* the converse reading: whenever today's builder accepts the key list and the steps
   fit the old 16-bit field, the old table exists and converts to exactly that trie *)
Theorem legacy_conversion_of_build ls keys vals T :
  AdjSorted keys -> build_gen false legacy_opts keys vals = Ok T ->
  old_write ls keys <> Err EStepTooLong ->
  exists ot views lidx, old_write ls keys = Ok ot /\ convert ot = Ok (views, lidx) /\
                        trie_views T views /\ t_leaves T = select_leaves vals lidx.
Proof.
  intros Hs Hb Hne. destruct (old_write_outcomes ls keys Hs) as [(ot & Hw)|He]; [|contradiction].
  destruct (legacy_conversion_unique ls keys vals ot T Hs Hw Hb) as (views & lidx & H).
  exists ot, views, lidx. tauto.
Qed.
