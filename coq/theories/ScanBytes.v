(* ScanBytes.v - the BYTE-level key buffer of the scan iterator, as the Go code
   performs it: scanStackElt.{init, updateLabel, appendLabel, appendInnerPrefix,
   appendLeafPrefix} of trie/slimtrie_scan.go on a [list byte] with the three
   cursors prefixStart / prefixEnd / labelEnd counted in BITS, bitstr.New /
   bitstr.Len of github.com/openacid/low (what setPrefix stores for an inner
   prefix and how getNode measures it), and the iterator of Scan.v with these
   buffer operations in place of the nibble ones (same control: getGEPath is
   shared, it never touches the buffer).

   Bit positions are [nat] (indexes); byte values are computed on [N] with the
   bit operations Go uses (&, &^, |, <<) and truncated to uint8 by [byte_trunc].
   Go's int32 operations on the (non-negative) positions:
       x >> 3 = x / 8        x & 7 = x mod 8        x & (^7) = x - x mod 8
   (int32 overflow, i.e. positions >= 2^31 = keys of 256 MiB, is not modelled).

   Error outcomes (never a default value):
     EPanic 41  the buffer is shorter than the length it is cut to (Go would
                reslice into stale capacity or panic: outside the model);
     EPanic 47  index -1 (the last byte of an empty slice);
     EPanic 60  bitstr.New: slice bounds out of range;
     EPanic 62  bitstr.Len / appendInnerPrefix on an empty bitstr;
     EPanic 63  bitstr.Len would be negative (not a bitstr made by New);
     EPanic 43, 44, 45, 40 as in Scan.v.
   No proofs in this file. *)
From Slim Require Import Base Keys Model Scan.

(* ---- int32 position arithmetic ---- *)
Definition shr3 (x : nat) : nat := x / 8.          (* x >> 3 *)
Definition and7 (x : nat) : nat := x mod 8.        (* x & 7 *)
Definition clr7 (x : nat) : nat := x - x mod 8.    (* x & (^7) *)

(* ---- uint8 arithmetic ---- *)
(* the conversion byte(x) / the wrap-around of uint8 results *)
Definition byte_trunc (n : N) : byte :=
  match Byte.of_N (n mod 256) with Some b => b | None => x00 end.

Definition mask8 (w : nat) : N := N.ones (N.of_nat w).                   (* byte(bitmap.Mask[w]),  w <= 8 *)
Definition rmask8 (w : nat) : N := N.ldiff 255 (N.ones (N.of_nat w)).   (* byte(bitmap.RMask[w]) = byte(^Mask[w]) *)

(* c & m *)
Definition byte_and (c : byte) (m : N) : byte := byte_trunc (N.land (Byte.to_N c) m).

(* c&(^mask) | (byte(label) & mask) *)
Definition merge_label (c : byte) (label : nat) (mask : N) : byte :=
  byte_trunc (N.lor (N.ldiff (Byte.to_N c) mask) (N.land (N.of_nat label mod 256) mask)).

(* (byte(label) & mask) << uint32(8 - labelSize) *)
Definition fresh_label (label lw : nat) (mask : N) : byte :=
  byte_trunc (N.shiftl (N.land (N.of_nat label mod 256) mask) (N.of_nat (8 - lw))).

(* bits.OnesCount8 *)
Definition popcount8 (b : byte) : nat :=
  length (filter (N.testbit (Byte.to_N b)) [0; 1; 2; 3; 4; 5; 6; 7]%N).

(* buf[len(buf)-1] = f(buf[len(buf)-1]) *)
Definition upd_last (f : byte -> byte) (l : list byte) : res (list byte) :=
  match rev l with
  | [] => Err (EPanic 47)
  | c :: r => Ok (rev r ++ [f c])
  end.

(* ---- github.com/openacid/low/bitstr ---- *)
(* New(s, fromBit, toBit) *)
Definition bitstr_new (s : list byte) (fromBit toBit : nat) : res (list byte) :=
  if Nat.eqb fromBit toBit && Nat.eqb (and7 fromBit) 0 then Ok [xff]
  else
    let fromByte := shr3 fromBit in
    let toByte := shr3 (toBit + 7) in
    if (toByte <? fromByte) || (length s <? toByte) then Err (EPanic 60)   (* make / s[fromByte:toByte] *)
    else
      let l := toByte - fromByte in
      let payload := firstn l (skipn fromByte s) in
      let mask := rmask8 ((8 - and7 toBit) mod 8) in        (* RMask[(8-toBit)&7] *)
      do masked <- upd_last (fun c => byte_and c mask) payload;   (* bitStr[l-1] &= mask *)
      Ok (masked ++ [byte_trunc mask]).                           (* bitStr[l] = mask *)

(* Len(bs) = len(bs)<<3 - 16 + OnesCount8(bs[len-1]) *)
Definition bitstr_len (bs : list byte) : res nat :=
  match rev bs with
  | [] => Err (EPanic 62)
  | m :: _ =>
      let x := 8 * length bs + popcount8 m in
      if x <? 16 then Err (EPanic 63) else Ok (x - 16)
  end.

(* ---- nibble lists as bytes ---- *)
Definition byte_of_nib2 (a b : nat) : byte := byte_trunc (N.of_nat (16 * a + b)).

(* two nibbles per byte, high half first; an odd trailing nibble is the high
   half of a byte whose low half is 0 *)
Fixpoint pack0 (ns : list nat) : list byte :=
  match ns with
  | [] => []
  | a :: r =>
      match r with
      | [] => [byte_of_nib2 a 0]
      | b :: r' => byte_of_nib2 a b :: pack0 r'
      end
  end.

(* the bitstr of a nibble list: payload bytes + the byte of valid bits of the
   last payload byte (the empty bitstr is the single byte 0xff) *)
Definition bitstr_of_nibs (p : list nat) : list byte :=
  match p with
  | [] => [xff]
  | _ => pack0 p ++ [if Nat.even (length p) then xff else xf0]
  end.

(* the bitstr of the nibbles [even_down from, to) of a key: what setPrefix stores
   for prefixBitFrom = 4*from, prefixBitTo = 4*to (ScanBytesProofs.bitstr_new_nibs) *)
Definition key_prefix_bitstr (k : key) (from to : nat) : list byte :=
  bitstr_of_nibs (firstn (to - even_down from) (skipn (even_down from) (nibs k))).

(* the abstraction: the first n nibbles of a byte buffer *)
Definition unpack_n (n : nat) (buf : list byte) : list nat := firstn n (nibs buf).

(* a byte buffer represents a nibble buffer: it has ceil(n/2) bytes and its
   first n nibbles are the nibble buffer (when n is odd the low half of the
   last byte is unconstrained: whatever the code left there) *)
Definition represents (nb : list nat) (bb : list byte) : Prop :=
  unpack_n (length nb) bb = nb /\ length bb = (length nb + 1) / 2.

(* ---- scanStackElt ---- *)
Record bframe := {
  bf_big : bool;                    (* bitTo - bitFrom = 257 *)
  bf_ch : list (nat * tree);        (* the label bitmap with the children it points to *)
  bf_idx : nat;                     (* ithLabel *)
  bf_ps : nat; bf_pe : nat; bf_le : nat;   (* prefixStart, prefixEnd, labelEnd: bit indexes in the buffer *)
  bf_lw : nat;                      (* labelWidth: 0, 4 or 8 *)
  bf_label : nat                    (* label *)
}.

(* updateLabel, labelBit = lb: (labelWidth, label) *)
Definition label_wl (big : bool) (lb : nat) : nat * nat :=
  match lb with
  | 0 => (0, 0)
  | S v => (if big then 8 else 4, v)
  end.

(* what getNode delivers as qr.innerPrefix for a node whose prefix is the
   nibble list of the tree model *)
Definition node_bitstr (t : tree) : option (list byte) :=
  match node_pfx t with Some p => Some (bitstr_of_nibs p) | None => None end.

(* init (+ the nextLabel/updateLabel it ends with) *)
Definition b_init_frame (t : tree) (child : option tree) (bufBitIdx : nat) : res bframe :=
  match t with
  | Leaf _ _ _ _ => Err (EPanic 45)
  | Inner _ big _ _ fc ch =>
      do pe <- match node_bitstr t with
               | Some bs => do n <- bitstr_len bs; Ok (clr7 bufBitIdx + n)    (* bufBitIdx&(^7) + qr.innerPrefixLen *)
               | None => Ok bufBitIdx
               end;
      do idx <- match child with
                | None => Ok 0
                | Some c => if tree_id c <? fc then Err (EPanic 40) else Ok (tree_id c - fc)
                end;
      match nth_error ch idx with
      | None => Err (EPanic 43)
      | Some (lb, _) =>
          let '(lw, label) := label_wl big lb in
          Ok {| bf_big := big; bf_ch := ch; bf_idx := idx; bf_ps := bufBitIdx; bf_pe := pe;
                bf_le := pe + lw; bf_lw := lw; bf_label := label |}
      end
  end.

(* buf = append(buf[:v.prefixStart>>3], qr.innerPrefix[:len(qr.innerPrefix)-1]...) *)
Definition b_append_inner_prefix (f : bframe) (ip : option (list byte)) (buf : list byte) : res (list byte) :=
  match ip with
  | None => Ok buf
  | Some bs =>
      if length buf <? shr3 (bf_ps f) then Err (EPanic 41)
      else match bs with
           | [] => Err (EPanic 62)
           | _ => Ok (firstn (shr3 (bf_ps f)) buf ++ removelast bs)
           end
  end.

Definition b_append_label (f : bframe) (buf : list byte) : res (list byte) :=
  let l := shr3 (bf_pe f + 7) in
  if length buf <? l then Err (EPanic 41)
  else
    let buf1 := firstn l buf in                       (* buf = buf[:l] *)
    let mask := mask8 (bf_lw f) in
    if 0 <? bf_lw f then
      if negb (Nat.eqb (and7 (bf_pe f)) 0)
      then upd_last (fun c => merge_label c (bf_label f) mask) buf1
      else Ok (buf1 ++ [fresh_label (bf_label f) (bf_lw f) mask])
    else Ok buf1.

Definition b_append_leaf_prefix (f : bframe) (tail : option (list byte)) (buf : list byte) : res (list byte) :=
  if length buf <? shr3 (bf_le f) then Err (EPanic 41)
  else Ok (firstn (shr3 (bf_le f)) buf ++ match tail with Some t => t | None => [] end).

(* next(): nextLabel(1) on the top frame, popping exhausted frames *)
Fixpoint b_next_stack (stk : list bframe) : list bframe :=
  match stk with
  | [] => []
  | f :: r =>
      match nth_error (bf_ch f) (S (bf_idx f)) with
      | Some (lb, _) =>
          let '(lw, label) := label_wl (bf_big f) lb in
          {| bf_big := bf_big f; bf_ch := bf_ch f; bf_idx := S (bf_idx f); bf_ps := bf_ps f; bf_pe := bf_pe f;
             bf_le := bf_pe f + lw; bf_lw := lw; bf_label := label |} :: r
      | None => b_next_stack r
      end
  end.

Fixpoint b_descend_first (c : tree) (last : bframe) (buf : list byte) (stk : list bframe) {struct c}
  : res (list bframe * list byte * tree) :=
  match c with
  | Leaf _ _ tail _ =>
      do buf' <- b_append_leaf_prefix last tail buf;
      Ok (stk, buf', c)
  | Inner _ _ _ _ _ ch =>
      do f <- b_init_frame c None (bf_le last);
      do buf1 <- b_append_inner_prefix f (node_bitstr c) buf;
      do buf2 <- b_append_label f buf1;
      match ch with
      | (_, c0) :: _ => b_descend_first c0 f buf2 (f :: stk)
      | [] => Err (EPanic 43)
      end
  end.

(* ---- the iterator ---- *)
Record biter := {
  bit_mode : imode;
  bit_stack : list bframe;
  bit_buf : list byte;
  bit_withv : bool
}.

Fixpoint b_init_frames (path : list tree) (bufBitIdx : nat) (buf : list byte) (stk : list bframe) {struct path}
  : res (list bframe * list byte) :=
  match path with
  | [] => Ok (stk, buf)
  | t :: rest =>
      match rest with
      | [] => Ok (stk, buf)
      | c :: _ =>
          do f <- b_init_frame t (Some c) bufBitIdx;
          do buf1 <- b_append_inner_prefix f (node_bitstr t) buf;
          do buf2 <- b_append_label f buf1;
          b_init_frames rest (bf_le f) buf2 (f :: stk)
      end
  end.

Definition b_new_iter (path : list tree) (skip withv : bool) : res biter :=
  do (stk, buf) <- b_init_frames path 0 [] [];
  if skip then
    Ok {| bit_mode := MNormal; bit_stack := b_next_stack stk; bit_buf := buf; bit_withv := withv |}
  else
    match path with
    | [c] => Ok {| bit_mode := MSingle c false; bit_stack := stk; bit_buf := buf; bit_withv := withv |}
    | _ => Ok {| bit_mode := MNormal; bit_stack := stk; bit_buf := buf; bit_withv := withv |}
    end.

Definition b_iter_init (T : trie) (start : key) (incl withv : bool) : res biter :=
  do (path, eq) <- ge_path T start;
  b_new_iter path (eq && negb incl) withv.

(* one call of the closure: the key handed out is the byte buffer itself *)
Definition b_iter_next (T : trie) (it : biter) : res (option kv * biter) :=
  match bit_mode it with
  | MSingle c consumed =>
      if consumed then Ok (None, it)
      else
        match c with
        | Inner _ _ _ _ _ _ => Err (EPanic 44)
        | Leaf _ _ tail _ =>
            let buf' := bit_buf it ++ match tail with Some t => t | None => [] end in
            do v <- leaf_val T (bit_withv it) c;
            Ok (Some (buf', v),
                {| bit_mode := MSingle c true; bit_stack := bit_stack it; bit_buf := buf'; bit_withv := bit_withv it |})
        end
  | MNormal =>
      match bit_stack it with
      | [] => Ok (None, it)
      | top :: rest =>
          do buf1 <- b_append_label top (bit_buf it);
          match nth_error (bf_ch top) (bf_idx top) with
          | None => Err (EPanic 43)
          | Some (_, c) =>
              do (sb, leaf) <- b_descend_first c top buf1 (top :: rest);
              do v <- leaf_val T (bit_withv it) leaf;
              Ok (Some (snd sb, v),
                  {| bit_mode := MNormal; bit_stack := b_next_stack (fst sb); bit_buf := snd sb;
                     bit_withv := bit_withv it |})
          end
      end
  end.

Fixpoint b_iter_run (n : nat) (T : trie) (it : biter) : res (list (option kv)) :=
  match n with
  | 0 => Ok []
  | S m =>
      do (r, it') <- b_iter_next T it;
      do rs <- b_iter_run m T it';
      Ok (r :: rs)
  end.

Fixpoint b_iter_drain (fuel : nat) (T : trie) (it : biter) : res (list kv * biter) :=
  match fuel with
  | 0 => Err EFuel
  | S f =>
      do (r, it') <- b_iter_next T it;
      match r with
      | None => Ok ([], it')
      | Some x => do (xs, it'') <- b_iter_drain f T it'; Ok (x :: xs, it'')
      end
  end.

Definition b_iter_all (T : trie) (start : key) (incl withv : bool) (extra : nat) : res (list kv * list (option kv)) :=
  do it <- b_iter_init T start incl withv;
  do (xs, it') <- b_iter_drain (scan_fuel T) T it;
  do more <- b_iter_run extra T it';
  Ok (xs, more).

(* ScanFrom / ScanFromTo over the byte-level closure *)
Fixpoint b_scan_loop (fuel : nat) (T : trie) (it : biter) (wrap : nat -> kv -> bool * bool) (i : nat)
  : res (list kv) :=
  match fuel with
  | 0 => Err EFuel
  | S f =>
      do (r, it') <- b_iter_next T it;
      match r with
      | None => Ok []
      | Some x =>
          let '(cont, delivered) := wrap i x in
          if cont then
            do xs <- b_scan_loop f T it' wrap (S i);
            Ok (if delivered then x :: xs else xs)
          else Ok (if delivered then [x] else [])
      end
  end.

Definition b_scan_from (T : trie) (start : key) (incl withv : bool) (fn : callback) : res (list kv) :=
  do it <- b_iter_init T start incl withv;
  b_scan_loop (scan_fuel T) T it (fun i x => (fn i x, true)) 0.

Definition b_scan_from_to (T : trie) (start : key) (incl : bool) (e : key) (incle : bool) (withv : bool)
           (fn : callback) : res (list kv) :=
  do it <- b_iter_init T start incl withv;
  b_scan_loop (scan_fuel T) T it
              (fun i x => if beyond e incle (fst x) then (false, false) else (fn i x, true)) 0.

(* ---- the stored prefixes of a trie, pre-order (for the comparison with the
   bitstr bytes the implementation stores): node id, bitstr, bitstr.Len ---- *)
Fixpoint stored_prefixes (t : tree) : list (nat * list byte * res nat) :=
  match t with
  | Leaf _ _ _ _ => []
  | Inner id _ _ pfx _ ch =>
      (match pfx with
       | Some p => [(id, bitstr_of_nibs p, bitstr_len (bitstr_of_nibs p))]
       | None => []
       end) ++
      (fix go (ch : list (nat * tree)) : list (nat * list byte * res nat) :=
         match ch with
         | [] => []
         | (_, c) :: r => stored_prefixes c ++ go r
         end) ch
  end.

Definition trie_prefixes (T : trie) : list (nat * list byte * res nat) :=
  match t_root T with Some r => stored_prefixes r | None => [] end.
