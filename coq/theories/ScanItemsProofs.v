(* ScanItemsProofs.v - on a trie built with inner and leaf prefixes, the in-order
   listing [items] of a subtree is the list of kept entries of its subset, in key
   order, each with its key rebuilt nibble for nibble and the leaf that carries
   its key index; the subtree is positionally well-formed ([scan_wf]). *)
From Slim Require Import Base Keys KeysProofs ListFacts Model TrieInv BuildProofs QueryProofs ConsistProofs OrderProofs
     Scan ScanBasicProofs ScanIterProofs.
From Coq Require Import Sorting.Sorted ZifyNat ZifyBool.
Ltac Zify.zify_post_hook ::= Z.div_mod_to_equations.

Arguments Nat.div : simpl never.
Arguments Nat.modulo : simpl never.

(* ---------- packing ---------- *)
Lemma byte_of_nibs_to_nat b : byte_of_nibs (Byte.to_nat b / 16) (Byte.to_nat b mod 16) = Some b.
Proof.
  unfold byte_of_nibs. pose proof (byte_to_nat_lt b) as H.
  assert ((Byte.to_nat b / 16 <? 16) && (Byte.to_nat b mod 16 <? 16) = true) as ->.
  { apply andb_true_iff. split; apply Nat.ltb_lt; lia. }
  replace (Byte.to_nat b / 16 * 16 + Byte.to_nat b mod 16) with (Byte.to_nat b) by lia.
  apply Byte.of_to_nat.
Qed.

Lemma pack_nibs : forall k, pack (nibs k) = Some k.
Proof.
  induction k as [|b k IH]; [reflexivity|]. rewrite nibs_cons. cbn [pack].
  rewrite byte_of_nibs_to_nat, IH. reflexivity.
Qed.

(* ---------- labels as nibbles ---------- *)
Lemma label_nibs_firstn big ns w lb :
  Forall (fun x => x < 16) ns -> (big = true -> Nat.even (length ns - w) = true) ->
  label_at big ns w = lb ->
  firstn (w + label_width big lb) ns = firstn w ns ++ label_nibs big lb.
Proof.
  intros F Hev Hl. rewrite firstn_add. f_equal.
  assert (Forall (fun x => x < 16) (skipn w ns)) as F'.
  { rewrite <- (firstn_skipn w ns) in F. apply Forall_app in F. tauto. }
  assert (length (skipn w ns) = length ns - w) as L by apply skipn_length.
  unfold label_at in Hl. destruct (skipn w ns) as [|a r]; [subst lb; reflexivity|].
  inversion F' as [|? ? Ha Fr]; subst.
  destruct big.
  - specialize (Hev eq_refl). rewrite <- L in Hev.
    destruct r as [|b r']; [cbn in Hev; discriminate|]. inversion Fr; subst.
    cbn [label_width wsize label_nibs firstn Nat.add]. f_equal; [lia|f_equal; lia].
  - cbn [label_width wsize label_nibs firstn Nat.add]. reflexivity.
Qed.

(* ---------- the stored prefix of an inner node ---------- *)
Lemma inner_pfx_facts o isbig s big step pfx labels kids b' buf :
  o_inner o = true -> SubInv s ->
  process_subset o isbig s = Ok (DInner big step pfx labels kids, b') ->
  agree s (s_from s) buf ->
  pe_of pfx (s_from s) = sub_w big s /\
  (forall a, In a (s_ents s) -> b1_of pfx (s_from s) buf = firstn (sub_w big s) (e_nibs a)).
Proof.
  intros Hi I Hp [Hlen Hag]. pose proof (process_inner_inv _ _ _ _ _ _ _ _ _ Hp) as Hinv. cbv zeta in Hinv.
  destruct Hinv as ((e0 & e1 & r & Es & Hpfx) & Hw & _).
  set (w := sub_w big s) in *. rewrite Hi in Hpfx. cbn [andb] in Hpfx.
  assert (2 <= length (s_ents s)) as Htwo by (rewrite Es; cbn; lia).
  assert (In e0 (s_ents s)) as He0 by (rewrite Es; left; reflexivity).
  pose proof (sub_w_len big s e0 Htwo He0) as Hle0. fold w in Hle0.
  set (f := even_down (s_from s)) in *.
  assert (f <= s_from s) as Hf by apply even_down_le.
  destruct (0 <? w - s_from s) eqn:Ec; subst pfx; unfold pe_of, b1_of; fold f.
  - split; [rewrite firstn_length, skipn_length; lia|].
    intros a Ha. replace w with (f + (w - f)) at 2 by lia. rewrite firstn_add. f_equal.
    + symmetry. eapply firstn_le_agree; [exact Hf|apply Hag; exact Ha].
    + apply firstn_skipn_agree; [apply sub_w_agree; assumption|lia].
  - apply Nat.ltb_ge in Ec. assert (w = s_from s) as Ew by lia. split; [lia|].
    intros a Ha. rewrite Ew. symmetry. apply Hag. exact Ha.
Qed.

(* the buffer handed to the child of label [x] agrees with the child's subset *)
Lemma agree_child_buf s big x b1 :
  SubInv s -> 2 <= length (s_ents s) ->
  (forall a, In a (s_ents s) -> b1 = firstn (sub_w big s) (e_nibs a)) ->
  agree (mk_kid s big x) (sub_w big s + label_width big x) (b1 ++ label_nibs big x).
Proof.
  intros I Htwo Hb1. set (w := sub_w big s) in *.
  pose proof (si_ok s I) as Hok. rewrite Forall_forall in Hok.
  assert (forall a, In a (s_ents (mk_kid s big x)) ->
                    firstn (w + label_width big x) (e_nibs a) = b1 ++ label_nibs big x /\ w <= length (e_nibs a)) as Hall.
  { intros a Ha. unfold mk_kid in Ha. cbn [s_ents] in Ha. apply filter_In in Ha. destruct Ha as [Ha Hl].
    apply Nat.eqb_eq in Hl. unfold ent_label in Hl. fold w in Hl.
    pose proof (sub_w_len big s a Htwo Ha) as Hlen. fold w in Hlen.
    split; [|exact Hlen]. rewrite (Hb1 a Ha). apply label_nibs_firstn; [apply ent_ok_lt16; auto| |exact Hl].
    intros ->. pose proof (sub_w_even s) as H. fold w in H. pose proof (ent_ok_even a (Hok a Ha)) as H0.
    rewrite Nat.even_sub by assumption. rewrite H, H0. reflexivity. }
  split.
  - rewrite app_length, label_nibs_length.
    destruct (s_ents s) as [|a0 r0] eqn:Es; [cbn in Htwo; lia|].
    rewrite (Hb1 a0 (or_introl eq_refl)), firstn_length.
    pose proof (sub_w_len big s a0 (ltac:(rewrite Es; exact Htwo)) (ltac:(rewrite Es; left; reflexivity))) as H. fold w in H. lia.
  - intros a Ha. destruct (Hall a Ha) as [H1 H2]. rewrite H1.
    symmetry. apply firstn_all2. rewrite app_length, label_nibs_length.
    assert (In a (s_ents s)) as Ha' by (unfold mk_kid in Ha; cbn [s_ents] in Ha; apply filter_In in Ha; tauto).
    rewrite (Hb1 a Ha'), firstn_length. lia.
Qed.

(* ---------- positional well-formedness of built subtrees ---------- *)
Lemma label0_even o s big labels kids :
  SubInv s -> InnerFacts o s big labels kids -> In 0 labels -> Nat.even (sub_w big s) = true.
Proof.
  intros I F H0. rewrite (if_labels _ _ _ _ _ F) in H0. apply (proj1 (dedup_adj_In _ _)) in H0.
  apply in_map_iff in H0. destruct H0 as (e & Hl & He). apply filter_In in He. destruct He as [He _].
  pose proof (si_ok s I) as Hok. rewrite Forall_forall in Hok.
  assert (sub_w big s = length (e_nibs e)) as ->.
  { apply (label_zero_iff big (e_nibs e) (sub_w big s)); [apply sub_w_len; [apply (if_two _ _ _ _ _ F)|exact He]|exact Hl]. }
  apply ent_ok_even. auto.
Qed.

Lemma scan_wf_of_trie o : o_inner o = true -> forall t s,
  trie_of o t s -> SubInv s -> scan_wf t (s_from s).
Proof.
  intros Hi. induction t as [id ord tail eidx|id big step pfx fc ch IH] using tree_ind'; intros s Ht I; [exact Logic.I|].
  cbn [trie_of] in Ht. destruct Ht as (ib & labels & kids & b' & Hp & Hfst & Hkm).
  pose proof (inner_facts _ _ _ _ _ _ _ _ _ I Hp) as F.
  pose proof (children_ok o s big labels kids ch I F Hfst Hkm) as Hch.
  assert (agree s (s_from s) (match s_ents s with e :: _ => e_nibs e | [] => [] end)) as Hag.
  { pose proof (if_two _ _ _ _ _ F) as Htwo. destruct (s_ents s) as [|e0 r0] eqn:Es; [cbn in Htwo; lia|].
    split; [apply (si_len s I); rewrite Es; left; reflexivity|].
    intros a Ha. apply (si_prefix s I); [exact Ha|rewrite Es; left; reflexivity]. }
  destruct (inner_pfx_facts o ib s big step pfx labels kids b' _ Hi I Hp Hag) as [Hpe _].
  apply scan_wf_inner. rewrite Hpe.
  split; [intros ->; apply (if_nonempty _ _ _ _ _ F); rewrite <- Hfst; reflexivity|].
  split; [apply (if_w _ _ _ _ _ F)|]. split; [apply sub_w_even_big|].
  rewrite Forall_forall in *. intros [x c] Hin. pose proof (Hch _ Hin) as Hc. cbn [fst snd] in Hc.
  split; cbn [fst snd].
  - intros ->. eapply label0_even; [exact I|exact F|exact (co_in _ _ _ _ _ Hc)].
  - apply (IH _ Hin _ (co_trie _ _ _ _ _ Hc) (co_inv _ _ _ _ _ Hc)).
Qed.

(* ---------- the listing is the list of kept entries ---------- *)
Definition item_of (e : ent) (x : item) : Prop :=
  fst x = e_nibs e /\ leaf_eidx (snd x) = Some (e_idx e).

Lemma Forall2_flat_map {A B C} (R : B -> C -> Prop) (f : A -> list B) (g : A -> list C) l :
  Forall (fun a => Forall2 R (f a) (g a)) l -> Forall2 R (flat_map f l) (flat_map g l).
Proof.
  induction 1 as [|a l Ha _ IH]; [constructor|]. cbn [flat_map]. apply Forall2_app; assumption.
Qed.

Lemma kept_children o s big labels kids (ch : list (nat * tree)) :
  SubInv s -> InnerFacts o s big labels kids -> map fst ch = labels ->
  kept s = flat_map (fun p => kept (mk_kid s big (fst p))) ch.
Proof.
  intros I F Hfst. rewrite (kept_partition o s big labels kids I F), (if_kids_mk _ _ _ _ _ F), <- Hfst, !flat_map_map.
  reflexivity.
Qed.

Lemma leaf_tail_nibs o e from :
  o_leaf o = true -> ent_ok e -> tail_nibs (leaf_tail o e from) = skipn (even_down from) (e_nibs e).
Proof.
  intros Hl Hok. unfold leaf_tail. rewrite Hl, Hok, even_down_half, skipn_nibs.
  destruct (skipn (from / 2) (e_key e)); reflexivity.
Qed.

Lemma items_spec o : o_inner o = true -> o_leaf o = true -> forall t s,
  trie_of o t s -> SubInv s -> forall buf, agree s (s_from s) buf ->
  Forall2 item_of (kept s) (items t buf (s_from s)).
Proof.
  intros Hi Hl. induction t as [id ord tail eidx|id big step pfx fc ch IH] using tree_ind'; intros s Ht I buf Hag.
  - cbn [trie_of] in Ht. destruct Ht as (e & Hs & -> & ->).
    rewrite (kept_singleton s e I Hs). cbn [items]. constructor; [|constructor].
    assert (In e (s_ents s)) as He by (rewrite Hs; left; reflexivity).
    pose proof (si_ok s I) as Hok. rewrite Forall_forall in Hok.
    split; cbn [fst snd leaf_eidx]; [|reflexivity].
    rewrite (leaf_tail_nibs o e _ Hl (Hok e He)).
    destruct Hag as [_ Hag]. pose proof (even_down_le (s_from s)) as Hed.
    rewrite <- (firstn_le_agree _ _ _ _ Hed (Hag e He)). apply firstn_skipn.
  - cbn [trie_of] in Ht. destruct Ht as (ib & labels & kids & b' & Hp & Hfst & Hkm).
    pose proof (inner_facts _ _ _ _ _ _ _ _ _ I Hp) as F.
    pose proof (children_ok o s big labels kids ch I F Hfst Hkm) as Hch.
    destruct (inner_pfx_facts o ib s big step pfx labels kids b' buf Hi I Hp Hag) as [Hpe Hb1].
    rewrite items_inner, Hpe, (kept_children o s big labels kids ch I F Hfst).
    unfold kids_items. apply Forall2_flat_map.
    rewrite Forall_forall in *. intros [x c] Hin. pose proof (Hch _ Hin) as Hc. cbn [fst snd] in Hc |- *.
    apply (IH _ Hin _ (co_trie _ _ _ _ _ Hc) (co_inv _ _ _ _ _ Hc)).
    apply agree_child_buf; [exact I|apply (if_two _ _ _ _ _ F)|exact Hb1].
Qed.

(* every listed leaf is a leaf of the tree *)
Lemma items_leaves : forall t buf from x, In x (items t buf from) ->
  exists id ord tail eidx, snd x = Leaf id ord tail eidx /\ In (ord, eidx) (leaves_of t).
Proof.
  induction t as [id ord tail eidx|id big step pfx fc ch IH] using tree_ind'; intros buf from x Hin.
  - cbn [items] in Hin. destruct Hin as [<-|[]]. cbn [snd leaves_of]. exists id, ord, tail, eidx. split; [reflexivity|left; reflexivity].
  - rewrite items_inner in Hin. unfold kids_items in Hin. apply in_flat_map in Hin. destruct Hin as ([lb c] & Hc & Hin).
    rewrite Forall_forall in IH. destruct (IH _ Hc _ _ _ Hin) as (id' & ord' & tail' & eidx' & E & Hl).
    exists id', ord', tail', eidx'. split; [exact E|]. rewrite leaves_of_inner. apply in_flat_map. exists (lb, c). auto.
Qed.
