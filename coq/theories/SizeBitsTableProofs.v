(* SizeBitsTableProofs.v - the short-node table of Size.v (cands / counts / sort_cnt /
   pop_nth / assign / mem_incr / find_short_size / short_table / most_used / lookup) is the one
   of Bits.v (count_bms / sorted_counts / pop_nth / mem_loop / find_min / table_loop /
   most_lookup).  Counts are nat in Size.v and N in Bits.v: [conv] embeds.

   The two models differ in three places, each shown harmless here:
   * Size.v keeps one count list per number of labels, Bits.v one list keyed by
     (number of labels, bitmap), filtered afterwards            (cnt_incr_filter, counts_filter);
   * the two insertion sorts break ties differently, but the bitmaps of one list are pairwise
     distinct and the comparator is total on distinct bitmaps   (sort_eq);
   * Size.v looks a bitmap up in assignment order, Bits.v in reverse order (a later
     assignment overrides), but no bitmap is assigned twice      (lookup_rev, assign_keys). *)
From Coq Require Import List Arith Bool NArith ZArith Lia Sorted Permutation.
From Coq Require Import ZifyN ZifyNat ZifyBool.
From Slim Require Import Base BitmapRank BitmapRankProofs BitmapRank2 BitmapRank2Proofs.
From Slim Require Size SizeProofs.
From Slim Require Bits BitsWfProofs BitsEncProofs.
From Slim Require Import SizeBitsWordsProofs.
Import ListNotations.
Local Open Scope N_scope.

Definition conv (p : N * nat) : N * N := (fst p, N.of_nat (snd p)).
Definition convt (t : list (list (N * nat))) : list (list (N * N)) := map (map conv) t.
Definition proj (e : N * N * N) : N * N := (snd (fst e), snd e).
Definition isk (k : N) (e : N * N * N) : bool := fst (fst e) =? k.

(* the inner-node record of Size.v carried by a record of Bits.v *)
Definition ino (j : Bits.inner_rec) : Size.inode :=
  {| Size.in_big := Bits.i_big j; Size.in_step := N.to_nat (Bits.i_step j);
     Size.in_labels := map N.to_nat (Bits.i_labels j) |}.

Lemma ino_labels : forall j, map N.of_nat (Size.in_labels (ino j)) = Bits.i_labels j.
Proof.
  intros j. cbn [ino Size.in_labels]. rewrite map_map. rewrite <- (map_id (Bits.i_labels j)) at 2.
  apply map_ext. intros a. apply N2Nat.id.
Qed.

Lemma ino_labels_length : forall j, length (Size.in_labels (ino j)) = length (Bits.i_labels j).
Proof. intros j. cbn [ino Size.in_labels]. apply map_length. Qed.

Lemma popcount_nat : forall n, N.to_nat (popcount n) = Size.popcount n.
Proof.
  intros [|p]; [reflexivity|]. cbn [popcount Size.popcount].
  induction p as [p IH|p IH|]; cbn [pop_pos Size.pop_pos]; rewrite ?N2Nat.inj_succ, ?IH; reflexivity.
Qed.

(* ---------- get17bitmap ---------- *)
Lemma bm17_ino : forall j, BitsEncProofs.rec_ok j -> Bits.i_big j = false ->
  Bits.bm17 (Bits.i_labels j) = Val (Size.bm17 (Size.in_labels (ino j))).
Proof.
  intros j (Hne & Hs & Hb) Hbig. rewrite Hbig in Hb. set (labels := Size.in_labels (ino j)).
  pose proof (ino_labels j) as E. fold labels in E. rewrite <- E in Hne, Hs, Hb |- *.
  unfold Bits.bm17. rewrite (labels_true_pos 17 labels Hs Hb).
  rewrite of_cap_pack_gen.
  - cbn [Bits.obind]. rewrite pack_small by (rewrite SizeProofs.label_bits_length; lia). reflexivity.
  - rewrite <- (labels_true_pos 17 labels Hs Hb). rewrite SizeProofs.label_bits_length.
    unfold bits_cap. destruct (BitsEncProofs.last_N_some _ Hne) as (m & Em). rewrite Em.
    apply last_N_in in Em. rewrite Forall_forall in Hb. apply Hb in Em.
    rewrite !nwords_for_div. change (N.of_nat 17) with 17. lia.
Qed.

(* ---------- innerBMCnt ---------- *)
Lemma proj_eq : forall n b c, proj (n, b, c) = (b, c).
Proof. reflexivity. Qed.
Lemma conv_eq : forall b c, conv (b, c) = (b, N.of_nat c).
Proof. reflexivity. Qed.

Lemma cnt_incr_filter : forall k n b cs t0,
  map proj (filter (isk k) cs) = map conv t0 ->
  map proj (filter (isk k) (Bits.cnt_incr cs n b)) =
  if n =? k then map conv (Size.bump b t0) else map conv t0.
Proof.
  intros k n b. unfold isk. induction cs as [|[[n0 b0] c0] r IH]; intros t0 H.
  - cbn [filter map] in H. destruct t0; [|discriminate]. cbn [Bits.cnt_incr filter fst].
    destruct (N.eqb_spec n k); reflexivity.
  - cbn [Bits.cnt_incr]. destruct ((n0 =? n) && (b0 =? b)) eqn:E.
    + apply andb_true_iff in E. destruct E as [E1 E2]. apply N.eqb_eq in E1, E2. subst n0 b0.
      cbn [filter fst] in H |- *. destruct (N.eqb_spec n k) as [Hk|Hk]; [|exact H].
      cbn [map] in H |- *. destruct t0 as [|[b' c'] t0']; [discriminate|]. cbn [map] in H.
      rewrite proj_eq, conv_eq in H. injection H as Hb Hc Ht. subst b'. cbn [Size.bump]. rewrite N.eqb_refl.
      cbn [map]. rewrite proj_eq, conv_eq. f_equal; [f_equal; lia|exact Ht].
    + cbn [filter fst] in H |- *. destruct (N.eqb_spec n0 k) as [Hk|Hk]; [|apply IH; exact H].
      cbn [map] in H |- *. destruct t0 as [|[b' c'] t0']; [discriminate|]. cbn [map] in H.
      rewrite proj_eq, conv_eq in H. injection H as Hb Hc Ht. rewrite (IH t0' Ht). destruct (N.eqb_spec n k) as [Hk'|Hk'].
      * cbn [Size.bump]. destruct (N.eqb_spec b' b) as [Hbb|Hbb].
        -- exfalso. subst. rewrite !N.eqb_refl in E. discriminate.
        -- cbn [map]. rewrite proj_eq, conv_eq. congruence.
      * cbn [map]. rewrite proj_eq, conv_eq. congruence.
Qed.

Definition stepB (cs : list (N * N * N)) (p : nat * N) : list (N * N * N) :=
  Bits.cnt_incr cs (N.of_nat (fst p)) (snd p).

Lemma counts_filter : forall k cds cs t0,
  map proj (filter (isk (N.of_nat k)) cs) = map conv t0 ->
  map proj (filter (isk (N.of_nat k)) (fold_left stepB cds cs)) =
  map conv (fold_left (fun t p => if Nat.eqb (fst p) k then Size.bump (snd p) t else t) cds t0).
Proof.
  intros k. induction cds as [|p r IH]; intros cs t0 H; [exact H|].
  cbn [fold_left]. apply IH. unfold stepB. rewrite (cnt_incr_filter _ _ _ _ _ H).
  destruct (N.eqb_spec (N.of_nat (fst p)) (N.of_nat k)), (Nat.eqb_spec (fst p) k); try lia; reflexivity.
Qed.

Lemma count_bms_cands : forall J cs,
  Forall BitsEncProofs.rec_ok J -> Forall (fun j => Bits.i_big j = false) J ->
  Bits.count_bms J cs = Val (fold_left stepB (Size.cands (map ino J)) cs).
Proof.
  induction J as [|j r IH]; intros cs Hok Hnb; [reflexivity|].
  inversion Hok as [|? ? Hj Hr]; subst. inversion Hnb as [|? ? Hb Hbr]; subst.
  cbn [Bits.count_bms]. rewrite Hb.
  change (Size.cands (map ino (j :: r))) with
    ((if (length (Size.in_labels (ino j)) <=? Size.max_short)%nat
      then [(length (Size.in_labels (ino j)), Size.bm17 (Size.in_labels (ino j)))] else []) ++ Size.cands (map ino r)).
  rewrite fold_left_app, ino_labels_length. unfold Bits.blen, Size.max_short.
  destruct (N.ltb_spec (N.of_nat (length (Bits.i_labels j))) 11) as [Hl|Hl];
    destruct (Nat.leb_spec (length (Bits.i_labels j)) 10) as [Hl'|Hl']; try lia.
  - destruct Hj as (Hne & _). pose proof (bm17_ino j ltac:(inversion Hok; assumption) Hb) as E.
    destruct (Bits.i_labels j) as [|x l] eqn:El; [congruence|]. rewrite <- El in *. rewrite E. cbn [Bits.obind fold_left].
    rewrite (IH _ Hr Hbr). unfold stepB at 2. cbn [fst snd]. rewrite <- ino_labels_length. reflexivity.
  - cbn [fold_left]. apply IH; assumption.
Qed.

(* ---------- the two insertion sorts ---------- *)
Lemma cnt_before_conv : forall a b, fst a <> fst b ->
  Bits.cnt_before (conv a) (conv b) = negb (Size.cnt_before b a).
Proof.
  intros [fa sa] [fb sb] H. cbn [fst] in H. unfold Bits.cnt_before, Size.cnt_before, conv. cbn [fst snd].
  destruct (N.eqb_spec (N.of_nat sa) (N.of_nat sb)), (Nat.eqb_spec sb sa); lia.
Qed.

Lemma ins_eq : forall a l, ~ In (fst a) (map fst l) ->
  Bits.cnt_insert (conv a) (map conv l) = map conv (Size.ins_sorted a l).
Proof.
  intros a. induction l as [|b r IH]; intros H; [reflexivity|].
  cbn [map In] in H. cbn [map Bits.cnt_insert Size.ins_sorted].
  rewrite cnt_before_conv by (intros E; apply H; left; congruence).
  destruct (Size.cnt_before b a); cbn [negb map]; [|reflexivity].
  f_equal. apply IH. intros Hin. apply H. right. exact Hin.
Qed.

Lemma ins_sorted_perm : forall a l, Permutation (a :: l) (Size.ins_sorted a l).
Proof.
  intros a. induction l as [|b r IH]; cbn [Size.ins_sorted]; [reflexivity|].
  destruct (Size.cnt_before b a); [|reflexivity]. rewrite perm_swap. constructor. exact IH.
Qed.

Lemma sort_cnt_perm : forall l, Permutation l (Size.sort_cnt l).
Proof.
  induction l as [|a r IH]; [constructor|]. unfold Size.sort_cnt. cbn [fold_right]. fold (Size.sort_cnt r).
  rewrite <- ins_sorted_perm. constructor. exact IH.
Qed.

Lemma sort_eq : forall l, NoDup (map fst l) ->
  Bits.cnt_sort (map conv l) = map conv (Size.sort_cnt l).
Proof.
  induction l as [|a r IH]; intros H; [reflexivity|]. inversion H as [|? ? Ha Hr]; subst.
  cbn [map Bits.cnt_sort]. unfold Size.sort_cnt. cbn [fold_right]. fold (Size.sort_cnt r).
  rewrite (IH Hr). apply ins_eq. intros Hin. apply Ha.
  eapply Permutation_in; [apply Permutation_sym, Permutation_map, sort_cnt_perm|exact Hin].
Qed.

Lemma bump_keys : forall b t x, In x (map fst (Size.bump b t)) -> x = b \/ In x (map fst t).
Proof.
  intros b. induction t as [|[b0 c0] r IH]; intros x H; cbn [Size.bump] in H.
  - destruct H as [<-|[]]. left. reflexivity.
  - destruct (N.eqb_spec b0 b); cbn [map fst In] in H |- *.
    + right. exact H.
    + destruct H as [H|H]; [right; left; exact H|]. apply IH in H. tauto.
Qed.

Lemma bump_nodup : forall b t, NoDup (map fst t) -> NoDup (map fst (Size.bump b t)).
Proof.
  intros b. induction t as [|[b0 c0] r IH]; intros H; cbn [Size.bump].
  - constructor; [intros []|constructor].
  - inversion H as [|? ? Hx Hr]; subst. destruct (N.eqb_spec b0 b); cbn [map fst].
    + constructor; assumption.
    + constructor; [|apply IH; exact Hr]. intros Hin. apply bump_keys in Hin. destruct Hin; [congruence|contradiction].
Qed.

Lemma counts_nodup : forall k cds, NoDup (map fst (Size.counts k cds)).
Proof.
  intros k cds. unfold Size.counts.
  assert (G : forall t, NoDup (map fst t) ->
    NoDup (map fst (fold_left (fun t p => if Nat.eqb (fst p) k then Size.bump (snd p) t else t) cds t))).
  { induction cds as [|p r IH]; intros t H; [exact H|]. cbn [fold_left]. apply IH.
    destruct (Nat.eqb (fst p) k); [apply bump_nodup|]; exact H. }
  apply G. constructor.
Qed.

Lemma sorted_counts_eq : forall cds,
  Bits.sorted_counts (fold_left stepB cds []) = convt (Size.sorted_tbls cds).
Proof.
  intros cds. unfold Bits.sorted_counts, Size.sorted_tbls, convt.
  change (Bits.nseq 0 11) with (map N.of_nat (seq 0 11)). change (S Size.max_short) with 11%nat.
  rewrite !map_map. apply map_ext. intros k.
  change (Bits.cnt_sort (map proj (filter (isk (N.of_nat k)) (fold_left stepB cds []))) =
          map conv (Size.sort_cnt (Size.counts k cds))).
  rewrite (counts_filter k cds [] [] eq_refl). apply sort_eq. apply counts_nodup.
Qed.

(* ---------- pop_nth ---------- *)
Lemma pop_nth_conv : forall tbls k,
  Bits.pop_nth (convt tbls) k =
  match Size.pop_nth k tbls with
  | (Some x, t') => Some (conv x, convt t')
  | (None, _) => None
  end.
Proof.
  induction tbls as [|l r IH]; intros k; [destruct k; reflexivity|].
  destruct k as [|k]; cbn [convt map Bits.pop_nth Size.pop_nth].
  - destruct l as [|x l']; reflexivity.
  - fold (convt r). rewrite IH. destruct (Size.pop_nth k r) as [[x|] r']; reflexivity.
Qed.

Lemma pop_nth_none : forall tbls k t', Size.pop_nth k tbls = (None, t') -> t' = tbls.
Proof.
  induction tbls as [|l r IH]; intros k t' H.
  - destruct k; cbn in H; congruence.
  - destruct k as [|k]; cbn [Size.pop_nth] in H.
    + destruct l; congruence.
    + destruct (Size.pop_nth k r) as [x r'] eqn:E. injection H as -> <-. f_equal. eapply IH. exact E.
Qed.

(* ---------- the loops over the short codes ---------- *)
Definition entry_bm (x : option (N * nat)) : N := match x with Some (bm, _) => bm | None => 0 end.
Definition mu_pairs (a : list (option (N * nat))) (shs : list N) : list (N * N) :=
  flat_map (fun p : option (N * nat) * N => match fst p with Some (bm, _) => [(bm, snd p)] | None => [] end)
           (combine a shs).

Lemma short_table_entry : forall tbls ss, Size.short_table tbls ss = map entry_bm (Size.assign (Size.shorts ss) tbls).
Proof. reflexivity. Qed.
Lemma most_used_pairs : forall tbls ss, Size.most_used tbls ss = mu_pairs (Size.assign (Size.shorts ss) tbls) (Size.shorts ss).
Proof. reflexivity. Qed.

Lemma assign_cons : forall s r tbls,
  Size.assign (s :: r) tbls =
  fst (Size.pop_nth (Size.popcount s) tbls) :: Size.assign r (snd (Size.pop_nth (Size.popcount s) tbls)).
Proof. intros s r tbls. cbn [Size.assign]. destruct (Size.pop_nth (Size.popcount s) tbls); reflexivity. Qed.

Lemma saved_some : forall ss bm c a,
  Size.saved ss (Some (bm, c) :: a) = (Z.of_nat (17 - ss) * Z.of_nat c + Size.saved ss a)%Z.
Proof. reflexivity. Qed.
Lemma saved_none : forall ss a, Size.saved ss (None :: a) = Size.saved ss a.
Proof. reflexivity. Qed.

Lemma mem_loop_eq : forall ss shs tbls mem, (ss <= 17)%nat ->
  Bits.mem_loop (N.of_nat ss) shs (convt tbls) mem = (mem - Size.saved ss (Size.assign shs tbls))%Z.
Proof.
  intros ss. induction shs as [|s r IH]; intros tbls mem Hss.
  - cbn [Bits.mem_loop Size.assign]. unfold Size.saved. cbn [fold_right]. lia.
  - cbn [Bits.mem_loop]. rewrite assign_cons, pop_nth_conv, popcount_nat.
    destruct (Size.pop_nth (Size.popcount s) tbls) as [[[bm c]|] t'] eqn:E; cbn [fst snd conv].
    + rewrite (IH _ _ Hss), saved_some, !nat_N_Z, Nat2Z.inj_sub by exact Hss. change (Z.of_nat 17) with 17%Z. ring.
    + apply pop_nth_none in E. subst t'. rewrite (IH _ _ Hss), saved_none. reflexivity.
Qed.

Lemma mu_pairs_some : forall bm c a s r, mu_pairs (Some (bm, c) :: a) (s :: r) = (bm, s) :: mu_pairs a r.
Proof. reflexivity. Qed.
Lemma mu_pairs_none : forall a s r, mu_pairs (None :: a) (s :: r) = mu_pairs a r.
Proof. reflexivity. Qed.

Lemma table_loop_eq : forall shs tbls most,
  Bits.table_loop shs (convt tbls) most =
  (map entry_bm (Size.assign shs tbls), rev (mu_pairs (Size.assign shs tbls) shs) ++ most).
Proof.
  induction shs as [|s r IH]; intros tbls most; [reflexivity|].
  cbn [Bits.table_loop]. rewrite assign_cons, pop_nth_conv, popcount_nat.
  destruct (Size.pop_nth (Size.popcount s) tbls) as [[[bm c]|] t'] eqn:E; cbn [fst snd conv].
  - rewrite IH, mu_pairs_some. cbn [map entry_bm rev]. rewrite <- app_assoc. reflexivity.
  - apply pop_nth_none in E. subst t'. rewrite IH, mu_pairs_none. reflexivity.
Qed.

Lemma nseq_map : forall n a, Bits.nseq (N.of_nat a) n = map N.of_nat (seq a n).
Proof.
  induction n as [|n IH]; intros a; [reflexivity|]. cbn [Bits.nseq seq map]. f_equal.
  rewrite <- Nat2N.inj_succ. apply IH.
Qed.

Lemma pow2_nat : forall ss, 2 ^ N.of_nat ss = N.of_nat (2 ^ ss).
Proof. intros ss. rewrite Nat2N.inj_pow. reflexivity. Qed.

Lemma shorts_of_eq : forall ss, Bits.shorts_of (N.of_nat ss) = Size.shorts ss.
Proof.
  intros ss. unfold Bits.shorts_of, Size.shorts. rewrite pow2_nat, Nat2N.id. exact (nseq_map _ 0%nat).
Qed.

Lemma mem_incr_eq : forall tbls ss, (ss <= 17)%nat ->
  Bits.mem_incr (convt tbls) (N.of_nat ss) = Size.mem_incr tbls ss.
Proof.
  intros tbls ss H. unfold Bits.mem_incr, Size.mem_incr. rewrite shorts_of_eq, (mem_loop_eq _ _ _ _ H).
  rewrite pow2_nat, N2Z.inj_mul, nat_N_Z. lia.
Qed.

Lemma find_min_eq : forall tbls sizes sz c, Forall (fun s => (s <= 17)%nat) sizes ->
  Bits.find_min (convt tbls) (map N.of_nat sizes) (N.of_nat sz) c =
  N.of_nat (fst (fold_left (fun (st : nat * Z) ss =>
                              let m := Size.mem_incr tbls ss in
                              if (m <? snd st)%Z then (ss, m) else st) sizes (sz, c))).
Proof.
  intros tbls. induction sizes as [|s r IH]; intros sz c H; [reflexivity|].
  inversion H as [|? ? Hs Hr]; subst. cbn [map Bits.find_min fold_left]. rewrite (mem_incr_eq _ _ Hs).
  cbv zeta. cbn [snd]. destruct (Size.mem_incr tbls s <? c)%Z; apply IH; exact Hr.
Qed.

Theorem find_short_size_eq : forall tbls,
  Bits.find_min_short_size (convt tbls) = N.of_nat (Size.find_short_size tbls).
Proof.
  intros tbls. unfold Bits.find_min_short_size, Size.find_short_size.
  change (Bits.nseq 1 10) with (map N.of_nat (seq 1 10)). change Size.max_short with 10%nat.
  assert (HF : Forall (fun s => (s <= 17)%nat) (seq 1 10)).
  { rewrite Forall_forall. intros x Hx. apply in_seq in Hx. lia. }
  etransitivity; [|exact (find_min_eq tbls (seq 1 10) 0%nat (Size.mem_incr tbls 0%nat) HF)].
  rewrite <- (mem_incr_eq tbls 0%nat) by lia. reflexivity.
Qed.

Lemma find_short_size_le : forall tbls, (Size.find_short_size tbls <= 10)%nat.
Proof. intros tbls. pose proof (Bits.find_min_short_size (convt tbls)) as _. pose proof (BitsEncProofs.find_min_le (convt tbls)) as H. rewrite find_short_size_eq in H. lia. Qed.

(* ---------- mostUsed: assignment order does not matter ---------- *)
Lemma most_lookup_app : forall l a bm,
  Bits.most_lookup (l ++ [a]) bm =
  match Bits.most_lookup l bm with
  | Some s => Some s
  | None => if fst a =? bm then Some (snd a) else None
  end.
Proof.
  induction l as [|[b s] r IH]; intros [ab asv] bm.
  - cbn. destruct (ab =? bm); reflexivity.
  - cbn [app Bits.most_lookup]. destruct (b =? bm); [reflexivity|apply IH].
Qed.

Lemma lookup_none : forall mu bm, ~ In bm (map fst mu) -> Size.lookup bm mu = None.
Proof.
  induction mu as [|[b s] r IH]; intros bm H; [reflexivity|]. cbn [map fst In] in H. cbn [Size.lookup].
  destruct (N.eqb_spec b bm); [exfalso; apply H; left; assumption|]. apply IH. intros Hin. apply H. right. exact Hin.
Qed.

Lemma lookup_rev : forall mu bm, NoDup (map fst mu) -> Bits.most_lookup (rev mu) bm = Size.lookup bm mu.
Proof.
  induction mu as [|[b s] r IH]; intros bm H; [reflexivity|]. inversion H as [|? ? Hb Hr]; subst.
  cbn [rev]. rewrite most_lookup_app, (IH _ Hr). cbn [fst snd Size.lookup].
  destruct (N.eqb_spec b bm) as [->|Hne].
  - rewrite (lookup_none _ _ Hb). reflexivity.
  - destruct (Size.lookup bm r); reflexivity.
Qed.

(* ---------- no bitmap is assigned twice ---------- *)
Definition keysG {C} (T : list (list (N * C))) : list N := flat_map (fun l => map fst l) T.

Lemma keysG_conv : forall tbls, keysG (convt tbls) = keysG tbls.
Proof.
  induction tbls as [|l r IH]; [reflexivity|]. cbn [convt map keysG flat_map]. fold (convt r). fold (keysG (convt r)). fold (keysG r).
  rewrite IH, map_map. reflexivity.
Qed.

Lemma NoDup_app_intro {A} : forall a b : list A,
  NoDup a -> NoDup b -> (forall x, In x a -> In x b -> False) -> NoDup (a ++ b).
Proof.
  induction a as [|x a IH]; intros b Ha Hb H; [exact Hb|]. inversion Ha as [|? ? Hx Ha']; subst.
  cbn [app]. constructor.
  - rewrite in_app_iff. intros [Hin|Hin]; [contradiction|]. apply (H x); [left; reflexivity|exact Hin].
  - apply IH; [exact Ha'|exact Hb|]. intros y Hy1 Hy2. apply (H y); [right; exact Hy1|exact Hy2].
Qed.

Lemma in_keysG {C} : forall (T : list (list (N * C))) x, In x (keysG T) ->
  exists k l e, nth_error T k = Some l /\ In e l /\ fst e = x.
Proof.
  intros T x H. unfold keysG in H. apply in_flat_map in H. destruct H as (l & Hl & Hx).
  apply in_map_iff in Hx. destruct Hx as (e & He & Hin). apply In_nth_error in Hl. destruct Hl as (k & Hk).
  exists k, l, e. auto.
Qed.

Lemma keysG_nodup {C} : forall (T : list (list (N * C))) base,
  (forall l, In l T -> NoDup (map fst l)) ->
  (forall k l e, nth_error T k = Some l -> In e l -> popcount (fst e) = N.of_nat (base + k)) ->
  NoDup (keysG T).
Proof.
  induction T as [|l T IH]; intros base Hn Hp; [constructor|].
  cbn [keysG flat_map]. fold (keysG T). apply NoDup_app_intro.
  - apply Hn. left. reflexivity.
  - apply (IH (S base)).
    + intros l' Hl'. apply Hn. right. exact Hl'.
    + intros k l' e Hk He. rewrite (Hp (S k) l' e Hk He). f_equal. lia.
  - intros x Hx1 Hx2. apply in_map_iff in Hx1. destruct Hx1 as (e & He & Hin).
    pose proof (Hp 0%nat l e eq_refl Hin) as P1.
    apply in_keysG in Hx2. destruct Hx2 as (k & l' & e' & Hk & Hin' & He').
    pose proof (Hp (S k) l' e' Hk Hin') as P2. rewrite He in P1. rewrite He' in P2. lia.
Qed.

Lemma pop_nth_keys : forall tbls k x t', Size.pop_nth k tbls = (Some x, t') ->
  exists pre post, keysG tbls = pre ++ fst x :: post /\ keysG t' = pre ++ post.
Proof.
  induction tbls as [|l r IH]; intros k x t' H.
  - destruct k; cbn in H; discriminate.
  - destruct k as [|k]; cbn [Size.pop_nth] in H.
    + destruct l as [|y l']; [discriminate|]. injection H as <- <-.
      exists [], (map fst l' ++ keysG r). split; reflexivity.
    + destruct (Size.pop_nth k r) as [y r'] eqn:E. injection H as -> <-.
      destruct (IH _ _ _ E) as (pre & post & E1 & E2). exists (map fst l ++ pre), post.
      cbn [keysG flat_map]. fold (keysG r). fold (keysG r'). rewrite E1, E2, !app_assoc. split; reflexivity.
Qed.

Lemma assign_keys : forall shs tbls, NoDup (keysG tbls) ->
  NoDup (map fst (mu_pairs (Size.assign shs tbls) shs)) /\
  incl (map fst (mu_pairs (Size.assign shs tbls) shs)) (keysG tbls).
Proof.
  induction shs as [|s r IH]; intros tbls H.
  - cbn. split; [constructor|intros x []].
  - rewrite assign_cons. destruct (Size.pop_nth (Size.popcount s) tbls) as [[[bm c]|] t'] eqn:E; cbn [fst snd].
    + destruct (pop_nth_keys _ _ _ _ E) as (pre & post & E1 & E2). cbn [fst] in E1.
      rewrite E1 in H |- *. pose proof (NoDup_remove _ _ _ H) as [Hn Hni]. rewrite <- E2 in Hn, Hni.
      destruct (IH t' Hn) as [I1 I2]. rewrite mu_pairs_some. cbn [map fst]. split.
      * constructor; [|exact I1]. intros Hin. apply Hni. apply I2. exact Hin.
      * intros x [<-|Hx]; [apply in_elt|]. apply I2 in Hx. rewrite E2 in Hx.
        apply in_app_iff in Hx. apply in_app_iff. destruct Hx; [left; assumption|right; right; assumption].
    + apply pop_nth_none in E. subst t'. rewrite mu_pairs_none. apply IH. exact H.
Qed.

Lemma sorted_tbls_keys_each : forall cds l, In l (Size.sorted_tbls cds) -> NoDup (map fst l).
Proof.
  intros cds l H. unfold Size.sorted_tbls in H. apply in_map_iff in H. destruct H as (k & <- & _).
  eapply Permutation_NoDup; [apply Permutation_map, sort_cnt_perm|apply counts_nodup].
Qed.

(* ---------- summary for a list of non-big records ---------- *)
Theorem table_agree : forall J,
  Forall BitsEncProofs.rec_ok J -> Forall (fun j => Bits.i_big j = false) J ->
  let tbls := Size.sorted_tbls (Size.cands (map ino J)) in
  exists cs, Bits.count_bms J [] = Val cs /\ Bits.sorted_counts cs = convt tbls /\ NoDup (keysG tbls).
Proof.
  intros J Hok Hnb tbls. exists (fold_left stepB (Size.cands (map ino J)) []).
  pose proof (count_bms_cands J [] Hok Hnb) as E. split; [exact E|]. split; [apply sorted_counts_eq|].
  destruct (BitsEncProofs.count_bms_spec J [] Hok ltac:(constructor)) as (cs' & E' & Hcs).
  rewrite E in E'. injection E' as <-.
  pose proof (BitsEncProofs.sorted_counts_ok _ Hcs) as Hso. rewrite sorted_counts_eq in Hso. fold tbls in Hso.
  rewrite <- keysG_conv. apply (keysG_nodup (convt tbls) 0%nat).
  - intros l Hl. unfold convt in Hl. apply in_map_iff in Hl. destruct Hl as (l0 & <- & Hl0).
    rewrite map_map. cbn [conv fst]. apply (sorted_tbls_keys_each _ _ Hl0).
  - intros k l e Hk He. exact (Hso k l e Hk He).
Qed.
