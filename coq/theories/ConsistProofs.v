(* ConsistProofs.v - group (C): for every query string, on every built trie, in
   every mode: the lookups are total (no panic outcome), GetID / Get / the eq
   result of searchID agree, RangeGet follows Get, and every reported value is a
   supplied value (C10). *)
From Slim Require Import Base Keys KeysProofs ListFacts Model TrieInv BuildProofs QueryProofs.
From Coq Require Import Sorting.Sorted ZifyNat ZifyBool.

Arguments Nat.div : simpl never.
Arguments Nat.modulo : simpl never.

Definition is_leaf (t : tree) : bool := match t with Leaf _ _ _ _ => true | Inner _ _ _ _ _ _ => false end.

(* ---------- shape: inner nodes have children ---------- *)
Fixpoint has_kids (t : tree) : Prop :=
  match t with
  | Leaf _ _ _ _ => True
  | Inner _ _ _ _ _ ch =>
      ch <> [] /\
      (fix all (ch : list (nat * tree)) : Prop :=
         match ch with [] => True | (_, c) :: r => has_kids c /\ all r end) ch
  end.

Lemma has_kids_inner id big step pfx fc ch :
  has_kids (Inner id big step pfx fc ch) <-> ch <> [] /\ Forall (fun p => has_kids (snd p)) ch.
Proof.
  cbn [has_kids]. split; intros [H1 H2]; split; try exact H1.
  - induction ch as [|[x c] r IH]; constructor; [cbn; tauto|]. destruct r; [constructor|]. apply IH; [discriminate|tauto].
  - clear H1. induction H2 as [|[x c] r Hc _ IH]; [exact I|]. split; assumption.
Qed.

Lemma trie_of_has_kids o : forall t s, trie_of o t s -> SubInv s -> has_kids t.
Proof.
  induction t as [id ord tail eidx|id big step pfx fc ch IH] using tree_ind'; intros s Ht I; [exact Logic.I|].
  cbn [trie_of] in Ht. destruct Ht as (ib & labels & kids & b' & Hp & Hfst & Hkm).
  pose proof (inner_facts _ _ _ _ _ _ _ _ _ I Hp) as F.
  apply has_kids_inner. split.
  - intros ->. cbn in Hfst. apply (if_nonempty _ _ _ _ _ F). symmetry. exact Hfst.
  - rewrite Forall_forall in *. intros [x c] Hin. cbn [snd].
    apply In_nth_error in Hin. destruct Hin as (n & Hn).
    assert (exists k, nth_error kids n = Some k) as (k & Hk).
    { pose proof (kids_match_length _ _ _ Hkm) as L.
      destruct (nth_error kids n) eqn:E; [eauto|]. apply nth_error_None in E.
      assert (n < length ch) by (apply nth_error_Some; rewrite Hn; discriminate). lia. }
    apply (IH (x, c) (nth_error_In _ _ Hn) k).
    + eapply kids_match_nth; eassumption.
    + eapply kids_inv; [exact I|exact F|eapply nth_error_In; exact Hk].
Qed.

Lemma leftmost_leaf : forall t, has_kids t -> is_leaf (leftmost t) = true /\ In (leftmost t) (subtrees t).
Proof.
  induction t as [id ord tail eidx|id big step pfx fc ch IH] using tree_ind'; intros H.
  - split; [reflexivity|left; reflexivity].
  - apply has_kids_inner in H. destruct H as [Hne Hk].
    destruct ch as [|[x c] r]; [congruence|]. cbn [leftmost].
    inversion IH as [|? ? IHc _]; subst. inversion Hk as [|? ? Hc _]; subst. cbn [snd] in *.
    destruct (IHc Hc) as [H1 H2]. split; [exact H1|].
    eapply subtrees_trans; [eapply subtree_child; left; reflexivity|exact H2].
Qed.

Definition rm_go (d : tree) : list (nat * tree) -> tree :=
  fix go (ch : list (nat * tree)) : tree :=
    match ch with
    | [] => d
    | (_, c) :: r => match r with [] => rightmost c | _ :: _ => go r end
    end.

Lemma rm_go_last d ch x c : rm_go d (ch ++ [(x, c)]) = rightmost c.
Proof.
  induction ch as [|[y e] r IH]; [reflexivity|].
  cbn [app rm_go]. destruct (r ++ [(x, c)]) as [|p l] eqn:E; [destruct r; discriminate|].
  exact IH.
Qed.

Lemma rightmost_inner id big step pfx fc ch x c :
  rightmost (Inner id big step pfx fc (ch ++ [(x, c)])) = rightmost c.
Proof.
  change (rightmost (Inner id big step pfx fc (ch ++ [(x, c)])))
    with (rm_go (Inner id big step pfx fc (ch ++ [(x, c)])) (ch ++ [(x, c)])).
  apply rm_go_last.
Qed.

Lemma rightmost_leaf : forall t, has_kids t -> is_leaf (rightmost t) = true /\ In (rightmost t) (subtrees t).
Proof.
  induction t as [id ord tail eidx|id big step pfx fc ch IH] using tree_ind'; intros H.
  - split; [reflexivity|left; reflexivity].
  - apply has_kids_inner in H. destruct H as [Hne Hk].
    destruct (exists_last Hne) as (ch' & [x c] & ->).
    rewrite rightmost_inner.
    rewrite Forall_forall in IH, Hk.
    assert (In (x, c) (ch' ++ [(x, c)])) as Hin by (apply in_or_app; right; left; reflexivity).
    destruct (IH _ Hin (Hk _ Hin)) as [H1 H2]. cbn [snd] in *. split; [exact H1|].
    eapply subtrees_trans; [eapply subtree_child; exact Hin|exact H2].
Qed.

(* ---------- searchID's label walk as a function ---------- *)
Definition sres : Type := (option tree * option (tree * nat * bool) * option tree)%type.

Definition search_go (lb : nat) (lc rc : option tree) (k : tree -> option tree -> option tree -> sres)
  : list (nat * tree) -> option tree -> sres :=
  fix go (ch : list (nat * tree)) (prev : option tree) : sres :=
    match ch with
    | [] => (or_else prev lc, None, rc)
    | (x, c) :: rest =>
        if x <? lb then go rest (Some c)
        else if Nat.eqb x lb then
          k c (or_else prev lc) (match rest with (_, c') :: _ => Some c' | [] => rc end)
        else (or_else prev lc, None, Some c)
    end.

Lemma search_down_inner qn l id big step pfx fc ch i lc rc :
  search_down qn l (Inner id big step pfx fc ch) i lc rc =
  match advance3 qn l i step pfx with
  | ALt => (lc, None, Some (Inner id big step pfx fc ch))
  | AGt => (Some (Inner id big step pfx fc ch), None, rc)
  | AEq i1 =>
      search_go (label_at big qn i1) lc rc
        (fun c lc' rc' => if Nat.eqb i1 l then (lc', Some (c, i1, false), rc')
                          else search_down qn l c (i1 + wsize big) lc' rc')
        ch None
  end.
Proof. reflexivity. Qed.

Lemma find_child_none {A} lb ch (k : tree -> option A) :
  ~ In lb (map fst ch) -> find_child lb ch k = None.
Proof.
  induction ch as [|[x c] r IH]; intros H; [reflexivity|]. cbn [find_child].
  destruct (Nat.eqb_spec x lb) as [->|Hne]; [exfalso; apply H; left; reflexivity|].
  apply IH. intros Hin. apply H. right. exact Hin.
Qed.

Definition seq (r : sres) : option (tree * nat * bool) := snd (fst r).

Lemma search_go_eq lb lc rc k kd : forall ch prev,
  StronglySorted lt (map fst ch) ->
  (forall c lc' rc', In (lb, c) ch -> seq (k c lc' rc') = kd c) ->
  seq (search_go lb lc rc k ch prev) = find_child lb ch kd.
Proof.
  induction ch as [|[x c] rest IH]; intros prev Hs Hk; [reflexivity|].
  cbn [search_go find_child]. cbn [map fst] in Hs. inversion Hs as [|? ? Hs' Hf]; subst.
  destruct (Nat.ltb_spec x lb) as [Hlt|Hge].
  - destruct (Nat.eqb_spec x lb); [lia|]. apply IH; [exact Hs'|]. intros; apply Hk; right; assumption.
  - destruct (Nat.eqb_spec x lb) as [->|Hne].
    + apply Hk. left; reflexivity.
    + cbn. symmetry. apply find_child_none. intros Hin. rewrite Forall_forall in Hf. specialize (Hf _ Hin). lia.
Qed.

(* where the nodes of a search result come from *)
Definition from_tree (t : tree) (inh : option tree) (x : option tree) : Prop :=
  match x with None => True | Some n => inh = Some n \/ In n (subtrees t) end.

(* ---------- advance vs advance3 ---------- *)
Lemma lex_cmp_eq_len a b : lex_cmp a b = Eq -> length a = length b.
Proof. intros H. apply lex_cmp_eq in H. congruence. Qed.

Lemma cmp_upto_eq_len a p : cmp_upto a p = Eq -> length p <= length a.
Proof.
  unfold cmp_upto. intros H. apply lex_cmp_eq_len in H. rewrite firstn_length in H. lia.
Qed.

Lemma advance3_advance qn i step pfx :
  i <= length qn ->
  advance qn (length qn) i step pfx =
  match advance3 qn (length qn) i step pfx with AEq i1 => Some i1 | _ => None end.
Proof.
  intros Hi. unfold advance, advance3. destruct pfx as [p|].
  - destruct (cmp_upto (skipn (even_down i) qn) p) eqn:E; try reflexivity.
    apply cmp_upto_eq_len in E. rewrite skipn_length in E.
    pose proof (even_down_le i).
    destruct (Nat.ltb_spec (length qn) (even_down i + length p)); [lia|reflexivity].
  - cbv zeta. destruct (length qn <? i + step); reflexivity.
Qed.

(* ---------- children of an inner node and their subsets ---------- *)
Lemma child_subset o s big labels kids ch lb c :
  SubInv s -> InnerFacts o s big labels kids ->
  map fst ch = labels -> kids_match (trie_of o) ch kids -> In (lb, c) ch ->
  exists k, In k kids /\ trie_of o c k /\ SubInv k /\
            s_from k = sub_w big s + label_width big lb /\
            (lb = 0 -> exists e, s_ents k = [e]) /\
            (forall e, In e (s_ents k) -> In e (s_ents s)).
Proof.
  intros I F Hfst Hkm Hin. apply In_nth_error in Hin. destruct Hin as (n & Hn).
  assert (nth_error labels n = Some lb) as Hl by (rewrite <- Hfst, nth_error_map, Hn; reflexivity).
  assert (exists k, nth_error kids n = Some k) as (k & Hk).
  { pose proof (kids_match_length _ _ _ Hkm) as L.
    destruct (nth_error kids n) eqn:E; [eauto|]. apply nth_error_None in E.
    assert (n < length ch) by (apply nth_error_Some; rewrite Hn; discriminate). lia. }
  exists k. split; [eapply nth_error_In; exact Hk|].
  split; [eapply kids_match_nth; eassumption|].
  split; [eapply kids_inv; [exact I|exact F|eapply nth_error_In; exact Hk]|].
  pose proof Hk as Hk'. rewrite (if_kids _ _ _ _ _ F), nth_error_map, Hl in Hk'. cbn in Hk'. inversion Hk' as [Ek].
  split; [reflexivity|]. split.
  - intros ->. rewrite Ek. eapply label0_singleton; eassumption.
  - cbn [s_ents]. intros e He. apply filter_In in He. tauto.
Qed.

Lemma advance_pos o isbig s big step pfx labels kids b' qn l i1 :
  SubInv s ->
  process_subset o isbig s = Ok (DInner big step pfx labels kids, b') ->
  advance qn l (s_from s) step pfx = Some i1 -> i1 = sub_w big s /\ i1 <= l.
Proof.
  intros I Hp. pose proof (process_inner_inv _ _ _ _ _ _ _ _ _ Hp) as Hinv. cbv zeta in Hinv.
  destruct Hinv as ((e0 & e1 & r & Es & Hpfx) & Hw & _ & _ & Hstep & _).
  set (w := sub_w big s) in *.
  assert (2 <= length (s_ents s)) as Htwo by (rewrite Es; cbn; lia).
  assert (In e0 (s_ents s)) as He0 by (rewrite Es; left; reflexivity).
  pose proof (sub_w_len big s e0 Htwo He0) as Hle0. fold w in Hle0.
  unfold advance.
  destruct (o_inner o && (0 <? w - s_from s)) eqn:Ec.
  - subst pfx. set (f := even_down (s_from s)).
    assert (f <= s_from s) as Hf by apply even_down_le.
    set (p := firstn (w - f) (skipn f (e_nibs e0))).
    assert (length p = w - f) as Lp.
    { unfold p. rewrite firstn_length, skipn_length. lia. }
    destruct (cmp_upto (skipn f qn) p); try discriminate.
    rewrite Lp. replace (f + (w - f)) with w by lia.
    destruct (Nat.ltb_spec l w) as [|Hlw]; [discriminate|]. intros Hs; inversion Hs; subst. split; [reflexivity|exact Hlw].
  - subst pfx. subst step. cbv zeta.
    assert (s_from s + (if o_inner o then 0 else w - s_from s) = w) as ->.
    { destruct (o_inner o); cbn [andb] in Ec; [|lia]. apply Nat.ltb_ge in Ec. lia. }
    destruct (Nat.ltb_spec l w) as [|Hlw]; [discriminate|]. intros Hs; inversion Hs; subst. split; [reflexivity|exact Hlw].
Qed.

(* the next position stays inside the key *)
Lemma next_pos_le big w l : w < l -> Nat.even l = true -> (big = true -> Nat.even w = true) -> w + wsize big <= l.
Proof.
  intros Hlt El Ew. destruct big; cbn [wsize]; [|lia].
  specialize (Ew eq_refl). apply Nat.even_spec in El, Ew. destruct El as [a ->], Ew as [b ->]. lia.
Qed.

Lemma sub_w_even_big big s : big = true -> Nat.even (sub_w big s) = true.
Proof. intros ->. apply sub_w_even. Qed.

(* ---------- facts about the node GetID's descent stops at ---------- *)
Section Query.
  Variable o : opts.
  Variable q : key.
  Let qn := nibs q.
  Let l := length qn.

  Lemma l_even : Nat.even l = true.
  Proof. unfold l, qn. rewrite nibs_length. apply Nat.even_spec. exists (length q). lia. Qed.

  Lemma label_end big : label_at big qn l = 0.
  Proof. apply (label_zero_iff big qn l (le_n _)). reflexivity. Qed.

  Lemma descend_facts : forall t s,
    trie_of o t s -> SubInv s -> s_from s <= l ->
    forall c i v, descend qn l t (s_from s) = Some (c, i, v) ->
    is_leaf c = true /\ i <= l /\ (v = false -> i = l).
  Proof.
    induction t as [id ord tail eidx|id big step pfx fc ch IH] using tree_ind'; intros s Ht I Hfrom c i v Hd.
    - cbn [descend] in Hd. inversion Hd; subst. split; [reflexivity|]. split; [exact Hfrom|discriminate].
    - cbn [trie_of] in Ht. destruct Ht as (ib & labels & kids & b' & Hp & Hfst & Hkm).
      pose proof (inner_facts _ _ _ _ _ _ _ _ _ I Hp) as F.
      rewrite descend_inner in Hd.
      destruct (advance qn l (s_from s) step pfx) as [i1|] eqn:Ea; [|discriminate].
      destruct (advance_pos _ _ _ _ _ _ _ _ _ _ _ _ I Hp Ea) as [Ei1 Hle]. 
      apply find_child_in in Hd. destruct Hd as (c0 & Hin & Hk).
      destruct (child_subset o s big labels kids ch _ c0 I F Hfst Hkm Hin) as (k & Hkin & Htc & Ik & Hfk & Hz & _).
      destruct (Nat.eqb_spec i1 l) as [Heq|Hne].
      + inversion Hk; subst c i v. clear Hk.
        rewrite Heq in Hz. destruct (Hz (label_end big)) as (e' & Hs').
        destruct (singleton_leaf o c0 k e' Htc Hs') as (id' & ord' & ->).
        split; [reflexivity|]. split; [lia|intros _; exact Heq].
      + assert (label_at big qn i1 <> 0) as Hnz.
        { intros Hz0. apply Hne. apply (label_zero_iff big qn i1 Hle). exact Hz0. }
        assert (label_width big (label_at big qn i1) = wsize big) as Hwd by (destruct (label_at big qn i1); [congruence|reflexivity]).
        rewrite Hwd, <- Ei1 in Hfk.
        rewrite Forall_forall in IH. rewrite <- Hfk in Hk.
        apply (IH _ Hin k Htc Ik); [|exact Hk].
        rewrite Hfk. apply next_pos_le; [lia|apply l_even|]. intros Hb. rewrite Ei1. apply sub_w_even_big. exact Hb.
  Qed.

  (* searchID's eq component is GetID's descent *)
  Lemma search_down_seq : forall t s,
    trie_of o t s -> SubInv s -> s_from s <= l ->
    forall lc rc, seq (search_down qn l t (s_from s) lc rc) = descend qn l t (s_from s).
  Proof.
    induction t as [id ord tail eidx|id big step pfx fc ch IH] using tree_ind'; intros s Ht I Hfrom lc rc.
    - reflexivity.
    - cbn [trie_of] in Ht. destruct Ht as (ib & labels & kids & b' & Hp & Hfst & Hkm).
      pose proof (inner_facts _ _ _ _ _ _ _ _ _ I Hp) as F.
      rewrite search_down_inner, descend_inner.
      unfold l in *. rewrite (advance3_advance qn (s_from s) step pfx Hfrom).
      destruct (advance3 qn (length qn) (s_from s) step pfx) as [i1| |] eqn:Ea3; try reflexivity.
      assert (advance qn (length qn) (s_from s) step pfx = Some i1) as Ea.
      { rewrite (advance3_advance qn (s_from s) step pfx Hfrom), Ea3. reflexivity. }
      destruct (advance_pos _ _ _ _ _ _ _ _ _ _ _ _ I Hp Ea) as [Ei1 Hle].
      apply search_go_eq.
      + rewrite Hfst. apply (if_asc _ _ _ _ _ F).
      + intros c lc' rc' Hin.
        destruct (Nat.eqb_spec i1 (length qn)) as [Heq|Hne]; [reflexivity|].
        destruct (child_subset o s big labels kids ch _ c I F Hfst Hkm Hin) as (k & Hkin & Htc & Ik & Hfk & _ & _).
        assert (label_at big qn i1 <> 0) as Hnz.
        { intros Hz0. apply Hne. apply (label_zero_iff big qn i1 Hle). exact Hz0. }
        assert (label_width big (label_at big qn i1) = wsize big) as Hwd by (destruct (label_at big qn i1); [congruence|reflexivity]).
        rewrite Hwd, <- Ei1 in Hfk. rewrite <- Hfk.
        rewrite Forall_forall in IH. apply (IH _ Hin k Htc Ik).
        rewrite Hfk. apply next_pos_le; [lia|apply l_even|]. intros Hb. rewrite Ei1. apply sub_w_even_big. exact Hb.
  Qed.
End Query.

(* ---------- the three nodes of a search come from the tree ---------- *)
Lemma search_go_from T lb lc rc k : forall ch prev,
  (forall x c, In (x, c) ch -> In c (subtrees T)) ->
  from_tree T None prev ->
  (forall c lc' rc', In (lb, c) ch -> from_tree T lc lc' -> from_tree T rc rc' ->
     from_tree T lc (fst (fst (k c lc' rc'))) /\ from_tree T rc (snd (k c lc' rc'))) ->
  from_tree T lc (fst (fst (search_go lb lc rc k ch prev))) /\
  from_tree T rc (snd (search_go lb lc rc k ch prev)).
Proof.
  assert (forall prev, from_tree T None prev -> from_tree T lc (or_else prev lc)) as Hor.
  { intros [p|] Hp; cbn [or_else].
    - cbn [from_tree] in *. destruct Hp as [Hp|Hp]; [discriminate|right; exact Hp].
    - destruct lc; cbn; auto. }
  assert (from_tree T rc rc) as Hrc by (destruct rc; cbn; auto).
  induction ch as [|[x c] rest IH]; intros prev Hsub Hprev Hk; cbn [search_go].
  - cbn [fst snd]. split; [apply Hor; exact Hprev|exact Hrc].
  - destruct (x <? lb).
    + apply IH; [intros; eapply Hsub; right; eassumption| |intros; apply Hk; [right|..]; assumption].
      cbn. right. eapply Hsub. left; reflexivity.
    + destruct (Nat.eqb_spec x lb) as [->|Hne].
      * apply Hk; [left; reflexivity|apply Hor; exact Hprev|].
        destruct rest as [|[y c'] rest']; [exact Hrc|]. cbn. right. eapply Hsub. right; left; reflexivity.
      * cbn [fst snd]. split; [apply Hor; exact Hprev|]. cbn. right. eapply Hsub. left; reflexivity.
Qed.

Lemma from_tree_trans T c inh mid out x y :
  In (x, c) (match T with Inner _ _ _ _ _ ch => ch | _ => [] end) ->
  y = T ->
  from_tree T inh mid -> from_tree c mid out -> from_tree T inh out.
Proof.
  intros Hin -> Hmid Hout. destruct out as [n|]; [|exact I]. cbn in Hout |- *.
  destruct Hout as [Hout|Hout].
  - rewrite Hout in Hmid. exact Hmid.
  - right. destruct T as [|id big step pfx fc ch]; [destruct Hin|].
    eapply subtrees_trans; [eapply subtree_child; exact Hin|exact Hout].
Qed.

Lemma search_down_from qn l : forall t i lc rc,
  from_tree t lc (fst (fst (search_down qn l t i lc rc))) /\
  from_tree t rc (snd (search_down qn l t i lc rc)).
Proof.
  induction t as [id ord tail eidx|id big step pfx fc ch IH] using tree_ind'; intros i lc rc.
  - cbn [search_down fst snd]. split; [destruct lc|destruct rc]; cbn; auto.
  - rewrite search_down_inner.
    set (T := Inner id big step pfx fc ch).
    destruct (advance3 qn l i step pfx) as [i1| |].
    + apply search_go_from.
      * intros x c Hin. eapply subtree_child; exact Hin.
      * exact I.
      * intros c lc' rc' Hin Hlc Hrc. destruct (Nat.eqb i1 l); [cbn [fst snd]; auto|].
        rewrite Forall_forall in IH. destruct (IH _ Hin (i1 + wsize big) lc' rc') as [H1 H2]. cbn [snd] in H1, H2.
        split; eapply (from_tree_trans T c); try eassumption; try reflexivity.
    + cbn [fst snd]. split; [destruct lc; cbn; auto|]. cbn [from_tree]. right. apply subtrees_self.
    + cbn [fst snd]. split; [cbn [from_tree]; right; apply subtrees_self|destruct rc; cbn; auto].
Qed.

(* ---------- leaves of a built tree belong to kept entries ---------- *)
Lemma leaf_tail_some o e i t : leaf_tail o e i = Some t -> t <> [].
Proof.
  unfold leaf_tail. destruct (o_leaf o); [|discriminate].
  destruct (skipn (i / 2) (e_key e)); [discriminate|]. intros H; inversion H; discriminate.
Qed.

Lemma subtree_leaf_ent o : forall t s, trie_of o t s -> SubInv s ->
  forall id ord tail eidx, In (Leaf id ord tail eidx) (subtrees t) ->
  exists e i, In e (s_ents s) /\ e_keep e = true /\ tail = leaf_tail o e i /\ eidx = e_idx e.
Proof.
  induction t as [id0 ord0 tail0 eidx0|id0 big step pfx fc ch IH] using tree_ind'; intros s Ht I id ord tail eidx Hin.
  - destruct Hin as [Hin|[]]. inversion Hin; subst. cbn [trie_of] in Ht. destruct Ht as (e & Hs & -> & ->).
    exists e, (s_from s). rewrite Hs. split; [left; reflexivity|]. split; [|auto].
    destruct (si_kept s I) as (e' & He' & Hk). rewrite Hs in He'. destruct He' as [<-|[]]. exact Hk.
  - rewrite subtrees_inner in Hin. destruct Hin as [Hin|Hin]; [discriminate|].
    cbn [trie_of] in Ht. destruct Ht as (ib & labels & kids & b' & Hp & Hfst & Hkm).
    pose proof (inner_facts _ _ _ _ _ _ _ _ _ I Hp) as F.
    apply in_flat_map in Hin. destruct Hin as ([x c] & Hc & Hin). cbn [snd] in Hin.
    destruct (child_subset o s big labels kids ch x c I F Hfst Hkm Hc) as (k & _ & Htc & Ik & _ & _ & Hsubset).
    rewrite Forall_forall in IH. destruct (IH _ Hc k Htc Ik _ _ _ _ Hin) as (e & i & He & Hk & Ht & Hi).
    exists e, i. auto.
Qed.

Lemma has_kids_sub : forall t c, has_kids t -> In c (subtrees t) -> has_kids c.
Proof.
  induction t as [id ord tail eidx|id big step pfx fc ch IH] using tree_ind'; intros c H Hin.
  - destruct Hin as [<-|[]]. exact H.
  - rewrite subtrees_inner in Hin. destruct Hin as [<-|Hin]; [exact H|].
    apply has_kids_inner in H. destruct H as [_ Hk]. apply in_flat_map in Hin. destruct Hin as (p & Hp & Hin).
    rewrite Forall_forall in IH, Hk. eapply IH; [exact Hp|apply Hk; exact Hp|exact Hin].
Qed.

(* ---------- bytes comparison ---------- *)
Lemma bytes_cmp_eq a b : bytes_cmp a b = Eq <-> a = b.
Proof.
  rewrite bytes_cmp_nibs. split.
  - intros H. apply lex_cmp_eq in H. apply nibs_inj. exact H.
  - intros ->. apply lex_cmp_refl.
Qed.

Lemma bytes_cmp_nil a : bytes_cmp a [] = Eq \/ bytes_cmp a [] = Gt.
Proof. destruct a; cbn; auto. Qed.

(* ---------- searchID's exact result is GetID's ---------- *)
Lemma searchid_eq_getid o keys vals T r lidx q :
  Built o keys vals T r lidx -> snd (fst (searchid T q)) = getid_node T q.
Proof.
  intros B.
  pose proof (root_inv o keys vals (bt_sorted _ _ _ _ _ _ B) (bt_nonempty _ _ _ _ _ _ B)) as I.
  pose proof (bt_trie _ _ _ _ _ _ B) as Ht.
  unfold searchid, getid_node. rewrite (bt_root _ _ _ _ _ _ B). cbv zeta.
  set (qn := nibs q). set (l := length qn).
  pose proof (search_down_seq o q r _ Ht I (Nat.le_0_l _) None None) as Hseq.
  change (s_from (root_subset o keys vals)) with 0 in Hseq. fold qn l in Hseq.
  destruct (search_down qn l r 0 None None) as [[lc eq] rc] eqn:Esd. unfold seq in Hseq. cbn [fst snd] in Hseq. subst eq.
  destruct (descend qn l r 0) as [[[c i] v]|] eqn:Ed; [|reflexivity].
  pose proof (descend_facts o q r _ Ht I (Nat.le_0_l _) c i v) as Hf.
  change (s_from (root_subset o keys vals)) with 0 in Hf. fold qn l in Hf.
  destruct (Hf Ed) as (Hleaf & Hi & Hv).
  pose proof (descend_subtree _ _ _ _ _ _ _ Ed) as Hsub.
  assert (l = 2 * length q) as Hl by (unfold l, qn; apply nibs_length).
  destruct (Nat.leb_spec i l) as [_|]; [|lia].
  rewrite (bt_leafpfx _ _ _ _ _ _ B).
  destruct (o_leaf o) eqn:Eleaf; [|reflexivity].
  destruct c as [id ord tail eidx|]; [|discriminate].
  destruct (subtree_leaf_ent o r _ Ht I _ _ _ _ Hsub) as (e & i' & _ & _ & Htail & _).
  destruct v; cbn [sess_tail].
  - destruct tail as [t|].
    + assert (t <> []) as Hne by (eapply leaf_tail_some; symmetry; exact Htail).
      destruct (Nat.eqb_spec i l) as [->|Hil].
      * replace (l / 2) with (length q) by lia. rewrite skipn_all.
        destruct t as [|t0 tr]; [congruence|]. reflexivity.
      * destruct (bytes_eqb t (skipn (i / 2) q)) eqn:Eb.
        -- apply bytes_eqb_eq in Eb. rewrite <- Eb. rewrite (proj2 (bytes_cmp_eq t t) eq_refl). reflexivity.
        -- destruct (bytes_cmp (skipn (i / 2) q) t) eqn:Ec; try reflexivity.
           apply bytes_cmp_eq in Ec. rewrite Ec, bytes_eqb_refl in Eb. discriminate.
    + destruct (Nat.eqb_spec i l) as [->|Hil].
      * replace (l / 2) with (length q) by lia. rewrite skipn_all. reflexivity.
      * destruct (bytes_cmp_nil (skipn (i / 2) q)) as [Ec|Ec]; rewrite Ec; [|reflexivity].
        apply bytes_cmp_eq in Ec.
        assert (length (skipn (i / 2) q) = 0) as L0 by (rewrite Ec; reflexivity).
        rewrite skipn_length in L0. lia.
  - rewrite (Hv eq_refl), Nat.eqb_refl.
    replace (l / 2) with (length q) by lia. rewrite skipn_all. reflexivity.
Qed.

(* ---------- values of leaves of the tree ---------- *)
Lemma leaf_value_in_tree o keys vals T r lidx c :
  Built o keys vals T r lidx -> In c (subtrees r) -> is_leaf c = true ->
  exists v i, leaf_value T c = Ok v /\ i < length keys /\ retained o keys vals i = true /\
              val_bytes v = supplied vals i /\ (vals = None -> v = None).
Proof.
  intros B Hsub Hleaf. destruct c as [id ord tail eidx|]; [|discriminate].
  pose proof (root_inv o keys vals (bt_sorted _ _ _ _ _ _ B) (bt_nonempty _ _ _ _ _ _ B)) as I.
  destruct (subtree_leaf_ent o r _ (bt_trie _ _ _ _ _ _ B) I _ _ _ _ Hsub) as (e & i' & He & Hk & _ & Hidx).
  pose proof (leaf_subtree_leaves _ _ _ _ _ Hsub) as Hl.
  pose proof (leaf_ok_root_nth lidx r ord eidx (bt_leaf _ _ _ _ _ _ B) Hl) as Hn.
  destruct (leaf_value_kept vals lidx T id ord tail eidx (bt_leaves _ _ _ _ _ _ B) Hn) as (v & Hv & Hvb & Hvn).
  exists v, eidx. split; [exact Hv|].
  cbn [root_subset s_ents] in He. apply In_nth_error in He. destruct He as (n & Hn').
  assert (n < length keys) as Hlt.
  { assert (n < length (mk_ents 0 keys (to_keep o (length keys) vals))) as H by (apply nth_error_Some; rewrite Hn'; discriminate).
    clear - H. revert H. generalize 0 at 1. generalize (to_keep o (length keys) vals). revert n.
    induction keys as [|k r IH]; intros n kp b H; cbn in *; [lia|]. destruct n; [lia|]. apply (proj1 (Nat.succ_lt_mono _ _)). eapply IH. apply (proj2 (Nat.succ_lt_mono _ _)). exact H. }
  destruct (nth_error keys n) as [k|] eqn:Ek; [|apply nth_error_None in Ek; lia].
  rewrite (mk_ents_nth keys 0 _ n k Ek) in Hn'. inversion Hn' as [Ee]. subst e. cbn [e_idx e_keep] in *.
  subst eidx. split; [exact Hlt|]. split; [exact Hk|]. split; assumption.
Qed.

Lemma from_root_leaf (f : tree -> tree) o keys vals T r lidx x :
  Built o keys vals T r lidx ->
  (forall t, has_kids t -> is_leaf (f t) = true /\ In (f t) (subtrees t)) ->
  from_tree r None x ->
  exists v, opt_leaf_value T (option_map f x) = Ok v.
Proof.
  intros B Hf Hx. destruct x as [n|]; [|exists None; reflexivity].
  cbn [from_tree] in Hx. destruct Hx as [Hx|Hx]; [discriminate|].
  pose proof (root_inv o keys vals (bt_sorted _ _ _ _ _ _ B) (bt_nonempty _ _ _ _ _ _ B)) as I.
  pose proof (trie_of_has_kids o r _ (bt_trie _ _ _ _ _ _ B) I) as Hk.
  destruct (Hf n (has_kids_sub r n Hk Hx)) as [H1 H2].
  destruct (leaf_value_in_tree o keys vals T r lidx (f n) B (subtrees_trans _ _ _ Hx H2) H1) as (v & i & Hv & _).
  cbn [option_map opt_leaf_value]. unfold bind. rewrite Hv. eexists; reflexivity.
Qed.

(* ---------- C10 on the tree model ---------- *)
Theorem lookups_total_consistent_gen b o keys vals T q :
  build_gen b o keys vals = Ok T ->
  (* total: never a panic / out-of-fuel outcome *)
  (exists f, get T q = Ok f) /\ (exists f, rangeget T q = Ok f) /\ (exists s, search T q = Ok s) /\
  (* Get, GetID and the exact result of Search agree *)
  (get T q = Ok NotFound <-> getid T q = None) /\
  (forall v, get T q = Ok (Found v) -> exists lv rv, search T q = Ok (lv, Some v, rv)) /\
  (get T q = Ok NotFound -> exists lv rv, search T q = Ok (lv, None, rv)) /\
  (* RangeGet reports found whenever Get does, with the same value *)
  (forall v, get T q = Ok (Found v) -> rangeget T q = Ok (Found v)) /\
  (* a hit carries the value supplied for a retained key *)
  (forall v, get T q = Ok (Found v) ->
     exists i, i < length keys /\ retained o keys vals i = true /\ val_bytes v = supplied vals i /\ (vals = None -> v = None)).
Proof.
  intros Hb. destruct (build_gen_ok b _ _ _ _ Hb) as [[-> ->]|(r & lidx & B)].
  { cbn. repeat split; eauto; try discriminate. }
  pose proof (searchid_eq_getid o keys vals T r lidx q B) as Heq.
  pose proof (root_inv o keys vals (bt_sorted _ _ _ _ _ _ B) (bt_nonempty _ _ _ _ _ _ B)) as I.
  (* the three nodes of searchid *)
  assert (exists lc rc, searchid T q = (option_map rightmost lc, getid_node T q, option_map leftmost rc) /\
                        from_tree r None lc /\ from_tree r None rc) as (lc & rc & Hs & Hlc & Hrc).
  { unfold searchid in *. rewrite (bt_root _ _ _ _ _ _ B) in *. cbv zeta in *.
    pose proof (search_down_from (nibs q) (length (nibs q)) r 0 None None) as [H1 H2].
    destruct (search_down (nibs q) (length (nibs q)) r 0 None None) as [[lc0 eq0] rc0] eqn:Esd. cbn [fst snd] in H1, H2.
    pose proof (descend_subtree (nibs q) (length (nibs q)) r 0) as Hds.
    pose proof (search_down_seq o q r _ (bt_trie _ _ _ _ _ _ B) I (Nat.le_0_l _) None None) as Hseq.
    change (s_from (root_subset o keys vals)) with 0 in Hseq. rewrite Esd in Hseq. unfold seq in Hseq. cbn [fst snd] in Hseq.
    destruct eq0 as [[[c i] v]|].
    - assert (In c (subtrees r)) as Hc by (eapply Hds; symmetry; exact Hseq).
      destruct (i <=? length (nibs q)).
      + destruct (if t_leafpfx T then bytes_cmp (skipn (i / 2) q) match sess_tail c v with Some t => t | None => [] end else Eq);
          cbn [fst snd] in Heq; rewrite <- Heq.
        * exists lc0, rc0. auto.
        * exists lc0, (Some c). split; [reflexivity|]. split; [exact H1|cbn; right; exact Hc].
        * exists (Some c), rc0. split; [reflexivity|]. split; [cbn; right; exact Hc|exact H2].
      + cbn [fst snd] in Heq; rewrite <- Heq. exists lc0, rc0. auto.
    - cbn [fst snd] in Heq; rewrite <- Heq. exists lc0, rc0. auto. }
  destruct (from_root_leaf rightmost o keys vals T r lidx lc B rightmost_leaf Hlc) as (lv & Hlv).
  destruct (from_root_leaf leftmost o keys vals T r lidx rc B leftmost_leaf Hrc) as (rv & Hrv).
  (* the exact node *)
  assert (forall c, getid_node T q = Some c -> In c (subtrees r) /\ is_leaf c = true) as Hnode.
  { intros c Hc. split; [eapply getid_node_subtree; [apply (bt_root _ _ _ _ _ _ B)|exact Hc]|].
    unfold getid_node in Hc. rewrite (bt_root _ _ _ _ _ _ B) in Hc. cbv zeta in Hc.
    destruct (descend (nibs q) (length (nibs q)) r 0) as [[[c0 i] v]|] eqn:Ed; [|discriminate].
    pose proof (descend_facts o q r _ (bt_trie _ _ _ _ _ _ B) I (Nat.le_0_l _) c0 i v) as Hf.
    change (s_from (root_subset o keys vals)) with 0 in Hf. destruct (Hf Ed) as (Hleaf & _).
    destruct (t_leafpfx T); [destruct (sess_tail c0 v); destruct (Nat.eqb i (length (nibs q))); try discriminate;
      [destruct (bytes_eqb _ _); [|discriminate]|]|]; inversion Hc; subst; exact Hleaf. }
  unfold get, rangeget, search, getid. rewrite Hs.
  destruct (getid_node T q) as [c|] eqn:Eg.
  - destruct (Hnode c eq_refl) as [Hsub Hleaf].
    destruct (leaf_value_in_tree o keys vals T r lidx c B Hsub Hleaf) as (v & i & Hv & Hi & Hret & Hvb & Hvn).
    unfold bind. cbn [opt_leaf_value]. unfold bind. rewrite Hlv, Hv, Hrv.
    repeat split; eauto; try discriminate.
    + intros v' H'. inversion H'; subst. eauto.
    + intros v' H'. inversion H'; subst. exists i. auto.
  - unfold bind. cbn [opt_leaf_value option_map]. rewrite Hlv, Hrv.
    repeat split; eauto; try discriminate.
    destruct (option_map rightmost lc) as [n|] eqn:El.
    + cbn [opt_leaf_value] in Hlv. unfold bind in Hlv. destruct (leaf_value T n); [eauto|discriminate].
    + eauto.
Qed.

Theorem lookups_total_consistent o keys vals T q :
  build o keys vals = Ok T ->
  (* total: never a panic / out-of-fuel outcome *)
  (exists f, get T q = Ok f) /\ (exists f, rangeget T q = Ok f) /\ (exists s, search T q = Ok s) /\
  (* Get, GetID and the exact result of Search agree *)
  (get T q = Ok NotFound <-> getid T q = None) /\
  (forall v, get T q = Ok (Found v) -> exists lv rv, search T q = Ok (lv, Some v, rv)) /\
  (get T q = Ok NotFound -> exists lv rv, search T q = Ok (lv, None, rv)) /\
  (* RangeGet reports found whenever Get does, with the same value *)
  (forall v, get T q = Ok (Found v) -> rangeget T q = Ok (Found v)) /\
  (* a hit carries the value supplied for a retained key *)
  (forall v, get T q = Ok (Found v) ->
     exists i, i < length keys /\ retained o keys vals i = true /\ val_bytes v = supplied vals i /\ (vals = None -> v = None)).
Proof. exact (lookups_total_consistent_gen true o keys vals T q). Qed.
