(* BitsWfProofs.v - L3: what the checker [flat_wf] gives for every node of a flat list, and
   the per-node records the creator keeps (inners_of, tails_of) in terms of positions. *)
From Coq Require Import List Arith Bool NArith ZArith Lia Sorted.
From Coq Require Import ZifyN ZifyNat ZifyBool.
From Coq.Strings Require Import Byte.
From Slim Require Import Base Keys Model BitmapRank BitmapRankProofs BitmapRank2 BitmapRank2Proofs Bits.
Import ListNotations.
Ltac Zify.zify_post_hook ::= Z.div_mod_to_equations.

Definition is_inner_v (v : nview) : bool :=
  match v with VInner _ _ _ _ _ _ => true | VLeaf _ _ _ => false end.
Definition nlabels (v : nview) : nat :=
  match v with VInner _ _ _ _ _ labels => length labels | VLeaf _ _ _ => 0 end.

Definition lab_before (nodes : list nview) (p : nat) : nat := sum_list (map nlabels (firstn p nodes)).
Definition leaves_before (nodes : list nview) (p : nat) : nat := length (tails_of (firstn p nodes)).
Definition inners_before (nodes : list nview) (p : nat) : nat := length (inners_of (firstn p nodes)).

Definition rec_of (id : nat) (big : bool) (step : nat) (pfx : option (list nat)) (labels : list nat) : inner_rec :=
  mkIR (N.of_nat id) big (N.of_nat step) pfx (map N.of_nat labels).

Ltac bsplit := repeat match goal with
  | H : (_ && _) = true |- _ => apply andb_true_iff in H; destruct H
  | H : (_ =? _)%nat = true |- _ => apply Nat.eqb_eq in H
  end.

(* ---------- per-node facts ---------- *)
Lemma wf_from_nth : forall ipfx lpfx nodes pos nlab nleaf bigok p v,
  wf_from ipfx lpfx nodes pos nlab nleaf bigok = true ->
  nth_error nodes p = Some v ->
  match v with
  | VLeaf id ord tail =>
    id = pos + p /\ ord = nleaf + leaves_before nodes p /\ tail_ok lpfx tail = true
  | VInner id big step pfx fc labels =>
    id = pos + p /\ fc = 1 + nlab + lab_before nodes p /\
    labels_ok big labels = true /\ pfx_ok ipfx step pfx = true
  end.
Proof.
  intros ipfx lpfx. induction nodes as [|n r IH]; intros pos nlab nleaf bigok p v H Hn.
  - destruct p; discriminate.
  - destruct p as [|p].
    + cbn in Hn. injection Hn as <-. unfold lab_before, leaves_before. cbn [firstn map sum_list tails_of length].
      destruct n as [id ord tail|id big step pfx fc labels]; cbn [wf_from] in H; bsplit;
        repeat split; try lia; assumption.
    + cbn [nth_error] in Hn. unfold lab_before, leaves_before. cbn [firstn].
      destruct n as [id ord tail|id big step pfx fc labels]; cbn [wf_from] in H; bsplit.
      * match goal with Hw : wf_from _ _ r _ _ _ _ = true |- _ => specialize (IH _ _ _ _ _ _ Hw Hn) end.
        cbn [map nlabels sum_list tails_of length]. unfold lab_before, leaves_before in IH.
        destruct v; destruct IH as (A & B & C); repeat split; try lia; try assumption; destruct C; assumption.
      * match goal with Hw : wf_from _ _ r _ _ _ _ = true |- _ => specialize (IH _ _ _ _ _ _ Hw Hn) end.
        cbn [map nlabels sum_list tails_of length]. unfold lab_before, leaves_before in IH.
        destruct v; destruct IH as (A & B & C); repeat split; try lia; try assumption; destruct C; assumption.
Qed.

(* big nodes are a prefix of the inner nodes *)
Lemma wf_from_bigs : forall ipfx lpfx nodes pos nlab nleaf bigok,
  wf_from ipfx lpfx nodes pos nlab nleaf bigok = true ->
  exists c d, map i_big (inners_of nodes) = repeat true c ++ repeat false d /\ (bigok = false -> c = 0).
Proof.
  intros ipfx lpfx. induction nodes as [|n r IH]; intros pos nlab nleaf bigok H.
  - exists 0, 0. split; [reflexivity|auto].
  - destruct n as [id ord tail|id big step pfx fc labels]; cbn [wf_from] in H; bsplit.
    + cbn [inners_of]. eapply IH. eassumption.
    + cbn [inners_of map i_big].
      match goal with Hw : wf_from _ _ r _ _ _ _ = true |- _ => destruct (IH _ _ _ _ Hw) as (c & d & E & Hc) end.
      destruct big.
      * exists (S c), d. cbn [repeat app]. rewrite E. split; [reflexivity|].
        intros ->. match goal with Hi : implb true false = true |- _ => cbn in Hi; discriminate end.
      * rewrite andb_false_r in Hc. rewrite (Hc eq_refl) in E. cbn [repeat app] in E.
        exists 0, (S d). cbn [repeat app]. rewrite E. split; [reflexivity|auto].
Qed.

(* ---------- records by position ---------- *)
Lemma inners_of_app : forall a b, inners_of (a ++ b) = inners_of a ++ inners_of b.
Proof. induction a as [|[|] a IH]; intros b; cbn [app inners_of]; rewrite ?IH; reflexivity. Qed.
Lemma tails_of_app : forall a b, tails_of (a ++ b) = tails_of a ++ tails_of b.
Proof. induction a as [|[|] a IH]; intros b; cbn [app tails_of]; rewrite ?IH; reflexivity. Qed.

Lemma nth_error_split_at : forall {A} (l : list A) p v, nth_error l p = Some v ->
  l = firstn p l ++ v :: skipn (S p) l.
Proof.
  induction l as [|x r IH]; intros p v H; [destruct p; discriminate|].
  destruct p as [|p]; [cbn in H; injection H as <-; reflexivity|].
  cbn [nth_error] in H. cbn [firstn skipn app]. f_equal. apply IH. exact H.
Qed.

Lemma inners_of_nth : forall nodes p id big step pfx fc labels,
  nth_error nodes p = Some (VInner id big step pfx fc labels) ->
  nth_error (inners_of nodes) (inners_before nodes p) = Some (rec_of id big step pfx labels).
Proof.
  intros nodes p id big step pfx fc labels H. rewrite (nth_error_split_at _ _ _ H) at 1.
  rewrite inners_of_app. unfold inners_before. rewrite nth_error_app2 by lia. rewrite Nat.sub_diag. reflexivity.
Qed.

Lemma tails_of_nth : forall nodes p id ord tail,
  nth_error nodes p = Some (VLeaf id ord tail) ->
  nth_error (tails_of nodes) (leaves_before nodes p) = Some tail.
Proof.
  intros nodes p id ord tail H. rewrite (nth_error_split_at _ _ _ H) at 1.
  rewrite tails_of_app. unfold leaves_before. rewrite nth_error_app2 by lia. rewrite Nat.sub_diag. reflexivity.
Qed.

Lemma before_total : forall nodes p, p <= length nodes -> inners_before nodes p + leaves_before nodes p = p.
Proof.
  intros nodes p. unfold inners_before, leaves_before. revert p.
  induction nodes as [|[|] r IH]; intros p Hp; destruct p as [|p]; cbn [firstn inners_of tails_of length] in *; try lia;
    specialize (IH p ltac:(lia)); lia.
Qed.

Lemma count_total : forall nodes, length (inners_of nodes) + length (tails_of nodes) = length nodes.
Proof. induction nodes as [|[|] r IH]; cbn [inners_of tails_of length]; lia. Qed.

(* ---------- the ids of the inner nodes ---------- *)
Lemma inner_ids_spec : forall ipfx lpfx nodes pos nlab nleaf bigok,
  wf_from ipfx lpfx nodes pos nlab nleaf bigok = true ->
  StronglySorted N.lt (map i_id (inners_of nodes)) /\
  Forall (fun x => (N.of_nat pos <= x < N.of_nat (pos + length nodes))%N) (map i_id (inners_of nodes)) /\
  forall p, p < length nodes ->
    (In (N.of_nat (pos + p)) (map i_id (inners_of nodes)) <->
     exists v, nth_error nodes p = Some v /\ is_inner_v v = true) /\
    count_lt (map i_id (inners_of nodes)) (N.of_nat (pos + p)) = inners_before nodes p.
Proof.
  intros ipfx lpfx. induction nodes as [|n r IH]; intros pos nlab nleaf bigok H.
  - cbn. split; [constructor|]. split; [constructor|]. intros; lia.
  - destruct n as [id ord tail|id big step pfx fc labels]; cbn [wf_from] in H; bsplit.
    + match goal with Hw : wf_from _ _ r _ _ _ _ = true |- _ => destruct (IH _ _ _ _ Hw) as (Hs & Hb & Hp) end.
      cbn [inners_of length]. split; [exact Hs|]. split.
      * eapply Forall_impl; [|exact Hb]. cbv beta. intros. lia.
      * intros p Hlt. destruct p as [|p].
        -- rewrite Nat.add_0_r. split.
           ++ split.
              ** intros Hin. rewrite Forall_forall in Hb. apply Hb in Hin. lia.
              ** intros (v & Hv & Hi). cbn in Hv. injection Hv as <-. discriminate.
           ++ unfold inners_before. cbn [firstn inners_of length]. apply count_lt_none.
              eapply Forall_impl; [|exact Hb]. cbv beta. intros. lia.
        -- replace (pos + S p) with (S pos + p) by lia. destruct (Hp p ltac:(cbn [length] in Hlt; lia)) as [A B].
           split; [exact A|]. rewrite B. reflexivity.
    + subst id.
      match goal with Hw : wf_from _ _ r _ _ _ _ = true |- _ => destruct (IH _ _ _ _ Hw) as (Hs & Hb & Hp) end.
      cbn [inners_of map i_id length]. split; [|split].
      * constructor; [exact Hs|]. eapply Forall_impl; [|exact Hb]. cbv beta. intros. lia.
      * constructor; [lia|]. eapply Forall_impl; [|exact Hb]. cbv beta. intros. lia.
      * intros p Hlt. destruct p as [|p].
        -- rewrite Nat.add_0_r. split.
           ++ split; [intros _; eexists; split; [reflexivity|reflexivity]|intros _; left; reflexivity].
           ++ unfold inners_before. cbn [firstn inners_of length]. apply count_lt_none.
              constructor; [lia|]. eapply Forall_impl; [|exact Hb]. cbv beta. intros. lia.
        -- replace (pos + S p) with (S pos + p) by lia. destruct (Hp p ltac:(cbn [length] in Hlt; lia)) as [A B].
           split.
           ++ rewrite <- A. cbn [In]. split; [intros [E|E]; [lia|exact E]|auto].
           ++ unfold count_lt in *. cbn [filter]. destruct (N.ltb_spec (N.of_nat pos) (N.of_nat (S pos + p))); [|lia].
              cbn [length]. rewrite B. reflexivity.
Qed.

(* ---------- labels ---------- *)
Lemma ascending_nat_sorted : forall l, ascending_nat l = true -> StronglySorted lt l.
Proof.
  induction l as [|a r IH]; intros H; [constructor|].
  destruct r as [|b r'].
  - repeat constructor.
  - change (ascending_nat (a :: b :: r')) with ((a <? b) && ascending_nat (b :: r')) in H.
    apply andb_true_iff in H. destruct H as [H1 H2]. apply Nat.ltb_lt in H1. specialize (IH H2).
    constructor; [exact IH|]. inversion IH as [|? ? Hs Hall]; subst. constructor; [exact H1|].
    eapply Forall_impl; [|exact Hall]. cbv beta. intros. lia.
Qed.

Lemma labels_ok_spec : forall big labels, labels_ok big labels = true ->
  labels <> [] /\ StronglySorted N.lt (map N.of_nat labels) /\
  Forall (fun x => (x < (if big then 257 else 17))%N) (map N.of_nat labels).
Proof.
  intros big labels H. unfold labels_ok in H. apply andb_true_iff in H. destruct H as [H H3].
  apply andb_true_iff in H. destruct H as [H1 H2]. split; [destruct labels; [discriminate|congruence]|]. split.
  - apply ascending_nat_sorted in H2. clear -H2. induction H2; cbn [map]; constructor; auto.
    rewrite Forall_forall in *. intros x Hx. apply in_map_iff in Hx. destruct Hx as (y & <- & Hy). apply H in Hy. lia.
  - rewrite forallb_forall in H3. rewrite Forall_forall. intros x Hx. apply in_map_iff in Hx.
    destruct Hx as (y & <- & Hy). apply H3 in Hy. apply Nat.ltb_lt in Hy. destruct big; lia.
Qed.

(* two strictly ascending lists with the same elements are equal *)
Lemma sorted_ext : forall a b : list N,
  StronglySorted N.lt a -> StronglySorted N.lt b -> (forall x, In x a <-> In x b) -> a = b.
Proof.
  induction a as [|x a IH]; intros b Ha Hb H.
  - destruct b as [|y b]; [reflexivity|]. exfalso. apply (H y). left. reflexivity.
  - destruct b as [|y b]; [exfalso; apply (H x); left; reflexivity|].
    inversion Ha as [|? ? Ha' Hxa]; subst. inversion Hb as [|? ? Hb' Hyb]; subst.
    rewrite Forall_forall in Hxa, Hyb.
    assert (x = y).
    { destruct (proj1 (H x) (or_introl eq_refl)) as [E|E]; [congruence|].
      destruct (proj2 (H y) (or_introl eq_refl)) as [E2|E2]; [congruence|].
      apply Hyb in E. apply Hxa in E2. lia. }
    subst y. f_equal. apply IH; try assumption. intros z. split; intros Hz.
    + destruct (proj1 (H z) (or_intror Hz)) as [E|E]; [|exact E]. subst. apply Hxa in Hz. lia.
    + destruct (proj2 (H z) (or_intror Hz)) as [E|E]; [|exact E]. subst. apply Hyb in Hz. lia.
Qed.
