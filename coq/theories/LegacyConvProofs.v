(* LegacyConvProofs.v - node level: one queue entry of the reference legacy writer
   (LegacyConv.old_process) against one queue entry of today's builder
   (Model.process_subset false) on the same key subset. *)
From Slim Require Import Base Keys KeysProofs ListFacts Model TrieInv BuildProofs AcceptProofs OrderProofs LegacyConv.
From Coq Require Import Sorting.Sorted ZifyNat ZifyBool.

Arguments Nat.div : simpl never.
Arguments Nat.modulo : simpl never.

(* an option record with stored inner prefixes: the step limit does not apply, so the
   subset lemmas of AcceptProofs can be used for keys of any length *)
Definition optsT : opts := {| o_dedup := false; o_inner := true; o_leaf := false |}.
Lemma limT M : o_inner optsT = false -> (N.of_nat M <= max_step)%N.
Proof. discriminate. Qed.

Definition all_kept (s : subset) : Prop := Forall (fun e => e_keep e = true) (s_ents s).

Lemma all_kept_filter s : all_kept s -> filter e_keep (s_ents s) = s_ents s.
Proof. intros H. apply filter_all_true. exact H. Qed.

(* ---------- entries of the root ---------- *)
Lemma mk_ents_repeat : forall keys i n, mk_ents i keys (repeat true n) = mk_ents i keys [].
Proof.
  induction keys as [|k r IH]; intros i n; [reflexivity|].
  cbn [mk_ents]. destruct n as [|n]; cbn [repeat tl]; [reflexivity|]. rewrite IH. reflexivity.
Qed.

Lemma to_keep_legacy n vals : to_keep legacy_opts n vals = repeat true n.
Proof. unfold to_keep. destruct vals; reflexivity. Qed.

Lemma root_subset_legacy keys vals : root_subset legacy_opts keys vals = old_root keys.
Proof. unfold root_subset, old_root. rewrite to_keep_legacy, mk_ents_repeat. reflexivity. Qed.

Lemma mk_ents_all_kept : forall keys i, Forall (fun e => e_keep e = true) (mk_ents i keys []).
Proof. induction keys as [|k r IH]; intros i; cbn [mk_ents tl]; constructor; [reflexivity|apply IH]. Qed.

(* ---------- labels and nibbles ---------- *)
Lemma label_nib : forall ns p, p < length ns -> label_at false ns p = S (nth p ns 0).
Proof.
  unfold label_at. induction ns as [|a ns IH]; intros p Hp; cbn [length] in Hp; [lia|].
  destruct p as [|p]; [reflexivity|]. cbn [skipn nth]. apply IH. lia.
Qed.

Lemma ent_label_nib w e : w < length (e_nibs e) -> ent_label false w e = S (nib_at w e).
Proof. apply label_nib. Qed.

Lemma dedup_adj_map_S : forall l, dedup_adj (map S l) = map S (dedup_adj l).
Proof.
  induction l as [|a l IH]; [reflexivity|]. destruct l as [|b l']; [reflexivity|].
  change (map S (a :: b :: l')) with (S a :: map S (b :: l')).
  change (map S (b :: l')) with (S b :: map S l') at 1.
  rewrite !dedup_adj_cons2. change (S b :: map S l') with (map S (b :: l')). rewrite IH.
  change (S a =? S b) with (a =? b). destruct (a =? b); reflexivity.
Qed.

(* ---------- old_runs groups a list that is sorted by the nibble ---------- *)
Lemma old_runs_sorted p (es : list ent) :
  StronglySorted (fun a b => nib_at p a <= nib_at p b) es ->
  old_runs p es =
  map (fun nb => (nb, filter (fun e => nib_at p e =? nb) es)) (dedup_adj (map (nib_at p) es)).
Proof.
  set (f := nib_at p).
  induction 1 as [|a r Hs IH Hf]; [reflexivity|].
  rewrite Forall_forall in Hf.
  destruct r as [|b r'].
  { cbn. fold f. rewrite Nat.eqb_refl. reflexivity. }
  destruct (dedup_adj_head (map f r') (f b)) as (D0 & HD0).
  change (f b :: map f r') with (map f (b :: r')) in HD0.
  assert (Hsd : StronglySorted lt (f b :: D0)).
  { rewrite <- HD0. apply dedup_adj_sorted.
    eapply (SS_map (fun x y => f x <= f y)); [intros ? ? H; exact H|exact Hs]. }
  assert (Hgt : forall k, In k D0 -> f b < k).
  { inversion Hsd as [|? ? _ Hlt]; subst. rewrite Forall_forall in Hlt. exact Hlt. }
  assert (Hab : f a <= f b) by (apply Hf; left; reflexivity).
  assert (Hskip : forall k, f a < k -> filter (fun x => f x =? k) (a :: b :: r') = filter (fun x => f x =? k) (b :: r')).
  { intros k Hk. cbn [filter]. destruct (Nat.eqb_spec (f a) k); [lia|reflexivity]. }
  change (old_runs p (a :: b :: r')) with
    (match old_runs p (b :: r') with
     | (nb, g) :: gs => if Nat.eqb (f a) nb then (nb, a :: g) :: gs else (f a, [a]) :: (nb, g) :: gs
     | [] => [(f a, [a])]
     end).
  rewrite IH, HD0. cbn [map].
  change (map f (a :: b :: r')) with (f a :: f b :: map f r').
  rewrite dedup_adj_cons2. change (f b :: map f r') with (map f (b :: r')). rewrite HD0.
  destruct (Nat.eqb_spec (f a) (f b)) as [Heq|Hne].
  - cbn [map]. f_equal.
    + f_equal. cbn [filter]. fold f. rewrite Heq, Nat.eqb_refl. reflexivity.
    + apply map_ext_in. intros k Hk. f_equal. symmetry. apply Hskip. specialize (Hgt k Hk). lia.
  - cbn [map]. f_equal; [|f_equal].
    + f_equal. cbn [filter]. fold f. rewrite Nat.eqb_refl. f_equal.
      symmetry. change (filter (fun x => f x =? f a) (b :: r') = []). apply filter_all_false.
      rewrite Forall_forall. intros y Hy. apply Nat.eqb_neq.
      inversion Hs as [|? ? _ Hfb]; subst. rewrite Forall_forall in Hfb.
      destruct Hy as [<-|Hy]; [lia|]. specialize (Hfb y Hy). lia.
    + f_equal. symmetry. apply Hskip. lia.
    + apply map_ext_in. intros k Hk. f_equal. symmetry. apply Hskip. specialize (Hgt k Hk). lia.
Qed.

(* ====================================================================== *)
(* One inner node: the same subset in the old writer and in today's builder *)
(* ====================================================================== *)
Lemma sub_w_false s : sub_w false s = sub_ws s.
Proof. reflexivity. Qed.

Lemma stored_step_conv k :
  conv_step_of {| on_bm := []; on_step := stored_step (S k); on_leaf := None |} = k /\
  (stored_step (S k) = 0 \/ stored_step (S k) = S k).
Proof.
  unfold conv_step_of, stored_step. cbn [on_step]. destruct k as [|k]; cbn; auto.
Qed.

Section Node.
  Variable ls : bool.
  Variable s : subset.
  Hypothesis I : SubInv s.
  Hypothesis K : all_kept s.
  Variables (e0 e1 : ent) (r : list ent).
  Hypothesis Es : s_ents s = e0 :: e1 :: r.

  Let w := sub_ws s.
  Let lab := ent_label false w.
  Let nb := nib_at w.
  Definition node_ends : bool := Nat.eqb (length (e_nibs e0)) w.
  Definition node_R : list ent := if node_ends then e1 :: r else e0 :: e1 :: r.
  Local Notation ends := node_ends.
  Local Notation R := node_R.

  Lemma node_two : 2 <= length (s_ents s).
  Proof. rewrite Es. cbn. lia. Qed.

  Lemma node_w : s_from s <= w.
  Proof. apply (sub_ws_ge_from optsT 0 (limT 0) s I node_two). Qed.

  Lemma node_len a : In a (s_ents s) -> w <= length (e_nibs a).
  Proof. intros Ha. apply (sub_w_len false s a node_two Ha). Qed.

  Lemma node_mono : StronglySorted (fun a b => lab a <= lab b) (s_ents s).
  Proof. apply (labels_mono false s I node_two). Qed.

  Lemma node_R_sub a : In a R -> In a (s_ents s).
  Proof. unfold R. destruct ends; intros H; rewrite Es; [right|]; exact H. Qed.

  Lemma node_R_long : Forall (fun e => w < length (e_nibs e)) R.
  Proof.
    rewrite Forall_forall. intros a Ha.
    pose proof (node_len a (node_R_sub a Ha)) as Hge.
    pose proof (node_len e0 ltac:(rewrite Es; left; reflexivity)) as Hge0.
    unfold R in Ha. destruct ends eqn:Ee.
    - apply Nat.eqb_eq in Ee.
      destruct (Nat.eq_dec (length (e_nibs a)) w) as [Heq|]; [exfalso|lia].
      pose proof (si_sorted s I) as Hs. rewrite Es in Hs. inversion Hs as [|? ? _ Hf]; subst.
      rewrite Forall_forall in Hf. specialize (Hf a Ha). unfold ent_lt in Hf.
      assert (firstn w (e_nibs e0) = firstn w (e_nibs a)) as Hag.
      { apply (sub_w_agree false s); [rewrite Es; left; reflexivity|rewrite Es; right; exact Ha]. }
      assert (e_nibs e0 = e_nibs a) as Hag'.
      { rewrite <- (firstn_all (e_nibs e0)), <- (firstn_all (e_nibs a)), Ee, Heq. exact Hag. }
      rewrite Hag', lex_cmp_refl in Hf. discriminate.
    - apply Nat.eqb_neq in Ee.
      assert (lab e0 <> 0) as H0.
      { unfold lab, ent_label. intros H. apply (label_zero_iff false (e_nibs e0) w Hge0) in H. lia. }
      assert (lab e0 <= lab a) as Hle.
      { pose proof node_mono as Hm. rewrite Es in Hm. destruct Ha as [<-|Ha]; [lia|].
        inversion Hm as [|? ? _ Hf]; subst. rewrite Forall_forall in Hf. apply Hf. exact Ha. }
      destruct (Nat.eq_dec (length (e_nibs a)) w) as [Heq|]; [exfalso|lia].
      assert (lab a = 0) as Ha0.
      { unfold lab, ent_label. apply (label_zero_iff false (e_nibs a) w Hge). lia. }
      lia.
  Qed.

  Lemma node_R_lab a : In a R -> lab a = S (nb a).
  Proof.
    intros Ha. pose proof node_R_long as H. rewrite Forall_forall in H.
    apply ent_label_nib. apply H. exact Ha.
  Qed.

  Lemma node_R_nonempty : R <> [].
  Proof. unfold R. destruct ends; discriminate. Qed.

  Lemma node_R_sorted : StronglySorted (fun a b => nb a <= nb b) R.
  Proof.
    assert (StronglySorted (fun a b => lab a <= lab b) R) as H.
    { pose proof node_mono as Hm. rewrite Es in Hm. unfold R. destruct ends; [|exact Hm].
      inversion Hm; assumption. }
    assert (forall l, (forall x, In x l -> lab x = S (nb x)) ->
                      StronglySorted (fun a b => lab a <= lab b) l ->
                      StronglySorted (fun a b => nb a <= nb b) l) as G.
    { intros l HL Hl. induction Hl as [|a l Hs IH Hf]; constructor.
      - apply IH. intros x Hx. apply HL. right; exact Hx.
      - rewrite Forall_forall in *. intros x Hx. specialize (Hf x Hx).
        rewrite (HL a (or_introl eq_refl)), (HL x (or_intror Hx)) in Hf. lia. }
    apply G; [exact node_R_lab|exact H].
  Qed.

  Lemma node_lab_e0 : ends = true -> lab e0 = 0.
  Proof.
    intros Ee. apply Nat.eqb_eq in Ee. unfold lab, ent_label.
    apply (label_zero_iff false (e_nibs e0) w); lia.
  Qed.

  Lemma node_map_lab_R : map lab R = map S (map nb R).
  Proof. rewrite map_map. apply map_ext_in. intros a Ha. apply node_R_lab. exact Ha. Qed.

  Definition node_bm : list nat := dedup_adj (map nb R).
  Definition node_labels : list nat := (if ends then [0] else []) ++ map S node_bm.
  Definition node_okids : list subset :=
    map (fun k => {| s_ents := filter (fun e => nb e =? k) R; s_from := w + 1 |}) node_bm.
  Definition node_kids : list subset :=
    (if ends then [{| s_ents := [e0]; s_from := w |}] else []) ++ node_okids.

  Lemma node_labels_eq : dedup_adj (map lab (s_ents s)) = node_labels.
  Proof.
    unfold node_labels, node_bm. rewrite <- dedup_adj_map_S, <- node_map_lab_R.
    rewrite Es. unfold R. destruct ends eqn:Ee; [|reflexivity].
    cbn [map]. rewrite dedup_adj_cons2.
    rewrite (node_lab_e0 Ee).
    assert (lab e1 = S (nb e1)) as ->.
    { apply node_R_lab. unfold R. rewrite Ee. left; reflexivity. }
    reflexivity.
  Qed.

  Lemma node_filter_S k : filter (fun e => lab e =? S k) (s_ents s) = filter (fun e => nb e =? k) R.
  Proof.
    assert (filter (fun e => lab e =? S k) R = filter (fun e => nb e =? k) R) as HR.
    { apply filter_ext_in. intros a Ha. rewrite (node_R_lab a Ha). reflexivity. }
    rewrite <- HR. rewrite Es. unfold R. destruct ends eqn:Ee; [|reflexivity].
    cbn [filter]. rewrite (node_lab_e0 Ee). reflexivity.
  Qed.

  Lemma node_filter_0 : ends = true -> filter (fun e => lab e =? 0) (s_ents s) = [e0].
  Proof.
    intros Ee. rewrite Es. change (e0 :: e1 :: r) with ([e0] ++ e1 :: r). rewrite filter_app.
    rewrite (filter_all_false _ (e1 :: r)).
    2:{ rewrite Forall_forall. intros a Ha.
        rewrite (node_R_lab a); [reflexivity|]. unfold R. rewrite Ee. exact Ha. }
    cbn [filter app]. rewrite (node_lab_e0 Ee). reflexivity.
  Qed.

  Lemma node_kids_eq :
    map (fun lb => {| s_ents := filter (fun e => lab e =? lb) (s_ents s); s_from := w + label_width false lb |}) node_labels
    = node_kids.
  Proof.
    unfold node_labels, node_kids, node_okids. rewrite map_app, map_map. f_equal.
    - destruct ends eqn:Ee; [|reflexivity]. cbn [map label_width]. rewrite (node_filter_0 Ee), Nat.add_0_r. reflexivity.
    - apply map_ext. intros k. rewrite node_filter_S. reflexivity.
  Qed.

  Lemma node_labels_asc : StronglySorted lt node_labels.
  Proof.
    rewrite <- node_labels_eq. apply dedup_adj_sorted.
    eapply (SS_map (fun a b => lab a <= lab b)); [intros ? ? H; exact H|]. apply node_mono.
  Qed.

  Lemma node_bm_nonempty : node_bm <> [].
  Proof.
    unfold node_bm. apply dedup_adj_nonempty. pose proof node_R_nonempty. destruct R; [congruence|discriminate].
  Qed.

  Lemma node_facts : InnerFacts optsT s false node_labels node_kids.
  Proof.
    constructor.
    - exact node_two.
    - rewrite sub_w_false. exact node_w.
    - rewrite sub_w_false, (all_kept_filter s K). symmetry. exact node_labels_eq.
    - exact node_labels_asc.
    - rewrite sub_w_false. symmetry. exact node_kids_eq.
    - unfold node_labels. pose proof node_bm_nonempty. destruct node_bm; [congruence|].
      destruct ends; discriminate.
  Qed.

  (* the old writer on this subset *)
  Definition node_old : old_node :=
    {| on_bm := node_bm; on_step := stored_step (w + 1 - s_from s);
       on_leaf := if ends then Some (e_idx e0) else None |}.

  Lemma node_old_process : old_process ls s = Ok (node_old, node_okids).
  Proof.
    unfold old_process. rewrite Es. cbv zeta.
    assert (list_min (hd 0 (adj_lcps (map e_nibs (e0 :: e1 :: r)))) (adj_lcps (map e_nibs (e0 :: e1 :: r))) = w) as Hw.
    { unfold w, sub_ws. rewrite Es. reflexivity. }
    rewrite Hw. fold ends. fold R.
    rewrite (old_runs_sorted w R node_R_sorted). fold nb. fold node_bm.
    unfold node_old, node_okids. rewrite !map_map. cbn [fst snd]. rewrite map_id. reflexivity.
  Qed.

  (* today's builder on this subset, no big nodes, no prefixes *)
  Lemma node_process :
    process_subset legacy_opts false s =
    if (max_step <? N.of_nat (w - s_from s))%N then Err EStepTooLong
    else Ok (DInner false (w - s_from s) None node_labels node_kids, false).
  Proof.
    unfold process_subset. rewrite Es. cbv zeta.
    assert (list_min (hd 0 (adj_lcps (map e_nibs (e0 :: e1 :: r)))) (adj_lcps (map e_nibs (e0 :: e1 :: r))) = w) as Hw.
    { unfold w, sub_ws. rewrite Es. reflexivity. }
    rewrite Hw. cbn [andb legacy_opts o_inner negb].
    pose proof node_w as Hws. destruct (Nat.ltb_spec w (s_from s)) as [|_]; [lia|].
    destruct (max_step <? N.of_nat (w - s_from s))%N; [reflexivity|].
    rewrite <- Es. rewrite (all_kept_filter s K). fold lab. rewrite node_labels_eq.
    rewrite (split_kids_spec false w node_labels (s_ents s) node_mono node_labels_asc).
    - fold lab. rewrite node_kids_eq. reflexivity.
    - intros lb Hlb. rewrite <- node_labels_eq in Hlb. apply (proj1 (dedup_adj_In _ _)) in Hlb.
      apply in_map_iff in Hlb. destruct Hlb as (e & He & Hin). exists e. auto.
  Qed.

  Lemma node_step : conv_step_of node_old = w - s_from s /\
                    (on_step node_old = 0 \/ on_step node_old = S (w - s_from s)).
  Proof.
    pose proof node_w as Hws. unfold node_old. cbn [on_step].
    replace (w + 1 - s_from s) with (S (w - s_from s)) by lia.
    destruct (stored_step_conv (w - s_from s)) as [H1 H2]. split; [|exact H2].
    unfold conv_step_of in *. cbn [on_step] in *. exact H1.
  Qed.
End Node.
