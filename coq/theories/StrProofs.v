(* StrProofs.v - C19: String() renders every trie faithfully and never panics.

   - [render] is total on built tries (no panic outcome)
   - its lines are, in order, the nodes of the tree in pre-order, one line per
     node (render_tree_ok: Forall2 line_matches); node ids of a built tree are
     distinct (StatProofs.built_ids_nodup, from the breadth-first id
     assignment), so every node id occurs on exactly one line
   - the leaf lines, top to bottom, carry the values of the retained keys in
     key order (render_correct). *)
From Slim Require Import Base Keys KeysProofs ListFacts Model TrieInv BuildProofs QueryProofs ConsistProofs OrderProofs Stat StatProofs Str.
From Coq Require Import Sorting.Sorted Sorting.Permutation ZifyNat ZifyBool.

Arguments Nat.div : simpl never.
Arguments Nat.modulo : simpl never.

(* ---------- unfolding ---------- *)
Fixpoint render_kids (T : trie) (ind' : nat) (big : bool) (ch : list (nat * tree)) : res (list line) :=
  match ch with
  | [] => Ok []
  | (lb, c) :: r =>
      do a <- render_tree T ind' (Some (label_bits big lb)) c;
      do b <- render_kids T ind' big r;
      Ok (a ++ b)
  end.

Definition inner_line (ind : nat) (lbl : option (list bool)) (id step : nat) (pfx : option (list nat)) (n : nat) : line :=
  {| l_indent := ind; l_label := lbl; l_id := id; l_step := step_bits step pfx;
     l_fan := (if 1 <? n then n else 0); l_val := None |}.

Lemma render_inner T ind lbl id big step pfx fc ch :
  render_tree T ind lbl (Inner id big step pfx fc ch) =
  do sub <- render_kids T (ind + label_width_txt lbl + 1 + id_width id) big ch;
  Ok (inner_line ind lbl id step pfx (length ch) :: sub).
Proof.
  cbn [render_tree]. cbv zeta. unfold inner_line. f_equal.
  induction ch as [|[x c] r IH]; [reflexivity|].
  cbn [render_kids]. rewrite <- IH. reflexivity.
Qed.

(* the value of a leaf only depends on its ordinal *)
Definition ord_value (T : trie) (ord : nat) : res (option (list byte)) :=
  leaf_value T (Leaf 0 ord None 0).

Lemma leaf_value_ord T id ord tail eidx : leaf_value T (Leaf id ord tail eidx) = ord_value T ord.
Proof. reflexivity. Qed.

Lemma leaf_vals_app a b : leaf_vals (a ++ b) = leaf_vals a ++ leaf_vals b.
Proof.
  induction a as [|l a IH]; [reflexivity|]. cbn [app leaf_vals]. destruct (l_val l); rewrite IH; reflexivity.
Qed.

(* ---------- one line per node, in pre-order ---------- *)
Definition line_matches (T : trie) (l : line) (t : tree) : Prop :=
  l_id l = tree_id t /\
  match t with
  | Leaf _ _ _ _ => l_step l = 0 /\ l_fan l = 0 /\ exists v, l_val l = Some v /\ leaf_value T t = Ok v
  | Inner _ _ step pfx _ ch =>
      l_val l = None /\ l_step l = step_bits step pfx /\
      l_fan l = (if 1 <? length ch then length ch else 0)
  end.

Definition leaf_readable (T : trie) (p : nat * nat) : Prop := exists v, ord_value T (fst p) = Ok v.

Lemma render_tree_ok T : forall t,
  Forall (leaf_readable T) (leaves_of t) ->
  forall ind lbl, exists ls,
    render_tree T ind lbl t = Ok ls /\
    Forall2 (line_matches T) ls (subtrees t) /\
    Forall2 (fun v p => ord_value T (fst p) = Ok v) (leaf_vals ls) (leaves_of t) /\
    (exists l0 rest, ls = l0 :: rest /\ l_indent l0 = ind /\ l_label l0 = lbl) /\
    Forall (fun l => ind <= l_indent l) ls.
Proof.
  induction t as [id ord tail eidx|id big step pfx fc ch IH] using tree_ind'; intros H ind lbl.
  - cbn [leaves_of] in H. inversion H as [|? ? (v & Hv) _]; subst. cbn [fst] in Hv.
    cbn [render_tree]. rewrite leaf_value_ord, Hv. cbn [bind].
    eexists. split; [reflexivity|]. cbn [subtrees leaf_vals l_val leaves_of].
    split; [constructor; [|constructor]|].
    { split; [reflexivity|]. cbn [l_step l_fan l_val]. repeat split. exists v. rewrite leaf_value_ord. auto. }
    split; [constructor; [exact Hv|constructor]|].
    split; [eexists; eexists; split; [reflexivity|split; reflexivity]|].
    constructor; [cbn; lia|constructor].
  - rewrite render_inner. rewrite leaves_of_inner in H. rewrite subtrees_inner, leaves_of_inner.
    set (ind' := ind + label_width_txt lbl + 1 + id_width id).
    assert (exists sub, render_kids T ind' big ch = Ok sub /\
              Forall2 (line_matches T) sub (flat_map (fun p => subtrees (snd p)) ch) /\
              Forall2 (fun v p => ord_value T (fst p) = Ok v) (leaf_vals sub) (flat_map (fun p => leaves_of (snd p)) ch) /\
              Forall (fun l => ind' <= l_indent l) sub) as (sub & Hs & Hm & Hv & Hi).
    { clear -IH H. induction ch as [|[x c] r IHr].
      - exists []. cbn. repeat split; constructor.
      - inversion IH as [|? ? Hc Hr]; subst. cbn [snd] in Hc.
        cbn [flat_map snd] in H. apply Forall_app in H. destruct H as [H1 H2].
        destruct (Hc H1 ind' (Some (label_bits big x))) as (a & Ha & Ham & Hav & _ & Hai).
        destruct (IHr Hr H2) as (b & Hb & Hbm & Hbv & Hbi).
        exists (a ++ b). cbn [render_kids flat_map snd]. rewrite Ha, Hb. cbn [bind].
        split; [reflexivity|]. split; [apply Forall2_app; assumption|].
        split; [rewrite leaf_vals_app; apply Forall2_app; assumption|].
        apply Forall_app. split; assumption. }
    rewrite Hs. cbn [bind]. eexists. split; [reflexivity|].
    split; [constructor; [|exact Hm]|].
    { split; [reflexivity|]. cbn [inner_line l_val l_step l_fan]. auto. }
    split; [cbn [leaf_vals inner_line l_val]; exact Hv|].
    split; [eexists; eexists; split; [reflexivity|split; reflexivity]|].
    constructor; [cbn; lia|]. eapply Forall_impl; [|exact Hi]. cbn beta. intros l Hl. unfold ind' in Hl. lia.
Qed.

Lemma line_matches_ids T ls ts : Forall2 (line_matches T) ls ts -> map l_id ls = map tree_id ts.
Proof. induction 1 as [|l t ls ts [H _] _ IH]; [reflexivity|]. cbn [map]. rewrite H, IH. reflexivity. Qed.

(* ---------- built tries ---------- *)
Lemma built_leaves_readable o keys vals T r lidx :
  Built o keys vals T r lidx ->
  Forall (fun p => exists v, ord_value T (fst p) = Ok v /\ val_bytes v = supplied vals (snd p) /\ (vals = None -> v = None))
         (leaves_of r).
Proof.
  intros B. pose proof (bt_leaf _ _ _ _ _ _ B) as HL. unfold leaf_ok in HL.
  eapply Forall_impl; [|exact HL]. intros [ord eidx] [_ Hn]. cbn [fst snd] in *. rewrite Nat.sub_0_r in Hn.
  destruct (leaf_value_kept vals lidx T 0 ord None eidx (bt_leaves _ _ _ _ _ _ B) Hn) as (v & Hv & H1 & H2).
  exists v. rewrite leaf_value_ord in Hv. auto.
Qed.

Lemma Forall2_Forall_r {A B} (P : A -> B -> Prop) (Q : B -> Prop) (R : A -> B -> Prop) l m :
  (forall a b, P a b -> Q b -> R a b) -> Forall2 P l m -> Forall Q m -> Forall2 R l m.
Proof.
  intros H F. induction F as [|a b l m Hab _ IH]; intros HQ; [constructor|].
  inversion HQ; subst. constructor; auto.
Qed.

Lemma Forall2_map_r {A B C} (P : A -> C -> Prop) (f : B -> C) l m :
  Forall2 (fun a b => P a (f b)) l m -> Forall2 P l (map f m).
Proof. induction 1; cbn; constructor; assumption. Qed.

(* what a leaf line may carry for key index i: the supplied encoded value (nil
   when no values were supplied; a zero-width value may be rendered as nil) *)
Definition value_of_key (vals : option (list (list byte))) (v : option (list byte)) (i : nat) : Prop :=
  val_bytes v = supplied vals i /\ (vals = None -> v = None).

Theorem render_correct o keys vals T :
  build o keys vals = Ok T ->
  exists ls, render T = Ok ls /\
    (* one line per node, pre-order *)
    Forall2 (line_matches T) ls (nodes_of T) /\
    map l_id ls = map tree_id (nodes_of T) /\
    (* every node id exactly once: the ids on the lines are distinct and are 0 .. NodeCnt-1 *)
    NoDup (map l_id ls) /\
    Permutation (map l_id ls) (List.seq 0 (length ls)) /\
    (* the leaf lines carry the values of the retained keys in key order *)
    Forall2 (value_of_key vals) (leaf_vals ls) (retained_idx o keys vals).
Proof.
  intros Hb. destruct (build_ok _ _ _ _ Hb) as [[-> ->]|(r & lidx & B)].
  - exists []. cbn. repeat split; constructor.
  - pose proof (bt_root _ _ _ _ _ _ B) as Hr.
    pose proof (built_leaves_readable _ _ _ _ _ _ B) as HR.
    assert (Forall (leaf_readable T) (leaves_of r)) as HR'.
    { eapply Forall_impl; [|exact HR]. intros p (v & Hv & _). exists v. exact Hv. }
    destruct (render_tree_ok T r HR' 0 None) as (ls & Hls & Hm & Hv & _ & _).
    exists ls. unfold render, nodes_of. rewrite Hr, all_nodes_subtrees.
    pose proof (line_matches_ids _ _ _ Hm) as Hids.
    split; [exact Hls|]. split; [exact Hm|]. split; [exact Hids|].
    split; [rewrite Hids; eapply built_ids_nodup; eassumption|].
    split.
    + rewrite Hids, <- (map_length l_id ls), Hids, map_length. eapply built_ids_range; eassumption.
    + rewrite <- (leaves_retained _ _ _ _ _ _ B). apply Forall2_map_r.
      eapply Forall2_Forall_r; [|exact Hv|exact HR].
      intros v p Hp (v' & Hv' & H1 & H2). cbn beta in Hp. rewrite Hp in Hv'. inversion Hv'; subst v'.
      split; assumption.
Qed.

(* a panic outcome of [render] is excluded *)
Corollary render_total o keys vals T : build o keys vals = Ok T -> exists ls, render T = Ok ls.
Proof. intros Hb. destruct (render_correct _ _ _ _ Hb) as (ls & H & _). eauto. Qed.

(* the number of lines is Stat's NodeCnt *)
Corollary render_line_count o keys vals T ls s :
  build o keys vals = Ok T -> render T = Ok ls -> stat T = Ok s -> length ls = st_nodecnt s.
Proof.
  intros Hb Hr Hs. destruct (render_correct _ _ _ _ Hb) as (ls' & Hr' & _ & Hids & _).
  rewrite Hr in Hr'. inversion Hr'; subst ls'.
  destruct (stat_correct _ _ _ _ Hb) as (s' & Hs' & _ & _ & Hn & _). rewrite Hs in Hs'. inversion Hs'; subst s'.
  rewrite Hn, <- (map_length l_id ls), Hids, map_length. reflexivity.
Qed.

(* the rendering depends on the tree and the stored leaf values only: a trie
   that decodes to the same tree and leaves (the marshal round trip, C05)
   renders identically *)
Lemma render_tree_depends_on_leaves T T' :
  t_leaves T = t_leaves T' -> forall t ind lbl, render_tree T ind lbl t = render_tree T' ind lbl t.
Proof.
  intros Hl. induction t as [id ord tail eidx|id big step pfx fc ch IH] using tree_ind'; intros ind lbl.
  - cbn [render_tree leaf_value]. rewrite Hl. reflexivity.
  - rewrite !render_inner. f_equal.
    generalize (ind + label_width_txt lbl + 1 + id_width id). intros ind'.
    induction ch as [|[x c] rest IHr]; [reflexivity|].
    inversion IH as [|? ? Hc Hrest]; subst. cbn [snd] in Hc.
    cbn [render_kids]. rewrite (Hc ind' (Some (label_bits big x))), (IHr Hrest). reflexivity.
Qed.

Lemma render_depends_on_tree T T' :
  t_root T = t_root T' -> t_leaves T = t_leaves T' -> render T = render T'.
Proof.
  intros Hr Hl. unfold render. rewrite <- Hr. destruct (t_root T) as [r|]; [|reflexivity].
  apply render_tree_depends_on_leaves. exact Hl.
Qed.
