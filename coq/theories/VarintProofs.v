(* VarintProofs.v - proofs about Varint.v. *)
From Coq Require Import List NArith ZArith Bool Lia.
From Coq Require Import ZifyN ZifyNat ZifyBool.
From Coq.Strings Require Import Byte.
From Slim Require Import Varint.
Import ListNotations.
Open Scope N_scope.

Ltac Zify.zify_post_hook ::= Z.div_mod_to_equations.

Lemma to_N_lt_256 : forall b : byte, Byte.to_N b < 256.
Proof. intro b. pose proof (Byte.to_N_bounded b). lia. Qed.

Lemma byte_of_N_to_N : forall n, n < 256 -> Byte.to_N (byte_of_N n) = n.
Proof.
  intros n H. unfold byte_of_N.
  rewrite N.mod_small by lia.
  destruct (Byte.of_N n) eqn:E.
  - apply Byte.to_of_N in E. exact E.
  - apply Byte.of_N_None_iff in E. lia.
Qed.

Lemma byte_of_N_of_to_N : forall b, byte_of_N (Byte.to_N b) = b.
Proof.
  intro b. unfold byte_of_N.
  rewrite N.mod_small by apply to_N_lt_256.
  rewrite Byte.of_to_N. reflexivity.
Qed.

(* ---- varints ---------------------------------------------------------------- *)
Lemma pow2_7 : forall s, 2 ^ (s + 7) = 128 * 2 ^ s.
Proof. intro s. rewrite N.pow_add_r. change (2 ^ 7) with 128. lia. Qed.

Lemma enc_var_S : forall f n,
  enc_var (S f) n = if n <? 128 then [byte_of_N n] else byte_of_N (n mod 128 + 128) :: enc_var f (n / 128).
Proof. reflexivity. Qed.

Lemma dec_var_last : forall shift acc x r,
  dec_var 1 shift acc (x :: r) =
  if Byte.to_N x <? 2 then Some (acc + Byte.to_N x * 2 ^ shift, r) else None.
Proof. reflexivity. Qed.

Lemma dec_var_SS : forall f shift acc x r,
  dec_var (S (S f)) shift acc (x :: r) =
  if Byte.to_N x <? 128 then Some (acc + Byte.to_N x * 2 ^ shift, r)
  else dec_var (S f) (shift + 7) (acc + (Byte.to_N x - 128) * 2 ^ shift) r.
Proof. reflexivity. Qed.

Lemma dec_enc_var : forall f n shift acc rest,
  n < 2 ^ (7 * N.of_nat (S f) - 6) ->
  dec_var (S f) shift acc (enc_var (S f) n ++ rest) = Some (acc + n * 2 ^ shift, rest).
Proof.
  induction f as [|f IH]; intros n shift acc rest H.
  - (* the 10th byte: n < 2 *)
    change (2 ^ (7 * N.of_nat 1 - 6)) with 2 in H.
    rewrite enc_var_S. destruct (n <? 128) eqn:E; [|lia].
    cbn [app]. rewrite dec_var_last. rewrite byte_of_N_to_N by lia.
    destruct (n <? 2) eqn:E2; [reflexivity|lia].
  - rewrite enc_var_S. destruct (n <? 128) eqn:E.
    + cbn [app]. rewrite dec_var_SS. rewrite byte_of_N_to_N by lia. rewrite E. reflexivity.
    + rewrite <- app_comm_cons. rewrite dec_var_SS.
      assert (Hm : n mod 128 < 128) by (apply N.mod_lt; lia).
      rewrite byte_of_N_to_N by lia.
      destruct (n mod 128 + 128 <? 128) eqn:E3; [lia|].
      rewrite IH.
      * f_equal. f_equal. rewrite pow2_7.
        replace (n mod 128 + 128 - 128) with (n mod 128) by lia.
        pose proof (N.div_mod n 128 ltac:(lia)) as Hd.
        set (q := n / 128) in *. set (r := n mod 128) in *. set (p := 2 ^ shift) in *.
        nia.
      * replace (7 * N.of_nat (S (S f)) - 6) with ((7 * N.of_nat (S f) - 6) + 7) in H by lia.
        rewrite pow2_7 in H.
        apply N.div_lt_upper_bound; lia.
Qed.

Theorem decode_encode_varint : forall n rest,
  n < two64 -> decode_varint (encode_varint n ++ rest) = Some (n, rest).
Proof.
  intros n rest H. unfold decode_varint, encode_varint.
  rewrite dec_enc_var.
  - f_equal. f_equal. change (2 ^ 0) with 1. lia.
  - change (2 ^ (7 * N.of_nat 10 - 6)) with two64. exact H.
Qed.

Lemma enc_var_nonempty : forall f n, enc_var (S f) n <> [].
Proof. intros f n. cbn [enc_var]. destruct (n <? 128); discriminate. Qed.

Lemma encode_varint_nonempty : forall n, encode_varint n <> [].
Proof. intro n. apply enc_var_nonempty. Qed.

Lemma encode_varint_length_pos : forall n, (1 <= length (encode_varint n))%nat.
Proof.
  intro n. pose proof (encode_varint_nonempty n). destruct (encode_varint n); [congruence|cbn; lia].
Qed.

Lemma size_var_length : forall f n, size_var f n = blen (enc_var f n).
Proof.
  unfold blen. induction f as [|f IH]; intro n.
  - reflexivity.
  - cbn [size_var enc_var]. destruct (n <? 128).
    + reflexivity.
    + rewrite IH. cbn [length]. lia.
Qed.

Theorem size_varint_length : forall n, size_varint n = blen (encode_varint n).
Proof. intro n. apply size_var_length. Qed.

(* a decoded varint is below 2^64 and the rest is a proper suffix *)
Lemma dec_var_suffix : forall f shift acc b v r,
  dec_var f shift acc b = Some (v, r) -> (length r < length b)%nat.
Proof.
  induction f as [|f IH]; intros shift acc b v r H; [discriminate|].
  cbn [dec_var] in H. destruct b as [|x t]; [discriminate|].
  destruct f as [|f'].
  - destruct (Byte.to_N x <? 2); inversion H; subst. cbn. lia.
  - destruct (Byte.to_N x <? 128).
    + inversion H; subst. cbn. lia.
    + apply IH in H. cbn. lia.
Qed.

Lemma decode_varint_suffix : forall b v r,
  decode_varint b = Some (v, r) -> (length r < length b)%nat.
Proof. intros b v r H. eapply dec_var_suffix; exact H. Qed.

(* ---- little endian ------------------------------------------------------------ *)
Lemma le_bytes_length : forall k n, length (le_bytes k n) = k.
Proof. induction k; intro n; cbn; [reflexivity|rewrite IHk; reflexivity]. Qed.

Lemma le_value_le_bytes : forall k n, le_value (le_bytes k n) = n mod 256 ^ N.of_nat k.
Proof.
  induction k as [|k IH]; intro n.
  - cbn. rewrite N.mod_1_r. reflexivity.
  - cbn [le_bytes le_value]. rewrite IH.
    unfold byte_of_N.
    assert (Hm : n mod 256 < 256) by (apply N.mod_lt; lia).
    destruct (Byte.of_N (n mod 256)) eqn:E.
    + apply Byte.to_of_N in E. rewrite E.
      replace (N.of_nat (S k)) with (N.succ (N.of_nat k)) by lia.
      rewrite N.pow_succ_r by lia.
      set (p := 256 ^ N.of_nat k).
      assert (Hp : 0 < p) by (apply N.neq_0_lt_0; apply N.pow_nonzero; lia).
      rewrite N.mod_mul_r by lia. reflexivity.
    + apply Byte.of_N_None_iff in E. lia.
Qed.

Theorem le64_value : forall n, n < two64 -> le_value (le64 n) = n.
Proof.
  intros n H. unfold le64. rewrite le_value_le_bytes.
  change (256 ^ N.of_nat 8) with two64. apply N.mod_small. exact H.
Qed.

Lemma le64_length : forall n, length (le64 n) = 8%nat.
Proof. intro n. apply le_bytes_length. Qed.

(* ---- int32 / uint32 conversions ------------------------------------------------ *)
Lemma int32_ok_range : forall z, int32_ok z = true -> (- 2147483648 <= z < 2147483648)%Z.
Proof.
  intros z H. unfold int32_ok in H. change (Z.of_N two31) with 2147483648%Z in H. lia.
Qed.

Lemma u64_of_int32_lt : forall z, u64_of_int32 z < two64.
Proof.
  intro z. unfold u64_of_int32. change (Z.of_N two64) with 18446744073709551616%Z.
  pose proof (Z.mod_pos_bound z 18446744073709551616 ltac:(lia)).
  unfold two64. lia.
Qed.

Theorem int32_roundtrip : forall z, int32_ok z = true -> int32_of_u64 (u64_of_int32 z) = z.
Proof.
  intros z H. apply int32_ok_range in H.
  unfold int32_of_u64, u64_of_int32.
  change (Z.of_N two64) with 18446744073709551616%Z.
  change two32 with 4294967296. change two31 with 2147483648.
  change (Z.of_N 4294967296) with 4294967296%Z.
  destruct (Z_lt_ge_dec z 0) as [Hn|Hp].
  - assert (E : (z mod 18446744073709551616 = z + 18446744073709551616)%Z).
    { symmetry. apply Z.mod_unique with (q := (-1)%Z); lia. }
    rewrite E.
    assert (E2 : Z.to_N (z + 18446744073709551616) mod 4294967296 = Z.to_N (z + 4294967296)).
    { symmetry. apply N.mod_unique with (q := 4294967295); lia. }
    rewrite E2.
    destruct (Z.to_N (z + 4294967296) <? 2147483648) eqn:E3; lia.
  - rewrite Z.mod_small by lia.
    rewrite N.mod_small by lia.
    destruct (Z.to_N z <? 2147483648) eqn:E3; lia.
Qed.

Lemma u64_of_int32_zero : forall z, int32_ok z = true -> u64_of_int32 z = 0 -> z = 0%Z.
Proof.
  intros z H E. rewrite <- (int32_roundtrip z H). rewrite E. reflexivity.
Qed.

Lemma uint32_roundtrip : forall n, u32_ok n = true -> uint32_of_u64 n = n.
Proof.
  intros n H. unfold u32_ok in H. unfold uint32_of_u64. apply N.mod_small. lia.
Qed.

Lemma u32_ok_u64_ok : forall n, u32_ok n = true -> u64_ok n = true.
Proof.
  intros n H. unfold u32_ok, u64_ok in *. apply N.ltb_lt in H. apply N.ltb_lt.
  unfold two32, two64 in *. lia.
Qed.

(* ---- take ------------------------------------------------------------------------ *)
Lemma take_exact_app : forall {A} (a b : list A), take_exact (length a) (a ++ b) = Some (a, b).
Proof.
  intros A a b. induction a as [|x a IH]; cbn.
  - reflexivity.
  - rewrite IH. reflexivity.
Qed.

Lemma take_exact_some : forall {A} n (l a b : list A),
  take_exact n l = Some (a, b) -> l = a ++ b /\ length a = n.
Proof.
  intros A n. induction n as [|n IH]; intros l a b H; cbn in H.
  - inversion H; subst. split; reflexivity.
  - destruct l as [|x r]; [discriminate|].
    destruct (take_exact n r) as [[a' b']|] eqn:E; [|discriminate].
    inversion H; subst. apply IH in E. destruct E as [E1 E2]. subst. split; reflexivity.
Qed.

Lemma take_exact_none : forall {A} n (l : list A), take_exact n l = None <-> (length l < n)%nat.
Proof.
  intros A n. induction n as [|n IH]; intro l; cbn.
  - split; [discriminate|lia].
  - destruct l as [|x r]; cbn.
    + split; [lia|reflexivity].
    + destruct (take_exact n r) as [[a b]|] eqn:E.
      * split; [discriminate|]. intro H.
        assert (Hn : take_exact n r = None) by (apply IH; lia). congruence.
      * split; [|reflexivity]. intros _. apply IH in E. lia.
Qed.

Lemma take_N_app : forall {A} (a b : list A), take_N (N.of_nat (length a)) (a ++ b) = Some (a, b).
Proof.
  intros A a b. unfold take_N. rewrite app_length.
  destruct (N.of_nat (length a + length b) <? N.of_nat (length a)) eqn:E; [lia|].
  rewrite Nat2N.id. apply take_exact_app.
Qed.

Lemma take_N_none : forall {A} n (l : list A), take_N n l = None <-> N.of_nat (length l) < n.
Proof.
  intros A n l. unfold take_N.
  destruct (N.of_nat (length l) <? n) eqn:E.
  - split; [lia|reflexivity].
  - rewrite take_exact_none. lia.
Qed.

Lemma take_N_some : forall {A} n (l a b : list A),
  take_N n l = Some (a, b) -> l = a ++ b /\ N.of_nat (length a) = n.
Proof.
  intros A n l a b H. unfold take_N in H.
  destruct (N.of_nat (length l) <? n); [discriminate|].
  apply take_exact_some in H. destruct H as [H1 H2]. split; [exact H1|lia].
Qed.
