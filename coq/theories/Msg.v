(* Msg.v - GetID and Get computed from the bit-level message, the way the Go code
   does: getNode (Bits.get_node / get_view: NodeTypeBM rank, label-bitmap range,
   short-node table, step or stored prefix), getLeftChildID (Bits.left_child:
   Rank128 on the packed label bitmaps), getLeafPrefix, getIthLeafBytes
   (VLenArray).  MsgProofs.v shows that on the message of every built trie these
   return what Model.getid / Model.get return on the tree.  No proofs here. *)
From Slim Require Import Base Keys Model BitmapRank BitmapRank2 Bits.

Fixpoint mdescend (fuel : nat) (m : msg) (vs : vars) (qn : list nat) (l id i : nat)
  : res (option (nat * nat * bool)) :=
  match fuel with
  | 0 => Err EFuel
  | S f =>
      match get_node m vs (N.of_nat id), get_view m vs (N.of_nat id) with
      | Val (DnLeaf _ _), _ => Ok (Some (id, i, true))
      | Val (DnInner _ _ from to bm _ _), Val (VInner _ big step pfx _ _) =>
          match advance qn l i step pfx with
          | None => Ok None
          | Some i1 =>
              match left_child m from to bm (N.of_nat (label_at big qn i1)) with
              | Val (lch, has) =>
                  if N.eqb has 0 then Ok None
                  else
                    let child := N.to_nat lch + 1 in
                    if Nat.eqb i1 l then Ok (Some (child, i1, false))
                    else mdescend f m vs qn l child (i1 + wsize big)
              | Panic => Err (EPanic 31)
              end
          end
      | _, _ => Err (EPanic 30)
      end
  end.

(* the tail held by the session after the loop (hasLeafPrefix / leafPrefix) *)
Definition msess_tail (m : msg) (vs : vars) (id : nat) (visited : bool) : res (option (list byte)) :=
  if visited then
    match get_node m vs (N.of_nat id) with
    | Val (DnLeaf _ tail) => Ok tail
    | Val (DnInner _ _ _ _ _ _ _) => Ok None
    | Panic => Err (EPanic 32)
    end
  else Ok None.

(* GetID: None is -1.  [fuel] bounds the number of nodes visited. *)
Definition mgetid (fuel : nat) (m : msg) (vs : vars) (q : key) : res (option nat) :=
  match m_nodetype m with
  | None => Ok None
  | Some _ =>
      let qn := nibs q in
      let l := length qn in
      do d <- mdescend fuel m vs qn l 0 0;
      match d with
      | None => Ok None
      | Some (id, i, visited) =>
          match m_leafpfx m with
          | Some _ =>
              do t <- msess_tail m vs id visited;
              match t with
              | None => Ok (if Nat.eqb i l then Some id else None)
              | Some tail => Ok (if Nat.eqb i l then None
                                 else if bytes_eqb tail (skipn (i / 2) q) then Some id else None)
              end
          | None => Ok (Some id)
          end
      end
  end.

(* Get: the stored bytes of the value *)
Definition mget (fuel : nat) (m : msg) (vs : vars) (q : key) : res found :=
  do g <- mgetid fuel m vs q;
  match g with
  | None => Ok NotFound
  | Some id =>
      match get_node m vs (N.of_nat id) with
      | Val (DnLeaf ith _) =>
          match ith_leaf_bytes m ith with
          | Val v => Ok (Found v)
          | Panic => Err (EPanic 11)
          end
      | Val (DnInner _ _ _ _ _ _ _) => Err (EPanic 10)
      | Panic => Err (EPanic 33)
      end
  end.
