(* Msg.v - GetID and Get computed from the bit-level message, the way the Go code
   does: getNode (Bits.get_node / get_view: NodeTypeBM rank, label-bitmap range,
   short-node table, step or stored prefix), getLeftChildID (Bits.left_child:
   Rank128 on the packed label bitmaps), getLeafPrefix, getIthLeafBytes
   (VLenArray).  MsgProofs.v shows that on the message of every built trie these
   return what Model.getid / Model.get return on the tree.  No proofs here. *)
From Slim Require Import Base Keys Model BitmapRank BitmapRank2 Bits.

Fixpoint mdescend (fuel : nat) (m : msg) (vs : vars) (qn : list nat) (l id i : nat)
  : res (option (nat * nat * bool)) :=
  match fuel with
  | 0 => Err EFuel
  | S f =>
      match get_node m vs (N.of_nat id), get_view m vs (N.of_nat id) with
      | Val (DnLeaf _ _), _ => Ok (Some (id, i, true))
      | Val (DnInner _ _ from to bm _ _), Val (VInner _ big step pfx _ _) =>
          match advance qn l i step pfx with
          | None => Ok None
          | Some i1 =>
              match left_child m from to bm (N.of_nat (label_at big qn i1)) with
              | Val (lch, has) =>
                  if N.eqb has 0 then Ok None
                  else
                    let child := N.to_nat lch + 1 in
                    if Nat.eqb i1 l then Ok (Some (child, i1, false))
                    else mdescend f m vs qn l child (i1 + wsize big)
              | Panic => Err (EPanic 31)
              end
          end
      | _, _ => Err (EPanic 30)
      end
  end.

(* the tail held by the session after the loop (hasLeafPrefix / leafPrefix) *)
Definition msess_tail (m : msg) (vs : vars) (id : nat) (visited : bool) : res (option (list byte)) :=
  if visited then
    match get_node m vs (N.of_nat id) with
    | Val (DnLeaf _ tail) => Ok tail
    | Val (DnInner _ _ _ _ _ _ _) => Ok None
    | Panic => Err (EPanic 32)
    end
  else Ok None.

(* GetID: None is -1.  [fuel] bounds the number of nodes visited. *)
Definition mgetid (fuel : nat) (m : msg) (vs : vars) (q : key) : res (option nat) :=
  match m_nodetype m with
  | None => Ok None
  | Some _ =>
      let qn := nibs q in
      let l := length qn in
      do d <- mdescend fuel m vs qn l 0 0;
      match d with
      | None => Ok None
      | Some (id, i, visited) =>
          match m_leafpfx m with
          | Some _ =>
              do t <- msess_tail m vs id visited;
              match t with
              | None => Ok (if Nat.eqb i l then Some id else None)
              | Some tail => Ok (if Nat.eqb i l then None
                                 else if bytes_eqb tail (skipn (i / 2) q) then Some id else None)
              end
          | None => Ok (Some id)
          end
      end
  end.

(* Get: the stored bytes of the value *)
Definition mget (fuel : nat) (m : msg) (vs : vars) (q : key) : res found :=
  do g <- mgetid fuel m vs q;
  match g with
  | None => Ok NotFound
  | Some id =>
      match get_node m vs (N.of_nat id) with
      | Val (DnLeaf ith _) =>
          match ith_leaf_bytes m ith with
          | Val v => Ok (Found v)
          | Panic => Err (EPanic 11)
          end
      | Val (DnInner _ _ _ _ _ _ _) => Err (EPanic 10)
      | Panic => Err (EPanic 33)
      end
  end.

(* ---- searchID on the message (trie/slimtrie_query.go: searchID, leftMost, rightMost) ---- *)
Fixpoint mleftmost (fuel : nat) (m : msg) (vs : vars) (id : nat) : res nat :=
  match fuel with
  | 0 => Err EFuel
  | S f =>
      match get_node m vs (N.of_nat id) with
      | Val (DnLeaf _ _) => Ok id
      | Val (DnInner _ _ from _ _ _ _) =>
          match first_child m from with            (* Rank128(Inners, from) + 1 *)
          | Val c => mleftmost f m vs (N.to_nat c)
          | Panic => Err (EPanic 34)
          end
      | Panic => Err (EPanic 35)
      end
  end.

Fixpoint mrightmost (fuel : nat) (m : msg) (vs : vars) (id : nat) : res nat :=
  match fuel with
  | 0 => Err EFuel
  | S f =>
      match get_node m vs (N.of_nat id) with
      | Val (DnLeaf _ _) => Ok id
      | Val (DnInner _ _ _ to _ _ _) =>
          match last_child m to with               (* Rank128(Inners, to-1) + bit *)
          | Val c => mrightmost f m vs (N.to_nat c)
          | Panic => Err (EPanic 36)
          end
      | Panic => Err (EPanic 37)
      end
  end.

Fixpoint msearch_down (fuel : nat) (m : msg) (vs : vars) (qn : list nat) (l id i : nat) (lc rc : option nat)
  : res (option nat * option (nat * nat * bool) * option nat) :=
  match fuel with
  | 0 => Err EFuel
  | S f =>
      match get_node m vs (N.of_nat id), get_view m vs (N.of_nat id) with
      | Val (DnLeaf _ _), _ => Ok (lc, Some (id, i, true), rc)
      | Val (DnInner _ _ from to bm _ _), Val (VInner _ big step pfx _ _) =>
          match advance3 qn l i step pfx with
          | ALt => Ok (lc, None, Some id)
          | AGt => Ok (Some id, None, rc)
          | AEq i1 =>
              match left_child m from to bm (N.of_nat (label_at big qn i1)), first_child m from, last_child m to with
              | Val (lch, has), Val lm, Val rm =>
                  let chid := (lch + has)%N in
                  let right := (chid + 1)%N in
                  let lc' := if (lm <=? lch)%N && (lch <=? rm)%N then Some (N.to_nat lch) else lc in
                  let rc' := if (lm <=? right)%N && (right <=? rm)%N then Some (N.to_nat right) else rc in
                  if N.eqb has 0 then Ok (lc', None, rc')
                  else if Nat.eqb i1 l then Ok (lc', Some (N.to_nat chid, i1, false), rc')
                  else msearch_down f m vs qn l (N.to_nat chid) (i1 + wsize big) lc' rc'
              | _, _, _ => Err (EPanic 38)
              end
          end
      | _, _ => Err (EPanic 39)
      end
  end.

Definition msearchid (fuel : nat) (m : msg) (vs : vars) (q : key) : res (option nat * option nat * option nat) :=
  match m_nodetype m with
  | None => Ok (None, None, None)
  | Some _ =>
      let qn := nibs q in
      let l := length qn in
      do d <- msearch_down fuel m vs qn l 0 0 None None;
      let '(lc, eq, rc) := d in
      do d2 <-
        match eq with
        | None => Ok (lc, None, rc)
        | Some (id, i, visited) =>
            if i <=? l then
              do cmp <- match m_leafpfx m with
                        | Some _ => do t <- msess_tail m vs id visited;
                                    Ok (bytes_cmp (skipn (i / 2) q) (match t with Some t => t | None => [] end))
                        | None => Ok Eq
                        end;
              match cmp with
              | Lt => Ok (lc, None, Some id)
              | Gt => Ok (Some id, None, rc)
              | Eq => Ok (lc, Some id, rc)
              end
            else Ok (lc, Some id, rc)
        end;
      let '(lc2, eq2, rc2) := d2 in
      do lres <- match lc2 with None => Ok None | Some x => do y <- mrightmost fuel m vs x; Ok (Some y) end;
      do rres <- match rc2 with None => Ok None | Some x => do y <- mleftmost fuel m vs x; Ok (Some y) end;
      Ok (lres, eq2, rres)
  end.

(* ---- Search / RangeGet on the message: the leaf values of the searchID triple ---- *)
(* getLeaf + getIthLeafBytes of node id *)
Definition mleaf_value (m : msg) (vs : vars) (id : nat) : res (option (list byte)) :=
  match get_node m vs (N.of_nat id) with
  | Val (DnLeaf ith _) =>
      match ith_leaf_bytes m ith with
      | Val v => Ok v
      | Panic => Err (EPanic 11)
      end
  | Val (DnInner _ _ _ _ _ _ _) => Err (EPanic 10)
  | Panic => Err (EPanic 33)
  end.

Definition mopt_leaf_value (m : msg) (vs : vars) (c : option nat) : res (option (option (list byte))) :=
  match c with
  | None => Ok None
  | Some id => do v <- mleaf_value m vs id; Ok (Some v)
  end.

Definition msearch (fuel : nat) (m : msg) (vs : vars) (q : key) :=
  do t <- msearchid fuel m vs q;
  let '(l, e, r) := t in
  do lv <- mopt_leaf_value m vs l;
  do ev <- mopt_leaf_value m vs e;
  do rv <- mopt_leaf_value m vs r;
  Ok (lv, ev, rv).

Definition mrangeget (fuel : nat) (m : msg) (vs : vars) (q : key) : res found :=
  do t <- msearchid fuel m vs q;
  let '(l, e, _) := t in
  match e with
  | Some id => do v <- mleaf_value m vs id; Ok (Found v)
  | None =>
      match l with
      | None => Ok NotFound
      | Some id => do v <- mleaf_value m vs id; Ok (Found v)
      end
  end.
