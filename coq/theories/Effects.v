(* Effects.v - vocabulary of the store-effect summary (C11, C20) and the
   abstract machines over which the frame theorems are stated.
   DEFINITIONS ONLY; proofs are in EffectsProofs.v.

   What this is and is not.  tools/geneffects regenerates, on every check, from
   the SSA form of package trie, the list of every instruction that writes
   memory in the call trees of the read APIs, of NewSlimTrie and of
   Unmarshal/Reset, each with the ROOT KIND of the written address, plus the
   caller-memory FLOWS and the list of ASSUMPTIONS made about calls that leave
   the package (SlimGen.Gen_Effects).  The theorems below are about an abstract
   machine whose steps declare the effect they perform.  That the Go program IS
   such a machine (the Go memory model, the soundness of geneffects' root /
   escape approximation, the external summaries) is NOT proved here; it is
   trusted and exercised dynamically (race detector, scribble runs). *)

From Coq Require Import String List Bool Arith.
Import ListNotations.

(* ------------------------------------------------------------------ data *)

Inductive root_kind : Type :=
| FreshAlloc            (* memory allocated inside the same API call tree, not stored anywhere shared *)
| Receiver              (* memory reachable from the API's receiver: the SlimTrie instance *)
| Param (i : nat)       (* memory reachable from the i-th parameter of the API entry: caller-owned *)
| Global                (* a package-level variable *)
| LibCache              (* protobuf's XXX_sizecache words of the instance: written by the protobuf
                           runtime with sync/atomic inside Marshal, never accessed by package trie *)
| Unknown.              (* the analysis could not bound the address *)

Inductive api_kind : Type := ApiRead | ApiBuild | ApiLoad.

Record effect : Type := {
  fn    : string;       (* function of package trie containing the instruction *)
  instr : string;       (* file:line and SSA text of the writing instruction *)
  path  : string;       (* how the address is formed (for the human auditor) *)
  root  : root_kind;
  api   : api_kind
}.

Inductive flow_dst : Type := ToReceiver | ToResult | ToGlobal.

(* caller-owned (or unknown) memory that becomes reachable from the receiver,
   from the result of an entry point, or from a package variable *)
Record flow : Type := {
  fl_api  : api_kind;
  fl_fn   : string;
  fl_src  : root_kind;
  fl_dst  : flow_dst;
  fl_note : string
}.

(* what the pointers returned by an entry point may point into *)
Record result : Type := {
  rs_api  : api_kind;
  rs_fn   : string;
  rs_root : root_kind
}.

(* an assumption about a callee outside package trie *)
Record assumption : Type := {
  callee : string;
  shape  : string;
  note   : string
}.

Record pkg_facts : Type := {
  uses_unsafe            : bool;  (* package trie imports unsafe (default build) *)
  read_touches_sizecache : bool;  (* a read-path function of package trie addresses XXX_sizecache *)
  read_spawns_goroutine  : bool;
  read_sends_on_channel  : bool;
  unsummarised_calls     : nat    (* external callees without a summary *)
}.

(* ------------------------------------------------------- boolean checks *)

Definition root_eqb (a b : root_kind) : bool :=
  match a, b with
  | FreshAlloc, FreshAlloc | Receiver, Receiver | Global, Global
  | LibCache, LibCache | Unknown, Unknown => true
  | Param i, Param j => Nat.eqb i j
  | _, _ => false
  end.

Definition api_eqb (a b : api_kind) : bool :=
  match a, b with
  | ApiRead, ApiRead | ApiBuild, ApiBuild | ApiLoad, ApiLoad => true
  | _, _ => false
  end.

(* C11: a read may write only memory private to the call (and the protobuf
   runtime may write its size cache). Caller parameters count as shared here:
   the read APIs write none. *)
Definition writes_shared (e : effect) : bool :=
  match root e with
  | FreshAlloc | LibCache => false
  | _ => true
  end.

Definition read_frame_ok (es : list effect) : bool :=
  forallb (fun e => negb (writes_shared e)) es.

(* C20: build and load may write fresh memory and (load) the instance; never a
   caller parameter, a package variable or an unknown address. *)
Definition writes_caller (e : effect) : bool :=
  match root e with
  | FreshAlloc | Receiver | LibCache => false
  | _ => true
  end.

Definition build_write_ok (e : effect) : bool :=
  match root e with FreshAlloc => true | _ => false end.

Definition load_write_ok (e : effect) : bool :=
  match root e with FreshAlloc | Receiver => true | _ => false end.

(* The only caller memory the instance may keep: the encoder handed to
   NewSlimTrie (parameter 0), kept by design. keys (1), values (2), opts (3)
   of NewSlimTrie and buf (0) of Unmarshal must not be kept. *)
Definition flow_ok (f : flow) : bool :=
  match fl_api f, fl_src f with
  | ApiBuild, Param 0 => true
  | _, _ => false
  end.

Definition is_marshal (r : result) : bool :=
  api_eqb (rs_api r) ApiRead && String.eqb (rs_fn r) "Marshal".

Definition marshal_result_fresh (rs : list result) : bool :=
  forallb (fun r => if is_marshal r then root_eqb (rs_root r) FreshAlloc else true) rs
  && existsb is_marshal rs.

Definition facts_ok (f : pkg_facts) : bool :=
  negb (uses_unsafe f) && negb (read_touches_sizecache f) &&
  negb (read_spawns_goroutine f) && negb (read_sends_on_channel f) &&
  Nat.eqb (unsummarised_calls f) 0.

Definition fn_present (fns : list (api_kind * string)) (a : api_kind) (name : string) : bool :=
  existsb (fun p => api_eqb (fst p) a && String.eqb (snd p) name) fns.

Definition read_entry_names : list string :=
  [ "(*SlimTrie).Get"; "(*SlimTrie).GetID"; "(*SlimTrie).RangeGet"; "(*SlimTrie).Search";
    "(*SlimTrie).searchID"; "(*SlimTrie).GetI8"; "(*SlimTrie).GetI16"; "(*SlimTrie).GetI32";
    "(*SlimTrie).GetI64"; "(*SlimTrie).ScanFrom"; "(*SlimTrie).ScanFromTo"; "(*SlimTrie).NewIter";
    "(*SlimTrie).newIter"; "(*SlimTrie).Stat"; "(*SlimTrie).String"; "(*SlimTrie).Marshal";
    "(*SlimTrie).getNode" ]%string.

Definition build_entry_names : list string := [ "NewSlimTrie"; "newSlim"; "normalizeOpt" ]%string.
Definition load_entry_names : list string :=
  [ "(*SlimTrie).Unmarshal"; "(*SlimTrie).Reset"; "before000512InnerPrefixTobitstr";
    "before000510ToNewChildrenArray" ]%string.

(* the analysis really covered the functions the properties are about *)
Definition entries_ok (fns : list (api_kind * string)) : bool :=
  forallb (fn_present fns ApiRead) read_entry_names &&
  forallb (fn_present fns ApiBuild) build_entry_names &&
  forallb (fn_present fns ApiLoad) load_entry_names.

(* ------------------------------------------- machine 1: calls over a store *)

Section Machine.

Variable V : Type.    (* values *)
Variable St : Type.   (* control state of one call (session / iterator), including its results so far *)

Inductive region : Type :=
| RInst                 (* the instance as package trie sees it *)
| RCache                (* protobuf's size cache inside the instance *)
| RGlobal               (* package variables *)
| RPriv (c : nat)       (* memory allocated by call c *)
| RCaller (c i : nat).  (* memory owned by the caller of call c, reachable from its i-th argument *)

Definition region_eqb (r r' : region) : bool :=
  match r, r' with
  | RInst, RInst | RCache, RCache | RGlobal, RGlobal => true
  | RPriv c, RPriv c' => Nat.eqb c c'
  | RCaller c i, RCaller c' i' => Nat.eqb c c' && Nat.eqb i i'
  | _, _ => false
  end.

Definition store : Type := region -> nat -> V.

Record write : Type := { w_reg : region; w_addr : nat; w_val : V }.

Definition upd (s : store) (w : write) : store :=
  fun r a => if region_eqb r (w_reg w) && Nat.eqb a (w_addr w) then w_val w else s r a.

Definition apply_writes (s : store) (ws : list write) : store := fold_left upd ws s.

(* where a write of call c whose declared root kind is k lands; None: anywhere *)
Definition region_of (c : nat) (k : root_kind) : option region :=
  match k with
  | FreshAlloc => Some (RPriv c)
  | Receiver => Some RInst
  | Param i => Some (RCaller c i)
  | Global => Some RGlobal
  | LibCache => Some RCache
  | Unknown => None
  end.

(* one atomic step of call c: from its control state and the whole store to
   its next control state and the writes it performs, each tagged with the
   effect (instruction) that performs it. Reads are unrestricted here; see
   [local]. *)
Definition stepfn : Type := nat -> St -> store -> St * list (effect * write).

(* the step function performs only writes of the declared list, where declared *)
Definition respects (effs : list effect) (step : stepfn) : Prop :=
  forall c q s e w, In (e, w) (snd (step c q s)) ->
    In e effs /\ region_of c (root e) = Some (w_reg w).

(* what call c can see: the instance, package variables, its own allocations
   and its caller's memory - not the allocations of other calls (no pointer to
   them exists in anything it can read, as long as they are not stored into
   shared memory: that is what FreshAlloc means) and not the size cache. *)
Definition visible (c : nat) (r : region) : bool :=
  match r with
  | RInst | RGlobal => true
  | RCache => false
  | RPriv c' => Nat.eqb c' c
  | RCaller c' _ => Nat.eqb c' c
  end.

Definition agree (c : nat) (s s' : store) : Prop :=
  forall r a, visible c r = true -> s r a = s' r a.

Definition local (step : stepfn) : Prop :=
  forall c q s s', agree c s s' -> step c q s = step c q s'.

Record config : Type := { ctl : nat -> St; mem : store }.

Definition exec1 (step : stepfn) (cf : config) (c : nat) : config :=
  let r := step c (ctl cf c) (mem cf) in
  {| ctl := fun x => if Nat.eqb x c then fst r else ctl cf x;
     mem := apply_writes (mem cf) (map snd (snd r)) |}.

(* a schedule is the list of call ids in the order their steps execute *)
Definition run (step : stepfn) (cf : config) (sched : list nat) : config :=
  fold_left (exec1 step) sched cf.

Definition count (c : nat) (sched : list nat) : nat := count_occ Nat.eq_dec sched c.

(* call c executing n steps alone *)
Definition solo (step : stepfn) (cf : config) (c n : nat) : config :=
  run step cf (repeat c n).

End Machine.

(* --------------------------- machine 2: observations over a pointer graph *)

Section Heap.

Variable V : Type.

(* a heap is a set of blocks of cells; a cell holds data or a pointer to a block *)
Inductive cell : Type := Data (v : V) | Ptr (b : nat).

Definition heap : Type := nat -> nat -> cell.   (* block id -> offset -> cell *)

Inductive reach (h : heap) (root : nat) : nat -> Prop :=
| reach_root : reach h root root
| reach_step : forall b off b', reach h root b -> h b off = Ptr b' -> reach h root b'.

(* An observation of the instance (a lookup, a scan, Stat, String, Marshal...)
   as a program that knows the root block and can read a cell only of a block
   whose id it has learnt by reading a pointer: Go has no pointer forging.
   [ORead k off cont]: read offset off of the k-th learnt block. *)
Inductive obs (A : Type) : Type :=
| ORet (a : A)
| ORead (k off : nat) (cont : cell -> obs A).

Arguments ORet {A} a.
Arguments ORead {A} k off cont.

(* None: the program named a block it never learnt (explicit error outcome) *)
Fixpoint run_obs {A : Type} (h : heap) (known : list nat) (p : obs A) : option A :=
  match p with
  | ORet a => Some a
  | ORead k off cont =>
      match nth_error known k with
      | None => None
      | Some b =>
          let c := h b off in
          run_obs h (match c with Ptr b' => b' :: known | Data _ => known end) (cont c)
      end
  end.

Definition observe {A : Type} (h : heap) (root : nat) (p : obs A) : option A :=
  run_obs h [root] p.

End Heap.

Arguments Data {V} v.
Arguments Ptr {V} b.
Arguments ORet {V A} a.
Arguments ORead {V A} k off cont.
