(* EndToEndScanProofs.v - a built trie, marshalled and loaded into an instance in any state
   after any history, scans exactly as the tree model does (Scan.v, about which C04 is proved);
   an instance holding the empty message yields nothing. *)
From Coq Require Import List NArith Bool Lia.
From Coq.Strings Require Import Byte.
From Slim Require Import Base Keys Model BitmapRank Scan Flat FlatProofs Msg MsgProofs ScanMsg ScanMsgMainProofs.
From Slim Require Bits.
From Slim Require Import Varint Proto Semver Frame Instance Wire WireProofs EndToEnd EndToEndProofs EndToEndScan.
Import ListNotations.
Local Open Scope nat_scope.

(* without NodeTypeBM the iterator is the empty one: every call returns nil *)
Lemma miter_init_nil fuel m vs start incl withv :
  Bits.m_nodetype m = None ->
  exists it, miter_init fuel m vs start incl withv = Ok it /\ mit_mode it = MMNormal /\ mit_stack it = [].
Proof.
  intros E. unfold miter_init, mge_path. rewrite E. unfold bind. unfold mnew_iter. cbn [minit_frames bind andb].
  destruct (false && negb incl); eexists; (split; [reflexivity|split; reflexivity]).
Qed.

Lemma miter_next_nil fuel m vs it : mit_mode it = MMNormal -> mit_stack it = [] -> miter_next fuel m vs it = Ok (None, it).
Proof. intros E1 E2. unfold miter_next. rewrite E1, E2. reflexivity. Qed.

Lemma miter_run_nil fuel m vs it n : mit_mode it = MMNormal -> mit_stack it = [] ->
  miter_run fuel n m vs it = Ok (repeat None n).
Proof.
  intros E1 E2. induction n as [|n IH]; [reflexivity|]. cbn [miter_run repeat].
  rewrite (miter_next_nil fuel m vs it E1 E2). unfold bind. rewrite IH. reflexivity.
Qed.

Lemma mscan_nil fuel lf m vs start incl withv fn : Bits.m_nodetype m = None ->
  mscan_from fuel (S lf) m vs start incl withv fn = Ok [].
Proof.
  intros E. destruct (miter_init_nil fuel m vs start incl withv E) as (it & Hi & E1 & E2).
  unfold mscan_from. rewrite Hi. unfold bind. cbn [mscan_loop]. rewrite (miter_next_nil _ _ _ _ E1 E2). reflexivity.
Qed.

Lemma mscan_to_nil fuel lf m vs start incl e incle withv fn : Bits.m_nodetype m = None ->
  mscan_from_to fuel (S lf) m vs start incl e incle withv fn = Ok [].
Proof.
  intros E. destruct (miter_init_nil fuel m vs start incl withv E) as (it & Hi & E1 & E2).
  unfold mscan_from_to. rewrite Hi. unfold bind. cbn [mscan_loop]. rewrite (miter_next_nil _ _ _ _ E1 E2). reflexivity.
Qed.

Lemma miter_all_nil fuel lf m vs start incl withv extra : Bits.m_nodetype m = None ->
  miter_all fuel (S lf) m vs start incl withv extra = Ok ([], repeat None extra).
Proof.
  intros E. destruct (miter_init_nil fuel m vs start incl withv E) as (it & Hi & E1 & E2).
  unfold miter_all. rewrite Hi. unfold bind. cbn [miter_drain]. rewrite (miter_next_nil _ _ _ _ E1 E2). unfold bind.
  rewrite (miter_run_nil _ _ _ _ extra E1 E2). reflexivity.
Qed.

Section E2EScan.
  Variable Levels : Type.
  Variable init_levels : slim -> Levels.
  Variable reset_levels : Levels.
  Variable conv510 : slim -> slim.
  Variable conv3 : list byte -> list byte -> list byte -> slim.
  Local Notation run := (Instance.run compat_gen cur_gen VarsT Levels ivars init_levels reset_levels conv510 conv3).
  Local Notation installed := (Instance.installed VarsT Levels ivars init_levels).

  Theorem loaded_scans o keys vals T m vs s (st : inst VarsT Levels) h fuel :
    build o keys vals = Ok T -> Bits.encode_trie T = Val m -> Bits.init_vars m = Val vs ->
    wf_msg (to_wire m) = true -> marshal_gen (to_wire m) = Some s ->
    trie_height T <= fuel ->
    let st' := run st (h ++ [OpUnmarshal s]) in
    (forall start incl withv extra,
       inst_iter_all Levels st' fuel (scan_fuel T) start incl withv extra = iter_all T start incl withv extra) /\
    (forall start incl withv fn,
       inst_scan_from Levels st' fuel (scan_fuel T) start incl withv fn = scan_from T start incl withv fn) /\
    (forall start incl e incle withv fn,
       inst_scan_from_to Levels st' fuel (scan_fuel T) start incl e incle withv fn = scan_from_to T start incl e incle withv fn).
  Proof.
    intros Hb Em Ev Hwf Hm Hf st'.
    assert (st' = installed (to_wire m)) as ->
      by (apply (no_residue_marshal_gen VarsT Levels ivars init_levels reset_levels conv510 conv3 h st _ _ Hwf Hm)).
    assert (exists lf, scan_fuel T = S lf) as (lf & Hlf) by (unfold scan_fuel; destruct (t_root T); eexists; reflexivity).
    unfold inst_iter_all, inst_scan_from, inst_scan_from_to.
    split; [|split].
    - intros start incl withv extra.
      rewrite (with_installed Levels init_levels m vs) by (try exact Ev; intros E; rewrite Hlf; apply miter_all_nil; exact E).
      exact (miter_all_eq' o keys vals T Hb m vs Em Ev fuel Hf start incl withv extra).
    - intros start incl withv fn.
      rewrite (with_installed Levels init_levels m vs) by (try exact Ev; intros E; rewrite Hlf; apply mscan_nil; exact E).
      exact (mscan_from_eq o keys vals T Hb m vs Em Ev fuel Hf start incl withv fn).
    - intros start incl e incle withv fn.
      rewrite (with_installed Levels init_levels m vs) by (try exact Ev; intros E; rewrite Hlf; apply mscan_to_nil; exact E).
      exact (mscan_from_to_eq o keys vals T Hb m vs Em Ev fuel Hf start incl e incle withv fn).
  Qed.

  (* the state C07's rejected loads leave: every scan is empty, every iterator call returns nil *)
  Theorem emptied_scans (st st' : inst VarsT Levels) fuel lfuel :
    emptied VarsT Levels st st' ->
    (forall start incl withv extra, inst_iter_all Levels st' fuel lfuel start incl withv extra = Ok ([], repeat None extra)) /\
    (forall start incl withv fn, inst_scan_from Levels st' fuel lfuel start incl withv fn = Ok []) /\
    (forall start incl e incle withv fn, inst_scan_from_to Levels st' fuel lfuel start incl e incle withv fn = Ok []).
  Proof.
    intros (Hi & _ & _). unfold inst_iter_all, inst_scan_from, inst_scan_from_to, with_msg. rewrite Hi. repeat split.
  Qed.
End E2EScan.
