(* SizeBitsWordsProofs.v - the bit-list bitmaps of Size.v (chunks64 / bits_val / rank64 /
   rank128) are the word-level bitmaps of BitmapRank2.v (of_cap / index_rank64 /
   index_rank128) when the position list is the list of the true bits:

     pack_spec          words, length and bits of  map bits_val (chunks64 bs)
     words_ext          a word list is determined by its length and its bits
     of_cap_pack        bitmap.Of(true_pos bs, cap) = the packed bits
     rank64_eq / rank128_eq   the rank indexes coincide
     labels_true_pos / to_array_true_pos / flat_pos_true_pos   the position lists the
                        creator hands to Of / OfMany are the true bits of Size.v's bit lists *)
From Coq Require Import List Arith Bool NArith ZArith Lia Sorted.
From Coq Require Import ZifyN ZifyNat ZifyBool.
From Slim Require Import Base BitmapRank BitmapRankProofs BitmapRank2 BitmapRank2Proofs BitmapSelectProofs.
From Slim Require Size SizeProofs.
From Slim Require BitsWfProofs.
Import ListNotations.
Local Open Scope N_scope.
Ltac Zify.zify_post_hook ::= Z.div_mod_to_equations.

Definition pack (bs : list bool) : list N := map Size.bits_val (Size.chunks64 bs).

(* ---------- small list facts ---------- *)
Lemma nth_firstn_lt {A} : forall (l : list A) n m d, (n < m)%nat -> nth n (firstn m l) d = nth n l d.
Proof.
  induction l as [|x r IH]; intros n m d H; [rewrite firstn_nil; reflexivity|].
  destruct m as [|m]; [lia|]. destruct n as [|n]; [reflexivity|]. cbn [firstn nth]. apply IH. lia.
Qed.

Lemma nth_skipn_add {A} : forall (l : list A) n m d, nth n (skipn m l) d = nth (m + n) l d.
Proof.
  induction l as [|x r IH]; intros n m d; [rewrite skipn_nil; destruct n, m; reflexivity|].
  destruct m as [|m]; [reflexivity|]. cbn [skipn Nat.add nth]. apply IH.
Qed.

Lemma nth_true_lt : forall (bs : list bool) n, nth n bs false = true -> (n < length bs)%nat.
Proof.
  intros bs n H. destruct (Nat.lt_ge_cases n (length bs)) as [Hl|Hg]; [exact Hl|].
  rewrite nth_overflow in H by exact Hg. discriminate.
Qed.

(* ---------- bits of a packed word ---------- *)
Lemma bits_val_cons : forall b r, Size.bits_val (b :: r) = 2 * Size.bits_val r + N.b2n b.
Proof. intros b r. cbn [Size.bits_val]. destruct b; cbn [N.b2n]; lia. Qed.

Lemma bits_val_testbit : forall bs k, N.testbit (Size.bits_val bs) k = nth (N.to_nat k) bs false.
Proof.
  induction bs as [|b r IH]; intros k.
  - cbn [Size.bits_val]. rewrite N.bits_0. destruct (N.to_nat k); reflexivity.
  - rewrite bits_val_cons. destruct (N.eq_dec k 0) as [->|Hk].
    + rewrite N.testbit_0_r. reflexivity.
    + replace k with (N.succ (N.pred k)) by lia. rewrite N.testbit_succ_r, IH.
      rewrite N2Nat.inj_succ. reflexivity.
Qed.

Lemma bits_val_lt64 : forall bs, (length bs <= 64)%nat -> Size.bits_val bs < 2 ^ 64.
Proof.
  intros bs H. eapply N.lt_le_trans; [apply SizeProofs.bits_val_lt|].
  apply N.pow_le_mono_r; lia.
Qed.

Lemma testbit_high64 : forall w k, w < 2 ^ 64 -> 64 <= k -> N.testbit w k = false.
Proof.
  intros w k Hw Hk. rewrite <- (N.mod_small w (2 ^ 64)) by exact Hw.
  apply N.mod_pow2_bits_high. exact Hk.
Qed.

Lemma nwords_for_div : forall n, nwords_for n = (n + 63) / 64.
Proof. intros n. unfold nwords_for. rewrite N.shiftr_div_pow2. reflexivity. Qed.

Lemma pack_spec_fuel : forall f bs, (length bs <= f)%nat ->
  let ws := map Size.bits_val (Size.chunks f bs) in
  words_ok ws /\ N.of_nat (length ws) = nwords_for (N.of_nat (length bs)) /\
  forall k, bm_get ws k = nth (N.to_nat k) bs false.
Proof.
  induction f as [|f IH]; intros bs Hlen.
  - destruct bs; [|cbn in Hlen; lia]. cbn [Size.chunks map length]. split; [constructor|]. split; [reflexivity|].
    intros k. rewrite bm_get_nil. destruct (N.to_nat k); reflexivity.
  - destruct bs as [|b r].
    + cbn [Size.chunks map length]. split; [constructor|]. split; [reflexivity|].
      intros k. rewrite bm_get_nil. destruct (N.to_nat k); reflexivity.
    + set (bs := b :: r) in *. change (Size.chunks (S f) bs) with (firstn 64 bs :: Size.chunks f (skipn 64 bs)).
      assert (Hs : (length (skipn 64 bs) <= f)%nat) by (rewrite skipn_length; lia).
      destruct (IH _ Hs) as (O & L & G). cbv zeta. cbn [map]. split; [|split].
      * constructor; [|exact O]. apply bits_val_lt64. rewrite firstn_length. lia.
      * cbn [length]. rewrite Nat2N.inj_succ, L, skipn_length, !nwords_for_div.
        assert (1 <= length bs)%nat by (unfold bs; cbn [length]; lia). lia.
      * intros k. destruct (N.lt_ge_cases k 64) as [Hk|Hk].
        -- rewrite bm_get_cons_low by exact Hk. rewrite bits_val_testbit. apply nth_firstn_lt. lia.
        -- rewrite bm_get_ge64 by exact Hk. rewrite G, nth_skipn_add. f_equal. lia.
Qed.

Lemma pack_spec : forall bs,
  words_ok (pack bs) /\ N.of_nat (length (pack bs)) = nwords_for (N.of_nat (length bs)) /\
  forall k, bm_get (pack bs) k = nth (N.to_nat k) bs false.
Proof. intros bs. exact (pack_spec_fuel (length bs) bs (le_n _)). Qed.

Lemma pack_small : forall bs, (1 <= length bs <= 64)%nat -> pack bs = [Size.bits_val bs].
Proof.
  intros bs H. unfold pack, Size.chunks64. destruct bs as [|b r]; [cbn in H; lia|].
  set (bs := b :: r) in *. change (Size.chunks (length bs) bs) with (firstn 64 bs :: Size.chunks (length r) (skipn 64 bs)).
  rewrite firstn_all2 by lia. rewrite skipn_all2 by lia. destruct (length r); reflexivity.
Qed.

(* ---------- a word list is determined by its bits ---------- *)
Lemma words_ext : forall a b : list N,
  length a = length b -> words_ok a -> words_ok b -> (forall k, bm_get a k = bm_get b k) -> a = b.
Proof.
  induction a as [|x a IH]; intros b Hl Ha Hb H; destruct b as [|y b]; try discriminate; [reflexivity|].
  inversion Ha as [|? ? Hx Ha']; subst. inversion Hb as [|? ? Hy Hb']; subst. f_equal.
  - apply N.bits_inj. intros k. destruct (N.lt_ge_cases k 64) as [Hk|Hk].
    + specialize (H k). rewrite !bm_get_cons_low in H by exact Hk. exact H.
    + rewrite !testbit_high64 by assumption. reflexivity.
  - apply IH; [cbn in Hl; lia|assumption|assumption|].
    intros k. specialize (H (64 + k)). rewrite !bm_get_cons_high in H. exact H.
Qed.

(* ---------- the positions of the true bits ---------- *)
Lemma true_pos_spec : forall bs base,
  StronglySorted N.lt (true_pos bs base) /\
  (forall p, In p (true_pos bs base) <-> base <= p /\ nth (N.to_nat (p - base)) bs false = true).
Proof.
  induction bs as [|b r IH]; intros base.
  - cbn [true_pos]. split; [constructor|]. intros p. split; [intros []|].
    intros [_ H]. destruct (N.to_nat (p - base)); discriminate.
  - cbn [true_pos]. destruct (IH (N.succ base)) as [Hs Hi].
    assert (Hin : forall p, In p (true_pos r (N.succ base)) <->
                            N.succ base <= p /\ nth (N.to_nat (p - base)) (b :: r) false = true).
    { intros p. rewrite Hi. split; intros [A B]; (split; [exact A|]).
      - replace (p - base) with (N.succ (p - N.succ base)) by lia. rewrite N2Nat.inj_succ. exact B.
      - replace (p - base) with (N.succ (p - N.succ base)) in B by lia. rewrite N2Nat.inj_succ in B. exact B. }
    split.
    + destruct b; cbn [app]; [|exact Hs]. constructor; [exact Hs|].
      rewrite Forall_forall. intros p Hp. apply Hin in Hp. lia.
    + intros p. rewrite in_app_iff, Hin. split.
      * intros [Hb|[A B]].
        -- destruct b; [|destruct Hb]. destruct Hb as [<-|[]]. split; [lia|].
           rewrite N.sub_diag. reflexivity.
        -- split; [lia|exact B].
      * intros [A B]. destruct (N.eq_dec p base) as [->|Hne].
        -- left. rewrite N.sub_diag in B. cbn in B. subst b. left. reflexivity.
        -- right. split; [lia|exact B].
Qed.

Lemma true_pos_app : forall a b k,
  true_pos (a ++ b) k = true_pos a k ++ true_pos b (k + N.of_nat (length a)).
Proof.
  induction a as [|x a IH]; intros b k.
  - cbn. rewrite N.add_0_r. reflexivity.
  - cbn [app true_pos length]. rewrite IH, <- app_assoc. do 3 f_equal. lia.
Qed.

Lemma true_pos_shift : forall bs base k, map (N.add base) (true_pos bs k) = true_pos bs (base + k).
Proof.
  induction bs as [|b r IH]; intros base k; [reflexivity|].
  cbn [true_pos]. rewrite map_app, IH. f_equal; [destruct b; reflexivity|]. f_equal. lia.
Qed.

Lemma true_pos_bound : forall bs, Forall (fun p => p < N.of_nat (length bs)) (true_pos bs 0).
Proof.
  intros bs. destruct (true_pos_spec bs 0) as [_ Hi]. rewrite Forall_forall. intros p Hp.
  apply Hi in Hp. destruct Hp as [_ Hp]. apply nth_true_lt in Hp. lia.
Qed.

(* bitmap.Of on the true positions of a bit list = the packed bits, whenever the number of
   words is the same *)
Theorem of_cap_pack_gen : forall bs cap,
  nwords_for (bits_cap (true_pos bs 0) cap) = nwords_for (N.of_nat (length bs)) ->
  of_cap (true_pos bs 0) cap = Val (pack bs).
Proof.
  intros bs cap Hn. destruct (true_pos_spec bs 0) as [Hs Hi].
  destruct (of_cap_sorted (true_pos bs 0) cap (sorted_lt_le _ Hs)) as (ws & E & L & O & G).
  rewrite E. f_equal. destruct (pack_spec bs) as (O' & L' & G').
  apply words_ext; [lia|exact O|exact O'|].
  intros k. rewrite G'. apply eq_true_iff_eq. rewrite G, Hi, N.sub_0_r. split; [tauto|]. intros H. split; [lia|exact H].
Qed.

Theorem of_cap_pack : forall bs cap, cap = N.of_nat (length bs) -> of_cap (true_pos bs 0) cap = Val (pack bs).
Proof.
  intros bs cap ->. apply of_cap_pack_gen. rewrite bits_cap_eq by apply true_pos_bound. reflexivity.
Qed.

(* ---------- rank indexes ---------- *)
Lemma popcount_bits_val : forall bs, popcount (Size.bits_val bs) = N.of_nat (Size.count_true bs).
Proof.
  induction bs as [|b r IH]; [reflexivity|].
  rewrite popcount_step, bits_val_cons. cbn [Size.count_true].
  replace (N.odd (2 * Size.bits_val r + N.b2n b)) with b.
  2:{ rewrite N.add_comm, N.odd_add_mul_2. destruct b; reflexivity. }
  replace (N.div2 (2 * Size.bits_val r + N.b2n b)) with (Size.bits_val r).
  2:{ rewrite N.div2_div. destruct b; cbn [N.b2n]; lia. }
  rewrite IH. destruct b; cbn [N.b2n]; lia.
Qed.

Lemma rank64_eq : forall cs a,
  index_rank64 (map Size.bits_val cs) (N.of_nat a) = map N.of_nat (Size.rank64 a cs).
Proof.
  induction cs as [|c r IH]; intros a; [reflexivity|].
  cbn [map index_rank64 Size.rank64]. f_equal. rewrite popcount_bits_val, <- Nat2N.inj_add. apply IH.
Qed.

Lemma rank128_eq : forall n cs a, (length cs <= n)%nat ->
  index_rank128 (map Size.bits_val cs) (N.of_nat a) = map N.of_nat (Size.rank128 a cs).
Proof.
  induction n as [|n IH]; intros cs a H.
  - destruct cs; [reflexivity|cbn in H; lia].
  - destruct cs as [|c1 [|c2 r]]; [reflexivity|reflexivity|].
    cbn [map index_rank128 Size.rank128]. f_equal.
    rewrite !popcount_bits_val, <- !Nat2N.inj_add. apply IH. cbn [length] in H. lia.
Qed.

Lemma map_ZN_nat : forall l : list nat, map Z.of_N (map N.of_nat l) = map Z.of_nat l.
Proof. intros l. rewrite map_map. apply map_ext. intros a. apply nat_N_Z. Qed.

(* ---------- label lists and short codes as true positions ---------- *)
Lemma nth_map_seq : forall (f : nat -> bool) w k d, (k < w)%nat -> nth k (map f (seq 0 w)) d = f k.
Proof.
  intros f w k d H. rewrite (nth_indep _ d (f 0%nat)) by (rewrite map_length, seq_length; exact H).
  rewrite (map_nth f (seq 0 w) 0%nat k), seq_nth by exact H. reflexivity.
Qed.

Lemma label_bits_nth : forall w labels k,
  nth k (Size.label_bits w labels) false = ((k <? w)%nat && existsb (Nat.eqb k) labels).
Proof.
  intros w labels k. unfold Size.label_bits. destruct (Nat.ltb_spec k w) as [H|H].
  - rewrite nth_map_seq by exact H. reflexivity.
  - rewrite nth_overflow by (rewrite map_length, seq_length; exact H). reflexivity.
Qed.

Lemma existsb_nat_In : forall k l, existsb (Nat.eqb k) l = true <-> In k l.
Proof.
  intros k l. rewrite existsb_exists. split.
  - intros (x & Hx & E). apply Nat.eqb_eq in E. subst. exact Hx.
  - intros H. exists k. split; [exact H|apply Nat.eqb_refl].
Qed.

Lemma labels_true_pos : forall w labels,
  StronglySorted N.lt (map N.of_nat labels) -> Forall (fun x => x < N.of_nat w) (map N.of_nat labels) ->
  map N.of_nat labels = true_pos (Size.label_bits w labels) 0.
Proof.
  intros w labels Hs Hb. destruct (true_pos_spec (Size.label_bits w labels) 0) as [Hs' Hi].
  apply BitsWfProofs.sorted_ext; [exact Hs|exact Hs'|].
  intros x. rewrite Hi, N.sub_0_r, label_bits_nth. rewrite Forall_forall in Hb. split.
  - intros H. split; [lia|]. pose proof (Hb _ H) as Hx. apply in_map_iff in H. destruct H as (k & <- & Hk).
    rewrite Nat2N.id. apply andb_true_iff. split; [apply Nat.ltb_lt; lia|apply existsb_nat_In; exact Hk].
  - intros [_ H]. apply andb_true_iff in H. destruct H as [_ H]. apply existsb_nat_In in H.
    apply in_map_iff. exists (N.to_nat x). split; [lia|exact H].
Qed.

Lemma short_bits_nth : forall ss sh k,
  nth k (Size.short_bits ss sh) false = ((k <? ss)%nat && N.testbit sh (N.of_nat k)).
Proof.
  intros ss sh k. unfold Size.short_bits. destruct (Nat.ltb_spec k ss) as [H|H].
  - rewrite nth_map_seq by exact H. reflexivity.
  - rewrite nth_overflow by (rewrite map_length, seq_length; exact H). reflexivity.
Qed.

Lemma to_array_true_pos : forall ss sh, sh < 2 ^ N.of_nat ss -> (ss <= 64)%nat ->
  to_array [sh] = true_pos (Size.short_bits ss sh) 0.
Proof.
  intros ss sh Hsh Hss. destruct (to_array_spec [sh]) as [Hs Hi].
  destruct (true_pos_spec (Size.short_bits ss sh) 0) as [Hs' Hi'].
  assert (Hsh64 : sh < 2 ^ 64).
  { eapply N.lt_le_trans; [exact Hsh|]. apply N.pow_le_mono_r; lia. }
  apply BitsWfProofs.sorted_ext; [exact Hs|exact Hs'|].
  intros x. rewrite <- Hi, Hi', N.sub_0_r, short_bits_nth, N2Nat.id. split.
  - intros H. split; [lia|]. pose proof (bm_get_true_lt _ _ H) as Hx. cbn [length] in Hx.
    rewrite bm_get_cons_low in H by lia. rewrite H, andb_true_r. apply Nat.ltb_lt.
    destruct (N.lt_ge_cases x (N.of_nat ss)) as [Hl|Hg]; [lia|].
    rewrite <- (N.mod_small sh (2 ^ N.of_nat ss)) in H by exact Hsh.
    rewrite N.mod_pow2_bits_high in H by exact Hg. discriminate.
  - intros [_ H]. apply andb_true_iff in H. destruct H as [H1 H2]. apply Nat.ltb_lt in H1.
    rewrite bm_get_cons_low by lia. exact H2.
Qed.

(* OfMany: the concatenation of the segments is the true positions of the concatenated bits *)
Lemma flat_pos_true_pos {A} (seg : A -> list N * N) (bitsf : A -> list bool) : forall l base,
  Forall (fun a => fst (seg a) = true_pos (bitsf a) 0 /\ snd (seg a) = N.of_nat (length (bitsf a))) l ->
  flat_pos base (map seg l) =
  (true_pos (flat_map bitsf l) base, base + N.of_nat (length (flat_map bitsf l))).
Proof.
  induction l as [|a r IH]; intros base H.
  - cbn. rewrite N.add_0_r. reflexivity.
  - inversion H as [|? ? [H1 H2] Hr]; subst. cbn [map flat_pos flat_map].
    destruct (seg a) as [sub sz] eqn:Es. cbn [fst snd] in H1, H2. subst sub sz.
    rewrite (IH _ Hr). rewrite true_pos_shift, N.add_0_r, true_pos_app, app_length. f_equal. lia.
Qed.

Theorem of_many_pack {A} (seg : A -> list N * N) (bitsf : A -> list bool) : forall l,
  Forall (fun a => fst (seg a) = true_pos (bitsf a) 0 /\ snd (seg a) = N.of_nat (length (bitsf a))) l ->
  of_many (map seg l) = Val (pack (flat_map bitsf l)).
Proof.
  intros l H. unfold of_many. rewrite (flat_pos_true_pos seg bitsf l 0 H).
  apply of_cap_pack. lia.
Qed.
