(* Size.v - the message that creator.build (trie/slimtrie_create.go) lays out for a
   trie built in FILTER MODE (no stored prefixes: InnerPrefix = LeafPrefix = false;
   no values), computed from the tree model of Model.v, bit for bit:

     encode_root : tree -> Proto.slim         the Slim message (as data, Proto.v)
     marshal_size : trie -> N                  32-byte pbcmpl header + proto.Size

   Layout followed (creator.build, trie/bitmap.go, low/bitmap):
     NodeTypeBM  = newBM(innerIndexes, nodeCnt, "r64")      one bit per node in BFS order
     Inners      = OfMany(innerBMs, innerSizes) + "r128"    257 bits per big node, 17 per
                   normal node, ShortSize per node replaced through the short table
     ShortBM     = newBM(shortIndex, innerCnt, "r64")       one bit per inner node
     ShortTable  = 2^ShortSize entries (sortedBMCounts / findMinShortSize / the
                   "mostUsed" loop of creator.build)
     InnerPrefixes = {EltCnt = #inner nodes with a step, PresenceBM = newBM(.., innerCnt,
                   "r128"), FixedSize = 2, Bytes = encStep of every non-zero step}
     LeafPrefixes = nil, Leaves = nil.
   bitmap.Of packs bit i into word i/64 at position i mod 64; IndexRank64 has one
   entry per word; IndexRank128 one entry per two words plus a trailing entry
   when the number of words is even.

   Go's map iteration order in sortedBMCounts does not matter: the comparator
   (count descending, then bitmap value descending) is a strict total order on
   the distinct bitmaps of one map.  int32 wrap-around (counts >= 2^31) is not
   modelled: counts are unbounded here.

   Definitions only; proofs are in SizeProofs.v. *)
From Slim Require Import Base Keys Model Varint Proto.
(* Varint/Proto open N_scope for their importers; this file counts in nat *)
Local Open Scope nat_scope.

(* ---- breadth-first order -------------------------------------------------- *)
Definition children (t : tree) : list tree :=
  match t with Leaf _ _ _ _ => [] | Inner _ _ _ _ _ ch => map snd ch end.

Fixpoint height (t : tree) : nat :=
  match t with
  | Leaf _ _ _ _ => 0
  | Inner _ _ _ _ _ ch =>
      S ((fix go (ch : list (nat * tree)) : nat :=
            match ch with [] => 0 | (_, c) :: r => Nat.max (height c) (go r) end) ch)
  end.

(* level order = the order of the creator's queue = node ids *)
Fixpoint levels (fuel : nat) (forest : list tree) : list tree :=
  match fuel with
  | 0 => []
  | S f => match forest with
           | [] => []
           | _ => forest ++ levels f (flat_map children forest)
           end
  end.

Definition bfs (r : tree) : list tree := levels (S (height r)) [r].

Definition is_inner (t : tree) : bool :=
  match t with Leaf _ _ _ _ => false | Inner _ _ _ _ _ _ => true end.

Record inode := { in_big : bool; in_step : nat; in_labels : list nat }.

Definition inode_of (t : tree) : list inode :=
  match t with
  | Leaf _ _ _ _ => []
  | Inner _ big step _ _ ch => [{| in_big := big; in_step := step; in_labels := map fst ch |}]
  end.

(* c.innerBMs / c.innerSizes / prefix data, in the order of addInner *)
Definition inners (r : tree) : list inode := flat_map inode_of (bfs r).

(* ---- bits, words, rank indexes -------------------------------------------- *)
Fixpoint bits_val (bs : list bool) : N :=
  match bs with
  | [] => 0%N
  | b :: r => ((if b then 1 else 0) + 2 * bits_val r)%N
  end.

Fixpoint count_true (bs : list bool) : nat :=
  match bs with [] => 0 | b :: r => (if b then 1 else 0) + count_true r end.

(* 64-bit chunks; fuel = number of bits is always enough *)
Fixpoint chunks (fuel : nat) (bs : list bool) : list (list bool) :=
  match fuel with
  | 0 => []
  | S f => match bs with
           | [] => []
           | _ => firstn 64 bs :: chunks f (skipn 64 bs)
           end
  end.
Definition chunks64 (bs : list bool) : list (list bool) := chunks (length bs) bs.

(* bitmap.IndexRank64 *)
Fixpoint rank64 (acc : nat) (cs : list (list bool)) : list nat :=
  match cs with
  | [] => []
  | c :: r => acc :: rank64 (acc + count_true c) r
  end.

(* bitmap.IndexRank128 *)
Fixpoint rank128 (acc : nat) (cs : list (list bool)) : list nat :=
  match cs with
  | [] => [acc]
  | c1 :: r1 => match r1 with
                | [] => [acc]
                | c2 :: r => acc :: rank128 (acc + count_true c1 + count_true c2) r
                end
  end.

(* newBM(indexes, capa, "r64" | "r128") with the bitmap given as its bits [0, capa) *)
Definition mk_bm (r128 : bool) (bs : list bool) : bitmap :=
  let cs := chunks64 bs in
  mkBitmap (map bits_val cs)
           (map Z.of_nat (if r128 then rank128 0 cs else rank64 0 cs))
           [] [].

(* ---- label bitmaps ---------------------------------------------------------- *)
Definition label_bits (width : nat) (labels : list nat) : list bool :=
  map (fun i => existsb (Nat.eqb i) labels) (seq 0 width).

(* get17bitmap / bitmap.Of(bmindex)[0] of a normal node *)
Definition bm17 (labels : list nat) : N := bits_val (label_bits 17 labels).

(* the bits of a short node: bitmap.ToArray([]uint64{short}) placed in ShortSize bits *)
Definition short_bits (ss : nat) (short : N) : list bool :=
  map (fun i => N.testbit short (N.of_nat i)) (seq 0 ss).

(* ---- the short-node table --------------------------------------------------- *)
Definition max_short : nat := 10.       (* maxShortSize *)

Fixpoint pop_pos (p : positive) : nat :=
  match p with xH => 1 | xO q => pop_pos q | xI q => S (pop_pos q) end.
Definition popcount (n : N) : nat := match n with N0 => 0 | Npos p => pop_pos p end.

(* c.innerBMCnt[nbit][bm]++ for the non-big nodes with at most maxShortSize labels:
   the list of (nbit, bm) *)
Definition cands (ins : list inode) : list (nat * N) :=
  flat_map (fun i => if length (in_labels i) <=? max_short
                     then [(length (in_labels i), bm17 (in_labels i))] else []) ins.

Fixpoint bump (bm : N) (tbl : list (N * nat)) : list (N * nat) :=
  match tbl with
  | [] => [(bm, 1)]
  | (b, c) :: r => if N.eqb b bm then (b, S c) :: r else (b, c) :: bump bm r
  end.

Definition counts (k : nat) (cs : list (nat * N)) : list (N * nat) :=
  fold_left (fun t p => if Nat.eqb (fst p) k then bump (snd p) t else t) cs [].

(* sort.Slice comparator of sortedBMCounts: a before b *)
Definition cnt_before (a b : N * nat) : bool :=
  if Nat.eqb (snd a) (snd b) then (fst b <? fst a)%N else (snd b <? snd a).

Fixpoint ins_sorted (a : N * nat) (l : list (N * nat)) : list (N * nat) :=
  match l with
  | [] => [a]
  | b :: r => if cnt_before b a then b :: ins_sorted a r else a :: b :: r
  end.
Definition sort_cnt (l : list (N * nat)) : list (N * nat) := fold_right ins_sorted [] l.

(* sortedBMCounts: one list per number of labels 0..maxShortSize *)
Definition sorted_tbls (cs : list (nat * N)) : list (list (N * nat)) :=
  map (fun k => sort_cnt (counts k cs)) (seq 0 (S max_short)).

(* take the next unused entry of list k *)
Fixpoint pop_nth (k : nat) (ls : list (list (N * nat))) : option (N * nat) * list (list (N * nat)) :=
  match ls with
  | [] => (None, [])
  | l :: r =>
      match k with
      | 0 => match l with
             | [] => (None, ls)
             | x :: l' => (Some x, l' :: r)
             end
      | S k' => let (x, r') := pop_nth k' r in (x, l :: r')
      end
  end.

(* the loop "for short := 0; short < 1<<shortSize; short++" of memIncrOfShortSize
   and of creator.build: the entry assigned to each short value *)
Fixpoint assign (shorts : list N) (tbls : list (list (N * nat))) : list (option (N * nat)) :=
  match shorts with
  | [] => []
  | s :: r => let (x, t') := pop_nth (popcount s) tbls in x :: assign r t'
  end.

Definition shorts (ss : nat) : list N := map N.of_nat (seq 0 (2 ^ ss)).

Definition saved (ss : nat) (a : list (option (N * nat))) : Z :=
  fold_right (fun x acc => match x with
                           | Some (_, c) => (Z.of_nat (17 - ss) * Z.of_nat c + acc)%Z
                           | None => acc
                           end) 0%Z a.

(* memIncrOfShortSize, first component *)
Definition mem_incr (tbls : list (list (N * nat))) (ss : nat) : Z :=
  (64 * Z.of_nat (2 ^ ss) - saved ss (assign (shorts ss) tbls))%Z.

(* findMinShortSize, first component *)
Definition find_short_size (tbls : list (list (N * nat))) : nat :=
  fst (fold_left (fun (st : nat * Z) ss =>
                    let m := mem_incr tbls ss in
                    if (m <? snd st)%Z then (ss, m) else st)
                 (seq 1 max_short) (0, mem_incr tbls 0)).

Definition short_table (tbls : list (list (N * nat))) (ss : nat) : list N :=
  map (fun x => match x with Some (bm, _) => bm | None => 0%N end) (assign (shorts ss) tbls).

(* mostUsed: bm -> short (the assigned bitmaps are pairwise distinct) *)
Definition most_used (tbls : list (list (N * nat))) (ss : nat) : list (N * N) :=
  flat_map (fun p => match fst p with Some (bm, _) => [(bm, snd p)] | None => [] end)
           (combine (assign (shorts ss) tbls) (shorts ss)).

Fixpoint lookup (bm : N) (m : list (N * N)) : option N :=
  match m with
  | [] => None
  | (b, s) :: r => if N.eqb b bm then Some s else lookup bm r
  end.

(* ---- the message -------------------------------------------------------------- *)
Definition big_count (ins : list inode) : nat := length (filter in_big ins).

(* bits of one inner node in Inners, and whether it became a short node *)
Definition node_short (mu : list (N * N)) (i : inode) : option N :=
  if in_big i then None else lookup (bm17 (in_labels i)) mu.

Definition node_bits (ss : nat) (mu : list (N * N)) (i : inode) : list bool :=
  if in_big i then label_bits 257 (in_labels i)
  else match lookup (bm17 (in_labels i)) mu with
       | Some s => short_bits ss s
       | None => label_bits 17 (in_labels i)
       end.

(* encStep: two bytes, big endian, unit = 4 bits *)
Definition enc_step (step : nat) : list byte :=
  let s := N.of_nat step in [byte_of_N (s / 256); byte_of_N s].

Definition has_step (i : inode) : bool := negb (Nat.eqb (in_step i) 0).

Definition encode_root (r : tree) : slim :=
  let nodes := bfs r in
  let ins := inners r in
  let bigcnt := big_count ins in
  let tbls := sorted_tbls (cands (skipn bigcnt ins)) in
  let ss := find_short_size tbls in
  let mu := most_used tbls ss in
  let stepped := filter has_step ins in
  mkSlim (Z.of_nat bigcnt) (Z.of_nat ss)
         (Some (mk_bm false (map is_inner nodes)))
         (Some (mk_bm true (flat_map (node_bits ss mu) ins)))
         (Some (mk_bm false (map (fun i => match node_short mu i with Some _ => true | None => false end) ins)))
         (short_table tbls ss)
         (Some (mkVlen 0 (Z.of_nat (length stepped)) None 2
                       (flat_map (fun i => enc_step (in_step i)) stepped)
                       (Some (mk_bm true (map has_step ins))) []))
         None None [].

(* newSlim returns &Slim{} for an empty key list *)
Definition encode_trie (T : trie) : slim :=
  match t_root T with
  | None => empty_slim
  | Some r => encode_root r
  end.

(* len(Marshal()): pbcmpl header (16 + 8 + 8 bytes) + proto.Size of the message *)
Definition marshal_size (T : trie) : N := (32 + size_slim (encode_trie T))%N.

(* ---- the counts the size depends on ------------------------------------------- *)
Definition node_count (r : tree) : nat := length (bfs r).
Definition inner_count (r : tree) : nat := length (inners r).
Definition leaf_count (r : tree) : nat := length (filter (fun t => negb (is_inner t)) (bfs r)).
Definition step_count (r : tree) : nat := length (filter has_step (inners r)).
Definition inner_bits (r : tree) : nat :=
  let ins := inners r in
  let tbls := sorted_tbls (cands (skipn (big_count ins) ins)) in
  let ss := find_short_size tbls in
  length (flat_map (node_bits ss (most_used tbls ss)) ins).
