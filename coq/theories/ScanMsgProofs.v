(* ScanMsgProofs.v - on the bit-level message of every built trie, getGEPath and
   leftMost(idx, &path) run over node ids and the message (ScanMsg.mge_path) return the
   ids of the path Scan.ge_path returns on the tree.  The simulation: every id the loop
   holds is the id of a subtree of the root; getNode / getLeftChildID / the rightMost
   rank answer on that id what the tree says (MsgProofs.node_inner / node_leaf / view_at). *)
From Slim Require Import Base Keys KeysProofs ListFacts Model TrieInv BuildProofs QueryProofs ConsistProofs
  Stat StatProofs GetIntProofs Flat FlatProofs BitmapRank BitmapRank2 Bits BitsWfProofs BitsFlatProofs Msg MsgProofs
  Scan ScanGeProofs ScanMsg.
From Coq Require Import Sorting.Sorted ZifyNat ZifyN ZifyBool.

(* ---------- the inner loop of ge_down by label rank ---------- *)
Definition ged_go (qn : list nat) (l i1 : nat) (big : bool) (path1 : list tree) (rc : option (tree * nat)) (lb : nat)
  : list (nat * tree) -> gstate :=
  fix go (ch : list (nat * tree)) : gstate :=
    match ch with
    | [] => (path1, None, rc)
    | (x, c) :: rest =>
        if x <? lb then go rest
        else if Nat.eqb x lb then
          let rc' := match rest with (_, c') :: _ => Some (c', length path1) | [] => rc end in
          if Nat.eqb i1 l then (path1, Some (c, i1, false), rc')
          else ge_down qn l c (i1 + wsize big) path1 rc'
        else (path1, None, Some (c, length path1))
    end.

Lemma ge_down_inner' qn l id big step pfx fc ch i path rc :
  ge_down qn l (Inner id big step pfx fc ch) i path rc =
  match ge_advance qn i pfx with
  | PLt => (path, None, Some (Inner id big step pfx fc ch, length path))
  | PGt => (path, None, rc)
  | PEq i1 => ged_go qn l i1 big (path ++ [Inner id big step pfx fc ch]) rc (label_at big qn i1) ch
  end.
Proof. reflexivity. Qed.

Lemma ged_go_rank qn l i1 big path1 rc lb : forall ch,
  ged_go qn l i1 big path1 rc lb ch =
  let '(n, has) := label_rank_lt lb (map fst ch) in
  if has then
    match nth_error ch n with
    | Some (_, c) =>
        let rc' := match nth_error ch (S n) with Some (_, c') => Some (c', length path1) | None => rc end in
        if Nat.eqb i1 l then (path1, Some (c, i1, false), rc')
        else ge_down qn l c (i1 + wsize big) path1 rc'
    | None => (path1, None, rc)
    end
  else (path1, None, match nth_error ch n with Some (_, c) => Some (c, length path1) | None => rc end).
Proof.
  induction ch as [|[x c] rest IH]; [reflexivity|].
  cbn [ged_go map fst label_rank_lt]. fold (ged_go qn l i1 big path1 rc lb).
  destruct (x <? lb) eqn:Elt.
  - rewrite IH. destruct (label_rank_lt lb (map fst rest)) as [n has]. cbn [nth_error]. reflexivity.
  - cbn [nth_error]. destruct (Nat.eqb x lb); [|reflexivity].
    destruct rest as [|[y c'] rest']; reflexivity.
Qed.

(* ---------- projections to ids ---------- *)
Definition rc_ids (rc : option (tree * nat)) : option (nat * nat) :=
  match rc with Some (t, n) => Some (tree_id t, n) | None => None end.

Definition gst_ids (s : gstate) : mgstate :=
  let '(path, eq, rc) := s in (map tree_id path, ids_of eq, rc_ids rc).

Definition rc_in (r : tree) (rc : option (tree * nat)) : Prop :=
  match rc with Some (t, _) => In t (subtrees r) | None => True end.

Definition gst_in (r : tree) (s : gstate) : Prop :=
  let '(path, eq, rc) := s in
  Forall (fun t => In t (subtrees r)) path /\
  match eq with Some (c, _, _) => In c (subtrees r) | None => True end /\
  rc_in r rc.

Lemma ge_down_in r qn l : forall t, In t (subtrees r) -> forall i path rc,
  Forall (fun t => In t (subtrees r)) path -> rc_in r rc -> gst_in r (ge_down qn l t i path rc).
Proof.
  induction t as [id ord tail eidx|id big step pfx fc ch IH] using tree_ind'; intros Ht i path rc Hp Hrc.
  - cbn [ge_down gst_in]. auto.
  - rewrite ge_down_inner'. destruct (ge_advance qn i pfx) as [i1| |]; [|cbn [gst_in rc_in]; auto|cbn [gst_in]; auto].
    rewrite ged_go_rank.
    assert (Forall (fun t => In t (subtrees r)) (path ++ [Inner id big step pfx fc ch])) as Hp1
      by (apply Forall_app; split; [exact Hp|constructor; [exact Ht|constructor]]).
    assert (forall j x c, nth_error ch j = Some (x, c) -> In c (subtrees r)) as Hch.
    { intros j x c Hj. eapply subtrees_trans; [exact Ht|eapply subtree_child; eapply nth_error_In; exact Hj]. }
    destruct (label_rank_lt (label_at big qn i1) (map fst ch)) as [n has]. destruct has.
    + destruct (nth_error ch n) as [[x c]|] eqn:En; [|cbn [gst_in]; auto].
      assert (rc_in r (match nth_error ch (S n) with Some (_, c') => Some (c', length (path ++ [Inner id big step pfx fc ch])) | None => rc end)) as Hrc'.
      { destruct (nth_error ch (S n)) as [[y c']|] eqn:Es; [cbn [rc_in]; eapply Hch; exact Es|exact Hrc]. }
      cbv zeta. destruct (Nat.eqb i1 l).
      * cbn [gst_in]. split; [exact Hp1|]. split; [eapply Hch; exact En|exact Hrc'].
      * rewrite Forall_forall in IH. apply (IH (x, c) (nth_error_In _ _ En)); [eapply Hch; exact En|exact Hp1|exact Hrc'].
    + cbn [gst_in]. split; [exact Hp1|]. split; [exact I|].
      destruct (nth_error ch n) as [[x c]|] eqn:En; [cbn [rc_in]; eapply Hch; exact En|exact Hrc].
Qed.

Lemma leftmost_path_in : forall t c, In c (leftmost_path t) -> In c (subtrees t).
Proof.
  induction t as [id ord tail eidx|id big step pfx fc ch IH] using tree_ind'; intros c Hc.
  - cbn [leftmost_path] in Hc. destruct Hc as [<-|[]]. left. reflexivity.
  - cbn [leftmost_path] in Hc. destruct Hc as [<-|Hc]; [apply subtrees_self|].
    destruct ch as [|[x c0] rest]; [destruct Hc|].
    pose proof (Forall_inv IH) as IH0. cbn [snd] in IH0.
    eapply subtrees_trans; [eapply subtree_child; left; reflexivity|apply IH0; exact Hc].
Qed.

(* ---------- the innerpfx field of the encoded message ---------- *)
Lemma encode_msg_innerpfx nodes ipfx lpfx leaves m :
  encode_msg nodes ipfx lpfx leaves = Val m ->
  exists ip, m_innerpfx m = Some ip /\ (v_position ip = None <-> ipfx = false).
Proof.
  unfold encode_msg. cbv zeta. intros H.
  open_doo H.
  destruct (table_loop _ _ _) as [table most].
  open_doo H.
  repeat match goal with p : (_ * _)%type |- _ => destruct p end.
  open_doo H. injection H as <-. cbn [m_innerpfx].
  eexists. split; [reflexivity|].
  match goal with E : (if ipfx then _ else _) = Val _ |- _ => rename E into Ei end.
  destruct ipfx.
  - open_doo Ei. injection Ei as <-. cbn [v_position]. split; discriminate.
  - injection Ei as <-. cbn [v_position]. split; reflexivity.
Qed.

(* ---------- one built trie and its message ---------- *)
Section OneTrie.
  Variables (o : opts) (keys : list key) (vals : option (list (list byte))) (T : trie) (r : tree).
  Hypothesis Hb : build o keys vals = Ok T.
  Hypothesis Hr : t_root T = Some r.
  Variables (m : msg) (vs : vars).
  Hypothesis Em : encode_trie T = Val m.
  Hypothesis Ev : init_vars m = Val vs.

  Let I : IdsOK r := built_ids_ok o keys vals T r Hb Hr.

  Lemma sm_view t : In t (subtrees r) -> get_view m vs (N.of_nat (tree_id t)) = Val (view_of_tree t).
  Proof. exact (view_at o keys vals T r Hb Hr m vs Em Ev t). Qed.

  Lemma sm_leaf id ord tail eidx :
    In (Leaf id ord tail eidx) (subtrees r) -> get_node m vs (N.of_nat id) = Val (DnLeaf (N.of_nat ord) tail).
  Proof. exact (node_leaf o keys vals T r Hb Hr m vs Em Ev id ord tail eidx). Qed.

  Lemma sm_inner id big step pfx fc ch :
    In (Inner id big step pfx fc ch) (subtrees r) ->
    exists ith wsz from to bm plen pfxb,
      get_node m vs (N.of_nat id) = Val (DnInner ith wsz from to bm plen pfxb) /\
      first_child m from = Val (N.of_nat fc) /\
      last_child m to = Val (N.of_nat (fc + length ch - 1)) /\
      (forall k, (k < (if big then 257 else 17))%N ->
         left_child m from to bm k =
         Val (N.of_nat (fc - 1 + count_lt (map N.of_nat (map fst ch)) k),
              N.b2n (existsb (N.eqb k) (map N.of_nat (map fst ch))))) /\
      1 <= fc /\ ch <> [] /\ StronglySorted lt (map fst ch).
  Proof. exact (node_inner o keys vals T r Hb Hr m vs Em Ev id big step pfx fc ch). Qed.

  Lemma sm_child id big step pfx fc ch j x c :
    In (Inner id big step pfx fc ch) (subtrees r) -> nth_error ch j = Some (x, c) ->
    tree_id c = fc + j /\ In c (subtrees r).
  Proof.
    intros Ht En. split; [exact (child_id r _ _ _ _ _ _ _ _ _ I Ht En)|].
    eapply subtrees_trans; [exact Ht|eapply subtree_child; eapply nth_error_In; exact En].
  Qed.

  (* leftMost(idx, &path) *)
  Lemma mleftmost_path_sim : forall t, In t (subtrees r) -> forall fuel, height t <= fuel ->
    mleftmost_path fuel m vs (tree_id t) = Ok (map tree_id (leftmost_path t)).
  Proof.
    induction t as [id ord tail eidx|id big step pfx fc ch IH] using tree_ind'; intros Ht fuel Hfuel.
    - destruct fuel as [|f]; [cbn in Hfuel; lia|]. cbn [mleftmost_path tree_id]. rewrite (sm_leaf _ _ _ _ Ht). reflexivity.
    - destruct fuel as [|f]; [cbn [height] in Hfuel; lia|]. cbn [mleftmost_path tree_id].
      destruct (sm_inner _ _ _ _ _ _ Ht) as (ith & wsz & from & to & bm & plen & pfxb & Hgn & Hfst & _ & _ & _ & Hne & _).
      rewrite Hgn, Hfst, Nat2N.id.
      destruct ch as [|[x c] rest]; [congruence|].
      assert (nth_error ((x, c) :: rest) 0 = Some (x, c)) as En by reflexivity.
      destruct (sm_child _ _ _ _ _ _ _ _ _ Ht En) as [Hcid Hcin]. rewrite Nat.add_0_r in Hcid. rewrite <- Hcid.
      pose proof (Forall_inv IH) as IH0. cbn [snd] in IH0.
      rewrite (IH0 Hcin f).
      2:{ pose proof (height_child id big step pfx fc ((x, c) :: rest) x c (or_introl eq_refl)). lia. }
      reflexivity.
  Qed.

  (* the loop of getGEPath *)
  Lemma mge_down_sim qn : Forall (fun x => x < 16) qn ->
    forall t, In t (subtrees r) -> forall fuel i path rc, height t <= fuel ->
    mge_down fuel m vs qn (length qn) (tree_id t) i (map tree_id path) (rc_ids rc) =
    Ok (gst_ids (ge_down qn (length qn) t i path rc)).
  Proof.
    intros Hq.
    induction t as [id ord tail eidx|id big step pfx fc ch IH] using tree_ind'; intros Ht fuel i path rc Hfuel.
    - destruct fuel as [|f]; [cbn in Hfuel; lia|]. cbn [mge_down tree_id]. rewrite (sm_leaf _ _ _ _ Ht). reflexivity.
    - destruct fuel as [|f]; [cbn [height] in Hfuel; lia|]. cbn [mge_down].
      rewrite (sm_view _ Ht). cbn [tree_id view_of_tree].
      destruct (sm_inner _ _ _ _ _ _ Ht) as (ith & wsz & from & to & bm & plen & pfxb & Hgn & Hfst & Hlst & Hlc & Hfc & Hne & Hsorted).
      rewrite Hgn. rewrite ge_down_inner'.
      destruct (ge_advance qn i pfx) as [i1| |]; [|cbn [gst_ids ids_of rc_ids tree_id]; rewrite map_length; reflexivity|reflexivity].
      set (lb := label_at big qn i1).
      assert (N.of_nat lb < (if big then 257 else 17))%N as Hlb.
      { pose proof (label_at_bound big qn i1 Hq) as H. fold lb in H. destruct big; lia. }
      rewrite (Hlc (N.of_nat lb) Hlb), Hlst. rewrite ged_go_rank.
      pose proof (label_rank_lt_le lb (map fst ch)) as Hnle.
      pose proof (label_rank_lt_has lb (map fst ch)) as Hnhas.
      rewrite (label_rank_lt_count lb (map fst ch) Hsorted) in *. cbn [fst] in Hnle. rewrite map_length in Hnle, Hnhas.
      set (n := count_lt (map N.of_nat (map fst ch)) (N.of_nat lb)) in *.
      set (has := existsb (N.eqb (N.of_nat lb)) (map N.of_nat (map fst ch))) in *.
      set (t := Inner id big step pfx fc ch) in *.
      cbv zeta.
      assert (map tree_id path ++ [id] = map tree_id (path ++ [t])) as Hp1 by (rewrite map_app; reflexivity).
      rewrite Hp1. rewrite (map_length tree_id (path ++ [t])).
      destruct has eqn:Ehas; cbn [N.b2n N.eqb].
      + specialize (Hnhas n eq_refl).
        destruct (nth_error ch n) as [[x c]|] eqn:En; [|apply nth_error_None in En; lia].
        destruct (sm_child _ _ _ _ _ _ _ _ _ Ht En) as [Hcid Hcin].
        assert ((if (N.of_nat (fc - 1 + n) + 1 + 1 <=? N.of_nat (fc + length ch - 1))%N
                 then Some (N.to_nat (N.of_nat (fc - 1 + n) + 1 + 1), length (path ++ [t])) else rc_ids rc) =
                rc_ids (match nth_error ch (S n) with Some (_, c') => Some (c', length (path ++ [t])) | None => rc end)) as HR.
        { destruct (nth_error ch (S n)) as [[y c']|] eqn:Es.
          - assert (S n < length ch) by (apply nth_error_Some; rewrite Es; discriminate).
            destruct (sm_child _ _ _ _ _ _ _ _ _ Ht Es) as [Hcid' _].
            assert ((N.of_nat (fc - 1 + n) + 1 + 1 <=? N.of_nat (fc + length ch - 1))%N = true) as -> by (apply N.leb_le; lia).
            cbn [rc_ids]. rewrite Hcid'.
            assert (N.to_nat (N.of_nat (fc - 1 + n) + 1 + 1) = fc + S n) as -> by lia. reflexivity.
          - apply nth_error_None in Es.
            assert ((N.of_nat (fc - 1 + n) + 1 + 1 <=? N.of_nat (fc + length ch - 1))%N = false) as -> by (apply N.leb_gt; lia).
            reflexivity. }
        rewrite HR. clear HR.
        assert (N.to_nat (N.of_nat (fc - 1 + n) + 1) = fc + n) as -> by lia.
        destruct (Nat.eqb i1 (length qn)).
        * cbn [gst_ids ids_of]. rewrite Hcid. reflexivity.
        * rewrite <- Hcid. rewrite Forall_forall in IH.
          assert (In (x, c) ch) as Hin by (eapply nth_error_In; exact En).
          apply (IH _ Hin Hcin). cbn [snd]. pose proof (height_child id big step pfx fc ch x c Hin). fold t in H. lia.
      + cbn [gst_ids ids_of].
        destruct (nth_error ch n) as [[x c]|] eqn:En.
        * assert (n < length ch) by (apply nth_error_Some; rewrite En; discriminate).
          destruct (sm_child _ _ _ _ _ _ _ _ _ Ht En) as [Hcid _].
          assert ((N.of_nat (fc - 1 + n) + 0 + 1 <=? N.of_nat (fc + length ch - 1))%N = true) as -> by (apply N.leb_le; lia).
          cbn [rc_ids]. rewrite Hcid.
          assert (N.to_nat (N.of_nat (fc - 1 + n) + 0 + 1) = fc + n) as -> by lia. reflexivity.
        * apply nth_error_None in En.
          assert ((N.of_nat (fc - 1 + n) + 0 + 1 <=? N.of_nat (fc + length ch - 1))%N = false) as -> by (apply N.leb_gt; lia).
          reflexivity.
  Qed.

  Lemma sm_sess_tail c v : In c (subtrees r) -> msess_tail m vs (tree_id c) v = Ok (sess_tail c v).
  Proof. exact (msess_tail_ok o keys vals T r Hb Hr m vs Em Ev c v). Qed.

  Lemma sm_msg_fields :
    m_nodetype m <> None /\ (m_leafpfx m = None <-> t_leafpfx T = false) /\
    msg_complete m = t_innerpfx T && t_leafpfx T.
  Proof.
    pose proof (Hem T r Hr m Em) as Hm.
    destruct (encode_msg_fields _ _ _ _ _ Hm) as (Hnt & Hlp). specialize (Hnt (flat_nodes_ne r)).
    destruct (encode_msg_innerpfx _ _ _ _ _ Hm) as (ip & Hip & Hpos).
    split; [exact Hnt|]. split; [exact Hlp|].
    unfold msg_complete. rewrite Hip.
    destruct (t_innerpfx T), (t_leafpfx T), (v_position ip), (m_leafpfx m); try reflexivity;
      try (destruct Hpos as [Hp1 Hp2]; try discriminate (Hp1 eq_refl); try discriminate (Hp2 eq_refl));
      try (destruct Hlp as [Hl1 Hl2]; try discriminate (Hl1 eq_refl); try discriminate (Hl2 eq_refl)).
  Qed.

  (* getGEPath *)
  Lemma mge_path_sim q fuel : height r <= fuel ->
    mge_path fuel m vs q = (do pe <- ge_path T q; Ok (map tree_id (fst pe), snd pe)) /\
    (forall p e, ge_path T q = Ok (p, e) -> Forall (fun t => In t (subtrees r)) p).
  Proof.
    intros Hfuel.
    destruct sm_msg_fields as (Hnt & Hlp & Hcomp).
    pose proof (root_id0 o keys vals T r Hb Hr) as Hid0.
    unfold mge_path, ge_path. rewrite Hr. destruct (m_nodetype m) as [nt|]; [|congruence].
    rewrite Hcomp. destruct (t_innerpfx T && t_leafpfx T) eqn:Ec; [|split; [reflexivity|discriminate]].
    apply andb_true_iff in Ec. destruct Ec as [_ Elp]. rewrite Elp.
    cbv zeta.
    pose proof (mge_down_sim (nibs q) (nibs_lt q) r (subtrees_self r) fuel 0 [] None Hfuel) as Hd.
    rewrite Hid0 in Hd. cbn [map rc_ids] in Hd. rewrite Hd. unfold bind at 1.
    pose proof (ge_down_in r (nibs q) (length (nibs q)) r (subtrees_self r) 0 [] None (Forall_nil _) Logic.I) as Hin.
    destruct (ge_down (nibs q) (length (nibs q)) r 0 [] None) as [[path eq] rc].
    cbn [gst_ids gst_in] in *. destruct Hin as (Hpin & Heqin & Hrcin).
    destruct (m_leafpfx m) as [lp|] eqn:Emlp; [|destruct Hlp as [Hl1 _]; rewrite (Hl1 eq_refl) in Elp; discriminate].
    (* the fallback *)
    assert (Hfb : (match rc_ids rc with
                   | None => Ok ([], false)
                   | Some (rid, rpl) => do lp0 <- mleftmost_path fuel m vs rid; Ok (firstn rpl (map tree_id path) ++ lp0, false)
                   end) =
                  Ok (map tree_id (fst (match rc with None => ([], false) | Some (rid, rpl) => (firstn rpl path ++ leftmost_path rid, false) end)),
                      snd (match rc with None => (@nil tree, false) | Some (rid, rpl) => (firstn rpl path ++ leftmost_path rid, false) end)) /\
                  Forall (fun t => In t (subtrees r))
                         (fst (match rc with None => (@nil tree, false) | Some (rid, rpl) => (firstn rpl path ++ leftmost_path rid, false) end))).
    { destruct rc as [[rid rpl]|]; cbn [rc_ids fst snd]; [|split; [reflexivity|constructor]].
      cbn [rc_in] in Hrcin.
      rewrite (mleftmost_path_sim rid Hrcin fuel) by (pose proof (height_sub r rid Hrcin); lia).
      unfold bind. rewrite map_app, firstn_map. split; [reflexivity|].
      apply Forall_app. split.
      - rewrite Forall_forall in *. intros x Hx. apply Hpin. eapply In_firstn_in; exact Hx.
      - rewrite Forall_forall. intros x Hx. eapply subtrees_trans; [exact Hrcin|apply leftmost_path_in; exact Hx]. }
    destruct Hfb as [Hfb1 Hfb2].
    destruct eq as [[[c i] v]|]; cbn [ids_of ge_finish].
    - rewrite (sm_sess_tail c v Heqin). unfold bind at 1 2.
      assert (map tree_id path ++ [tree_id c] = map tree_id (path ++ [c])) as Hpc by (rewrite map_app; reflexivity).
      assert (Forall (fun t => In t (subtrees r)) (path ++ [c])) as Hpcin
        by (apply Forall_app; split; [exact Hpin|constructor; [exact Heqin|constructor]]).
      destruct (bytes_cmp (skipn (i / 2) q) match sess_tail c v with Some t => t | None => [] end).
      + unfold bind. cbn [fst snd]. rewrite Hpc. split; [reflexivity|]. intros p e H. injection H as <- <-. exact Hpcin.
      + unfold bind. cbn [fst snd]. rewrite Hpc. split; [reflexivity|]. intros p e H. injection H as <- <-. exact Hpcin.
      + rewrite Hfb1. unfold bind. split; [reflexivity|]. intros p e H. injection H as H. rewrite H in Hfb2. exact Hfb2.
    - rewrite Hfb1. unfold bind. split; [reflexivity|]. intros p e H. injection H as H. rewrite H in Hfb2. exact Hfb2.
  Qed.
End OneTrie.
