(* Semver.v - the fragment of github.com/blang/semver v3.5.1 that
   github.com/openacid/low/vers.IsCompatible / vers.Check use:
     semver.Parse(ver)   in full (major.minor.patch[-pre][+build]);
     semver.ParseRange   for the fragment "each spec is [==|=|]<version> without
                         blanks and without the wildcard letter x", where the
                         range is the OR of equalities.  Anything else is
                         [RangeOutside]; nothing is guessed about it.
   Strings are [list byte]; all syntax characters are ASCII and the Go code
   classifies bytes >= 0x80 (any rune outside the listed sets) as invalid.
   Model file: definitions only. *)
From Coq Require Import List NArith Bool.
From Coq.Strings Require Import Byte.
From Slim Require Import Varint.
Import ListNotations.
Open Scope N_scope.

Definition str := list byte.

Definition c_dot : byte := x2e.
Definition c_plus : byte := x2b.
Definition c_dash : byte := x2d.
Definition c_space : byte := x20.
Definition c_x : byte := x78.
Definition c_eq : byte := x3d.
Definition c_zero : byte := x30.

Definition is_digit (b : byte) : bool := let n := Byte.to_N b in (48 <=? n) && (n <=? 57).
(* alphas = a-z A-Z and '-' *)
Definition is_alpha (b : byte) : bool :=
  let n := Byte.to_N b in ((65 <=? n) && (n <=? 90)) || ((97 <=? n) && (n <=? 122)) || (n =? 45).
Definition is_alphanum (b : byte) : bool := is_alpha b || is_digit b.

Fixpoint str_eqb (a b : str) : bool :=
  match a, b with
  | [], [] => true
  | x :: a', y :: b' => Byte.eqb x y && str_eqb a' b'
  | _, _ => false
  end.

(* split at the first occurrence of sep *)
Fixpoint split_first (sep : byte) (s : str) : option (str * str) :=
  match s with
  | [] => None
  | x :: r => if Byte.eqb x sep then Some ([], r)
              else match split_first sep r with
                   | Some (a, b) => Some (x :: a, b)
                   | None => None
                   end
  end.

(* strings.Split(s, sep): always at least one part *)
Fixpoint split_all (sep : byte) (s : str) : list str :=
  match s with
  | [] => [[]]
  | x :: r => if Byte.eqb x sep then [] :: split_all sep r
              else match split_all sep r with
                   | h :: t => (x :: h) :: t
                   | [] => [[x]]
                   end
  end.

(* strconv.ParseUint(s, 10, 64) on a string of digits: empty and >= 2^64 are errors *)
Fixpoint digits_value (acc : N) (s : str) : N :=
  match s with
  | [] => acc
  | x :: r => digits_value (acc * 10 + (Byte.to_N x - 48)) r
  end.
Definition has_leading_zeroes (s : str) : bool :=
  match s with
  | x :: _ :: _ => Byte.eqb x c_zero
  | _ => false
  end.
(* containsOnly(s, numbers) && !hasLeadingZeroes(s) && ParseUint ok *)
Definition numeric_part (s : str) : option N :=
  if negb (forallb is_digit s) then None
  else if has_leading_zeroes s then None
  else match s with
       | [] => None
       | _ => let v := digits_value 0 s in if v <? two64 then Some v else None
       end.

Inductive prv := PRnum (n : N) | PRstr (s : str).

(* NewPRVersion *)
Definition parse_pr (s : str) : option prv :=
  match s with
  | [] => None
  | _ =>
    if forallb is_digit s then
      if has_leading_zeroes s then None
      else let v := digits_value 0 s in if v <? two64 then Some (PRnum v) else None
    else if forallb is_alphanum s then Some (PRstr s)
    else None
  end.

Definition parse_build (s : str) : option str :=
  match s with
  | [] => None
  | _ => if forallb is_alphanum s then Some s else None
  end.

Fixpoint map_opt {A B} (f : A -> option B) (l : list A) : option (list B) :=
  match l with
  | [] => Some []
  | x :: r => match f x with
              | None => None
              | Some y => match map_opt f r with None => None | Some ys => Some (y :: ys) end
              end
  end.

Record version := mkVersion {
  v_major : N; v_minor : N; v_patch : N;
  v_pre : list prv;
  v_build : list str
}.

(* semver.Parse *)
Definition parse_version (s : str) : option version :=
  match s with
  | [] => None
  | _ =>
    match split_first c_dot s with
    | None => None
    | Some (p0, r1) =>
      match split_first c_dot r1 with
      | None => None
      | Some (p1, p2) =>
        match numeric_part p0, numeric_part p1 with
        | Some major, Some minor =>
          let '(ps, build) := match split_first c_plus p2 with
                              | Some (a, b) => (a, split_all c_dot b)
                              | None => (p2, [])
                              end in
          let '(ps, pre) := match split_first c_dash ps with
                            | Some (a, b) => (a, split_all c_dot b)
                            | None => (ps, [])
                            end in
          match numeric_part ps, map_opt parse_pr pre, map_opt parse_build build with
          | Some patch, Some pre', Some build' => Some (mkVersion major minor patch pre' build')
          | _, _, _ => None
          end
        | _, _ => None
        end
      end
    end
  end.

(* PRVersion.Compare == 0 *)
Definition prv_eqb (a b : prv) : bool :=
  match a, b with
  | PRnum x, PRnum y => x =? y
  | PRstr x, PRstr y => str_eqb x y
  | _, _ => false
  end.
Fixpoint prvs_eqb (a b : list prv) : bool :=
  match a, b with
  | [], [] => true
  | x :: a', y :: b' => prv_eqb x y && prvs_eqb a' b'
  | _, _ => false
  end.
(* Version.Compare(o) == 0: build metadata takes no part *)
Definition v_eqb (v o : version) : bool :=
  (v_major v =? v_major o) && (v_minor v =? v_minor o) && (v_patch v =? v_patch o) &&
  prvs_eqb (v_pre v) (v_pre o).

(* ---- ParseRange, fragment ---------------------------------------------------- *)
Inductive range :=
| RangeOutside                 (* not in the modelled fragment *)
| RangeError                   (* ParseRange returns an error: IsCompatible is false for every version *)
| RangeEqAny (vs : list version).

Definition is_ascii (b : byte) : bool := Byte.to_N b <? 128.

Fixpoint take_until_digit (s : str) : str :=
  match s with
  | [] => []
  | x :: r => if is_digit x then [] else x :: take_until_digit r
  end.
Fixpoint drop_until_digit (s : str) : str :=
  match s with
  | [] => []
  | x :: r => if is_digit x then s else drop_until_digit r
  end.

(* one spec.  None: outside the fragment; Some None: in the fragment but the
   version does not parse (ParseRange error); Some (Some v): "== v".
   splitComparatorVersion cuts at the first digit; the comparator must be one of
   "==", "=", "" (parseComparator: compEQ).  Specs shorter than 2 bytes are
   dropped by splitAndTrim and are outside the fragment. *)
Definition parse_spec (s : str) : option (option version) :=
  if negb (forallb is_ascii s) then None
  else if existsb (fun b => Byte.eqb b c_space || Byte.eqb b c_x) s then None
  else
    match s with
    | [] | [_] => None
    | _ =>
      let op := take_until_digit s in
      match drop_until_digit s with
      | [] => None
      | vs => if str_eqb op [c_eq; c_eq] || str_eqb op [c_eq] || str_eqb op [] then Some (parse_version vs)
              else None
      end
    end.

Fixpoint parse_specs (specs : list str) : range :=
  match specs with
  | [] => RangeEqAny []
  | s :: r =>
    match parse_spec s with
    | None => RangeOutside
    | Some ov =>
      match parse_specs r with
      | RangeOutside => RangeOutside
      | RangeError => RangeError
      | RangeEqAny vs => match ov with None => RangeError | Some v => RangeEqAny (v :: vs) end
      end
    end
  end.

(* ParseRange(strings.Join(specs, " || ")); the empty list joins to "" which is a range error *)
Definition parse_range (specs : list str) : range :=
  match specs with
  | [] => RangeError
  | _ => parse_specs specs
  end.

(* vers.IsCompatible(ver, specs).  None: specs outside the modelled fragment. *)
Definition is_compatible (ver : str) (specs : list str) : option bool :=
  match parse_version ver with
  | None => Some false
  | Some v =>
    match parse_range specs with
    | RangeOutside => None
    | RangeError => Some false
    | RangeEqAny vs => Some (existsb (v_eqb v) vs)
    end
  end.

Definition specs_in_fragment (specs : list str) : bool :=
  match parse_range specs with RangeEqAny _ => true | _ => false end.
