(* OrderProofs.v - order structure of built tries:
   - the kept entries of a subset are the concatenation of the kept entries of
     its children, in label order            (kept_partition)
   - rightmost / leftmost of a subtree is the leaf of its last / first kept entry
   - entries under a smaller (greater) label are smaller (greater)
   - searchID splits the kept entries around the query (search_down_split),
     for queries that are entries of the subset (any mode) and for arbitrary
     queries when inner prefixes are stored. *)
From Slim Require Import Base Keys KeysProofs ListFacts Model TrieInv BuildProofs QueryProofs ConsistProofs.
From Coq Require Import Sorting.Sorted ZifyNat ZifyBool.

Arguments Nat.div : simpl never.
Arguments Nat.modulo : simpl never.

(* ---------- generic: grouping a sorted list by its key ---------- *)
Lemma filter_filter_comm {A} (f g : A -> bool) l : filter f (filter g l) = filter g (filter f l).
Proof.
  induction l as [|x l IH]; [reflexivity|]. cbn [filter].
  destruct (g x) eqn:G, (f x) eqn:F; cbn [filter]; rewrite ?G, ?F, IH; reflexivity.
Qed.

Lemma dedup_adj_head : forall l v, exists D, dedup_adj (v :: l) = v :: D.
Proof.
  induction l as [|c l IH]; intros v; [exists []; reflexivity|].
  cbn [dedup_adj]. destruct (Nat.eqb_spec v c) as [->|]; [apply IH|eexists; reflexivity].
Qed.

Lemma dedup_adj_cons2 a b l :
  dedup_adj (a :: b :: l) = if Nat.eqb a b then dedup_adj (b :: l) else a :: dedup_adj (b :: l).
Proof. reflexivity. Qed.

Lemma group_by_sorted {A} (f : A -> nat) (l : list A) :
  StronglySorted (fun a b => f a <= f b) l ->
  flat_map (fun k => filter (fun x => f x =? k) l) (dedup_adj (map f l)) = l.
Proof.
  induction 1 as [|a r Hs IH Hf]; [reflexivity|].
  rewrite Forall_forall in Hf.
  destruct r as [|b r']; [cbn; rewrite Nat.eqb_refl; reflexivity|].
  destruct (dedup_adj_head (map f r') (f b)) as (D0 & HD0).
  change (f b :: map f r') with (map f (b :: r')) in HD0.
  assert (Hsd : StronglySorted lt (f b :: D0)).
  { rewrite <- HD0. apply dedup_adj_sorted.
    eapply (SS_map (fun x y => f x <= f y)); [intros ? ? H; exact H|exact Hs]. }
  assert (Hgt : forall k, In k D0 -> f b < k).
  { inversion Hsd as [|? ? _ Hlt]; subst. rewrite Forall_forall in Hlt. exact Hlt. }
  assert (Hab : f a <= f b) by (apply Hf; left; reflexivity).
  rewrite HD0 in IH. cbn [flat_map] in IH.
  change (map f (a :: b :: r')) with (f a :: f b :: map f r').
  rewrite dedup_adj_cons2. change (f b :: map f r') with (map f (b :: r')). rewrite HD0.
  (* entries of the tail never have a's key unless it is b's *)
  assert (Hskip : forall k, f a < k -> filter (fun x => f x =? k) (a :: b :: r') = filter (fun x => f x =? k) (b :: r')).
  { intros k Hk. cbn [filter]. destruct (Nat.eqb_spec (f a) k); [lia|reflexivity]. }
  destruct (Nat.eqb_spec (f a) (f b)) as [Heq|Hne].
  - cbn [flat_map].
    assert (filter (fun x => f x =? f b) (a :: b :: r') = a :: filter (fun x => f x =? f b) (b :: r')) as ->.
    { cbn [filter]. rewrite Heq, Nat.eqb_refl. reflexivity. }
    cbn [app]. f_equal.
    etransitivity; [|exact IH]. f_equal.
    apply flat_map_ext_in. intros k Hk. apply Hskip. specialize (Hgt k Hk). lia.
  - cbn [flat_map].
    assert (filter (fun x => f x =? f a) (a :: b :: r') = [a]) as ->.
    { cbn [filter]. rewrite Nat.eqb_refl. f_equal.
      change (filter (fun x => f x =? f a) (b :: r') = []). apply filter_all_false.
      rewrite Forall_forall. intros y Hy. apply Nat.eqb_neq.
      inversion Hs as [|? ? _ Hfb]; subst. rewrite Forall_forall in Hfb.
      destruct Hy as [<-|Hy]; [lia|]. specialize (Hfb y Hy). lia. }
    cbn [app]. f_equal.
    etransitivity; [|exact IH].
    rewrite (Hskip (f b)) by lia. f_equal.
    apply flat_map_ext_in. intros k Hk. apply Hskip. specialize (Hgt k Hk). lia.
Qed.

(* ---------- kept entries ---------- *)
Definition kept (s : subset) : list ent := filter e_keep (s_ents s).
Definition leaf_eidx (t : tree) : option nat :=
  match t with Leaf _ _ _ e => Some e | Inner _ _ _ _ _ _ => None end.

Definition mk_kid (s : subset) (big : bool) (lb : nat) : subset :=
  {| s_ents := filter (fun e => Nat.eqb (ent_label big (sub_w big s) e) lb) (s_ents s);
     s_from := sub_w big s + label_width big lb |}.

Lemma if_kids_mk o s big labels kids : InnerFacts o s big labels kids -> kids = map (mk_kid s big) labels.
Proof. intros F. exact (if_kids _ _ _ _ _ F). Qed.

Lemma kept_partition o s big labels kids :
  SubInv s -> InnerFacts o s big labels kids -> kept s = flat_map kept kids.
Proof.
  intros I F. rewrite (if_kids_mk _ _ _ _ _ F), (if_labels _ _ _ _ _ F).
  unfold kept at 1.
  set (lab := ent_label big (sub_w big s)).
  pose proof (labels_mono big s I (if_two _ _ _ _ _ F)) as Hmono.
  pose proof (group_by_sorted lab (filter e_keep (s_ents s)) (SS_filter _ _ _ Hmono)) as G.
  rewrite <- G at 1. rewrite flat_map_map.
  apply flat_map_ext. intros lb. unfold kept, mk_kid. cbn [s_ents]. apply filter_filter_comm.
Qed.

Lemma kept_nonempty s : SubInv s -> kept s <> [].
Proof.
  intros I E. destruct (si_kept s I) as (e & He & Hk).
  assert (In e (kept s)) as H by (apply filter_In; tauto). rewrite E in H. exact H.
Qed.

Lemma kept_singleton s e : SubInv s -> s_ents s = [e] -> kept s = [e].
Proof.
  intros I Hs. destruct (si_kept s I) as (e' & He' & Hk). rewrite Hs in He'. destruct He' as [<-|[]].
  unfold kept. rewrite Hs. cbn. rewrite Hk. reflexivity.
Qed.

(* ---------- children paired with their subsets ---------- *)
Lemma kids_match_map (P : tree -> subset -> Prop) (g : nat -> subset) ch :
  kids_match P ch (map g (map fst ch)) <-> Forall (fun p => P (snd p) (g (fst p))) ch.
Proof.
  induction ch as [|[x c] r IH]; cbn; [split; [constructor|trivial]|].
  rewrite IH. split; [intros [H1 H2]; constructor; assumption|intros H; inversion H; subst; split; assumption].
Qed.

Record ChildOK (o : opts) (s : subset) (big : bool) (labels : list nat) (p : nat * tree) : Prop := {
  co_in : In (fst p) labels;
  co_trie : trie_of o (snd p) (mk_kid s big (fst p));
  co_inv : SubInv (mk_kid s big (fst p))
}.

Lemma children_ok o s big labels kids ch :
  SubInv s -> InnerFacts o s big labels kids -> map fst ch = labels -> kids_match (trie_of o) ch kids ->
  Forall (ChildOK o s big labels) ch.
Proof.
  intros I F Hfst Hkm. rewrite (if_kids_mk _ _ _ _ _ F), <- Hfst in Hkm. apply kids_match_map in Hkm.
  rewrite Forall_forall in *. intros [x c] Hin. specialize (Hkm _ Hin). cbn [fst snd] in *.
  assert (In x labels) as Hx by (rewrite <- Hfst; apply (in_map fst) in Hin; exact Hin).
  constructor; cbn [fst snd]; [exact Hx|exact Hkm|eapply kid_inv; eassumption].
Qed.

(* ---------- leftmost / rightmost ---------- *)
Lemma leftmost_first o : forall t s, trie_of o t s -> SubInv s ->
  exists x, hd_opt (kept s) = Some x /\ leaf_eidx (leftmost t) = Some (e_idx x).
Proof.
  induction t as [id ord tail eidx|id big step pfx fc ch IH] using tree_ind'; intros s Ht I.
  - cbn [trie_of] in Ht. destruct Ht as (e & Hs & _ & ->). exists e. rewrite (kept_singleton s e I Hs). split; reflexivity.
  - cbn [trie_of] in Ht. destruct Ht as (ib & labels & kids & b' & Hp & Hfst & Hkm).
    pose proof (inner_facts _ _ _ _ _ _ _ _ _ I Hp) as F.
    pose proof (children_ok o s big labels kids ch I F Hfst Hkm) as Hch.
    rewrite (kept_partition o s big labels kids I F), (if_kids_mk _ _ _ _ _ F), <- Hfst.
    destruct ch as [|[x c] r]; [exfalso; apply (if_nonempty _ _ _ _ _ F); rewrite <- Hfst; reflexivity|].
    inversion Hch as [|? ? Hc _]; subst. inversion IH as [|? ? IHc _]; subst. cbn [fst snd] in *.
    destruct (IHc _ (co_trie _ _ _ _ _ Hc) (co_inv _ _ _ _ _ Hc)) as (y & Hy & Hl).
    exists y. cbn [leftmost map flat_map]. split; [|exact Hl].
    cbn [fst] in Hy |- *. destruct (kept (mk_kid s big x)) as [|k0 kr]; [cbn in Hy; discriminate|]. cbn in Hy |- *. exact Hy.
Qed.

Lemma last_opt_app {A} (a b : list A) : b <> [] -> last_opt (a ++ b) = last_opt b.
Proof.
  intros Hb. induction a as [|x a IH]; [reflexivity|].
  cbn [app]. destruct (a ++ b) as [|y r] eqn:E; [destruct a; [cbn in E; congruence|discriminate]|].
  cbn [last_opt]. exact IH.
Qed.

Lemma last_opt_some {A} (l : list A) : l <> [] -> exists x, last_opt l = Some x.
Proof.
  induction l as [|a l IH]; [congruence|]. intros _. destruct l as [|b l']; [exists a; reflexivity|].
  destruct IH as (x & Hx); [discriminate|]. exists x. exact Hx.
Qed.

Lemma flat_map_app_last {A B} (f : A -> list B) l x : flat_map f (l ++ [x]) = flat_map f l ++ f x.
Proof. rewrite flat_map_app. cbn. rewrite app_nil_r. reflexivity. Qed.

Lemma rightmost_last o : forall t s, trie_of o t s -> SubInv s ->
  exists x, last_opt (kept s) = Some x /\ leaf_eidx (rightmost t) = Some (e_idx x).
Proof.
  induction t as [id ord tail eidx|id big step pfx fc ch IH] using tree_ind'; intros s Ht I.
  - cbn [trie_of] in Ht. destruct Ht as (e & Hs & _ & ->). exists e. rewrite (kept_singleton s e I Hs). split; reflexivity.
  - cbn [trie_of] in Ht. destruct Ht as (ib & labels & kids & b' & Hp & Hfst & Hkm).
    pose proof (inner_facts _ _ _ _ _ _ _ _ _ I Hp) as F.
    pose proof (children_ok o s big labels kids ch I F Hfst Hkm) as Hch.
    rewrite (kept_partition o s big labels kids I F), (if_kids_mk _ _ _ _ _ F), <- Hfst.
    assert (ch <> []) as Hne by (intros ->; apply (if_nonempty _ _ _ _ _ F); rewrite <- Hfst; reflexivity).
    destruct (exists_last Hne) as (ch' & [x c] & ->).
    rewrite rightmost_inner.
    rewrite Forall_forall in Hch, IH.
    assert (In (x, c) (ch' ++ [(x, c)])) as Hin by (apply in_or_app; right; left; reflexivity).
    pose proof (Hch _ Hin) as Hc. cbn [fst snd] in *.
    destruct (IH _ Hin _ (co_trie _ _ _ _ _ Hc) (co_inv _ _ _ _ _ Hc)) as (y & Hy & Hl). cbn [snd] in *.
    exists y. split; [|exact Hl].
    rewrite map_app, map_app. cbn [map fst]. rewrite flat_map_app_last.
    rewrite last_opt_app; [exact Hy|]. apply kept_nonempty. exact (co_inv _ _ _ _ _ Hc).
Qed.

(* ---------- order facts ---------- *)
Lemma lex_total a b : lex_cmp a b = Lt \/ a = b \/ lex_cmp b a = Lt.
Proof.
  destruct (lex_cmp a b) eqn:E; [right; left; apply lex_cmp_eq; exact E|left; reflexivity|].
  right; right. rewrite lex_cmp_antisym, E. reflexivity.
Qed.

Lemma label_lt_lex big a b w :
  Forall (fun x => x < 16) a -> Forall (fun x => x < 16) b ->
  firstn w a = firstn w b -> label_at big a w < label_at big b w -> lex_cmp a b = Lt.
Proof.
  intros Fa Fb Hp Hl. destruct (lex_total a b) as [H|[H|H]]; [exact H|subst; lia|].
  pose proof (label_mono big b a w Fb Fa (eq_sym Hp) H). lia.
Qed.

Lemma lex_firstn_lt : forall n x y, lex_cmp (firstn n x) (firstn n y) = Lt -> lex_cmp x y = Lt.
Proof.
  induction n as [|n IH]; intros x y H; [cbn in H; discriminate|].
  destruct x as [|a x], y as [|b y]; cbn in H |- *; try discriminate; try reflexivity.
  destruct (Nat.compare a b); try discriminate; [apply IH; exact H|reflexivity].
Qed.

Lemma lex_firstn_gt : forall n x y, lex_cmp (firstn n x) (firstn n y) = Gt -> lex_cmp x y = Gt.
Proof.
  induction n as [|n IH]; intros x y H; [cbn in H; discriminate|].
  destruct x as [|a x], y as [|b y]; cbn in H |- *; try discriminate; try reflexivity.
  destruct (Nat.compare a b); try discriminate; [apply IH; exact H|reflexivity].
Qed.

(* ---------- agreement of a query with a subset ---------- *)
Definition agree (s : subset) (n : nat) (qn : list nat) : Prop :=
  n <= length qn /\ forall a, In a (s_ents s) -> firstn n (e_nibs a) = firstn n qn.

Definition justified (o : opts) (s : subset) (qn : list nat) : Prop :=
  (exists e, In e (s_ents s) /\ e_nibs e = qn) \/ o_inner o = true.

Lemma firstn_le_agree {A} (a b : list A) n m : m <= n -> firstn n a = firstn n b -> firstn m a = firstn m b.
Proof.
  intros Hle H.
  assert (forall l : list A, firstn m l = firstn m (firstn n l)) as E
    by (intros l; rewrite firstn_firstn; f_equal; lia).
  rewrite (E a), (E b), H. reflexivity.
Qed.

Lemma advance3_cases o isbig s big step pfx labels kids b' qn :
  SubInv s ->
  process_subset o isbig s = Ok (DInner big step pfx labels kids, b') ->
  agree s (s_from s) qn -> justified o s qn ->
  (advance3 qn (length qn) (s_from s) step pfx = AEq (sub_w big s) /\ agree s (sub_w big s) qn) \/
  (advance3 qn (length qn) (s_from s) step pfx = ALt /\ forall a, In a (s_ents s) -> lex_cmp qn (e_nibs a) = Lt) \/
  (advance3 qn (length qn) (s_from s) step pfx = AGt /\ forall a, In a (s_ents s) -> lex_cmp (e_nibs a) qn = Lt).
Proof.
  intros I Hp [Hfl Hag] J. pose proof (process_inner_inv _ _ _ _ _ _ _ _ _ Hp) as Hinv. cbv zeta in Hinv.
  destruct Hinv as ((e0 & e1 & r & Es & Hpfx) & Hw & _ & _ & Hstep & _).
  set (w := sub_w big s) in *.
  assert (2 <= length (s_ents s)) as Htwo by (rewrite Es; cbn; lia).
  assert (In e0 (s_ents s)) as He0 by (rewrite Es; left; reflexivity).
  pose proof (sub_w_len big s e0 Htwo He0) as Hle0. fold w in Hle0.
  set (f := even_down (s_from s)) in *.
  assert (f <= s_from s) as Hf by apply even_down_le.
  set (p := firstn (w - f) (skipn f (e_nibs e0))) in *.
  assert (length p = w - f) as Lp by (unfold p; rewrite firstn_length, skipn_length; lia).
  assert (forall a, In a (s_ents s) -> firstn (w - f) (skipn f (e_nibs a)) = p) as Hpa.
  { intros a Ha. unfold p. apply firstn_skipn_agree; [apply sub_w_agree; assumption|lia]. }
  destruct J as [(e & He & Heq)|Hinner].
  - (* the query is an entry of the subset *)
    left. assert (agree s w qn) as Hagw.
    { split; [rewrite <- Heq; apply sub_w_len; assumption|].
      intros a Ha. rewrite <- Heq. apply sub_w_agree; assumption. }
    split; [|exact Hagw]. destruct Hagw as [Hwl _].
    unfold advance3. fold f. destruct (o_inner o && (0 <? w - s_from s)) eqn:Ec.
    + subst pfx. unfold cmp_upto. fold f. rewrite Lp. rewrite <- Heq, (Hpa e He), lex_cmp_refl. f_equal. lia.
    + subst pfx step. cbv zeta.
      assert (s_from s + (if o_inner o then 0 else w - s_from s) = w) as ->.
      { destruct (o_inner o); cbn [andb] in Ec; [|lia]. apply Nat.ltb_ge in Ec. lia. }
      destruct (Nat.ltb_spec (length qn) w); [lia|reflexivity].
  - (* inner prefixes are stored *)
    rewrite Hinner in Hpfx, Hstep. cbn [andb] in Hpfx. subst step.
    unfold advance3. fold f. destruct (0 <? w - s_from s) eqn:Ec; subst pfx.
    + unfold cmp_upto. fold f. rewrite Lp.
      assert (forall a, In a (s_ents s) -> firstn f (e_nibs a) = firstn f qn) as Hagf
        by (intros a Ha; eapply firstn_le_agree; [exact Hf|apply Hag; exact Ha]).
      destruct (lex_cmp (firstn (w - f) (skipn f qn)) p) eqn:Ecmp.
      * left. apply lex_cmp_eq in Ecmp.
        assert (w <= length qn) as Hwl.
        { assert (length (firstn (w - f) (skipn f qn)) = w - f) as L by (rewrite Ecmp; exact Lp).
          rewrite firstn_length, skipn_length in L. lia. }
        split; [f_equal; lia|]. split; [exact Hwl|].
        intros a Ha. replace w with (f + (w - f)) by lia. rewrite !firstn_add.
        rewrite (Hagf a Ha), (Hpa a Ha), Ecmp. reflexivity.
      * right; left. split; [reflexivity|]. intros a Ha.
        rewrite (lex_cmp_skipn f qn (e_nibs a)) by (symmetry; apply Hagf; exact Ha).
        apply (lex_firstn_lt (w - f)). rewrite (Hpa a Ha). exact Ecmp.
      * right; right. split; [reflexivity|]. intros a Ha.
        rewrite lex_cmp_antisym.
        rewrite (lex_cmp_skipn f qn (e_nibs a)) by (symmetry; apply Hagf; exact Ha).
        rewrite (lex_firstn_gt (w - f) (skipn f qn) (skipn f (e_nibs a))); [reflexivity|].
        rewrite (Hpa a Ha). exact Ecmp.
    + left. apply Nat.ltb_ge in Ec. assert (w = s_from s) as Ew by lia.
      cbv zeta. rewrite Nat.add_0_r. destruct (Nat.ltb_spec (length qn) (s_from s)); [lia|].
      rewrite Ew. split; [reflexivity|]. split; assumption.
Qed.

(* ---------- searchID splits the kept entries around the query ---------- *)
Section SearchSplit.
  Variable o : opts.
  Variable qn : list nat.
  Hypothesis q16 : Forall (fun x => x < 16) qn.
  Hypothesis qeven : Nat.even (length qn) = true.

  Definition lt_q (x : ent) : Prop := lex_cmp (e_nibs x) qn = Lt.
  Definition gt_q (x : ent) : Prop := lex_cmp qn (e_nibs x) = Lt.

  Definition Lok (lc' : option tree) (B : list ent) (lc : option tree) : Prop :=
    match last_opt B with
    | Some x => exists n, lc' = Some n /\ leaf_eidx (rightmost n) = Some (e_idx x)
    | None => lc' = lc
    end.
  Definition Rok (rc' : option tree) (A : list ent) (rc : option tree) : Prop :=
    match hd_opt A with
    | Some x => exists n, rc' = Some n /\ leaf_eidx (leftmost n) = Some (e_idx x)
    | None => rc' = rc
    end.

  (* the leaf the descent stopped at, for entry x *)
  Definition hit (x : ent) (c : tree) (i : nat) (v : bool) : Prop :=
    (exists id ord, c = Leaf id ord (leaf_tail o x i) (e_idx x)) /\
    i <= length qn /\ i <= length (e_nibs x) /\ firstn i (e_nibs x) = firstn i qn /\
    (v = false -> i = length qn /\ i = length (e_nibs x)).

  (* entries of a subset whose key is the query *)
  Definition mem (s : subset) (e : ent) : Prop := In e (s_ents s) /\ e_nibs e = qn.

  Definition Split (s : subset) (lc rc : option tree) (r : sres) : Prop :=
    exists B A, Lok (fst (fst r)) B lc /\ Rok (snd r) A rc /\ Forall lt_q B /\ Forall gt_q A /\
      match seq r with
      | None => kept s = B ++ A
      | Some (c, i, v) => exists x, kept s = B ++ x :: A /\ e_keep x = true /\ hit x c i v /\
                                    (forall e, mem s e -> x = e)
      end.

  (* the same statement for a list of kept entries that is not (yet) a subset's *)
  Definition SplitK (K : list ent) (m : ent -> Prop) (lc rc : option tree) (r : sres) : Prop :=
    exists B A, Lok (fst (fst r)) B lc /\ Rok (snd r) A rc /\ Forall lt_q B /\ Forall gt_q A /\
      match seq r with
      | None => K = B ++ A
      | Some (c, i, v) => exists x, K = B ++ x :: A /\ e_keep x = true /\ hit x c i v /\
                                    (forall e, m e -> x = e)
      end.

  Lemma kid_entries_lt s big lb :
    SubInv s -> agree s (sub_w big s) qn -> lb < label_at big qn (sub_w big s) ->
    Forall lt_q (kept (mk_kid s big lb)).
  Proof.
    intros I [_ Hag] Hlt. rewrite Forall_forall. intros a Ha. unfold kept, mk_kid in Ha. cbn [s_ents] in Ha.
    apply filter_In in Ha. destruct Ha as [Ha _]. apply filter_In in Ha. destruct Ha as [Ha Hl]. apply Nat.eqb_eq in Hl.
    pose proof (si_ok s I) as Hok. rewrite Forall_forall in Hok.
    unfold lt_q. apply (label_lt_lex big _ _ (sub_w big s)); [apply ent_ok_lt16; auto|exact q16|apply Hag; exact Ha|].
    unfold ent_label in Hl. lia.
  Qed.

  Lemma kid_entries_gt s big lb :
    SubInv s -> agree s (sub_w big s) qn -> label_at big qn (sub_w big s) < lb ->
    Forall gt_q (kept (mk_kid s big lb)).
  Proof.
    intros I [_ Hag] Hlt. rewrite Forall_forall. intros a Ha. unfold kept, mk_kid in Ha. cbn [s_ents] in Ha.
    apply filter_In in Ha. destruct Ha as [Ha _]. apply filter_In in Ha. destruct Ha as [Ha Hl]. apply Nat.eqb_eq in Hl.
    pose proof (si_ok s I) as Hok. rewrite Forall_forall in Hok.
    unfold gt_q. apply (label_lt_lex big _ _ (sub_w big s)); [exact q16|apply ent_ok_lt16; auto|symmetry; apply Hag; exact Ha|].
    unfold ent_label in Hl. lia.
  Qed.

  Lemma Lok_base prev done lc :
    match last_opt done with
    | Some x => exists n, prev = Some n /\ leaf_eidx (rightmost n) = Some (e_idx x)
    | None => prev = None
    end -> Lok (or_else prev lc) done lc.
  Proof.
    unfold Lok. destruct (last_opt done) as [x|].
    - intros (n & -> & H). exists n. split; [reflexivity|exact H].
    - intros ->. reflexivity.
  Qed.

  Lemma hd_opt_app {A} (a b : list A) : a <> [] -> hd_opt (a ++ b) = hd_opt a.
  Proof. destruct a; [congruence|reflexivity]. Qed.

  Lemma search_go_split s big labels lc rc kf :
    SubInv s -> agree s (sub_w big s) qn ->
    forall ch done prev,
      Forall (ChildOK o s big labels) ch ->
      StronglySorted lt (map fst ch) ->
      Forall lt_q done ->
      match last_opt done with
      | Some x => exists n, prev = Some n /\ leaf_eidx (rightmost n) = Some (e_idx x)
      | None => prev = None
      end ->
      (forall c lc' rc', In (label_at big qn (sub_w big s), c) ch ->
         Split (mk_kid s big (label_at big qn (sub_w big s))) lc' rc' (kf c lc' rc')) ->
      SplitK (done ++ flat_map (fun p => kept (mk_kid s big (fst p))) ch) (mem s) lc rc
            (search_go (label_at big qn (sub_w big s)) lc rc kf ch prev).
  Proof.
    intros I Hag. set (lbq := label_at big qn (sub_w big s)).
    induction ch as [|[x c] rest IH]; intros done prev Hch Hsort Hdone Hprev Hk.
    - cbn [search_go flat_map]. rewrite app_nil_r. exists done, []. cbn [fst snd seq].
      split; [apply Lok_base; exact Hprev|]. split; [reflexivity|]. split; [exact Hdone|]. split; [constructor|].
      unfold seq; cbn. rewrite app_nil_r. reflexivity.
    - inversion Hch as [|? ? Hc Hrest]; subst. cbn [map fst] in Hsort. inversion Hsort as [|? ? Hsort' Hgt]; subst.
      rewrite Forall_forall in Hgt. cbn [fst snd] in *.
      pose proof (co_inv _ _ _ _ _ Hc) as Ik. cbn [fst] in Ik.
      pose proof (kept_nonempty _ Ik) as Hkne.
      assert (Forall gt_q (flat_map (fun p => kept (mk_kid s big (fst p))) rest) \/ True) as _ by (right; exact Logic.I).
      assert (forall y, lbq <= x -> In y (map fst rest) -> Forall gt_q (kept (mk_kid s big y))) as Hrest_gt.
      { intros y Hle Hy. apply kid_entries_gt; [exact I|exact Hag|]. specialize (Hgt y Hy). fold lbq. lia. }
      assert (lbq <= x -> Forall gt_q (flat_map (fun p => kept (mk_kid s big (fst p))) rest)) as Hrest_all.
      { intros Hle. apply Forall_forall. intros a Ha. apply in_flat_map in Ha. destruct Ha as ([y c'] & Hy & Ha).
        cbn [fst] in Ha. assert (In y (map fst rest)) as Hy' by (apply (in_map fst) in Hy; exact Hy).
        pose proof (Hrest_gt y Hle Hy') as Hf. rewrite Forall_forall in Hf. apply Hf. exact Ha. }
      cbn [search_go flat_map fst].
      destruct (Nat.ltb_spec x lbq) as [Hlt|Hge].
      + (* this child is below the query: it becomes the left candidate *)
        rewrite app_assoc. apply IH; try assumption.
        * apply Forall_app. split; [exact Hdone|]. apply kid_entries_lt; assumption.
        * rewrite last_opt_app by exact Hkne.
          destruct (rightmost_last o c _ (co_trie _ _ _ _ _ Hc) Ik) as (y & Hy & Hl). cbn [fst snd] in *.
          rewrite Hy. exists c. split; [reflexivity|exact Hl].
        * intros c0 lc' rc' Hin. apply Hk. right. exact Hin.
      + destruct (Nat.eqb_spec x lbq) as [Heq|Hne].
        * (* the child of the query's label *)
          subst x.
          set (rc'' := match rest with (_, c') :: _ => Some c' | [] => rc end).
          destruct (Hk c (or_else prev lc) rc'' (or_introl eq_refl)) as (Bk & Ak & HL & HR & HB & HA & Hseq).
          exists (done ++ Bk), (Ak ++ flat_map (fun p => kept (mk_kid s big (fst p))) rest).
          split; [|split; [|split; [|split]]].
          -- unfold Lok in *. destruct Bk as [|b0 br].
             ++ rewrite app_nil_r. cbn [last_opt] in HL. rewrite HL. apply Lok_base. exact Hprev.
             ++ rewrite last_opt_app by discriminate.
                destruct (last_opt_some (b0 :: br)) as (y0 & Hy0); [discriminate|]. rewrite Hy0 in HL |- *. exact HL.
          -- unfold Rok in *. destruct Ak as [|a0 ar].
             ++ cbn [app hd_opt] in HR |- *. rewrite HR. unfold rc''.
                destruct rest as [|[y c'] rest']; [reflexivity|].
                cbn [flat_map fst]. inversion Hrest as [|? ? Hc' _]; subst.
                pose proof (co_inv _ _ _ _ _ Hc') as Ik'. cbn [fst] in Ik'.
                rewrite hd_opt_app by (apply kept_nonempty; exact Ik').
                destruct (leftmost_first o c' _ (co_trie _ _ _ _ _ Hc') Ik') as (z & Hz & Hl). cbn [fst snd] in *.
                rewrite Hz. exists c'. split; [reflexivity|exact Hl].
             ++ cbn [app hd_opt] in HR |- *. exact HR.
          -- apply Forall_app. split; assumption.
          -- apply Forall_app. split; [exact HA|]. apply Hrest_all. lia.
          -- destruct (seq (kf c (or_else prev lc) rc'')) as [[[c1 i1] v1]|].
             ++ destruct Hseq as (x0 & HK & Hkeep & Hhit & Hmem). exists x0. split; [|split; [assumption|split; [assumption|]]].
                ** rewrite HK. rewrite <- !app_assoc. reflexivity.
                ** intros e [He Heq]. apply Hmem. split; [|exact Heq].
                   unfold mk_kid. cbn [s_ents]. apply filter_In. split; [exact He|].
                   apply Nat.eqb_eq. unfold ent_label. rewrite Heq. reflexivity.
             ++ rewrite Hseq. rewrite <- !app_assoc. reflexivity.
        * (* no child carries the query's label: this child is the right candidate *)
          exists done, (kept (mk_kid s big x) ++ flat_map (fun p => kept (mk_kid s big (fst p))) rest).
          cbn [fst snd]. split; [apply Lok_base; exact Hprev|]. split; [|split; [exact Hdone|split]].
          -- unfold Rok. rewrite hd_opt_app by exact Hkne.
             destruct (leftmost_first o c _ (co_trie _ _ _ _ _ Hc) Ik) as (z & Hz & Hl). cbn [fst snd] in *.
             rewrite Hz. exists c. split; [reflexivity|exact Hl].
          -- apply Forall_app. split; [apply kid_entries_gt; [exact I|exact Hag|fold lbq; lia]|apply Hrest_all; lia].
          -- unfold seq. cbn. reflexivity.
  Qed.

  (* agreement carries over to the child of the query's label *)
  Lemma agree_kid s big lb :
    SubInv s -> 2 <= length (s_ents s) -> agree s (sub_w big s) qn ->
    lb = label_at big qn (sub_w big s) -> lb <> 0 ->
    agree (mk_kid s big lb) (sub_w big s + wsize big) qn.
  Proof.
    intros I Htwo [Hwl Hag] Hlb Hnz.
    pose proof (si_ok s I) as Hok. rewrite Forall_forall in Hok.
    set (w := sub_w big s) in *.
    assert (Hevq : big = true -> Nat.even (length qn - w) = true).
    { intros ->. pose proof (sub_w_even s) as H. fold w in H. rewrite Nat.even_sub by assumption. rewrite H, qeven. reflexivity. }
    split.
    - destruct (label_eq_firstn big qn qn w q16 q16 eq_refl) as (_ & H & _); [intros Hb; split; apply Hevq; exact Hb|reflexivity|lia|exact H].
    - intros a Ha. unfold mk_kid in Ha. cbn [s_ents] in Ha. apply filter_In in Ha. destruct Ha as [Ha Hl].
      apply Nat.eqb_eq in Hl. unfold ent_label in Hl. fold w in Hl.
      destruct (label_eq_firstn big (e_nibs a) qn w) as (H1 & _ & _); [apply ent_ok_lt16; auto|exact q16|apply Hag; exact Ha| |lia|lia|exact H1].
      intros Hb. split; [|apply Hevq; exact Hb]. subst big.
      pose proof (sub_w_even s) as H. fold w in H.
      pose proof (ent_ok_even a (Hok a Ha)). pose proof (sub_w_len true s a Htwo Ha) as Hl2. fold w in Hl2.
      rewrite Nat.even_sub by assumption. rewrite H, H0. reflexivity.
  Qed.

  Lemma search_down_split : forall t s,
    trie_of o t s -> SubInv s -> agree s (s_from s) qn -> justified o s qn ->
    forall lc rc, Split s lc rc (search_down qn (length qn) t (s_from s) lc rc).
  Proof.
    induction t as [id ord tail eidx|id big step pfx fc ch IH] using tree_ind'; intros s Ht I Hag J lc rc.
    - cbn [trie_of] in Ht. destruct Ht as (e & Hs & -> & ->).
      cbn [search_down]. exists [], []. cbn [fst snd]. unfold Lok, Rok, seq. cbn [last_opt hd_opt fst snd].
      split; [reflexivity|]. split; [reflexivity|]. split; [constructor|]. split; [constructor|].
      exists e. rewrite (kept_singleton s e I Hs). split; [reflexivity|].
      destruct (si_kept s I) as (e' & He' & Hk). rewrite Hs in He'. destruct He' as [<-|[]].
      split; [exact Hk|]. destruct Hag as [Hfl Hagf].
      assert (In e (s_ents s)) as He by (rewrite Hs; left; reflexivity).
      split; [|intros e2 [He2 _]; rewrite Hs in He2; destruct He2 as [<-|[]]; reflexivity].
      repeat split; eauto; try discriminate. apply (si_len s I); exact He.
    - pose proof Ht as Ht0. cbn [trie_of] in Ht. destruct Ht as (ib & labels & kids & b' & Hp & Hfst & Hkm).
      pose proof (inner_facts _ _ _ _ _ _ _ _ _ I Hp) as F.
      pose proof (children_ok o s big labels kids ch I F Hfst Hkm) as Hch.
      rewrite search_down_inner.
      destruct (advance3_cases _ _ _ _ _ _ _ _ _ qn I Hp Hag J) as [[Ea Hagw]|[[Ea Hall]|[Ea Hall]]]; rewrite Ea.
      + (* descend into the children *)
        pose proof (search_go_split s big labels lc rc
                      (fun c lc' rc' => if Nat.eqb (sub_w big s) (length qn) then (lc', Some (c, sub_w big s, false), rc')
                                        else search_down qn (length qn) c (sub_w big s + wsize big) lc' rc')
                      I Hagw ch [] None Hch) as G.
        cbn [app] in G.
        assert (kept s = flat_map (fun p => kept (mk_kid s big (fst p))) ch) as EK.
        { rewrite (kept_partition o s big labels kids I F), (if_kids_mk _ _ _ _ _ F), <- Hfst, !flat_map_map. reflexivity. }
        unfold Split. rewrite EK. apply G; clear G.
        * rewrite Hfst. apply (if_asc _ _ _ _ _ F).
        * constructor.
        * reflexivity.
        * intros c lc' rc' Hin.
          set (w := sub_w big s) in *. set (lbq := label_at big qn w) in *.
          rewrite Forall_forall in Hch. pose proof (Hch _ Hin) as Hc. cbn [fst snd] in Hc.
          pose proof (co_inv _ _ _ _ _ Hc) as Ik. pose proof (co_trie _ _ _ _ _ Hc) as Htc. cbn [fst snd] in Ik, Htc.
          destruct Hagw as [Hwl Hagw'].
          destruct (Nat.eqb_spec w (length qn)) as [Heq|Hne].
          -- (* the query ends at this node: end-of-key child *)
             assert (lbq = 0) as Hz by (apply (label_zero_iff big qn w Hwl); exact Heq).
             assert (exists n, nth_error labels n = Some 0) as (n & Hn).
             { apply In_nth_error. rewrite <- Hz. exact (co_in _ _ _ _ _ Hc). }
             destruct (label0_singleton o s big labels kids (mk_kid s big 0) n I F Hn) as (x0 & Hx0).
             { rewrite (if_kids_mk _ _ _ _ _ F), nth_error_map, Hn. reflexivity. }
             rewrite Hz in Htc, Ik |- *.
             destruct (singleton_leaf o c _ x0 Htc Hx0) as (id' & ord' & ->).
             exists [], []. cbn [fst snd]. unfold Lok, Rok, seq. cbn [last_opt hd_opt fst snd].
             split; [reflexivity|]. split; [reflexivity|]. split; [constructor|]. split; [constructor|].
             exists x0. rewrite (kept_singleton _ x0 Ik Hx0). split; [reflexivity|].
             destruct (si_kept _ Ik) as (e' & He' & Hk). rewrite Hx0 in He'. destruct He' as [<-|[]].
             split; [exact Hk|].
             assert (In x0 (s_ents s) /\ ent_label big w x0 = 0) as [Hx0s Hx0l].
             { assert (In x0 (s_ents (mk_kid s big 0))) as H by (rewrite Hx0; left; reflexivity).
               unfold mk_kid in H. cbn [s_ents] in H. apply filter_In in H. destruct H as [H1 H2]. apply Nat.eqb_eq in H2. auto. }
             assert (w = length (e_nibs x0)) as Hlen.
             { apply (label_zero_iff big (e_nibs x0) w); [apply sub_w_len; [apply (if_two _ _ _ _ _ F)|exact Hx0s]|exact Hx0l]. }
             unfold hit. cbn [mk_kid s_from label_width]. rewrite Nat.add_0_r. fold w.
             split; [|intros e2 [He2 _]; rewrite Hx0 in He2; destruct He2 as [<-|[]]; reflexivity].
             split; [eauto|]. split; [lia|]. split; [lia|]. split; [apply Hagw'; exact Hx0s|]. intros _. split; [exact Heq|exact Hlen].
          -- assert (lbq <> 0) as Hnz by (intros Hz; apply Hne; apply (label_zero_iff big qn w Hwl); exact Hz).
             assert (label_width big lbq = wsize big) as Hwd by (destruct lbq; [congruence|reflexivity]).
             assert (s_from (mk_kid s big lbq) = w + wsize big) as Hfk by (cbn [mk_kid s_from]; fold w; rewrite Hwd; reflexivity).
             rewrite <- Hfk. rewrite Forall_forall in IH. apply (IH _ Hin _ Htc Ik).
             ++ rewrite Hfk. apply agree_kid; [exact I|apply (if_two _ _ _ _ _ F)|split; assumption|reflexivity|exact Hnz].
             ++ destruct J as [(e & He & Heq)|Hinner]; [left|right; exact Hinner].
                exists e. split; [|exact Heq]. unfold mk_kid. cbn [s_ents]. apply filter_In. split; [exact He|].
                apply Nat.eqb_eq. unfold ent_label. rewrite Heq. reflexivity.
      + (* the query is below every entry of this subset *)
        exists [], (kept s). cbn [fst snd]. unfold Lok, seq. cbn [last_opt fst snd].
        split; [reflexivity|]. split; [|split; [constructor|split; [|reflexivity]]].
        * unfold Rok. destruct (leftmost_first o _ s Ht0 I) as (x & Hx & Hl). rewrite Hx. eexists. split; [reflexivity|exact Hl].
        * rewrite Forall_forall. intros a Ha. apply filter_In in Ha. apply Hall. tauto.
      + exists (kept s), []. cbn [fst snd]. unfold Rok, seq. cbn [hd_opt fst snd].
        split; [|split; [reflexivity|split; [|split; [constructor|rewrite app_nil_r; reflexivity]]]].
        * unfold Lok. destruct (rightmost_last o _ s Ht0 I) as (x & Hx & Hl). rewrite Hx. eexists. split; [reflexivity|exact Hl].
        * rewrite Forall_forall. intros a Ha. apply filter_In in Ha. apply Hall. tauto.
  Qed.
End SearchSplit.
