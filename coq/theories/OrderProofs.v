(* OrderProofs.v - order structure of built tries:
   - the kept entries of a subset are the concatenation of the kept entries of
     its children, in label order            (kept_partition)
   - rightmost / leftmost of a subtree is the leaf of its last / first kept entry
   - entries under a smaller (greater) label are smaller (greater)
   - searchID splits the kept entries around the query (search_down_split),
     for queries that are entries of the subset (any mode) and for arbitrary
     queries when inner prefixes are stored. *)
From Slim Require Import Base Keys KeysProofs ListFacts Model TrieInv BuildProofs QueryProofs ConsistProofs.
From Coq Require Import Sorting.Sorted ZifyNat ZifyBool.

Arguments Nat.div : simpl never.
Arguments Nat.modulo : simpl never.

(* ---------- generic: grouping a sorted list by its key ---------- *)
Lemma filter_filter_comm {A} (f g : A -> bool) l : filter f (filter g l) = filter g (filter f l).
Proof.
  induction l as [|x l IH]; [reflexivity|]. cbn [filter].
  destruct (g x) eqn:G, (f x) eqn:F; cbn [filter]; rewrite ?G, ?F, IH; reflexivity.
Qed.

Lemma dedup_adj_head : forall l v, exists D, dedup_adj (v :: l) = v :: D.
Proof.
  induction l as [|c l IH]; intros v; [exists []; reflexivity|].
  cbn [dedup_adj]. destruct (Nat.eqb_spec v c) as [->|]; [apply IH|eexists; reflexivity].
Qed.

Lemma dedup_adj_cons2 a b l :
  dedup_adj (a :: b :: l) = if Nat.eqb a b then dedup_adj (b :: l) else a :: dedup_adj (b :: l).
Proof. reflexivity. Qed.

Lemma group_by_sorted {A} (f : A -> nat) (l : list A) :
  StronglySorted (fun a b => f a <= f b) l ->
  flat_map (fun k => filter (fun x => f x =? k) l) (dedup_adj (map f l)) = l.
Proof.
  induction 1 as [|a r Hs IH Hf]; [reflexivity|].
  rewrite Forall_forall in Hf.
  destruct r as [|b r']; [cbn; rewrite Nat.eqb_refl; reflexivity|].
  destruct (dedup_adj_head (map f r') (f b)) as (D0 & HD0).
  change (f b :: map f r') with (map f (b :: r')) in HD0.
  assert (Hsd : StronglySorted lt (f b :: D0)).
  { rewrite <- HD0. apply dedup_adj_sorted.
    eapply (SS_map (fun x y => f x <= f y)); [intros ? ? H; exact H|exact Hs]. }
  assert (Hgt : forall k, In k D0 -> f b < k).
  { inversion Hsd as [|? ? _ Hlt]; subst. rewrite Forall_forall in Hlt. exact Hlt. }
  assert (Hab : f a <= f b) by (apply Hf; left; reflexivity).
  rewrite HD0 in IH. cbn [flat_map] in IH.
  change (map f (a :: b :: r')) with (f a :: f b :: map f r').
  rewrite dedup_adj_cons2. change (f b :: map f r') with (map f (b :: r')). rewrite HD0.
  (* entries of the tail never have a's key unless it is b's *)
  assert (Hskip : forall k, f a < k -> filter (fun x => f x =? k) (a :: b :: r') = filter (fun x => f x =? k) (b :: r')).
  { intros k Hk. cbn [filter]. destruct (Nat.eqb_spec (f a) k); [lia|reflexivity]. }
  destruct (Nat.eqb_spec (f a) (f b)) as [Heq|Hne].
  - cbn [flat_map].
    assert (filter (fun x => f x =? f b) (a :: b :: r') = a :: filter (fun x => f x =? f b) (b :: r')) as ->.
    { cbn [filter]. rewrite Heq, Nat.eqb_refl. reflexivity. }
    cbn [app]. f_equal.
    etransitivity; [|exact IH]. f_equal.
    apply flat_map_ext_in. intros k Hk. apply Hskip. specialize (Hgt k Hk). lia.
  - cbn [flat_map].
    assert (filter (fun x => f x =? f a) (a :: b :: r') = [a]) as ->.
    { cbn [filter]. rewrite Nat.eqb_refl. f_equal.
      change (filter (fun x => f x =? f a) (b :: r') = []). apply filter_all_false.
      rewrite Forall_forall. intros y Hy. apply Nat.eqb_neq.
      inversion Hs as [|? ? _ Hfb]; subst. rewrite Forall_forall in Hfb.
      destruct Hy as [<-|Hy]; [lia|]. specialize (Hfb y Hy). lia. }
    cbn [app]. f_equal.
    etransitivity; [|exact IH].
    rewrite (Hskip (f b)) by lia. f_equal.
    apply flat_map_ext_in. intros k Hk. apply Hskip. specialize (Hgt k Hk). lia.
Qed.

(* ---------- kept entries ---------- *)
Definition kept (s : subset) : list ent := filter e_keep (s_ents s).
Definition leaf_eidx (t : tree) : option nat :=
  match t with Leaf _ _ _ e => Some e | Inner _ _ _ _ _ _ => None end.

Definition mk_kid (s : subset) (big : bool) (lb : nat) : subset :=
  {| s_ents := filter (fun e => Nat.eqb (ent_label big (sub_w big s) e) lb) (s_ents s);
     s_from := sub_w big s + label_width big lb |}.

Lemma if_kids_mk o s big labels kids : InnerFacts o s big labels kids -> kids = map (mk_kid s big) labels.
Proof. intros F. exact (if_kids _ _ _ _ _ F). Qed.

Lemma kept_partition o s big labels kids :
  SubInv s -> InnerFacts o s big labels kids -> kept s = flat_map kept kids.
Proof.
  intros I F. rewrite (if_kids_mk _ _ _ _ _ F), (if_labels _ _ _ _ _ F).
  unfold kept at 1.
  set (lab := ent_label big (sub_w big s)).
  pose proof (labels_mono big s I (if_two _ _ _ _ _ F)) as Hmono.
  pose proof (group_by_sorted lab (filter e_keep (s_ents s)) (SS_filter _ _ _ Hmono)) as G.
  rewrite <- G at 1. rewrite flat_map_map.
  apply flat_map_ext. intros lb. unfold kept, mk_kid. cbn [s_ents]. apply filter_filter_comm.
Qed.

Lemma kept_nonempty s : SubInv s -> kept s <> [].
Proof.
  intros I E. destruct (si_kept s I) as (e & He & Hk).
  assert (In e (kept s)) as H by (apply filter_In; tauto). rewrite E in H. exact H.
Qed.

Lemma kept_singleton s e : SubInv s -> s_ents s = [e] -> kept s = [e].
Proof.
  intros I Hs. destruct (si_kept s I) as (e' & He' & Hk). rewrite Hs in He'. destruct He' as [<-|[]].
  unfold kept. rewrite Hs. cbn. rewrite Hk. reflexivity.
Qed.

(* ---------- children paired with their subsets ---------- *)
Lemma kids_match_map (P : tree -> subset -> Prop) (g : nat -> subset) ch :
  kids_match P ch (map g (map fst ch)) <-> Forall (fun p => P (snd p) (g (fst p))) ch.
Proof.
  induction ch as [|[x c] r IH]; cbn; [split; [constructor|trivial]|].
  rewrite IH. split; [intros [H1 H2]; constructor; assumption|intros H; inversion H; subst; split; assumption].
Qed.

Record ChildOK (o : opts) (s : subset) (big : bool) (labels : list nat) (p : nat * tree) : Prop := {
  co_in : In (fst p) labels;
  co_trie : trie_of o (snd p) (mk_kid s big (fst p));
  co_inv : SubInv (mk_kid s big (fst p))
}.

Lemma children_ok o s big labels kids ch :
  SubInv s -> InnerFacts o s big labels kids -> map fst ch = labels -> kids_match (trie_of o) ch kids ->
  Forall (ChildOK o s big labels) ch.
Proof.
  intros I F Hfst Hkm. rewrite (if_kids_mk _ _ _ _ _ F), <- Hfst in Hkm. apply kids_match_map in Hkm.
  rewrite Forall_forall in *. intros [x c] Hin. specialize (Hkm _ Hin). cbn [fst snd] in *.
  assert (In x labels) as Hx by (rewrite <- Hfst; apply (in_map fst) in Hin; exact Hin).
  constructor; cbn [fst snd]; [exact Hx|exact Hkm|eapply kid_inv; eassumption].
Qed.

(* ---------- leftmost / rightmost ---------- *)
Lemma leftmost_first o : forall t s, trie_of o t s -> SubInv s ->
  exists x, hd_opt (kept s) = Some x /\ leaf_eidx (leftmost t) = Some (e_idx x).
Proof.
  induction t as [id ord tail eidx|id big step pfx fc ch IH] using tree_ind'; intros s Ht I.
  - cbn [trie_of] in Ht. destruct Ht as (e & Hs & _ & ->). exists e. rewrite (kept_singleton s e I Hs). split; reflexivity.
  - cbn [trie_of] in Ht. destruct Ht as (ib & labels & kids & b' & Hp & Hfst & Hkm).
    pose proof (inner_facts _ _ _ _ _ _ _ _ _ I Hp) as F.
    pose proof (children_ok o s big labels kids ch I F Hfst Hkm) as Hch.
    rewrite (kept_partition o s big labels kids I F), (if_kids_mk _ _ _ _ _ F), <- Hfst.
    destruct ch as [|[x c] r]; [exfalso; apply (if_nonempty _ _ _ _ _ F); rewrite <- Hfst; reflexivity|].
    inversion Hch as [|? ? Hc _]; subst. inversion IH as [|? ? IHc _]; subst. cbn [fst snd] in *.
    destruct (IHc _ (co_trie _ _ _ _ _ Hc) (co_inv _ _ _ _ _ Hc)) as (y & Hy & Hl).
    exists y. cbn [leftmost map flat_map]. split; [|exact Hl].
    cbn [fst] in Hy |- *. destruct (kept (mk_kid s big x)) as [|k0 kr]; [cbn in Hy; discriminate|]. cbn in Hy |- *. exact Hy.
Qed.

Lemma last_opt_app {A} (a b : list A) : b <> [] -> last_opt (a ++ b) = last_opt b.
Proof.
  intros Hb. induction a as [|x a IH]; [reflexivity|].
  cbn [app]. destruct (a ++ b) as [|y r] eqn:E; [destruct a; [cbn in E; congruence|discriminate]|].
  cbn [last_opt]. exact IH.
Qed.

Lemma flat_map_app_last {A B} (f : A -> list B) l x : flat_map f (l ++ [x]) = flat_map f l ++ f x.
Proof. rewrite flat_map_app. cbn. rewrite app_nil_r. reflexivity. Qed.

Lemma rightmost_last o : forall t s, trie_of o t s -> SubInv s ->
  exists x, last_opt (kept s) = Some x /\ leaf_eidx (rightmost t) = Some (e_idx x).
Proof.
  induction t as [id ord tail eidx|id big step pfx fc ch IH] using tree_ind'; intros s Ht I.
  - cbn [trie_of] in Ht. destruct Ht as (e & Hs & _ & ->). exists e. rewrite (kept_singleton s e I Hs). split; reflexivity.
  - cbn [trie_of] in Ht. destruct Ht as (ib & labels & kids & b' & Hp & Hfst & Hkm).
    pose proof (inner_facts _ _ _ _ _ _ _ _ _ I Hp) as F.
    pose proof (children_ok o s big labels kids ch I F Hfst Hkm) as Hch.
    rewrite (kept_partition o s big labels kids I F), (if_kids_mk _ _ _ _ _ F), <- Hfst.
    assert (ch <> []) as Hne by (intros ->; apply (if_nonempty _ _ _ _ _ F); rewrite <- Hfst; reflexivity).
    destruct (exists_last Hne) as (ch' & [x c] & ->).
    rewrite rightmost_inner.
    rewrite Forall_forall in Hch, IH.
    assert (In (x, c) (ch' ++ [(x, c)])) as Hin by (apply in_or_app; right; left; reflexivity).
    pose proof (Hch _ Hin) as Hc. cbn [fst snd] in *.
    destruct (IH _ Hin _ (co_trie _ _ _ _ _ Hc) (co_inv _ _ _ _ _ Hc)) as (y & Hy & Hl). cbn [snd] in *.
    exists y. split; [|exact Hl].
    rewrite map_app, map_app. cbn [map fst]. rewrite flat_map_app_last.
    rewrite last_opt_app; [exact Hy|]. apply kept_nonempty. exact (co_inv _ _ _ _ _ Hc).
Qed.
