(* LegacyConvAnswerProofs.v - composition: the trie the loader's conversion produces
   from a three-array stream answers every indexed key exactly (the trie theorems
   C01/C02/C09 through LegacyCompose.legacy_answers, instantiated on the trie that
   LegacyConvMainProofs.legacy_conversion identifies). *)
From Slim Require Import Base Keys KeysProofs Model BuildProofs QueryProofs SearchProofs LegacyCompose
     LegacyConv LegacyConvMainProofs.

Theorem legacy_converted_answers ls keys vs ot :
  AdjSorted keys -> length vs = length keys -> old_write ls keys = Ok ot ->
  exists T views lidx,
    convert ot = Ok (views, lidx) /\ trie_views T views /\
    t_leaves T = loaded_leaves vs lidx /\ t_innerpfx T = false /\ t_leafpfx T = false /\
    forall i k, nth_error keys i = Some k ->
      (exists id, getid T k = Some id) /\
      (exists v, get T k = Ok (Found v) /\ val_bytes v = nth i vs []) /\
      (exists v, rangeget T k = Ok (Found v) /\ val_bytes v = nth i vs []) /\
      search T k = Ok (match i with 0 => None | S j => Some (stored T (Some vs) j) end,
                       Some (stored T (Some vs) i),
                       if S i <? length keys then Some (stored T (Some vs) (S i)) else None).
Proof.
  intros Hs Hl Hw.
  destruct (legacy_conversion ls keys (Some vs) ot Hs Hw) as (T & views & lidx & Hb & Hc & Hv & Hlv & Hi & Hp).
  exists T, views, lidx. repeat (split; [assumption|]).
  intros i k Hk. apply (legacy_answers false legacy_opts keys vs T i k eq_refl Hl Hb Hk).
Qed.
