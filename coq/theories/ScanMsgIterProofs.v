(* ScanMsgIterProofs.v - the iterator over the message (ScanMsg.mnew_iter / miter_next:
   a stack of frames holding first-child ids and decoded label bitmaps) simulates
   Scan.v's iterator over the tree (a stack of frames holding subtrees): the state of
   the one is the projection [miter_of] of the state of the other, as long as every
   frame of the tree-level stack is a node of the trie (invariant [iter_inv], which
   NewIter establishes and every call preserves). *)
From Slim Require Import Base Keys KeysProofs ListFacts Model TrieInv BuildProofs QueryProofs ConsistProofs
  Stat StatProofs GetIntProofs Flat FlatProofs BitmapRank BitmapRank2 Bits BitsWfProofs BitsFlatProofs Msg MsgProofs
  Scan ScanBasicProofs ScanMsg ScanMsgProofs.
From Coq Require Import Sorting.Sorted ZifyNat ZifyN ZifyBool.

(* ---------- projection of the tree-level state ---------- *)
Definition mframe_of (f : frame) : mframe :=
  {| mf_fc := match f_ch f with (_, c) :: _ => tree_id c | [] => 0 end;
     mf_big := f_big f; mf_labels := map fst (f_ch f); mf_idx := f_idx f;
     mf_ps := f_ps f; mf_pe := f_pe f; mf_le := f_le f |}.

Definition mmode_of (md : imode) : mimode :=
  match md with MNormal => MMNormal | MSingle c b => MMSingle (tree_id c) b end.

Definition miter_of (it : iter) : miter :=
  {| mit_mode := mmode_of (it_mode it); mit_stack := map mframe_of (it_stack it);
     mit_buf := it_buf it; mit_withv := it_withv it |}.

(* ---------- the invariant ---------- *)
Definition tree_in (T : trie) (t : tree) : Prop :=
  match t_root T with Some r => In t (subtrees r) | None => False end.

Definition frame_inv (T : trie) (f : frame) : Prop :=
  exists id step pfx fc, tree_in T (Inner id (f_big f) step pfx fc (f_ch f)).

Definition iter_inv (T : trie) (it : iter) : Prop :=
  Forall (frame_inv T) (it_stack it) /\
  match it_mode it with MSingle c _ => tree_in T c | MNormal => True end.

Lemma bind_Ok {A B} (a : A) (f : A -> res B) : bind (Ok a) f = f a.
Proof. reflexivity. Qed.
Lemma bind_Err {A B} (e : err) (f : A -> res B) : bind (Err e) f = Err e.
Proof. reflexivity. Qed.
Ltac sbind := repeat (rewrite bind_Ok || rewrite bind_Err); cbv beta.

(* ---------- buffer functions and next(): no hypothesis needed ---------- *)
Lemma nth_error_map_fst {A B} (l : list (A * B)) n :
  nth_error (map fst l) n = match nth_error l n with Some (a, _) => Some a | None => None end.
Proof. rewrite nth_error_map. destruct (nth_error l n) as [[a b]|]; reflexivity. Qed.

Lemma mappend_label_of f buf : mappend_label (mframe_of f) buf = append_label f buf.
Proof.
  unfold mappend_label, append_label. cbn [mframe_of mf_labels mf_idx mf_pe mf_big].
  rewrite nth_error_map_fst. destruct (nth_error (f_ch f) (f_idx f)) as [[lb c]|]; reflexivity.
Qed.

Lemma mappend_inner_prefix_of f pfx buf : mappend_inner_prefix (mframe_of f) pfx buf = append_inner_prefix f pfx buf.
Proof. reflexivity. Qed.

Lemma mappend_leaf_prefix_of f tail buf : mappend_leaf_prefix (mframe_of f) tail buf = append_leaf_prefix f tail buf.
Proof. reflexivity. Qed.

Lemma mnext_stack_of : forall stk, mnext_stack (map mframe_of stk) = map mframe_of (next_stack stk).
Proof.
  induction stk as [|f rest IH]; [reflexivity|].
  cbn [map mnext_stack next_stack]. cbn [mframe_of mf_labels mf_idx].
  rewrite nth_error_map_fst. destruct (nth_error (f_ch f) (S (f_idx f))) as [[lb c]|]; [reflexivity|exact IH].
Qed.

Lemma next_stack_inv T : forall stk, Forall (frame_inv T) stk -> Forall (frame_inv T) (next_stack stk).
Proof.
  induction stk as [|f rest IH]; intros H; [constructor|].
  pose proof (Forall_inv H) as Hf. pose proof (Forall_inv_tail H) as Hrest.
  cbn [next_stack]. destruct (nth_error (f_ch f) (S (f_idx f))) as [[lb c]|]; [|apply IH; exact Hrest].
  constructor; [|exact Hrest]. exact Hf.
Qed.

Lemma init_frame_facts t child bufidx f :
  init_frame t child bufidx = Ok f ->
  exists id big step pfx fc ch, t = Inner id big step pfx fc ch /\ f_big f = big /\ f_ch f = ch /\
    (child = None -> f_idx f = 0) /\ f_idx f < length ch.
Proof.
  destruct t as [id ord tail eidx|id big step pfx fc ch]; cbn [init_frame]; [discriminate|].
  intros H. apply bind_ok in H. destruct H as (idx & Hidx & H).
  destruct (nth_error ch idx) as [[lb c]|] eqn:En; [|discriminate]. injection H as <-.
  exists id, big, step, pfx, fc, ch. cbn [f_big f_ch f_idx]. repeat split.
  - intros ->. injection Hidx as <-. reflexivity.
  - apply nth_error_Some. rewrite En. discriminate.
Qed.

(* ---------- one built trie and its message ---------- *)
Section OneTrie.
  Variables (o : opts) (keys : list key) (vals : option (list (list byte))) (T : trie) (r : tree).
  Hypothesis Hb : build o keys vals = Ok T.
  Hypothesis Hr : t_root T = Some r.
  Variables (m : msg) (vs : vars).
  Hypothesis Em : encode_trie T = Val m.
  Hypothesis Ev : init_vars m = Val vs.

  Let Sview := sm_view o keys vals T r Hb Hr m vs Em Ev.
  Let Sleaf := sm_leaf o keys vals T r Hb Hr m vs Em Ev.
  Let Sinner := sm_inner o keys vals T r Hb Hr m vs Em Ev.
  Let Schild := sm_child o keys vals T r Hb Hr.

  Lemma tree_in_r t : tree_in T t <-> In t (subtrees r).
  Proof. unfold tree_in. rewrite Hr. tauto. Qed.

  (* the child a frame points at *)
  Lemma frame_child f j x c :
    frame_inv T f -> nth_error (f_ch f) j = Some (x, c) ->
    mf_fc (mframe_of f) + j = tree_id c /\ In c (subtrees r).
  Proof.
    intros (id & step & pfx & fc & Ht) En. apply tree_in_r in Ht.
    destruct (Schild _ _ _ _ _ _ _ _ _ Ht En) as [Hcid Hcin]. split; [|exact Hcin].
    cbn [mframe_of mf_fc].
    destruct (f_ch f) as [|[x0 c0] rest] eqn:Ech; [destruct j; discriminate En|].
    assert (nth_error ((x0, c0) :: rest) 0 = Some (x0, c0)) as E0 by reflexivity.
    destruct (Schild _ _ _ _ _ _ _ _ _ Ht E0) as [Hc0 _]. lia.
  Qed.

  (* scanStackElt.init *)
  Lemma minit_frame_sim t child bufidx : In t (subtrees r) ->
    minit_frame (view_of_tree t) (option_map tree_id child) bufidx =
    (do f <- init_frame t child bufidx; Ok (mframe_of f)) /\
    (forall f, init_frame t child bufidx = Ok f -> frame_inv T f).
  Proof.
    intros Ht. destruct t as [id ord tail eidx|id big step pfx fc ch]; [split; [reflexivity|discriminate]|].
    cbn [view_of_tree minit_frame init_frame].
    assert ((match option_map tree_id child with
             | Some c => if c <? fc then Err (EPanic 40) else Ok (c - fc)
             | None => Ok 0 end) =
            (match child with
             | Some c => if tree_id c <? fc then Err (EPanic 40) else Ok (tree_id c - fc)
             | None => Ok 0 end)) as -> by (destruct child; reflexivity).
    destruct (match child with
              | Some c => if tree_id c <? fc then Err (EPanic 40) else Ok (tree_id c - fc)
              | None => Ok 0 end) as [idx|e]; [|split; [reflexivity|discriminate]].
    sbind. rewrite nth_error_map_fst.
    destruct (nth_error ch idx) as [[lb c]|] eqn:En; [|split; [reflexivity|discriminate]].
    sbind. split.
    - f_equal. unfold mframe_of. cbn [f_ch f_big f_idx f_ps f_pe f_le]. f_equal.
      destruct ch as [|[x0 c0] rest]; [destruct idx; discriminate En|].
      assert (nth_error ((x0, c0) :: rest) 0 = Some (x0, c0)) as E0 by reflexivity.
      destruct (Schild _ _ _ _ _ _ _ _ _ Ht E0) as [Hc0 _]. cbv beta iota. lia.
    - intros f H. injection H as <-. exists id, step, pfx, fc. cbn [f_big f_ch]. apply tree_in_r. exact Ht.
  Qed.

  (* the walk to the first leaf below a child *)
  Lemma mdescend_first_sim : forall c, In c (subtrees r) ->
    forall fuel last buf stk, height c <= fuel -> Forall (frame_inv T) stk ->
    mdescend_first fuel m vs (tree_id c) (mframe_of last) buf (map mframe_of stk) =
    (do x <- descend_first c last buf stk; Ok (map mframe_of (fst (fst x)), snd (fst x), tree_id (snd x))) /\
    (forall x, descend_first c last buf stk = Ok x -> Forall (frame_inv T) (fst (fst x)) /\ In (snd x) (subtrees r)).
  Proof.
    induction c as [id ord tail eidx|id big step pfx fc ch IH] using tree_ind'; intros Hc fuel last buf stk Hfuel Hstk.
    - destruct fuel as [|fu]; [cbn in Hfuel; lia|]. cbn [mdescend_first descend_first].
      rewrite (Sview _ Hc). cbn [view_of_tree]. rewrite mappend_leaf_prefix_of.
      destruct (append_leaf_prefix last tail buf) as [buf'|e]; [|split; [reflexivity|discriminate]].
      sbind. cbn [fst snd]. split; [reflexivity|]. intros x H. injection H as <-. cbn [fst snd]. split; assumption.
    - destruct fuel as [|fu]; [cbn [height] in Hfuel; lia|]. cbn [mdescend_first descend_first].
      rewrite (Sview _ Hc). cbn [view_of_tree view_pfx].
      destruct (minit_frame_sim (Inner id big step pfx fc ch) None (f_le last) Hc) as [Hi1 Hi2].
      cbn [option_map view_of_tree] in Hi1. change (mf_le (mframe_of last)) with (f_le last). rewrite Hi1.
      destruct (init_frame (Inner id big step pfx fc ch) None (f_le last)) as [f|e] eqn:Ef; [|split; [reflexivity|discriminate]].
      specialize (Hi2 f eq_refl). sbind.
      destruct (init_frame_facts _ _ _ _ Ef) as (id' & big' & step' & pfx' & fc' & ch' & Eq & Hbig & Hch & Hidx & Hlt).
      injection Eq as <- <- <- <- <- <-. specialize (Hidx eq_refl).
      rewrite mappend_inner_prefix_of.
      destruct (append_inner_prefix f pfx buf) as [buf1|e]; [|split; [reflexivity|discriminate]]. sbind.
      rewrite mappend_label_of.
      destruct (append_label f buf1) as [buf2|e]; [|split; [reflexivity|discriminate]]. sbind.
      destruct ch as [|[x0 c0] rest]; [cbn [length] in Hlt; lia|].
      assert (nth_error (f_ch f) 0 = Some (x0, c0)) as E0 by (rewrite Hch; reflexivity).
      destruct (frame_child f 0 x0 c0 Hi2 E0) as [Hcid Hcin].
      change (mf_idx (mframe_of f)) with (f_idx f). rewrite Hidx, Hcid.
      pose proof (Forall_inv IH) as IH0. cbn [snd] in IH0.
      change (mframe_of f :: map mframe_of stk) with (map mframe_of (f :: stk)).
      apply (IH0 Hcin fu f buf2 (f :: stk)).
      + pose proof (height_child id big step pfx fc ((x0, c0) :: rest) x0 c0 (or_introl eq_refl)). lia.
      + constructor; assumption.
  Qed.

  (* getLeafIndex + getIthLeafBytes *)
  Lemma mleaf_val_sim withv c : In c (subtrees r) -> mleaf_val m vs withv (tree_id c) = leaf_val T withv c.
  Proof.
    intros Hsub. unfold mleaf_val, leaf_val. destruct withv; [|reflexivity].
    destruct c as [id ord tail eidx|id big step pfx fc ch]; cbn [tree_id leaf_value].
    2:{ destruct (Sinner _ _ _ _ _ _ Hsub) as (ith & wsz & from & to & bm & plen & pfxb & Hgn & _). rewrite Hgn. reflexivity. }
    rewrite (Sleaf _ _ _ _ Hsub).
    destruct (build_ok o keys vals T Hb) as [[_ ->]|(r' & lidx & B)]; [cbn in Hr; discriminate|].
    pose proof (Hem T r Hr m Em) as Hm. pose proof (Hwf o keys vals T r Hb Hr) as W.
    pose proof (leaves_fw _ _ _ _ m W (flat_nodes_ne r) Hm) as HL.
    destruct (t_leaves T) as [elts|] eqn:El.
    - destruct HL as [_ HL].
      assert (~ Forall (fun e => e = []) elts) as Hnz.
      { rewrite (bt_leaves _ _ _ _ _ _ B) in El. unfold select_leaves in El. destruct vals as [vs0|]; [|discriminate].
        destruct (total_size _ =? 0) eqn:Ez; [discriminate|]. injection El as <-. apply Nat.eqb_neq in Ez.
        intros Hall. apply Ez. unfold total_size. clear -Hall. induction Hall as [|x l Hx _ IH]; [reflexivity|].
        cbn [map sum_list]. rewrite Hx. exact IH. }
      destruct (HL Hnz) as [Hin _].
      pose proof (flat_nodes_at o keys vals T r _ Hb Hr Hsub) as Hn. cbn [tree_id view_of_tree] in Hn.
      assert (ord < length elts) as Hord.
      { unfold flat_wf in W. apply andb_true_iff in W. destruct W as [W1 W2]. unfold leaves_ok in W2. apply Nat.eqb_eq in W2.
        pose proof (wf_from_nth _ _ _ _ _ _ _ _ _ W1 Hn) as (_ & Ho & _). cbn in Ho.
        pose proof (tails_of_nth _ _ _ _ _ Hn) as Ht. rewrite <- Ho in Ht.
        rewrite W2. apply nth_error_Some. congruence. }
      rewrite (Hin ord Hord).
      destruct (nth_error elts ord) as [v|] eqn:En; [|apply nth_error_None in En; lia].
      rewrite (nth_error_nth _ _ [] En). reflexivity.
    - rewrite HL. reflexivity.
  Qed.

  (* the loop of newIter over the path *)
  Lemma minit_frames_sim : forall path, Forall (fun t => In t (subtrees r)) path ->
    forall bufidx buf stk, Forall (frame_inv T) stk ->
    minit_frames m vs (map tree_id path) bufidx buf (map mframe_of stk) =
    (do x <- init_frames path bufidx buf stk; Ok (map mframe_of (fst x), snd x)) /\
    (forall x, init_frames path bufidx buf stk = Ok x -> Forall (frame_inv T) (fst x)).
  Proof.
    induction path as [|t rest IH]; intros Hp bufidx buf stk Hstk.
    - cbn [map minit_frames init_frames]. split; [reflexivity|]. intros x H. injection H as <-. exact Hstk.
    - destruct rest as [|c rest'].
      + cbn [map minit_frames init_frames]. split; [reflexivity|]. intros x H. injection H as <-. exact Hstk.
      + pose proof (Forall_inv Hp) as Ht. pose proof (Forall_inv_tail Hp) as Hrest.
        change (minit_frames m vs (map tree_id (t :: c :: rest')) bufidx buf (map mframe_of stk)) with
          (match get_view m vs (N.of_nat (tree_id t)) with
           | Panic => Err (EPanic 48)
           | Val v =>
               do f <- minit_frame v (Some (tree_id c)) bufidx;
               do buf1 <- mappend_inner_prefix f (view_pfx v) buf;
               do buf2 <- mappend_label f buf1;
               minit_frames m vs (map tree_id (c :: rest')) (mf_le f) buf2 (f :: map mframe_of stk)
           end).
        change (init_frames (t :: c :: rest') bufidx buf stk) with
          (do f <- init_frame t (Some c) bufidx;
           do buf1 <- append_inner_prefix f (node_pfx t) buf;
           do buf2 <- append_label f buf1;
           init_frames (c :: rest') (f_le f) buf2 (f :: stk)).
        rewrite (Sview _ Ht).
        destruct (minit_frame_sim t (Some c) bufidx Ht) as [Hi1 Hi2]. cbn [option_map] in Hi1. rewrite Hi1.
        destruct (init_frame t (Some c) bufidx) as [f|e] eqn:Ef; [|split; [reflexivity|discriminate]].
        specialize (Hi2 f eq_refl). sbind.
        assert (view_pfx (view_of_tree t) = node_pfx t) as -> by (destruct t; reflexivity).
        rewrite mappend_inner_prefix_of.
        destruct (append_inner_prefix f (node_pfx t) buf) as [buf1|e]; [|split; [reflexivity|discriminate]]. sbind.
        rewrite mappend_label_of.
        destruct (append_label f buf1) as [buf2|e]; [|split; [reflexivity|discriminate]]. sbind.
        change (mframe_of f :: map mframe_of stk) with (map mframe_of (f :: stk)).
        change (mf_le (mframe_of f)) with (f_le f).
        apply (IH Hrest). constructor; assumption.
  Qed.

  (* newIter *)
  Lemma mnew_iter_sim path skip withv : Forall (fun t => In t (subtrees r)) path ->
    mnew_iter m vs (map tree_id path) skip withv = (do it <- new_iter path skip withv; Ok (miter_of it)) /\
    (forall it, new_iter path skip withv = Ok it -> iter_inv T it).
  Proof.
    intros Hp. unfold mnew_iter, new_iter.
    destruct (minit_frames_sim path Hp 0 [] [] (Forall_nil _)) as [H1 H2]. cbn [map] in H1. rewrite H1.
    destruct (init_frames path 0 [] []) as [[stk buf]|e]; [|split; [reflexivity|discriminate]].
    specialize (H2 _ eq_refl). cbn [fst snd] in H2. sbind. cbn [fst snd].
    destruct skip.
    - sbind. unfold miter_of. cbn [it_mode it_stack it_buf it_withv mmode_of]. rewrite mnext_stack_of.
      split; [reflexivity|]. intros it H. injection H as <-. split; [apply next_stack_inv; exact H2|exact I].
    - destruct path as [|c [|c' rest]]; cbn [map]; unfold bind; (split; [reflexivity|]); intros it H; injection H as <-;
        (split; [exact H2|]); cbn [it_mode]; try exact I.
      apply tree_in_r. exact (Forall_inv Hp).
  Qed.

  (* NewIter *)
  Lemma miter_init_sim fuel start incl withv : height r <= fuel ->
    miter_init fuel m vs start incl withv = (do it <- iter_init T start incl withv; Ok (miter_of it)) /\
    (forall it, iter_init T start incl withv = Ok it -> iter_inv T it).
  Proof.
    intros Hfuel. unfold miter_init, iter_init.
    destruct (mge_path_sim o keys vals T r Hb Hr m vs Em Ev start fuel Hfuel) as [H1 H2]. rewrite H1.
    destruct (ge_path T start) as [[path eq]|e]; [|split; [reflexivity|discriminate]].
    specialize (H2 _ _ eq_refl). sbind. cbn [fst snd].
    exact (mnew_iter_sim path (eq && negb incl) withv H2).
  Qed.

  (* one call of the closure *)
  Lemma miter_next_sim fuel it : height r <= fuel -> iter_inv T it ->
    miter_next fuel m vs (miter_of it) = (do x <- iter_next T it; Ok (fst x, miter_of (snd x))) /\
    (forall x, iter_next T it = Ok x -> iter_inv T (snd x)).
  Proof.
    intros Hfuel [Hstk Hmode]. unfold miter_next, iter_next.
    change (mit_mode (miter_of it)) with (mmode_of (it_mode it)).
    change (mit_stack (miter_of it)) with (map mframe_of (it_stack it)).
    change (mit_buf (miter_of it)) with (it_buf it).
    change (mit_withv (miter_of it)) with (it_withv it).
    destruct (it_mode it) as [|c consumed] eqn:Emode; cbn [mmode_of].
    - destruct (it_stack it) as [|top rest] eqn:Estk; cbn [map].
      + sbind. cbn [fst snd]. split; [reflexivity|]. intros x H. injection H as <-. cbn [snd].
        split; [rewrite Estk; constructor|rewrite Emode; exact I].
      + rewrite mappend_label_of.
        destruct (append_label top (it_buf it)) as [buf1|e]; [|split; [reflexivity|discriminate]]. sbind.
        cbn [mframe_of mf_labels mf_idx]. rewrite nth_error_map_fst.
        destruct (nth_error (f_ch top) (f_idx top)) as [[lb c]|] eqn:En; [|split; [reflexivity|discriminate]].
        pose proof (Forall_inv Hstk) as Htop.
        destruct (frame_child top (f_idx top) lb c Htop En) as [Hcid Hcin].
        fold (mframe_of top). change (mf_fc (mframe_of top) + f_idx top) with (mf_fc (mframe_of top) + f_idx top).
        rewrite Hcid.
        change (mframe_of top :: map mframe_of rest) with (map mframe_of (top :: rest)).
        destruct (mdescend_first_sim c Hcin fuel top buf1 (top :: rest)) as [Hd1 Hd2];
          [pose proof (height_sub r c Hcin); lia|exact Hstk|].
        rewrite Hd1.
        destruct (descend_first c top buf1 (top :: rest)) as [[[stk' buf'] leaf]|e]; [|split; [reflexivity|discriminate]].
        destruct (Hd2 _ eq_refl) as [Hstk' Hleaf]. cbn [fst snd] in Hstk', Hleaf.
        sbind. cbn [fst snd].
        destruct (pack_res buf') as [k|e]; [|split; [reflexivity|discriminate]]. sbind.
        rewrite (mleaf_val_sim (it_withv it) leaf Hleaf).
        destruct (leaf_val T (it_withv it) leaf) as [v|e]; [|split; [reflexivity|discriminate]]. sbind. cbn [fst snd].
        rewrite mnext_stack_of. split; [reflexivity|]. intros x H. injection H as <-. cbn [snd].
        split; [cbn [it_stack]; apply next_stack_inv; exact Hstk'|exact I].
    - destruct consumed.
      + sbind. cbn [fst snd]. split; [reflexivity|]. intros x H. injection H as <-. cbn [snd].
        split; [exact Hstk|rewrite Emode; exact Hmode].
      + apply tree_in_r in Hmode. rewrite (Sview _ Hmode).
        destruct c as [id ord tail eidx|id big step pfx fc ch]; cbn [view_of_tree]; [|split; [reflexivity|discriminate]].
        destruct (pack_res (it_buf it ++ tail_nibs tail)) as [k|e]; [|split; [reflexivity|discriminate]]. sbind.
        rewrite (mleaf_val_sim (it_withv it) _ Hmode).
        destruct (leaf_val T (it_withv it) (Leaf id ord tail eidx)) as [v|e]; [|split; [reflexivity|discriminate]].
        sbind. cbn [fst snd]. split; [reflexivity|]. intros x H. injection H as <-. cbn [snd].
        split; [exact Hstk|cbn [it_mode]; apply tree_in_r; exact Hmode].
  Qed.
End OneTrie.
