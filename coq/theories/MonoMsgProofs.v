(* MonoMsgProofs.v - C13 through the message: both tries of a pair of modes are encoded to
   their bit-level messages and GetID / Get are computed from those messages (Msg.mgetid /
   Msg.mget); the three clauses of C13 hold for what is computed from the bitmaps. *)
From Slim Require Import Base Keys Model QueryProofs BitmapRank BitmapRank2 Bits Msg MsgProofs MonoProofs MonoCompleteProofs.

Theorem mrich_found_poorer_found o1 o2 keys vals T1 T2 m1 vs1 m2 vs2 fuel1 fuel2 q v :
  o_dedup o1 = o_dedup o2 -> stores_le o1 o2 ->
  build o1 keys vals = Ok T1 -> build o2 keys vals = Ok T2 ->
  encode_trie T1 = Val m1 -> init_vars m1 = Val vs1 -> trie_height T1 <= fuel1 ->
  encode_trie T2 = Val m2 -> init_vars m2 = Val vs2 -> trie_height T2 <= fuel2 ->
  mget (S fuel2) m2 vs2 q = Ok (Found v) ->
  mget (S fuel1) m1 vs1 q = Ok (Found v) /\ mgetid (S fuel1) m1 vs1 q = mgetid (S fuel2) m2 vs2 q.
Proof.
  intros Hd Hle H1 H2 Em1 Ev1 Hf1 Em2 Ev2 Hf2.
  rewrite (mget_get o2 keys vals T2 m2 vs2 q fuel2 H2 Em2 Ev2 Hf2).
  rewrite (mget_get o1 keys vals T1 m1 vs1 q fuel1 H1 Em1 Ev1 Hf1).
  rewrite (mgetid_getid o2 keys vals T2 m2 vs2 q fuel2 H2 Em2 Ev2 Hf2).
  rewrite (mgetid_getid o1 keys vals T1 m1 vs1 q fuel1 H1 Em1 Ev1 Hf1).
  intros Hg. destruct (richer_found_poorer_found o1 o2 keys vals T1 T2 q v Hd Hle H1 H2 Hg) as [Ha Hb].
  split; [exact Ha|rewrite Hb; reflexivity].
Qed.

Theorem mcomplete_found_retained o keys vals T m vs fuel q v :
  build o keys vals = Ok T -> o_inner o = true -> o_leaf o = true ->
  encode_trie T = Val m -> init_vars m = Val vs -> trie_height T <= fuel ->
  mget (S fuel) m vs q = Ok (Found v) ->
  exists i, nth_error keys i = Some q /\ retained o keys vals i = true.
Proof.
  intros Hb Hi Hl Em Ev Hf. rewrite (mget_get o keys vals T m vs q fuel Hb Em Ev Hf).
  exact (complete_found_retained o keys vals T q v Hb Hi Hl).
Qed.

Theorem mretained_key_same_answer o1 o2 keys vals T1 T2 m1 vs1 m2 vs2 fuel1 fuel2 i k :
  o_dedup o1 = o_dedup o2 ->
  build o1 keys vals = Ok T1 -> build o2 keys vals = Ok T2 ->
  encode_trie T1 = Val m1 -> init_vars m1 = Val vs1 -> trie_height T1 <= fuel1 ->
  encode_trie T2 = Val m2 -> init_vars m2 = Val vs2 -> trie_height T2 <= fuel2 ->
  nth_error keys i = Some k -> retained o1 keys vals i = true ->
  exists v id, mget (S fuel1) m1 vs1 k = Ok (Found v) /\ mget (S fuel2) m2 vs2 k = Ok (Found v) /\
               mgetid (S fuel1) m1 vs1 k = Ok (Some id) /\ mgetid (S fuel2) m2 vs2 k = Ok (Some id) /\
               val_bytes v = supplied vals i /\ (vals = None -> v = None).
Proof.
  intros Hd H1 H2 Em1 Ev1 Hf1 Em2 Ev2 Hf2 Hk Hret.
  rewrite (mget_get o2 keys vals T2 m2 vs2 k fuel2 H2 Em2 Ev2 Hf2).
  rewrite (mget_get o1 keys vals T1 m1 vs1 k fuel1 H1 Em1 Ev1 Hf1).
  rewrite (mgetid_getid o2 keys vals T2 m2 vs2 k fuel2 H2 Em2 Ev2 Hf2).
  rewrite (mgetid_getid o1 keys vals T1 m1 vs1 k fuel1 H1 Em1 Ev1 Hf1).
  destruct (retained_key_same_answer o1 o2 keys vals T1 T2 i k Hd H1 H2 Hk Hret) as (v & id & A & B & C & D & E & F).
  exists v, id. rewrite C, D. repeat split; assumption.
Qed.
