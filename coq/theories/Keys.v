(* Keys.v - keys as byte strings, their nibble view, Go string order. *)
From Slim Require Import Base.

Definition key := list byte.

(* high nibble first *)
Definition nibs_of_byte (b : byte) : list nat :=
  let n := Byte.to_nat b in [n / 16; n mod 16].

Definition nibs (k : key) : list nat := flat_map nibs_of_byte k.

(* three-way lexicographic comparison; a proper prefix is smaller.
   On byte lists through [Byte.to_nat] this is Go's string order / bytes.Compare. *)
Fixpoint lex_cmp (a b : list nat) : comparison :=
  match a, b with
  | [], [] => Eq
  | [], _ :: _ => Lt
  | _ :: _, [] => Gt
  | x :: a', y :: b' =>
      match Nat.compare x y with
      | Eq => lex_cmp a' b'
      | c => c
      end
  end.

Definition bytes_cmp (a b : key) : comparison :=
  lex_cmp (map Byte.to_nat a) (map Byte.to_nat b).

Definition bytes_ltb (a b : key) : bool :=
  match bytes_cmp a b with Lt => true | _ => false end.

(* length of the longest common prefix: sigbits.sFirstDiffBit at nibble
   granularity (for a prefix pair it is the length of the shorter one). *)
Fixpoint lcp (a b : list nat) : nat :=
  match a, b with
  | x :: a', y :: b' => if Nat.eqb x y then S (lcp a' b') else 0
  | _, _ => 0
  end.

(* first-diff positions of adjacent pairs: sigbits.FirstDiffBits *)
Fixpoint adj_lcps (l : list (list nat)) : list nat :=
  match l with
  | a :: r => match r with
              | b :: _ => lcp a b :: adj_lcps r
              | [] => []
              end
  | [] => []
  end.

Fixpoint list_min (d : nat) (l : list nat) : nat :=
  match l with
  | [] => d
  | x :: r => list_min (Nat.min d x) r
  end.

Definition even_down (i : nat) : nat := i - i mod 2.

(* trie.getLabelIdxOfKey: 0 when the key is exhausted at [w], else 1 + word *)
Definition label_at (big : bool) (ns : list nat) (w : nat) : nat :=
  match skipn w ns with
  | [] => 0
  | a :: r =>
      if big then
        match r with
        | b :: _ => 1 + (a * 16 + b)
        | [] => 1 + a * 16
        end
      else 1 + a
  end.

Definition wsize (big : bool) : nat := if big then 2 else 1.

(* width in nibbles of the label with index [lb] *)
Definition label_width (big : bool) (lb : nat) : nat :=
  match lb with 0 => 0 | _ => wsize big end.

(* bitstr.CmpUpto at nibble granularity: the query rest, truncated to the
   length of the stored prefix, against the stored prefix. *)
Definition cmp_upto (qrest pfx : list nat) : comparison :=
  lex_cmp (firstn (length pfx) qrest) pfx.

(* strict ascending check of newSlim; Some i = first i with keys[i] >= keys[i+1] *)
Fixpoint check_order_from (i : nat) (l : list key) : option nat :=
  match l with
  | a :: r => match r with
              | b :: _ => if bytes_ltb a b then check_order_from (S i) r else Some i
              | [] => None
              end
  | [] => None
  end.
Definition check_order := check_order_from 0.
