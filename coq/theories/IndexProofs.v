(* IndexProofs.v - C12: SlimIndex + a key-verifying reader is an exact map.
   Hits: the trie returns the offset stored for the key (C01 for Get); the
   reader finds the record there.  Misses: whatever the trie reports is the
   encoding of a supplied offset (C10), the reader looks there and rejects
   because no record has the requested key. *)
From Slim Require Import Base Keys KeysProofs ListFacts Model TrieInv BuildProofs QueryProofs ConsistProofs.
From Slim Require Import Index.
From Slim Require Encoders EncodersProofs.
From Coq Require Import Sorting.Sorted ZifyNat ZifyBool.
Local Open Scope nat_scope.

Arguments Nat.div : simpl never.
Arguments Nat.modulo : simpl never.

Definition enc64 (z : Z) : list byte := Encoders.int_encode c_i64 z.
Definition ikeys (rs : list rcd) : list key := map r_key rs.
Definition ivals (rs : list rcd) : option (list (list byte)) := Some (map (fun r => enc64 (r_off r)) rs).
Definition iopts : opts := normalize raw_default.

Lemma index_build_eq rs : index_build rs = build iopts (ikeys rs) (ivals rs).
Proof. reflexivity. Qed.

(* ---------- the offset codec ---------- *)
Lemma enc64_length z : length (enc64 z) = 8.
Proof. apply (EncodersProofs.int_encode_length c_i64). Qed.

Lemma dec_enc64 z : Encoders.in_range true 8 z -> Encoders.int_decode c_i64 (enc64 z) = Encoders.DOk (8, z).
Proof.
  intros H. pose proof (EncodersProofs.int_roundtrip c_i64 z [] H) as R. rewrite app_nil_r in R.
  unfold enc64. rewrite R, (EncodersProofs.int_encode_length c_i64). reflexivity.
Qed.

Lemma enc64_inj a b : Encoders.in_range true 8 a -> Encoders.in_range true 8 b -> enc64 a = enc64 b -> a = b.
Proof.
  intros Ha Hb E. pose proof (dec_enc64 a Ha) as Da. pose proof (dec_enc64 b Hb) as Db.
  rewrite E in Da. rewrite Da in Db. inversion Db. reflexivity.
Qed.

Lemma offs_in_range_In rs r : offs_in_range rs = true -> In r rs -> Encoders.in_range true 8 (r_off r).
Proof.
  unfold offs_in_range. intros H Hin. rewrite forallb_forall in H.
  apply (EncodersProofs.in_rangeb_iff true 8). apply H. exact Hin.
Qed.

(* ---------- records, keys, values ---------- *)
Lemma ikeys_nth rs i r : nth_error rs i = Some r -> nth_error (ikeys rs) i = Some (r_key r).
Proof. intros H. unfold ikeys. rewrite nth_error_map, H. reflexivity. Qed.

Lemma supplied_nth rs i r : nth_error rs i = Some r -> supplied (ivals rs) i = enc64 (r_off r).
Proof.
  intros H. unfold supplied, ivals.
  apply nth_error_nth. rewrite nth_error_map, H. reflexivity.
Qed.

Lemma ivals_length rs : match ivals rs with Some vs => length vs = length (ikeys rs) | None => True end.
Proof. unfold ivals, ikeys. rewrite !map_length. reflexivity. Qed.

(* a reported value whose bytes are an encoded offset is that encoding *)
Lemma val_is_enc v z : val_bytes v = enc64 z -> v = Some (enc64 z).
Proof.
  destruct v as [b|]; cbn [val_bytes]; [intros ->; reflexivity|].
  intros H. pose proof (enc64_length z) as L. rewrite <- H in L. discriminate.
Qed.

(* ---------- find ---------- *)
Lemma find_unique {A} (f : A -> bool) l x :
  In x l -> f x = true -> (forall y, In y l -> f y = true -> y = x) -> find f l = Some x.
Proof.
  induction l as [|a l IH]; intros Hin Hf Hu; [destruct Hin|]. cbn [find].
  destruct (f a) eqn:Ea.
  - f_equal. apply Hu; [left; reflexivity|exact Ea].
  - apply IH; [destruct Hin as [->|H]; [congruence|exact H]|exact Hf|intros y Hy; apply Hu; right; exact Hy].
Qed.

Lemma find_none_all {A} (f : A -> bool) l : (forall y, In y l -> f y = false) -> find f l = None.
Proof.
  induction l as [|a l IH]; intros H; [reflexivity|]. cbn [find].
  rewrite (H a (or_introl eq_refl)). apply IH. intros y Hy. apply H. right. exact Hy.
Qed.

Lemma sorted_keys_unique rs r r' :
  StronglySorted key_lt (ikeys rs) -> In r rs -> In r' rs -> r_key r = r_key r' -> r = r'.
Proof.
  unfold ikeys. induction rs as [|a rs IH]; intros Hs Hr Hr' Hk; [destruct Hr|].
  cbn [map] in Hs. inversion Hs as [|? ? Hs' Hall]; subst. rewrite Forall_forall in Hall.
  destruct Hr as [<-|Hr], Hr' as [<-|Hr'].
  - reflexivity.
  - exfalso. apply (key_lt_irrefl (r_key a)). rewrite Hk at 2. apply Hall. apply in_map. exact Hr'.
  - exfalso. apply (key_lt_irrefl (r_key a)). rewrite <- Hk at 2. apply Hall. apply in_map. exact Hr.
  - apply IH; assumption.
Qed.

(* the reader and the reference map on a table with distinct keys *)
Lemma reader_hit rs r :
  StronglySorted key_lt (ikeys rs) -> In r rs ->
  table_reader rs (r_off r) (r_key r) = Some (r_val r) /\ lookup rs (r_key r) = Some (r_val r).
Proof.
  intros Hs Hin. unfold table_reader, lookup. split.
  - rewrite (find_unique _ rs r Hin).
    + reflexivity.
    + rewrite Z.eqb_refl, bytes_eqb_refl. reflexivity.
    + intros y Hy Hf. apply andb_true_iff in Hf. destruct Hf as [_ Hf]. apply bytes_eqb_eq in Hf.
      eapply sorted_keys_unique; eassumption.
  - rewrite (find_unique _ rs r Hin).
    + reflexivity.
    + apply bytes_eqb_refl.
    + intros y Hy Hf. apply bytes_eqb_eq in Hf. eapply sorted_keys_unique; eassumption.
Qed.

Lemma reader_miss rs off q :
  (forall r, In r rs -> r_key r <> q) -> table_reader rs off q = None /\ lookup rs q = None.
Proof.
  intros H. unfold table_reader, lookup. split.
  - rewrite find_none_all; [reflexivity|]. intros y Hy. apply andb_false_iff. right.
    destruct (bytes_eqb (r_key y) q) eqn:E; [|reflexivity]. apply bytes_eqb_eq in E. exfalso. eapply H; eassumption.
  - rewrite find_none_all; [reflexivity|]. intros y Hy.
    destruct (bytes_eqb (r_key y) q) eqn:E; [|reflexivity]. apply bytes_eqb_eq in E. exfalso. eapply H; eassumption.
Qed.

Lemma key_in_or_not rs q : (exists r, In r rs /\ r_key r = q) \/ (forall r, In r rs -> r_key r <> q).
Proof.
  induction rs as [|a rs IH]; [right; intros r []|].
  destruct (bytes_eqb (r_key a) q) eqn:E.
  - apply bytes_eqb_eq in E. left. exists a. split; [left; reflexivity|exact E].
  - destruct IH as [(r & Hr & Hk)|IH]; [left; exists r; split; [right; exact Hr|exact Hk]|].
    right. intros r [<-|Hr]; [|apply IH; exact Hr]. intros Hk. rewrite Hk, bytes_eqb_refl in E. discriminate.
Qed.

(* ---------- reading at a reported offset ---------- *)
(* the trie reports the bytes supplied for record i *)
Lemma read_supplied rs i r v q :
  offs_in_range rs = true -> nth_error rs i = Some r ->
  val_bytes v = supplied (ivals rs) i ->
  read_found (table_reader rs) q (Found v) = Ok (table_reader rs (r_off r) q).
Proof.
  intros Hr Hn Hv. rewrite (supplied_nth rs i r Hn) in Hv. apply val_is_enc in Hv. subst v.
  cbn [read_found]. rewrite dec_enc64; [reflexivity|].
  eapply offs_in_range_In; [exact Hr|eapply nth_error_In; exact Hn].
Qed.

Lemma sorted_of_build rs T : index_build rs = Ok T -> StronglySorted key_lt (ikeys rs).
Proof.
  intros Hb. rewrite index_build_eq in Hb.
  destruct (build_ok _ _ _ _ Hb) as [[E _]|(r & lidx & B)].
  - rewrite E. constructor.
  - apply AdjSorted_strong. apply (bt_sorted _ _ _ _ _ _ B).
Qed.

(* ---------- adjacent offsets differ => every key is retained ---------- *)
Fixpoint offs_adjacent_distinct (rs : list rcd) : bool :=
  match rs with
  | a :: r => match r with
              | b :: _ => negb (Z.eqb (r_off a) (r_off b)) && offs_adjacent_distinct r
              | [] => true
              end
  | [] => true
  end.

Lemma offs_increasing_distinct rs : offs_increasing rs = true -> offs_adjacent_distinct rs = true.
Proof.
  induction rs as [|a [|b r] IH]; intros H; try reflexivity.
  cbn [offs_increasing offs_adjacent_distinct] in *. apply andb_true_iff in H. destruct H as [H1 H2].
  apply andb_true_iff. split; [|apply IH; exact H2].
  apply negb_true_iff. apply Z.eqb_neq. apply Z.ltb_lt in H1. lia.
Qed.

Lemma adjacent_distinct_nth : forall rs i a b,
  offs_adjacent_distinct rs = true -> nth_error rs i = Some a -> nth_error rs (S i) = Some b -> r_off a <> r_off b.
Proof.
  induction rs as [|x rs IH]; intros i a b H Ha Hb; [destruct i; discriminate|].
  destruct rs as [|y rs']; [destruct i; discriminate|].
  cbn [offs_adjacent_distinct] in H. apply andb_true_iff in H. destruct H as [H1 H2].
  destruct i as [|i]; cbn [nth_error] in Ha, Hb.
  - inversion Ha; inversion Hb; subst. apply negb_true_iff in H1. apply Z.eqb_neq in H1. exact H1.
  - eapply (IH i a b H2); assumption.
Qed.

Lemma all_retained rs i r :
  offs_in_range rs = true -> offs_adjacent_distinct rs = true -> nth_error rs i = Some r ->
  retained iopts (ikeys rs) (ivals rs) i = true.
Proof.
  intros Hr Hd Hn.
  assert (i < length (ikeys rs)) as Hi.
  { unfold ikeys. rewrite map_length. apply nth_error_Some. rewrite Hn. discriminate. }
  pose proof (retained_spec iopts (ikeys rs) (ivals rs) i Hi) as Hs. cbn [ivals] in Hs.
  apply Hs; [unfold ikeys; rewrite !map_length; reflexivity|].
  destruct i as [|i]; [right; left; reflexivity|]. right; right.
  replace (S i - 1) with i by lia.
  destruct (nth_error rs i) as [a|] eqn:Ea.
  2:{ apply nth_error_None in Ea. assert (S i < length rs) by (apply nth_error_Some; rewrite Hn; discriminate). lia. }
  change (nth i (map (fun r0 => enc64 (r_off r0)) rs) []) with (supplied (ivals rs) i).
  change (nth (S i) (map (fun r0 => enc64 (r_off r0)) rs) []) with (supplied (ivals rs) (S i)).
  rewrite (supplied_nth rs i a Ea), (supplied_nth rs (S i) r Hn).
  intros E. apply enc64_inj in E.
  - eapply adjacent_distinct_nth; eassumption.
  - eapply offs_in_range_In; [exact Hr|eapply nth_error_In; exact Ea].
  - eapply offs_in_range_In; [exact Hr|eapply nth_error_In; exact Hn].
Qed.

(* ---------- C12, dense index: Get + reader = the record map, for every query ---------- *)
Theorem index_get_exact rs T q :
  offs_in_range rs = true -> offs_adjacent_distinct rs = true ->
  index_build rs = Ok T ->
  index_get T (table_reader rs) q = Ok (lookup rs q).
Proof.
  intros Hr Hd Hb. pose proof (sorted_of_build rs T Hb) as Hs.
  rewrite index_build_eq in Hb. unfold index_get.
  destruct (key_in_or_not rs q) as [(r & Hin & Hk)|Hno].
  - (* an indexed key: C01 *)
    apply In_nth_error in Hin. destruct Hin as (i & Hn).
    pose proof (all_retained rs i r Hr Hd Hn) as Hret.
    destruct (kept_key_found iopts (ikeys rs) (ivals rs) T i (r_key r) Hb (ikeys_nth rs i r Hn) Hret) as [_ (v & Hg & Hv & _)].
    subst q. rewrite Hg. cbn [bind].
    rewrite (read_supplied rs i r v (r_key r) Hr Hn Hv).
    destruct (reader_hit rs r Hs (nth_error_In _ _ Hn)) as [H1 H2]. rewrite H1, H2. reflexivity.
  - (* any other string: C10 *)
    destruct (reader_miss rs 0%Z q Hno) as [_ Hl]. rewrite Hl.
    destruct (lookups_total_consistent iopts (ikeys rs) (ivals rs) T q Hb) as ((f & Hf) & _ & _ & _ & _ & _ & _ & Hsup).
    rewrite Hf. cbn [bind]. destruct f as [|v]; [reflexivity|].
    destruct (Hsup v Hf) as (i & Hi & _ & Hv & _).
    unfold ikeys in Hi. rewrite map_length in Hi.
    destruct (nth_error rs i) as [r|] eqn:Hn; [|apply nth_error_None in Hn; lia].
    rewrite (read_supplied rs i r v q Hr Hn Hv).
    destruct (reader_miss rs (r_off r) q Hno) as [H1 _]. rewrite H1. reflexivity.
Qed.

(* as the property states it: strictly increasing offsets *)
Corollary index_get_exact_increasing rs T q :
  offs_in_range rs = true -> offs_increasing rs = true ->
  index_build rs = Ok T ->
  index_get T (table_reader rs) q = Ok (lookup rs q).
Proof. intros Hr Hi. apply index_get_exact; [exact Hr|apply offs_increasing_distinct; exact Hi]. Qed.

(* ---------- RangeGet reports supplied values only ---------- *)
Lemma searchid_nodes o keys vals T r lidx q :
  Built o keys vals T r lidx ->
  exists lc rc, searchid T q = (option_map rightmost lc, getid_node T q, option_map leftmost rc) /\
                from_tree r None lc /\ from_tree r None rc.
Proof.
  intros B.
  pose proof (searchid_eq_getid o keys vals T r lidx q B) as Heq.
  pose proof (root_inv o keys vals (bt_sorted _ _ _ _ _ _ B) (bt_nonempty _ _ _ _ _ _ B)) as I.
  unfold searchid in *. rewrite (bt_root _ _ _ _ _ _ B) in *. cbv zeta in *.
  pose proof (search_down_from (nibs q) (length (nibs q)) r 0 None None) as [H1 H2].
  destruct (search_down (nibs q) (length (nibs q)) r 0 None None) as [[lc0 eq0] rc0] eqn:Esd. cbn [fst snd] in H1, H2.
  pose proof (descend_subtree (nibs q) (length (nibs q)) r 0) as Hds.
  pose proof (search_down_seq o q r _ (bt_trie _ _ _ _ _ _ B) I (Nat.le_0_l _) None None) as Hseq.
  change (s_from (root_subset o keys vals)) with 0 in Hseq. rewrite Esd in Hseq. unfold seq in Hseq. cbn [fst snd] in Hseq.
  destruct eq0 as [[[c i] v]|].
  - assert (In c (subtrees r)) as Hc by (eapply Hds; symmetry; exact Hseq).
    destruct (i <=? length (nibs q)).
    + destruct (if t_leafpfx T then bytes_cmp (skipn (i / 2) q) match sess_tail c v with Some t => t | None => [] end else Eq);
        cbn [fst snd] in Heq; rewrite <- Heq.
      * exists lc0, rc0. auto.
      * exists lc0, (Some c). split; [reflexivity|]. split; [exact H1|cbn; right; exact Hc].
      * exists (Some c), rc0. split; [reflexivity|]. split; [cbn; right; exact Hc|exact H2].
    + cbn [fst snd] in Heq; rewrite <- Heq. exists lc0, rc0. auto.
  - cbn [fst snd] in Heq; rewrite <- Heq. exists lc0, rc0. auto.
Qed.

Lemma getid_node_is_leaf o keys vals T r lidx q c :
  Built o keys vals T r lidx -> getid_node T q = Some c -> In c (subtrees r) /\ is_leaf c = true.
Proof.
  intros B Hc.
  pose proof (root_inv o keys vals (bt_sorted _ _ _ _ _ _ B) (bt_nonempty _ _ _ _ _ _ B)) as I.
  split; [eapply getid_node_subtree; [apply (bt_root _ _ _ _ _ _ B)|exact Hc]|].
  unfold getid_node in Hc. rewrite (bt_root _ _ _ _ _ _ B) in Hc. cbv zeta in Hc.
  destruct (descend (nibs q) (length (nibs q)) r 0) as [[[c0 i] v]|] eqn:Ed; [|discriminate].
  pose proof (descend_facts o q r _ (bt_trie _ _ _ _ _ _ B) I (Nat.le_0_l _) c0 i v) as Hf.
  change (s_from (root_subset o keys vals)) with 0 in Hf. destruct (Hf Ed) as (Hleaf & _).
  destruct (t_leafpfx T); [destruct (sess_tail c0 v); destruct (Nat.eqb i (length (nibs q))); try discriminate;
    [destruct (bytes_eqb _ _); [|discriminate]|]|]; inversion Hc; subst; exact Hleaf.
Qed.

Theorem rangeget_supplied o keys vals T q v :
  build o keys vals = Ok T -> rangeget T q = Ok (Found v) ->
  exists i, i < length keys /\ val_bytes v = supplied vals i.
Proof.
  intros Hb Hg. destruct (build_ok _ _ _ _ Hb) as [[-> ->]|(r & lidx & B)]; [cbn in Hg; discriminate|].
  destruct (searchid_nodes o keys vals T r lidx q B) as (lc & rc & Hs & Hlc & _).
  unfold rangeget in Hg. rewrite Hs in Hg.
  assert (forall c, In c (subtrees r) -> is_leaf c = true -> leaf_value T c = Ok v ->
                    exists i, i < length keys /\ val_bytes v = supplied vals i) as Hleafv.
  { intros c Hsub Hleaf Hv.
    destruct (leaf_value_in_tree o keys vals T r lidx c B Hsub Hleaf) as (v' & i & Hv' & Hi & _ & Hvb & _).
    rewrite Hv in Hv'. inversion Hv'; subst v'. eauto. }
  destruct (getid_node T q) as [c|] eqn:Eg.
  - destruct (getid_node_is_leaf _ _ _ _ _ _ _ _ B Eg) as [Hsub Hleaf].
    unfold bind in Hg. destruct (leaf_value T c) as [v'|] eqn:Ev; [|discriminate]. inversion Hg; subst v'.
    eapply Hleafv; eassumption.
  - destruct lc as [n|]; cbn [option_map] in Hg; [|discriminate].
    cbn [from_tree] in Hlc. destruct Hlc as [Hlc|Hlc]; [discriminate|].
    pose proof (root_inv o keys vals (bt_sorted _ _ _ _ _ _ B) (bt_nonempty _ _ _ _ _ _ B)) as I.
    pose proof (trie_of_has_kids o r _ (bt_trie _ _ _ _ _ _ B) I) as Hk.
    destruct (rightmost_leaf n (has_kids_sub r n Hk Hlc)) as [H1 H2].
    unfold bind in Hg. destruct (leaf_value T (rightmost n)) as [v'|] eqn:Ev; [|discriminate]. inversion Hg; subst v'.
    eapply (Hleafv (rightmost n)); [eapply subtrees_trans; eassumption|exact H1|exact Ev].
Qed.
