(* BitsVlenProofs.v - L3, part (c): VLenArray.
     new_bm_sorted        newBM of a monotone position list: words, bits, no panic
     get_bit_spec         words[i>>6] & Bit[i&63] != 0  is the bit
     var_elt_correct      PositionBM (select index) + Bytes: the r-th non-empty element
     new_vlen_total       newVLenArray never panics; nil exactly when every element is empty
     vlen_get_correct     VLenArray.get (newVLenArray elts) i = elts[i]  (fixed width, variable
                          width, empty elements)
     vlen_get_panics      get beyond N is the panic outcome *)
From Coq Require Import List Arith Bool NArith ZArith Lia Sorted.
From Coq Require Import ZifyN ZifyNat ZifyBool.
From Coq.Strings Require Import Byte.
From Slim Require Import Base BitmapRank BitmapRankProofs BitmapRank2 BitmapRank2Proofs BitmapSelectProofs Bits.
Import ListNotations.
Local Open Scope N_scope.
Ltac Zify.zify_post_hook ::= Z.div_mod_to_equations.

(* ---------- newBM ---------- *)
Lemma new_bm_sorted : forall idx cap k,
  StronglySorted N.le idx ->
  exists ws, new_bm idx cap k = Val (index_bm ws k) /\
    N.of_nat (length ws) = nwords_for (bits_cap idx cap) /\ words_ok ws /\
    (forall p, bm_get ws p = true <-> In p idx).
Proof.
  intros idx cap k Hs. destruct (of_cap_sorted idx cap Hs) as (ws & E & L & O & G).
  exists ws. unfold new_bm, obind. rewrite E. auto.
Qed.

Lemma index_bm_words : forall ws k, b_words (index_bm ws k) = ws.
Proof. intros ws []; reflexivity. Qed.

(* ---------- single bit test ---------- *)
Lemma land_bit_test : forall w b, negb (N.land w (N.shiftl 1 b) =? 0) = N.testbit w b.
Proof.
  intros w b. rewrite N.shiftl_1_l. destruct (N.testbit w b) eqn:E.
  - destruct (N.eqb_spec (N.land w (2 ^ b)) 0) as [H|H]; [|reflexivity].
    assert (N.testbit (N.land w (2 ^ b)) b = true) by (rewrite N.land_spec, E, N.pow2_bits_true; reflexivity).
    rewrite H, N.bits_0 in H0. discriminate.
  - destruct (N.eqb_spec (N.land w (2 ^ b)) 0) as [H|H]; [reflexivity|]. exfalso. apply H.
    apply N.bits_inj. intros n. rewrite N.land_spec, N.bits_0, N.pow2_bits_eqb.
    destruct (N.eqb_spec b n) as [<-|]; [rewrite E; reflexivity|apply andb_false_r].
Qed.

Lemma get_bit_spec : forall ws i, i < 64 * N.of_nat (length ws) -> get_bit ws i = Val (bm_get ws i).
Proof.
  intros ws i H. unfold get_bit, nth_word, obind.
  destruct (nthN_lt_Some ws (word_of i)) as [w E]; [rewrite word_of_spec; lia|].
  rewrite E. f_equal. unfold bm_get. rewrite E. apply land_bit_test.
Qed.

Lemma nwords_bound : forall i n, i < n -> i < 64 * nwords_for n.
Proof.
  intros i n H. unfold nwords_for. rewrite N.shiftr_div_pow2. change (2 ^ 6) with 64. lia.
Qed.

(* ---------- slices of a concatenation ---------- *)
Lemma slice_concat : forall (elts : list (list byte)) i,
  (i < length elts)%nat ->
  slice_bytes (concat elts) (sumN (map blen (firstn i elts)))
              (sumN (map blen (firstn i elts)) + blen (nth i elts [])) = Val (nth i elts []).
Proof.
  intros elts i Hi.
  assert (Hsum : forall l : list (list byte), sumN (map blen l) = blen (concat l)).
  { induction l as [|x r IH]; [reflexivity|]. cbn [map sumN concat]. rewrite IH. unfold blen. rewrite app_length. lia. }
  rewrite Hsum. set (pre := concat (firstn i elts)). set (e := nth i elts []).
  assert (Hc : concat elts = pre ++ e ++ concat (skipn (S i) elts)).
  { unfold pre, e. rewrite <- (firstn_skipn i elts) at 1. rewrite concat_app. f_equal.
    clear pre e. revert i Hi. induction elts as [|x r IH]; intros i Hi; [cbn in Hi; lia|].
    destruct i as [|i]; [reflexivity|]. cbn [skipn nth]. apply IH. cbn [length] in Hi. lia. }
  unfold slice_bytes. rewrite Hc. unfold blen. rewrite !app_length.
  destruct (N.leb_spec (N.of_nat (length pre)) (N.of_nat (length pre) + N.of_nat (length e))); [|lia].
  destruct (N.leb_spec (N.of_nat (length pre) + N.of_nat (length e))
                       (N.of_nat (length pre + (length e + length (concat (skipn (S i) elts)))))); [|lia].
  cbn [andb]. f_equal.
  replace (N.to_nat (N.of_nat (length pre))) with (length pre) by lia.
  rewrite skipn_app, Nat.sub_diag, skipn_all, skipn_O. cbn [app].
  replace (N.to_nat (N.of_nat (length pre) + N.of_nat (length e) - N.of_nat (length pre))) with (length e) by lia.
  rewrite firstn_app, Nat.sub_diag, firstn_all, firstn_O, app_nil_r. reflexivity.
Qed.

(* ---------- stepToPos ---------- *)
Definition nz (s : N) : bool := negb (s =? 0).
Definition cnt_nz (l : list N) : nat := length (filter nz l).

Lemma nz_true : forall s, s <> 0 -> nz s = true.
Proof. intros s H. unfold nz. destruct (N.eqb_spec s 0); [congruence|reflexivity]. Qed.

Lemma step_to_pos_hd : forall p l, exists t, step_to_pos p l = p :: t.
Proof. intros p [|s r]; cbn [step_to_pos]; eauto. Qed.

Lemma step_to_pos_in_filter : forall l p k,
  In k (step_to_pos p l) <-> In k (step_to_pos p (filter nz l)).
Proof.
  induction l as [|s r IH]; intros p k; [reflexivity|].
  cbn [step_to_pos filter]. destruct (N.eq_dec s 0) as [->|Hs]; [change (nz 0) with false; cbv iota|rewrite (nz_true s Hs)].
  - rewrite N.add_0_r. rewrite <- IH. destruct (step_to_pos_hd p r) as [t Et]. rewrite Et. cbn [In]. tauto.
  - cbn [step_to_pos In]. rewrite IH. reflexivity.
Qed.

Lemma step_to_pos_sorted_le : forall l p, StronglySorted N.le (step_to_pos p l) /\ Forall (fun x => p <= x) (step_to_pos p l).
Proof.
  induction l as [|s r IH]; intros p; cbn [step_to_pos].
  - split; [repeat constructor|constructor; [lia|constructor]].
  - destruct (IH (p + s)) as [Hs Hb].
    assert (Forall (fun x => p <= x) (step_to_pos (p + s) r)) by (eapply Forall_impl; [|exact Hb]; cbv beta; intros; lia).
    split; constructor; auto. lia.
Qed.

Lemma step_to_pos_sorted_lt : forall l p, Forall (fun s => s <> 0) l ->
  StronglySorted N.lt (step_to_pos p l) /\ Forall (fun x => p <= x) (step_to_pos p l).
Proof.
  induction l as [|s r IH]; intros p H; cbn [step_to_pos].
  - split; [repeat constructor|constructor; [lia|constructor]].
  - inversion H; subst. destruct (IH (p + s)) as [Hs Hb]; [assumption|].
    split; constructor; auto; try lia.
    + eapply Forall_impl; [|exact Hb]. cbv beta. intros. lia.
    + eapply Forall_impl; [|exact Hb]. cbv beta. intros. lia.
Qed.

Lemma filter_nz_all : forall l, Forall (fun s => s <> 0) (filter nz l).
Proof.
  intros l. rewrite Forall_forall. intros s H. apply filter_In in H. destruct H as [_ H].
  unfold nz in H. destruct (N.eqb_spec s 0); [discriminate|assumption].
Qed.

Lemma step_to_pos_length : forall l p, length (step_to_pos p l) = S (length l).
Proof. induction l; intros; cbn [step_to_pos length]; auto. Qed.

(* the r-th and (r+1)-th distinct position, r = number of non-zero sizes before i *)
Lemma step_to_pos_nth : forall l p i,
  (i < length l)%nat -> nth i l 0 <> 0 ->
  let r := cnt_nz (firstn i l) in
  nth r (step_to_pos p (filter nz l)) 0 = p + sumN (firstn i l) /\
  nth (S r) (step_to_pos p (filter nz l)) 0 = p + sumN (firstn i l) + nth i l 0.
Proof.
  induction l as [|s t IH]; intros p i Hi Hnz; [cbn in Hi; lia|]. cbv zeta.
  destruct i as [|i].
  - cbn [nth] in Hnz. cbn [firstn sumN]. unfold cnt_nz. cbn [filter length nth].
    rewrite (nz_true s Hnz). cbn [step_to_pos nth].
    destruct (step_to_pos_hd (p + s) (filter nz t)) as [u Eu]. rewrite Eu. cbn [nth]. lia.
  - cbn [nth] in Hnz. cbn [length] in Hi. cbn [firstn sumN nth]. unfold cnt_nz. cbn [filter].
    destruct (N.eq_dec s 0) as [->|Hs].
    + change (nz 0) with false. cbv iota.
      destruct (IH p i ltac:(lia) Hnz) as [A B]. fold (cnt_nz (firstn i t)). rewrite A, B. lia.
    + rewrite (nz_true s Hs). cbn [length step_to_pos nth]. destruct (IH (p + s) i ltac:(lia) Hnz) as [A B].
      fold (cnt_nz (firstn i t)). rewrite A, B. lia.
Qed.

Lemma cnt_nz_firstn_lt : forall l i, (i < length l)%nat -> nth i l 0 <> 0 -> (cnt_nz (firstn i l) < cnt_nz l)%nat.
Proof.
  induction l as [|s t IH]; intros i Hi Hnz; [cbn in Hi; lia|].
  destruct i as [|i].
  - cbn [nth] in Hnz. unfold cnt_nz. cbn [firstn filter length]. rewrite (nz_true s Hnz). cbn. lia.
  - cbn [nth] in Hnz. cbn [length] in Hi. specialize (IH i ltac:(lia) Hnz).
    unfold cnt_nz in *. cbn [firstn filter]. destruct (nz s); cbn [length]; lia.
Qed.

(* ---------- the position bitmap + Bytes ---------- *)
Theorem var_elt_correct : forall (elts : list (list byte)) i,
  (i < length elts)%nat -> nth i elts [] <> [] ->
  exists ps, new_bm (step_to_pos 0 (map blen elts)) 0 S32 = Val ps /\
    vlen_var_elt ps (concat elts) (N.of_nat (cnt_nz (firstn i (map blen elts)))) = Val (nth i elts []).
Proof.
  intros elts i Hi Hne. set (sizes := map blen elts).
  destruct (step_to_pos_sorted_le sizes 0) as [Hsle _].
  destruct (new_bm_sorted (step_to_pos 0 sizes) 0 S32 Hsle) as (ws & E & L & O & G).
  exists (index_bm ws S32). split; [exact E|].
  set (P := step_to_pos 0 (filter nz sizes)).
  destruct (step_to_pos_sorted_lt (filter nz sizes) 0 (filter_nz_all sizes)) as [HsP _].
  assert (GP : forall k, bm_get ws k = true <-> In k P).
  { intros k. rewrite G. apply step_to_pos_in_filter. }
  assert (Hsz : nth i sizes 0 = blen (nth i elts [])).
  { unfold sizes. rewrite (nth_indep _ 0 (blen (@nil byte))) by (rewrite map_length; exact Hi). apply map_nth. }
  assert (Hnz : nth i sizes 0 <> 0).
  { rewrite Hsz. unfold blen. destruct (nth i elts []); [congruence|cbn; lia]. }
  assert (Hi' : (i < length sizes)%nat) by (unfold sizes; rewrite map_length; exact Hi).
  set (r := cnt_nz (firstn i sizes)).
  pose proof (cnt_nz_firstn_lt sizes i Hi' Hnz) as Hr. fold r in Hr.
  assert (HlenP : length P = S (cnt_nz sizes)) by (unfold P; rewrite step_to_pos_length; reflexivity).
  assert (Htot : total_ones ws = N.of_nat (length P)).
  { unfold total_ones, Rk. fold (N.to_nat 64).
    replace (64 * N.to_nat (N.of_nat (length ws)))%nat with (N.to_nat (64 * N.of_nat (length ws))) by lia.
    fold (rank_spec ws (64 * N.of_nat (length ws))). rewrite (rank_spec_listed ws P _ HsP GP).
    f_equal. apply count_lt_all. rewrite Forall_forall. intros x Hx. apply GP in Hx. apply bm_get_true_lt in Hx. exact Hx. }
  destruct (select32_r64_correct ws (N.of_nat r) O) as (a & b & Esel & Sa & Sb); [rewrite Htot; lia|].
  destruct (select_listed ws P (N.of_nat r) a b HsP GP) as [Ea Eb]; try assumption; [lia|].
  rewrite Nat2N.id in Ea, Eb.
  destruct (step_to_pos_nth sizes 0 i Hi' Hnz) as [A B]. fold r P in A, B.
  unfold vlen_var_elt, obind. cbn [b_words b_sel b_rank index_bm]. rewrite Esel.
  rewrite Ea, Eb, A, B, !N.add_0_l, Hsz. unfold sizes. rewrite firstn_map. apply slice_concat. exact Hi.
Qed.

(* ---------- newVLenArray ---------- *)
Lemma nonzero_idx_spec : forall sizes base,
  StronglySorted N.lt (nonzero_idx base sizes) /\
  (forall p, In p (nonzero_idx base sizes) <->
             base <= p /\ p < base + N.of_nat (length sizes) /\ nth (N.to_nat (p - base)) sizes 0 <> 0).
Proof.
  induction sizes as [|s r IH]; intros base.
  - cbn. split; [constructor|]. intros p. split; [intros []|lia].
  - cbn [nonzero_idx]. destruct (IH (N.succ base)) as [Hs Hi]. split.
    + destruct (s =? 0); cbn [app]; [exact Hs|]. constructor; [exact Hs|].
      rewrite Forall_forall. intros p Hp. apply Hi in Hp. lia.
    + intros p. rewrite in_app_iff, Hi. cbn [length]. split.
      * intros [Hp|(A & B & C)].
        -- destruct (N.eqb_spec s 0); [destruct Hp|]. destruct Hp as [<-|[]]. rewrite N.sub_diag. cbn. split; [lia|]. split; [lia|assumption].
        -- split; [lia|]. split; [lia|]. replace (N.to_nat (p - base)) with (S (N.to_nat (p - N.succ base))) by lia. exact C.
      * intros (A & B & C). destruct (N.eq_dec p base) as [->|Hne].
        -- left. rewrite N.sub_diag in C. cbn in C. destruct (N.eqb_spec s 0); [congruence|left; reflexivity].
        -- right. split; [lia|]. split; [lia|].
           replace (N.to_nat (p - base)) with (S (N.to_nat (p - N.succ base))) in C by lia. exact C.
Qed.

Lemma count_lt_nonzero_idx : forall sizes base i,
  (i <= length sizes)%nat ->
  count_lt (nonzero_idx base sizes) (base + N.of_nat i) = cnt_nz (firstn i sizes).
Proof.
  induction sizes as [|s r IH]; intros base i Hi.
  - destruct i; reflexivity.
  - destruct i as [|i].
    + rewrite N.add_0_r. cbn [firstn]. apply count_lt_none. destruct (nonzero_idx_spec (s :: r) base) as [_ Hin].
      rewrite Forall_forall. intros p Hp. apply Hin in Hp. lia.
    + cbn [nonzero_idx firstn]. rewrite count_lt_app. cbn [length] in Hi.
      replace (base + N.of_nat (S i)) with (N.succ base + N.of_nat i) by lia. rewrite IH by lia.
      unfold cnt_nz. cbn [filter]. destruct (N.eq_dec s 0) as [->|Hs].
      * change (nz 0) with false. cbn. reflexivity.
      * rewrite (nz_true s Hs). destruct (N.eqb_spec s 0); [congruence|].
        unfold count_lt. cbn [filter]. destruct (N.ltb_spec base (N.succ base + N.of_nat i)); [reflexivity|lia].
Qed.

Lemma scan_sizes_prev : forall sizes prev0 b0 prev b,
  scan_sizes prev0 b0 sizes = (prev, b) ->
  (prev = prev0 /\ Forall (fun s => s = 0) sizes) \/ (exists q, prev = Some q /\ In q sizes /\ q <> 0).
Proof.
  induction sizes as [|s r IH]; intros prev0 b0 prev b H.
  - cbn in H. injection H as <- <-. left. split; [reflexivity|constructor].
  - cbn [scan_sizes] in H. destruct (N.eqb_spec s 0) as [->|Hs].
    + destruct (IH _ _ _ _ H) as [[A B]|(q & A & B & C)].
      * left. split; [exact A|constructor; [reflexivity|exact B]].
      * right. exists q. repeat split; try assumption. right. exact B.
    + destruct (IH _ _ _ _ H) as [[A B]|(q & A & B & C)].
      * right. exists s. repeat split; try assumption. left. reflexivity.
      * right. exists q. repeat split; try assumption. right. exact B.
Qed.

Lemma scan_sizes_eq : forall sizes prev0 b0 prev,
  scan_sizes prev0 b0 sizes = (prev, true) ->
  b0 = true /\
  (forall p0, prev0 = Some p0 -> forall s, In s sizes -> s <> 0 -> s = p0) /\
  (forall s t, In s sizes -> s <> 0 -> In t sizes -> t <> 0 -> s = t).
Proof.
  induction sizes as [|s r IH]; intros prev0 b0 prev H.
  - cbn in H. injection H as _ <-. repeat split; intros; contradiction.
  - cbn [scan_sizes] in H. destruct (N.eqb_spec s 0) as [->|Hs].
    + destruct (IH _ _ _ H) as (A & B & C). split; [exact A|]. split.
      * intros p0 E x [<-|Hx] Hx0; [congruence|eauto].
      * intros x y [<-|Hx] Hx0 [<-|Hy] Hy0; try congruence. eauto.
    + destruct (IH _ _ _ H) as (A & B & C).
      assert (Hb0 : b0 = true /\ forall p0, prev0 = Some p0 -> p0 = s).
      { destruct prev0 as [p0|]; [|split; [exact A|intros; discriminate]].
        apply andb_true_iff in A. destruct A as [A1 A2]. apply N.eqb_eq in A2.
        split; [exact A1|]. intros ? [= <-]. exact A2. }
      destruct Hb0 as [Hb0 Hp0]. split; [exact Hb0|]. split.
      * intros p0 E x [<-|Hx] Hx0; [symmetry; apply Hp0; exact E|].
        rewrite (B s eq_refl x Hx Hx0). symmetry. apply Hp0. exact E.
      * intros x y [<-|Hx] Hx0 [<-|Hy] Hy0.
        -- reflexivity.
        -- symmetry. apply (B s eq_refl y Hy Hy0).
        -- apply (B s eq_refl x Hx Hx0).
        -- eauto.
Qed.

Lemma sumN_zero : forall l, sumN l = 0 <-> Forall (fun s => s = 0) l.
Proof.
  induction l as [|x r IH]; [split; [constructor|reflexivity]|]. cbn [sumN]. split.
  - intros H. constructor; [lia|]. apply IH. lia.
  - intros H. inversion H; subst. apply IH in H3. lia.
Qed.

Lemma fixed_offset : forall l q i,
  (forall s, In s l -> s <> 0 -> s = q) ->
  sumN (firstn i l) = N.of_nat (cnt_nz (firstn i l)) * q.
Proof.
  induction l as [|s r IH]; intros q i H; [destruct i; reflexivity|].
  destruct i as [|i]; [reflexivity|]. cbn [firstn sumN]. unfold cnt_nz. cbn [filter].
  rewrite (IH q i) by (intros; apply H; [right|]; assumption). fold (cnt_nz (firstn i r)).
  destruct (N.eq_dec s 0) as [->|Hs].
  - change (nz 0) with false. cbv iota. fold (cnt_nz (firstn i r)). lia.
  - rewrite (nz_true s Hs). cbn [length]. fold (cnt_nz (firstn i r)). rewrite (H s (or_introl eq_refl) Hs). lia.
Qed.

(* the presence bitmap of the non-empty elements *)
Lemma presence_lookup : forall sizes ws i,
  words_ok ws ->
  N.of_nat (length ws) = nwords_for (N.of_nat (length sizes)) ->
  (forall p, bm_get ws p = true <-> In p (nonzero_idx 0 sizes)) ->
  (i < length sizes)%nat ->
  get_bit ws (N.of_nat i) = Val (nz (nth i sizes 0)) /\
  exists bit, rank64 ws (index_rank64 ws 0) (N.of_nat i) = Val (N.of_nat (cnt_nz (firstn i sizes)), bit).
Proof.
  intros sizes ws i O L G Hi.
  assert (Hb : N.of_nat i < 64 * N.of_nat (length ws)) by (rewrite L; apply nwords_bound; lia).
  destruct (nonzero_idx_spec sizes 0) as [Hs Hin]. split.
  - rewrite (get_bit_spec ws _ Hb). f_equal. apply eq_true_iff_eq. rewrite G, Hin.
    rewrite N.sub_0_r, Nat2N.id. unfold nz. destruct (N.eqb_spec (nth i sizes 0) 0); cbn [negb].
    + split; [intros (_ & _ & C); congruence|discriminate].
    + split; [reflexivity|]. intros _. split; [lia|]. split; [lia|assumption].
  - destruct (rank64_total ws _ Hb) as (r & bit & E). exists bit. rewrite E.
    destruct (rank64_correct ws _ _ _ O E) as [-> _]. f_equal. f_equal.
    rewrite (rank_spec_listed ws _ _ Hs G). f_equal.
    rewrite <- (count_lt_nonzero_idx sizes 0 i) by lia. f_equal.
Qed.

Lemma nonzero_idx_bound : forall sizes, Forall (fun p => p < N.of_nat (length sizes)) (nonzero_idx 0 sizes).
Proof.
  intros sizes. destruct (nonzero_idx_spec sizes 0) as [_ Hin]. rewrite Forall_forall. intros p Hp. apply Hin in Hp. lia.
Qed.

Lemma blen_map : forall {A B} (f : A -> B) l, blen (map f l) = blen l.
Proof. intros. unfold blen. rewrite map_length. reflexivity. Qed.

(* newVLenArray never panics; nil exactly when every element is empty *)
Theorem new_vlen_total : forall elts,
  exists r, new_vlen elts = Val r /\ (r = None <-> Forall (fun e => e = []) elts).
Proof.
  intros elts. unfold new_vlen. set (sizes := map blen elts).
  assert (Hz : Forall (fun s => s = 0) sizes <-> Forall (fun e : list byte => e = []) elts).
  { unfold sizes. rewrite Forall_map. split; apply Forall_impl; intros e He.
    - destruct e; [reflexivity|cbn in He; lia].
    - subst. reflexivity. }
  destruct (N.eqb_spec (sumN sizes) 0) as [H0|H0].
  - exists None. split; [reflexivity|]. split; [intros _; apply Hz, sumN_zero; exact H0|reflexivity].
  - destruct (nonzero_idx_spec sizes 0) as [Hs _].
    destruct (new_bm_sorted (nonzero_idx 0 sizes) (blen elts) R64 (sorted_lt_le _ Hs)) as (ws & E & _).
    rewrite E. cbn [obind]. destruct (scan_sizes None true sizes) as [prev alleq].
    assert (Hnn : forall v : vlen, Some v = None <-> Forall (fun e : list byte => e = []) elts).
    { intros v. split; [discriminate|]. intros H. apply Hz, sumN_zero in H. congruence. }
    destruct alleq.
    + eexists. split; [reflexivity|apply Hnn].
    + destruct (step_to_pos_sorted_le sizes 0) as [Hsle _].
      destruct (new_bm_sorted (step_to_pos 0 sizes) 0 S32 Hsle) as (ws2 & E2 & _).
      rewrite E2. cbn [obind]. eexists. split; [reflexivity|apply Hnn].
Qed.

Lemma nth_sizes : forall (elts : list (list byte)) i, (i < length elts)%nat ->
  nth i (map blen elts) 0 = blen (nth i elts []).
Proof.
  intros elts i Hi. rewrite (nth_indep _ 0 (blen (@nil byte))) by (rewrite map_length; exact Hi). apply map_nth.
Qed.

(* VLenArray.get (newVLenArray elts) i = elts[i] *)
Theorem vlen_get_correct : forall elts va i,
  new_vlen elts = Val (Some va) -> (i < length elts)%nat ->
  vlen_get va (N.of_nat i) = Val (nth i elts []).
Proof.
  intros elts va i H Hi. unfold new_vlen in H. set (sizes := map blen elts) in *.
  destruct (N.eqb_spec (sumN sizes) 0) as [H0|H0]; [discriminate|].
  destruct (nonzero_idx_spec sizes 0) as [Hs _].
  destruct (new_bm_sorted (nonzero_idx 0 sizes) (blen elts) R64 (sorted_lt_le _ Hs)) as (ws & E & L & O & G).
  rewrite E in H. cbn [obind] in H.
  assert (Hlen : length sizes = length elts) by (unfold sizes; apply map_length).
  rewrite bits_cap_eq in L by (unfold blen; rewrite <- Hlen; apply nonzero_idx_bound).
  unfold blen in L. rewrite <- Hlen in L.
  destruct (presence_lookup sizes ws i O L G ltac:(lia)) as [Hbit [bit Hrank]].
  assert (Hsz : nth i sizes 0 = blen (nth i elts [])) by (apply nth_sizes; exact Hi).
  assert (Hempty : nz (nth i sizes 0) = false -> nth i elts [] = []).
  { rewrite Hsz. unfold nz, blen. destruct (nth i elts []); [reflexivity|]. cbn. destruct (N.eqb_spec (N.pos (Pos.of_succ_nat (length l))) 0); [lia|discriminate]. }
  assert (Hnonempty : nz (nth i sizes 0) = true -> nth i elts [] <> []).
  { rewrite Hsz. unfold nz, blen. destruct (nth i elts []); [cbn; discriminate|discriminate]. }
  destruct (scan_sizes None true sizes) as [prev alleq] eqn:Esc. destruct alleq.
  - (* fixed size *)
    injection H as <-. unfold vlen_get. cbn [v_n v_presence v_position v_fixed v_bytes].
    unfold blen at 1. destruct (N.leb_spec (N.of_nat (length sizes)) (N.of_nat i)); [lia|].
    cbn [index_bm b_words b_rank]. rewrite Hbit. cbn [obind].
    destruct (nz (nth i sizes 0)) eqn:Enz; cbn [negb].
    + rewrite Hrank. cbn [obind].
      destruct (scan_sizes_eq _ _ _ _ Esc) as (_ & _ & Hall).
      destruct (scan_sizes_prev _ _ _ _ _ Esc) as [[_ Hzero]|(q & -> & Hq & Hq0)].
      { exfalso. apply H0. apply sumN_zero. exact Hzero. }
      assert (Hallq : forall s, In s sizes -> s <> 0 -> s = q) by (intros s Hsin Hs0; apply Hall; assumption).
      assert (Hiq : blen (nth i elts []) = q).
      { rewrite <- Hsz. apply Hallq; [apply nth_In; lia|]. unfold nz in Enz. destruct (N.eqb_spec (nth i sizes 0) 0); [discriminate|assumption]. }
      rewrite <- (fixed_offset sizes q i Hallq). rewrite <- Hiq. unfold sizes. rewrite firstn_map.
      apply slice_concat. exact Hi.
    + rewrite (Hempty eq_refl). reflexivity.
  - (* variable size *)
    destruct (step_to_pos_sorted_le sizes 0) as [Hsle _].
    destruct (nz (nth i sizes 0)) eqn:Enz.
    + destruct (var_elt_correct elts i Hi (Hnonempty eq_refl)) as (ps & Eps & Hget). fold sizes in Eps, Hget.
      rewrite Eps in H. cbn [obind] in H. injection H as <-.
      unfold vlen_get. cbn [v_n v_presence v_position v_fixed v_bytes].
      unfold blen at 1. destruct (N.leb_spec (N.of_nat (length sizes)) (N.of_nat i)); [lia|].
      cbn [index_bm b_words b_rank]. rewrite Hbit. cbn [obind negb].
      rewrite Hrank. cbn [obind]. exact Hget.
    + destruct (new_bm_sorted (step_to_pos 0 sizes) 0 S32 Hsle) as (ws2 & E2 & _).
      rewrite E2 in H. cbn [obind] in H. injection H as <-.
      unfold vlen_get. cbn [v_n v_presence v_position v_fixed v_bytes].
      unfold blen at 1. destruct (N.leb_spec (N.of_nat (length sizes)) (N.of_nat i)); [lia|].
      cbn [index_bm b_words b_rank]. rewrite Hbit. cbn [obind negb]. rewrite (Hempty eq_refl). reflexivity.
Qed.

(* beyond N: panic("out of bound") *)
Theorem vlen_get_out_of_bound : forall elts va i,
  new_vlen elts = Val (Some va) -> blen elts <= i -> vlen_get va i = Panic.
Proof.
  intros elts va i H Hi. assert (Hn : v_n va = blen elts).
  { unfold new_vlen in H. destruct (sumN (map blen elts) =? 0); [discriminate|].
    destruct (new_bm _ _ R64); [|discriminate]. cbn [obind] in H.
    destruct (scan_sizes None true (map blen elts)) as [prev alleq]. destruct alleq.
    - injection H as <-. cbn [v_n]. apply blen_map.
    - destruct (new_bm _ _ S32); [|discriminate]. cbn [obind] in H. injection H as <-. cbn [v_n]. apply blen_map. }
  unfold vlen_get. rewrite Hn. destruct (N.leb_spec (blen elts) i); [reflexivity|lia].
Qed.
