(* IndexMsg.v - SlimIndex.Get / RangeGet (index/index.go) with the trie lookup run over the
   bit-level message (Msg.mget / Msg.mrangeget: getNode, getLeftChildID, getLeafPrefix,
   VLenArray.get over the rank/select bitmaps) instead of the tree (C12 through the
   bitmaps).  The type assertion, encode.I64.Decode and the reader are Index.read_found.
   Definitions only; proofs in IndexMsgProofs.v. *)
From Slim Require Import Base Keys Model BitmapRank BitmapRank2 Bits Msg Index.

Definition mindex_get (fuel : nat) (m : msg) (vs : vars) (rd : reader) (q : key) : res (option (list byte)) :=
  do f <- mget fuel m vs q; read_found rd q f.

Definition mindex_rangeget (fuel : nat) (m : msg) (vs : vars) (rd : reader) (q : key) : res (option (list byte)) :=
  do f <- mrangeget fuel m vs q; read_found rd q f.
