(* ScanMsgBits.v - scanStackElt.nextLabelBit and updateLabel of trie/slimtrie_scan.go as the
   Go code runs them, bit by bit over the message words:

     nextLabelBit(n): for n > 0 { labelBit++
                                  if bm != 0 { if labelBit == 17 return -1
                                               if bm & Bit[labelBit] != 0 { n-- } }
                                  else       { if labelBit == bitTo-bitFrom return -1
                                               i := bitFrom + labelBit
                                               if Inners.Words[i>>6] & Bit[i&63] != 0 { n-- } } }
                      return labelBit

   ScanMsg.v represents a frame's label bitmap by the ascending list of its set bits
   (Bits.node_labels) and nextLabelBit(n) by "the element n places further in that list";
   ScanMsgBitsProofs.v proves that the loop below computes exactly that element, for every
   message, so the representation loses nothing.  No proofs in this file. *)
From Slim Require Import Base Keys Model BitmapRank BitmapRank2 Bits.
Local Open Scope N_scope.

(* v.bm as scanStackElt.init sets it: qr.bm when bitTo - bitFrom == ShortSize, else 0 *)
Definition frame_bm (m : msg) (from to bm : N) : N :=
  if to - from =? m_shortsize m then bm else 0.

(* [next] = labelBit + 1 (labelBit starts at -1); result: None = -1, Some b = the new labelBit.
   [fuel] bounds the number of bits tested.  Outcome 49: index out of range (Bit[64],
   Words beyond the slice). *)
Fixpoint mnext_label_bit (fuel : nat) (ws : list N) (from to vbm next : N) (n : nat) : res (option N) :=
  match n with
  | O => Ok (if next =? 0 then None else Some (next - 1))
  | S n' =>
      match fuel with
      | O => Err EFuel
      | S f =>
          if negb (vbm =? 0) then
            if next =? 17 then Ok None
            else if 64 <=? next then Err (EPanic 49)
            else if negb (N.land vbm (N.shiftl 1 next) =? 0)
                 then mnext_label_bit f ws from to vbm (next + 1) n'
                 else mnext_label_bit f ws from to vbm (next + 1) n
          else
            if next =? to - from then Ok None
            else
              match get_bit ws (from + next) with
              | Panic => Err (EPanic 49)
              | Val b =>
                  if b then mnext_label_bit f ws from to vbm (next + 1) n'
                  else mnext_label_bit f ws from to vbm (next + 1) n
              end
      end
  end.

(* updateLabel: the label width (in nibbles) of label bit [lbit]; 47 = panic("unknown bitmap size") *)
Definition mlabel_width_bits (vbm from to lbit : N) : res nat :=
  if lbit =? 0 then Ok O
  else if negb (vbm =? 0) then Ok 1%nat
  else if to - from =? 17 then Ok 1%nat
  else if to - from =? 257 then Ok 2%nat
  else Err (EPanic 47).
