(* ScanMsg.v - the scan APIs of trie/slimtrie_scan.go run over the MESSAGE (Bits.msg),
   the way the Go code runs them: getGEPath, leftMost(idx, &path), newIter, the two
   closures it returns, next, scanStackElt.{init,nextLabel,updateLabel,appendLabel,
   appendInnerPrefix,appendLeafPrefix}, ScanFrom, ScanFromTo, NewIter.

   Every node is reached through its id: getNode is Bits.get_node / Bits.get_view
   (NodeTypeBM rank, label-bitmap range, short-node table, stored prefix, leaf
   prefix), the child behind a key label is getLeftChildID (Bits.left_child: Rank128
   over the packed label bitmaps), the rightmost child id is Bits.last_child
   (Rank128(to-1) + bit), scanStackElt.init's firstChildId is Bits.first_child
   (Rank128(from) + 1, carried by get_view), values are getLeafIndex +
   getIthLeafBytes (the leaf ordinal of get_node, Bits.ith_leaf_bytes).

   The scan stack holds node ids and decoded label bitmaps, not subtrees: a frame
   keeps firstChildId, ithLabel and the ascending list of the set bit positions of
   the node's label bitmap as Bits.node_labels decodes them from bits [from,to) of
   Inners, or from the 17-bit ShortTable entry qr.bm for a short node.  nextLabelBit(n)
   (scan to the n-th next set bit of that bitmap) is "the (ithLabel+n)-th element of
   that list", -1 when the list is exhausted; the child a frame points at is
   firstChildId + ithLabel, as in the Go closure.  updateLabel's label width (0 for
   bit 0, else 4 / 8 by the node's word size) is Keys.label_width on the decoded
   word size.

   Positions and the key buffer are counted in nibbles exactly as in Scan.v (see
   the header there); error outcomes use the same site codes as Scan.v so that the
   two models can be compared outcome for outcome:
     20      explicit panic of getGEPath on an incomplete trie
     10, 11  value of a non-leaf / VLenArray.get out of bound
     40..46  states outside the nibble abstraction (as in Scan.v)
     30..39, 48  getNode / rank on an id or bit range that is out of range of the
             message (index-out-of-range panics of the decoder)
   [fuel] arguments bound the number of nodes visited on one root-to-leaf walk.
   ScanMsgProofs.v shows that on the message of every built trie these functions
   return what Scan.v's return on the tree.  No proofs in this file. *)
From Slim Require Import Base Keys Model BitmapRank BitmapRank2 Bits Msg Scan.

(* ---- leftMost(idx, &path): every visited id is appended ---- *)
Fixpoint mleftmost_path (fuel : nat) (m : msg) (vs : vars) (id : nat) : res (list nat) :=
  match fuel with
  | 0 => Err EFuel
  | S f =>
      match get_node m vs (N.of_nat id) with
      | Val (DnLeaf _ _) => Ok [id]
      | Val (DnInner _ _ from _ _ _ _) =>
          match first_child m from with            (* Rank128(Inners, from) + 1 *)
          | Val c => do p <- mleftmost_path f m vs (N.to_nat c); Ok (id :: p)
          | Panic => Err (EPanic 34)
          end
      | Panic => Err (EPanic 35)
      end
  end.

(* ---- getGEPath ---- *)
(* the three conditions of the explicit panic *)
Definition msg_complete (m : msg) : bool :=
  match m_innerpfx m with
  | Some ip =>
      match v_position ip with
      | Some _ => match m_leafpfx m with Some _ => true | None => false end
      | None => false
      end
  | None => false
  end.

(* loop state at exit: path, eqID (id, position, whether getNode visited it),
   (rID, rightPathLen); None is -1 *)
Definition mgstate : Type := (list nat * option (nat * nat * bool) * option (nat * nat))%type.

Fixpoint mge_down (fuel : nat) (m : msg) (vs : vars) (qn : list nat) (l id i : nat)
         (path : list nat) (rc : option (nat * nat)) : res mgstate :=
  match fuel with
  | 0 => Err EFuel
  | S f =>
      match get_node m vs (N.of_nat id), get_view m vs (N.of_nat id) with
      | Val (DnLeaf _ _), _ => Ok (path, Some (id, i, true), rc)
      | Val (DnInner _ _ from to bm _ _), Val (VInner _ big _ pfx _ _) =>
          match ge_advance qn i pfx with
          | PLt => Ok (path, None, Some (id, length path))
          | PGt => Ok (path, None, rc)
          | PEq i1 =>
              let path1 := path ++ [id] in
              match left_child m from to bm (N.of_nat (label_at big qn i1)), last_child m to with
              | Val (lch, has), Val rm =>
                  let chid := (lch + has)%N in
                  let right := (chid + 1)%N in
                  let rc' := if (right <=? rm)%N then Some (N.to_nat right, length path1) else rc in
                  if N.eqb has 0 then Ok (path1, None, rc')
                  else if Nat.eqb i1 l then Ok (path1, Some (N.to_nat chid, i1, false), rc')
                  else mge_down f m vs qn l (N.to_nat chid) (i1 + wsize big) path1 rc'
              | _, _ => Err (EPanic 38)
              end
          end
      | _, _ => Err (EPanic 39)
      end
  end.

Definition mge_path (fuel : nat) (m : msg) (vs : vars) (q : key) : res (list nat * bool) :=
  match m_nodetype m with
  | None => Ok ([], false)
  | Some _ =>
      if msg_complete m then
        let qn := nibs q in
        let l := length qn in
        do st <- mge_down fuel m vs qn l 0 0 [] None;
        let '(path, eq, rc) := st in
        let fallback :=
            match rc with
            | None => Ok ([], false)
            | Some (rid, rpl) =>
                do lp <- mleftmost_path fuel m vs rid;
                Ok (firstn rpl path ++ lp, false)
            end in
        match eq with
        | Some (id, i, visited) =>
            (* cmpLeafPrefix(key[i>>3:], qr) *)
            do cmp <- match m_leafpfx m with
                      | Some _ => do t <- msess_tail m vs id visited;
                                  Ok (bytes_cmp (skipn (i / 2) q) (match t with Some t => t | None => [] end))
                      | None => Ok Eq
                      end;
            match cmp with
            | Gt => fallback
            | Eq => Ok (path ++ [id], true)
            | Lt => Ok (path ++ [id], false)
            end
        | None => fallback
        end
      else Err (EPanic 20)
  end.

(* ---- scanStackElt ---- *)
Record mframe := {
  mf_fc : nat;                    (* firstChildId *)
  mf_big : bool;                  (* bitTo - bitFrom = 257 (word size 8) *)
  mf_labels : list nat;           (* set bits of the node's label bitmap, ascending *)
  mf_idx : nat;                   (* ithLabel *)
  mf_ps : nat; mf_pe : nat; mf_le : nat   (* prefixStart, prefixEnd, labelEnd *)
}.

Definition view_pfx (v : nview) : option (list nat) :=
  match v with VLeaf _ _ _ => None | VInner _ _ _ pfx _ _ => pfx end.

(* init on the session of getNode(parentId): child = Some c for "childId = c", None for -1 *)
Definition minit_frame (v : nview) (child : option nat) (bufidx : nat) : res mframe :=
  match v with
  | VLeaf _ _ _ => Err (EPanic 45)
  | VInner _ big _ pfx fc labels =>
      let pe := match pfx with Some p => even_down bufidx + length p | None => bufidx end in
      do idx <- match child with
                | None => Ok 0
                | Some c => if c <? fc then Err (EPanic 40) else Ok (c - fc)
                end;
      match nth_error labels idx with
      | None => Err (EPanic 43)
      | Some lb =>
          Ok {| mf_fc := fc; mf_big := big; mf_labels := labels; mf_idx := idx;
                mf_ps := bufidx; mf_pe := pe; mf_le := pe + label_width big lb |}
      end
  end.

Definition mappend_inner_prefix (f : mframe) (pfx : option (list nat)) (buf : list nat) : res (list nat) :=
  match pfx with
  | None => Ok buf
  | Some p =>
      if length buf <? even_down (mf_ps f) then Err (EPanic 41)
      else Ok (firstn (even_down (mf_ps f)) buf ++ p)
  end.

Definition mappend_label (f : mframe) (buf : list nat) : res (list nat) :=
  match nth_error (mf_labels f) (mf_idx f) with
  | None => Err (EPanic 43)
  | Some lb =>
      if length buf <? mf_pe f then Err (EPanic 41)
      else if mf_big f && negb (Nat.even (mf_pe f)) && negb (Nat.eqb lb 0) then Err (EPanic 42)
      else Ok (firstn (mf_pe f) buf ++ label_nibs (mf_big f) lb)
  end.

Definition mappend_leaf_prefix (f : mframe) (tail : option (list byte)) (buf : list nat) : res (list nat) :=
  if length buf <? even_down (mf_le f) then Err (EPanic 41)
  else Ok (firstn (even_down (mf_le f)) buf ++ tail_nibs tail).

(* next(): nextLabel(1) on the top frame, popping exhausted frames *)
Fixpoint mnext_stack (stk : list mframe) : list mframe :=
  match stk with
  | [] => []
  | f :: r =>
      match nth_error (mf_labels f) (S (mf_idx f)) with
      | Some lb =>
          {| mf_fc := mf_fc f; mf_big := mf_big f; mf_labels := mf_labels f; mf_idx := S (mf_idx f);
             mf_ps := mf_ps f; mf_pe := mf_pe f; mf_le := mf_pe f + label_width (mf_big f) lb |} :: r
      | None => mnext_stack r
      end
  end.

(* the inner loop of the iterator closure below the top frame: [c] = last.firstChildId +
   last.ithLabel; getNode(c); a leaf ends the walk, an inner node is pushed with childId = -1 *)
Fixpoint mdescend_first (fuel : nat) (m : msg) (vs : vars) (c : nat) (last : mframe) (buf : list nat)
         (stk : list mframe) : res (list mframe * list nat * nat) :=
  match fuel with
  | 0 => Err EFuel
  | S fu =>
      match get_view m vs (N.of_nat c) with
      | Panic => Err (EPanic 48)
      | Val (VLeaf _ _ tail) =>
          do buf' <- mappend_leaf_prefix last tail buf;
          Ok (stk, buf', c)
      | Val v =>
          do f <- minit_frame v None (mf_le last);
          do buf1 <- mappend_inner_prefix f (view_pfx v) buf;
          do buf2 <- mappend_label f buf1;
          mdescend_first fu m vs (mf_fc f + mf_idx f) f buf2 (f :: stk)
      end
  end.

(* ---- the iterator ---- *)
Inductive mimode :=
| MMNormal
| MMSingle (id : nat) (consumed : bool).     (* "SlimTrie is built with only one key" *)

Record miter := {
  mit_mode : mimode;
  mit_stack : list mframe;        (* top first; [] is stackIdx = -1 *)
  mit_buf : list nat;
  mit_withv : bool
}.

(* getLeafIndex + getIthLeafBytes when withValue *)
Definition mleaf_val (m : msg) (vs : vars) (withv : bool) (id : nat) : res (option (list byte)) :=
  if withv then
    match get_node m vs (N.of_nat id) with
    | Val (DnLeaf ith _) =>
        match ith_leaf_bytes m ith with
        | Val v => Ok v
        | Panic => Err (EPanic 11)
        end
    | Val (DnInner _ _ _ _ _ _ _) => Err (EPanic 10)
    | Panic => Err (EPanic 33)
    end
  else Ok None.

(* the loop of newIter over path[0 .. len-2] *)
Fixpoint minit_frames (m : msg) (vs : vars) (path : list nat) (bufidx : nat) (buf : list nat) (stk : list mframe)
         {struct path} : res (list mframe * list nat) :=
  match path with
  | [] => Ok (stk, buf)
  | t :: rest =>
      match rest with
      | [] => Ok (stk, buf)
      | c :: _ =>
          match get_view m vs (N.of_nat t) with
          | Panic => Err (EPanic 48)
          | Val v =>
              do f <- minit_frame v (Some c) bufidx;
              do buf1 <- mappend_inner_prefix f (view_pfx v) buf;
              do buf2 <- mappend_label f buf1;
              minit_frames m vs rest (mf_le f) buf2 (f :: stk)
          end
      end
  end.

Definition mnew_iter (m : msg) (vs : vars) (path : list nat) (skip withv : bool) : res miter :=
  do (stk, buf) <- minit_frames m vs path 0 [] [];
  if skip then
    Ok {| mit_mode := MMNormal; mit_stack := mnext_stack stk; mit_buf := buf; mit_withv := withv |}
  else
    match path with
    | [c] => Ok {| mit_mode := MMSingle c false; mit_stack := stk; mit_buf := buf; mit_withv := withv |}
    | _ => Ok {| mit_mode := MMNormal; mit_stack := stk; mit_buf := buf; mit_withv := withv |}
    end.

(* NewIter *)
Definition miter_init (fuel : nat) (m : msg) (vs : vars) (start : key) (incl withv : bool) : res miter :=
  do (path, eq) <- mge_path fuel m vs start;
  mnew_iter m vs path (eq && negb incl) withv.

(* one call of the returned closure; None = (nil, nil) *)
Definition miter_next (fuel : nat) (m : msg) (vs : vars) (it : miter) : res (option kv * miter) :=
  match mit_mode it with
  | MMSingle c consumed =>
      if consumed then Ok (None, it)
      else
        match get_view m vs (N.of_nat c) with
        | Panic => Err (EPanic 48)
        | Val (VInner _ _ _ _ _ _) => Err (EPanic 44)
        | Val (VLeaf _ _ tail) =>
            let buf' := mit_buf it ++ tail_nibs tail in
            do k <- pack_res buf';
            do v <- mleaf_val m vs (mit_withv it) c;
            Ok (Some (k, v),
                {| mit_mode := MMSingle c true; mit_stack := mit_stack it; mit_buf := buf'; mit_withv := mit_withv it |})
        end
  | MMNormal =>
      match mit_stack it with
      | [] => Ok (None, it)
      | top :: rest =>
          do buf1 <- mappend_label top (mit_buf it);
          match nth_error (mf_labels top) (mf_idx top) with
          | None => Err (EPanic 43)
          | Some _ =>
              (* childId := last.firstChildId + last.ithLabel *)
              do (sb, leaf) <- mdescend_first fuel m vs (mf_fc top + mf_idx top) top buf1 (top :: rest);
              do k <- pack_res (snd sb);
              do v <- mleaf_val m vs (mit_withv it) leaf;
              Ok (Some (k, v),
                  {| mit_mode := MMNormal; mit_stack := mnext_stack (fst sb); mit_buf := snd sb;
                     mit_withv := mit_withv it |})
          end
      end
  end.

(* n consecutive calls *)
Fixpoint miter_run (fuel n : nat) (m : msg) (vs : vars) (it : miter) : res (list (option kv)) :=
  match n with
  | 0 => Ok []
  | S k =>
      do (r, it') <- miter_next fuel m vs it;
      do rs <- miter_run fuel k m vs it';
      Ok (r :: rs)
  end.

(* calls until the first nil; [lfuel] bounds the number of calls *)
Fixpoint miter_drain (fuel lfuel : nat) (m : msg) (vs : vars) (it : miter) : res (list kv * miter) :=
  match lfuel with
  | 0 => Err EFuel
  | S f =>
      do (r, it') <- miter_next fuel m vs it;
      match r with
      | None => Ok ([], it')
      | Some x => do (xs, it'') <- miter_drain fuel f m vs it'; Ok (x :: xs, it'')
      end
  end.

Definition miter_all (fuel lfuel : nat) (m : msg) (vs : vars) (start : key) (incl withv : bool) (extra : nat)
  : res (list kv * list (option kv)) :=
  do it <- miter_init fuel m vs start incl withv;
  do (xs, it') <- miter_drain fuel lfuel m vs it;
  do more <- miter_run fuel extra m vs it';
  Ok (xs, more).

(* ---- ScanFrom / ScanFromTo (callbacks as in Scan.v) ---- *)
Fixpoint mscan_loop (fuel lfuel : nat) (m : msg) (vs : vars) (it : miter) (wrap : nat -> kv -> bool * bool) (i : nat)
  : res (list kv) :=
  match lfuel with
  | 0 => Err EFuel
  | S f =>
      do (r, it') <- miter_next fuel m vs it;
      match r with
      | None => Ok []
      | Some x =>
          let '(cont, delivered) := wrap i x in
          if cont then
            do xs <- mscan_loop fuel f m vs it' wrap (S i);
            Ok (if delivered then x :: xs else xs)
          else Ok (if delivered then [x] else [])
      end
  end.

Definition mscan_from (fuel lfuel : nat) (m : msg) (vs : vars) (start : key) (incl withv : bool) (fn : callback)
  : res (list kv) :=
  do it <- miter_init fuel m vs start incl withv;
  mscan_loop fuel lfuel m vs it (fun i x => (fn i x, true)) 0.

Definition mscan_from_to (fuel lfuel : nat) (m : msg) (vs : vars) (start : key) (incl : bool) (e : key) (incle : bool)
           (withv : bool) (fn : callback) : res (list kv) :=
  do it <- miter_init fuel m vs start incl withv;
  mscan_loop fuel lfuel m vs it
             (fun i x => if beyond e incle (fst x) then (false, false) else (fn i x, true)) 0.

(* number of leaves = calls before the first nil, read off the message: nodes - inner nodes
   (NodeTypeBM has one set bit per inner node); used as the call bound by the drivers *)
Definition msg_scan_fuel (m : msg) : nat :=
  match m_nodetype m with
  | None => 1
  | Some nt => S (N.to_nat (node_count m))
  end.
