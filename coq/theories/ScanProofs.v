(* ScanProofs.v - C04 on the tree model: on a trie built with complete keys the
   iterator started at any string yields exactly the retained entries in range,
   in key order, each once, with key bytes rebuilt exactly and the stored value
   bytes, then nil forever; ScanFrom / ScanFromTo cut that sequence as the
   callback semantics says. *)
From Slim Require Import Base Keys KeysProofs ListFacts Model TrieInv BuildProofs QueryProofs ConsistProofs OrderProofs
     Scan ScanBasicProofs ScanIdProofs ScanIterProofs ScanPathProofs ScanItemsProofs ScanGeProofs.
From Coq Require Import Sorting.Sorted ZifyNat ZifyBool.

Arguments Nat.div : simpl never.
Arguments Nat.modulo : simpl never.

(* ---------- the statement's vocabulary ---------- *)
(* k >= s, or k > s for an exclusive start *)
Definition in_range (s : key) (incl : bool) (k : key) : bool :=
  match bytes_cmp k s with Gt => true | Eq => incl | Lt => false end.

(* indexes (into the build input) of the retained keys in range, ascending *)
Definition scan_indexes (o : opts) (keys : list key) (vals : option (list (list byte))) (s : key) (incl : bool) : list nat :=
  filter (fun i => retained o keys vals i && in_range s incl (nth i keys [])) (List.seq 0 (length keys)).

(* what is handed out for key index i *)
Definition elem_ok (keys : list key) (vals : option (list (list byte))) (withv : bool) (i : nat) (x : kv) : Prop :=
  fst x = nth i keys [] /\
  (if withv then val_bytes (snd x) = supplied vals i /\ (vals = None -> snd x = None) else snd x = None).

(* ---------- entries and indexes ---------- *)
Lemma mk_ents_filter_idx s incl : forall keys b keep,
  map e_idx (filter (fun e => e_keep e && in_range s incl (e_key e)) (mk_ents b keys keep)) =
  filter (fun i => nth (i - b) keep true && in_range s incl (nth (i - b) keys [])) (List.seq b (length keys)).
Proof.
  induction keys as [|k r IH]; intros b keep; [reflexivity|].
  cbn [mk_ents length List.seq filter]. cbn [e_keep e_key]. rewrite Nat.sub_diag. change (nth 0 (k :: r) []) with k.
  assert (match keep with b0 :: _ => b0 | [] => true end = nth 0 keep true) as -> by (destruct keep; reflexivity).
  assert (filter (fun i => nth (i - b) keep true && in_range s incl (nth (i - b) (k :: r) [])) (List.seq (S b) (length r)) =
          filter (fun i => nth (i - S b) (tl keep) true && in_range s incl (nth (i - S b) r [])) (List.seq (S b) (length r))) as E.
  { apply filter_ext_in. intros i Hi. apply in_seq in Hi. replace (i - b) with (S (i - S b)) by lia. cbn [nth].
    destruct keep as [|k0 kr]; [destruct (i - S b); reflexivity|reflexivity]. }
  rewrite E, <- IH.
  destruct (nth 0 keep true && in_range s incl k); reflexivity.
Qed.

Lemma ent_of_root o keys vals e :
  In e (s_ents (root_subset o keys vals)) ->
  e_idx e < length keys /\ nth (e_idx e) keys [] = e_key e /\ e_keep e = retained o keys vals (e_idx e).
Proof.
  cbn [root_subset s_ents]. intros He. apply In_nth_error in He. destruct He as (n & Hn).
  assert (n < length keys) as Hlt.
  { assert (n < length (mk_ents 0 keys (to_keep o (length keys) vals))) as H by (apply nth_error_Some; rewrite Hn; discriminate).
    clear - H. revert H. generalize 0 at 1. generalize (to_keep o (length keys) vals). revert n.
    induction keys as [|k r IH]; intros n kp b H; cbn in *; [lia|]. destruct n; [lia|].
    apply (proj1 (Nat.succ_lt_mono _ _)). eapply IH. apply (proj2 (Nat.succ_lt_mono _ _)). exact H. }
  destruct (nth_error keys n) as [k|] eqn:Ek; [|apply nth_error_None in Ek; lia].
  rewrite (mk_ents_nth keys 0 _ n k Ek) in Hn. inversion Hn; subst e. cbn [e_idx e_key e_keep Nat.add].
  split; [exact Hlt|]. split; [apply nth_error_nth; exact Ek|reflexivity].
Qed.

Lemma scan_indexes_ents o keys vals s incl :
  scan_indexes o keys vals s incl =
  map e_idx (filter (fun e => in_range s incl (e_key e)) (kept (root_subset o keys vals))).
Proof.
  unfold scan_indexes, kept, root_subset. cbn [s_ents].
  assert (forall l, filter (fun e => in_range s incl (e_key e)) (filter e_keep l) =
                    filter (fun e => e_keep e && in_range s incl (e_key e)) l) as E.
  { induction l as [|e l IH]; [reflexivity|]. cbn [filter]. destruct (e_keep e); cbn [andb filter]; rewrite IH; reflexivity. }
  rewrite E, mk_ents_filter_idx. apply filter_ext. intros i. rewrite Nat.sub_0_r. reflexivity.
Qed.

Lemma items_length : forall t buf from, length (items t buf from) = leaf_count t.
Proof.
  induction t as [id ord tail eidx|id big step pfx fc ch IH] using tree_ind'; intros buf from; [reflexivity|].
  rewrite items_inner. cbn [leaf_count]. unfold kids_items.
  generalize (b1_of pfx from buf) (pe_of pfx from). intros b1 pe.
  induction IH as [|[x c] r Hc _ IHr]; [reflexivity|]. cbn [flat_map fst snd]. rewrite app_length, Hc, IHr. reflexivity.
Qed.

(* ---------- order facts ---------- *)
Lemma lex_above a b q : lex_cmp a b = Lt -> lex_cmp a q <> Lt -> lex_cmp b q = Gt.
Proof.
  intros Hab Haq. destruct (lex_cmp a q) eqn:E; [|congruence|].
  - apply lex_cmp_eq in E. subst q. rewrite lex_cmp_antisym, Hab. reflexivity.
  - assert (lex_cmp q a = Lt) as Hqa by (rewrite lex_cmp_antisym, E; reflexivity).
    rewrite lex_cmp_antisym, (lex_lt_trans _ _ _ Hqa Hab). reflexivity.
Qed.

Lemma in_range_nibs s incl e : ent_ok e ->
  in_range s incl (e_key e) = match lex_cmp (e_nibs e) (nibs s) with Gt => true | Eq => incl | Lt => false end.
Proof. intros Hok. unfold in_range. rewrite bytes_cmp_nibs, <- Hok. reflexivity. Qed.

(* ---------- what the closure hands out for the listed items ---------- *)
Lemma outs_exist o keys vals T r lidx withv :
  Built o keys vals T r lidx ->
  forall K I, Forall2 item_of K I ->
    (forall x, In x I -> In x (items r [] 0)) ->
    (forall e, In e K -> In e (s_ents (root_subset o keys vals))) ->
    exists outs, Forall2 (out_of T withv) I outs /\ Forall2 (elem_ok keys vals withv) (map e_idx K) outs.
Proof.
  intros Bt. pose proof (root_inv o keys vals (bt_sorted _ _ _ _ _ _ Bt) (bt_nonempty _ _ _ _ _ _ Bt)) as I0.
  pose proof (si_ok _ I0) as Hok. rewrite Forall_forall in Hok.
  induction 1 as [|e x K I [Hx Hl] _ IH]; intros HI HK; [exists []; split; constructor|].
  destruct IH as (outs & H1 & H2); [intros; apply HI; right; assumption|intros; apply HK; right; assumption|].
  pose proof (HK e (or_introl eq_refl)) as He. pose proof (HI x (or_introl eq_refl)) as Hxin.
  destruct (ent_of_root o keys vals e He) as (_ & Hkey & _).
  destruct (items_leaves r [] 0 x Hxin) as (id & ord & tail & eidx & Ex & Hlv).
  rewrite Ex in Hl. cbn [leaf_eidx] in Hl. inversion Hl; subst eidx.
  pose proof (leaf_ok_root_nth lidx r ord (e_idx e) (bt_leaf _ _ _ _ _ _ Bt) Hlv) as Hn.
  destruct (leaf_value_kept vals lidx T id ord tail (e_idx e) (bt_leaves _ _ _ _ _ _ Bt) Hn) as (v & Hv & Hvb & Hvn).
  exists ((e_key e, if withv then v else None) :: outs). split; constructor; try assumption.
  - unfold out_of. cbn [fst snd]. split; [rewrite Hx, (Hok e He); apply pack_nibs|].
    rewrite Ex. unfold leaf_val. destruct withv; [exact Hv|reflexivity].
  - unfold elem_ok. cbn [fst snd]. split; [symmetry; exact Hkey|]. destruct withv; [split; assumption|reflexivity].
Qed.

(* ---------- the main theorem ---------- *)
Theorem scan_complete o keys vals T :
  build o keys vals = Ok T -> complete_opts o = true ->
  forall s incl withv, exists it outs,
    iter_init T s incl withv = Ok it /\
    Forall2 (elem_ok keys vals withv) (scan_indexes o keys vals s incl) outs /\
    (forall n, iter_run n T it = Ok (firstn n (map Some outs ++ repeat None n))) /\
    (forall fn, scan_from T s incl withv fn = Ok (cut fn 0 outs)) /\
    (forall e incle fn, scan_from_to T s incl e incle withv fn = Ok (cut_to e incle fn 0 outs)).
Proof.
  intros Hb Hc s incl withv. unfold complete_opts in Hc. apply andb_true_iff in Hc. destruct Hc as [Hinner Hleaf].
  (* it suffices to exhibit the iterator state, its remaining items and their outputs *)
  assert (forall it outs,
            iter_init T s incl withv = Ok it -> iter_ok it -> it_withv it = withv ->
            Forall2 (out_of T withv) (iter_rem it) outs -> length outs < scan_fuel T ->
            Forall2 (elem_ok keys vals withv) (scan_indexes o keys vals s incl) outs ->
            exists it outs,
              iter_init T s incl withv = Ok it /\
              Forall2 (elem_ok keys vals withv) (scan_indexes o keys vals s incl) outs /\
              (forall n, iter_run n T it = Ok (firstn n (map Some outs ++ repeat None n))) /\
              (forall fn, scan_from T s incl withv fn = Ok (cut fn 0 outs)) /\
              (forall e incle fn, scan_from_to T s incl e incle withv fn = Ok (cut_to e incle fn 0 outs))) as Hfin.
  { intros it outs Hi Hok Hw HF Hfuel He. exists it, outs. rewrite <- Hw in HF.
    split; [exact Hi|]. split; [exact He|]. split; [apply iter_run_spec; assumption|].
    destruct (iter_drain_spec T outs it (scan_fuel T) Hok HF Hfuel) as (it' & Hd & _).
    exact (scan_callback_semantics T s incl withv it outs it' Hi Hd). }
  destruct (build_ok _ _ _ _ Hb) as [[-> ->]|(r & lidx & Bt)].
  { (* the empty trie *)
    apply (Hfin (empty_iter withv) []); [reflexivity|repeat split; constructor|reflexivity|constructor|cbn; lia|constructor]. }
  pose proof (root_inv o keys vals (bt_sorted _ _ _ _ _ _ Bt) (bt_nonempty _ _ _ _ _ _ Bt)) as I0.
  pose proof (bt_trie _ _ _ _ _ _ Bt) as Ht.
  set (s0 := root_subset o keys vals) in *.
  set (qn := nibs s). set (l := length qn).
  pose proof (si_ok _ I0) as Hok. rewrite Forall_forall in Hok.
  assert (agree s0 (s_from s0) qn) as Hagq by (split; [apply Nat.le_0_l|intros; reflexivity]).
  assert (agree s0 (s_from s0) []) as Hagb by (split; [apply Nat.le_0_l|intros; reflexivity]).
  pose proof (ge_rec_spec o Hinner Hleaf s r s0 Ht I0 Hagq [] Hagb) as Hge. change (s_from s0) with 0 in Hge. fold qn l in Hge.
  pose proof (items_spec o Hinner Hleaf r s0 Ht I0 [] Hagb) as Hit. change (s_from s0) with 0 in Hit.
  pose proof (scan_wf_of_trie o Hinner r s0 Ht I0) as Hwf. change (s_from s0) with 0 in Hwf.
  pose proof (built_ids o keys vals T Hb r (bt_root _ _ _ _ _ _ Bt)) as Hids.
  assert (ge_path T s = Ok (of_gres (ge_rec s qn l r 0) None [])) as Hgp.
  { unfold ge_path. rewrite (bt_root _ _ _ _ _ _ Bt), (bt_innerpfx _ _ _ _ _ _ Bt), (bt_leafpfx _ _ _ _ _ _ Bt), Hinner, Hleaf.
    cbn [andb]. fold qn l. rewrite (ge_down_rec s qn l r 0 [] None I). reflexivity. }
  assert (scan_fuel T = S (leaf_count r)) as Hfuel by (unfold scan_fuel; rewrite (bt_root _ _ _ _ _ _ Bt); reflexivity).
  pose proof (SS_filter ent_lt e_keep _ (si_sorted _ I0)) as Hsorted. fold (kept s0) in Hsorted.
  assert (forall e, In e (kept s0) -> In e (s_ents s0)) as Hkin by (intros e He; apply filter_In in He; tauto).
  pose proof (scan_indexes_ents o keys vals s incl) as Hsi. fold s0 in Hsi.
  assert (iter_init T s incl withv =
          new_iter (fst (of_gres (ge_rec s qn l r 0) None [])) (snd (of_gres (ge_rec s qn l r 0) None []) && negb incl) withv) as Hinit.
  { unfold iter_init. rewrite Hgp. cbn [bind]. destruct (of_gres (ge_rec s qn l r 0) None []). reflexivity. }
  destruct (ge_rec s qn l r 0) as [p eq|].
  - (* a path to the first item that is not below s *)
    destruct Hge as (B & A & Hps & HB & (xa & R & -> & Hxa & Heq)). fold qn in Hxa, Heq.
    cbn [of_gres app fst snd] in Hinit.
    destruct (new_iter_spec r p B (xa :: R) (eq && negb incl) withv Hps Hids Hwf) as (it & Hni & Hiok & Hiw & Hrem).
    rewrite Hni in Hinit.
    rewrite (psplit_items _ _ _ _ _ _ Hps) in Hit.
    apply Forall2_app_inv_r in Hit. destruct Hit as (K1 & K2 & HK1 & HK2 & EK).
    revert Hiw. inversion HK2 as [|x2 ? K2' ? [Hx2 Hl2] HK2' E1 E2]; subst. clear HK2. intros Hiw.
    (* the entries left of the path are below s, the others are not *)
    assert (filter (fun e => in_range s incl (e_key e)) K1 = []) as EF1.
    { apply filter_all_false. clear - HK1 HB Hok Hkin EK.
      assert (forall e, In e K1 -> In e (s_ents s0)) as Hin by (intros e He; apply Hkin; rewrite EK; apply in_or_app; left; exact He).
      clear EK Hkin. induction HK1 as [|e x K I [Hx _] _ IH]; [constructor|]. inversion HB as [|? ? Hlt HB']; subst.
      constructor; [|apply IH; [exact HB'|intros; apply Hin; right; assumption]].
      rewrite (in_range_nibs s incl e (Hok e (Hin e (or_introl eq_refl)))). unfold ilt in Hlt. rewrite Hx in Hlt. rewrite Hlt. reflexivity. }
    rewrite EK in Hsorted. apply SS_app_inv in Hsorted. destruct Hsorted as (_ & Hs2 & _).
    apply StronglySorted_inv in Hs2. destruct Hs2 as [_ Hgt2]. rewrite Forall_forall in Hgt2.
    assert (forall e, In e (x2 :: K2') -> In e (s_ents s0)) as Hin2 by (intros e He; apply Hkin; rewrite EK; apply in_or_app; right; exact He).
    assert (filter (fun e => in_range s incl (e_key e)) K2' = K2') as EF2.
    { apply filter_all_true. rewrite Forall_forall. intros e He.
      rewrite (in_range_nibs s incl e (Hok e (Hin2 e (or_intror He)))). fold qn.
      rewrite (lex_above (e_nibs x2) (e_nibs e) qn (Hgt2 e He)); [reflexivity|rewrite <- Hx2; exact Hxa]. }
    assert (filter (fun e => in_range s incl (e_key e)) (x2 :: K2') = if eq && negb incl then K2' else x2 :: K2') as EF3.
    { cbn [filter]. rewrite EF2. rewrite (in_range_nibs s incl x2 (Hok x2 (Hin2 x2 (or_introl eq_refl)))). fold qn.
      rewrite <- Hx2. destruct (lex_cmp (fst xa) qn) eqn:Ec; [|congruence|].
      - apply lex_cmp_eq in Ec. rewrite (proj2 Heq Ec). destruct incl; reflexivity.
      - assert (eq = false) as -> by (destruct eq; [|reflexivity]; rewrite (proj1 Heq eq_refl), lex_cmp_refl in Ec; discriminate).
        reflexivity. }
    rewrite EK, filter_app, EF1, EF3 in Hsi. cbn [app] in Hsi.
    set (Ksel := if eq && negb incl then K2' else x2 :: K2') in *.
    assert (Forall2 item_of Ksel (iter_rem it)) as Hsel.
    { rewrite Hrem. unfold Ksel. destruct (eq && negb incl); [exact HK2'|constructor; [split; assumption|exact HK2']]. }
    assert (forall x, In x (iter_rem it) -> In x (items r [] 0)) as Hsub.
    { intros x Hx. rewrite (psplit_items _ _ _ _ _ _ Hps). apply in_or_app. right.
      rewrite Hrem in Hx. destruct (eq && negb incl); [right; exact Hx|exact Hx]. }
    destruct (outs_exist o keys vals T r lidx withv Bt Ksel (iter_rem it) Hsel Hsub) as (outs & Ho1 & Ho2).
    { intros e He. apply Hin2. unfold Ksel in He. destruct (eq && negb incl); [right; exact He|exact He]. }
    apply (Hfin it outs); try assumption; [|rewrite Hsi; exact Ho2].
    rewrite Hfuel, <- (Forall2_length_eq _ _ _ Ho1), <- (items_length r [] 0), (psplit_items _ _ _ _ _ _ Hps), app_length, Hrem.
    destruct (eq && negb incl); cbn [tl length]; lia.
  - (* every item is below s *)
    cbn [of_gres fb fst snd andb] in Hinit. unfold ge_ok in Hge.
    assert (filter (fun e => in_range s incl (e_key e)) (kept s0) = []) as EF.
    { apply filter_all_false. clear - Hit Hge Hok Hkin.
      induction Hit as [|e x K I [Hx _] _ IH]; [constructor|]. inversion Hge as [|? ? Hlt Hge']; subst.
      constructor; [|apply IH; [exact Hge'|intros; apply Hkin; right; assumption]].
      rewrite (in_range_nibs s incl e (Hok e (Hkin e (or_introl eq_refl)))). unfold ilt in Hlt. rewrite Hx in Hlt. rewrite Hlt. reflexivity. }
    rewrite EF in Hsi. cbn [map] in Hsi.
    apply (Hfin (empty_iter withv) []); [rewrite Hinit; reflexivity|repeat split; constructor|reflexivity|constructor|rewrite Hfuel; cbn; lia|rewrite Hsi; constructor].
Qed.

(* ---------- "in strictly ascending byte order, each once" ---------- *)
Lemma seq_SS : forall n a, StronglySorted lt (List.seq a n).
Proof.
  induction n as [|n IH]; intros a; [constructor|]. cbn [List.seq]. constructor; [apply IH|].
  rewrite Forall_forall. intros x Hx. apply in_seq in Hx. lia.
Qed.

Lemma SS_nth {A} (R : A -> A -> Prop) d : forall l i j,
  StronglySorted R l -> i < j -> j < length l -> R (nth i l d) (nth j l d).
Proof.
  induction l as [|x l IH]; intros i j Hs Hij Hj; [cbn in Hj; lia|].
  inversion Hs as [|? ? Hs' Hf]; subst. destruct j as [|j]; [lia|]. cbn [length] in Hj.
  destruct i as [|i].
  - cbn [nth]. rewrite Forall_forall in Hf. apply Hf. apply nth_In. lia.
  - cbn [nth]. apply IH; [exact Hs'|lia|lia].
Qed.

Theorem scan_keys_ascending o keys vals T s incl :
  build o keys vals = Ok T ->
  StronglySorted key_lt (map (fun i => nth i keys []) (scan_indexes o keys vals s incl)).
Proof.
  intros Hb.
  assert (StronglySorted key_lt keys) as Hk.
  { destruct (build_ok _ _ _ _ Hb) as [[-> _]|(r & lidx & Bt)]; [constructor|].
    apply AdjSorted_strong. exact (bt_sorted _ _ _ _ _ _ Bt). }
  unfold scan_indexes.
  apply (SS_map (fun i j => i < j /\ j < length keys)).
  - intros i j [Hij Hj]. apply SS_nth; assumption.
  - eapply SS_impl; [|apply SS_filter; apply seq_SS].
    intros i j _ Hj Hij. split; [exact Hij|]. apply filter_In in Hj. destruct Hj as [Hj _]. apply in_seq in Hj. lia.
Qed.
