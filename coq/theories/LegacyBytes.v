(* LegacyBytes.v - from the BYTES of a three-array legacy stream (0.5.0 - 0.5.9) to the old
   node table of LegacyConv.v and back.  Definitions only; the proofs are in
   LegacyBytesProofs.v / LegacyBytesMainProofs.v, the closing theorems in props/C06e.v.

   writer side (twin of harness/c06_writers.go: c06ArraysOf, c06Index, c06Sections)
     [arrays_of_old l ot vals]  the three array.Array32 messages (children, steps, leaves)
                                a writer of layout [l] stores for the node table [ot]:
                                index bitmaps + Offsets as array.InitIndex writes them
                                (0 for an empty word), 0.5.9 padding, children elements as
                                uint32 (bitmap | first child << 16) or as 16-bit bitmaps
                                in BMElts (bitmap.OfMany, IndexRank128), uint16 steps,
                                the leaf values
     [stream_of_arrays ver a]   three pbcmpl sections (Frame.frame) of ArrWire.ser_array32
     [write_stream l keys vals] LegacyConv.old_write, then the two above
   reader side (trie/slimtrie_marshal.go: Unmarshal's legacy branch and the accessors
   before000510ToNewChildrenArray uses)
     [arrays_of_stream b]       pbcmpl.Unmarshal x 3 (Frame.read_section, ArrWire.parse_array32)
     [old_of_arrays esz ..]     per old id: bmhas (bitmap.SafeGet1), getBM16Child
                                (bitmap.Rank64 on Bitmaps/Offsets, Elts / BMElts.Words),
                                getStepBefore000510's steps.Get (U16.Get), lvs.GetBytes
     [load_stream esz b]        bytes -> arrays -> table -> LegacyConv.convert -> node view
                                and leaf values of the loaded trie

   The table has one record per old id; the leaf of an old id carries the ORDINAL of the
   id in the leaves array (that is what Rank64 returns) and the leaf values come in that
   order.  The reader is strict: it reads every id below 64 * (longest index bitmap),
   while the loader only reads the ids its queue reaches; on written streams there is no
   difference (theorem), on other streams the model may report a panic for an id the
   loader never looks at.  Outcomes that the table abstraction cannot express are explicit
   [LOutside] outcomes, never a default value.

   Positions and ranks are N (Go int32; exact while below 2^31), list lengths nat.

   Go panic sites: 651 bitmap.Rank64 in getBM16Child (rindex/words index out of range)
                   652 ch.Elts[eltIdx*4:] / binary.Uint32 on fewer than 4 bytes
                   653 ch.BMElts == nil (nil dereference)
                   654 bitmap.Getw words[i>>6]
                   655 U16.Get (Bitmaps/Offsets index, Elts too short)
                   656 Base.GetBytes (Rank64 index, Elts[stIdx:stIdx+size])
                   660 writer: bitmap.Of with an id >= MaxInt32 / bitmap.OfMany
                   661 writer: pbcmpl header version longer than 16 bytes
   Outside the table abstraction:
                   1 a negative int32 field in a message (Cnt, Offsets, EltWidth, N, RankIndex)
                   2 an id listed in the children array whose 16-bit bitmap is empty
                   3 a stored step 0 (stp-- wraps to 65535 in uint16)
                   4 (unreachable) GetBytes reports "not found" for an id whose bit is set *)
From Slim Require Import Base Keys Model LegacyConv.
From Slim Require Import Varint Proto BitmapRank BitmapRank2 Arrays ArrWire Semver Frame.

(* ------------------------------------------------------------------ *)
(* 0. outcomes                                                          *)
(* ------------------------------------------------------------------ *)
Inductive lerr :=
| LPanic (site : nat)                  (* a Go run-time panic *)
| LOutside (why : nat)                 (* not expressible in the table abstraction *)
| LRead (s : stage) (c : cause)        (* "failed to unmarshal children / steps / leaves" *)
| LReadPanic                           (* makeslice: len out of range (BodySize >= 2^63) *)
| LConv (e : err).                     (* outcome of old_write / convert *)

Inductive lres (A : Type) :=
| LOk (a : A)
| LErr (e : lerr).
Arguments LOk {A} a.
Arguments LErr {A} e.

Definition lbind {A B} (r : lres A) (f : A -> lres B) : lres B :=
  match r with LOk a => f a | LErr e => LErr e end.

Definition of_out {A} (site : nat) (o : out A) : lres A :=
  match o with Val a => LOk a | Panic => LErr (LPanic site) end.

(* ------------------------------------------------------------------ *)
(* 1. the six three-array layouts (harness/c06_writers.go: c06Layouts)  *)
(* ------------------------------------------------------------------ *)
Record layout := mkLayout {
  l_header : list byte;        (* version string in every section header *)
  l_leafsteps : bool;          (* 0.5.0: leaves carry a step too *)
  l_bmchildren : bool;         (* >= 0.5.4: 16-bit bitmaps in BMElts, Flags = 3, EltWidth = 16 *)
  l_emptybmhead : bool;        (* 0.5.4 - 0.5.6: the empty key set still writes Flags/EltWidth/BMElts *)
  l_pad : bool                 (* 0.5.9: the index bitmaps are padded to the node count *)
}.

Definition ver_1_0_0 : list byte := [x31; x2e; x30; x2e; x30].    (* "1.0.0" *)
Definition ver_0_5_8 : list byte := [x30; x2e; x35; x2e; x38].    (* "0.5.8" *)
Definition ver_0_5_9 : list byte := [x30; x2e; x35; x2e; x39].    (* "0.5.9" *)

Definition a050 : layout := mkLayout ver_1_0_0 true false false false.   (* a050-u32children-leafsteps *)
Definition a051 : layout := mkLayout ver_1_0_0 false false false false.  (* a051-u32children *)
Definition a054 : layout := mkLayout ver_1_0_0 false true true false.    (* a054-bm16children *)
Definition a057 : layout := mkLayout ver_1_0_0 false true false false.   (* a057-bm16children *)
Definition a058 : layout := mkLayout ver_0_5_8 false true false false.   (* a058-bm16children-versioned *)
Definition a059 : layout := mkLayout ver_0_5_9 false true false true.    (* a059-bm16children-padded *)
Definition layouts : list layout := [a050; a051; a054; a057; a058; a059].

(* ------------------------------------------------------------------ *)
(* 2. writer side: the three arrays of a node table                     *)
(* ------------------------------------------------------------------ *)
Definition is_inner (n : old_node) : bool := negb (is_nil (on_bm n)).
Definition has_step (n : old_node) : bool := negb (Nat.eqb (on_step n) 0).
Definition has_leaf (n : old_node) : bool := is_some (on_leaf n).

(* the old ids (from [base] on) of the nodes with property p: InnerIdx / StepIdx / LeafIdx *)
Fixpoint ids_where (p : old_node -> bool) (base : N) (ot : old_trie) : list N :=
  match ot with
  | [] => []
  | n :: r => if p n then base :: ids_where p (N.succ base) r else ids_where p (N.succ base) r
  end.

(* bm |= 1 << nb *)
Definition bm16_of (labels : list nat) : N :=
  fold_right (fun b acc => N.lor (N.shiftl 1 (N.of_nat b)) acc) 0%N labels.

(* FirstChild of the inner nodes: len(queue) at the moment the node is processed *)
Fixpoint first_children (next : N) (ot : old_trie) : list N :=
  match ot with
  | [] => []
  | n :: r =>
      if is_inner n then next :: first_children (next + N.of_nat (length (on_bm n)))%N r
      else first_children next r
  end.

(* c06Index: array.InitIndex (bitmap.Of, IndexRank64, Offsets 0 for an empty word), then
   0.5.9's padding to ceil(pad/64) words with zero words and zero offsets *)
Definition index_fields (idx : list N) (pad : N) : out (list N * list N) :=
  match bm_of idx with
  | Panic => Panic
  | Val ws =>
      let k := (N.to_nat (nwords_for pad) - length ws)%nat in
      Val (ws ++ repeat 0%N k, offsets_of ws ++ repeat 0%N k)
  end.

Definition mk_array (idx : list N) (pad : N) (elts : list byte) (flags : N) (ew : Z)
           (bme : option wbits) : out warray :=
  match index_fields idx pad with
  | Panic => Panic
  | Val (ws, offs) =>
      Val (mkWArray (Z.of_nat (length idx)) ws (map Z.of_N offs) elts flags ew bme [])
  end.

(* <= 0.5.3: uint32(bm) | uint32(uint16(FirstChild)) << 16, little endian *)
Definition u32_elt (p : old_node * N) : list byte :=
  le_encode 4 (bm16_of (on_bm (fst p)) + 65536 * (snd p mod 65536))%N.
Definition u32_elts (ot : old_trie) : list byte :=
  concat (map u32_elt (combine (filter is_inner ot) (first_children 1 ot))).

(* >= 0.5.4: bitmap.OfMany(subs, sizes = 16 each); N = end of the last sub-bitmap's last
   label; RankIndex = bitmap.IndexRank128(words) *)
Definition bm_segs (ot : old_trie) : list (list N * N) :=
  map (fun n => (map N.of_nat (on_bm n), 16%N)) (filter is_inner ot).
Definition bits_n (ot : old_trie) : Z :=
  match last_opt (filter is_inner ot) with
  | None => 0%Z
  | Some n => (16 * (Z.of_nat (length (filter is_inner ot)) - 1) + Z.of_nat (last (on_bm n) 0%nat) + 1)%Z
  end.
Definition bm_elts (ot : old_trie) : out wbits :=
  match of_many (bm_segs ot) with
  | Panic => Panic
  | Val ws => Val (mkWBits 0 (bits_n ot) ws (map Z.of_N (index_rank128 ws 0)) [])
  end.

Definition children_array (l : layout) (ot : old_trie) (pad : N) : out warray :=
  let idx := ids_where is_inner 0 ot in
  if negb (l_bmchildren l) then mk_array idx pad (u32_elts ot) 0 0 None
  else if negb (is_nil idx) || l_emptybmhead l then
    match bm_elts ot with
    | Panic => Panic
    | Val b => mk_array idx pad [] 3 16 (Some b)     (* Flags 3: bit 1 = ArrayFlagIsBitmap *)
    end
  else mk_array idx pad [] 0 0 None.

Definition step_elt (n : old_node) : list byte := encode_int U16 (Z.of_nat (on_step n)).
Definition steps_array (ot : old_trie) (pad : N) : out warray :=
  mk_array (ids_where has_step 0 ot) pad (concat (map step_elt (filter has_step ot))) 0 0 None.

Definition leaf_elt (vals : list (list byte)) (n : old_node) : list byte :=
  match on_leaf n with Some k => nth k vals [] | None => [] end.
Definition leaves_array (ot : old_trie) (vals : list (list byte)) (pad : N) : out warray :=
  mk_array (ids_where has_leaf 0 ot) pad (concat (map (leaf_elt vals) (filter has_leaf ot))) 0 0 None.

(* c06ArraysOf *)
Definition arrays_of_old (l : layout) (ot : old_trie) (vals : list (list byte))
  : out (warray * warray * warray) :=
  let pad := if l_pad l then N.of_nat (length ot) else 0%N in
  match children_array l ot pad, steps_array ot pad, leaves_array ot vals pad with
  | Val ch, Val st, Val lv => Val (ch, st, lv)
  | _, _, _ => Panic
  end.

(* ------------------------------------------------------------------ *)
(* 3. reader side: the node table of three arrays                       *)
(* ------------------------------------------------------------------ *)
(* bmhas = bitmap.SafeGet1(bm, i) == 1 (ids are non-negative int32) *)
Definition safe_get1 (ws : list N) (i : N) : bool :=
  match nthN ws (word_of i) with
  | None => false
  | Some w => (N.land (N.shiftr w (bit_of i)) 1 =? 1)%N
  end.

(* bitmap.Getw(words, k, 16): i := k*16; (words[i>>6] >> (i&63)) & Mask[16] *)
Definition getw16 (ws : list N) (k : N) : option N :=
  let i := (16 * k)%N in
  match nthN ws (word_of i) with
  | None => None
  | Some w => Some (N.land (N.shiftr w (bit_of i)) 65535)
  end.

(* getBM16Child without the final << 1 (the table keeps nibble labels; convert adds 1) *)
Definition get_bm16_child (ch : array32) (i : N) : lres N :=
  match rank64 (Bitmaps ch) (Offsets ch) i with
  | Panic => LErr (LPanic 651)
  | Val (r, _) =>
      if (N.land (Flags ch) 2 =? 0)%N then
        match slice (Elts ch) (4 * r) 4 with
        | None => LErr (LPanic 652)
        | Some bs => LOk (N.land (le_decode bs) 65535)
        end
      else
        match BMElts ch with
        | None => LErr (LPanic 653)
        | Some b =>
            match getw16 (b_words b) r with
            | None => LErr (LPanic 654)
            | Some v => LOk v
            end
        end
  end.

(* bitmap.ToArray([]uint64{bm}) restricted to the 16 label bits *)
Definition labels_of_bm16 (bm : N) : list nat :=
  filter (fun b => N.testbit bm (N.of_nat b)) (List.seq 0 16).

(* what the arrays say about one old id *)
Record rnode := { rn_bm : list nat; rn_step : nat; rn_leaf : option (list byte) }.

Definition read_node (esz : nat) (ch st lv : array32) (i : N) : lres rnode :=
  let has_inner := safe_get1 (Bitmaps ch) i in
  lbind (if has_inner then get_bm16_child ch i else LOk 0%N) (fun bm =>
  if has_inner && (bm =? 0)%N then LErr (LOutside 2) else
  lbind (if safe_get1 (Bitmaps st) i then
           match typed_get U16 st i with
           | Panic => LErr (LPanic 655)
           | Val (z, _) => if (z =? 0)%Z then LErr (LOutside 3) else LOk (Z.to_nat z)
           end
         else LOk 0%nat) (fun step =>
  lbind (if safe_get1 (Bitmaps lv) i then
           match get_bytes lv i esz with
           | Panic => LErr (LPanic 656)
           | Val None => LErr (LOutside 4)
           | Val (Some bs) => LOk (Some bs)
           end
         else LOk None) (fun leaf =>
  LOk {| rn_bm := labels_of_bm16 bm; rn_step := step; rn_leaf := leaf |}))).

(* ids i, i+1, .., i+n-1 *)
Fixpoint read_nodes (esz : nat) (ch st lv : array32) (i : N) (n : nat) : lres (list rnode) :=
  match n with
  | O => LOk []
  | S n' =>
      lbind (read_node esz ch st lv i) (fun r =>
      lbind (read_nodes esz ch st lv (N.succ i) n') (fun rs => LOk (r :: rs)))
  end.

(* an id that is in none of the arrays *)
Definition rn_empty (r : rnode) : bool :=
  is_nil (rn_bm r) && Nat.eqb (rn_step r) 0 && negb (is_some (rn_leaf r)).

(* the table ends with the last id that is in one of the arrays *)
Fixpoint trim_nodes (rs : list rnode) : list rnode :=
  match rs with
  | [] => []
  | r :: t =>
      match trim_nodes t with
      | [] => if rn_empty r then [] else [r]
      | t' => r :: t'
      end
  end.

(* the leaves are numbered in id order (the rank in the leaves array), from k on *)
Fixpoint table_of (rs : list rnode) (k : nat) : old_trie * list (list byte) :=
  match rs with
  | [] => ([], [])
  | r :: t =>
      match rn_leaf r with
      | Some v =>
          let '(ot, vs) := table_of t (S k) in
          ({| on_bm := rn_bm r; on_step := rn_step r; on_leaf := Some k |} :: ot, v :: vs)
      | None =>
          let '(ot, vs) := table_of t k in
          ({| on_bm := rn_bm r; on_step := rn_step r; on_leaf := None |} :: ot, vs)
      end
  end.

Definition span_ids (ch st lv : array32) : nat :=
  (64 * Nat.max (length (Bitmaps ch)) (Nat.max (length (Bitmaps st)) (length (Bitmaps lv))))%nat.

(* esz = st.encoder.GetEncodedSize(nil) *)
Definition old_of_arrays (esz : nat) (ch st lv : warray) : lres (old_trie * list (list byte)) :=
  if negb (wire_nonneg ch && wire_nonneg st && wire_nonneg lv) then LErr (LOutside 1)
  else
    let c := array32_of_wire ch in
    let s := array32_of_wire st in
    let l := array32_of_wire lv in
    lbind (read_nodes esz c s l 0 (span_ids c s l)) (fun rs => LOk (table_of (trim_nodes rs) 0)).

(* ------------------------------------------------------------------ *)
(* 3b. well-formed node tables and what the reader returns for them     *)
(* ------------------------------------------------------------------ *)
(* nibble labels: strictly ascending, below 16 *)
Fixpoint labels_okb (l : list nat) : bool :=
  match l with
  | [] => true
  | a :: r =>
      (a <? 16)%nat && match r with [] => true | b :: _ => (a <? b)%nat end && labels_okb r
  end.

(* one old node of a written table: ascending nibble labels; the id is in the children or
   in the leaves array; the step is a uint16; the leaf's key has a value *)
Definition node_wf (nvals : nat) (n : old_node) : bool :=
  labels_okb (on_bm n) && (is_inner n || has_leaf n) && (N.of_nat (on_step n) <=? 65535)%N &&
  match on_leaf n with Some k => (k <? nvals)%nat | None => true end.

(* ids are int32 *)
Definition table_wf (nvals : nat) (ot : old_trie) : bool :=
  forallb (node_wf nvals) ot && (N.of_nat (length ot) <=? int32_max)%N.

(* every value has the loader's fixed encoder size *)
Definition vals_ok (esz : nat) (vals : list (list byte)) : bool :=
  forallb (fun v => Nat.eqb (length v) esz) vals.

Definition rnode_of (vals : list (list byte)) (n : old_node) : rnode :=
  {| rn_bm := on_bm n; rn_step := on_step n;
     rn_leaf := match on_leaf n with Some k => Some (nth k vals []) | None => None end |}.

(* the table with its leaves numbered in id order + the leaf values in that order *)
Definition renumbered (ot : old_trie) (vals : list (list byte)) : old_trie * list (list byte) :=
  table_of (map (rnode_of vals) ot) 0.

(* ------------------------------------------------------------------ *)
(* 4. the stream                                                        *)
(* ------------------------------------------------------------------ *)
(* c06Sections: pbcmpl.Marshal x 3 with the layout's version *)
Definition stream_of_arrays (ver : list byte) (a : warray * warray * warray) : option (list byte) :=
  let '(ch, st, lv) := a in
  match frame ver (ser_array32 ch), frame ver (ser_array32 st), frame ver (ser_array32 lv) with
  | Some s1, Some s2, Some s3 => Some (s1 ++ s2 ++ s3)
  | _, _, _ => None
  end.

Definition of_rres {A} (s : stage) (r : rres A) : lres A :=
  match r with
  | ROk a => LOk a
  | RErr c => LErr (LRead s c)
  | RPanic => LErr LReadPanic
  end.

(* pbcmpl.Unmarshal(reader, children / steps / leaves); trailing bytes are ignored *)
Definition arrays_of_stream (b : list byte) : lres (warray * warray * warray) :=
  lbind (of_rres SChildren (read_section parse_array32 b)) (fun '(ch, r1) =>
  lbind (of_rres SSteps (read_section parse_array32 r1)) (fun '(st, r2) =>
  lbind (of_rres SLeaves (read_section parse_array32 r2)) (fun '(lv, _) =>
  LOk (ch, st, lv)))).

(* Unmarshal with its version gate (Frame.unmarshal); the three accepted bodies are parsed *)
Inductive gated (A : Type) :=
| GArrays (a : A)
| GOther (o : outcome)          (* not a three-array stream, or an error of the reading part *)
| GImpossible.                  (* an accepted body that does not parse (parse_array32_total) *)
Arguments GArrays {A} a.
Arguments GOther {A} o.
Arguments GImpossible {A}.

Definition arrays_of_stream_gated (compat : list str) (cur : str) (b : list byte)
  : gated (warray * warray * warray) :=
  match unmarshal compat cur b with
  | OLegacy3 c s l =>
      match parse_array32 c, parse_array32 s, parse_array32 l with
      | Some ch, Some st, Some lv => GArrays (ch, st, lv)
      | _, _, _ => GImpossible
      end
  | o => GOther o
  end.

(* the three messages are representable: every field fits its Go type (wf_array32) and
   every section body is shorter than 2^63 bytes (pbcmpl's make([]byte, BodySize)) *)
Definition arrays_fit (a : warray * warray * warray) : bool :=
  let '(ch, st, lv) := a in
  wf_array32 ch && wf_array32 st && wf_array32 lv &&
  (blen (ser_array32 ch) <? two63)%N && (blen (ser_array32 st) <? two63)%N &&
  (blen (ser_array32 lv) <? two63)%N.

(* ------------------------------------------------------------------ *)
(* 5. the two ends                                                      *)
(* ------------------------------------------------------------------ *)
(* arrays -> table -> before000510ToNewChildrenArray: the node view in new id order and
   the leaf values in new leaf order (c.buildLeaves) *)
Definition load_arrays (esz : nat) (a : warray * warray * warray)
  : lres (list nview * option (list (list byte))) :=
  let '(ch, st, lv) := a in
  lbind (old_of_arrays esz ch st lv) (fun '(ot, lvals) =>
  match convert ot with
  | Err e => LErr (LConv e)
  | Ok (views, lidx) => LOk (views, select_leaves (Some lvals) lidx)
  end).

Definition load_stream (esz : nat) (b : list byte) : lres (list nview * option (list (list byte))) :=
  lbind (arrays_of_stream b) (load_arrays esz).

(* the old writer: c06WriteArrays *)
Definition write_stream (l : layout) (keys : list key) (vals : list (list byte)) : lres (list byte) :=
  match old_write (l_leafsteps l) keys with
  | Err e => LErr (LConv e)
  | Ok ot =>
      match arrays_of_old l ot vals with
      | Panic => LErr (LPanic 660)
      | Val a =>
          match stream_of_arrays (l_header l) a with
          | None => LErr (LPanic 661)
          | Some b => LOk b
          end
      end
  end.
