(* GetIntProofs.v - C14: the typed getters agree with Get.
   Part 1: the shift/or expression of GetI<N>, evaluated with Go's wrapping
           signed conversions, is the two's complement little-endian decode
           that encode.I<N>.Decode computes (for every width w >= 1).
   Part 2: when every supplied value has width w > 0 the leaf array is dense
           and fixed, so Bytes[ith*w : ith*w+w] is the ith element.
   Part 3: geti = Get followed by the decoder, for every query. *)
From Slim Require Import Base Keys KeysProofs ListFacts Model TrieInv BuildProofs QueryProofs ConsistProofs.
From Slim Require Import GetInt.
From Slim Require Encoders EncodersProofs.
From Coq Require Import ZifyNat ZifyBool.
Import Encoders.

(* ================= Part 1: arithmetic ================= *)
Section Arith.
Local Open Scope Z_scope.

Lemma land_shift_low hi k lo : 0 <= k -> 0 <= lo < 2 ^ k -> Z.land (hi * 2 ^ k) lo = 0.
Proof.
  intros Hk Hlo. apply Z.bits_inj'. intros n Hn. rewrite Z.land_spec, Z.bits_0.
  destruct (Z.lt_ge_cases n k).
  - rewrite Z.mul_pow2_bits_low by lia. reflexivity.
  - rewrite <- (Z.mod_small lo (2 ^ k)) by lia. rewrite Z.mod_pow2_bits_high by lia. apply andb_false_r.
Qed.

Lemma lor_disjoint hi k lo : 0 <= k -> 0 <= lo < 2 ^ k -> Z.lor lo (hi * 2 ^ k) = lo + hi * 2 ^ k.
Proof.
  intros Hk Hlo. rewrite Z.lor_comm.
  pose proof (land_shift_low hi k lo Hk Hlo) as H.
  rewrite <- (Z.lxor_lor _ _ H), <- (Z.add_nocarry_lxor _ _ H). ring.
Qed.

Definition pw (i : nat) : Z := 2 ^ (8 * Z.of_nat i).

Lemma lor_disjoint_pw hi i lo : 0 <= lo < pw i -> Z.lor lo (hi * pw i) = lo + hi * pw i.
Proof. intros H. unfold pw in *. apply lor_disjoint; lia. Qed.

Lemma pw_pos i : 0 < pw i.
Proof. unfold pw. apply Z.pow_pos_nonneg; lia. Qed.

Lemma pw_S i : pw (S i) = 256 * pw i.
Proof. unfold pw. replace (8 * Z.of_nat (S i)) with (8 * Z.of_nat i + 8) by lia. rewrite Z.pow_add_r by lia. change (2 ^ 8) with 256. ring. Qed.

Lemma pw_modulus w : modulus w = pw w.
Proof. reflexivity. Qed.

Lemma pw_add a b : pw (a + b) = pw a * pw b.
Proof. unfold pw. rewrite Nat2Z.inj_add, Z.mul_add_distr_l, Z.pow_add_r by lia. reflexivity. Qed.

Lemma pw_le a b : (a <= b)%nat -> pw a <= pw b.
Proof. intros H. unfold pw. apply Z.pow_le_mono_r; lia. Qed.

(* wrap after unwrap is wrap *)
Lemma wrap_unwrap_mul w u M : wrap w (unwrap true w u * M) = wrap w (u * M).
Proof.
  unfold unwrap, wrap. cbn [andb]. destruct (modulus w <=? 2 * u); [|reflexivity].
  replace ((u - modulus w) * M) with (u * M + (- M) * modulus w) by ring.
  apply Z_mod_plus_full.
Qed.

Lemma sint_small w z : 0 <= z -> 2 * z < modulus w -> sint w z = z.
Proof.
  intros H0 H1. unfold sint, wrap, unwrap. cbn [andb]. rewrite Z.mod_small by lia.
  destruct (Z.leb_spec (modulus w) (2 * z)); [lia|reflexivity].
Qed.

(* a non-top byte: the conversions and the shift are exact *)
Lemma term_low w i b : (S i < w)%nat ->
  sint w (Z.shiftl (sint w (Z_of_byte b)) (8 * Z.of_nat i)) = Z_of_byte b * pw i.
Proof.
  intros Hi. pose proof (EncodersProofs.Z_of_byte_range b) as Hb.
  assert (pw 2 <= pw w) as H1 by (apply pw_le; lia).
  change (pw 2) with 65536 in H1. change (pw w) with (modulus w) in H1.
  rewrite (sint_small w (Z_of_byte b)) by lia.
  rewrite Z.shiftl_mul_pow2 by lia. fold (pw i).
  apply sint_small; [pose proof (pw_pos i); nia|].
  change (modulus w) with (pw w).
  assert (pw w = pw (S (S i)) * pw (w - S (S i))) as -> by (rewrite <- pw_add; f_equal; lia).
  rewrite !pw_S. pose proof (pw_pos i). pose proof (pw_pos (w - S (S i))). nia.
Qed.

(* the top byte carries the sign *)
Lemma term_top w b : (0 < w)%nat ->
  sint w (Z.shiftl (sint w (Z_of_byte b)) (8 * Z.of_nat (w - 1))) =
  (Z_of_byte b - (if 128 <=? Z_of_byte b then 256 else 0)) * pw (w - 1).
Proof.
  intros Hw. pose proof (EncodersProofs.Z_of_byte_range b) as Hb.
  rewrite Z.shiftl_mul_pow2 by lia. fold (pw (w - 1)).
  unfold sint at 1. unfold sint. rewrite wrap_unwrap_mul.
  assert (modulus w = 256 * pw (w - 1)) as Hm.
  { change (modulus w) with (pw w). rewrite <- pw_S. f_equal. lia. }
  pose proof (pw_pos (w - 1)) as Hp.
  assert (wrap w (wrap w (Z_of_byte b) * pw (w - 1)) = Z_of_byte b * pw (w - 1)) as ->.
  { unfold wrap. rewrite Z.mul_mod_idemp_l by lia. apply Z.mod_small. nia. }
  unfold unwrap. cbn [andb]. rewrite Hm.
  destruct (Z.leb_spec (256 * pw (w - 1)) (2 * (Z_of_byte b * pw (w - 1))));
    destruct (Z.leb_spec 128 (Z_of_byte b)); try nia; ring.
Qed.

Lemma le_value_app a b : le_value (a ++ b) = le_value a + pw (length a) * le_value b.
Proof.
  induction a as [|x a IH]; cbn [app le_value length].
  - change (pw 0) with 1. ring.
  - rewrite IH, pw_S. ring.
Qed.

Lemma or_terms_app w : forall a i b, or_terms w i (a ++ b) = or_terms w i a ++ or_terms w (i + length a) b.
Proof.
  induction a as [|x a IH]; intros i b; cbn [app or_terms length].
  - rewrite Nat.add_0_r. reflexivity.
  - rewrite IH. replace (S i + length a)%nat with (i + S (length a))%nat by lia. reflexivity.
Qed.

Lemma fold_low w : forall bs i acc,
  (i + length bs < w)%nat -> 0 <= acc < pw i ->
  fold_left Z.lor (or_terms w i bs) acc = acc + pw i * le_value bs.
Proof.
  induction bs as [|b bs IH]; intros i acc Hl Ha; cbn [or_terms fold_left le_value length] in *.
  - ring.
  - rewrite term_low by lia.
    pose proof (EncodersProofs.Z_of_byte_range b) as Hb.
    rewrite (lor_disjoint_pw (Z_of_byte b) i acc) by lia.
    rewrite IH.
    + rewrite pw_S. ring.
    + lia.
    + rewrite pw_S. pose proof (pw_pos i). nia.
Qed.

Theorem geti_value_decode w bs : length bs = w -> (0 < w)%nat -> geti_value w bs = le_signed w bs.
Proof.
  intros Hl Hw. destruct (exists_last (l := bs)) as (lo & top & ->); [intros ->; cbn in Hl; lia|].
  rewrite app_length in Hl. cbn [length] in Hl.
  unfold geti_value, le_signed. rewrite or_terms_app, fold_left_app. cbn [or_terms fold_left].
  rewrite fold_low by (cbn; try lia; change (pw 0) with 1; lia).
  change (pw 0) with 1. rewrite Nat.add_0_l, Z.add_0_l, Z.mul_1_l.
  replace (length lo) with (w - 1)%nat by lia. rewrite term_top by lia.
  pose proof (EncodersProofs.le_value_range lo) as Hr. change (modulus (length lo)) with (pw (length lo)) in Hr.
  replace (length lo) with (w - 1)%nat in Hr by lia.
  rewrite (lor_disjoint_pw _ (w - 1) (le_value lo)) by lia.
  rewrite le_value_app. replace (length lo) with (w - 1)%nat by lia.
  cbn [le_value]. pose proof (EncodersProofs.Z_of_byte_range top) as Hb.
  assert (modulus w = 256 * pw (w - 1)) as Hm.
  { change (modulus w) with (pw w). rewrite <- pw_S. f_equal. lia. }
  unfold unwrap. cbn [andb]. rewrite Hm.
  destruct (Z.leb_spec (256 * pw (w - 1)) (2 * (le_value lo + pw (w - 1) * (Z_of_byte top + 256 * 0))));
    destruct (Z.leb_spec 128 (Z_of_byte top)); try nia; ring.
Qed.

End Arith.

(* ================= Part 2: the leaf array ================= *)
Local Open Scope nat_scope.
Arguments Nat.div : simpl never.
Arguments Nat.modulo : simpl never.

Lemma take_while_In {A} (f : A -> bool) l x : In x (take_while f l) -> In x l.
Proof.
  induction l as [|a l IH]; cbn [take_while]; [tauto|]. destruct (f a); [|intros []].
  intros [<-|H]; [left; reflexivity|right; auto].
Qed.

Lemma drop_while_In {A} (f : A -> bool) l x : In x (drop_while f l) -> In x l.
Proof.
  induction l as [|a l IH]; cbn [drop_while]; [tauto|]. destruct (f a); [intros H; right; auto|tauto].
Qed.

Lemma split_kids_In big w : forall labels es k e,
  In k (split_kids big w labels es) -> In e (s_ents k) -> In e es.
Proof.
  induction labels as [|lb r IH]; intros es k e Hk He; cbn [split_kids] in Hk; [destruct Hk|].
  destruct (drop_while (fun e0 => negb (ent_label big w e0 =? lb)) es) as [|e1 rest] eqn:Ed.
  - destruct Hk as [<-|Hk]; [destruct He|]. exfalso. eapply (IH [] k e Hk He).
  - assert (forall x, In x (e1 :: rest) -> In x es) as Hsub.
    { intros x Hx. eapply drop_while_In. rewrite Ed. exact Hx. }
    destruct Hk as [<-|Hk].
    + cbn [s_ents] in He. apply Hsub. destruct He as [<-|He]; [left; reflexivity|right; eapply take_while_In; exact He].
    + apply Hsub. right. eapply drop_while_In. eapply IH; eassumption.
Qed.

Lemma Forall2_in_r {A B} (R : A -> B -> Prop) l m y :
  Forall2 R l m -> In y m -> exists x, In x l /\ R x y.
Proof.
  induction 1 as [|a b l m Hab _ IH]; intros Hy; [destruct Hy|].
  destruct Hy as [<-|Hy]; [exists a; split; [left; reflexivity|exact Hab]|].
  destruct (IH Hy) as (x & Hx & Hr). exists x. split; [right; exact Hx|exact Hr].
Qed.

Lemma level_lidx o (P : nat -> Prop) ss ds :
  Forall2 (produced o) ss ds ->
  (forall s e, In s ss -> In e (s_ents s) -> P (e_idx e)) ->
  Forall P (flat_map leaf_idx_of ds).
Proof.
  induction 1 as [|s d ss' ds' Hsd _ IHp]; intros HP; [constructor|].
  cbn [flat_map]. apply Forall_app. split.
  - destruct d as [tail eidx|]; cbn [leaf_idx_of]; [|constructor].
    destruct Hsd as (ib & b2 & Hps). apply process_leaf_inv in Hps. destruct Hps as (e & He & _ & ->).
    constructor; [|constructor]. apply (HP s e); [left; reflexivity|rewrite He; left; reflexivity].
  - apply IHp. intros s' e' Hs' He'. apply (HP s' e'); [right; exact Hs'|exact He'].
Qed.

(* every entry of the BFS leaf list is the key index of an entry of one of the subsets *)
Lemma build_levels_lidx o (P : nat -> Prop) : forall fuel isbig base lbase ss forest lidx,
  build_levels fuel o isbig base lbase ss = Ok (forest, lidx) ->
  (forall s e, In s ss -> In e (s_ents s) -> P (e_idx e)) ->
  Forall P lidx.
Proof.
  induction fuel as [|f IH]; intros isbig base lbase ss forest lidx H HP.
  - destruct ss; cbn in H; [|discriminate]. inversion H; subst. constructor.
  - destruct ss as [|s0 ss0]; [cbn in H; inversion H; subst; constructor|].
    remember (s0 :: ss0) as ss eqn:Ess.
    assert (build_levels (S f) o isbig base lbase ss =
            (do (ds, b) <- process_level o isbig ss;
             let lidx := flat_map leaf_idx_of ds in
             let cbase := base + length ss in
             do (forest, lidx') <- build_levels f o b cbase (lbase + length lidx) (flat_map kids_of ds);
             Ok (assemble ds base cbase lbase forest, lidx ++ lidx'))) as Hunf.
    { rewrite Ess. reflexivity. }
    rewrite Hunf in H. clear Hunf. unfold bind in H.
    destruct (process_level o isbig ss) as [[ds b]|] eqn:E1; [|discriminate].
    cbv zeta in H.
    destruct (build_levels f o b (base + length ss) (lbase + length (flat_map leaf_idx_of ds)) (flat_map kids_of ds))
      as [[forest' lidx']|] eqn:E2; [|discriminate].
    inversion H; subst forest lidx. clear H.
    pose proof (process_level_spec _ _ _ _ _ E1) as Hp.
    apply Forall_app. split.
    + eapply level_lidx; eassumption.
    + eapply IH; [exact E2|].
      intros k e Hk He. apply in_flat_map in Hk. destruct Hk as (d & Hd & Hk).
      destruct (Forall2_in_r _ _ _ _ Hp Hd) as (s & Hs & Hsd).
      destruct d as [|big step pfx labels kids]; [destruct Hk|]. cbn [kids_of] in Hk.
      destruct Hsd as (ib & b2 & Hps). apply process_inner_inv in Hps. cbv zeta in Hps.
      destruct Hps as (_ & _ & _ & Hkids & _). rewrite Hkids in Hk.
      apply (HP s e Hs). eapply split_kids_In; eassumption.
Qed.

Lemma mk_ents_idx : forall keys b keep e, In e (mk_ents b keys keep) -> b <= e_idx e < b + length keys.
Proof.
  induction keys as [|k r IH]; intros b keep e H; cbn [mk_ents length] in *; [destruct H|].
  destruct H as [<-|H]; [cbn [e_idx]; lia|]. specialize (IH _ _ _ H). lia.
Qed.

Lemma build_ok_lidx o keys vals T :
  build o keys vals = Ok T -> keys <> [] ->
  exists r lidx, Built o keys vals T r lidx /\ Forall (fun i => i < length keys) lidx.
Proof.
  intros Hb Hne. rewrite build_unfold in Hb by exact Hne.
  destruct (check_order keys) as [i|] eqn:Ec; [discriminate|]. cbv zeta in Hb. unfold bind in Hb.
  destruct (build_levels _ o true 0 0 _) as [[forest lidx]|] eqn:Eb; [|discriminate].
  destruct forest as [|r [|r2 rest]]; try discriminate.
  inversion Hb; subst T. clear Hb. exists r, lidx. split.
  - pose proof (build_levels_ok _ _ _ _ _ _ _ _ Eb) as [HT HL].
    inversion HT as [|? ? ? ? Hr _]; subst. inversion HL as [|? ? Hl _]; subst.
    constructor; cbn [t_root t_leaves t_leafpfx t_innerpfx]; try reflexivity; try assumption.
    apply check_order_none. exact Ec.
  - eapply build_levels_lidx; [exact Eb|]. intros s e [<-|[]] He. cbn [s_ents] in He.
    apply mk_ents_idx in He. lia.
Qed.

Lemma skipn_add {A} a : forall b (l : list A), skipn (a + b) l = skipn b (skipn a l).
Proof.
  induction a as [|a IH]; intros b l; [reflexivity|]. destruct l as [|x l]; cbn [Nat.add skipn]; [destruct b; reflexivity|apply IH].
Qed.

(* fixed-width packing: element n of the concatenation *)
Lemma concat_fixed w : forall (ls : list (list byte)) n b,
  Forall (fun x => length x = w) ls -> nth_error ls n = Some b ->
  n * w + w <= length (concat ls) /\ firstn w (skipn (n * w) (concat ls)) = b.
Proof.
  induction ls as [|a ls IH]; intros n b Hf Hn; [destruct n; discriminate|].
  inversion Hf as [|? ? Ha Hf']; subst. cbn [concat]. rewrite app_length.
  destruct n as [|n]; cbn [nth_error] in Hn.
  - inversion Hn; subst. cbn [Nat.mul Nat.add skipn]. split; [lia|].
    rewrite firstn_app, Nat.sub_diag, firstn_O, app_nil_r. apply firstn_all.
  - destruct (IH n b Hf' Hn) as [H1 H2]. split; [cbn [Nat.mul]; lia|].
    replace (S n * length a) with (length a + n * length a) by (cbn [Nat.mul]; lia).
    rewrite skipn_add. rewrite skipn_app, Nat.sub_diag, skipn_all. cbn [skipn app]. exact H2.
Qed.

(* the node GetID returns on a built trie is a leaf of the tree *)
Lemma getid_node_leaf o keys vals T r lidx q c :
  Built o keys vals T r lidx -> getid_node T q = Some c -> In c (subtrees r) /\ is_leaf c = true.
Proof.
  intros B Hc.
  pose proof (root_inv o keys vals (bt_sorted _ _ _ _ _ _ B) (bt_nonempty _ _ _ _ _ _ B)) as I.
  split; [eapply getid_node_subtree; [apply (bt_root _ _ _ _ _ _ B)|exact Hc]|].
  unfold getid_node in Hc. rewrite (bt_root _ _ _ _ _ _ B) in Hc. cbv zeta in Hc.
  destruct (descend (nibs q) (length (nibs q)) r 0) as [[[c0 i] v]|] eqn:Ed; [|discriminate].
  pose proof (descend_facts o q r _ (bt_trie _ _ _ _ _ _ B) I (Nat.le_0_l _) c0 i v) as Hf.
  change (s_from (root_subset o keys vals)) with 0 in Hf. destruct (Hf Ed) as (Hleaf & _).
  destruct (t_leafpfx T); [destruct (sess_tail c0 v); destruct (Nat.eqb i (length (nibs q))); try discriminate;
    [destruct (bytes_eqb _ _); [|discriminate]|]|]; inversion Hc; subst; exact Hleaf.
Qed.

(* ================= Part 3: GetI<N> = Get, then decode ================= *)
Theorem geti_agrees o keys vs T w q :
  build o keys (Some vs) = Ok T ->
  length vs = length keys -> Forall (fun v => length v = w) vs -> 0 < w ->
  geti w T q = get_then_decode w T q /\
  ((get T q = Ok NotFound /\ geti w T q = Ok (0%Z, false)) \/
   (exists i b, i < length keys /\ nth_error vs i = Some b /\
                get T q = Ok (Found (Some b)) /\ geti w T q = Ok (le_signed w b, true))).
Proof.
  intros Hb Hlen Hw Hpos.
  destruct keys as [|k0 kr].
  { inversion Hb; subst T. unfold geti, get_then_decode, get, getid_node. cbn. split; [reflexivity|left; split; reflexivity]. }
  destruct (build_ok_lidx _ _ _ _ Hb) as (r & lidx & B & Hbound); [discriminate|].
  set (keys := k0 :: kr) in *.
  unfold geti, get_then_decode, get.
  destruct (getid_node T q) as [c|] eqn:Eg; [|split; [reflexivity|left; split; reflexivity]].
  destruct (getid_node_leaf _ _ _ _ _ _ _ _ B Eg) as [Hsub Hleaf].
  destruct c as [id ord tail eidx|]; [|discriminate].
  pose proof (leaf_subtree_leaves _ _ _ _ _ Hsub) as Hl.
  pose proof (leaf_ok_root_nth lidx r ord eidx (bt_leaf _ _ _ _ _ _ B) Hl) as Hn.
  (* the leaf array *)
  set (elts := map (fun i => nth i vs []) lidx).
  assert (Forall (fun x => length x = w) elts) as Helts.
  { unfold elts. rewrite Forall_forall. intros x Hx. apply in_map_iff in Hx. destruct Hx as (i & <- & Hi).
    rewrite Forall_forall in Hbound, Hw. apply Hw. apply nth_In. rewrite Hlen. apply Hbound. exact Hi. }
  assert (nth_error elts ord = Some (nth eidx vs [])) as Hne.
  { unfold elts. exact (nth_error_map_some (fun i => nth i vs []) lidx ord eidx Hn). }
  assert (t_leaves T = Some elts) as HL.
  { rewrite (bt_leaves _ _ _ _ _ _ B). unfold select_leaves. fold elts.
    destruct (Nat.eqb_spec (total_size elts) 0) as [Hz|]; [|reflexivity]. exfalso.
    apply total_size_zero in Hz. rewrite Forall_forall in Hz, Helts.
    assert (In (nth eidx vs []) elts) as Hin by (eapply nth_error_In; exact Hne).
    pose proof (Helts _ Hin) as L. rewrite (Hz _ Hin) in L. cbn in L. lia. }
  assert (eidx < length keys) as Hidx.
  { rewrite Forall_forall in Hbound. apply Hbound. eapply nth_error_In; exact Hn. }
  set (b := nth eidx vs []) in *.
  assert (length b = w) as Lb.
  { rewrite Forall_forall in Helts. apply Helts. eapply nth_error_In; exact Hne. }
  destruct (concat_fixed w elts ord b Helts Hne) as [Hrange Hslice].
  cbn [leaf_index leaf_value]. unfold bind. rewrite HL, Hne.
  destruct (Nat.ltb_spec (length (concat elts)) (ord * w + w)) as [|_]; [lia|].
  rewrite Hslice, geti_value_decode by assumption.
  destruct (Nat.ltb_spec (length b) w) as [|_]; [lia|].
  assert (firstn w b = b) as -> by (rewrite <- Lb; apply firstn_all).
  split; [reflexivity|]. right. exists eidx, b. split; [exact Hidx|]. split; [|split; reflexivity].
  unfold b. apply nth_error_nth'. lia.
Qed.

(* the decoder applied to an encoded number gives the number back *)
Lemma le_signed_encode (c : icodec) v :
  ic_signed c = true -> ic_big c = false -> in_range true (ic_width c) v ->
  le_signed (ic_width c) (int_encode c v) = v.
Proof.
  intros Hs Hb Hr. unfold le_signed, int_encode, ord_bytes. rewrite Hb.
  rewrite EncodersProofs.le_value_le_bytes, EncodersProofs.wrap_idem.
  apply (EncodersProofs.unwrap_wrap true). exact Hr.
Qed.

(* C14: a trie of numbers encoded with a signed little-endian codec of width w *)
Theorem geti_same_number (c : icodec) o keys (zs : list Z) T q :
  ic_signed c = true -> ic_big c = false -> 0 < ic_width c ->
  Forall (in_range true (ic_width c)) zs -> length zs = length keys ->
  build o keys (Some (map (int_encode c) zs)) = Ok T ->
  (get T q = Ok NotFound /\ geti (ic_width c) T q = Ok (0%Z, false)) \/
  (exists i z, i < length keys /\ nth_error zs i = Some z /\
               get T q = Ok (Found (Some (int_encode c z))) /\
               int_decode c (int_encode c z) = DOk (ic_width c, z) /\
               geti (ic_width c) T q = Ok (z, true)).
Proof.
  intros Hs Hbg Hw Hr Hlen Hb.
  destruct (geti_agrees o keys (map (int_encode c) zs) T (ic_width c) q Hb) as [_ H].
  - rewrite map_length. exact Hlen.
  - rewrite Forall_forall. intros x Hx. apply in_map_iff in Hx. destruct Hx as (z & <- & _).
    apply EncodersProofs.int_encode_length.
  - exact Hw.
  - destruct H as [H|(i & b & Hi & Hn & Hg & Hgi)]; [left; exact H|right].
    rewrite nth_error_map in Hn. destruct (nth_error zs i) as [z|] eqn:Ez; [|discriminate].
    cbn in Hn. inversion Hn; subst b. exists i, z.
    assert (in_range true (ic_width c) z) as Hz.
    { rewrite Forall_forall in Hr. apply Hr. eapply nth_error_In; exact Ez. }
    split; [exact Hi|]. split; [exact Ez|]. split; [exact Hg|]. split.
    + pose proof (EncodersProofs.int_roundtrip c z []) as Hrt. rewrite app_nil_r in Hrt.
      rewrite Hs in Hrt. rewrite (Hrt Hz). rewrite EncodersProofs.int_encode_length. reflexivity.
    + rewrite Hgi. rewrite le_signed_encode by assumption. reflexivity.
Qed.
