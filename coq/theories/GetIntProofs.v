(* GetIntProofs.v - C14: the typed getters agree with Get.
   Part 1: the shift/or expression of GetI<N>, evaluated with Go's wrapping
           signed conversions, is the two's complement little-endian decode
           that encode.I<N>.Decode computes (for every width w >= 1).
   Part 2: when every supplied value has width w > 0 the leaf array is dense
           and fixed, so Bytes[ith*w : ith*w+w] is the ith element.
   Part 3: geti = Get followed by the decoder, for every query. *)
From Slim Require Import Base Keys KeysProofs ListFacts Model TrieInv BuildProofs QueryProofs ConsistProofs.
From Slim Require Import GetInt.
From Slim Require Encoders EncodersProofs.
From Coq Require Import ZifyNat ZifyBool.
Import Encoders.

(* ================= Part 1: arithmetic ================= *)
Section Arith.
Local Open Scope Z_scope.

Lemma land_shift_low hi k lo : 0 <= k -> 0 <= lo < 2 ^ k -> Z.land (hi * 2 ^ k) lo = 0.
Proof.
  intros Hk Hlo. apply Z.bits_inj'. intros n Hn. rewrite Z.land_spec, Z.bits_0.
  destruct (Z.lt_ge_cases n k).
  - rewrite Z.mul_pow2_bits_low by lia. reflexivity.
  - rewrite <- (Z.mod_small lo (2 ^ k)) by lia. rewrite Z.mod_pow2_bits_high by lia. apply andb_false_r.
Qed.

Lemma lor_disjoint hi k lo : 0 <= k -> 0 <= lo < 2 ^ k -> Z.lor lo (hi * 2 ^ k) = lo + hi * 2 ^ k.
Proof.
  intros Hk Hlo. rewrite Z.lor_comm.
  pose proof (land_shift_low hi k lo Hk Hlo) as H.
  rewrite <- (Z.lxor_lor _ _ H), <- (Z.add_nocarry_lxor _ _ H). ring.
Qed.

Definition pw (i : nat) : Z := 2 ^ (8 * Z.of_nat i).

Lemma pw_pos i : 0 < pw i.
Proof. unfold pw. apply Z.pow_pos_nonneg; lia. Qed.

Lemma pw_S i : pw (S i) = 256 * pw i.
Proof. unfold pw. replace (8 * Z.of_nat (S i)) with (8 * Z.of_nat i + 8) by lia. rewrite Z.pow_add_r by lia. change (2 ^ 8) with 256. ring. Qed.

Lemma pw_modulus w : modulus w = pw w.
Proof. reflexivity. Qed.

Lemma pw_add a b : pw (a + b) = pw a * pw b.
Proof. unfold pw. rewrite Nat2Z.inj_add, Z.mul_add_distr_l, Z.pow_add_r by lia. reflexivity. Qed.

Lemma pw_le a b : (a <= b)%nat -> pw a <= pw b.
Proof. intros H. unfold pw. apply Z.pow_le_mono_r; lia. Qed.

(* wrap after unwrap is wrap *)
Lemma wrap_unwrap_mul w u M : wrap w (unwrap true w u * M) = wrap w (u * M).
Proof.
  unfold unwrap, wrap. cbn [andb]. destruct (modulus w <=? 2 * u); [|reflexivity].
  replace ((u - modulus w) * M) with (u * M + (- M) * modulus w) by ring.
  apply Z_mod_plus_full.
Qed.

Lemma sint_small w z : 0 <= z -> 2 * z < modulus w -> sint w z = z.
Proof.
  intros H0 H1. unfold sint, wrap, unwrap. cbn [andb]. rewrite Z.mod_small by lia.
  destruct (Z.leb_spec (modulus w) (2 * z)); [lia|reflexivity].
Qed.

(* a non-top byte: the conversions and the shift are exact *)
Lemma term_low w i b : (S i < w)%nat ->
  sint w (Z.shiftl (sint w (Z_of_byte b)) (8 * Z.of_nat i)) = Z_of_byte b * pw i.
Proof.
  intros Hi. pose proof (EncodersProofs.Z_of_byte_range b) as Hb.
  assert (pw 2 <= pw w) as H1 by (apply pw_le; lia).
  change (pw 2) with 65536 in H1. change (pw w) with (modulus w) in H1.
  rewrite (sint_small w (Z_of_byte b)) by lia.
  rewrite Z.shiftl_mul_pow2 by lia. fold (pw i).
  apply sint_small; [pose proof (pw_pos i); nia|].
  change (modulus w) with (pw w).
  assert (pw w = pw (S (S i)) * pw (w - S (S i))) as -> by (rewrite <- pw_add; f_equal; lia).
  rewrite !pw_S. pose proof (pw_pos i). pose proof (pw_pos (w - S (S i))). nia.
Qed.

(* the top byte carries the sign *)
Lemma term_top w b : (0 < w)%nat ->
  sint w (Z.shiftl (sint w (Z_of_byte b)) (8 * Z.of_nat (w - 1))) =
  (Z_of_byte b - (if 128 <=? Z_of_byte b then 256 else 0)) * pw (w - 1).
Proof.
  intros Hw. pose proof (EncodersProofs.Z_of_byte_range b) as Hb.
  rewrite Z.shiftl_mul_pow2 by lia. fold (pw (w - 1)).
  unfold sint at 1. unfold sint. rewrite wrap_unwrap_mul.
  assert (modulus w = 256 * pw (w - 1)) as Hm.
  { change (modulus w) with (pw w). rewrite <- pw_S. f_equal. lia. }
  pose proof (pw_pos (w - 1)) as Hp.
  assert (wrap w (wrap w (Z_of_byte b) * pw (w - 1)) = Z_of_byte b * pw (w - 1)) as ->.
  { unfold wrap. rewrite Z.mul_mod_idemp_l by lia. apply Z.mod_small. nia. }
  unfold unwrap. cbn [andb]. rewrite Hm.
  destruct (Z.leb_spec (256 * pw (w - 1)) (2 * (Z_of_byte b * pw (w - 1))));
    destruct (Z.leb_spec 128 (Z_of_byte b)); try nia; ring.
Qed.

Lemma le_value_app a b : le_value (a ++ b) = le_value a + pw (length a) * le_value b.
Proof.
  induction a as [|x a IH]; cbn [app le_value length].
  - change (pw 0) with 1. ring.
  - rewrite IH, pw_S. ring.
Qed.

Lemma or_terms_app w : forall a i b, or_terms w i (a ++ b) = or_terms w i a ++ or_terms w (i + length a) b.
Proof.
  induction a as [|x a IH]; intros i b; cbn [app or_terms length].
  - rewrite Nat.add_0_r. reflexivity.
  - rewrite IH. repeat f_equal. lia.
Qed.

Lemma fold_low w : forall bs i acc,
  (i + length bs < w)%nat -> 0 <= acc < pw i ->
  fold_left Z.lor (or_terms w i bs) acc = acc + pw i * le_value bs.
Proof.
  induction bs as [|b bs IH]; intros i acc Hl Ha; cbn [or_terms fold_left le_value length] in *.
  - ring.
  - rewrite term_low by lia.
    pose proof (EncodersProofs.Z_of_byte_range b) as Hb.
    unfold pw at 1 in Ha.
    rewrite (lor_disjoint (Z_of_byte b) (8 * Z.of_nat i) acc) by lia. fold (pw i) in Ha |- *.
    rewrite IH.
    + rewrite pw_S. ring.
    + lia.
    + rewrite pw_S. pose proof (pw_pos i). nia.
Qed.

Theorem geti_value_decode w bs : length bs = w -> (0 < w)%nat -> geti_value w bs = le_signed w bs.
Proof.
  intros Hl Hw. destruct (exists_last (l := bs)) as (lo & top & ->); [intros ->; cbn in Hl; lia|].
  rewrite app_length in Hl. cbn [length] in Hl.
  unfold geti_value, le_signed. rewrite or_terms_app, fold_left_app. cbn [or_terms fold_left].
  rewrite fold_low by (cbn; try lia; change (pw 0) with 1; lia).
  change (pw 0) with 1. rewrite Nat.add_0_l, Z.add_0_l, Z.mul_1_l.
  replace (length lo) with (w - 1)%nat by lia. rewrite term_top by lia.
  pose proof (EncodersProofs.le_value_range lo) as Hr. change (modulus (length lo)) with (pw (length lo)) in Hr.
  replace (length lo) with (w - 1)%nat in Hr by lia.
  unfold pw at 1 in Hr.
  rewrite (lor_disjoint _ (8 * Z.of_nat (w - 1)) (le_value lo)) by lia. fold (pw (w - 1)) in Hr |- *.
  rewrite le_value_app. replace (length lo) with (w - 1)%nat by lia.
  cbn [le_value]. pose proof (EncodersProofs.Z_of_byte_range top) as Hb.
  assert (modulus w = 256 * pw (w - 1)) as Hm.
  { change (modulus w) with (pw w). rewrite <- pw_S. f_equal. lia. }
  unfold unwrap. cbn [andb]. rewrite Hm.
  destruct (Z.leb_spec (256 * pw (w - 1)) (2 * (le_value lo + pw (w - 1) * (Z_of_byte top + 256 * 0))));
    destruct (Z.leb_spec 128 (Z_of_byte top)); try nia; ring.
Qed.

End Arith.
