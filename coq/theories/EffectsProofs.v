(* EffectsProofs.v - frame theorems over the abstract machines of Effects.v,
   and their instantiation with the regenerated effect summary. *)

From Coq Require Import String List Bool Arith Lia.
From Slim Require Import Effects.
From SlimGen Require Import Gen_Effects.
Import ListNotations.
Local Open Scope list_scope.

(* ================================================== machine 1: the store *)

Section MachineProofs.

Variable V : Type.
Variable St : Type.

Notation store := (store V).
Notation write := (write V).
Notation stepfn := (stepfn V St).
Notation config := (config V St).

Lemma region_eqb_eq : forall r r', region_eqb r r' = true <-> r = r'.
Proof.
  intros r r'; split.
  - destruct r, r'; simpl; intro H; try discriminate; try reflexivity.
    + apply Nat.eqb_eq in H; subst; reflexivity.
    + apply andb_true_iff in H; destruct H as [H1 H2].
      apply Nat.eqb_eq in H1; apply Nat.eqb_eq in H2; subst; reflexivity.
  - intro; subst r'; destruct r; simpl; try reflexivity.
    + apply Nat.eqb_refl.
    + rewrite !Nat.eqb_refl; reflexivity.
Qed.

Lemma region_eqb_neq : forall r r', r <> r' -> region_eqb r r' = false.
Proof.
  intros r r' H. destruct (region_eqb r r') eqn:E; [|reflexivity].
  apply region_eqb_eq in E. contradiction.
Qed.

(* a write elsewhere does not change region r *)
Lemma upd_other : forall (s : store) (w : write) r a, w_reg V w <> r -> upd V s w r a = s r a.
Proof.
  intros s w r a H. unfold upd.
  rewrite region_eqb_neq; [reflexivity|]. intro E; apply H; symmetry; exact E.
Qed.

Lemma apply_writes_other : forall (ws : list write) (s : store) r a,
  (forall w, In w ws -> w_reg V w <> r) -> apply_writes V s ws r a = s r a.
Proof.
  induction ws as [|w ws IH]; intros s r a H; simpl; [reflexivity|].
  rewrite IH.
  - apply upd_other. apply H. left; reflexivity.
  - intros w' Hin. apply H. right; exact Hin.
Qed.

(* the same writes applied to stores that agree on region r agree on r *)
Lemma apply_writes_agree : forall (ws : list write) (s s' : store) r,
  (forall a, s r a = s' r a) -> forall a, apply_writes V s ws r a = apply_writes V s' ws r a.
Proof.
  induction ws as [|w ws IH]; intros s s' r H a; simpl; [apply H|].
  apply IH. intro a'. unfold upd.
  destruct (region_eqb r (w_reg V w) && Nat.eqb a' (w_addr V w)); [reflexivity|apply H].
Qed.

Section WithStep.

Variable effs : list effect.
Variable step : stepfn.
Hypothesis Hresp : respects V St effs step.

(* ---- generic: regions no declared effect can land in are never written *)

Definition may_land (c : nat) (r : region) : Prop :=
  exists e, In e effs /\ region_of c (root e) = Some r.

Lemma step_writes_land : forall c q s w,
  In w (map snd (snd (step c q s))) -> may_land c (w_reg V w).
Proof.
  intros c q s w Hin. apply in_map_iff in Hin. destruct Hin as [[e w'] [Hw Hin]].
  simpl in Hw; subst w'. destruct (Hresp c q s e w Hin) as [He Hr].
  exists e; split; assumption.
Qed.

Lemma exec1_untouched : forall cf c r a,
  ~ may_land c r -> mem V St (exec1 V St step cf c) r a = mem V St cf r a.
Proof.
  intros cf c r a Hn. unfold exec1; simpl.
  apply apply_writes_other. intros w Hin Heq.
  apply Hn. rewrite <- Heq. eapply step_writes_land; exact Hin.
Qed.

Lemma run_untouched : forall sched cf r a,
  (forall c, ~ may_land c r) -> mem V St (run V St step cf sched) r a = mem V St cf r a.
Proof.
  induction sched as [|c sched IH]; intros cf r a Hn; simpl; [reflexivity|].
  unfold run in *; simpl. rewrite IH by exact Hn. apply exec1_untouched. apply Hn.
Qed.

End WithStep.

(* ---- C20, part 1: a call tree without parameter/global/unknown-rooted
        writes leaves every caller-owned region as it was *)

Theorem caller_memory_unchanged : forall effs (step : stepfn),
  forallb (fun e => negb (writes_caller e)) effs = true ->
  respects V St effs step ->
  forall sched cf c i a,
    mem V St (run V St step cf sched) (RCaller c i) a = mem V St cf (RCaller c i) a.
Proof.
  intros effs step Hall Hresp sched cf c i a.
  apply (run_untouched effs step Hresp).
  intros c' [e [Hin Hr]].
  rewrite forallb_forall in Hall. specialize (Hall e Hin).
  unfold writes_caller in Hall. destruct (root e); simpl in *; try discriminate; inversion Hr.
Qed.

(* ---- C11: interleaving *)

Section Frame.

Variable effs : list effect.
Variable step : stepfn.
Hypothesis Hall : read_frame_ok effs = true.
Hypothesis Hresp : respects V St effs step.
Hypothesis Hloc : local V St step.

Lemma land_private : forall c r, may_land effs c r -> r = RPriv c \/ r = RCache.
Proof.
  intros c r [e [Hin Hr]]. unfold read_frame_ok in Hall.
  rewrite forallb_forall in Hall. specialize (Hall e Hin).
  unfold writes_shared in Hall.
  destruct (root e); simpl in *; try discriminate; inversion Hr; auto.
Qed.

Lemma shared_unchanged : forall sched cf r a,
  (forall c, r <> RPriv c) -> r <> RCache ->
  mem V St (run V St step cf sched) r a = mem V St cf r a.
Proof.
  intros sched cf r a Hp Hc. apply (run_untouched effs step Hresp).
  intros c Hl. destruct (land_private c r Hl) as [E|E]; [apply (Hp c E)|apply (Hc E)].
Qed.

Lemma run_snoc : forall sched cf c,
  run V St step cf (sched ++ [c]) = exec1 V St step (run V St step cf sched) c.
Proof. intros. unfold run. rewrite fold_left_app. reflexivity. Qed.

Lemma repeat_snoc : forall (c n : nat), repeat c (S n) = repeat c n ++ [c].
Proof. induction n as [|n IH]; simpl in *; [reflexivity|]. rewrite <- IH. reflexivity. Qed.

Lemma count_app1 : forall sched c x,
  count x (sched ++ [c]) = count x sched + (if Nat.eq_dec c x then 1 else 0).
Proof.
  intros. unfold count. rewrite count_occ_app. simpl.
  destruct (Nat.eq_dec c x); reflexivity.
Qed.

Lemma agree_of : forall c (cf1 cf2 cf0 : config),
  (forall r a, (forall c', r <> RPriv c') -> r <> RCache -> mem V St cf1 r a = mem V St cf0 r a) ->
  (forall r a, (forall c', r <> RPriv c') -> r <> RCache -> mem V St cf2 r a = mem V St cf0 r a) ->
  (forall a, mem V St cf1 (RPriv c) a = mem V St cf2 (RPriv c) a) ->
  agree V c (mem V St cf1) (mem V St cf2).
Proof.
  intros c cf1 cf2 cf0 H1 H2 Hp r a Hv.
  destruct r; simpl in Hv; try discriminate.
  - rewrite H1, H2; try reflexivity; intros; discriminate.
  - rewrite H1, H2; try reflexivity; intros; discriminate.
  - apply Nat.eqb_eq in Hv; subst. apply Hp.
  - rewrite H1, H2; try reflexivity; intros; discriminate.
Qed.

(* Every call, under every schedule, is in the state it reaches when it runs
   the same number of steps alone, and so is the memory it allocated. *)
Lemma interleave_solo : forall sched cf c,
  ctl V St (run V St step cf sched) c = ctl V St (solo V St step cf c (count c sched)) c /\
  forall a, mem V St (run V St step cf sched) (RPriv c) a =
            mem V St (solo V St step cf c (count c sched)) (RPriv c) a.
Proof.
  intros sched cf. induction sched as [|c' sched IH] using rev_ind; intro c.
  - simpl. split; reflexivity.
  - rewrite run_snoc. rewrite count_app1.
    destruct (Nat.eq_dec c' c) as [E|E].
    + subst c'. replace (count c sched + 1) with (S (count c sched)) by lia.
      unfold solo. rewrite repeat_snoc, run_snoc.
      fold (solo V St step cf c (count c sched)).
      destruct (IH c) as [IHc IHm].
      set (cf1 := run V St step cf sched) in *.
      set (cf2 := solo V St step cf c (count c sched)) in *.
      assert (Hag : agree V c (mem V St cf1) (mem V St cf2)).
      { apply (agree_of c cf1 cf2 cf).
        - intros; apply shared_unchanged; assumption.
        - intros; unfold cf2, solo; apply shared_unchanged; assumption.
        - exact IHm. }
      assert (Hst : step c (ctl V St cf1 c) (mem V St cf1) = step c (ctl V St cf2 c) (mem V St cf2)).
      { rewrite IHc. apply Hloc. exact Hag. }
      unfold exec1; simpl. rewrite Hst. split.
      * rewrite Nat.eqb_refl. reflexivity.
      * apply apply_writes_agree. exact IHm.
    + replace (count c sched + 0) with (count c sched) by lia.
      destruct (IH c) as [IHc IHm]. split.
      * unfold exec1; simpl.
        destruct (Nat.eqb c c') eqn:Ecc; [apply Nat.eqb_eq in Ecc; subst; contradiction|].
        exact IHc.
      * intro a. rewrite <- IHm.
        apply (exec1_untouched effs step Hresp).
        intro Hl. destruct (land_private c' (RPriv c) Hl) as [X|X]; inversion X. subst; contradiction.
Qed.

(* frame_read: for EVERY schedule over any number of calls, the instance, the
   package variables and all caller memory are unchanged, and each call is
   where it is when it runs alone - hence returns its solo results (results
   are a function of the call's control state). *)
Theorem frame_read : forall sched cf,
  let cf' := run V St step cf sched in
  (forall a, mem V St cf' RInst a = mem V St cf RInst a) /\
  (forall a, mem V St cf' RGlobal a = mem V St cf RGlobal a) /\
  (forall c i a, mem V St cf' (RCaller c i) a = mem V St cf (RCaller c i) a) /\
  (forall c, ctl V St cf' c = ctl V St (solo V St step cf c (count c sched)) c /\
             forall a, mem V St cf' (RPriv c) a =
                       mem V St (solo V St step cf c (count c sched)) (RPriv c) a).
Proof.
  intros sched cf cf'. unfold cf'. repeat split.
  - intro a; apply shared_unchanged; intros; discriminate.
  - intro a; apply shared_unchanged; intros; discriminate.
  - intros c i a; apply shared_unchanged; intros; discriminate.
  - apply interleave_solo.
  - apply interleave_solo.
Qed.

End Frame.

End MachineProofs.

(* ============================================ machine 2: the pointer graph *)

Section HeapProofs.

Variable V : Type.

Lemma run_obs_same : forall (h h' : heap V) root,
  (forall b off, reach V h root b -> h' b off = h b off) ->
  forall (A : Type) (p : obs V A) known,
    Forall (reach V h root) known ->
    run_obs V h' known p = run_obs V h known p.
Proof.
  intros h h' root Hsame A p. induction p as [a|k off cont IH]; intros known Hk; simpl.
  - reflexivity.
  - destruct (nth_error known k) as [b|] eqn:E; [|reflexivity].
    assert (Hb : reach V h root b).
    { rewrite Forall_forall in Hk. apply Hk. eapply nth_error_In; exact E. }
    rewrite (Hsame b off Hb).
    apply IH. destruct (h b off) as [v|b'] eqn:Ec; [exact Hk|].
    constructor; [|exact Hk]. eapply reach_step; eassumption.
Qed.

(* observe_stable: an observation of the instance depends only on the blocks
   reachable from it. *)
Theorem observe_stable : forall (h h' : heap V) root,
  (forall b off, reach V h root b -> h' b off = h b off) ->
  forall (A : Type) (p : obs V A), observe V h' root p = observe V h root p.
Proof.
  intros h h' root Hsame A p. unfold observe.
  apply (run_obs_same h h' root Hsame). constructor; [constructor|constructor].
Qed.

(* stable_under_scribble: if no caller-owned block is reachable from the
   instance, then any later heap that differs only on caller-owned blocks gives
   every observation the same answer. *)
Theorem stable_under_scribble : forall (h h' : heap V) root (caller_owned : nat -> bool),
  (forall b, reach V h root b -> caller_owned b = false) ->
  (forall b off, caller_owned b = false -> h' b off = h b off) ->
  forall (A : Type) (p : obs V A), observe V h' root p = observe V h root p.
Proof.
  intros h h' root owned Hdisj Hdiff A p. apply observe_stable.
  intros b off Hr. apply Hdiff. apply Hdisj. exact Hr.
Qed.

End HeapProofs.

(* ===================== the regenerated summary: proofs over a finite domain *)

(* The checks are proved through "the list of offending entries is empty", so
   that when a regenerated summary breaks one, coqc's error message shows the
   offending entries (function, file:line, instruction, root). *)
Lemma no_offender : forall (A : Type) (f : A -> bool) (l : list A),
  filter (fun x => negb (f x)) l = [] -> forallb f l = true.
Proof.
  intros A f l. induction l as [|x l IH]; simpl; intro H; [reflexivity|].
  destruct (f x); simpl in *; [apply IH; exact H|discriminate].
Qed.

Lemma C11_frame : forallb (fun e => negb (writes_shared e)) read_effects = true.
Proof. apply no_offender. vm_compute. reflexivity. Qed.

Lemma C11_facts : facts_ok facts = true.
Proof. vm_compute. reflexivity. Qed.

Lemma summary_entries : entries_ok reachable_fns = true.
Proof. vm_compute. reflexivity. Qed.

Lemma C20_build_writes : forallb build_write_ok build_effects = true.
Proof. apply no_offender. vm_compute. reflexivity. Qed.

Lemma C20_load_writes : forallb load_write_ok load_effects = true.
Proof. apply no_offender. vm_compute. reflexivity. Qed.

Lemma C20_flows : forallb flow_ok flows = true.
Proof. apply no_offender. vm_compute. reflexivity. Qed.

Lemma C20_marshal_fresh : marshal_result_fresh results = true.
Proof. vm_compute. reflexivity. Qed.

Lemma build_no_caller_writes : forallb (fun e => negb (writes_caller e)) build_effects = true.
Proof. vm_compute. reflexivity. Qed.

Lemma load_no_caller_writes : forallb (fun e => negb (writes_caller e)) load_effects = true.
Proof. vm_compute. reflexivity. Qed.

Lemma read_no_caller_writes : forallb (fun e => negb (writes_caller e)) read_effects = true.
Proof. vm_compute. reflexivity. Qed.

(* ----------------------------------------------------------- C11, assembled *)

Definition C11_statement : Prop :=
  (* the regenerated summary of the read APIs has no shared-rooted write ... *)
  read_frame_ok read_effects = true /\
  facts_ok facts = true /\
  entries_ok reachable_fns = true /\
  (* ... and any machine whose writes are those of the summary is immutable
     under reads, for every schedule and any number of calls *)
  forall (V St : Type) (step : stepfn V St),
    respects V St read_effects step -> local V St step ->
    forall (sched : list nat) (cf : config V St),
      let cf' := run V St step cf sched in
      (forall a, mem V St cf' RInst a = mem V St cf RInst a) /\
      (forall a, mem V St cf' RGlobal a = mem V St cf RGlobal a) /\
      (forall c i a, mem V St cf' (RCaller c i) a = mem V St cf (RCaller c i) a) /\
      (forall c, ctl V St cf' c = ctl V St (solo V St step cf c (count c sched)) c /\
                 forall a, mem V St cf' (RPriv c) a =
                           mem V St (solo V St step cf c (count c sched)) (RPriv c) a).

Theorem C11_partial_proof : C11_statement.
Proof.
  split; [exact C11_frame|]. split; [exact C11_facts|]. split; [exact summary_entries|].
  intros V St step Hr Hl sched cf.
  exact (frame_read V St read_effects step C11_frame Hr Hl sched cf).
Qed.

(* ----------------------------------------------------------- C20, assembled *)

Definition C20_frame_statement : Prop :=
  forallb build_write_ok build_effects = true /\
  forallb load_write_ok load_effects = true /\
  forallb flow_ok flows = true /\
  marshal_result_fresh results = true /\
  facts_ok facts = true /\
  entries_ok reachable_fns = true.

Lemma C20_frame : C20_frame_statement.
Proof.
  unfold C20_frame_statement.
  split; [exact C20_build_writes|]. split; [exact C20_load_writes|].
  split; [exact C20_flows|]. split; [exact C20_marshal_fresh|].
  split; [exact C11_facts|exact summary_entries].
Qed.

Definition C20_statement : Prop :=
  C20_frame_statement /\
  (* no modification: any machine whose writes are those of the build / load /
     read summaries leaves all caller-owned memory as it was *)
  (forall (V St : Type) (step : stepfn V St) (effs : list effect),
     effs = build_effects \/ effs = load_effects \/ effs = read_effects ->
     respects V St effs step ->
     forall sched (cf : config V St) c i a,
       mem V St (run V St step cf sched) (RCaller c i) a = mem V St cf (RCaller c i) a) /\
  (* no aliasing (C20_stable): when no caller-owned block is reachable from the
     instance, overwriting caller-owned blocks changes no observation *)
  (forall (V : Type) (h h' : heap V) (root : nat) (caller_owned : nat -> bool),
     (forall b, reach V h root b -> caller_owned b = false) ->
     (forall b off, caller_owned b = false -> h' b off = h b off) ->
     forall (A : Type) (p : obs V A), observe V h' root p = observe V h root p).

Theorem C20_partial_proof : C20_statement.
Proof.
  split; [exact C20_frame|]. split.
  - intros V St step effs [E|[E|E]] Hr sched cf c i a; subst effs.
    + exact (caller_memory_unchanged V St _ step build_no_caller_writes Hr sched cf c i a).
    + exact (caller_memory_unchanged V St _ step load_no_caller_writes Hr sched cf c i a).
    + exact (caller_memory_unchanged V St _ step read_no_caller_writes Hr sched cf c i a).
  - intros V h h' root owned H1 H2 A p.
    exact (stable_under_scribble V h h' root owned H1 H2 A p).
Qed.

(* ------------------------------------ the hypotheses are satisfiable (demo) *)

(* Two kinds of concrete step function over nat values:
   every call reads cell 0 of the instance, adds it to a private accumulator
   (cell 0 of its own region) and counts its steps in its control state. *)
Definition demo_effect : effect :=
  {| fn := "demo"; instr := "acc += inst[0]"; path := "alloc acc"; root := FreshAlloc; api := ApiRead |}.

Definition demo_step : stepfn nat nat :=
  fun c q s =>
    (S q, [ (demo_effect, {| w_reg := RPriv c; w_addr := 0; w_val := s (RPriv c) 0 + s RInst 0 |}) ]).

Lemma demo_respects : respects nat nat [demo_effect] demo_step.
Proof.
  intros c q s e w Hin. simpl in Hin. destruct Hin as [H|[]]. inversion H; subst.
  split; [left; reflexivity|reflexivity].
Qed.

Lemma demo_local : local nat nat demo_step.
Proof.
  intros c q s s' Hag. unfold demo_step.
  rewrite (Hag (RPriv c) 0), (Hag RInst 0); try reflexivity.
  simpl. apply Nat.eqb_refl.
Qed.

(* the same demo, declared with an effect of the REGENERATED read summary *)
Lemma hd_filter_in : forall (A : Type) (f : A -> bool) (l : list A) (d : A),
  existsb f l = true -> In (hd d (filter f l)) l /\ f (hd d (filter f l)) = true.
Proof.
  intros A f l d. induction l as [|x l IH]; simpl; intro H; [discriminate|].
  destruct (f x) eqn:E; simpl.
  - split; [left; reflexivity|exact E].
  - simpl in H. destruct (IH H) as [H1 H2]. split; [right; exact H1|exact H2].
Qed.

Lemma root_eqb_true : forall a b, root_eqb a b = true -> a = b.
Proof.
  intros a b H. destruct a, b; simpl in H; try discriminate; try reflexivity.
  apply Nat.eqb_eq in H. subst. reflexivity.
Qed.

Definition is_fresh (e : effect) : bool := root_eqb (root e) FreshAlloc.

Definition fresh_read_effect : effect := hd demo_effect (filter is_fresh read_effects).

Lemma fresh_read_effect_ok : In fresh_read_effect read_effects /\ root fresh_read_effect = FreshAlloc.
Proof.
  assert (H : existsb is_fresh read_effects = true) by (vm_compute; reflexivity).
  destruct (hd_filter_in effect is_fresh read_effects demo_effect H) as [H1 H2].
  split; [exact H1|].
  apply root_eqb_true. exact H2.
Qed.

Definition read_demo_step : stepfn nat nat :=
  fun c q s =>
    (S q, [ (fresh_read_effect, {| w_reg := RPriv c; w_addr := 0; w_val := s (RPriv c) 0 + s RInst 0 |}) ]).

Lemma read_demo_respects : respects nat nat read_effects read_demo_step.
Proof.
  intros c q s e w Hin. simpl in Hin. destruct Hin as [H|[]]. inversion H; subst.
  destruct fresh_read_effect_ok as [H1 H2]. split; [exact H1|]. rewrite H2. reflexivity.
Qed.

Lemma read_demo_local : local nat nat read_demo_step.
Proof.
  intros c q s s' Hag. unfold read_demo_step.
  rewrite (Hag (RPriv c) 0), (Hag RInst 0); try reflexivity.
  simpl. apply Nat.eqb_refl.
Qed.

Definition demo_cf0 : config nat nat :=
  {| ctl := fun _ => 0; mem := fun r _ => match r with RInst => 5 | _ => 0 end |}.

Lemma read_demo_run :
  let cf' := run nat nat read_demo_step demo_cf0 [0; 1; 0; 1; 1] in
  (mem nat nat cf' (RPriv 0) 0, ctl nat nat cf' 0, mem nat nat cf' (RPriv 1) 0, ctl nat nat cf' 1,
   mem nat nat cf' RInst 0) = (10, 2, 15, 3, 5).
Proof. vm_compute. reflexivity. Qed.

(* The hypothesis has teeth: a session counter cached IN THE INSTANCE (a
   Receiver-rooted write) makes a call's result depend on the schedule. *)
Definition cached_effect : effect :=
  {| fn := "demo"; instr := "st.cache++"; path := "param st.cache"; root := Receiver; api := ApiRead |}.

Definition cached_step : stepfn nat nat :=
  fun c q s => (s RInst 1, [ (cached_effect, {| w_reg := RInst; w_addr := 1; w_val := S (s RInst 1) |}) ]).

Lemma cached_session_interferes :
  respects nat nat [cached_effect] cached_step /\ local nat nat cached_step /\
  read_frame_ok [cached_effect] = false /\
  ctl nat nat (run nat nat cached_step demo_cf0 [1; 0]) 0 <>
  ctl nat nat (solo nat nat cached_step demo_cf0 0 (count 0 [1; 0])) 0.
Proof.
  split; [|split; [|split]].
  - intros c q s e w Hin. simpl in Hin. destruct Hin as [H|[]]. inversion H; subst.
    split; [left; reflexivity|reflexivity].
  - intros c q s s' Hag. unfold cached_step. rewrite (Hag RInst 1); reflexivity.
  - reflexivity.
  - vm_compute. discriminate.
Qed.

(* heap demo: instance = block 0 -> block 1; the caller's buffer is block 7 *)
Definition demo_heap (scribble : nat) : heap nat :=
  fun b off =>
    match b, off with
    | 0, 0 => Ptr 1
    | 1, 2 => Data 42
    | 7, _ => Data scribble
    | _, _ => Data 0
    end.

Definition demo_owned (b : nat) : bool := Nat.eqb b 7.

(* read instance[0] (a pointer), then cell 2 of the block it points to *)
Definition demo_obs : obs nat (option nat) :=
  ORead 0 0 (fun _ => ORead 0 2 (fun c => ORet (match c with Data v => Some v | Ptr _ => None end))).

Lemma demo_heap_disjoint : forall b, reach nat (demo_heap 0) 0 b -> demo_owned b = false.
Proof.
  intros b H. assert (b = 0 \/ b = 1).
  { induction H as [|b off b' H IH Hc]; [left; reflexivity|].
    destruct IH as [E|E]; subst b; unfold demo_heap in Hc.
    - destruct off; [inversion Hc; right; reflexivity|discriminate].
    - destruct off as [|[|[|off]]]; discriminate. }
  destruct H0; subst; reflexivity.
Qed.

Lemma demo_heap_scribbled : forall x b off, demo_owned b = false -> demo_heap x b off = demo_heap 0 b off.
Proof.
  intros x b off H. unfold demo_owned in H. apply Nat.eqb_neq in H.
  unfold demo_heap. do 8 (destruct b as [|b]; try reflexivity). contradiction H; reflexivity.
Qed.

Lemma demo_observe : forall x, observe nat (demo_heap x) 0 demo_obs = Some (Some 42).
Proof.
  intro x.
  rewrite (stable_under_scribble nat (demo_heap 0) (demo_heap x) 0 demo_owned
             demo_heap_disjoint (demo_heap_scribbled x)).
  reflexivity.
Qed.

(* ... and a zero-copy load (the instance points INTO the caller's buffer) is
   not stable: the disjointness hypothesis is what carries the property *)
Definition zerocopy_heap (scribble : nat) : heap nat :=
  fun b off =>
    match b, off with
    | 0, 0 => Ptr 7
    | 7, _ => Data scribble
    | _, _ => Data 0
    end.

Lemma zerocopy_unstable :
  observe nat (zerocopy_heap 1) 0 demo_obs <> observe nat (zerocopy_heap 2) 0 demo_obs.
Proof. vm_compute. discriminate. Qed.
