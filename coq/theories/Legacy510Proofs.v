(* Legacy510Proofs.v - the loader's conversion of an 0.5.10 / 0.5.11 message (Legacy510.v)
   yields today's message of the same trie, up to the two select indexes it does not touch.

     select_shift          Select32R64 returns the same pair with the 0.5.10 select index (word
                           index of every 32nd set bit) as with today's (bit position), for
                           EVERY i (also where it panics): the scan over the rank index only
                           starts earlier
     conv_elt_ctl          the loop body turns the control-byte form of a nibble string into its
                           bitstr form (bridge nibbles -> bits to LegacyProofs.conv_prefix_ctl,
                           the element-level theorem of C06)
     conv_loop_elts        invariant of the in-place loop over PositionBM
     fix_leaves_new_vlen   before000512FixLeafSize rebuilds exactly newVLenArray's fixed-size
                           array from the bare Bytes
     conv510_encode        conv510_msg esize (parse510 (encode_0510 T)) = Ok (old_sel_msg M)
                           for every well-formed trie T with message M and fixed-size leaves
     conv510_never_fuel    the loop fuel is never exhausted, on any message *)
From Coq Require Import List Arith Bool NArith ZArith Lia Sorted.
From Coq Require Import ZifyN ZifyNat ZifyBool.
From Slim Require Import Base Keys Model BitmapRank BitmapRankProofs BitmapRank2 BitmapRank2Proofs
     BitmapSelectProofs Bits BitsVlenProofs BitsWfProofs BitsFlatProofs Legacy510.
From Slim Require Legacy LegacyProofs.
Import ListNotations.
Local Open Scope N_scope.
Ltac Zify.zify_post_hook ::= Z.div_mod_to_equations.

(* ====================================================================== *)
(* 1. Select32R64 with the old select index                                *)
(* ====================================================================== *)
Lemma nthN_map {A B} (f : A -> B) l i : nthN (map f l) i = option_map f (nthN l i).
Proof. rewrite !nthN_nth_error. apply nth_error_map. Qed.

Lemma skipN_nth {A} : forall (l : list A) k x, nthN l k = Some x -> skipN l k = x :: skipN l (N.succ k).
Proof.
  induction l as [|y r IH]; intros k x H; [destruct k; discriminate|].
  destruct (N.eq_dec k 0) as [->|Hk].
  - cbn in H. injection H as ->. rewrite skipN_0. change (N.succ 0) with (N.succ 0). rewrite skipN_cons_succ, skipN_0. reflexivity.
  - replace k with (N.succ (N.pred k)) in * by lia. rewrite nthN_cons_succ in H.
    rewrite !skipN_cons_succ. apply IH. exact H.
Qed.

Lemma Rk_mono ws a b : a <= b -> Rk ws a <= Rk ws b.
Proof. intros H. replace b with (a + (b - a)) by lia. rewrite Rk_add. lia. Qed.

Lemma scan_skip ws i k : words_ok ws -> k < N.of_nat (length ws) -> Rk ws k <= i ->
  forall d k', k = k' + N.of_nat d ->
  scan_rank (skipN (index_rank64_t ws 0) (N.succ k')) k' i = scan_rank (skipN (index_rank64_t ws 0) (N.succ k)) k i.
Proof.
  intros Hok Hk Hi. induction d as [|d IH]; intros k' E.
  - replace k' with k by lia. reflexivity.
  - destruct (nthN_lt_Some (index_rank64_t ws 0) (N.succ k')) as [x Ex]; [rewrite index_rank64_t_length; lia|].
    rewrite (skipN_nth _ _ _ Ex). cbn [scan_rank].
    pose proof (index_rank64_t_nth ws Hok 0 _ _ Ex) as Hx. rewrite N.add_0_l in Hx. fold (Rk ws (N.succ k')) in Hx.
    pose proof (Rk_mono ws (N.succ k') k ltac:(lia)).
    destruct (N.leb_spec x i); [|lia]. apply IH. lia.
Qed.

(* Select32R64 gives the same answer with the 0.5.10 select index (word indexes), for every i *)
Theorem select_shift : forall ws i, words_ok ws ->
  select32_r64 ws (map word_of (index_select32 ws)) (index_rank64_t ws 0) i =
  select32_r64 ws (index_select32 ws) (index_rank64_t ws 0) i.
Proof.
  intros ws i Hok. unfold select32_r64. rewrite nthN_map.
  destruct (nthN (index_select32 ws) (N.shiftr i 5)) as [s|] eqn:Es; cbn [option_map]; [|reflexivity].
  destruct (index_select32_nth ws _ s Es) as [Gs Rs].
  pose proof (bm_get_true_lt ws s Gs) as Hs.
  set (k0 := word_of s).
  assert (Hk0 : k0 < N.of_nat (length ws)) by (unfold k0; rewrite word_of_spec; lia).
  assert (HR0 : Rk ws k0 <= i).
  { assert (Rk ws k0 = rank_spec ws (64 * k0)) by (unfold Rk, rank_spec; f_equal; f_equal; lia).
    pose proof (rank_spec_mono ws (64 * k0) s) as Hm.
    assert (64 * k0 <= s) by (unfold k0; rewrite word_of_spec; lia).
    rewrite N.shiftr_div_pow2 in Rs. change (2 ^ 5) with 32 in Rs. lia. }
  assert (Hle : word_of k0 <= k0) by (rewrite word_of_spec; lia).
  rewrite (scan_skip ws i k0 Hok Hk0 HR0 (N.to_nat (k0 - word_of k0)) (word_of k0)) by lia.
  reflexivity.
Qed.

(* ====================================================================== *)
(* 2. One element: control byte + text -> text + mask byte                  *)
(* ====================================================================== *)
(* ---------- nibble strings as bit strings ---------- *)
Definition bits4 (a : nat) : list bool :=
  [Nat.testbit a 3; Nat.testbit a 2; Nat.testbit a 1; Nat.testbit a 0].
Definition bits_of_nibs (p : list nat) : list bool := flat_map bits4 p.

Definition nibs16 : list nat := seq 0 16.
Lemma in_nibs16 a : (a < 16)%nat -> In a nibs16.
Proof. intros H. apply in_seq. lia. Qed.

Lemma byte_pair_table :
  forallb (fun a => forallb (fun b =>
     Z.eqb (Legacy.byte_of (bits4 a ++ bits4 b)) (z_of_byte (byte_of (16 * N.of_nat a + N.of_nat b)))) nibs16) nibs16 = true.
Proof. vm_compute. reflexivity. Qed.

Lemma byte_single_table :
  forallb (fun a =>
     Z.eqb (Legacy.byte_of (bits4 a)) (z_of_byte (byte_of (16 * N.of_nat a))) &&
     Z.eqb (Legacy.byte_of (bits4 a ++ [true])) (z_of_byte (byte_of (16 * N.of_nat a + N.of_nat 8)))) nibs16 = true.
Proof. vm_compute. reflexivity. Qed.

Lemma byte_pair a b : (a < 16)%nat -> (b < 16)%nat ->
  Legacy.byte_of (bits4 a ++ bits4 b) = z_of_byte (byte_of (16 * N.of_nat a + N.of_nat b)).
Proof.
  intros Ha Hb. pose proof byte_pair_table as T. rewrite forallb_forall in T.
  specialize (T a (in_nibs16 a Ha)). rewrite forallb_forall in T. specialize (T b (in_nibs16 b Hb)).
  apply Z.eqb_eq in T. exact T.
Qed.

Lemma byte_single a : (a < 16)%nat ->
  Legacy.byte_of (bits4 a) = z_of_byte (byte_of (16 * N.of_nat a)) /\
  Legacy.byte_of (bits4 a ++ [true]) = z_of_byte (byte_of (16 * N.of_nat a + N.of_nat 8)).
Proof.
  intros Ha. pose proof byte_single_table as T. rewrite forallb_forall in T.
  specialize (T a (in_nibs16 a Ha)). apply andb_true_iff in T. destruct T as [T1 T2].
  apply Z.eqb_eq in T1, T2. split; assumption.
Qed.

Lemma list_ind2 {A} (P : list A -> Prop) :
  P [] -> (forall a, P [a]) -> (forall a b r, P r -> P (a :: b :: r)) -> forall l, P l.
Proof.
  intros H0 H1 H2. fix IH 1. intros [|a [|b r]]; [exact H0|apply H1|apply H2, IH].
Qed.

Definition nibs_ok (p : list nat) : Prop := Forall (fun x => (x < 16)%nat) p.

Lemma pack_bridge : forall p, nibs_ok p -> Legacy.pack (bits_of_nibs p) = map z_of_byte (pack_nibs p).
Proof.
  induction p as [|a|a b r IH] using list_ind2; intros H.
  - reflexivity.
  - inversion H; subst. cbn [bits_of_nibs flat_map app bits4 Legacy.pack pack_nibs map].
    f_equal. apply (byte_single a). assumption.
  - inversion H as [|? ? Ha H']; subst. inversion H' as [|? ? Hb Hr]; subst.
    change (bits_of_nibs (a :: b :: r)) with (bits4 a ++ bits4 b ++ bits_of_nibs r).
    cbn [bits4 app Legacy.pack pack_nibs map]. f_equal; [apply (byte_pair a b); assumption|apply IH; assumption].
Qed.

Lemma pack_bridge_odd : forall p, nibs_ok p -> Nat.even (length p) = false ->
  Legacy.pack (bits_of_nibs p ++ [true]) = map z_of_byte (pack_nibs (p ++ [8%nat])).
Proof.
  induction p as [|a|a b r IH] using list_ind2; intros H He.
  - discriminate.
  - inversion H; subst. cbn [bits_of_nibs flat_map app bits4 Legacy.pack pack_nibs map].
    f_equal. apply (byte_single a). assumption.
  - inversion H as [|? ? Ha H']; subst. inversion H' as [|? ? Hb Hr]; subst.
    change (bits_of_nibs (a :: b :: r) ++ [true]) with (bits4 a ++ bits4 b ++ (bits_of_nibs r ++ [true])).
    cbn [bits4 app Legacy.pack pack_nibs map]. f_equal; [apply (byte_pair a b); assumption|apply IH; assumption].
Qed.

Lemma bits_mod8 : forall p,
  (Z.of_nat (length (bits_of_nibs p)) mod 8 = if Nat.even (length p) then 0 else 4)%Z.
Proof.
  induction p as [|a|a b r IH] using list_ind2; [reflexivity|reflexivity|].
  change (bits_of_nibs (a :: b :: r)) with (bits4 a ++ bits4 b ++ bits_of_nibs r).
  rewrite !app_length. cbn [bits4 length Nat.even]. rewrite <- IH. lia.
Qed.

Lemma ctl_bridge p : nibs_ok p -> map z_of_byte (ctl_of_nibs p) = Legacy.ctl_of_bits (bits_of_nibs p).
Proof.
  intros H. unfold ctl_of_nibs, Legacy.ctl_of_bits. rewrite bits_mod8.
  destruct (Nat.even (length p)) eqn:E; cbn [Z.eqb map].
  - f_equal. symmetry. apply pack_bridge. exact H.
  - change (4 =? 0)%Z with false. cbn [map]. f_equal. symmetry. apply pack_bridge_odd; assumption.
Qed.

Lemma bitstr_bridge p : nibs_ok p -> Legacy.bitstr_of_bits (bits_of_nibs p) = map z_of_byte (bitstr_of_nibs p).
Proof.
  intros H. unfold bitstr_of_nibs, Legacy.bitstr_of_bits. rewrite map_app, bits_mod8, pack_bridge by exact H.
  f_equal. destruct (Nat.even (length p)); reflexivity.
Qed.

Lemma byte_roundtrip b : byte_of_z (z_of_byte b) = b.
Proof.
  unfold byte_of_z, z_of_byte, byte_of. rewrite N2Z.id.
  pose proof (Byte.to_N_bounded b). rewrite N.mod_small by lia. rewrite Byte.of_to_N. reflexivity.
Qed.

(* the loop body turns the control-byte form of a prefix into its bitstr form *)
Theorem conv_elt_ctl p : nibs_ok p -> conv_elt (ctl_of_nibs p) = Ok (bitstr_of_nibs p).
Proof.
  intros H. unfold conv_elt. rewrite (ctl_bridge p H), LegacyProofs.conv_prefix_ctl, (bitstr_bridge p H), map_map.
  f_equal. rewrite <- (map_id (bitstr_of_nibs p)) at 2. apply map_ext. exact byte_roundtrip.
Qed.

Lemma ctl_length p : length (ctl_of_nibs p) = length (bitstr_of_nibs p).
Proof.
  unfold ctl_of_nibs, bitstr_of_nibs. rewrite app_length. cbn [length].
  assert (forall q, length (pack_nibs q) = Nat.div2 (S (length q))) as L.
  { induction q as [|a|a b r IH] using list_ind2; [reflexivity|reflexivity|]. cbn [pack_nibs length]. rewrite IH. reflexivity. }
  destruct (Nat.even (length p)) eqn:E; cbn [length]; rewrite !L; [lia|].
  rewrite app_length. cbn [length].
  assert (Nat.odd (length p) = true) as Ho by (rewrite <- Nat.negb_even, E; reflexivity).
  apply Nat.odd_spec in Ho. destruct Ho as [m Hm]. rewrite Hm.
  replace (S (2 * m + 1 + 1)) with (S (2 * (S m))) by lia. replace (S (2 * m + 1)) with (2 * S m)%nat by lia.
  rewrite Nat.div2_succ_double, Nat.div2_double. lia.
Qed.

Lemma ctl_nonempty p : ctl_of_nibs p <> [].
Proof. unfold ctl_of_nibs. destruct (Nat.even (length p)); discriminate. Qed.

(* ====================================================================== *)
(* 3. The loop over PositionBM                                             *)
(* ====================================================================== *)
Lemma sumN_blen (l : list (list byte)) : sumN (map blen l) = blen (concat l).
Proof. induction l as [|x r IH]; [reflexivity|]. cbn [map sumN concat]. rewrite IH. unfold blen. rewrite app_length. lia. Qed.

Lemma cnt_nz_all l : Forall (fun s => s <> 0) l -> cnt_nz l = length l.
Proof.
  unfold cnt_nz. induction 1 as [|s r Hs _ IH]; [reflexivity|]. cbn [filter]. rewrite (nz_true s Hs). cbn [length]. lia.
Qed.

Lemma filter_nz_id l : Forall (fun s => s <> 0) l -> filter nz l = l.
Proof. induction 1 as [|s r Hs _ IH]; [reflexivity|]. cbn [filter]. rewrite (nz_true s Hs), IH. reflexivity. Qed.

Lemma Forall_firstn' {A} (P : A -> Prop) (l : list A) i : Forall P l -> Forall P (firstn i l).
Proof. intros H. revert i. induction H as [|x r Hx _ IH]; intros [|i]; cbn [firstn]; constructor; auto. Qed.

(* Select32R64 on the position bitmap of non-empty elements, with either select index *)
Lemma select_elt : forall (sizes : list N) ps i,
  Forall (fun s => s <> 0) sizes -> (i < length sizes)%nat ->
  new_bm (step_to_pos 0 sizes) 0 S32 = Val ps ->
  select32_r64 (b_words ps) (b_sel ps) (b_rank ps) (N.of_nat i) =
    Val (sumN (firstn i sizes), sumN (firstn i sizes) + nth i sizes 0) /\
  select32_r64 (b_words (old_sel ps)) (b_sel (old_sel ps)) (b_rank (old_sel ps)) (N.of_nat i) =
    Val (sumN (firstn i sizes), sumN (firstn i sizes) + nth i sizes 0).
Proof.
  intros sizes ps i Hnz Hi E0.
  destruct (step_to_pos_sorted_le sizes 0) as [Hsle _].
  destruct (new_bm_sorted (step_to_pos 0 sizes) 0 S32 Hsle) as (ws & E & L & O & G).
  rewrite E in E0. injection E0 as <-.
  set (P := step_to_pos 0 sizes).
  destruct (step_to_pos_sorted_lt sizes 0 Hnz) as [HsP _].
  assert (HlenP : length P = S (length sizes)) by (unfold P; rewrite step_to_pos_length; reflexivity).
  assert (Htot : total_ones ws = N.of_nat (length P)).
  { unfold total_ones, Rk. fold (N.to_nat 64).
    replace (64 * N.to_nat (N.of_nat (length ws)))%nat with (N.to_nat (64 * N.of_nat (length ws))) by lia.
    fold (rank_spec ws (64 * N.of_nat (length ws))). rewrite (rank_spec_listed ws P _ HsP G).
    f_equal. apply count_lt_all. rewrite Forall_forall. intros x Hx. apply G in Hx. apply bm_get_true_lt in Hx. exact Hx. }
  destruct (select32_r64_correct ws (N.of_nat i) O) as (a & b & Esel & Sa & Sb); [rewrite Htot; lia|].
  destruct (select_listed ws P (N.of_nat i) a b HsP G) as [Ea Eb]; try assumption; [lia|].
  rewrite Nat2N.id in Ea, Eb.
  assert (Hn : nth i sizes 0 <> 0).
  { rewrite Forall_forall in Hnz. apply Hnz. apply nth_In. exact Hi. }
  destruct (step_to_pos_nth sizes 0 i Hi Hn) as [A B]. cbv zeta in A, B.
  rewrite (filter_nz_id sizes Hnz) in A, B.
  rewrite (cnt_nz_all (firstn i sizes)) in A, B by (apply Forall_firstn'; exact Hnz).
  rewrite firstn_length_le in A, B by lia. fold P in A, B.
  rewrite A in Ea. rewrite B in Eb. rewrite N.add_0_l in Ea, Eb. subst a b.
  cbn [old_sel index_bm b_words b_sel b_rank]. split; [exact Esel|].
  rewrite (select_shift ws (N.of_nat i) O). exact Esel.
Qed.

(* what the loop does to the elements still to convert *)
Definition conv_rel (o n : list byte) : Prop := conv_elt o = Ok n /\ length o = length n /\ o <> [].

Lemma concat_split (done : list (list byte)) o rest :
  concat (done ++ o :: rest) = concat done ++ o ++ concat rest.
Proof. rewrite concat_app. reflexivity. Qed.

Lemma firstn_blen {A} (a b : list A) : firstn (N.to_nat (blen a)) (a ++ b) = a.
Proof. unfold blen. rewrite Nat2N.id, firstn_app, Nat.sub_diag, firstn_all, firstn_O, app_nil_r. reflexivity. Qed.

Lemma skipn_blen {A} (a b : list A) : skipn (N.to_nat (blen a)) (a ++ b) = b.
Proof. unfold blen. rewrite Nat2N.id, skipn_app, Nat.sub_diag, skipn_all, skipn_O. reflexivity. Qed.

Lemma conv_loop_elts : forall sizes ps0,
  new_bm (step_to_pos 0 sizes) 0 S32 = Val ps0 ->
  forall todo_o todo_n, Forall2 conv_rel todo_o todo_n -> todo_o <> [] ->
  forall done fuel, Forall (fun e => e <> []) done -> map blen (done ++ todo_o) = sizes ->
  (length todo_o <= fuel)%nat ->
  conv_loop fuel (old_sel ps0) (concat (done ++ todo_o)) (N.of_nat (length done)) = Ok (concat (done ++ todo_n)).
Proof.
  intros sizes ps0 Eps. induction 1 as [|o n ro rn [Hc [Hl Hne]] Hrest IH]; intros Hnil done fuel Hdone Hsz Hf; [congruence|].
  destruct fuel as [|fuel]; [cbn [length] in Hf; lia|]. cbn [conv_loop].
  set (E := done ++ o :: ro) in *.
  assert (HneE : Forall (fun e : list byte => e <> []) E).
  { unfold E. apply Forall_app. split; [exact Hdone|]. constructor; [exact Hne|].
    clear -Hrest. induction Hrest as [|? ? ? ? [_ [_ H]] _ IH]; constructor; assumption. }
  assert (Hnz : Forall (fun s => s <> 0) sizes).
  { rewrite <- Hsz. rewrite Forall_map. revert HneE. apply Forall_impl. intros e He. unfold blen. destruct e; [congruence|cbn; lia]. }
  assert (Hi : (length done < length sizes)%nat).
  { rewrite <- Hsz, map_length. unfold E. rewrite app_length. cbn [length]. lia. }
  destruct (select_elt sizes ps0 (length done) Hnz Hi Eps) as [_ Esel]. rewrite Esel.
  assert (Hfirst : firstn (length done) E = done) by (unfold E; rewrite firstn_app, Nat.sub_diag, firstn_all, firstn_O, app_nil_r; reflexivity).
  assert (Hnth : nth (length done) E [] = o) by (unfold E; rewrite app_nth2, Nat.sub_diag by lia; reflexivity).
  rewrite <- Hsz, firstn_map, Hfirst, (nth_sizes E) by (unfold E; rewrite app_length; cbn [length]; lia). rewrite Hnth.
  pose proof (slice_concat E (length done)) as Hsl. rewrite Hfirst, Hnth in Hsl.
  rewrite Hsl by (unfold E; rewrite app_length; cbn [length]; lia).
  rewrite Hc. cbn [bind]. rewrite sumN_blen.
  clear Hsl Hnth Hfirst HneE Hi. unfold E. rewrite concat_split.
  rewrite firstn_blen.
  replace (blen (concat done) + blen o) with (blen (concat done ++ o)) by (unfold blen; rewrite app_length; lia).
  rewrite app_assoc, skipn_blen.
  destruct Hrest as [|o2 n2 ro' rn' [_ [_ Hne2]] Hrest'].
  - cbn [concat]. rewrite !app_nil_r, N.eqb_refl.
    rewrite concat_app. cbn [concat]. rewrite app_nil_r. reflexivity.
  - 
    destruct (N.eqb_spec (blen (concat done ++ o)) (blen ((concat done ++ o) ++ concat (o2 :: ro')))) as [Heq|_].
    { exfalso. unfold blen in Heq. cbn [concat] in Heq. rewrite !app_length in Heq.
      destruct o2; [congruence|cbn [length] in Heq; lia]. }
    specialize (IH ltac:(discriminate) (done ++ [n]) fuel).
    rewrite app_length in IH. cbn [length] in IH. replace (N.succ (N.of_nat (length done))) with (N.of_nat (length done + 1)) by lia.
    rewrite <- !app_assoc in IH. cbn [app] in IH.
    replace (concat done ++ n ++ concat (o2 :: ro')) with (concat (done ++ n :: o2 :: ro')) by (rewrite concat_split; reflexivity).
    rewrite IH; [reflexivity| | |].
    + apply Forall_app. split; [exact Hdone|]. constructor; [|constructor]. intros ->. destruct o; [congruence|discriminate].
    + rewrite <- Hsz. unfold E. rewrite !map_app. cbn [map]. unfold blen. rewrite Hl. reflexivity.
    + cbn [length] in Hf |- *. lia.
Qed.

(* ====================================================================== *)
(* 4. Leaves, the whole message, fuel                                      *)
(* ====================================================================== *)
(* ---------- before000512FixLeafSize rebuilds today's fixed-size Leaves ---------- *)
Lemma nonzero_idx_all : forall sizes b, Forall (fun s => s <> 0) sizes -> nonzero_idx b sizes = nseq b (length sizes).
Proof.
  induction sizes as [|s r IH]; intros b H; [reflexivity|]. inversion H as [|? ? Hs Hr]; subst.
  cbn [nonzero_idx length nseq]. destruct (N.eqb_spec s 0); [congruence|]. cbn [app]. rewrite IH by exact Hr. reflexivity.
Qed.

Lemma scan_sizes_const : forall sizes e b, e <> 0 -> Forall (fun s => s = e) sizes ->
  scan_sizes (Some e) b sizes = (Some e, b).
Proof.
  induction sizes as [|s r IH]; intros e b He H; [reflexivity|]. inversion H as [|? ? Hs Hr]; subst.
  cbn [scan_sizes]. destruct (N.eqb_spec e 0); [congruence|]. rewrite N.eqb_refl, andb_true_r. apply IH; assumption.
Qed.

Lemma scan_sizes_start : forall sizes e, e <> 0 -> Forall (fun s => s = e) sizes -> length sizes <> O ->
  scan_sizes None true sizes = (Some e, true).
Proof.
  intros [|s r] e He H Hl; [cbn in Hl; congruence|]. inversion H as [|? ? Hs Hr]; subst. cbn [scan_sizes].
  destruct (N.eqb_spec e 0); [congruence|]. apply scan_sizes_const; assumption.
Qed.

Lemma nseq_length : forall n b, length (nseq b n) = n.
Proof. induction n; intros; cbn [nseq length]; auto. Qed.

Lemma sumN_const : forall sizes e, Forall (fun s => s = e) sizes -> sumN sizes = N.of_nat (length sizes) * e.
Proof. induction 1 as [|s r Hs _ IH]; [reflexivity|]. cbn [sumN length]. rewrite IH, Hs. lia. Qed.

Theorem fix_leaves_new_vlen : forall esize elts lv,
  Forall (fun e => blen e = esize) elts -> new_vlen elts = Val lv ->
  fix_leaves esize (option_map old_leaves lv) = Ok lv.
Proof.
  intros esize elts lv Hall. unfold new_vlen. set (sizes := map blen elts).
  assert (Hsz : Forall (fun s => s = esize) sizes) by (unfold sizes; rewrite Forall_map; exact Hall).
  destruct (N.eqb_spec (sumN sizes) 0) as [H0|H0]; [intros [= <-]; reflexivity|].
  rewrite (sumN_const sizes esize Hsz) in H0.
  assert (He : esize <> 0) by lia.
  assert (Hlen : length sizes <> O) by lia.
  assert (Hnz : Forall (fun s => s <> 0) sizes) by (revert Hsz; apply Forall_impl; intros; lia).
  rewrite (nonzero_idx_all sizes 0 Hnz).
  assert (Hscan : scan_sizes None true sizes = (Some esize, true)).
  { apply scan_sizes_start; assumption. }
  rewrite Hscan. unfold obind.
  assert (Hb : blen elts = N.of_nat (length sizes)) by (unfold sizes, blen; rewrite map_length; reflexivity).
  destruct (new_bm (nseq 0 (length sizes)) (blen elts) R64) as [pres|] eqn:Ep; [|discriminate].
  intros [= <-]. cbn [option_map old_leaves fix_leaves v_presence v_fixed v_bytes v_position].
  change (0 =? 0) with true. cbn [negb]. destruct (N.eqb_spec esize 0); [congruence|].
  assert (Hn : blen (concat elts) / esize = N.of_nat (length sizes)).
  { rewrite <- sumN_blen. fold sizes. rewrite (sumN_const sizes esize Hsz). apply N.div_mul. exact He. }
  rewrite Hn, Nat2N.id, <- Hb, Ep.
  replace (blen sizes) with (blen elts) by (unfold sizes; rewrite blen_map; reflexivity).
  replace (blen (nseq 0 (length sizes))) with (blen elts) by (unfold blen at 2; rewrite nseq_length; exact Hb).
  reflexivity.
Qed.

(* ---------- the fields of today's message the conversion concerns ---------- *)
Ltac open_doo H :=
  repeat match type of H with
  | context [obind ?x _] => let E := fresh "E" in destruct x eqn:E; cbn [obind] in H; [|discriminate H]
  end.

Lemma encode_msg_parts nodes ipfx lpfx leaves m :
  encode_msg nodes ipfx lpfx leaves = Val m ->
  let ins := inners_of nodes in
  (if ipfx then
     exists n ppres pos, new_bm (step_to_pos 0 (map blen (prefix_bitstrs ins))) 0 S32 = Val pos /\
       m_innerpfx m = Some (mkVL 0 n (Some ppres) (Some pos) 0 (concat (prefix_bitstrs ins)))
   else exists v, m_innerpfx m = Some v /\ v_position v = None) /\
  (if lpfx then
     exists pres pos, new_bm (step_to_pos 0 (map blen (tail_bytes (tails_of nodes)))) 0 S32 = Val pos /\
       m_leafpfx m = Some (mkVL 0 0 (Some pres) (Some pos) 0 (concat (tail_bytes (tails_of nodes))))
   else m_leafpfx m = None) /\
  match leaves with None => m_leaves m = None | Some elts => new_vlen elts = Val (m_leaves m) end.
Proof.
  unfold encode_msg. cbv zeta. intros H.
  open_doo H.
  destruct (table_loop _ _ _) as [table most].
  open_doo H.
  repeat match goal with p : (_ * _)%type |- _ => destruct p end.
  open_doo H. injection H as <-. cbn [m_innerpfx m_leafpfx m_leaves].
  repeat split.
  - match goal with E : (if ipfx then _ else _) = Val _ |- _ => rename E into Ei end.
    destruct ipfx.
    + open_doo Ei. injection Ei as <-. eauto 6.
    + injection Ei as <-. eexists. split; reflexivity.
  - match goal with E : (if lpfx then _ else _) = Val _ |- _ => rename E into El end.
    destruct lpfx.
    + open_doo El. injection El as <-. eauto.
    + injection El as <-. reflexivity.
  - destruct leaves; [assumption|]. match goal with E : Val None = Val _ |- _ => injection E as <- end. reflexivity.
Qed.

(* stored prefixes of a well-formed node list are nibble strings *)
Lemma wf_prefix_nibs : forall lpfx nodes pos nlab nleaf bigok,
  wf_from true lpfx nodes pos nlab nleaf bigok = true ->
  Forall (fun i => match i_pfx i with Some p => nibs_ok p | None => True end) (inners_of nodes).
Proof.
  intros lpfx. induction nodes as [|v r IH]; intros pos nlab nleaf bigok H; [constructor|].
  destruct v as [id ord tail|id big step pfx fc labels]; cbn [wf_from inners_of] in *.
  - repeat (apply andb_true_iff in H; destruct H as [H ?]). eapply IH; eassumption.
  - repeat (apply andb_true_iff in H; destruct H as [H ?]).
    constructor; [|eapply IH; eassumption]. cbn [i_pfx].
    match goal with Hq : pfx_ok true _ _ = true |- _ => unfold pfx_ok in Hq; apply andb_true_iff in Hq; destruct Hq as [_ Hp] end.
    destruct pfx as [p|]; [|exact I]. apply andb_true_iff in Hp. destruct Hp as [_ Hp].
    unfold nibs_ok. rewrite Forall_forall. rewrite forallb_forall in Hp. intros x Hx. apply Nat.ltb_lt. apply Hp. exact Hx.
Qed.

Lemma prefix_conv_rel : forall ins,
  Forall (fun i => match i_pfx i with Some p => nibs_ok p | None => True end) ins ->
  Forall2 conv_rel (prefix_ctls ins) (prefix_bitstrs ins).
Proof.
  induction 1 as [|i r Hi _ IH]; [constructor|]. unfold prefix_ctls, prefix_bitstrs. cbn [flat_map].
  destruct (i_pfx i) as [p|]; cbn [app]; [|exact IH]. constructor; [|exact IH].
  split; [apply conv_elt_ctl; exact Hi|]. split; [apply ctl_length|apply ctl_nonempty].
Qed.

Lemma Forall2_sizes : forall os ns, Forall2 conv_rel os ns -> map blen os = map blen ns.
Proof. induction 1 as [|o n ro rn [_ [Hl _]] _ IH]; [reflexivity|]. cbn [map]. unfold blen at 1 3. rewrite Hl, IH. reflexivity. Qed.

Lemma Forall2_nonempty : forall os ns, Forall2 conv_rel os ns -> Forall (fun e => e <> []) os /\ Forall (fun e => e <> []) ns.
Proof.
  induction 1 as [|o n ro rn [_ [Hl Hne]] _ [IH1 IH2]]; [split; constructor|]. split; constructor; try assumption.
  intros ->. destruct o; [congruence|discriminate].
Qed.

(* the select index is long enough for the fuel of the loop *)
Lemma sel_index_long : forall sizes ps, Forall (fun s => s <> 0) sizes ->
  new_bm (step_to_pos 0 sizes) 0 S32 = Val ps -> (length sizes < 32 * length (b_sel ps))%nat.
Proof.
  intros sizes ps Hnz E0.
  destruct (step_to_pos_sorted_le sizes 0) as [Hsle _].
  destruct (new_bm_sorted (step_to_pos 0 sizes) 0 S32 Hsle) as (ws & E & L & O & G).
  rewrite E in E0. injection E0 as <-.
  set (P := step_to_pos 0 sizes).
  destruct (step_to_pos_sorted_lt sizes 0 Hnz) as [HsP _].
  assert (HlenP : length P = S (length sizes)) by (unfold P; rewrite step_to_pos_length; reflexivity).
  assert (Htot : total_ones ws = N.of_nat (length P)).
  { unfold total_ones, Rk. fold (N.to_nat 64).
    replace (64 * N.to_nat (N.of_nat (length ws)))%nat with (N.to_nat (64 * N.of_nat (length ws))) by lia.
    fold (rank_spec ws (64 * N.of_nat (length ws))). rewrite (rank_spec_listed ws P _ HsP G).
    f_equal. apply count_lt_all. rewrite Forall_forall. intros x Hx. apply G in Hx. apply bm_get_true_lt in Hx. exact Hx. }
  destruct (index_select32_some ws (N.of_nat (length sizes))) as [s Es]; [rewrite Htot; lia|].
  apply nthN_Some_lt in Es. cbn [index_bm b_sel]. rewrite N.shiftr_div_pow2 in Es. change (2 ^ 5) with 32 in Es. lia.
Qed.

Lemma conv_innerpfx_encoded : forall ins n ppres pos,
  Forall (fun i => match i_pfx i with Some p => nibs_ok p | None => True end) ins ->
  new_bm (step_to_pos 0 (map blen (prefix_bitstrs ins))) 0 S32 = Val pos ->
  let v := mkVL 0 n (Some ppres) (Some pos) 0 (concat (prefix_bitstrs ins)) in
  conv_innerpfx (Some (old_innerpfx ins v)) = Ok (Some (old_sel_vl v)).
Proof.
  intros ins n ppres pos Hins Epos v. unfold v, old_innerpfx, old_sel_vl. cbn [v_position v_n v_eltcnt v_presence v_fixed v_bytes option_map].
  pose proof (prefix_conv_rel ins Hins) as HR.
  destruct (Forall2_nonempty _ _ HR) as [Hne1 Hne2].
  unfold conv_innerpfx. cbn [v_position v_bytes v_n v_eltcnt v_presence v_fixed].
  destruct (prefix_ctls ins) as [|c0 cr] eqn:Ec.
  - inversion HR as [E1 E2|]; subst. cbn [concat]. reflexivity.
  - rewrite <- Ec in *. destruct (concat (prefix_ctls ins)) as [|b0 br] eqn:Econ.
    + exfalso. rewrite Ec in Econ, Hne1. cbn [concat] in Econ. inversion Hne1; subst. destruct c0; [congruence|discriminate].
    + rewrite <- Econ.
      pose proof (conv_loop_elts (map blen (prefix_bitstrs ins)) pos Epos _ _ HR ltac:(rewrite Ec; discriminate) [] (conv_fuel (old_sel pos))) as HL.
      cbn [app length] in HL. change (N.of_nat 0) with 0 in HL. rewrite HL; [reflexivity|constructor|apply Forall2_sizes; exact HR|].
      unfold conv_fuel. cbn [old_sel b_sel]. rewrite map_length.
      assert (Hnz : Forall (fun s => s <> 0) (map blen (prefix_bitstrs ins))).
      { rewrite Forall_map. revert Hne2. apply Forall_impl. intros e He. unfold blen. destruct e; [congruence|cbn; lia]. }
      pose proof (sel_index_long _ _ Hnz Epos) as HS. rewrite map_length in HS.
      rewrite <- (map_length blen), (Forall2_sizes _ _ HR), map_length. lia.
Qed.

(* ---------- main theorem ---------- *)
Theorem conv510_encode : forall T esize M,
  trie_wf T = true -> encode_trie T = Val M -> leaves_fixed esize T ->
  exists Om, encode_0510 T = Val Om /\ conv510_msg esize (parse510 Om) = Ok (old_sel_msg M).
Proof.
  intros T esize M Hwf Em Hlv. unfold encode_0510. rewrite Em. cbn [obind].
  unfold encode_trie in Em. unfold trie_wf in Hwf. destruct (t_root T) as [r|] eqn:Hr.
  2:{ injection Em as <-. eexists. split; [reflexivity|]. reflexivity. }
  eexists. split; [reflexivity|]. unfold parse510. cbn [o_msg].
  destruct (encode_msg_parts _ _ _ _ _ Em) as (Hip & Hlp & Hleaves).
  unfold flat_wf in Hwf. apply andb_true_iff in Hwf. destruct Hwf as [Hwf _].
  unfold conv510_msg. cbn [m_innerpfx m_leaves m_bigcnt m_shortsize m_nodetype m_inners m_shortbm m_shorttable m_leafpfx].
  assert (Hi : conv_innerpfx (option_map (old_innerpfx (inners_of (flat_nodes r))) (m_innerpfx M)) =
               Ok (option_map old_sel_vl (m_innerpfx M))).
  { destruct (t_innerpfx T).
    - destruct Hip as (n & ppres & pos & Epos & ->). cbn [option_map].
      apply conv_innerpfx_encoded; [|exact Epos]. eapply wf_prefix_nibs. exact Hwf.
    - destruct Hip as (v & -> & Hv). cbn [option_map]. unfold old_innerpfx, old_sel_vl, conv_innerpfx. rewrite Hv. cbn [option_map].
      destruct v; cbn in *; subst; reflexivity. }
  rewrite Hi. cbn [bind].
  assert (Hl : fix_leaves esize (option_map old_leaves (m_leaves M)) = Ok (m_leaves M)).
  { unfold leaves_fixed in Hlv. destruct (t_leaves T) as [elts|].
    - eapply fix_leaves_new_vlen; eassumption.
    - rewrite Hleaves. reflexivity. }
  rewrite Hl. cbn [bind]. reflexivity.
Qed.

Corollary conv510_built : forall o keys vals T esize M,
  build o keys vals = Ok T -> encode_trie T = Val M -> leaves_fixed esize T ->
  exists Om, encode_0510 T = Val Om /\ load510 esize Om = Ok (old_sel_msg M).
Proof. intros. eapply conv510_encode; eauto using built_trie_wf. Qed.

(* ---------- the loop fuel is never exhausted, on any message ---------- *)
Lemma conv_elt_no_fuel old : conv_elt old <> Err EFuel.
Proof.
  unfold conv_elt, Legacy.conv_prefix. destruct (map z_of_byte old) as [|c body]; [discriminate|].
  unfold Legacy.bitstr_new, bind.
  repeat match goal with |- context [if ?b then _ else _] => destruct b end; discriminate.
Qed.

Lemma conv_loop_no_fuel ps : forall fuel bytes i, (1 <= fuel)%nat ->
  N.of_nat (32 * length (b_sel ps)) < i + N.of_nat fuel -> conv_loop fuel ps bytes i <> Err EFuel.
Proof.
  induction fuel as [|fuel IH]; intros bytes i H1 H2; [lia|]. cbn [conv_loop].
  destruct (select32_r64 (b_words ps) (b_sel ps) (b_rank ps) i) as [[from to]|] eqn:Es; [|discriminate].
  assert (Hi : i < N.of_nat (32 * length (b_sel ps))).
  { unfold select32_r64 in Es. destruct (nthN (b_sel ps) (N.shiftr i 5)) as [s|] eqn:En; [|discriminate].
    apply nthN_Some_lt in En. rewrite N.shiftr_div_pow2 in En. change (2 ^ 5) with 32 in En. lia. }
  destruct (slice_bytes bytes from to) as [old|]; [|discriminate].
  destruct (conv_elt old) as [new|e] eqn:Ec; cbn [bind]; [|intros [= ->]; exact (conv_elt_no_fuel _ Ec)].
  destruct (to =? blen bytes); [discriminate|]. apply IH; lia.
Qed.

Theorem conv510_never_fuel : forall esize m, conv510_msg esize m <> Err EFuel.
Proof.
  intros esize m. unfold conv510_msg.
  assert (Hi : conv_innerpfx (m_innerpfx m) <> Err EFuel).
  { unfold conv_innerpfx. destruct (m_innerpfx m) as [v|]; [|discriminate].
    destruct (v_position v) as [ps|]; [|discriminate]. destruct (v_bytes v) as [|b0 br]; [discriminate|].
    pose proof (conv_loop_no_fuel ps (conv_fuel ps) (b0 :: br) 0) as H. unfold conv_fuel in *.
    destruct (conv_loop _ ps (b0 :: br) 0) as [bytes|e]; cbn [bind]; [discriminate|].
    intros [= ->]. apply H; [lia|lia|reflexivity]. }
  destruct (conv_innerpfx (m_innerpfx m)) as [ip|e]; cbn [bind]; [|congruence].
  unfold fix_leaves. destruct (m_leaves m) as [v|]; cbn [bind]; [|discriminate].
  destruct (v_presence v); cbn [bind]; [discriminate|].
  destruct (negb (v_fixed v =? 0)); [discriminate|]. destruct (esize =? 0); [discriminate|].
  destruct (new_bm _ _ _); cbn [bind]; discriminate.
Qed.
