(* GetIntMsgProofs.v - the typed getters computed from the bit-level message (GetIntMsg.mgeti:
   GetID over the bitmaps, getLeafIndex = id - Rank64(NodeTypeBM), the slice of Leaves.Bytes
   read directly) return, on the message of every built trie, what the tree model of the
   getters returns (GetInt.geti); hence the C14 theorems hold for mgeti / Msg.mget. *)
From Slim Require Import Base Keys KeysProofs ListFacts Model TrieInv BuildProofs QueryProofs
  GetInt GetIntProofs Flat FlatProofs BitmapRank BitmapRank2 Bits BitsVlenProofs BitsWfProofs BitsFlatProofs
  Msg MsgProofs GetIntMsg.
From Slim Require Encoders EncodersProofs.
From Coq Require Import ZifyNat ZifyN ZifyBool.

(* ---------- the packed buffer of a VLenArray is the concatenation of its elements ---------- *)
Lemma new_vlen_bytes elts v : new_vlen elts = Val (Some v) -> v_bytes v = concat elts.
Proof.
  unfold new_vlen. cbv zeta. destruct (N.eqb _ 0); [discriminate|].
  destruct (new_bm _ _ R64); cbn [obind]; [|discriminate].
  destruct (scan_sizes _ _ _) as [prev alleq]. destruct alleq.
  - intros H. injection H as <-. reflexivity.
  - destruct (new_bm _ _ S32); cbn [obind]; [|discriminate]. intros H. injection H as <-. reflexivity.
Qed.

(* the field Leaves of the message is newVLenArray of the leaf values (nil without values) *)
Lemma encode_msg_leaves nodes ipfx lpfx leaves m :
  encode_msg nodes ipfx lpfx leaves = Val m ->
  match leaves with None => Val None | Some elts => new_vlen elts end = Val (m_leaves m).
Proof.
  unfold encode_msg. cbv zeta. intros H.
  open_doo H.
  destruct (table_loop _ _ _) as [table most].
  open_doo H.
  repeat match goal with p : (_ * _)%type |- _ => destruct p end.
  open_doo H. injection H as <-. cbn [m_leaves]. first [assumption|reflexivity].
Qed.

Lemma built_leaves_nonempty o keys vals T r lidx elts :
  Built o keys vals T r lidx -> t_leaves T = Some elts -> ~ Forall (fun e => e = []) elts.
Proof.
  intros B El. rewrite (bt_leaves _ _ _ _ _ _ B) in El. unfold select_leaves in El. destruct vals as [vs0|]; [|discriminate].
  destruct (total_size _ =? 0) eqn:Ez; [discriminate|]. injection El as <-. apply Nat.eqb_neq in Ez.
  intros Hall. apply Ez. unfold total_size. clear -Hall. induction Hall as [|x l Hx _ IH]; [reflexivity|].
  cbn [map sum_list]. rewrite Hx. exact IH.
Qed.

(* Leaves of the message of a built trie: nil iff the trie has no leaf array, otherwise its
   Bytes are the concatenation of the leaf elements *)
Lemma message_leaves o keys vals T m :
  build o keys vals = Ok T -> encode_trie T = Val m ->
  match t_leaves T with
  | None => m_leaves m = None
  | Some elts => exists va, m_leaves m = Some va /\ v_bytes va = concat elts
  end.
Proof.
  intros Hb Em.
  destruct (build_ok o keys vals T Hb) as [[_ ->]|(r & lidx & B)].
  - cbn in Em. injection Em as <-. reflexivity.
  - pose proof (bt_root _ _ _ _ _ _ B) as Hr.
    pose proof (encode_msg_leaves _ _ _ _ _ (Hem T r Hr m Em)) as HL.
    destruct (t_leaves T) as [elts|] eqn:El.
    + destruct (new_vlen_total elts) as (rr & Er & Hnone). rewrite Er in HL. injection HL as HL. subst rr.
      destruct (m_leaves m) as [va|].
      * exists va. split; [reflexivity|]. apply new_vlen_bytes. exact Er.
      * exfalso. apply (built_leaves_nonempty o keys vals T r lidx elts B El). apply Hnone. reflexivity.
    + injection HL as HL. symmetry. exact HL.
Qed.

(* every built trie has a message, and initVars accepts it *)
Lemma built_message_exists o keys vals T :
  build o keys vals = Ok T -> exists m vs, encode_trie T = Val m /\ init_vars m = Val vs.
Proof.
  intros Hb. destruct (t_root T) as [r|] eqn:Hr.
  - destruct (built_trie_refinement o keys vals T r Hb Hr) as (m & vs & Em & Ev & _). exists m, vs. split; assumption.
  - unfold encode_trie. rewrite Hr. eexists. eexists. split; reflexivity.
Qed.

(* ---------- getLeafIndex from the node-type bitmap ---------- *)
Lemma mleaf_index_of_node m vs id ith tail :
  get_node m vs id = Val (DnLeaf ith tail) -> exists b, mleaf_index m id = Val (ith, b).
Proof.
  unfold get_node, mleaf_index. destruct (m_nodetype m) as [nt|]; [|discriminate].
  destruct (rank64 _ _ id) as [[rk isin]|]; cbn [obind]; [|discriminate].
  destruct (N.eqb isin 0).
  - unfold get_leaf_prefix. cbv zeta. destruct (m_leafpfx m) as [lp|].
    + destruct (v_presence lp) as [pres|]; [|discriminate].
      destruct (get_bit _ _) as [has|]; cbn [obind]; [|discriminate]. destruct has; cbn [negb].
      * destruct (rank64 _ _ _) as [[a b]|]; cbn [obind]; [|discriminate].
        destruct (v_position lp) as [ps|]; [|discriminate].
        destruct (vlen_var_elt _ _ _); cbn [obind]; [|discriminate].
        intros H. injection H as <- _. eexists. reflexivity.
      * intros H. injection H as <- _. eexists. reflexivity.
    + intros H. injection H as <- _. eexists. reflexivity.
  - destruct (inner_range m vs rk) as [[[[a b] c] d]|]; cbn [obind]; [|discriminate].
    destruct (inner_prefix m rk) as [[e f]|]; cbn [obind]; discriminate.
Qed.

(* ---------- GetI<N> from the message = GetI<N> on the tree ---------- *)
Theorem mgeti_geti o keys vals T m vs w q fuel :
  build o keys vals = Ok T -> encode_trie T = Val m -> init_vars m = Val vs ->
  trie_height T <= fuel ->
  mgeti w (S fuel) m vs q = geti w T q.
Proof.
  intros Hb Em Ev Hf. unfold mgeti. rewrite (mgetid_getid o keys vals T m vs q fuel Hb Em Ev Hf). unfold bind.
  unfold getid, geti. destruct (getid_node T q) as [c|] eqn:Eg; cbn [option_map]; [|reflexivity].
  destruct (build_ok o keys vals T Hb) as [[_ ->]|(r & lidx & B)]; [unfold getid_node in Eg; cbn in Eg; discriminate|].
  pose proof (bt_root _ _ _ _ _ _ B) as Hr.
  destruct (getid_node_leaf o keys vals T r lidx q c B Eg) as (Hsub & Hleaf).
  destruct c as [id ord tail eidx|]; [|discriminate]. cbn [tree_id leaf_index].
  pose proof (node_leaf o keys vals T r Hb Hr m vs Em Ev id ord tail eidx Hsub) as Hgn.
  destruct (mleaf_index_of_node _ _ _ _ _ Hgn) as (b & Hli). rewrite Hli.
  destruct (encode_msg_fields _ _ _ _ _ (Hem T r Hr m Em)) as (Hnt & _). specialize (Hnt (flat_nodes_ne r)).
  destruct (m_nodetype m) as [nt|]; [|congruence].
  pose proof (message_leaves o keys vals T m Hb Em) as HL.
  destruct (t_leaves T) as [elts|].
  - destruct HL as (va & -> & ->). rewrite Nat2N.id. reflexivity.
  - rewrite HL. reflexivity.
Qed.

(* Get over the message followed by the decoder = Get on the tree followed by the decoder *)
Lemma mget_then_decode_eq o keys vals T m vs w q fuel :
  build o keys vals = Ok T -> encode_trie T = Val m -> init_vars m = Val vs ->
  trie_height T <= fuel ->
  mget_then_decode w (S fuel) m vs q = get_then_decode w T q.
Proof.
  intros Hb Em Ev Hf. unfold mget_then_decode, get_then_decode.
  rewrite (mget_get o keys vals T m vs q fuel Hb Em Ev Hf). reflexivity.
Qed.

(* ---------- C14 through the message ---------- *)
Theorem mgeti_agrees o keys (vls : list (list byte)) T m vs w q fuel :
  build o keys (Some vls) = Ok T -> encode_trie T = Val m -> init_vars m = Val vs ->
  trie_height T <= fuel ->
  length vls = length keys -> Forall (fun v => length v = w) vls -> 0 < w ->
  mgeti w (S fuel) m vs q = mget_then_decode w (S fuel) m vs q /\
  ((mget (S fuel) m vs q = Ok NotFound /\ mgeti w (S fuel) m vs q = Ok (0%Z, false)) \/
   (exists i b, i < length keys /\ nth_error vls i = Some b /\
                mget (S fuel) m vs q = Ok (Found (Some b)) /\ mgeti w (S fuel) m vs q = Ok (le_signed w b, true))).
Proof.
  intros Hb Em Ev Hf Hlen Hw Hpos.
  rewrite (mgeti_geti o keys (Some vls) T m vs w q fuel Hb Em Ev Hf).
  rewrite (mget_then_decode_eq o keys (Some vls) T m vs w q fuel Hb Em Ev Hf).
  rewrite (mget_get o keys (Some vls) T m vs q fuel Hb Em Ev Hf).
  exact (geti_agrees o keys vls T w q Hb Hlen Hw Hpos).
Qed.

Theorem mgeti_same_number (c : Encoders.icodec) o keys (zs : list Z) T m vs q fuel :
  Encoders.ic_signed c = true -> Encoders.ic_big c = false -> 0 < Encoders.ic_width c ->
  Forall (Encoders.in_range true (Encoders.ic_width c)) zs -> length zs = length keys ->
  build o keys (Some (map (Encoders.int_encode c) zs)) = Ok T ->
  encode_trie T = Val m -> init_vars m = Val vs -> trie_height T <= fuel ->
  (mget (S fuel) m vs q = Ok NotFound /\ mgeti (Encoders.ic_width c) (S fuel) m vs q = Ok (0%Z, false)) \/
  (exists i z, i < length keys /\ nth_error zs i = Some z /\
               mget (S fuel) m vs q = Ok (Found (Some (Encoders.int_encode c z))) /\
               Encoders.int_decode c (Encoders.int_encode c z) = Encoders.DOk (Encoders.ic_width c, z) /\
               mgeti (Encoders.ic_width c) (S fuel) m vs q = Ok (z, true)).
Proof.
  intros Hs Hbig Hw Hr Hlen Hb Em Ev Hf.
  rewrite (mgeti_geti o keys _ T m vs (Encoders.ic_width c) q fuel Hb Em Ev Hf).
  rewrite (mget_get o keys _ T m vs q fuel Hb Em Ev Hf).
  exact (geti_same_number c o keys zs T q Hs Hbig Hw Hr Hlen Hb).
Qed.

Theorem mgeti_mget_tree o keys vals T m vs w q fuel :
  build o keys vals = Ok T -> encode_trie T = Val m -> init_vars m = Val vs ->
  trie_height T <= fuel ->
  mgeti w (S fuel) m vs q = geti w T q /\ mget (S fuel) m vs q = get T q.
Proof.
  intros Hb Em Ev Hf. split.
  - exact (mgeti_geti o keys vals T m vs w q fuel Hb Em Ev Hf).
  - exact (mget_get o keys vals T m vs q fuel Hb Em Ev Hf).
Qed.
