(* WireProofs.v - facts about the REGENERATED constants (coq/gen/Gen_Consts.v)
   and the wire theorems instantiated with them.  Every "by computation" lemma
   here states the value the model was written for: when /repo changes the
   version or the compatible list, these stop compiling and the check fails. *)
From Coq Require Import List NArith ZArith Bool Lia.
From Coq.Strings Require Import Byte.
From Slim Require Import Varint VarintProofs Proto ProtoProofs Semver Frame FrameProofs Instance InstanceProofs Wire.
Import ListNotations.
Open Scope N_scope.

Lemma cur_gen_clean : strip_nul cur_gen = cur_gen.
Proof. vm_compute. reflexivity. Qed.

Lemma cur_gate_gen : cur_gate compat_gen cur_gen = true.
Proof. vm_compute. reflexivity. Qed.

Lemma gate_total_gen : gate_total compat_gen cur_gen = true.
Proof. vm_compute. reflexivity. Qed.

(* the released versions the loader accepts, as (major, minor, patch) *)
Definition release_triples : list (N * N * N) :=
  [(1, 0, 0); (0, 5, 8); (0, 5, 9); (0, 5, 10); (0, 5, 11); (0, 5, 12)].

Definition rel (a b c : N) : version := mkVersion a b c [] [].

Lemma range_gen :
  parse_range compat_gen =
  RangeEqAny [rel 1 0 0; rel 0 5 8; rel 0 5 9; rel 0 5 10; rel 0 5 11; rel 0 5 12].
Proof. vm_compute. reflexivity. Qed.

(* a version string names a listed release: it parses (semver.Parse), carries no
   pre-release part, and its numbers are in the list; build metadata is free *)
Definition listed (ver : str) : Prop :=
  exists v, parse_version ver = Some v /\ v_pre v = [] /\
            In (v_major v, v_minor v, v_patch v) release_triples.

Lemma eq_rel : forall v a b c,
  v_eqb v (rel a b c) = true <-> v_pre v = [] /\ (v_major v, v_minor v, v_patch v) = (a, b, c).
Proof.
  intros v a b c. split.
  - intro H. apply v_eqb_release in H; [|reflexivity].
    destruct H as [H0 [H1 [H2 H3]]]. cbn in H1, H2, H3. subst. auto.
  - intros [H0 H]. inversion H. apply v_eqb_release_intro; cbn; auto.
Qed.

Theorem compatible_gen_iff : forall ver,
  is_compatible ver compat_gen = Some true <-> listed ver.
Proof.
  intro ver. unfold is_compatible, listed. rewrite range_gen.
  destruct (parse_version ver) as [v|].
  - cbn [existsb]. split.
    + intro H. inversion H as [H']. clear H.
      exists v. split; [reflexivity|].
      repeat (apply orb_true_iff in H'; destruct H' as [H'|H']);
        try (apply eq_rel in H'; destruct H' as [P E]; split; [exact P|rewrite E; cbn; tauto]).
      discriminate.
    + intros [v' [E [P I]]]. inversion E; subst v'. f_equal.
      cbn [release_triples In] in I.
      repeat rewrite orb_true_iff.
      repeat (destruct I as [I|I]; [symmetry in I; pose proof (proj2 (eq_rel v _ _ _) (conj P I)); tauto|]).
      contradiction.
  - split; [discriminate|]. intros [v [E _]]. discriminate.
Qed.

Theorem incompatible_gen_iff : forall ver,
  is_compatible ver compat_gen = Some false <-> ~ listed ver.
Proof.
  intro ver. pose proof (compatible_gen_iff ver) as C.
  pose proof (in_fragment_total compat_gen ver) as T.
  assert (F : specs_in_fragment compat_gen = true) by (vm_compute; reflexivity).
  specialize (T F).
  destruct (is_compatible ver compat_gen) as [[|]|].
  - split; [discriminate|]. intro N. exfalso. apply N. apply C. reflexivity.
  - split; [|reflexivity]. intros _ L. apply C in L. discriminate.
  - congruence.
Qed.

(* ---- the theorems on the regenerated constants ------------------------------------------ *)
Lemma wf_msg_elim : forall m, wf_msg m = true -> wf_slim m = true /\ blen (ser_slim m) < two63.
Proof.
  intros m H. unfold wf_msg in H. apply andb_true_iff in H. destruct H as [H1 H2].
  apply N.ltb_lt in H2. auto.
Qed.

Theorem marshal_gen_total : forall m, exists s, marshal_gen m = Some s.
Proof.
  intro m. unfold marshal_gen, marshal, frame.
  assert (E : (16 <? length cur_gen)%nat = false) by (vm_compute; reflexivity).
  rewrite E. eexists. reflexivity.
Qed.

Theorem roundtrip_gen : forall m s,
  wf_msg m = true -> marshal_gen m = Some s -> unmarshal_gen s = OLoaded m.
Proof.
  intros m s H Hm. apply wf_msg_elim in H. destruct H as [H1 H2].
  unfold unmarshal_gen. eapply unmarshal_marshal; eauto using cur_gen_clean, cur_gate_gen.
Qed.

Theorem marshal_gen_length : forall m s,
  marshal_gen m = Some s -> N.of_nat (length s) = marshal_size m.
Proof. intros m s H. unfold marshal_size. eapply marshal_length. exact H. Qed.

Theorem remarshal_gen : forall m s m',
  wf_msg m = true -> marshal_gen m = Some s -> unmarshal_gen s = OLoaded m' -> marshal_gen m' = Some s.
Proof.
  intros m s m' H Hm Hu. rewrite (roundtrip_gen m s H Hm) in Hu. inversion Hu. subst m'. exact Hm.
Qed.

Section GenInstance.
  Variables Vars Levels : Type.
  Variable init_vars : slim -> Vars.
  Variable init_levels : slim -> Levels.
  Variable reset_levels : Levels.
  Variable conv510 : slim -> slim.
  Variable conv3 : list byte -> list byte -> list byte -> slim.

  Notation inst := (inst Vars Levels).
  Notation step := (step compat_gen cur_gen Vars Levels init_vars init_levels reset_levels conv510 conv3).
  Notation run := (run compat_gen cur_gen Vars Levels init_vars init_levels reset_levels conv510 conv3).
  Notation fresh := (fresh Vars Levels init_vars init_levels).
  Notation installed := (installed Vars Levels init_vars init_levels).

  Theorem load_state_gen : forall (st : inst) m s,
    wf_msg m = true -> marshal_gen m = Some s ->
    fst (step st (OpUnmarshal s)) = installed m.
  Proof.
    intros st m s H Hm. apply step_loaded. apply roundtrip_gen; assumption.
  Qed.

  Theorem no_residue_gen : forall (h : list op) (st : inst) b,
    load_ok compat_gen cur_gen b = true ->
    run st (h ++ [OpUnmarshal b]) = run fresh [OpUnmarshal b].
  Proof. intros. apply no_residue. assumption. Qed.

  Theorem no_residue_marshal_gen : forall (h : list op) (st : inst) m s,
    wf_msg m = true -> marshal_gen m = Some s ->
    run st (h ++ [OpUnmarshal s]) = installed m.
  Proof.
    intros h st m s H Hm. rewrite run_app. cbn [Instance.run].
    apply load_state_gen; assumption.
  Qed.

  Theorem cut_gen : forall m s cut,
    blen (ser_slim m) < two63 -> marshal_gen m = Some s -> (cut < length s)%nat ->
    unmarshal_gen (firstn cut s) =
    if (cut =? 0)%nat then OErr SHeader CEOF
    else if (cut <? 32)%nat then OErr SHeader CUnexpectedEOF
    else if (cut =? 32)%nat then OErr SInner CEOF
    else OErr SInner CUnexpectedEOF.
  Proof.
    intros m s cut Hb Hm Hc. unfold unmarshal_gen.
    eapply unmarshal_cut_current; eauto using cur_gen_clean, cur_gate_gen.
  Qed.

  Theorem cut_single_gen : forall ver body s cut,
    frame ver body = Some s -> blen body < two63 -> (cut < length s)%nat ->
    is_err (unmarshal_gen (firstn cut s)) = true.
  Proof.
    intros. unfold unmarshal_gen. eapply unmarshal_cut_single; eauto using gate_total_gen.
  Qed.

  Theorem cut_three_gen : forall v1 b1 s1 v2 b2 s2 v3 b3 s3 cut,
    three_path compat_gen cur_gen v1 ->
    frame v1 b1 = Some s1 -> frame v2 b2 = Some s2 -> frame v3 b3 = Some s3 ->
    blen b1 < two63 -> blen b2 < two63 -> blen b3 < two63 ->
    (cut < length (s1 ++ s2 ++ s3))%nat ->
    is_err (unmarshal_gen (firstn cut (s1 ++ s2 ++ s3))) = true.
  Proof.
    intros. unfold unmarshal_gen. eapply unmarshal_cut_three; eauto using gate_total_gen.
  Qed.

  Theorem version_gen : forall b,
    (32 <= length b)%nat -> ~ listed (strip_nul (firstn 16 b)) -> unmarshal_gen b = OIncompatible.
  Proof.
    intros b H N. unfold unmarshal_gen. apply unmarshal_incompatible_field; [exact H|].
    apply incompatible_gen_iff. exact N.
  Qed.

  (* the instance after the rejected loads of C07 *)
  Definition emptied (st st' : inst) : Prop :=
    i_inner _ _ st' = IMsg empty_slim /\ i_vars _ _ st' = i_vars _ _ st /\ i_levels _ _ st' = i_levels _ _ st.

  Theorem empty_after_cut_gen : forall (st : inst) m s cut,
    blen (ser_slim m) < two63 -> marshal_gen m = Some s -> (cut < length s)%nat ->
    emptied st (fst (step st (OpUnmarshal (firstn cut s)))).
  Proof.
    intros st m s cut Hb Hm Hc. apply rejected_load_state.
    fold (unmarshal_gen (firstn cut s)). rewrite (cut_gen m s cut Hb Hm Hc).
    destruct (cut =? 0)%nat; [reflexivity|].
    destruct (cut <? 32)%nat; [reflexivity|].
    destruct (cut =? 32)%nat; reflexivity.
  Qed.

  Theorem empty_after_incompatible_gen : forall (st : inst) b,
    (32 <= length b)%nat -> ~ listed (strip_nul (firstn 16 b)) ->
    emptied st (fst (step st (OpUnmarshal b))).
  Proof.
    intros st b H N. apply rejected_load_state.
    fold (unmarshal_gen b). rewrite (version_gen b H N). reflexivity.
  Qed.
End GenInstance.
