(* LegacyBytesProofs.v - the array level of LegacyBytes.v: what the reader
   (old_of_arrays: bmhas / getBM16Child / U16.Get / GetBytes per old id) makes of the three
   arrays the writer (arrays_of_old) lays out for a well-formed node table, in every one
   of the layouts.  Re-uses the sparse-array lemmas of ArraysProofs.v (built_from,
   get_bytes_listed, typed_eq_raw), the rank lemmas of BitmapRankProofs.v and
   BitmapRank2Proofs.of_many_spec. *)
From Coq Require Import List Arith Bool NArith ZArith Lia Sorted.
From Coq Require Import ZifyN ZifyNat ZifyBool.
From Coq.Strings Require Import Byte.
From Slim Require Import Base Keys Model LegacyConv.
From Slim Require Import Varint Proto BitmapRank BitmapRankProofs BitmapRank2 BitmapRank2Proofs
     Arrays ArraysProofs ArrWire ArrWireProofs ListFacts LegacyBytes.
Import ListNotations.
Local Open Scope N_scope.
Ltac Zify.zify_post_hook ::= Z.div_mod_to_equations.

(* ====================================================================== *)
(* A. the ids of the nodes with a property                                  *)
(* ====================================================================== *)
Lemma ids_where_length p : forall ot base, length (ids_where p base ot) = length (filter p ot).
Proof.
  induction ot as [|n r IH]; intros base; [reflexivity|].
  cbn [ids_where filter]. destruct (p n); cbn [length]; rewrite IH; reflexivity.
Qed.

Lemma ids_where_bounds p : forall ot base,
  Forall (fun i => base <= i < base + N.of_nat (length ot)) (ids_where p base ot).
Proof.
  induction ot as [|n r IH]; intros base; [constructor|].
  cbn [ids_where]. specialize (IH (N.succ base)).
  assert (Forall (fun i => base <= i < base + N.of_nat (length (n :: r))) (ids_where p (N.succ base) r)) as H.
  { eapply Forall_impl; [|exact IH]. cbv beta. cbn [length]. intros a Ha. lia. }
  destruct (p n); [constructor; [cbn [length]; lia|exact H]|exact H].
Qed.

Lemma ids_where_sorted p : forall ot base, StronglySorted N.lt (ids_where p base ot).
Proof.
  induction ot as [|n r IH]; intros base; [constructor|].
  cbn [ids_where]. destruct (p n); [|apply IH].
  constructor; [apply IH|].
  pose proof (ids_where_bounds p r (N.succ base)) as H.
  eapply Forall_impl; [|exact H]. cbv beta. intros a Ha. lia.
Qed.

Lemma ids_where_in p : forall ot base i,
  In i (ids_where p base ot) <->
  exists k, i = base + N.of_nat k /\ (k < length ot)%nat /\ p (nth k ot no_node) = true.
Proof.
  induction ot as [|n r IH]; intros base i.
  - cbn. split; [intros []|intros (k & _ & Hk & _); lia].
  - cbn [ids_where]. split.
    + intros H.
      assert (In i (ids_where p (N.succ base) r) -> exists k, i = base + N.of_nat k /\ (k < length (n :: r))%nat /\ p (nth k (n :: r) no_node) = true) as Hr.
      { intros Hi. apply IH in Hi. destruct Hi as (k & -> & Hk & Hp). exists (S k). cbn [length nth]. split; [lia|]. split; [lia|exact Hp]. }
      destruct (p n) eqn:Ep; [|exact (Hr H)].
      destruct H as [<-|H]; [|exact (Hr H)].
      exists 0%nat. cbn [length nth]. split; [lia|]. split; [lia|exact Ep].
    + intros (k & -> & Hk & Hp). destruct k as [|k].
      * cbn [nth] in Hp. rewrite Hp. left. lia.
      * cbn [nth length] in Hp, Hk.
        assert (In (base + N.of_nat (S k)) (ids_where p (N.succ base) r)) as Hi.
        { apply IH. exists k. split; [lia|]. split; [lia|exact Hp]. }
        destruct (p n); [right|]; exact Hi.
Qed.

(* the position of a listed id in the index list = its position among the listed nodes *)
Lemma ids_where_nth p : forall ot base k,
  (k < length ot)%nat -> p (nth k ot no_node) = true ->
  exists j, (j < length (ids_where p base ot))%nat /\
            nth j (ids_where p base ot) 0 = base + N.of_nat k /\
            nth j (filter p ot) no_node = nth k ot no_node.
Proof.
  induction ot as [|n r IH]; intros base k Hk Hp; [cbn in Hk; lia|].
  cbn [ids_where filter]. destruct k as [|k].
  - cbn [nth] in Hp. rewrite Hp. exists 0%nat. cbn [length nth]. split; [lia|]. split; [lia|reflexivity].
  - cbn [nth length] in Hp, Hk. destruct (IH (N.succ base) k ltac:(lia) Hp) as (j & Hj & Hn & Hf).
    destruct (p n).
    + exists (S j). cbn [length nth]. split; [lia|]. split; [rewrite Hn; lia|exact Hf].
    + exists j. cbn [nth]. split; [exact Hj|]. split; [rewrite Hn; lia|exact Hf].
Qed.

Lemma ids_where_idx_ok p ot :
  N.of_nat (length ot) <= int32_max -> idx_ok (ids_where p 0 ot).
Proof.
  intros H. unfold idx_ok. pose proof (ids_where_bounds p ot 0) as Hb.
  eapply Forall_impl; [|exact Hb]. cbv beta. intros a Ha. lia.
Qed.

(* ====================================================================== *)
(* B. the index of an array: bitmap, quirky offsets, padding                *)
(* ====================================================================== *)
Lemma index_rank64_app : forall a b n,
  index_rank64 (a ++ b) n = index_rank64 a n ++ index_rank64 b (n + fold_right (fun w s => popcount w + s) 0 a).
Proof.
  induction a as [|w a IH]; intros b n; cbn [app index_rank64 fold_right]; [rewrite N.add_0_r; reflexivity|].
  rewrite IH. f_equal. f_equal. f_equal. lia.
Qed.

Lemma fix_empty_app : forall a b oa ob, length oa = length a ->
  fix_empty (a ++ b) (oa ++ ob) = fix_empty a oa ++ fix_empty b ob.
Proof.
  induction a as [|w a IH]; intros b oa ob H; destruct oa as [|o oa]; try discriminate; [reflexivity|].
  cbn [app fix_empty]. f_equal. apply IH. cbn in H. lia.
Qed.

Lemma fix_empty_zeros : forall k offs, length offs = k -> fix_empty (repeat 0 k) offs = repeat 0 k.
Proof.
  induction k as [|k IH]; intros offs H; destruct offs as [|o offs]; try discriminate; [reflexivity|].
  cbn [repeat fix_empty]. change (0 =? 0) with true. cbv iota. f_equal. apply IH. cbn in H. lia.
Qed.

Lemma offsets_of_pad : forall ws k, offsets_of (ws ++ repeat 0 k) = offsets_of ws ++ repeat 0 k.
Proof.
  intros ws k. unfold offsets_of. rewrite index_rank64_app.
  rewrite fix_empty_app by apply index_rank64_length.
  f_equal. apply fix_empty_zeros. rewrite index_rank64_length. apply repeat_length.
Qed.

Lemma nthN_app_zeros : forall (ws : list N) k i,
  nthN (ws ++ repeat 0 k) i = match nthN ws i with
                              | Some w => Some w
                              | None => if i <? N.of_nat (length ws + k) then Some 0 else None
                              end.
Proof.
  intros ws k i. rewrite !nthN_nth_error.
  destruct (Nat.lt_ge_cases (N.to_nat i) (length ws)) as [H|H].
  - rewrite nth_error_app1 by exact H.
    destruct (nth_error ws (N.to_nat i)) eqn:E; [reflexivity|]. apply nth_error_None in E. lia.
  - rewrite nth_error_app2 by exact H.
    assert (nth_error ws (N.to_nat i) = None) as -> by (apply nth_error_None; exact H).
    destruct (N.ltb_spec i (N.of_nat (length ws + k))) as [L|L].
    + assert (N.to_nat i - length ws < k)%nat as Hk by lia.
      destruct (nth_error (repeat 0 k) (N.to_nat i - length ws)) eqn:E.
      * apply nth_error_In in E. apply repeat_spec in E. subst. reflexivity.
      * apply nth_error_None in E. rewrite repeat_length in E. lia.
    + apply nth_error_None. rewrite repeat_length. lia.
Qed.

Lemma bm_get_pad : forall ws k i, bm_get (ws ++ repeat 0 k) i = bm_get ws i.
Proof.
  intros ws k i. unfold bm_get. rewrite nthN_app_zeros.
  destruct (nthN ws (word_of i)); [reflexivity|].
  destruct (word_of i <? N.of_nat (length ws + k)); [apply N.bits_0|reflexivity].
Qed.

Lemma words_ok_pad : forall ws k, words_ok ws -> words_ok (ws ++ repeat 0 k).
Proof. intros ws k H. apply Forall_app. split; [exact H|apply words_ok_repeat0]. Qed.

(* what the readers need of an index: [indexed ws offs idx] *)
Definition indexed (ws offs idx : list N) : Prop :=
  StronglySorted N.lt idx /\ words_ok ws /\ (forall k, bm_get ws k = true <-> In k idx) /\
  offs = offsets_of ws.

Lemma index_fields_ok : forall idx pad,
  StronglySorted N.lt idx -> idx_ok idx ->
  exists ws offs, index_fields idx pad = Val (ws, offs) /\ indexed ws offs idx /\
    length ws = Nat.max (N.to_nat (span_words idx)) (N.to_nat (nwords_for pad)).
Proof.
  intros idx pad Hs Hok. unfold index_fields.
  destruct (bm_of_spec idx Hs Hok) as (ws & -> & Hw & Hb & Hl).
  eexists _, _. split; [reflexivity|]. split.
  - split; [exact Hs|]. split; [apply words_ok_pad; exact Hw|]. split.
    + intros k. rewrite bm_get_pad. apply Hb.
    + symmetry. apply offsets_of_pad.
  - rewrite app_length, repeat_length. lia.
Qed.

Lemma safe_get1_bm_get : forall ws i, safe_get1 ws i = bm_get ws i.
Proof.
  intros ws i. unfold safe_get1, bm_get. destruct (nthN ws (word_of i)) as [w|]; [|reflexivity].
  rewrite bit_test_spec. destruct (N.testbit w (bit_of i)); reflexivity.
Qed.

(* the rank of a listed position, through the stored (quirky) offsets *)
Lemma rank64_listed : forall ws offs idx j,
  indexed ws offs idx -> (j < length idx)%nat ->
  rank64 ws offs (nth j idx 0) = Val (N.of_nat j, 1).
Proof.
  intros ws offs idx j (Hs & Hok & Hbm & ->) Hj.
  set (i := nth j idx 0).
  assert (Hin : In i idx) by (apply nth_In; assumption).
  pose proof (proj2 (Hbm i) Hin) as Hget.
  unfold bm_get in Hget. destruct (nthN ws (word_of i)) as [x|] eqn:Ex; [|discriminate].
  assert (Hx : x <> 0) by (intros ->; rewrite N.bits_0 in Hget; discriminate).
  rewrite (rank64_offsets_nonzero _ _ _ Ex Hx).
  destruct (rank64 ws (index_rank64 ws 0) i) as [[r bit]|] eqn:Er.
  - destruct (rank64_correct _ _ _ _ Hok Er) as [-> ->].
    assert (Hg : bm_get ws i = true) by (apply Hbm; assumption).
    rewrite Hg. unfold i. rewrite (rank_of_listed _ _ _ Hs Hbm Hj). reflexivity.
  - apply rank64_panic_iff in Er. rewrite index_rank64_length in Er.
    apply nthN_Some_lt in Ex. lia.
Qed.

(* ====================================================================== *)
(* C. one array laid out for the nodes with property p                      *)
(* ====================================================================== *)
Section OneArray.
  Variable p : old_node -> bool.
  Variable enc : old_node -> list byte.
  Variable w : nat.
  Variable ot : old_trie.
  Variable a : array32.
  Hypothesis Hidx : indexed (Bitmaps a) (Offsets a) (ids_where p 0 ot).
  Hypothesis Helts : Elts a = concat (map enc (filter p ot)).
  Hypothesis Hw : Forall (fun n => length (enc n) = w) (filter p ot).

  Lemma one_built : built_from a (ids_where p 0 ot) (map enc (filter p ot)) w.
  Proof.
    destruct Hidx as (Hs & Hok & Hbm & Hoff).
    repeat split; try assumption.
    - apply Hbm.
    - apply Hbm.
    - rewrite Forall_forall in *. intros e He. apply in_map_iff in He. destruct He as (n & <- & Hn). apply Hw. exact Hn.
    - rewrite map_length, ids_where_length. reflexivity.
  Qed.

  Lemma one_has : forall k, (k < length ot)%nat ->
    safe_get1 (Bitmaps a) (N.of_nat k) = p (nth k ot no_node).
  Proof.
    intros k Hk. rewrite safe_get1_bm_get. destruct Hidx as (_ & _ & Hbm & _).
    destruct (p (nth k ot no_node)) eqn:Ep.
    - apply Hbm. apply ids_where_in. exists k. split; [lia|]. split; assumption.
    - destruct (bm_get (Bitmaps a) (N.of_nat k)) eqn:Eg; [|reflexivity].
      apply Hbm in Eg. apply ids_where_in in Eg. destruct Eg as (k' & He & _ & Hp').
      assert (k' = k) by lia. subst. congruence.
  Qed.

  Lemma one_has_beyond : forall i, N.of_nat (length ot) <= i -> safe_get1 (Bitmaps a) i = false.
  Proof.
    intros i Hi. rewrite safe_get1_bm_get. destruct Hidx as (_ & _ & Hbm & _).
    destruct (bm_get (Bitmaps a) i) eqn:Eg; [|reflexivity].
    apply Hbm in Eg. apply ids_where_in in Eg. destruct Eg as (k' & He & Hk' & _). lia.
  Qed.

  Lemma one_get : forall k, (k < length ot)%nat -> p (nth k ot no_node) = true ->
    get_bytes a (N.of_nat k) w = Val (Some (enc (nth k ot no_node))).
  Proof.
    intros k Hk Hp. destruct (ids_where_nth p ot 0 k Hk Hp) as (j & Hj & Hn & Hf).
    destruct (get_bytes_listed a _ _ w j one_built Hj) as [_ Hg].
    rewrite Hn, N.add_0_l in Hg. rewrite Hg. f_equal. f_equal.
    rewrite <- Hf. rewrite (nth_indep _ [] (enc no_node)) by (rewrite map_length, <- (ids_where_length p ot 0); exact Hj).
    apply map_nth.
  Qed.

  Lemma one_rank : forall k, (k < length ot)%nat -> p (nth k ot no_node) = true ->
    exists j, (j < length (filter p ot))%nat /\ nth j (filter p ot) no_node = nth k ot no_node /\
              rank64 (Bitmaps a) (Offsets a) (N.of_nat k) = Val (N.of_nat j, 1).
  Proof.
    intros k Hk Hp. destruct (ids_where_nth p ot 0 k Hk Hp) as (j & Hj & Hn & Hf).
    exists j. split; [rewrite <- (ids_where_length p ot 0); exact Hj|]. split; [exact Hf|].
    pose proof (rank64_listed _ _ _ j Hidx Hj) as Hr. rewrite Hn, N.add_0_l in Hr. exact Hr.
  Qed.
End OneArray.

(* ====================================================================== *)
(* D. 16-bit label bitmaps                                                  *)
(* ====================================================================== *)
Definition labels_ok (l : list nat) : Prop :=
  StronglySorted lt l /\ Forall (fun b => (b < 16)%nat) l.

Lemma sorted_ext_nat : forall a b : list nat,
  StronglySorted lt a -> StronglySorted lt b -> (forall x, In x a <-> In x b) -> a = b.
Proof.
  induction a as [|x a IH]; intros b Ha Hb H.
  - destruct b as [|y b]; [reflexivity|]. exfalso. apply (H y). left. reflexivity.
  - destruct b as [|y b]; [exfalso; apply (H x); left; reflexivity|].
    inversion Ha as [|? ? Ha' Hxa]; subst. inversion Hb as [|? ? Hb' Hyb]; subst.
    rewrite Forall_forall in Hxa, Hyb.
    assert (x = y).
    { destruct (proj1 (H x) (or_introl eq_refl)) as [E|E]; [congruence|].
      destruct (proj2 (H y) (or_introl eq_refl)) as [E2|E2]; [congruence|].
      apply Hyb in E. apply Hxa in E2. lia. }
    subst y. f_equal. apply IH; try assumption. intros z. split; intros Hz.
    + destruct (proj1 (H z) (or_intror Hz)) as [E|E]; [|exact E]. subst. apply Hxa in Hz. lia.
    + destruct (proj2 (H z) (or_intror Hz)) as [E|E]; [|exact E]. subst. apply Hyb in Hz. lia.
Qed.

Lemma seq_sorted : forall n a, StronglySorted lt (List.seq a n).
Proof.
  induction n as [|n IH]; intros a; cbn [List.seq]; constructor; [apply IH|].
  apply Forall_forall. intros x Hx. apply in_seq in Hx. lia.
Qed.

Lemma existsb_nat_eqb_In : forall b l, existsb (Nat.eqb b) l = true <-> In b l.
Proof.
  intros b l. rewrite existsb_exists. split.
  - intros (x & Hx & E). apply Nat.eqb_eq in E. subst. exact Hx.
  - intros H. exists b. split; [exact H|apply Nat.eqb_refl].
Qed.

(* a 16-bit value whose low bits are the membership of l decodes to l *)
Lemma labels_of_bits : forall v l, labels_ok l ->
  (forall b, (b < 16)%nat -> N.testbit v (N.of_nat b) = existsb (Nat.eqb b) l) ->
  labels_of_bm16 v = l.
Proof.
  intros v l [Hs Hb] H. unfold labels_of_bm16.
  apply sorted_ext_nat; [apply SS_filter, seq_sorted|exact Hs|].
  intros x. rewrite filter_In, in_seq. split.
  - intros [Hx Ht]. rewrite H in Ht by lia. apply existsb_nat_eqb_In. exact Ht.
  - intros Hx. rewrite Forall_forall in Hb. pose proof (Hb x Hx) as Hlt.
    split; [lia|]. rewrite H by exact Hlt. apply existsb_nat_eqb_In. exact Hx.
Qed.

Lemma bm16_of_bits : forall l b, N.testbit (bm16_of l) (N.of_nat b) = existsb (Nat.eqb b) l.
Proof.
  induction l as [|a l IH]; intros b; [apply N.bits_0|].
  cbn [bm16_of fold_right existsb]. fold (bm16_of l).
  rewrite N.lor_spec, IH, N.shiftl_1_l, N.pow2_bits_eqb. f_equal.
  destruct (N.eqb_spec (N.of_nat a) (N.of_nat b)); destruct (Nat.eqb_spec b a); try reflexivity; lia.
Qed.

Lemma lor_lt_pow2 : forall a b n, a < 2 ^ n -> b < 2 ^ n -> N.lor a b < 2 ^ n.
Proof.
  intros a b n Ha Hb.
  destruct (N.eq_dec (N.lor a b) 0) as [->|Hne]; [apply N.neq_0_lt_0, N.pow_nonzero; lia|].
  apply N.log2_lt_pow2; [lia|]. rewrite N.log2_lor.
  destruct (N.eq_dec a 0) as [->|Ha0]; destruct (N.eq_dec b 0) as [->|Hb0].
  - cbn in Hne. lia.
  - apply N.max_lub_lt; [cbn; destruct n; [cbn in Hb; lia|lia]|apply N.log2_lt_pow2; lia].
  - apply N.max_lub_lt; [apply N.log2_lt_pow2; lia|cbn; destruct n; [cbn in Ha; lia|lia]].
  - apply N.max_lub_lt; apply N.log2_lt_pow2; lia.
Qed.

Lemma bm16_of_lt : forall l, Forall (fun b => (b < 16)%nat) l -> bm16_of l < 65536.
Proof.
  induction 1 as [|a l Ha _ IH]; [reflexivity|].
  cbn [bm16_of fold_right]. fold (bm16_of l). change 65536 with (2 ^ 16).
  apply lor_lt_pow2; [|exact IH]. rewrite N.shiftl_1_l. apply N.pow_lt_mono_r; lia.
Qed.

Lemma bits_nonzero : forall v b, N.testbit v b = true -> v <> 0.
Proof. intros v b H ->. rewrite N.bits_0 in H. discriminate. Qed.

(* ---- the uint32 element --------------------------------------------------- *)
Lemma u32_elt_read : forall n fc, labels_ok (on_bm n) ->
  length (u32_elt (n, fc)) = 4%nat /\
  N.land (le_decode (u32_elt (n, fc))) 65535 = bm16_of (on_bm n).
Proof.
  intros n fc [_ Hb]. unfold u32_elt. cbn [fst snd]. split; [apply le_encode_length|].
  rewrite le_decode_encode. change 65535 with (N.ones 16). rewrite N.land_ones.
  pose proof (bm16_of_lt _ Hb) as Hlt. change (256 ^ N.of_nat 4) with 4294967296. change (2 ^ 16) with 65536.
  set (x := bm16_of (on_bm n)) in *. set (y := fc mod 65536).
  assert (y < 65536) by (subst y; apply N.mod_lt; lia).
  lia.
Qed.

(* ---- the BMElts element ------------------------------------------------------ *)
Lemma seg_off_16 : forall (segs : list (list N * N)) j,
  Forall (fun s => snd s = 16) segs -> (j <= length segs)%nat -> seg_off segs j = 16 * N.of_nat j.
Proof.
  unfold seg_off. induction segs as [|s r IH]; intros j H Hj.
  - destruct j; [reflexivity|cbn in Hj; lia].
  - destruct j as [|j]; [reflexivity|]. inversion H as [|? ? Hs Hr]; subst.
    cbn [firstn fold_right]. rewrite IH by (try assumption; cbn in Hj; lia). rewrite Hs. lia.
Qed.

Lemma bm_segs_ok : forall ot, Forall (fun n => labels_ok (on_bm n)) (filter is_inner ot) ->
  Forall seg_ok (bm_segs ot) /\ Forall (fun s => snd s = 16) (bm_segs ot).
Proof.
  intros ot H. unfold bm_segs. split; apply Forall_forall; intros s Hs; apply in_map_iff in Hs;
    destruct Hs as (n & <- & Hn); [|reflexivity].
  rewrite Forall_forall in H. destruct (H n Hn) as [Hsort Hb]. split; cbn [fst snd].
  - eapply SS_map; [|exact Hsort]. intros x y Hxy. lia.
  - apply Forall_forall. intros k Hk. apply in_map_iff in Hk. destruct Hk as (b & <- & Hb').
    rewrite Forall_forall in Hb. specialize (Hb b Hb'). lia.
Qed.

Lemma quarter_split : forall j b, b < 16 ->
  word_of (16 * j + b) = word_of (16 * j) /\ bit_of (16 * j + b) = bit_of (16 * j) + b.
Proof.
  intros j b Hb. rewrite !word_of_spec, !bit_of_spec.
  replace (16 * j) with (64 * (j / 4) + 16 * (j mod 4)) by (pose proof (N.div_mod j 4); lia).
  assert (j mod 4 < 4) by (apply N.mod_lt; lia).
  set (q := j / 4) in *. set (t := j mod 4) in *.
  replace (64 * q + 16 * t + b) with (16 * t + b + q * 64) by lia.
  replace (64 * q + 16 * t) with (16 * t + q * 64) by lia.
  rewrite !N.div_add, !N.mod_add by lia.
  rewrite !N.div_small, !N.mod_small by lia. lia.
Qed.

Lemma bm_elt_read : forall ot ws j,
  Forall (fun n => labels_ok (on_bm n)) (filter is_inner ot) ->
  of_many (bm_segs ot) = Val ws ->
  (j < length (filter is_inner ot))%nat ->
  exists v, getw16 ws (N.of_nat j) = Some v /\
    forall b, (b < 16)%nat ->
      N.testbit v (N.of_nat b) = existsb (Nat.eqb b) (on_bm (nth j (filter is_inner ot) no_node)).
Proof.
  intros ot ws j Hl Hm Hj. destruct (bm_segs_ok ot Hl) as [Hok H16].
  destruct (of_many_spec _ Hok) as (ws' & E & _ & Hlen & _ & Hbit & _).
  rewrite Hm in E. injection E as <-.
  assert (Hsl : length (bm_segs ot) = length (filter is_inner ot)) by (unfold bm_segs; apply map_length).
  rewrite (seg_off_16 _ _ H16 (le_n _)), Hsl in Hlen.
  set (n := nth j (filter is_inner ot) no_node).
  assert (Hnth : nth_error (bm_segs ot) j = Some (map N.of_nat (on_bm n), 16)).
  { unfold bm_segs. apply (nth_error_map_some (fun n => (map N.of_nat (on_bm n), 16))). unfold n. apply nth_error_nth'. exact Hj. }
  unfold getw16.
  destruct (nthN_lt_Some ws (word_of (16 * N.of_nat j))) as [w Ew].
  { rewrite Hlen. apply word_of_lt. lia. }
  rewrite Ew. eexists. split; [reflexivity|]. intros b Hb.
  rewrite N.land_spec, N.shiftr_spec' .
  change 65535 with (N.ones 16). rewrite (N.ones_spec_low 16) by lia. rewrite andb_true_r.
  destruct (quarter_split (N.of_nat j) (N.of_nat b) ltac:(lia)) as [Hw Hbt].
  specialize (Hbit j _ _ (N.of_nat b) Hnth ltac:(lia)).
  rewrite (seg_off_16 _ _ H16) in Hbit by (rewrite Hsl; lia).
  unfold bm_get in Hbit. rewrite Hw, Ew, Hbt in Hbit.
  replace (N.of_nat b + bit_of (16 * N.of_nat j)) with (bit_of (16 * N.of_nat j) + N.of_nat b) by lia.
  destruct (existsb (Nat.eqb b) (on_bm n)) eqn:Ee.
  - apply Hbit. apply in_map. apply existsb_nat_eqb_In. exact Ee.
  - apply not_true_is_false. intros Et.
    apply Hbit in Et. apply in_map_iff in Et. destruct Et as (b' & Hb' & Hin).
    assert (b' = b) by lia. subst. apply existsb_nat_eqb_In in Hin. congruence.
Qed.

(* ====================================================================== *)
(* E. the three arrays of a well-formed table                               *)
(* ====================================================================== *)
Lemma labels_okb_ok : forall l, labels_okb l = true <-> labels_ok l.
Proof.
  intros l. split.
  - intros H. assert (Sorted lt l /\ Forall (fun b => (b < 16)%nat) l) as [Hs Hb].
    { induction l as [|a r IH]; [split; constructor|].
      cbn [labels_okb] in H. apply andb_true_iff in H. destruct H as [H Hr].
      apply andb_true_iff in H. destruct H as [Ha Hab]. destruct (IH Hr) as [Hs Hb].
      apply Nat.ltb_lt in Ha. split; [|constructor; assumption].
      constructor; [exact Hs|]. destruct r as [|b r']; constructor. apply Nat.ltb_lt in Hab. exact Hab. }
    split; [|exact Hb]. apply Sorted_StronglySorted; [|exact Hs]. intros x y z; lia.
  - intros [Hs Hb]. induction l as [|a r IH]; [reflexivity|].
    inversion Hs as [|? ? Hs' Har]; subst. inversion Hb as [|? ? Ha Hb']; subst.
    cbn [labels_okb]. rewrite (IH Hs' Hb'), andb_true_r. apply andb_true_iff. split; [apply Nat.ltb_lt; exact Ha|].
    destruct r as [|b r']; [reflexivity|]. inversion Har; subst. apply Nat.ltb_lt. assumption.
Qed.

Lemma mk_array_ok : forall idx pad elts fl ew bme,
  StronglySorted N.lt idx -> idx_ok idx ->
  exists ws,
    mk_array idx pad elts fl ew bme =
      Val (mkWArray (Z.of_nat (length idx)) ws (map Z.of_N (offsets_of ws)) elts fl ew bme []) /\
    indexed ws (offsets_of ws) idx /\
    length ws = Nat.max (N.to_nat (span_words idx)) (N.to_nat (nwords_for pad)).
Proof.
  intros idx pad elts fl ew bme Hs Hok. unfold mk_array.
  destruct (index_fields_ok idx pad Hs Hok) as (ws & offs & -> & Hi & Hl).
  pose proof Hi as (_ & _ & _ & ->). exists ws. auto.
Qed.

(* the array32 the readers see *)
Lemma of_wire_mk : forall cnt ws offs elts fl ew bme,
  array32_of_wire (mkWArray cnt ws (map Z.of_N offs) elts fl ew bme []) =
  {| Cnt := Z.to_N cnt; Bitmaps := ws; Offsets := offs; Elts := elts; Flags := fl;
     EltWidth := Z.to_N ew; BMElts := match bme with None => None | Some b => Some (bits_of_wire b) end |}.
Proof. intros. unfold array32_of_wire. cbn [wa_cnt wa_bitmaps wa_offsets wa_elts wa_flags wa_eltwidth wa_bmelts]. rewrite map_to_of_N. reflexivity. Qed.

Lemma nonneg_map_of_N : forall l, forallb (fun z => (0 <=? z)%Z) (map Z.of_N l) = true.
Proof. intros l. apply forallb_forall. intros z Hz. apply in_map_iff in Hz. destruct Hz as (n & <- & _). apply Z.leb_le. lia. Qed.

Lemma first_children_length : forall ot next, length (first_children next ot) = length (filter is_inner ot).
Proof.
  induction ot as [|n r IH]; intros next; [reflexivity|].
  cbn [first_children filter]. destruct (is_inner n); cbn [length]; rewrite IH; reflexivity.
Qed.

Lemma table_wf_nodes : forall nv ot, table_wf nv ot = true ->
  Forall (fun n => node_wf nv n = true) ot /\ N.of_nat (length ot) <= int32_max.
Proof.
  intros nv ot H. unfold table_wf in H. apply andb_true_iff in H. destruct H as [H1 H2].
  split; [apply Forall_forall; apply forallb_forall; exact H1|apply N.leb_le; exact H2].
Qed.

Lemma node_wf_parts : forall nv n, node_wf nv n = true ->
  labels_ok (on_bm n) /\ (is_inner n || has_leaf n = true) /\ N.of_nat (on_step n) <= 65535 /\
  (forall k, on_leaf n = Some k -> (k < nv)%nat).
Proof.
  intros nv n H. unfold node_wf in H.
  apply andb_true_iff in H. destruct H as [H H4].
  apply andb_true_iff in H. destruct H as [H H3].
  apply andb_true_iff in H. destruct H as [H1 H2].
  split; [apply labels_okb_ok; exact H1|]. split; [exact H2|]. split; [apply N.leb_le; exact H3|].
  intros k Hk. rewrite Hk in H4. apply Nat.ltb_lt in H4. exact H4.
Qed.

Lemma filter_Forall : forall {A} (P : A -> Prop) f (l : list A), Forall P l -> Forall P (filter f l).
Proof. intros A P f l H. apply Forall_forall. intros x Hx. apply filter_In in Hx. rewrite Forall_forall in H. apply H. tauto. Qed.

(* what the reader's three array32 look like for a written table *)
Record arrays_rel (l : layout) (ot : old_trie) (vals : list (list byte)) (c s v : array32) : Prop := {
  ar_c_idx : indexed (Bitmaps c) (Offsets c) (ids_where is_inner 0 ot);
  ar_c_u32 : l_bmchildren l = false -> N.land (Flags c) 2 = 0 /\ Elts c = u32_elts ot;
  ar_c_bm : l_bmchildren l = true -> filter is_inner ot <> [] ->
            N.land (Flags c) 2 = 2 /\
            exists ws b, of_many (bm_segs ot) = Val ws /\ BMElts c = Some b /\ b_words b = ws;
  ar_s_idx : indexed (Bitmaps s) (Offsets s) (ids_where has_step 0 ot);
  ar_s_elts : Elts s = concat (map step_elt (filter has_step ot));
  ar_v_idx : indexed (Bitmaps v) (Offsets v) (ids_where has_leaf 0 ot);
  ar_v_elts : Elts v = concat (map (leaf_elt vals) (filter has_leaf ot));
  ar_span : (length ot <= span_ids c s v)%nat
}.

Lemma ids_where_nil_filter : forall p ot base, ids_where p base ot = [] <-> filter p ot = [].
Proof.
  intros p ot base. pose proof (ids_where_length p ot base) as H.
  split; intros E; rewrite E in H; cbn in H; [destruct (filter p ot)|destruct (ids_where p base ot)]; cbn in H; congruence.
Qed.

Lemma last_listed_span : forall p ot ws k,
  (forall i, bm_get ws i = true <-> In i (ids_where p 0 ot)) ->
  (k < length ot)%nat -> p (nth k ot no_node) = true -> (k < 64 * length ws)%nat.
Proof.
  intros p ot ws k Hbm Hk Hp.
  assert (bm_get ws (N.of_nat k) = true) as Hg.
  { apply Hbm. apply ids_where_in. exists k. split; [lia|]. split; assumption. }
  apply bm_get_true_lt in Hg. lia.
Qed.

Theorem arrays_of_old_ok : forall l ot vals nv,
  table_wf nv ot = true ->
  exists ch st lv,
    arrays_of_old l ot vals = Val (ch, st, lv) /\
    wire_nonneg ch = true /\ wire_nonneg st = true /\ wire_nonneg lv = true /\
    arrays_rel l ot vals (array32_of_wire ch) (array32_of_wire st) (array32_of_wire lv).
Proof.
  intros l ot vals nv Hwf. destruct (table_wf_nodes _ _ Hwf) as [Hn Hlen].
  set (pad := if l_pad l then N.of_nat (length ot) else 0).
  assert (Hlab : Forall (fun n => labels_ok (on_bm n)) (filter is_inner ot)).
  { apply filter_Forall. eapply Forall_impl; [|exact Hn]. cbv beta. intros n H. apply (node_wf_parts _ _ H). }
  (* the children array *)
  assert (exists ch wsc, children_array l ot pad = Val ch /\ wire_nonneg ch = true /\
            indexed wsc (offsets_of wsc) (ids_where is_inner 0 ot) /\
            Bitmaps (array32_of_wire ch) = wsc /\ Offsets (array32_of_wire ch) = offsets_of wsc /\
            (l_bmchildren l = false -> N.land (Flags (array32_of_wire ch)) 2 = 0 /\ Elts (array32_of_wire ch) = u32_elts ot) /\
            (l_bmchildren l = true -> filter is_inner ot <> [] ->
               N.land (Flags (array32_of_wire ch)) 2 = 2 /\
               exists ws b, of_many (bm_segs ot) = Val ws /\ BMElts (array32_of_wire ch) = Some b /\ b_words b = ws))
    as (ch & wsc & Ech & Nch & Ic & Bc & Oc & Uc & Mc).
  { unfold children_array.
    destruct (mk_array_ok (ids_where is_inner 0 ot) pad (u32_elts ot) 0 0 None
                (ids_where_sorted _ _ _) (ids_where_idx_ok _ _ Hlen)) as (ws1 & E1 & I1 & _).
    destruct (mk_array_ok (ids_where is_inner 0 ot) pad [] 0 0 None
                (ids_where_sorted _ _ _) (ids_where_idx_ok _ _ Hlen)) as (ws3 & E3 & I3 & _).
    destruct (l_bmchildren l) eqn:Ebm; cbn [negb].
    - destruct (bm_segs_ok ot Hlab) as [Hok _].
      destruct (of_many_spec _ Hok) as (wsm & Em & _).
      destruct (mk_array_ok (ids_where is_inner 0 ot) pad [] 3 16
                  (Some (mkWBits 0 (bits_n ot) wsm (map Z.of_N (index_rank128 wsm 0)) []))
                  (ids_where_sorted _ _ _) (ids_where_idx_ok _ _ Hlen)) as (ws2 & E2 & I2 & _).
      destruct (negb (is_nil (ids_where is_inner 0 ot)) || l_emptybmhead l) eqn:Ehd.
      + unfold bm_elts. rewrite Em, E2. eexists _, ws2. split; [reflexivity|]. rewrite of_wire_mk.
        split.
        { unfold wire_nonneg. cbn [wa_cnt wa_offsets wa_eltwidth wa_bmelts opt_all wb_n wb_rank].
          rewrite !nonneg_map_of_N.
          assert ((0 <=? bits_n ot)%Z = true) as ->.
          { apply Z.leb_le. unfold bits_n. destruct (last_opt (filter is_inner ot)) eqn:El; [|lia].
            destruct (filter is_inner ot); [discriminate|]. cbn [length]. lia. }
          assert ((0 <=? Z.of_nat (length (ids_where is_inner 0 ot)))%Z = true) as -> by (apply Z.leb_le; lia).
          reflexivity. }
        cbn [Bitmaps Offsets Flags Elts BMElts].
        split; [exact I2|]. split; [reflexivity|]. split; [reflexivity|]. split; [discriminate|].
        intros _ _. split; [reflexivity|]. eexists _, _. split; [reflexivity|]. split; reflexivity.
      + rewrite E3. eexists _, ws3. split; [reflexivity|]. rewrite of_wire_mk.
        split.
        { unfold wire_nonneg. cbn [wa_cnt wa_offsets wa_eltwidth wa_bmelts opt_all].
          rewrite nonneg_map_of_N.
          assert ((0 <=? Z.of_nat (length (ids_where is_inner 0 ot)))%Z = true) as -> by (apply Z.leb_le; lia).
          reflexivity. }
        cbn [Bitmaps Offsets Flags Elts BMElts].
        split; [exact I3|]. split; [reflexivity|]. split; [reflexivity|]. split; [discriminate|].
        intros _ Hne. exfalso. apply orb_false_iff in Ehd. destruct Ehd as [Ehd _].
        apply negb_false_iff in Ehd. destruct (ids_where is_inner 0 ot) eqn:Ei; [|discriminate].
        apply Hne. apply (ids_where_nil_filter is_inner ot 0). exact Ei.
    - rewrite E1. eexists _, ws1. split; [reflexivity|]. rewrite of_wire_mk.
      split.
      { unfold wire_nonneg. cbn [wa_cnt wa_offsets wa_eltwidth wa_bmelts opt_all].
        rewrite nonneg_map_of_N.
        assert ((0 <=? Z.of_nat (length (ids_where is_inner 0 ot)))%Z = true) as -> by (apply Z.leb_le; lia).
        reflexivity. }
      cbn [Bitmaps Offsets Flags Elts BMElts].
      split; [exact I1|]. split; [reflexivity|]. split; [reflexivity|]. split; [intros _; split; reflexivity|discriminate]. }
  (* steps and leaves *)
  destruct (mk_array_ok (ids_where has_step 0 ot) pad (concat (map step_elt (filter has_step ot))) 0 0 None
              (ids_where_sorted _ _ _) (ids_where_idx_ok _ _ Hlen)) as (wss & Es & Is & _).
  destruct (mk_array_ok (ids_where has_leaf 0 ot) pad (concat (map (leaf_elt vals) (filter has_leaf ot))) 0 0 None
              (ids_where_sorted _ _ _) (ids_where_idx_ok _ _ Hlen)) as (wsv & Ev & Iv & _).
  assert (forall (idx : list N) ws elts, wire_nonneg (mkWArray (Z.of_nat (length idx)) ws (map Z.of_N (offsets_of ws)) elts 0 0 None []) = true) as Hnn.
  { intros idx ws elts. unfold wire_nonneg. cbn [wa_cnt wa_offsets wa_eltwidth wa_bmelts opt_all].
    rewrite nonneg_map_of_N.
    assert ((0 <=? Z.of_nat (length idx))%Z = true) as -> by (apply Z.leb_le; lia). reflexivity. }
  eexists ch, _, _. unfold arrays_of_old. fold pad. unfold steps_array, leaves_array. rewrite Ech, Es, Ev.
  split; [reflexivity|]. split; [exact Nch|]. split; [apply Hnn|]. split; [apply Hnn|].
  rewrite !of_wire_mk. constructor; cbn [Bitmaps Offsets Elts Flags BMElts]; try assumption; try reflexivity.
  - rewrite Bc, Oc. exact Ic.
  - (* the span covers the table: the last node is in the children or in the leaves array *)
    unfold span_ids. cbn [Bitmaps]. rewrite Bc.
    destruct ot as [|n0 r0] eqn:Eot; [cbn; lia|]. rewrite <- Eot in *.
    set (k := (length ot - 1)%nat).
    assert (Hk : (k < length ot)%nat) by (subst k; rewrite Eot; cbn; lia).
    rewrite Forall_forall in Hn. pose proof (Hn (nth k ot no_node) (nth_In _ _ Hk)) as Hnk.
    destruct (node_wf_parts _ _ Hnk) as (_ & Hil & _). apply orb_true_iff in Hil.
    destruct Ic as (_ & _ & Hbc & _). destruct Iv as (_ & _ & Hbv & _).
    destruct Hil as [Hi|Hi].
    + pose proof (last_listed_span is_inner ot wsc k Hbc Hk Hi). lia.
    + pose proof (last_listed_span has_leaf ot wsv k Hbv Hk Hi). lia.
Qed.

(* ====================================================================== *)
(* F. reading the table back                                                *)
(* ====================================================================== *)
Definition empty_rnode : rnode := {| rn_bm := []; rn_step := 0; rn_leaf := None |}.

Lemma labels_of_zero : labels_of_bm16 0 = [].
Proof. reflexivity. Qed.

Lemma indexed_lengths : forall ws offs idx, indexed ws offs idx -> length offs = length ws.
Proof. intros ws offs idx (_ & _ & _ & ->). apply offsets_of_length. Qed.

Lemma skipn_nth_cons : forall {A} (l : list A) k d, (k < length l)%nat ->
  skipn k l = nth k l d :: skipn (S k) l.
Proof.
  intros A l. induction l as [|x r IH]; intros k d Hk; [cbn in Hk; lia|].
  destruct k as [|k]; [reflexivity|]. cbn [skipn nth]. rewrite (IH k d) by (cbn in Hk; lia). reflexivity.
Qed.

Section ReadBack.
  Variables (l : layout) (ot : old_trie) (vals : list (list byte)) (nv esz : nat).
  Variables (c s v : array32).
  Hypothesis Hwf : table_wf nv ot = true.
  Hypothesis Hvals : vals_ok esz vals = true.
  Hypothesis Hnv : nv = length vals.
  Hypothesis R : arrays_rel l ot vals c s v.

  Lemma rb_nodes : Forall (fun n => node_wf nv n = true) ot.
  Proof. apply (table_wf_nodes _ _ Hwf). Qed.

  Lemma rb_labels : Forall (fun n => labels_ok (on_bm n)) (filter is_inner ot).
  Proof.
    apply filter_Forall. eapply Forall_impl; [|exact rb_nodes]. cbv beta. intros n H. apply (node_wf_parts _ _ H).
  Qed.

  Lemma rb_child : forall k, (k < length ot)%nat -> is_inner (nth k ot no_node) = true ->
    exists bm, get_bm16_child c (N.of_nat k) = LOk bm /\ bm <> 0 /\
               labels_of_bm16 bm = on_bm (nth k ot no_node).
  Proof.
    intros k Hk Hp. set (n := nth k ot no_node) in *.
    destruct (one_rank is_inner ot c (ar_c_idx _ _ _ _ _ _ R) k Hk Hp) as (j & Hj & Hf & Hr).
    fold n in Hf.
    assert (Hlab : labels_ok (on_bm n)).
    { pose proof rb_labels as H. rewrite Forall_forall in H. apply H. apply filter_In. split; [apply nth_In; exact Hk|exact Hp]. }
    assert (Hne : exists b, In b (on_bm n)).
    { unfold is_inner in Hp. destruct (on_bm n) as [|b r]; [discriminate|]. exists b. left. reflexivity. }
    assert (Hfin : forall bm, (forall b, (b < 16)%nat -> N.testbit bm (N.of_nat b) = existsb (Nat.eqb b) (on_bm n)) ->
                   bm <> 0 /\ labels_of_bm16 bm = on_bm n).
    { intros bm Hb. split; [|apply labels_of_bits; assumption].
      destruct Hne as (b & Hin). destruct Hlab as [_ Hlt]. rewrite Forall_forall in Hlt.
      apply (bits_nonzero bm (N.of_nat b)). rewrite Hb by (apply Hlt; exact Hin). apply existsb_nat_eqb_In. exact Hin. }
    unfold get_bm16_child. rewrite Hr.
    destruct (l_bmchildren l) eqn:Ebm.
    - assert (Hnn : filter is_inner ot <> []) by (intros E; rewrite E in Hj; cbn in Hj; lia).
      destruct (ar_c_bm _ _ _ _ _ _ R Ebm Hnn) as (Hfl & ws & b & Em & Eb & Ew).
      rewrite Hfl. change (2 =? 0) with false. cbv iota. rewrite Eb, Ew.
      destruct (bm_elt_read ot ws j rb_labels Em Hj) as (bm & Eg & Hbits).
      rewrite Eg. exists bm. split; [reflexivity|]. apply Hfin. rewrite Hf in Hbits. exact Hbits.
    - destruct (ar_c_u32 _ _ _ _ _ _ R Ebm) as (Hfl & He).
      rewrite Hfl. change (0 =? 0) with true. cbv iota. rewrite He. unfold u32_elts.
      set (es := map u32_elt (combine (filter is_inner ot) (first_children 1 ot))).
      assert (Hlen : length (combine (filter is_inner ot) (first_children 1 ot)) = length (filter is_inner ot)).
      { rewrite combine_length, first_children_length. lia. }
      assert (Hes : Forall (fun e => length e = 4%nat) es).
      { apply Forall_forall. intros e He'. apply in_map_iff in He'. destruct He' as ([n' fc] & <- & _).
        apply le_encode_length. }
      change 4 with (N.of_nat 4) at 1.
      rewrite (slice_concat 4 es j Hes) by (unfold es; rewrite map_length, Hlen; exact Hj).
      assert (Enth : nth j es [] = u32_elt (n, nth j (first_children 1 ot) 0)).
      { unfold es. rewrite (nth_indep _ [] (u32_elt (no_node, 0))) by (rewrite map_length, Hlen; exact Hj).
        rewrite map_nth. rewrite combine_nth by (symmetry; apply first_children_length). rewrite Hf. reflexivity. }
      rewrite Enth. destruct (u32_elt_read n (nth j (first_children 1 ot) 0) Hlab) as [_ Hv].
      rewrite Hv. exists (bm16_of (on_bm n)). split; [reflexivity|]. apply Hfin. intros b _. apply bm16_of_bits.
  Qed.

  Lemma rb_step : forall k, (k < length ot)%nat -> has_step (nth k ot no_node) = true ->
    typed_get U16 s (N.of_nat k) = Val (Z.of_nat (on_step (nth k ot no_node)), true).
  Proof.
    intros k Hk Hp.
    rewrite typed_eq_raw by (apply (indexed_lengths _ _ _ (ar_s_idx _ _ _ _ _ _ R))).
    change (k_bytes U16) with 2%nat.
    rewrite (one_get has_step step_elt 2 ot s (ar_s_idx _ _ _ _ _ _ R) (ar_s_elts _ _ _ _ _ _ R)); try assumption.
    - unfold typed_of_raw, step_elt. rewrite decode_encode_int; [reflexivity|].
      pose proof rb_nodes as H. rewrite Forall_forall in H.
      destruct (node_wf_parts _ _ (H (nth k ot no_node) (nth_In _ _ Hk))) as (_ & _ & Hst & _).
      split; [cbn; lia|]. cbn [k_signed U16]. change (Z.of_N (2 ^ k_bits U16)) with 65536%Z. lia.
    - apply Forall_forall. intros n _. apply encode_int_length.
  Qed.

  Lemma rb_leaf : forall k a, (k < length ot)%nat -> on_leaf (nth k ot no_node) = Some a ->
    get_bytes v (N.of_nat k) esz = Val (Some (nth a vals [])).
  Proof.
    intros k a Hk Ha.
    assert (Hp : has_leaf (nth k ot no_node) = true) by (unfold has_leaf; rewrite Ha; reflexivity).
    rewrite (one_get has_leaf (leaf_elt vals) esz ot v (ar_v_idx _ _ _ _ _ _ R) (ar_v_elts _ _ _ _ _ _ R)); try assumption.
    - unfold leaf_elt. rewrite Ha. reflexivity.
    - apply Forall_forall. intros n Hn. apply filter_In in Hn. destruct Hn as [Hin Hl].
      unfold leaf_elt. unfold has_leaf in Hl. destruct (on_leaf n) as [a'|] eqn:Ea; [|discriminate].
      pose proof rb_nodes as H. rewrite Forall_forall in H.
      destruct (node_wf_parts _ _ (H _ Hin)) as (_ & _ & _ & Hlt). specialize (Hlt a' Ea).
      unfold vals_ok in Hvals. rewrite forallb_forall in Hvals.
      apply Nat.eqb_eq. apply Hvals. apply nth_In. lia.
  Qed.

  Lemma rb_node_in : forall k, (k < length ot)%nat ->
    read_node esz c s v (N.of_nat k) = LOk (rnode_of vals (nth k ot no_node)).
  Proof.
    intros k Hk. set (n := nth k ot no_node). unfold read_node. cbv zeta.
    rewrite (one_has is_inner ot c (ar_c_idx _ _ _ _ _ _ R) k Hk).
    rewrite (one_has has_step ot s (ar_s_idx _ _ _ _ _ _ R) k Hk).
    rewrite (one_has has_leaf ot v (ar_v_idx _ _ _ _ _ _ R) k Hk). fold n.
    assert (exists bm, (if is_inner n then get_bm16_child c (N.of_nat k) else LOk 0) = LOk bm /\
                       is_inner n && (bm =? 0) = false /\ labels_of_bm16 bm = on_bm n) as (bm & E1 & E2 & Hl).
    { destruct (is_inner n) eqn:Ei.
      - destruct (rb_child k Hk Ei) as (bm & E & Hne & Hl). exists bm. split; [exact E|]. split; [|exact Hl].
        cbn [andb]. apply N.eqb_neq. exact Hne.
      - exists 0. split; [reflexivity|]. split; [reflexivity|]. rewrite labels_of_zero.
        unfold is_inner in Ei. apply negb_false_iff in Ei. destruct (on_bm n); [reflexivity|discriminate]. }
    rewrite E1. cbn [lbind]. rewrite E2.
    assert ((if has_step n
             then match typed_get U16 s (N.of_nat k) with
                  | Val (z, _) => if (z =? 0)%Z then LErr (LOutside 3) else LOk (Z.to_nat z)
                  | Panic => LErr (LPanic 655)
                  end
             else LOk 0%nat) = LOk (on_step n)) as ->.
    { destruct (has_step n) eqn:Es.
      - rewrite (rb_step k Hk Es). fold n. unfold has_step in Es. apply negb_true_iff, Nat.eqb_neq in Es.
        destruct (Z.eqb_spec (Z.of_nat (on_step n)) 0); [lia|]. rewrite Nat2Z.id. reflexivity.
      - unfold has_step in Es. apply negb_false_iff, Nat.eqb_eq in Es. rewrite Es. reflexivity. }
    cbn [lbind].
    assert ((if has_leaf n
             then match get_bytes v (N.of_nat k) esz with
                  | Val (Some bs) => LOk (Some bs)
                  | Val None => LErr (LOutside 4)
                  | Panic => LErr (LPanic 656)
                  end
             else LOk None) = LOk (rn_leaf (rnode_of vals n))) as ->.
    { unfold has_leaf, rnode_of. cbn [rn_leaf]. destruct (on_leaf n) as [a|] eqn:Ea; cbn [is_some]; [|reflexivity].
      rewrite (rb_leaf k a Hk Ea). reflexivity. }
    cbn [lbind]. rewrite Hl. reflexivity.
  Qed.

  Lemma rb_node_beyond : forall i, N.of_nat (length ot) <= i -> read_node esz c s v i = LOk empty_rnode.
  Proof.
    intros i Hi. unfold read_node. cbv zeta.
    rewrite (one_has_beyond is_inner ot c (ar_c_idx _ _ _ _ _ _ R) i Hi).
    rewrite (one_has_beyond has_step ot s (ar_s_idx _ _ _ _ _ _ R) i Hi).
    rewrite (one_has_beyond has_leaf ot v (ar_v_idx _ _ _ _ _ _ R) i Hi).
    reflexivity.
  Qed.

  Lemma rb_nodes_from : forall m k, (k <= length ot)%nat ->
    read_nodes esz c s v (N.of_nat k) m =
    LOk (map (rnode_of vals) (firstn m (skipn k ot)) ++ repeat empty_rnode (m - (length ot - k))).
  Proof.
    induction m as [|m IH]; intros k Hk; [reflexivity|].
    cbn [read_nodes]. destruct (Nat.eq_dec k (length ot)) as [->|Hne].
    - rewrite rb_node_beyond by lia. cbn [lbind].
      replace (N.succ (N.of_nat (length ot))) with (N.of_nat (length ot) + 1) by lia.
      assert (forall m' i, N.of_nat (length ot) <= i -> read_nodes esz c s v i m' = LOk (repeat empty_rnode m')) as Hb.
      { induction m' as [|m' IHm]; intros i Hi; [reflexivity|]. cbn [read_nodes]. rewrite rb_node_beyond by exact Hi.
        cbn [lbind]. rewrite IHm by lia. reflexivity. }
      rewrite Hb by lia. cbn [lbind]. rewrite skipn_all. rewrite firstn_nil. cbn [map app].
      replace (length ot - length ot)%nat with 0%nat by lia. rewrite Nat.sub_0_r. reflexivity.
    - assert (Hlt : (k < length ot)%nat) by lia. rewrite (rb_node_in k Hlt). cbn [lbind].
      replace (N.succ (N.of_nat k)) with (N.of_nat (S k)) by lia. rewrite IH by lia. cbn [lbind].
      f_equal. rewrite (skipn_nth_cons ot k no_node Hlt) at 1. cbn [firstn map app].
      replace (S m - (length ot - k))%nat with (m - (length ot - S k))%nat by lia. reflexivity.
  Qed.
End ReadBack.

(* ---- the end of the table -------------------------------------------------- *)
Lemma trim_empties : forall m, trim_nodes (repeat empty_rnode m) = [].
Proof. induction m as [|m IH]; [reflexivity|]. cbn [repeat trim_nodes]. rewrite IH. reflexivity. Qed.

Lemma trim_id : forall rs, Forall (fun r => rn_empty r = false) rs -> trim_nodes rs = rs.
Proof.
  induction 1 as [|r rs Hr _ IH]; [reflexivity|].
  cbn [trim_nodes]. rewrite IH. destruct rs; [rewrite Hr|]; reflexivity.
Qed.

Lemma trim_app_empties : forall rs m, Forall (fun r => rn_empty r = false) rs ->
  trim_nodes (rs ++ repeat empty_rnode m) = rs.
Proof.
  induction 1 as [|r rs Hr Hrs IH]; [apply trim_empties|].
  cbn [app trim_nodes]. rewrite IH. destruct rs as [|r' rs']; [rewrite Hr|]; reflexivity.
Qed.

Lemma rnode_of_nonempty : forall nv vals n, node_wf nv n = true -> rn_empty (rnode_of vals n) = false.
Proof.
  intros nv vals n H. destruct (node_wf_parts _ _ H) as (_ & Hil & _).
  unfold rn_empty, rnode_of. cbn [rn_bm rn_step rn_leaf]. unfold is_inner, has_leaf in Hil.
  destruct (on_bm n); cbn [is_nil negb orb andb] in *; [|reflexivity].
  destruct (on_leaf n); cbn [is_some] in *; [|discriminate].
  rewrite andb_false_r. reflexivity.
Qed.

(* THE ARRAY-LEVEL ROUND TRIP: the reader gives back every well-formed table, in every
   layout, with its leaves numbered in id order *)
Theorem old_of_arrays_written : forall l ot vals esz,
  table_wf (length vals) ot = true -> vals_ok esz vals = true ->
  exists ch st lv,
    arrays_of_old l ot vals = Val (ch, st, lv) /\
    old_of_arrays esz ch st lv = LOk (renumbered ot vals).
Proof.
  intros l ot vals esz Hwf Hv.
  destruct (arrays_of_old_ok l ot vals _ Hwf) as (ch & st & lv & E & N1 & N2 & N3 & R).
  exists ch, st, lv. split; [exact E|].
  unfold old_of_arrays. rewrite N1, N2, N3. cbn [andb negb].
  pose proof (rb_nodes_from l ot vals (length vals) esz _ _ _ Hwf Hv eq_refl R
                (span_ids (array32_of_wire ch) (array32_of_wire st) (array32_of_wire lv)) 0 ltac:(lia)) as Hr.
  cbn [N.of_nat] in Hr. rewrite Hr. cbn [lbind skipn].
  rewrite firstn_all2 by (apply (ar_span _ _ _ _ _ _ R)).
  rewrite trim_app_empties; [reflexivity|].
  apply Forall_forall. intros r Hin. apply in_map_iff in Hin. destruct Hin as (n & <- & Hn).
  destruct (table_wf_nodes _ _ Hwf) as [Hnodes _]. rewrite Forall_forall in Hnodes.
  eapply rnode_of_nonempty. apply Hnodes. exact Hn.
Qed.
