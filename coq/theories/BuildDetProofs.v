(* BuildDetProofs.v - the short-node table does not depend on Go's map iteration order nor on
   the (unspecified, unstable) algorithm of sort.Slice.  sortedBMCounts collects the entries
   of a map (distinct bitmaps, in ANY order) and sorts them with the comparator
   "more used first, ties by greater bitmap first" (Bits.cnt_before).  That comparator is a
   strict total order on distinct entries, so there is exactly one sorted arrangement: ANY
   sorted permutation of the entries is the list Bits.cnt_sort computes.  Hence ShortSize,
   ShortTable and every byte of the message are functions of the key/value input alone. *)
From Coq Require Import List NArith Bool Lia Permutation Sorting.Sorted.
From Slim Require Import Bits.
Import ListNotations.
Local Open Scope N_scope.

Definition cnt_lt (a b : N * N) : Prop := cnt_before a b = true.

Lemma cnt_lt_irrefl a : ~ cnt_lt a a.
Proof. unfold cnt_lt, cnt_before. rewrite N.eqb_refl, N.ltb_irrefl. discriminate. Qed.

Lemma cnt_lt_trans a b c : cnt_lt a b -> cnt_lt b c -> cnt_lt a c.
Proof.
  unfold cnt_lt, cnt_before. destruct a as [ba ca], b as [bb cb], c as [bc cc]. cbn [fst snd].
  destruct (N.eqb_spec ca cb), (N.eqb_spec cb cc), (N.eqb_spec ca cc); rewrite ?N.ltb_lt; lia.
Qed.

Lemma cnt_lt_total a b : a <> b -> cnt_lt a b \/ cnt_lt b a.
Proof.
  unfold cnt_lt, cnt_before. destruct a as [ba ca], b as [bb cb]. cbn [fst snd]. intros Hne.
  destruct (N.eqb_spec ca cb) as [->|Hc].
  - rewrite N.eqb_refl, !N.ltb_lt. assert (ba <> bb) by congruence. lia.
  - destruct (N.eqb_spec cb ca); [congruence|]. rewrite !N.ltb_lt. lia.
Qed.

Lemma cnt_before_false a b : a <> b -> cnt_before a b = false -> cnt_lt b a.
Proof. intros Hne Hf. destruct (cnt_lt_total a b Hne) as [H|H]; [unfold cnt_lt in H; congruence|exact H]. Qed.

(* insertion keeps the elements and the order *)
Lemma cnt_insert_perm x l : Permutation (x :: l) (cnt_insert x l).
Proof.
  induction l as [|y r IH]; cbn [cnt_insert]; [reflexivity|].
  destruct (cnt_before x y); [reflexivity|]. rewrite perm_swap. constructor. exact IH.
Qed.

Lemma cnt_sort_perm l : Permutation l (cnt_sort l).
Proof.
  induction l as [|x r IH]; cbn [cnt_sort]; [constructor|].
  rewrite <- cnt_insert_perm. constructor. exact IH.
Qed.

Lemma cnt_insert_sorted x l :
  ~ In x l -> StronglySorted cnt_lt l -> StronglySorted cnt_lt (cnt_insert x l).
Proof.
  induction l as [|y r IH]; intros Hx Hs; cbn [cnt_insert].
  - constructor; constructor.
  - inversion Hs as [|? ? Hr Hy]; subst.
    destruct (cnt_before x y) eqn:E.
    + constructor; [exact Hs|]. constructor; [exact E|].
      rewrite Forall_forall in Hy |- *. intros z Hz. eapply cnt_lt_trans; [exact E|apply Hy; exact Hz].
    + assert (x <> y) as Hne by (intros ->; apply Hx; left; reflexivity).
      constructor; [apply IH; [intros Hin; apply Hx; right; exact Hin|exact Hr]|].
      rewrite Forall_forall in Hy |- *. intros z Hz.
      apply (Permutation_in _ (Permutation_sym (cnt_insert_perm x r))) in Hz. destruct Hz as [<-|Hz].
      * apply cnt_before_false; [exact Hne|exact E].
      * apply Hy; exact Hz.
Qed.

Lemma cnt_sort_sorted l : NoDup l -> StronglySorted cnt_lt (cnt_sort l).
Proof.
  induction l as [|x r IH]; intros Hn; cbn [cnt_sort]; [constructor|].
  inversion Hn as [|? ? Hx Hr]; subst. apply cnt_insert_sorted; [|apply IH; exact Hr].
  intros Hin. apply Hx. eapply Permutation_in; [apply Permutation_sym, cnt_sort_perm|exact Hin].
Qed.

(* a strict order admits one sorted arrangement of a set *)
Lemma sorted_unique : forall l l',
  StronglySorted cnt_lt l -> StronglySorted cnt_lt l' -> Permutation l l' -> l = l'.
Proof.
  induction l as [|a r IH]; intros l' Hs Hs' Hp.
  - apply Permutation_nil in Hp. subst. reflexivity.
  - destruct l' as [|b r']; [apply Permutation_sym, Permutation_nil in Hp; discriminate|].
    inversion Hs as [|? ? Hr Ha]; subst. inversion Hs' as [|? ? Hr' Hb]; subst.
    rewrite Forall_forall in Ha, Hb.
    assert (a = b) as ->.
    { assert (In a (b :: r')) as Hia by (eapply Permutation_in; [exact Hp|left; reflexivity]).
      assert (In b (a :: r)) as Hib by (eapply Permutation_in; [apply Permutation_sym; exact Hp|left; reflexivity]).
      destruct Hia as [->|Hia]; [reflexivity|]. destruct Hib as [->|Hib]; [reflexivity|].
      exfalso. apply (cnt_lt_irrefl a). eapply cnt_lt_trans; [apply Ha; exact Hib|apply Hb; exact Hia]. }
    f_equal. apply IH; [exact Hr|exact Hr'|]. eapply Permutation_cons_inv; exact Hp.
Qed.

(* sortedBMCounts: whatever order the map iteration yields ([entries'], a permutation of the
   distinct entries) and whatever sorted arrangement sort.Slice returns ([s]), it is cnt_sort *)
Theorem sorted_counts_deterministic : forall entries s,
  NoDup entries -> Permutation entries s -> StronglySorted cnt_lt s -> s = cnt_sort entries.
Proof.
  intros entries s Hn Hp Hs. apply sorted_unique; [exact Hs|apply cnt_sort_sorted; exact Hn|].
  eapply Permutation_trans; [apply Permutation_sym; exact Hp|apply cnt_sort_perm].
Qed.

Corollary cnt_sort_order_independent : forall entries entries',
  NoDup entries -> Permutation entries entries' -> cnt_sort entries' = cnt_sort entries.
Proof.
  intros e e' Hn Hp. apply sorted_counts_deterministic; [exact Hn| |].
  - eapply Permutation_trans; [exact Hp|apply cnt_sort_perm].
  - apply cnt_sort_sorted. eapply Permutation_NoDup; [exact Hp|exact Hn].
Qed.

(* the entries the model sorts are distinct: the association list built by cnt_incr has
   distinct (nbit, bitmap) keys, as the Go maps have *)
Lemma cnt_incr_keys_in cs n b k :
  In k (map fst (cnt_incr cs n b)) -> k = (n, b) \/ In k (map fst cs).
Proof.
  induction cs as [|[[n0 b0] c0] r IH]; cbn [cnt_incr map fst In].
  - intros [<-|[]]. left; reflexivity.
  - destruct ((n0 =? n) && (b0 =? b)) eqn:E; cbn [map fst In].
    + intros H. right. exact H.
    + intros [<-|H]; [right; left; reflexivity|]. destruct (IH H) as [->|H']; [left; reflexivity|right; right; exact H'].
Qed.

Lemma cnt_incr_nodup cs n b : NoDup (map fst cs) -> NoDup (map fst (cnt_incr cs n b)).
Proof.
  induction cs as [|[[n0 b0] c0] r IH]; intros Hn; cbn [cnt_incr map fst].
  - constructor; [intros []|constructor].
  - inversion Hn as [|? ? Hx Hr]; subst.
    destruct ((n0 =? n) && (b0 =? b)) eqn:E; cbn [map fst].
    + constructor; assumption.
    + constructor; [|apply IH; exact Hr].
      intros Hin. apply cnt_incr_keys_in in Hin. destruct Hin as [Heq|Hin]; [|apply Hx; exact Hin].
      injection Heq as -> ->. rewrite !N.eqb_refl in E. discriminate.
Qed.

Lemma count_bms_nodup : forall ins cs cs',
  NoDup (map fst cs) -> count_bms ins cs = BitmapRank.Val cs' -> NoDup (map fst cs').
Proof.
  induction ins as [|i r IH]; intros cs cs' Hn H; cbn [count_bms] in H.
  - injection H as <-. exact Hn.
  - destruct (i_big i); [eapply IH; eassumption|].
    destruct (blen (i_labels i) <? 11); [|eapply IH; eassumption].
    destruct (match i_labels i with [] => BitmapRank.Val 0 | _ :: _ => bm17 (i_labels i) end) as [bm|]; cbn [obind] in H; [|discriminate].
    eapply IH; [|exact H]. apply cnt_incr_nodup. exact Hn.
Qed.

Lemma entries_nodup cs nbit :
  NoDup (map fst cs) ->
  NoDup (map (fun e : N * N * N => (snd (fst e), snd e)) (filter (fun e => fst (fst e) =? nbit) cs)).
Proof.
  induction cs as [|[[n b] c] r IH]; intros Hn; cbn [filter map fst snd]; [constructor|].
  inversion Hn as [|? ? Hx Hr]; subst. cbn [fst] in Hx.
  destruct (N.eqb_spec n nbit) as [->|Hne]; cbn [map fst snd]; [|apply IH; exact Hr].
  constructor; [|apply IH; exact Hr].
  intros Hin. apply in_map_iff in Hin. destruct Hin as ([[n' b'] c'] & Heq & Hf). cbn [fst snd] in Heq.
  injection Heq as -> ->. apply filter_In in Hf. destruct Hf as [Hf Hk]. cbn [fst] in Hk. apply N.eqb_eq in Hk. subst n'.
  apply Hx. apply in_map_iff. exists (nbit, b, c). split; [reflexivity|exact Hf].
Qed.

(* every list the model's sorted_counts holds is the unique sorted arrangement of the entries
   counted for that label count *)
Theorem sorted_counts_unique : forall ins cs nbit s,
  count_bms ins [] = BitmapRank.Val cs ->
  let entries := map (fun e : N * N * N => (snd (fst e), snd e)) (filter (fun e => fst (fst e) =? nbit) cs) in
  Permutation entries s -> StronglySorted cnt_lt s -> s = cnt_sort entries.
Proof.
  intros ins cs nbit s Hc entries Hp Hs. apply sorted_counts_deterministic; [|exact Hp|exact Hs].
  apply entries_nodup. eapply count_bms_nodup; [|exact Hc]. constructor.
Qed.
