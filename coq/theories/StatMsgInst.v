(* StatMsgInst.v - Stat() and String() of an INSTANCE (Instance.v: inner message, vars,
   level table, under histories of Unmarshal / Reset): the level table is the one
   st.init() computes from the inner message (StatMsg.minit_levels over the message fields),
   Reset leaves []levelInfo{{0,0,0,nil}}.  Definitions only; proofs in StatMsgInstProofs.v.

     Stat()    reads st.levels and st.inner.NodeTypeBM == nil, nothing else (no vars)
     String()  returns "" when st.inner.NodeTypeBM == nil, otherwise walks the inner message
               with st.vars (a nil vars pointer, left by Reset, would panic)
   A partially decoded inner message (IPartial: a protobuf error inside a completely read
   body) is unknown to the model: EPanic 41, as in EndToEnd.v. *)
From Coq Require Import List NArith ZArith Bool.
From Coq.Strings Require Import Byte.
From Slim Require Import Base Keys Model Stat Str StatMsg.
From Slim Require Bits.
From Slim Require Import Proto Instance EndToEnd.
Import ListNotations.

Definition LevelsT : Type := res (list (nat * nat * nat)).
Definition ilevels (w : slim) : LevelsT := minit_levels (of_wire w).
Definition reset_lv : LevelsT := Ok [(0%nat, 0%nat, 0%nat)].

(* the level table the instance holds (hook VerifLevels) *)
Definition inst_levels (st : inst VarsT LevelsT) : LevelsT := i_levels _ _ st.

Definition inst_stat (st : inst VarsT LevelsT) : res stat_record :=
  match i_inner _ _ st with
  | IPartial => Err (EPanic 41)
  | IMsg w => mstat (of_wire w) (i_levels _ _ st)
  end.

Definition inst_render (st : inst VarsT LevelsT) (fuel : nat) : res (list line) :=
  with_msg LevelsT st [] (fun m vs => mrender fuel m vs).
