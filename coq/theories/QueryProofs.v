(* QueryProofs.v - group (A): a kept key of the build input is found by GetID /
   Get with its own value, in every mode (C01). *)
From Slim Require Import Base Keys KeysProofs ListFacts Model TrieInv BuildProofs.
From Coq Require Import Sorting.Sorted ZifyNat ZifyBool.

Arguments Nat.div : simpl never.
Arguments Nat.modulo : simpl never.

(* ---------- the label walk of GetID as a function ---------- *)
Definition find_child {A} (lb : nat) (ch : list (nat * tree)) (k : tree -> option A) : option A :=
  (fix go (ch : list (nat * tree)) : option A :=
     match ch with
     | [] => None
     | (x, c) :: r => if Nat.eqb x lb then k c else go r
     end) ch.

Lemma descend_inner qn l id big step pfx fc ch i :
  descend qn l (Inner id big step pfx fc ch) i =
  match advance qn l i step pfx with
  | None => None
  | Some i1 =>
      find_child (label_at big qn i1) ch
                 (fun c => if Nat.eqb i1 l then Some (c, i1, false) else descend qn l c (i1 + wsize big))
  end.
Proof. reflexivity. Qed.

Lemma find_child_nth {A} lb ch (k : tree -> option A) n c :
  NoDup (map fst ch) -> nth_error ch n = Some (lb, c) -> find_child lb ch k = k c.
Proof.
  revert n; induction ch as [|[x c0] r IH]; intros n Hnd Hn; [destruct n; discriminate|].
  cbn [find_child]. cbn [map fst] in Hnd. inversion Hnd as [|? ? Hnotin Hnd']; subst.
  destruct n as [|n]; cbn [nth_error] in Hn.
  - inversion Hn; subst. rewrite Nat.eqb_refl. reflexivity.
  - destruct (Nat.eqb_spec x lb) as [->|Hne].
    + exfalso. apply Hnotin. apply nth_error_In in Hn. apply (in_map fst) in Hn. exact Hn.
    + apply (IH n Hnd' Hn).
Qed.

(* ---------- advancing over the skipped stretch ---------- *)
Lemma firstn_skipn_agree {A} (a b : list A) w f :
  firstn w a = firstn w b -> f <= w -> firstn (w - f) (skipn f a) = firstn (w - f) (skipn f b).
Proof.
  intros H Hf.
  assert (forall l : list A, firstn (w - f) (skipn f l) = skipn f (firstn w l)) as E.
  { intros l. rewrite skipn_firstn_comm. reflexivity. }
  rewrite !E, H. reflexivity.
Qed.

Lemma advance_ok o isbig s big step pfx labels kids b' e :
  SubInv s ->
  process_subset o isbig s = Ok (DInner big step pfx labels kids, b') ->
  In e (s_ents s) ->
  advance (e_nibs e) (length (e_nibs e)) (s_from s) step pfx = Some (sub_w big s).
Proof.
  intros I Hp He. pose proof (process_inner_inv _ _ _ _ _ _ _ _ _ Hp) as Hinv. cbv zeta in Hinv.
  destruct Hinv as ((e0 & e1 & r & Es & Hpfx) & Hw & _ & _ & Hstep & _).
  set (w := sub_w big s) in *.
  assert (2 <= length (s_ents s)) as Htwo by (rewrite Es; cbn; lia).
  assert (In e0 (s_ents s)) as He0 by (rewrite Es; left; reflexivity).
  pose proof (sub_w_len big s e Htwo He) as Hle. fold w in Hle.
  pose proof (sub_w_len big s e0 Htwo He0) as Hle0. fold w in Hle0.
  unfold advance.
  destruct (o_inner o && (0 <? w - s_from s)) eqn:Ec.
  - subst pfx. set (f := even_down (s_from s)).
    assert (f <= s_from s) as Hf by apply even_down_le.
    set (p := firstn (w - f) (skipn f (e_nibs e0))).
    assert (length p = w - f) as Lp.
    { unfold p. rewrite firstn_length, skipn_length. lia. }
    unfold cmp_upto. rewrite Lp.
    rewrite (firstn_skipn_agree (e_nibs e) (e_nibs e0) w f); [|apply sub_w_agree; assumption|lia].
    fold p. rewrite lex_cmp_refl.
    replace (f + (w - f)) with w by lia.
    destruct (Nat.ltb_spec (length (e_nibs e)) w); [lia|reflexivity].
  - subst pfx. subst step. cbv zeta.
    assert (s_from s + (if o_inner o then 0 else w - s_from s) = w) as ->.
    { destruct (o_inner o); cbn [andb] in Ec; [|lia]. apply Nat.ltb_ge in Ec. lia. }
    destruct (Nat.ltb_spec (length (e_nibs e)) w); [lia|reflexivity].
Qed.

(* ---------- the descent reaches the leaf of a kept entry ---------- *)
Definition found_for (o : opts) (e : ent) (res : option (tree * nat * bool)) : Prop :=
  exists id ord i v,
    res = Some (Leaf id ord (leaf_tail o e i) (e_idx e), i, v) /\
    i <= length (e_nibs e) /\ (v = false -> i = length (e_nibs e)).

Lemma singleton_leaf o c k e' :
  trie_of o c k -> s_ents k = [e'] ->
  exists id ord, c = Leaf id ord (leaf_tail o e' (s_from k)) (e_idx e').
Proof.
  intros Ht Hs. destruct c as [id ord tail eidx|id big step pfx fc ch]; cbn [trie_of] in Ht.
  - destruct Ht as (e & He & -> & ->). rewrite Hs in He. inversion He; subst. eauto.
  - exfalso. destruct Ht as (ib & labels & kids & b' & Hp & _).
    apply process_inner_inv in Hp. cbv zeta in Hp. destruct Hp as ((e0 & e1 & r & Es & _) & _).
    rewrite Hs in Es. discriminate.
Qed.

Lemma descend_finds o : forall t s,
  trie_of o t s -> SubInv s ->
  forall e, In e (s_ents s) -> e_keep e = true ->
  found_for o e (descend (e_nibs e) (length (e_nibs e)) t (s_from s)).
Proof.
  induction t as [id ord tail eidx|id big step pfx fc ch IH] using tree_ind'; intros s Ht I e He Hk.
  - cbn [trie_of] in Ht. destruct Ht as (e0 & Hs & -> & ->).
    rewrite Hs in He. destruct He as [<-|[]].
    cbn [descend]. exists id, ord, (s_from s), true. split; [reflexivity|].
    split; [apply (si_len s I); rewrite Hs; left; reflexivity|discriminate].
  - cbn [trie_of] in Ht. destruct Ht as (ib & labels & kids & b' & Hp & Hfst & Hkm).
    pose proof (inner_facts _ _ _ _ _ _ _ _ _ I Hp) as F.
    rewrite descend_inner. rewrite (advance_ok _ _ _ _ _ _ _ _ _ e I Hp He).
    set (w := sub_w big s) in *.
    destruct (kept_member o s big labels kids e I F He Hk) as (n & k & Hn & Hkn & Hek & Hfrom).
    fold w in Hn, Hfrom.
    assert (ent_label big w e = label_at big (e_nibs e) w) as Elab by reflexivity.
    rewrite Elab in Hn, Hfrom.
    set (lb := label_at big (e_nibs e) w) in *.
    (* the child for that label *)
    assert (exists c, nth_error ch n = Some (lb, c)) as (c & Hc).
    { assert (n < length ch) as Hlt.
      { rewrite <- (map_length fst ch), Hfst. apply nth_error_Some. rewrite Hn. discriminate. }
      destruct (nth_error ch n) as [[x c]|] eqn:E; [|apply nth_error_None in E; lia].
      exists c. f_equal. f_equal.
      assert (nth_error (map fst ch) n = Some x) as E2 by (rewrite nth_error_map, E; reflexivity).
      rewrite Hfst, Hn in E2. inversion E2; reflexivity. }
    rewrite (find_child_nth lb ch _ n c); [|rewrite Hfst; apply SS_lt_NoDup; apply (if_asc _ _ _ _ _ F)|exact Hc].
    assert (trie_of o c k) as Htc by (eapply kids_match_nth; eassumption).
    assert (SubInv k) as Ik by (eapply kids_inv; [exact I|exact F|eapply nth_error_In; exact Hkn]).
    pose proof (sub_w_len big s e (if_two _ _ _ _ _ F) He) as Hle. fold w in Hle.
    destruct (Nat.eqb_spec w (length (e_nibs e))) as [Heq|Hne].
    + (* the key ends here: label 0, a singleton child *)
      assert (lb = 0) as Hz by (apply (label_zero_iff big (e_nibs e) w Hle); exact Heq).
      rewrite Hz in Hn, Hfrom. cbn [label_width] in Hfrom. rewrite Nat.add_0_r in Hfrom.
      destruct (label0_singleton o s big labels kids k n I F Hn Hkn) as (e' & Hs').
      rewrite Hs' in Hek. destruct Hek as [<-|[]].
      destruct (singleton_leaf o c k e' Htc Hs') as (id' & ord' & ->).
      exists id', ord', w, false. rewrite Hfrom. split; [reflexivity|]. split; [lia|intros _; exact Heq].
    + assert (lb <> 0) as Hnz.
      { intros Hz. apply Hne. apply (label_zero_iff big (e_nibs e) w Hle). exact Hz. }
      assert (label_width big lb = wsize big) as Hwd by (destruct lb; [congruence|reflexivity]).
      rewrite Hwd in Hfrom. rewrite <- Hfrom.
      rewrite Forall_forall in IH. apply (IH (lb, c)); [eapply nth_error_In; exact Hc|exact Htc|exact Ik|exact Hek|exact Hk].
Qed.

(* ---------- GetID / Get on a kept key ---------- *)
Lemma bytes_eqb_refl a : bytes_eqb a a = true.
Proof.
  unfold bytes_eqb. induction a as [|x a IH]; [reflexivity|]. cbn [list_eqb]. rewrite IH.
  rewrite (Byte.byte_dec_lb eq_refl). reflexivity.
Qed.

Lemma getid_node_kept o keys vals T r lidx e :
  Built o keys vals T r lidx ->
  In e (s_ents (root_subset o keys vals)) -> e_keep e = true ->
  exists id ord tail, getid_node T (e_key e) = Some (Leaf id ord tail (e_idx e)).
Proof.
  intros B He Hk.
  pose proof (root_inv o keys vals (bt_sorted _ _ _ _ _ _ B) (bt_nonempty _ _ _ _ _ _ B)) as I.
  pose proof (descend_finds o r _ (bt_trie _ _ _ _ _ _ B) I e He Hk) as Hd.
  assert (ent_ok e) as Hok.
  { pose proof (si_ok _ I) as H. rewrite Forall_forall in H. apply H. exact He. }
  unfold getid_node. rewrite (bt_root _ _ _ _ _ _ B). cbv zeta.
  rewrite <- Hok. change (s_from (root_subset o keys vals)) with 0 in Hd.
  destruct Hd as (id & ord & i & v & -> & Hi & Hv).
  rewrite (bt_leafpfx _ _ _ _ _ _ B).
  exists id, ord, (leaf_tail o e i).
  destruct (o_leaf o) eqn:Eleaf; [|reflexivity].
  assert (length (e_nibs e) = 2 * length (e_key e)) as Hlen by (rewrite Hok; apply nibs_length).
  destruct v.
  - cbn [sess_tail]. unfold leaf_tail. rewrite Eleaf.
    destruct (skipn (i / 2) (e_key e)) as [|t0 tr] eqn:Esk.
    + assert (length (skipn (i / 2) (e_key e)) = 0) as L0 by (rewrite Esk; reflexivity).
      rewrite skipn_length in L0.
      assert (i = length (e_nibs e)) as -> by lia. rewrite Nat.eqb_refl. reflexivity.
    + destruct (Nat.eqb_spec i (length (e_nibs e))) as [->|Hne].
      * exfalso. rewrite Hlen in Esk. replace (2 * length (e_key e) / 2) with (length (e_key e)) in Esk by lia.
        rewrite skipn_all in Esk. discriminate.
      * rewrite bytes_eqb_refl. reflexivity.
  - cbn [sess_tail]. rewrite (Hv eq_refl), Nat.eqb_refl. reflexivity.
Qed.

Definition val_bytes (v : option (list byte)) : list byte := match v with Some b => b | None => [] end.

(* value the caller supplied for key index i *)
Definition supplied (vals : option (list (list byte))) (i : nat) : list byte :=
  match vals with Some vs => nth i vs [] | None => [] end.

Lemma total_size_zero l : total_size l = 0 -> Forall (fun b => b = []) l.
Proof.
  unfold total_size. intros H. apply sum_list_zero in H. rewrite Forall_forall in *.
  intros b Hb. apply (in_map (@length byte)) in Hb. specialize (H _ Hb). destruct b; [reflexivity|discriminate].
Qed.

Lemma leaf_value_kept vals lidx T id ord tail eidx :
  t_leaves T = select_leaves vals lidx ->
  nth_error lidx ord = Some eidx ->
  exists v, leaf_value T (Leaf id ord tail eidx) = Ok v /\ val_bytes v = supplied vals eidx /\
            (vals = None -> v = None).
Proof.
  intros Hl Hn. unfold leaf_value. rewrite Hl. unfold select_leaves, supplied.
  destruct vals as [vs|]; [|exists None; auto].
  destruct (total_size (map (fun i => nth i vs []) lidx) =? 0) eqn:Ez.
  - exists None. split; [reflexivity|]. split; [|discriminate].
    apply Nat.eqb_eq in Ez. apply total_size_zero in Ez. rewrite Forall_forall in Ez.
    cbn [val_bytes]. symmetry. apply Ez. apply in_map_iff. exists eidx. split; [reflexivity|].
    eapply nth_error_In; exact Hn.
  - rewrite (nth_error_map_some (fun i => nth i vs []) lidx ord eidx Hn).
    eexists. split; [reflexivity|]. split; [reflexivity|discriminate].
Qed.

Lemma leaf_ok_root_nth lidx r ord eidx :
  leaf_ok lidx 0 r -> In (ord, eidx) (leaves_of r) -> nth_error lidx ord = Some eidx.
Proof.
  unfold leaf_ok. rewrite Forall_forall. intros H Hin. specialize (H _ Hin). cbn [fst snd] in H.
  rewrite Nat.sub_0_r in H. tauto.
Qed.

(* every node a descent returns is a node of the tree it started in *)
Fixpoint subtrees (t : tree) : list tree :=
  t :: match t with
       | Leaf _ _ _ _ => []
       | Inner _ _ _ _ _ ch =>
           (fix go (ch : list (nat * tree)) : list tree :=
              match ch with [] => [] | (_, c) :: r => subtrees c ++ go r end) ch
       end.

Lemma subtrees_inner id big step pfx fc ch :
  subtrees (Inner id big step pfx fc ch) =
  Inner id big step pfx fc ch :: flat_map (fun p => subtrees (snd p)) ch.
Proof.
  cbn [subtrees]. f_equal. induction ch as [|[x c] r IH]; [reflexivity|]. cbn [flat_map snd]. rewrite IH. reflexivity.
Qed.

Lemma subtrees_self t : In t (subtrees t).
Proof. destruct t; left; reflexivity. Qed.

Lemma subtrees_trans : forall t c d, In c (subtrees t) -> In d (subtrees c) -> In d (subtrees t).
Proof.
  induction t as [id ord tail eidx|id big step pfx fc ch IH] using tree_ind'; intros c d Hc Hd.
  - destruct Hc as [<-|[]]. exact Hd.
  - rewrite subtrees_inner in Hc |- *. destruct Hc as [<-|Hc]; [rewrite subtrees_inner in Hd; exact Hd|].
    right. apply in_flat_map in Hc. destruct Hc as (p & Hp & Hc). apply in_flat_map. exists p. split; [exact Hp|].
    rewrite Forall_forall in IH. eapply IH; eassumption.
Qed.

Lemma subtree_child id big step pfx fc ch x c :
  In (x, c) ch -> In c (subtrees (Inner id big step pfx fc ch)).
Proof.
  intros H. rewrite subtrees_inner. right. apply in_flat_map. exists (x, c). split; [exact H|apply subtrees_self].
Qed.

Lemma leaf_subtree_leaves : forall t id ord tail eidx,
  In (Leaf id ord tail eidx) (subtrees t) -> In (ord, eidx) (leaves_of t).
Proof.
  induction t as [id0 ord0 tail0 eidx0|id0 big step pfx fc ch IH] using tree_ind'; intros id ord tail eidx H.
  - destruct H as [H|[]]. inversion H; subst. left; reflexivity.
  - rewrite subtrees_inner in H. destruct H as [H|H]; [discriminate|].
    rewrite leaves_of_inner. apply in_flat_map in H. destruct H as (p & Hp & H). apply in_flat_map.
    exists p. split; [exact Hp|]. rewrite Forall_forall in IH. eapply IH; eassumption.
Qed.

Lemma find_child_in {A} lb ch (k : tree -> option A) r :
  find_child lb ch k = Some r -> exists c, In (lb, c) ch /\ k c = Some r.
Proof.
  induction ch as [|[x c] rest IH]; cbn [find_child]; [discriminate|].
  destruct (Nat.eqb_spec x lb) as [->|Hne].
  - intros H. exists c. split; [left; reflexivity|exact H].
  - intros H. destruct (IH H) as (c' & Hin & Hk). exists c'. split; [right; exact Hin|exact Hk].
Qed.

Lemma descend_subtree qn l : forall t i c i' v,
  descend qn l t i = Some (c, i', v) -> In c (subtrees t).
Proof.
  induction t as [id ord tail eidx|id big step pfx fc ch IH] using tree_ind'; intros i c i' v H.
  - cbn [descend] in H. inversion H; subst. left; reflexivity.
  - rewrite descend_inner in H. destruct (advance qn l i step pfx) as [i1|]; [|discriminate].
    apply find_child_in in H. destruct H as (c0 & Hin & Hk).
    destruct (Nat.eqb i1 l).
    + inversion Hk; subst. eapply subtree_child; exact Hin.
    + rewrite Forall_forall in IH. specialize (IH _ Hin _ _ _ _ Hk). cbn [snd] in IH.
      eapply subtrees_trans; [eapply subtree_child; exact Hin|exact IH].
Qed.

Lemma getid_node_subtree T q c r :
  t_root T = Some r -> getid_node T q = Some c -> In c (subtrees r).
Proof.
  intros Hr. unfold getid_node. rewrite Hr. cbv zeta.
  destruct (descend (nibs q) (length (nibs q)) r 0) as [[[c0 i] v]|] eqn:Ed; [|discriminate].
  pose proof (descend_subtree _ _ _ _ _ _ _ Ed) as Hsub.
  destruct (t_leafpfx T).
  - destruct (sess_tail c0 v).
    + destruct (Nat.eqb i (length (nibs q))); [discriminate|].
      destruct (bytes_eqb _ _); [|discriminate]. intros H; inversion H; subst; exact Hsub.
    + destruct (Nat.eqb i (length (nibs q))); [|discriminate]. intros H; inversion H; subst; exact Hsub.
  - intros H; inversion H; subst; exact Hsub.
Qed.

(* ---------- C01 at the level of the tree model ---------- *)
Theorem kept_key_found_gen b o keys vals T i k :
  build_gen b o keys vals = Ok T ->
  nth_error keys i = Some k ->
  nth i (to_keep o (length keys) vals) true = true ->
  (exists id, getid T k = Some id) /\
  exists v, get T k = Ok (Found v) /\ val_bytes v = supplied vals i /\ (vals = None -> v = None).
Proof.
  intros Hb Hk Hkeep. destruct (build_gen_ok b _ _ _ _ Hb) as [[-> _]|(r & lidx & B)]; [destruct i; discriminate|].
  set (e := {| e_key := k; e_nibs := nibs k; e_keep := nth i (to_keep o (length keys) vals) true; e_idx := 0 + i |}).
  assert (In e (s_ents (root_subset o keys vals))) as He.
  { cbn [root_subset s_ents]. eapply nth_error_In. apply mk_ents_nth. exact Hk. }
  destruct (getid_node_kept o keys vals T r lidx e B He Hkeep) as (id & ord & tail & Hg).
  cbn [e e_key e_idx] in Hg. rewrite Nat.add_0_l in Hg.
  split; [exists id; unfold getid; rewrite Hg; reflexivity|].
  unfold get. rewrite Hg. unfold bind.
  pose proof (getid_node_subtree T k _ r (bt_root _ _ _ _ _ _ B) Hg) as Hsub.
  apply leaf_subtree_leaves in Hsub.
  pose proof (leaf_ok_root_nth lidx r ord i (bt_leaf _ _ _ _ _ _ B) Hsub) as Hn.
  destruct (leaf_value_kept vals lidx T id ord tail i (bt_leaves _ _ _ _ _ _ B) Hn) as (v & Hv & Hvb & Hvn).
  rewrite Hv. exists v. auto.
Qed.

Theorem kept_key_found o keys vals T i k :
  build o keys vals = Ok T ->
  nth_error keys i = Some k ->
  nth i (to_keep o (length keys) vals) true = true ->
  (exists id, getid T k = Some id) /\
  exists v, get T k = Ok (Found v) /\ val_bytes v = supplied vals i /\ (vals = None -> v = None).
Proof. exact (kept_key_found_gen true o keys vals T i k). Qed.

(* ---------- which keys are retained (newToKeep), as the property states it ---------- *)
Definition retained (o : opts) (keys : list key) (vals : option (list (list byte))) (i : nat) : bool :=
  nth i (to_keep o (length keys) vals) true.

Lemma bytes_eqb_eq a b : bytes_eqb a b = true <-> a = b.
Proof.
  unfold bytes_eqb. revert b; induction a as [|x a IH]; intros [|y b]; cbn [list_eqb]; split; intros H; try discriminate; try reflexivity.
  - apply andb_true_iff in H. destruct H as [H1 H2]. apply Byte.byte_dec_bl in H1. apply IH in H2. congruence.
  - inversion H; subst. rewrite (Byte.byte_dec_lb eq_refl). cbn. apply IH. reflexivity.
Qed.

Lemma neq_adj_cons a b r : neq_adj (a :: b :: r) = negb (bytes_eqb a b) :: neq_adj (b :: r).
Proof. reflexivity. Qed.

Lemma neq_adj_nth : forall vs i, S i < length vs ->
  nth i (neq_adj vs) true = negb (bytes_eqb (nth i vs []) (nth (S i) vs [])).
Proof.
  induction vs as [|a r IH]; intros i Hi; cbn [length] in Hi; [lia|].
  destruct r as [|b r']; [cbn in Hi; lia|].
  rewrite neq_adj_cons. destruct i as [|i]; [reflexivity|].
  cbn [nth]. rewrite IH by (cbn [length] in *; lia). reflexivity.
Qed.

(* the retained keys are: all keys, except - with de-duplication on and values
   supplied - a key whose encoded value equals its predecessor's *)
Lemma retained_spec o keys vals i :
  i < length keys ->
  match vals with
  | Some vs =>
      length vs = length keys ->
      retained o keys vals i = true <->
      (o_dedup o = false \/ i = 0 \/ nth (i - 1) vs [] <> nth i vs [])
  | None => retained o keys vals i = true
  end.
Proof.
  intros Hi. unfold retained, to_keep. destruct vals as [vs|].
  - intros Hl. destruct (o_dedup o).
    + destruct i as [|i]; [cbn; split; auto|].
      change (nth (S i) (true :: neq_adj vs) true) with (nth i (neq_adj vs) true).
      rewrite neq_adj_nth by lia. replace (S i - 1) with i by lia.
      destruct (bytes_eqb (nth i vs []) (nth (S i) vs [])) eqn:E; cbn [negb].
      * apply bytes_eqb_eq in E. split; [discriminate|]. intros [H|[H|H]]; congruence.
      * split; [|reflexivity]. intros _. right; right. intros H. apply bytes_eqb_eq in H. congruence.
    + split; [auto|]. intros _. destruct (nth_in_or_default i (repeat true (length keys)) true) as [H|H]; [|exact H].
      apply repeat_spec in H. exact H.
  - destruct (nth_in_or_default i (repeat true (length keys)) true) as [H|H]; [|exact H].
    apply repeat_spec in H. exact H.
Qed.
