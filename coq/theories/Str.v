(* Str.v - model of SlimTrie.String on the tree model of Model.v.

   trie/slimtrie_str.go builds, for every inner node, the map
   label-text -> child id (child id = first child + ordinal of the label in the
   node's bitmap) and hands the result to low/tree.String, which prints the
   nodes in pre-order, the labels of a node in sorted order, one line per node:

       <indent>-<label>->#<id>+<step>*<fanout>=<value>

   where <indent> is the accumulated width of the "-<label>->#<id>" parts of
   the proper ancestors, the label part is absent for the root, "+<step>" is
   printed for inner nodes with a non-zero step / prefix length (in bits),
   "*<fanout>" when the node has more than one label and "=<value>" for leaves.
   [render] returns these lines in a structured form; the harness formats them
   with the layout above and compares the text with st.String().
   The label text is bmtree.PathStr: "" for the end-of-key label, otherwise the
   4 (8 for 257-bit nodes) binary digits of the label word.  The children of a
   node of the tree model are in ascending label order, which is the order of
   sort.Strings on these texts.
   No proofs in this file. *)
From Slim Require Import Base Keys Model.

Record line := {
  l_indent : nat;
  l_label : option (list bool);          (* None: the root; Some []: end-of-key label *)
  l_id : nat;
  l_step : nat;                          (* bits; 0: not printed *)
  l_fan : nat;                           (* number of labels when > 1, else 0: not printed *)
  l_val : option (option (list byte))    (* None: inner node; Some None: leaf, nil value *)
}.

(* most significant bit first *)
Fixpoint bits_of (w v : nat) : list bool :=
  match w with
  | 0 => []
  | S w' => bits_of w' (v / 2) ++ [Nat.odd v]
  end.

Definition label_bits (big : bool) (lb : nat) : list bool :=
  match lb with
  | 0 => []
  | S v => bits_of (4 * wsize big) v
  end.

(* number of decimal digits *)
Fixpoint digits_fuel (fuel n : nat) : nat :=
  match fuel with
  | 0 => 1
  | S f => if n <? 10 then 1 else S (digits_fuel f (n / 10))
  end.

(* width of fmt.Sprintf("%03d", id) *)
Definition id_width (id : nat) : nat := Nat.max 3 (digits_fuel id id).

(* "-" label "->" *)
Definition label_width_txt (lbl : option (list bool)) : nat :=
  match lbl with None => 0 | Some b => 3 + length b end.

(* qr.innerPrefixLen: 4 * step, or the bit length of the stored prefix *)
Definition step_bits (step : nat) (pfx : option (list nat)) : nat :=
  4 * match pfx with Some p => length p | None => step end.

Fixpoint render_tree (T : trie) (ind : nat) (lbl : option (list bool)) (t : tree) {struct t} : res (list line) :=
  match t with
  | Leaf id _ _ _ =>
      do v <- leaf_value T t;
      Ok [ {| l_indent := ind; l_label := lbl; l_id := id; l_step := 0; l_fan := 0; l_val := Some v |} ]
  | Inner id big step pfx _ ch =>
      let ind' := ind + label_width_txt lbl + 1 + id_width id in
      do sub <- (fix go (ch : list (nat * tree)) : res (list line) :=
                   match ch with
                   | [] => Ok []
                   | (lb, c) :: r =>
                       do a <- render_tree T ind' (Some (label_bits big lb)) c;
                       do b <- go r;
                       Ok (a ++ b)
                   end) ch;
      Ok ({| l_indent := ind; l_label := lbl; l_id := id; l_step := step_bits step pfx;
             l_fan := (if 1 <? length ch then length ch else 0); l_val := None |} :: sub)
  end.

(* String(): "" for the empty trie *)
Definition render (T : trie) : res (list line) :=
  match t_root T with
  | None => Ok []
  | Some r => render_tree T 0 None r
  end.

(* the values of the leaf lines, top to bottom *)
Fixpoint leaf_vals (ls : list line) : list (option (list byte)) :=
  match ls with
  | [] => []
  | l :: r => match l_val l with Some v => v :: leaf_vals r | None => leaf_vals r end
  end.
