(* SizeBitsCheck.v - run-time safety net for SizeBitsProofs.v (definitions only): on a
   concrete trie, do the size model (Size.v, C17) and the end-to-end byte model
   (Bits.encode_trie + EndToEnd.to_wire + Wire.marshal_gen, L3) produce the same bytes, and
   is the size of the size model's message the length of those bytes?  Proved to hold for
   every filter-mode trie of the builder (SizeBitsProofs.built_encoders_agree,
   size_is_marshal_length); the extracted driver of C17 prints the outcome for every case
   (line "X 1").  [same_bytes_with] takes the message of the size model as an argument so
   that the driver, which has already computed Size.encode_trie T for its dump, does not
   compute it again. *)
From Slim Require Import Base Keys Model BitmapRank Proto.
From Slim Require Size Bits EndToEnd Wire.

Definition same_bytes_with (ms : slim) (T : trie) : bool :=
  match Bits.encode_trie T with
  | Val m =>
      match Wire.marshal_gen (EndToEnd.to_wire m), Wire.marshal_gen ms with
      | Some a, Some b => bytes_eqb a b && N.eqb (Wire.marshal_size ms) (N.of_nat (length a))
      | _, _ => false
      end
  | Panic => false
  end.

Definition models_same_bytes (T : trie) : bool := same_bytes_with (Size.encode_trie T) T.
