(* FlatProofs.v - the id-based loop of GetID (Flat.fdescend / Flat.fgetid)
   computes, on every built trie, what the tree recursion computes
   (Model.descend / Model.getid): "node id = rank of the parent's label bit". *)
From Slim Require Import Base Keys KeysProofs ListFacts Model TrieInv BuildProofs QueryProofs ConsistProofs Stat StatProofs Flat.
From Coq Require Import Sorting.Sorted Sorting.Permutation ZifyNat ZifyBool.

Lemma nodes_of_subtrees : forall t, nodes_of t = subtrees t.
Proof. reflexivity. Qed.

(* ---------- children have consecutive ids starting at fc ---------- *)
Definition child_ids_ok (t : tree) : Prop :=
  match t with
  | Leaf _ _ _ _ => True
  | Inner _ _ _ _ fc ch => map tree_id (map snd ch) = List.seq fc (length ch)
  end.

Lemma fcs_child_ids : forall F cid,
  fcs_ok cid F -> map tree_id (flat_map kids F) = List.seq cid (length (flat_map kids F)) ->
  Forall child_ids_ok F.
Proof.
  induction F as [|t F IH]; intros cid Hf Hids; [constructor|].
  destruct t as [id ord tail eidx|id big step pfx fc ch].
  - cbn [fcs_ok flat_map kids app] in *. constructor; [exact I|]. eapply IH; eassumption.
  - cbn [fcs_ok] in Hf. destruct Hf as [-> Hf]. cbn [flat_map] in Hids. rewrite kids_inner in Hids.
    rewrite map_app, app_length, seq_app in Hids.
    assert (length (map tree_id (map snd ch)) = length (List.seq cid (length (map snd ch)))) as Hl
      by (rewrite !map_length, seq_length; reflexivity).
    apply (app_eq_app_length _ _ _ _ Hl) in Hids. destruct Hids as [H1 H2].
    constructor.
    + cbn [child_ids_ok]. rewrite map_length in H1. exact H1.
    + eapply IH; [exact Hf|]. rewrite map_length in H2. exact H2.
Qed.

Lemma bfs_child_ids : forall n base F, bfs_ok n base F -> Forall child_ids_ok (nodes_bfs n F).
Proof.
  induction n as [|n IH]; intros base F H; [constructor|].
  destruct H as (H1 & H2 & H3). cbn [nodes_bfs]. apply Forall_app. split.
  - eapply fcs_child_ids; [exact H2|].
    destruct n as [|n']; [cbn in H3; rewrite H3; reflexivity|]. destruct H3 as (H31 & _). exact H31.
  - eapply IH; exact H3.
Qed.

Record IdsOK (r : tree) : Prop := {
  ids_nodup : NoDup (map tree_id (subtrees r));
  ids_children : Forall child_ids_ok (subtrees r)
}.

Lemma built_ids_ok o keys vals T r : build o keys vals = Ok T -> t_root T = Some r -> IdsOK r.
Proof.
  intros Hb Hr. constructor; [eapply built_ids_nodup; eassumption|].
  destruct (built_bfs _ _ _ _ Hb r Hr) as (n & H).
  pose proof (subtrees_forest_bfs _ _ _ H) as P. cbn [flat_map] in P. rewrite app_nil_r in P.
  pose proof (bfs_child_ids _ _ _ H) as Hc.
  rewrite Forall_forall in *. intros t Ht. apply Hc. eapply Permutation_in; [exact P|exact Ht].
Qed.

(* ---------- getNode by id ---------- *)
Lemma find_unique {A} (f : A -> bool) l x :
  In x l -> f x = true -> (forall y, In y l -> f y = true -> y = x) -> find f l = Some x.
Proof.
  induction l as [|a l IH]; intros Hin Hf Hu; [destruct Hin|]. cbn [find].
  destruct (f a) eqn:Ea.
  - f_equal. apply Hu; [left; reflexivity|exact Ea].
  - destruct Hin as [->|Hin]; [congruence|]. apply IH; [exact Hin|exact Hf|]. intros y Hy. apply Hu. right. exact Hy.
Qed.

Lemma NoDup_map_inj {A B} (g : A -> B) l x y : NoDup (map g l) -> In x l -> In y l -> g x = g y -> x = y.
Proof.
  induction l as [|a l IH]; intros Hnd Hx Hy E; [destruct Hx|].
  cbn [map] in Hnd. inversion Hnd as [|? ? Hnot Hnd']; subst.
  destruct Hx as [<-|Hx], Hy as [<-|Hy].
  - reflexivity.
  - exfalso. apply Hnot. rewrite E. apply in_map. exact Hy.
  - exfalso. apply Hnot. rewrite <- E. apply in_map. exact Hx.
  - apply IH; assumption.
Qed.

Lemma node_at_self r t : IdsOK r -> In t (subtrees r) -> node_at r (tree_id t) = Some t.
Proof.
  intros I Ht. unfold node_at. rewrite nodes_of_subtrees. apply find_unique; [exact Ht|apply Nat.eqb_refl|].
  intros y Hy Hyid. apply Nat.eqb_eq in Hyid. eapply NoDup_map_inj; [apply (ids_nodup r I)|exact Hy|exact Ht|exact Hyid].
Qed.

(* ---------- the label walk ---------- *)
Lemma find_child_cons {A} lb x c r (k : tree -> option A) :
  find_child lb ((x, c) :: r) k = if Nat.eqb x lb then k c else find_child lb r k.
Proof. reflexivity. Qed.

Lemma find_child_rank {A} lb ch (k : tree -> option A) :
  find_child lb ch k =
  match label_rank lb (map fst ch) with
  | Some j => match nth_error ch j with Some (_, c) => k c | None => None end
  | None => None
  end.
Proof.
  induction ch as [|[x c] r IH]; [reflexivity|]. rewrite find_child_cons. cbn [map fst label_rank].
  destruct (Nat.eqb x lb); [reflexivity|]. rewrite IH.
  destruct (label_rank lb (map fst r)); reflexivity.
Qed.

Lemma label_rank_bound lb labels j : label_rank lb labels = Some j -> j < length labels.
Proof.
  revert j; induction labels as [|x r IH]; intros j; cbn [label_rank]; [discriminate|].
  destruct (Nat.eqb x lb); [intros H; inversion H; cbn; lia|].
  destruct (label_rank lb r) as [j'|]; [|discriminate]. intros H; inversion H; subst. specialize (IH j' eq_refl). cbn. lia.
Qed.

Lemma height_child id big step pfx fc ch x c :
  In (x, c) ch -> height c < height (Inner id big step pfx fc ch).
Proof.
  intros Hin. cbn [height].
  assert (forall l : list (nat * tree), In (x, c) l ->
            height c <= (fix go (ch0 : list (nat * tree)) : nat :=
                           match ch0 with [] => 0 | (_, c0) :: r => Nat.max (height c0) (go r) end) l) as H.
  { induction l as [|[y d] l IHl]; intros Hl; [destruct Hl|].
    destruct Hl as [E|Hl]; [inversion E; subst; lia|]. specialize (IHl Hl). lia. }
  specialize (H ch Hin). lia.
Qed.

(* ---------- simulation ---------- *)
Definition ids_of (x : option (tree * nat * bool)) : option (nat * nat * bool) :=
  match x with Some (c, i, v) => Some (tree_id c, i, v) | None => None end.

Lemma fdescend_sim r qn l : IdsOK r ->
  forall t, In t (subtrees r) -> forall fuel i, height t <= fuel ->
  fdescend fuel r qn l (tree_id t) i = Ok (ids_of (descend qn l t i)).
Proof.
  intros I. induction t as [id ord tail eidx|id big step pfx fc ch IH] using tree_ind'; intros Ht fuel i Hfuel.
  - destruct fuel as [|f]; [cbn in Hfuel; lia|]. cbn [fdescend]. rewrite (node_at_self r _ I Ht). reflexivity.
  - destruct fuel as [|f]; [cbn [height] in Hfuel; lia|]. cbn [fdescend].
    rewrite (node_at_self r _ I Ht). rewrite descend_inner.
    destruct (advance qn l i step pfx) as [i1|]; [|reflexivity].
    rewrite find_child_rank.
    destruct (label_rank (label_at big qn i1) (map fst ch)) as [j|] eqn:Er; [|reflexivity].
    pose proof (label_rank_bound _ _ _ Er) as Hj. rewrite map_length in Hj.
    destruct (nth_error ch j) as [[x c]|] eqn:En; [|apply nth_error_None in En; lia].
    (* the id of the j-th child *)
    pose proof (ids_children r I) as Hc. rewrite Forall_forall in Hc. specialize (Hc _ Ht). cbn [child_ids_ok] in Hc.
    assert (tree_id c = fc + j) as Hid.
    { assert (nth_error (map tree_id (map snd ch)) j = Some (tree_id c)) as H1
        by (rewrite !nth_error_map, En; reflexivity).
      rewrite Hc in H1. rewrite nth_error_nth' with (d := 0) in H1 by (rewrite seq_length; exact Hj).
      rewrite seq_nth in H1 by exact Hj. injection H1 as H1'. symmetry. exact H1'. }
    assert (In (x, c) ch) as Hin by (eapply nth_error_In; exact En).
    destruct (Nat.eqb i1 l); [cbn [ids_of]; rewrite Hid; reflexivity|].
    rewrite <- Hid. rewrite Forall_forall in IH. apply (IH _ Hin).
    + eapply subtrees_trans; [exact Ht|eapply subtree_child; exact Hin].
    + cbn [snd]. pose proof (height_child id big step pfx fc ch x c Hin). lia.
Qed.

(* GetID on ids = GetID on the tree *)
Theorem fgetid_getid o keys vals T q :
  build o keys vals = Ok T -> fgetid T q = Ok (getid T q).
Proof.
  intros Hb. unfold fgetid, getid, getid_node.
  destruct (t_root T) as [r|] eqn:Hr; [|reflexivity]. cbv zeta.
  pose proof (built_ids_ok o keys vals T r Hb Hr) as I.
  assert (tree_id r = 0) as Hid0.
  { destruct (built_bfs _ _ _ _ Hb r Hr) as (n & H). destruct n as [|n]; [cbn in H; discriminate|].
    destruct H as (H1 & _). cbn in H1. inversion H1. reflexivity. }
  pose proof (fdescend_sim r (nibs q) (length (nibs q)) I r (subtrees_self r) (S (height r)) 0 ltac:(lia)) as Hs.
  rewrite Hid0 in Hs. rewrite Hs. unfold bind.
  destruct (descend (nibs q) (length (nibs q)) r 0) as [[[c i] v]|] eqn:Ed; cbn [ids_of]; [|reflexivity].
  pose proof (descend_subtree _ _ _ _ _ _ _ Ed) as Hsub.
  destruct (t_leafpfx T); [|reflexivity].
  rewrite (node_at_self r c I Hsub).
  destruct (sess_tail c v) as [tail|].
  - destruct (Nat.eqb i (length (nibs q))); [reflexivity|]. destruct (bytes_eqb tail (skipn (i / 2) q)); reflexivity.
  - destruct (Nat.eqb i (length (nibs q))); reflexivity.
Qed.

(* ---------- searchID on ids ---------- *)
Definition oid (x : option tree) : option nat := option_map tree_id x.
Definition sres_ids (x : sres) : option nat * option (nat * nat * bool) * option nat :=
  let '(lc, eq, rc) := x in (oid lc, ids_of eq, oid rc).

Lemma search_go_rank lb lc rc k : forall ch prev,
  search_go lb lc rc k ch prev =
  let '(n, has) := label_rank_lt lb (map fst ch) in
  let lc' := match n with 0 => or_else prev lc | S m => option_map snd (nth_error ch m) end in
  if has then
    match nth_error ch n with
    | Some (_, c) => k c lc' (match nth_error ch (S n) with Some (_, c') => Some c' | None => rc end)
    | None => (lc', None, rc)
    end
  else (lc', None, match nth_error ch n with Some (_, c) => Some c | None => rc end).
Proof.
  induction ch as [|[x c] rest IH]; intros prev; [reflexivity|].
  cbn [search_go map fst label_rank_lt].
  destruct (x <? lb) eqn:Elt.
  - rewrite IH. destruct (label_rank_lt lb (map fst rest)) as [n has]. cbv zeta.
    destruct n as [|m]; cbn [nth_error option_map snd or_else]; reflexivity.
  - cbv zeta. cbn [nth_error]. destruct (Nat.eqb x lb); [|reflexivity].
    destruct rest as [|[y c'] rest']; reflexivity.
Qed.

Lemma label_rank_lt_le lb labels : fst (label_rank_lt lb labels) <= length labels.
Proof.
  induction labels as [|x r IH]; cbn [label_rank_lt]; [cbn; lia|].
  destruct (x <? lb); [|cbn; lia]. destruct (label_rank_lt lb r) as [n h]. cbn [fst length] in *. lia.
Qed.

Lemma label_rank_lt_has lb labels n : label_rank_lt lb labels = (n, true) -> n < length labels.
Proof.
  revert n; induction labels as [|x r IH]; intros n; cbn [label_rank_lt]; [discriminate|].
  destruct (x <? lb).
  - destruct (label_rank_lt lb r) as [m h]. intros H; inversion H; subst. specialize (IH m eq_refl). cbn. lia.
  - intros H; inversion H. cbn. lia.
Qed.

Lemma child_id r id big step pfx fc ch j x c :
  IdsOK r -> In (Inner id big step pfx fc ch) (subtrees r) -> nth_error ch j = Some (x, c) -> tree_id c = fc + j.
Proof.
  intros I Ht En.
  pose proof (ids_children r I) as Hc. rewrite Forall_forall in Hc. specialize (Hc _ Ht). cbn [child_ids_ok] in Hc.
  assert (j < length ch) as Hj by (apply nth_error_Some; rewrite En; discriminate).
  assert (nth_error (map tree_id (map snd ch)) j = Some (tree_id c)) as H1 by (rewrite !nth_error_map, En; reflexivity).
  rewrite Hc in H1. rewrite nth_error_nth' with (d := 0) in H1 by (rewrite seq_length; exact Hj).
  rewrite seq_nth in H1 by exact Hj. injection H1 as H1'. symmetry. exact H1'.
Qed.

Lemma fsearch_down_sim r qn l : IdsOK r ->
  forall t, In t (subtrees r) -> forall fuel i lc rc, height t <= fuel ->
  fsearch_down fuel r qn l (tree_id t) i (oid lc) (oid rc) = Ok (sres_ids (search_down qn l t i lc rc)).
Proof.
  intros I. induction t as [id ord tail eidx|id big step pfx fc ch IH] using tree_ind'; intros Ht fuel i lc rc Hfuel.
  - destruct fuel as [|f]; [cbn in Hfuel; lia|]. cbn [fsearch_down]. rewrite (node_at_self r _ I Ht). reflexivity.
  - destruct fuel as [|f]; [cbn [height] in Hfuel; lia|]. cbn [fsearch_down].
    rewrite (node_at_self r _ I Ht). rewrite search_down_inner.
    destruct (advance3 qn l i step pfx) as [i1| |]; try reflexivity.
    rewrite search_go_rank.
    pose proof (label_rank_lt_le (label_at big qn i1) (map fst ch)) as Hn.
    destruct (label_rank_lt (label_at big qn i1) (map fst ch)) as [n has] eqn:Er. cbv zeta. cbn [fst] in Hn. rewrite map_length in Hn.
    (* the left candidate *)
    assert (oid (match n with 0 => or_else None lc | S m => option_map snd (nth_error ch m) end) =
            (if 0 <? n then Some (fc + n - 1) else oid lc)) as HL.
    { destruct n as [|m]; [reflexivity|]. cbn [Nat.ltb Nat.leb].
      destruct (nth_error ch m) as [[y d]|] eqn:Em; [|apply nth_error_None in Em; lia].
      cbn [option_map snd oid]. rewrite (child_id r _ _ _ _ _ _ _ _ _ I Ht Em). f_equal. lia. }
    destruct has.
    + pose proof (label_rank_lt_has _ _ _ Er) as Hlt. rewrite map_length in Hlt.
      destruct (nth_error ch n) as [[x c]|] eqn:En; [|apply nth_error_None in En; lia].
      pose proof (child_id r _ _ _ _ _ _ _ _ _ I Ht En) as Hcid.
      assert (oid (match nth_error ch (S n) with Some (_, c') => Some c' | None => rc end) =
              (if fc + n + 1 <? fc + length ch then Some (fc + n + 1) else oid rc)) as HR.
      { destruct (nth_error ch (S n)) as [[y d]|] eqn:Es.
        - assert (S n < length ch) by (apply nth_error_Some; rewrite Es; discriminate).
          destruct (Nat.ltb_spec (fc + n + 1) (fc + length ch)); [|lia].
          cbn [oid option_map]. rewrite (child_id r _ _ _ _ _ _ _ _ _ I Ht Es). f_equal. lia.
        - apply nth_error_None in Es. destruct (Nat.ltb_spec (fc + n + 1) (fc + length ch)); [lia|reflexivity]. }
      rewrite <- HL, <- HR. clear HL HR.
      destruct (Nat.eqb i1 l).
      * cbn [sres_ids ids_of]. rewrite Hcid. reflexivity.
      * rewrite <- Hcid. rewrite Forall_forall in IH.
        assert (In (x, c) ch) as Hin by (eapply nth_error_In; exact En).
        apply (IH _ Hin).
        -- eapply subtrees_trans; [exact Ht|eapply subtree_child; exact Hin].
        -- cbn [snd]. pose proof (height_child id big step pfx fc ch x c Hin). lia.
    + rewrite <- HL. cbn [sres_ids ids_of]. f_equal.
      destruct (nth_error ch n) as [[x c]|] eqn:En.
      * assert (n < length ch) by (apply nth_error_Some; rewrite En; discriminate).
        destruct (Nat.ltb_spec (fc + n) (fc + length ch)); [|lia].
        cbn [oid option_map]. rewrite (child_id r _ _ _ _ _ _ _ _ _ I Ht En). reflexivity.
      * apply nth_error_None in En. destruct (Nat.ltb_spec (fc + n) (fc + length ch)); [lia|reflexivity].
Qed.

Lemma fleftmost_sim r : IdsOK r -> forall t, In t (subtrees r) -> has_kids t ->
  forall fuel, height t <= fuel -> fleftmost fuel r (tree_id t) = Ok (tree_id (leftmost t)).
Proof.
  intros I. induction t as [id ord tail eidx|id big step pfx fc ch IH] using tree_ind'; intros Ht Hk fuel Hfuel.
  - destruct fuel as [|f]; [cbn in Hfuel; lia|]. cbn [fleftmost]. rewrite (node_at_self r _ I Ht). reflexivity.
  - destruct fuel as [|f]; [cbn [height] in Hfuel; lia|]. cbn [fleftmost]. rewrite (node_at_self r _ I Ht).
    apply has_kids_inner in Hk. destruct Hk as [Hne Hkc].
    destruct ch as [|[x c] rest]; [congruence|]. cbn [leftmost].
    assert (nth_error ((x, c) :: rest) 0 = Some (x, c)) as En by reflexivity.
    pose proof (child_id r _ _ _ _ _ _ _ _ _ I Ht En) as Hcid. rewrite Nat.add_0_r in Hcid. rewrite <- Hcid.
    rewrite Forall_forall in IH, Hkc.
    assert (In (x, c) ((x, c) :: rest)) as Hin by (left; reflexivity).
    apply (IH _ Hin); [eapply subtrees_trans; [exact Ht|eapply subtree_child; exact Hin]|apply (Hkc _ Hin)|].
    cbn [snd]. pose proof (height_child id big step pfx fc ((x, c) :: rest) x c Hin). lia.
Qed.

Lemma frightmost_sim r : IdsOK r -> forall t, In t (subtrees r) -> has_kids t ->
  forall fuel, height t <= fuel -> frightmost fuel r (tree_id t) = Ok (tree_id (rightmost t)).
Proof.
  intros I. induction t as [id ord tail eidx|id big step pfx fc ch IH] using tree_ind'; intros Ht Hk fuel Hfuel.
  - destruct fuel as [|f]; [cbn in Hfuel; lia|]. cbn [frightmost]. rewrite (node_at_self r _ I Ht). reflexivity.
  - destruct fuel as [|f]; [cbn [height] in Hfuel; lia|]. cbn [frightmost]. rewrite (node_at_self r _ I Ht).
    apply has_kids_inner in Hk. destruct Hk as [Hne Hkc].
    destruct (exists_last Hne) as (ch' & [x c] & Ech). subst ch.
    rewrite rightmost_inner.
    assert (nth_error (ch' ++ [(x, c)]) (length ch') = Some (x, c)) as En
      by (rewrite nth_error_app2, Nat.sub_diag by lia; reflexivity).
    pose proof (child_id r _ _ _ _ _ _ _ _ _ I Ht En) as Hcid.
    rewrite app_length. cbn [length]. replace (fc + (length ch' + 1) - 1) with (fc + length ch') by lia. rewrite <- Hcid.
    assert (In (x, c) (ch' ++ [(x, c)])) as Hin by (apply in_or_app; right; left; reflexivity).
    rewrite Forall_forall in IH, Hkc.
    apply (IH _ Hin); [eapply subtrees_trans; [exact Ht|eapply subtree_child; exact Hin]|apply (Hkc _ Hin)|].
    cbn [snd]. pose proof (height_child id big step pfx fc _ x c Hin). lia.
Qed.

Lemma height_sub : forall t c, In c (subtrees t) -> height c <= height t.
Proof.
  induction t as [id ord tail eidx|id big step pfx fc ch IH] using tree_ind'; intros c Hc.
  - destruct Hc as [<-|[]]. lia.
  - rewrite subtrees_inner in Hc. destruct Hc as [<-|Hc]; [lia|].
    apply in_flat_map in Hc. destruct Hc as ([x d] & Hd & Hc). cbn [snd] in Hc.
    rewrite Forall_forall in IH. specialize (IH _ Hd c Hc). cbn [snd] in IH.
    pose proof (height_child id big step pfx fc ch x d Hd). lia.
Qed.

(* searchID on ids = searchID on the tree *)
Theorem fsearchid_searchid o keys vals T q :
  build o keys vals = Ok T ->
  fsearchid T q = Ok (let '(l, e, rr) := searchid T q in (oid l, oid e, oid rr)).
Proof.
  intros Hb. unfold fsearchid, searchid.
  destruct (t_root T) as [r|] eqn:Hr; [|reflexivity]. cbv zeta.
  pose proof (built_ids_ok o keys vals T r Hb Hr) as I.
  destruct (build_ok _ _ _ _ Hb) as [[_ ->]|(r' & lidx & B)]; [discriminate|].
  assert (r' = r) as -> by (pose proof (bt_root _ _ _ _ _ _ B) as H; rewrite Hr in H; inversion H; reflexivity).
  pose proof (root_inv o keys vals (bt_sorted _ _ _ _ _ _ B) (bt_nonempty _ _ _ _ _ _ B)) as SI.
  pose proof (trie_of_has_kids o r _ (bt_trie _ _ _ _ _ _ B) SI) as Hk.
  assert (tree_id r = 0) as Hid0.
  { destruct (built_bfs _ _ _ _ Hb r Hr) as (n & H). destruct n as [|n]; [cbn in H; discriminate|].
    destruct H as (H1 & _). cbn in H1. inversion H1. reflexivity. }
  pose proof (fsearch_down_sim r (nibs q) (length (nibs q)) I r (subtrees_self r) (S (height r)) 0 None None ltac:(lia)) as Hs.
  rewrite Hid0 in Hs. cbn [oid option_map] in Hs. rewrite Hs. unfold bind.
  pose proof (search_down_from (nibs q) (length (nibs q)) r 0 None None) as [Hf1 Hf2].
  pose proof (search_down_seq o q r _ (bt_trie _ _ _ _ _ _ B) SI (Nat.le_0_l _) None None) as Hseq.
  change (s_from (root_subset o keys vals)) with 0 in Hseq.
  destruct (search_down (nibs q) (length (nibs q)) r 0 None None) as [[lc eq] rc] eqn:Esd.
  unfold seq in Hseq. cbn [fst snd] in Hf1, Hf2, Hseq. cbn [sres_ids].
  (* the two outer candidates *)
  assert (forall m, In m (subtrees r) -> frightmost (S (height r)) r (tree_id m) = Ok (tree_id (rightmost m))) as HRm.
  { intros m Hx. rewrite (frightmost_sim r I m Hx (has_kids_sub r m Hk Hx)); [reflexivity|]. pose proof (height_sub r m Hx). lia. }
  assert (forall m, In m (subtrees r) -> fleftmost (S (height r)) r (tree_id m) = Ok (tree_id (leftmost m))) as HLm.
  { intros m Hx. rewrite (fleftmost_sim r I m Hx (has_kids_sub r m Hk Hx)); [reflexivity|]. pose proof (height_sub r m Hx). lia. }
  assert (forall x, from_tree r None x -> match x with Some m => In m (subtrees r) | None => True end) as Hin.
  { intros [m|] H; [cbn in H; destruct H as [H|H]; [discriminate|exact H]|exact Logic.I]. }
  pose proof (Hin lc Hf1) as Hlc. pose proof (Hin rc Hf2) as Hrc.
  destruct eq as [[[c i] v]|]; cbn [ids_of].
  - assert (In c (subtrees r)) as Hc by (eapply descend_subtree; symmetry; exact Hseq).
    destruct (i <=? length (nibs q)).
    + rewrite (node_at_self r c I Hc).
      destruct (if t_leafpfx T then bytes_cmp (skipn (i / 2) q) match sess_tail c v with Some t => t | None => [] end else Eq);
        destruct lc as [ml|], rc as [mr|]; cbn [oid option_map]; rewrite ?HRm, ?HLm by assumption; reflexivity.
    + destruct lc as [ml|], rc as [mr|]; cbn [oid option_map]; rewrite ?HRm, ?HLm by assumption; reflexivity.
  - destruct lc as [ml|], rc as [mr|]; cbn [oid option_map]; rewrite ?HRm, ?HLm by assumption; reflexivity.
Qed.
