(* ScanIdProofs.v - the breadth-first node ids of a built tree: the j-th child of
   an inner node has id [fc + j] (newIter recovers the label index of a path
   element as childId - firstChildId). *)
From Slim Require Import Base Keys KeysProofs ListFacts Model TrieInv BuildProofs.

Definition kids_ids (fc : nat) (ch : list (nat * tree)) : Prop :=
  forall j lb c, nth_error ch j = Some (lb, c) -> tree_id c = fc + j.

Fixpoint ids_ok (t : tree) : Prop :=
  match t with
  | Leaf _ _ _ _ => True
  | Inner _ _ _ _ fc ch =>
      kids_ids fc ch /\
      (fix all (ch : list (nat * tree)) : Prop :=
         match ch with [] => True | (_, c) :: r => ids_ok c /\ all r end) ch
  end.

Lemma ids_ok_inner id big step pfx fc ch :
  ids_ok (Inner id big step pfx fc ch) <-> kids_ids fc ch /\ Forall (fun p => ids_ok (snd p)) ch.
Proof.
  cbn [ids_ok]. split; intros [H1 H2]; split; try exact H1.
  - clear H1. induction ch as [|[x c] r IH]; constructor; [cbn in *; tauto|]. apply IH. cbn in H2. tauto.
  - clear H1. induction H2 as [|[x c] r Hc _ IH]; [exact I|]. split; [exact Hc|exact IH].
Qed.

Lemma skipn_seq' n : forall a len, skipn n (seq a len) = seq (a + n) (len - n).
Proof.
  induction n as [|n IH]; intros a len; [rewrite Nat.add_0_r, Nat.sub_0_r; reflexivity|].
  destruct len as [|len]; [reflexivity|]. cbn [seq skipn]. rewrite IH. f_equal; lia.
Qed.

Lemma nth_error_combine_r {A B} (l : list A) (m : list B) j a b :
  nth_error (combine l m) j = Some (a, b) -> nth_error m j = Some b.
Proof.
  revert m j; induction l as [|x l IH]; intros [|y m] [|j] H; cbn in *; try discriminate.
  - inversion H; reflexivity.
  - eapply IH; exact H.
Qed.

Lemma nth_error_firstn_some {A} n (l : list A) j x : nth_error (firstn n l) j = Some x -> nth_error l j = Some x.
Proof.
  revert l j; induction n as [|n IH]; intros [|y l] [|j] H; cbn in *; try discriminate; [exact H|].
  apply IH; exact H.
Qed.

Lemma ids_seq_nth forest cid j c :
  map tree_id forest = seq cid (length forest) -> nth_error forest j = Some c -> tree_id c = cid + j.
Proof.
  intros Hm Hn.
  assert (nth_error (map tree_id forest) j = Some (tree_id c)) as H by (rewrite nth_error_map, Hn; reflexivity).
  rewrite Hm in H.
  assert (j < length forest) as Hj by (apply nth_error_Some; rewrite Hn; discriminate).
  rewrite (nth_error_nth' _ 0) in H by (rewrite seq_length; exact Hj).
  rewrite seq_nth in H by exact Hj. inversion H; reflexivity.
Qed.

Lemma assemble_length : forall ds id cid lord forest, length (assemble ds id cid lord forest) = length ds.
Proof.
  induction ds as [|d ds IH]; intros; [reflexivity|].
  destruct d; cbn [assemble length]; rewrite IH; reflexivity.
Qed.

Lemma assemble_ids : forall ds id cid lord forest,
  map tree_id forest = seq cid (length forest) -> Forall ids_ok forest ->
  map tree_id (assemble ds id cid lord forest) = seq id (length ds) /\
  Forall ids_ok (assemble ds id cid lord forest).
Proof.
  induction ds as [|d ds IH]; intros id cid lord forest Hm Hf; [split; [reflexivity|constructor]|].
  destruct d as [tail eidx|big step pfx labels kids]; cbn [assemble length seq map].
  - destruct (IH (S id) cid (S lord) forest Hm Hf) as [H1 H2].
    split; [cbn [tree_id]; rewrite H1; reflexivity|constructor; [exact I|exact H2]].
  - set (n := length kids).
    assert (map tree_id (skipn n forest) = seq (cid + n) (length (skipn n forest))) as Hm'.
    { rewrite <- skipn_map, Hm, skipn_seq', skipn_length. reflexivity. }
    assert (Forall ids_ok (skipn n forest)) as Hf'.
    { rewrite Forall_forall in *. intros t Ht. apply Hf. eapply In_skipn_in; exact Ht. }
    destruct (IH (S id) (cid + n) lord (skipn n forest) Hm' Hf') as [H1 H2].
    split; [cbn [tree_id]; rewrite H1; reflexivity|].
    constructor; [|exact H2].
    apply ids_ok_inner. split.
    + intros j lb c Hj. apply nth_error_combine_r in Hj. apply nth_error_firstn_some in Hj.
      eapply ids_seq_nth; eassumption.
    + rewrite Forall_forall. intros [x c] Hin. cbn [snd]. apply in_combine_r in Hin.
      apply In_firstn_in in Hin. rewrite Forall_forall in Hf. auto.
Qed.

Lemma build_levels_ids o : forall fuel isbig base lbase ss forest lidx,
  build_levels fuel o isbig base lbase ss = Ok (forest, lidx) ->
  map tree_id forest = seq base (length forest) /\ Forall ids_ok forest.
Proof.
  induction fuel as [|f IH]; intros isbig base lbase ss forest lidx H.
  - destruct ss; cbn in H; [|discriminate]. inversion H; subst. split; [reflexivity|constructor].
  - destruct ss as [|s0 ss0]; [cbn in H; inversion H; subst; split; [reflexivity|constructor]|].
    remember (s0 :: ss0) as ss eqn:Ess.
    assert (build_levels (S f) o isbig base lbase ss =
            (do (ds, b) <- process_level o isbig ss;
             let lidx := flat_map leaf_idx_of ds in
             let cbase := base + length ss in
             do (forest, lidx') <- build_levels f o b cbase (lbase + length lidx) (flat_map kids_of ds);
             Ok (assemble ds base cbase lbase forest, lidx ++ lidx'))) as Hunf.
    { rewrite Ess. reflexivity. }
    rewrite Hunf in H. clear Hunf. unfold bind in H.
    destruct (process_level o isbig ss) as [[ds b]|] eqn:E1; [|discriminate].
    cbv zeta in H.
    destruct (build_levels f o b (base + length ss) (lbase + length (flat_map leaf_idx_of ds)) (flat_map kids_of ds))
      as [[forest' lidx']|] eqn:E2; [|discriminate].
    inversion H; subst forest lidx. clear H.
    destruct (IH _ _ _ _ _ _ E2) as [Hm Hf].
    destruct (assemble_ids ds base (base + length ss) lbase forest' Hm Hf) as [H1 H2].
    split; [|exact H2]. rewrite H1, assemble_length. reflexivity.
Qed.

Lemma built_ids o keys vals T :
  build o keys vals = Ok T -> forall r, t_root T = Some r -> ids_ok r.
Proof.
  destruct keys as [|k0 kr]; [intros H; inversion H; subst; cbn; discriminate|].
  rewrite build_unfold by discriminate.
  destruct (check_order (k0 :: kr)) as [i|]; [discriminate|].
  cbv zeta. unfold bind.
  destruct (build_levels _ o true 0 0 _) as [[forest lidx]|] eqn:Eb; [|discriminate].
  destruct forest as [|r0 [|r2 rest]]; try discriminate.
  intros H r Hr. inversion H; subst T. cbn in Hr. inversion Hr; subst r0.
  apply build_levels_ids in Eb. destruct Eb as [_ Hf]. inversion Hf; assumption.
Qed.
