(* ScanBasicProofs.v - C04, the clauses that need no trie invariant:
   refusal on incomplete tries, the empty trie, exhaustion is absorbing, and the
   callback semantics of ScanFrom / ScanFromTo relative to the iterator. *)
From Slim Require Import Base Keys KeysProofs ListFacts Model TrieInv BuildProofs Scan.

(* ---------- (a) refusal ---------- *)
Definition complete_opts (o : opts) : bool := o_inner o && o_leaf o.

Lemma refuse_built o keys vals T r lidx s incl withv :
  Built o keys vals T r lidx -> complete_opts o = false ->
  iter_init T s incl withv = Err (EPanic 20).
Proof.
  intros B Hc. unfold iter_init, ge_path.
  rewrite (bt_root _ _ _ _ _ _ B), (bt_innerpfx _ _ _ _ _ _ B), (bt_leafpfx _ _ _ _ _ _ B).
  unfold complete_opts in Hc. rewrite Hc. reflexivity.
Qed.

Theorem scan_refuses o keys vals T :
  build o keys vals = Ok T -> keys <> [] -> complete_opts o = false ->
  forall s incl withv,
    iter_init T s incl withv = Err (EPanic 20) /\
    (forall fn, scan_from T s incl withv fn = Err (EPanic 20)) /\
    (forall e incle fn, scan_from_to T s incl e incle withv fn = Err (EPanic 20)).
Proof.
  intros Hb Hne Hc s incl withv.
  destruct (build_ok _ _ _ _ Hb) as [[-> _]|(r & lidx & B)]; [congruence|].
  pose proof (refuse_built o keys vals T r lidx s incl withv B Hc) as H.
  split; [exact H|]. split; intros; unfold scan_from, scan_from_to; rewrite H; reflexivity.
Qed.

(* the empty trie: no panic, nothing is yielded, under every option combination *)
Definition empty_iter (withv : bool) : iter :=
  {| it_mode := MNormal; it_stack := []; it_buf := []; it_withv := withv |}.

Theorem scan_empty o vals T :
  build o [] vals = Ok T ->
  forall s incl withv,
    iter_init T s incl withv = Ok (empty_iter withv) /\
    iter_next T (empty_iter withv) = Ok (None, empty_iter withv) /\
    (forall fn, scan_from T s incl withv fn = Ok []) /\
    (forall e incle fn, scan_from_to T s incl e incle withv fn = Ok []).
Proof.
  intros Hb s incl withv. cbn in Hb. inversion Hb; subst T. repeat split.
Qed.

(* ---------- (b) exhaustion is absorbing ---------- *)
Lemma bind_ok {A B} (r : res A) (f : A -> res B) b :
  bind r f = Ok b -> exists a, r = Ok a /\ f a = Ok b.
Proof. destruct r as [a|e]; cbn; [eauto|discriminate]. Qed.

Theorem exhaustion_absorbing T it it' :
  iter_next T it = Ok (None, it') -> it' = it /\ iter_next T it' = Ok (None, it').
Proof.
  intros H. assert (it' = it) as ->; [|split; [reflexivity|exact H]].
  unfold iter_next in H. destruct (it_mode it) as [|c consumed].
  - destruct (it_stack it) as [|top rest]; [inversion H; reflexivity|].
    apply bind_ok in H. destruct H as (buf1 & _ & H).
    destruct (nth_error (f_ch top) (f_idx top)) as [[lb c]|]; [|discriminate].
    apply bind_ok in H. destruct H as ([sb leaf] & _ & H).
    apply bind_ok in H. destruct H as (k & _ & H).
    apply bind_ok in H. destruct H as (v & _ & H). discriminate.
  - destruct consumed; [inversion H; reflexivity|].
    destruct c; [|discriminate].
    apply bind_ok in H. destruct H as (k & _ & H).
    apply bind_ok in H. destruct H as (v & _ & H). discriminate.
Qed.

(* after the first nil every further call returns nil *)
Lemma run_after_exhaustion T it it' n :
  iter_next T it = Ok (None, it') -> iter_run n T it' = Ok (repeat None n).
Proof.
  intros H. destruct (exhaustion_absorbing _ _ _ H) as [-> H'].
  induction n as [|n IH]; [reflexivity|]. cbn [iter_run repeat]. rewrite H'. cbn [bind]. rewrite IH. reflexivity.
Qed.

(* ---------- (c) callbacks ---------- *)
(* what a callback sees of a sequence: everything up to and including the first
   element it answers false on *)
Fixpoint cut (fn : callback) (i : nat) (xs : list kv) : list kv :=
  match xs with
  | [] => []
  | x :: r => if fn i x then x :: cut fn (S i) r else [x]
  end.

(* the same behind the end bound of ScanFromTo, which is tested first *)
Fixpoint cut_to (e : key) (incle : bool) (fn : callback) (i : nat) (xs : list kv) : list kv :=
  match xs with
  | [] => []
  | x :: r => if beyond e incle (fst x) then []
              else if fn i x then x :: cut_to e incle fn (S i) r else [x]
  end.

Fixpoint deliver (wrap : nat -> kv -> bool * bool) (i : nat) (xs : list kv) : list kv :=
  match xs with
  | [] => []
  | x :: r =>
      let '(cont, d) := wrap i x in
      if cont then (if d then x :: deliver wrap (S i) r else deliver wrap (S i) r)
      else (if d then [x] else [])
  end.

Lemma scan_loop_drain T wrap : forall fuel it i xs it',
  iter_drain fuel T it = Ok (xs, it') ->
  scan_loop fuel T it wrap i = Ok (deliver wrap i xs).
Proof.
  induction fuel as [|f IH]; intros it i xs it' H; [discriminate|].
  cbn [iter_drain scan_loop] in *.
  destruct (iter_next T it) as [[r it1]|e]; cbn [bind] in *; [|discriminate].
  destruct r as [x|].
  - destruct (iter_drain f T it1) as [[xs1 it2]|e] eqn:Ed; cbn [bind] in H; [|discriminate].
    inversion H; subst xs it'. cbn [deliver]. destruct (wrap i x) as [cont d].
    destruct cont; [|reflexivity]. rewrite (IH _ (S i) _ _ Ed). cbn [bind]. reflexivity.
  - inversion H; subst. reflexivity.
Qed.

Lemma deliver_cut fn : forall xs i, deliver (fun i x => (fn i x, true)) i xs = cut fn i xs.
Proof. induction xs as [|x r IH]; intros i; cbn; [reflexivity|]. rewrite IH. reflexivity. Qed.

Lemma deliver_cut_to e incle fn : forall xs i,
  deliver (fun i x => if beyond e incle (fst x) then (false, false) else (fn i x, true)) i xs = cut_to e incle fn i xs.
Proof.
  induction xs as [|x r IH]; intros i; cbn [deliver cut_to]; [reflexivity|].
  destruct (beyond e incle (fst x)); [reflexivity|]. rewrite IH. reflexivity.
Qed.

(* ScanFrom / ScanFromTo deliver what the callback semantics cuts out of the
   sequence of pairs the iterator (NewIter) started at the same place yields *)
Theorem scan_callback_semantics T s incl withv it xs it' :
  iter_init T s incl withv = Ok it ->
  iter_drain (scan_fuel T) T it = Ok (xs, it') ->
  (forall fn, scan_from T s incl withv fn = Ok (cut fn 0 xs)) /\
  (forall e incle fn, scan_from_to T s incl e incle withv fn = Ok (cut_to e incle fn 0 xs)).
Proof.
  intros Hi Hd. split; intros; unfold scan_from, scan_from_to; rewrite Hi; cbn [bind];
    rewrite (scan_loop_drain _ _ _ _ _ _ _ Hd); f_equal; [apply deliver_cut|apply deliver_cut_to].
Qed.

(* readable consequences of [cut] / [cut_to] *)
Lemma cut_prefix fn : forall xs i, exists n, cut fn i xs = firstn n xs.
Proof.
  induction xs as [|x r IH]; intros i; [exists 0; reflexivity|]. cbn [cut].
  destruct (fn i x).
  - destruct (IH (S i)) as (n & Hn). exists (S n). cbn. rewrite Hn. reflexivity.
  - exists 1. reflexivity.
Qed.

(* the callback is not invoked again after it returned false: every delivered
   pair but the last was answered true *)
Lemma cut_stops fn : forall xs i pre x post,
  cut fn i xs = pre ++ x :: post -> post <> [] -> fn (i + length pre) x = true.
Proof.
  induction xs as [|y r IH]; intros i pre x post H Hne; cbn [cut] in H.
  - destruct pre; discriminate.
  - destruct (fn i y) eqn:E.
    + destruct pre as [|p pre'].
      * cbn in H. inversion H; subst. rewrite Nat.add_0_r. exact E.
      * cbn in H. inversion H; subst p. cbn [length]. replace (i + S (length pre')) with (S i + length pre') by lia.
        eapply IH; eassumption.
    + destruct pre as [|p [|q pre']]; cbn in H; inversion H; subst; congruence.
Qed.

(* it goes on as long as the callback answers true: a proper prefix ends with a false answer *)
Lemma cut_complete fn : forall xs i,
  cut fn i xs = xs \/ exists pre x, cut fn i xs = pre ++ [x] /\ fn (i + length pre) x = false.
Proof.
  induction xs as [|y r IH]; intros i; [left; reflexivity|]. cbn [cut].
  destruct (fn i y) eqn:E.
  - destruct (IH (S i)) as [H|(pre & x & H & Hf)].
    + left. rewrite H. reflexivity.
    + right. exists (y :: pre), x. rewrite H. split; [reflexivity|]. cbn [length].
      replace (i + S (length pre)) with (S i + length pre) by lia. exact Hf.
  - right. exists [], y. split; [reflexivity|]. rewrite Nat.add_0_r. exact E.
Qed.

Lemma cut_to_prefix e incle fn : forall xs i, exists n, cut_to e incle fn i xs = firstn n xs.
Proof.
  induction xs as [|x r IH]; intros i; [exists 0; reflexivity|]. cbn [cut_to].
  destruct (beyond e incle (fst x)); [exists 0; reflexivity|].
  destruct (fn i x).
  - destruct (IH (S i)) as (n & Hn). exists (S n). cbn. rewrite Hn. reflexivity.
  - exists 1. reflexivity.
Qed.

(* no pair beyond the end bound is ever delivered *)
Lemma cut_to_within e incle fn : forall xs i,
  Forall (fun x => beyond e incle (fst x) = false) (cut_to e incle fn i xs).
Proof.
  induction xs as [|x r IH]; intros i; cbn [cut_to]; [constructor|].
  destruct (beyond e incle (fst x)) eqn:E; [constructor|].
  destruct (fn i x); constructor; auto.
Qed.

(* and the scan goes up to the bound unless the callback stops it: when every
   answer is true the delivered pairs are exactly the ones before the first
   pair beyond the bound *)
Lemma cut_to_all e incle fn : (forall i x, fn i x = true) ->
  forall xs i, cut_to e incle fn i xs = take_while (fun x => negb (beyond e incle (fst x))) xs.
Proof.
  intros Hf. induction xs as [|x r IH]; intros i; cbn [cut_to take_while]; [reflexivity|].
  destruct (beyond e incle (fst x)); cbn [negb]; [reflexivity|]. rewrite Hf, IH. reflexivity.
Qed.
