(* EndToEndProofs.v - a trie built from any accepted input, marshalled and loaded into an
   instance in ANY prior state after ANY history, answers GetID / Get / searchID exactly as
   the tree model does; a load that leaves the empty message answers as empty. *)
From Coq Require Import List NArith ZArith Bool Lia.
From Coq.Strings Require Import Byte.
From Slim Require Import Base Keys Model BitmapRank Flat FlatProofs Msg MsgProofs.
From Slim Require Bits.
From Slim Require Import Varint Proto Semver Frame Instance Wire WireProofs EndToEnd.
Import ListNotations.

Lemma map_to_of (l : list N) : map Z.to_N (map Z.of_N l) = l.
Proof. induction l as [|a l IH]; [reflexivity|]. cbn [map]. rewrite N2Z.id, IH. reflexivity. Qed.

Lemma bm_of_to b : bm_of_wire (bm_to_wire b) = b.
Proof. destruct b. unfold bm_of_wire, bm_to_wire. cbn. rewrite !map_to_of. reflexivity. Qed.

Lemma obm_of_to b : option_map bm_of_wire (option_map bm_to_wire b) = b.
Proof. destruct b as [b|]; [cbn [option_map]; rewrite bm_of_to|]; reflexivity. Qed.

Lemma vl_of_to v : vl_of_wire (vl_to_wire v) = v.
Proof. destruct v. unfold vl_of_wire, vl_to_wire. cbn. rewrite !N2Z.id, !obm_of_to. reflexivity. Qed.

Lemma ovl_of_to v : option_map vl_of_wire (option_map vl_to_wire v) = v.
Proof. destruct v as [v|]; [cbn [option_map]; rewrite vl_of_to|]; reflexivity. Qed.

Lemma of_to_wire m : of_wire (to_wire m) = m.
Proof. destruct m. unfold of_wire, to_wire. cbn. rewrite !N2Z.id, !obm_of_to, !ovl_of_to. reflexivity. Qed.

Lemma of_wire_empty : of_wire empty_slim = Bits.empty_msg.
Proof. reflexivity. Qed.

Section E2E.
  Variable Levels : Type.
  Variable init_levels : slim -> Levels.
  Variable reset_levels : Levels.
  Variable conv510 : slim -> slim.
  Variable conv3 : list byte -> list byte -> list byte -> slim.
  Local Notation run := (Instance.run compat_gen cur_gen VarsT Levels ivars init_levels reset_levels conv510 conv3).
  Local Notation installed := (Instance.installed VarsT Levels ivars init_levels).

  (* on a message with NodeTypeBM the queries of Msg.v are what with_msg runs; without it
     they answer "empty" themselves *)
  Lemma with_installed {A} m vs (empty : A) f : Bits.init_vars m = Val vs ->
    (Bits.m_nodetype m = None -> f m vs = Ok empty) ->
    with_msg Levels (installed (to_wire m)) empty f = f m vs.
  Proof.
    intros Ev He. unfold with_msg, Instance.installed, ivars. cbn [i_inner i_vars]. rewrite of_to_wire, Ev.
    destruct (Bits.m_nodetype m) eqn:E; [reflexivity|]. symmetry. apply He. reflexivity.
  Qed.

  (* Build, Marshal, then Unmarshal into an instance in any state after any history of
     Unmarshal / Reset calls: every GetID, Get and searchID answer is the tree model's *)
  Theorem loaded_answers o keys vals T m vs s (st : inst VarsT Levels) h q fuel :
    build o keys vals = Ok T -> Bits.encode_trie T = Val m -> Bits.init_vars m = Val vs ->
    wf_msg (to_wire m) = true -> marshal_gen (to_wire m) = Some s ->
    (trie_height T <= fuel)%nat ->
    let st' := run st (h ++ [OpUnmarshal s]) in
    inst_getid Levels st' (S fuel) q = Ok (getid T q) /\
    inst_get Levels st' (S fuel) q = get T q /\
    inst_searchid Levels st' (S fuel) q = Ok (let '(l, e, rr) := searchid T q in (oid l, oid e, oid rr)).
  Proof.
    intros Hb Em Ev Hwf Hm Hf st'.
    assert (st' = installed (to_wire m)) as ->
      by (apply (no_residue_marshal_gen VarsT Levels ivars init_levels reset_levels conv510 conv3 h st _ _ Hwf Hm)).
    unfold inst_getid, inst_get, inst_searchid.
    rewrite !(with_installed m vs) by (try exact Ev; intros E; unfold mgetid, mget, msearchid, mgetid; rewrite E; reflexivity).
    split; [exact (mgetid_getid o keys vals T m vs q fuel Hb Em Ev Hf)|].
    split; [exact (mget_get o keys vals T m vs q fuel Hb Em Ev Hf)|].
    exact (msearchid_searchid o keys vals T m vs q fuel Hb Em Ev Hf).
  Qed.

  (* ... and Search / RangeGet (the values of the searchID triple) *)
  Theorem loaded_answers_values o keys vals T m vs s (st : inst VarsT Levels) h q fuel :
    build o keys vals = Ok T -> Bits.encode_trie T = Val m -> Bits.init_vars m = Val vs ->
    wf_msg (to_wire m) = true -> marshal_gen (to_wire m) = Some s ->
    (trie_height T <= fuel)%nat ->
    let st' := run st (h ++ [OpUnmarshal s]) in
    inst_search Levels st' (S fuel) q = search T q /\
    inst_rangeget Levels st' (S fuel) q = rangeget T q.
  Proof.
    intros Hb Em Ev Hwf Hm Hf st'.
    assert (st' = installed (to_wire m)) as ->
      by (apply (no_residue_marshal_gen VarsT Levels ivars init_levels reset_levels conv510 conv3 h st _ _ Hwf Hm)).
    unfold inst_search, inst_rangeget.
    rewrite !(with_installed m vs) by (try exact Ev; intros E; unfold msearch, mrangeget, msearchid; rewrite E; reflexivity).
    split; [exact (msearch_search o keys vals T m vs q fuel Hb Em Ev Hf)|exact (mrangeget_rangeget o keys vals T m vs q fuel Hb Em Ev Hf)].
  Qed.

  Theorem emptied_answers_values (st st' : inst VarsT Levels) q fuel :
    emptied VarsT Levels st st' ->
    inst_search Levels st' fuel q = Ok (None, None, None) /\ inst_rangeget Levels st' fuel q = Ok NotFound.
  Proof. intros (Hi & _ & _). unfold inst_search, inst_rangeget, with_msg. rewrite Hi. split; reflexivity. Qed.

  (* an instance whose inner message is the empty one answers as the empty trie, whatever
     (stale or nil) vars and levels it still holds: the state C07's rejected loads leave *)
  Theorem emptied_answers (st st' : inst VarsT Levels) q fuel :
    emptied VarsT Levels st st' ->
    inst_getid Levels st' fuel q = Ok None /\
    inst_get Levels st' fuel q = Ok NotFound /\
    inst_searchid Levels st' fuel q = Ok (None, None, None).
  Proof.
    intros (Hi & _ & _). unfold inst_getid, inst_get, inst_searchid, with_msg. rewrite Hi. repeat split.
  Qed.
End E2E.
