(* LegacyBytesMainProofs.v - the stream level of LegacyBytes.v and the composition:
   bytes -> three sections (FrameProofs) -> three array.Array32 messages (ArrWireProofs)
   -> old node table (LegacyBytesProofs) -> before000510ToNewChildrenArray
   (LegacyBytesConvProofs + LegacyConvMainProofs.legacy_conversion) -> the node view and
   leaves of Model.build_gen false legacy_opts. *)
From Coq Require Import List Arith Bool NArith ZArith Lia.
From Coq Require Import ZifyN ZifyNat ZifyBool.
From Coq.Strings Require Import Byte.
From Slim Require Import Base Keys KeysProofs Model QueryProofs SearchProofs LegacyCompose LegacyConv LegacyConvMainProofs.
From Slim Require Import Varint VarintProofs Proto ProtoProofs BitmapRank Arrays ArrWire ArrWireProofs
     Semver Frame FrameProofs Wire LegacyBytes LegacyBytesProofs LegacyBytesConvProofs LegacyBytesWfProofs
     LegacyBytesFitProofs.
Import ListNotations.

(* ---- three sections and back ------------------------------------------------------ *)
Lemma frame_some : forall ver body, (length ver <= 16)%nat -> exists s, frame ver body = Some s.
Proof.
  intros ver body H. unfold frame. destruct (Nat.ltb_spec 16 (length ver)); [lia|]. eexists; reflexivity.
Qed.

Theorem stream_roundtrip : forall ver a,
  (length ver <= 16)%nat -> arrays_fit a = true ->
  exists b, stream_of_arrays ver a = Some b /\ arrays_of_stream b = LOk a.
Proof.
  intros ver [[ch st] lv] Hv Hfit. unfold arrays_fit in Hfit.
  apply andb_true_iff in Hfit; destruct Hfit as [Hfit B3].
  apply andb_true_iff in Hfit; destruct Hfit as [Hfit B2].
  apply andb_true_iff in Hfit; destruct Hfit as [Hfit B1].
  apply andb_true_iff in Hfit; destruct Hfit as [Hfit W3].
  apply andb_true_iff in Hfit; destruct Hfit as [W1 W2].
  apply N.ltb_lt in B1, B2, B3.
  destruct (frame_some ver (ser_array32 ch) Hv) as (s1 & F1).
  destruct (frame_some ver (ser_array32 st) Hv) as (s2 & F2).
  destruct (frame_some ver (ser_array32 lv) Hv) as (s3 & F3).
  exists (s1 ++ s2 ++ s3). unfold stream_of_arrays. rewrite F1, F2, F3. split; [reflexivity|].
  unfold arrays_of_stream.
  rewrite (read_section_complete parse_array32 ver _ s1 (s2 ++ s3) F1) by assumption.
  rewrite parse_array32_ser by assumption. cbn [of_rres lbind].
  rewrite (read_section_complete parse_array32 ver _ s2 s3 F2) by assumption.
  rewrite parse_array32_ser by assumption. cbn [of_rres lbind].
  rewrite <- (app_nil_r s3).
  rewrite (read_section_complete parse_array32 ver _ s3 [] F3) by assumption.
  rewrite parse_array32_ser by assumption. reflexivity.
Qed.

(* ---- the composition ------------------------------------------------------------------ *)
Lemma old_write_table_wf : forall ls keys ot,
  AdjSorted keys -> old_write ls keys = Ok ot -> (N.of_nat (length ot) <= int32_max)%N ->
  table_wf (length keys) ot = true.
Proof.
  intros ls keys ot Hs E Hl. unfold table_wf. rewrite (old_write_nodes_wf ls keys ot Hs E).
  apply N.leb_le. exact Hl.
Qed.

(* arrays -> table -> conversion: the trie of today's builder *)
Theorem arrays_load : forall l keys vals ot esz,
  AdjSorted keys -> length vals = length keys -> vals_ok esz vals = true ->
  old_write (l_leafsteps l) keys = Ok ot -> (N.of_nat (length ot) <= int32_max)%N ->
  exists a T views,
    arrays_of_old l ot vals = Val a /\
    old_of_arrays esz (fst (fst a)) (snd (fst a)) (snd a) = LOk (renumbered ot vals) /\
    load_arrays esz a = LOk (views, t_leaves T) /\
    build_gen false legacy_opts keys (Some vals) = Ok T /\ trie_views T views /\
    t_innerpfx T = false /\ t_leafpfx T = false.
Proof.
  intros l keys vals ot esz Hs Hlen Hv Ew Hn.
  pose proof (old_write_table_wf _ _ _ Hs Ew Hn) as Hwf. rewrite <- Hlen in Hwf.
  destruct (old_of_arrays_written l ot vals esz Hwf Hv) as (ch & st & lv & Ea & Er).
  destruct (legacy_conversion (l_leafsteps l) keys (Some vals) ot Hs Ew)
    as (T & views & lidx & Hb & Hc & Htv & Hlv & Hip & Hlp).
  destruct (renumbered ot vals) as [ot' lvals] eqn:Ern.
  destruct (convert_renumbered ot vals views lidx ot' lvals Hc Ern) as (lidx' & Hc' & Hsel).
  exists (ch, st, lv), T, views. cbn [fst snd]. split; [exact Ea|]. split; [exact Er|].
  split; [|auto]. unfold load_arrays. rewrite Er. cbn [lbind]. rewrite Hc', Hsel, Hlv. reflexivity.
Qed.

(* THE COMPOSITION: the bytes the old writer produces load, through sections -> arrays ->
   node table -> conversion, to the node view and the leaves of Model.build_gen false *)
Theorem stream_loads : forall l keys vals ot esz a,
  AdjSorted keys -> length vals = length keys -> vals_ok esz vals = true ->
  old_write (l_leafsteps l) keys = Ok ot -> (N.of_nat (length ot) <= int32_max)%N ->
  (length (l_header l) <= 16)%nat ->
  arrays_of_old l ot vals = Val a -> arrays_fit a = true ->
  exists b T views,
    write_stream l keys vals = LOk b /\
    arrays_of_stream b = LOk a /\
    old_of_arrays esz (fst (fst a)) (snd (fst a)) (snd a) = LOk (renumbered ot vals) /\
    load_stream esz b = LOk (views, t_leaves T) /\
    build_gen false legacy_opts keys (Some vals) = Ok T /\ trie_views T views /\
    t_innerpfx T = false /\ t_leafpfx T = false.
Proof.
  intros l keys vals ot esz a Hs Hlen Hv Ew Hn Hh Ea Hfit.
  destruct (arrays_load l keys vals ot esz Hs Hlen Hv Ew Hn) as (a' & T & views & Ea' & Er & El & Hb & Htv & Hp).
  rewrite Ea in Ea'. injection Ea' as <-.
  destruct (stream_roundtrip (l_header l) a Hh Hfit) as (b & Es & Eb).
  exists b, T, views. unfold write_stream, load_stream. rewrite Ew, Ea, Es, Eb. cbn [lbind].
  repeat (split; [first [reflexivity|assumption]|]). exact Hp.
Qed.

(* ---- without the representability hypothesis ------------------------------------------- *)
Lemma layouts_header : forall l, In l layouts -> (length (l_header l) <= 16)%nat.
Proof. intros l H. cbn in H. repeat (destruct H as [<-|H]; [cbn; lia|]). destruct H. Qed.

(* ---- through Unmarshal's version gate ---------------------------------------------------- *)
Lemma accepts_ser : forall a, wf_array32 a = true -> accept_array32 (ser_array32 a) = Some (ser_array32 a).
Proof.
  intros a H. unfold accept_array32.
  assert (accepts_array32 (ser_array32 a) = true) as ->; [|reflexivity].
  apply (parse_array32_into_accepts empty_warray). exists a. apply parse_array32_ser. exact H.
Qed.

Lemma unmarshal_three : forall compat cur ver b1 b2 b3 s1 s2 s3 c1 c2 c3,
  frame ver b1 = Some s1 -> frame ver b2 = Some s2 -> frame ver b3 = Some s3 ->
  (blen b1 < two63)%N -> (blen b2 < two63)%N -> (blen b3 < two63)%N ->
  is_compatible (strip_nul ver) compat = Some true ->
  is_compatible (strip_nul ver) [cur; v0_5_10; v0_5_11] = Some false ->
  accept_array32 b1 = Some c1 -> accept_array32 b2 = Some c2 -> accept_array32 b3 = Some c3 ->
  unmarshal compat cur (s1 ++ s2 ++ s3) = OLegacy3 c1 c2 c3.
Proof.
  intros compat cur ver b1 b2 b3 s1 s2 s3 c1 c2 c3 F1 F2 F3 B1 B2 B3 G1 G2 A1 A2 A3.
  unfold unmarshal.
  pose proof F1 as F1'. apply frame_shape in F1'. destruct F1' as [Hv1 Hs1].
  rewrite Hs1 at 1. rewrite <- app_assoc.
  rewrite read_header_hdr by (try exact Hv1; apply two63_lt_two64; exact B1).
  cbn [h_version]. rewrite G1, G2.
  rewrite (read_section_complete accept_array32 ver b1 s1 (s2 ++ s3) F1 B1), A1. cbn [lift_stage].
  rewrite (read_section_complete accept_array32 ver b2 s2 s3 F2 B2), A2. cbn [lift_stage].
  rewrite <- (app_nil_r s3).
  rewrite (read_section_complete accept_array32 ver b3 s3 [] F3 B3), A3. reflexivity.
Qed.

Lemma layouts_gate : forall l, In l layouts ->
  is_compatible (strip_nul (l_header l)) compat_gen = Some true /\
  is_compatible (strip_nul (l_header l)) [cur_gen; v0_5_10; v0_5_11] = Some false.
Proof.
  intros l H. cbn in H. repeat (destruct H as [<-|H]; [split; vm_compute; reflexivity|]). destruct H.
Qed.

(* SlimTrie.Unmarshal's reading part (Frame.unmarshal with the regenerated constants)
   takes the three-section path on the writer's bytes and hands the three messages over *)
Theorem stream_roundtrip_gated : forall l a,
  In l layouts -> arrays_fit a = true ->
  exists b, stream_of_arrays (l_header l) a = Some b /\
            arrays_of_stream_gated compat_gen cur_gen b = GArrays a.
Proof.
  intros l [[ch st] lv] Hl Hfit. pose proof (layouts_header l Hl) as Hv. unfold arrays_fit in Hfit.
  apply andb_true_iff in Hfit; destruct Hfit as [Hfit B3].
  apply andb_true_iff in Hfit; destruct Hfit as [Hfit B2].
  apply andb_true_iff in Hfit; destruct Hfit as [Hfit B1].
  apply andb_true_iff in Hfit; destruct Hfit as [Hfit W3].
  apply andb_true_iff in Hfit; destruct Hfit as [W1 W2].
  apply N.ltb_lt in B1, B2, B3.
  destruct (frame_some (l_header l) (ser_array32 ch) Hv) as (s1 & F1).
  destruct (frame_some (l_header l) (ser_array32 st) Hv) as (s2 & F2).
  destruct (frame_some (l_header l) (ser_array32 lv) Hv) as (s3 & F3).
  exists (s1 ++ s2 ++ s3). unfold stream_of_arrays. rewrite F1, F2, F3. split; [reflexivity|].
  destruct (layouts_gate l Hl) as [G1 G2].
  unfold arrays_of_stream_gated.
  rewrite (unmarshal_three compat_gen cur_gen (l_header l) _ _ _ s1 s2 s3 _ _ _ F1 F2 F3 B1 B2 B3 G1 G2
             (accepts_ser ch W1) (accepts_ser st W2) (accepts_ser lv W3)).
  rewrite !parse_array32_ser by assumption. reflexivity.
Qed.

(* THE COMPOSED THEOREM: for every strictly ascending key list the old writer can write
   (every step fits 16 bits), every layout, every list of values of the loader's fixed
   size, with at most 2^26 old nodes (int32 positions inside BMElts): the stream exists,
   reads back (also through Unmarshal's version gate) to the very three messages, those to
   the (renumbered) node table, and the
   whole loader returns the node view and the leaves of Model.build_gen false *)
Theorem stream_loads_all : forall l keys vals ot esz,
  In l layouts ->
  AdjSorted keys -> length vals = length keys -> vals_ok esz vals = true ->
  old_write (l_leafsteps l) keys = Ok ot ->
  (N.of_nat (length ot) <= 2 ^ 26)%N -> (N.of_nat esz < 2 ^ 31)%N ->
  exists b a T views,
    write_stream l keys vals = LOk b /\
    arrays_of_old l ot vals = Val a /\
    arrays_of_stream b = LOk a /\
    arrays_of_stream_gated compat_gen cur_gen b = GArrays a /\
    old_of_arrays esz (fst (fst a)) (snd (fst a)) (snd a) = LOk (renumbered ot vals) /\
    load_stream esz b = LOk (views, t_leaves T) /\
    build_gen false legacy_opts keys (Some vals) = Ok T /\ trie_views T views /\
    t_innerpfx T = false /\ t_leafpfx T = false.
Proof.
  intros l keys vals ot esz Hl Hs Hlen Hv Ew Hn He.
  assert (Hn' : (N.of_nat (length ot) <= int32_max)%N) by (unfold int32_max; change (2 ^ 26)%N with 67108864%N in Hn; lia).
  pose proof (old_write_table_wf _ _ _ Hs Ew Hn') as Hwf. rewrite <- Hlen in Hwf.
  destruct (arrays_of_old_ok l ot vals _ Hwf) as (ch & st & lv & Ea & _).
  pose proof (written_arrays_fit l ot vals esz _ Hwf Hv Hn He Ea) as Hfit.
  destruct (stream_loads l keys vals ot esz _ Hs Hlen Hv Ew Hn' (layouts_header l Hl) Ea Hfit)
    as (b & T & views & H1 & H2 & H3 & H4 & H5).
  exists b, (ch, st, lv), T, views. split; [exact H1|]. split; [exact Ea|]. split; [exact H2|].
  split; [|split; [exact H3|split; [exact H4|exact H5]]].
  destruct (stream_roundtrip_gated l _ Hl Hfit) as (b' & Es' & Eg).
  unfold write_stream in H1. rewrite Ew, Ea, Es' in H1. injection H1 as <-. exact Eg.
Qed.


(* ... and the loaded trie answers Get, RangeGet and Search of every indexed key exactly
   (the trie theorems C01/C02/C09 through LegacyCompose.legacy_answers) *)
Theorem stream_loaded_answers : forall l keys vals ot esz,
  In l layouts ->
  AdjSorted keys -> length vals = length keys -> vals_ok esz vals = true ->
  old_write (l_leafsteps l) keys = Ok ot ->
  (N.of_nat (length ot) <= 2 ^ 26)%N -> (N.of_nat esz < 2 ^ 31)%N ->
  exists b T views,
    write_stream l keys vals = LOk b /\
    load_stream esz b = LOk (views, t_leaves T) /\ trie_views T views /\
    t_innerpfx T = false /\ t_leafpfx T = false /\
    forall i k, nth_error keys i = Some k ->
      (exists id, getid T k = Some id) /\
      (exists v, get T k = Ok (Found v) /\ val_bytes v = nth i vals []) /\
      (exists v, rangeget T k = Ok (Found v) /\ val_bytes v = nth i vals []) /\
      search T k = Ok (match i with O => None | S j => Some (stored T (Some vals) j) end,
                       Some (stored T (Some vals) i),
                       if (S i <? length keys)%nat then Some (stored T (Some vals) (S i)) else None).
Proof.
  intros l keys vals ot esz Hl Hs Hlen Hv Ew Hn He.
  destruct (stream_loads_all l keys vals ot esz Hl Hs Hlen Hv Ew Hn He)
    as (b & a & T & views & H1 & _ & _ & _ & _ & H4 & Hb & Htv & Hi & Hp).
  exists b, T, views. repeat (split; [assumption|]).
  intros i k Hk. apply (legacy_answers false legacy_opts keys vals T i k eq_refl Hlen Hb Hk).
Qed.
