(* ProtoProofs.v - proofs about Proto.v: the reader inverts the writer on
   well-formed messages, and the size function is the length of the output. *)
From Coq Require Import List NArith ZArith Bool Lia.
From Coq Require Import ZifyN ZifyNat ZifyBool.
From Coq.Strings Require Import Byte.
From Slim Require Import Varint VarintProofs Proto.
Import ListNotations.
Open Scope N_scope.

Ltac Zify.zify_post_hook ::= Z.div_mod_to_equations.

(* ---- small facts ------------------------------------------------------------- *)
Lemma consumed_app : forall a r : list byte, consumed (a ++ r) r = a.
Proof.
  intros a r. unfold consumed. rewrite app_length.
  replace (length a + length r - length r)%nat with (length a) by lia.
  rewrite firstn_app. rewrite Nat.sub_diag. cbn [firstn]. rewrite app_nil_r.
  apply firstn_all.
Qed.

Lemma blen_app : forall a b : list byte, blen (a ++ b) = blen a + blen b.
Proof. intros. unfold blen. rewrite app_length. lia. Qed.

Lemma len_ok_lt : forall l, len_ok l = true -> blen l < two64.
Proof. intros l H. unfold len_ok in H. apply N.ltb_lt in H. exact H. Qed.

Lemma u64_ok_lt : forall n, u64_ok n = true -> n < two64.
Proof. intros n H. unfold u64_ok in H. apply N.ltb_lt in H. exact H. Qed.

Lemma nil_bytes_nil : forall l, nil_bytes l = true -> l = [].
Proof. intros l H. destruct l; [reflexivity|discriminate]. Qed.

Definition tag_ok (tag : N) : Prop := 0 < tag /\ tag < 2305843009213693952.   (* 2^61 *)

Lemma tag_decode : forall tag w b,
  tag_ok tag -> w < 8 ->
  decode_varint (tag_bytes tag w ++ b) = Some (tag * 8 + w, b) /\
  (tag * 8 + w) / 8 = tag /\ (tag * 8 + w) mod 8 = w /\ ((tag * 8 + w) / 8 =? 0) = false.
Proof.
  intros tag w b [H0 H1] Hw.
  assert (E1 : (tag * 8 + w) / 8 = tag).
  { symmetry. apply N.div_unique with (r := w); lia. }
  assert (E2 : (tag * 8 + w) mod 8 = w).
  { symmetry. apply N.mod_unique with (q := tag); lia. }
  split; [|split; [exact E1|split; [exact E2|]]].
  - unfold tag_bytes. apply decode_encode_varint. unfold two64. lia.
  - rewrite E1. apply N.eqb_neq. lia.
Qed.

(* ---- tokenizer inverts the token writer ---------------------------------------- *)
Definition canon (t : tok) : Prop :=
  match t with
  | TVar tag v raw => tag_ok tag /\ v < two64 /\ raw = encode_varint v
  | TBytes tag p raw => tag_ok tag /\ blen p < two64 /\ raw = encode_varint (blen p) ++ p
  | TOther _ _ _ => False
  end.

Lemma read_field_var : forall tag v rest,
  v < two64 -> read_field tag 0 (encode_varint v ++ rest) = Some (mk_var tag v, rest).
Proof.
  intros tag v rest H. unfold read_field. change (0 =? 0) with true. cbv iota.
  rewrite decode_encode_varint by exact H.
  rewrite consumed_app. reflexivity.
Qed.

Lemma read_field_bytes : forall tag p rest,
  blen p < two64 ->
  read_field tag 2 (encode_varint (blen p) ++ p ++ rest) = Some (mk_bytes tag p, rest).
Proof.
  intros tag p rest H. unfold read_field.
  change (2 =? 0) with false. change (2 =? 1) with false. change (2 =? 5) with false.
  change (2 =? 2) with true. cbv iota.
  rewrite decode_encode_varint by exact H.
  unfold blen at 1. rewrite take_N_app.
  rewrite consumed_app. reflexivity.
Qed.

Lemma ser_tok_nonempty : forall t, (1 <= length (ser_tok t))%nat.
Proof.
  intro t. destruct t as [tag v raw|tag p raw|tag w raw]; cbn [ser_tok]; rewrite app_length; unfold tag_bytes.
  - pose proof (encode_varint_length_pos (tag * 8 + 0)). lia.
  - pose proof (encode_varint_length_pos (tag * 8 + 2)). lia.
  - pose proof (encode_varint_length_pos (tag * 8 + w)). lia.
Qed.

Lemma ser_toks_length : forall ts, (length ts <= length (ser_toks ts))%nat.
Proof.
  induction ts as [|t ts IH]; [cbn; lia|].
  unfold ser_toks in *. cbn [map concat length]. rewrite app_length.
  pose proof (ser_tok_nonempty t). lia.
Qed.

Lemma tokenize_ser : forall ts fuel,
  Forall canon ts -> (length ts <= fuel)%nat -> tokenize fuel (ser_toks ts) = Some ts.
Proof.
  induction ts as [|t ts IH]; intros fuel Hc Hf.
  - destruct fuel; reflexivity.
  - inversion Hc as [|t' ts' Ht Hts]; subst.
    destruct fuel as [|fuel]; [cbn in Hf; lia|].
    unfold ser_toks. cbn [map concat]. fold (ser_toks ts).
    pose proof (ser_tok_nonempty t) as Hne.
    cbn [tokenize].
    destruct (ser_tok t ++ ser_toks ts) as [|x l] eqn:El.
    { apply (f_equal (@length byte)) in El. rewrite app_length in El. cbn [length] in El. lia. }
    rewrite <- El. clear El x l.
    destruct t as [tag v raw|tag p raw|tag w raw]; cbn [canon] in Ht.
    + destruct Ht as [Htag [Hv Hraw]]. subst raw. cbn [ser_tok].
      destruct (tag_decode tag 0 (encode_varint v ++ ser_toks ts) Htag ltac:(lia)) as [D [E1 [E2 E3]]].
      rewrite <- app_assoc. rewrite D. rewrite E3. rewrite E1, E2.
      rewrite read_field_var by exact Hv.
      rewrite IH by (try assumption; cbn in Hf; lia). reflexivity.
    + destruct Ht as [Htag [Hp Hraw]]. subst raw. cbn [ser_tok].
      destruct (tag_decode tag 2 (encode_varint (blen p) ++ p ++ ser_toks ts) Htag ltac:(lia)) as [D [E1 [E2 E3]]].
      rewrite <- !app_assoc. rewrite D. rewrite E3. rewrite E1, E2.
      rewrite read_field_bytes by exact Hp.
      rewrite IH by (try assumption; cbn in Hf; lia). reflexivity.
    + contradiction.
Qed.

Lemma tokenize_ser_len : forall ts,
  Forall canon ts -> tokenize (length (ser_toks ts)) (ser_toks ts) = Some ts.
Proof. intros ts H. apply tokenize_ser; [exact H|apply ser_toks_length]. Qed.

(* ---- packed repeated fields ------------------------------------------------------ *)
Lemma packed_payload_length : forall vs, (length vs <= length (packed_payload vs))%nat.
Proof.
  induction vs as [|v vs IH]; [cbn; lia|].
  unfold packed_payload in *. cbn [map concat]. rewrite app_length.
  pose proof (encode_varint_length_pos v). cbn [length]. lia.
Qed.

Lemma parse_packed_payload : forall vs fuel,
  Forall (fun v => v < two64) vs -> (length vs <= fuel)%nat ->
  parse_packed fuel (packed_payload vs) = Some vs.
Proof.
  induction vs as [|v vs IH]; intros fuel Hv Hf.
  - destruct fuel; reflexivity.
  - inversion Hv; subst. destruct fuel as [|fuel]; [cbn in Hf; lia|].
    unfold packed_payload. cbn [map concat]. fold (packed_payload vs).
    pose proof (encode_varint_length_pos v) as Hne.
    cbn [parse_packed].
    destruct (encode_varint v ++ packed_payload vs) as [|x l] eqn:El.
    { apply (f_equal (@length byte)) in El. rewrite app_length in El. cbn [length] in El. lia. }
    rewrite <- El. clear El x l.
    rewrite decode_encode_varint by assumption.
    rewrite IH by (try assumption; cbn in Hf; lia). reflexivity.
Qed.

Lemma unpack_payload : forall vs,
  Forall (fun v => v < two64) vs -> unpack (packed_payload vs) = Some vs.
Proof.
  intros vs H. unfold unpack. apply parse_packed_payload; [exact H|apply packed_payload_length].
Qed.

Lemma forallb_u64_lt : forall vs, forallb u64_ok vs = true -> Forall (fun v => v < two64) vs.
Proof.
  intros vs H. rewrite forallb_forall in H. apply Forall_forall. intros x Hx.
  apply u64_ok_lt. apply H. exact Hx.
Qed.

Lemma forallb_u32_lt : forall vs, forallb u32_ok vs = true -> Forall (fun v => v < two64) vs.
Proof.
  intros vs H. rewrite forallb_forall in H. apply Forall_forall. intros x Hx.
  apply u64_ok_lt. apply u32_ok_u64_ok. apply H. exact Hx.
Qed.

Lemma map_u64_of_int32_lt : forall zs, Forall (fun v => v < two64) (map u64_of_int32 zs).
Proof.
  intro zs. apply Forall_forall. intros x Hx. apply in_map_iff in Hx.
  destruct Hx as [z [E _]]. subst. apply u64_of_int32_lt.
Qed.

Lemma map_int32_roundtrip : forall zs,
  forallb int32_ok zs = true -> map int32_of_u64 (map u64_of_int32 zs) = zs.
Proof.
  induction zs as [|z zs IH]; intro H; [reflexivity|].
  cbn [forallb] in H. apply andb_true_iff in H. destruct H as [H1 H2].
  cbn [map]. rewrite int32_roundtrip by exact H1. rewrite IH by exact H2. reflexivity.
Qed.

Lemma map_uint32_roundtrip : forall vs,
  forallb u32_ok vs = true -> map uint32_of_u64 vs = vs.
Proof.
  induction vs as [|v vs IH]; intro H; [reflexivity|].
  cbn [forallb] in H. apply andb_true_iff in H. destruct H as [H1 H2].
  cbn [map]. rewrite uint32_roundtrip by exact H1. rewrite IH by exact H2. reflexivity.
Qed.

(* ---- folding ----------------------------------------------------------------------- *)
Lemma fold_opt_app : forall {M} (step : M -> tok -> option M) a b m,
  fold_opt step (a ++ b) m =
  match fold_opt step a m with Some m' => fold_opt step b m' | None => None end.
Proof.
  intros M step a. induction a as [|t a IH]; intros b m; cbn [app fold_opt].
  - reflexivity.
  - destruct (step m t); [apply IH|reflexivity].
Qed.

(* canonical token groups *)
Lemma canon_tk_packed : forall tag vs,
  tag_ok tag -> len_ok (packed_payload vs) = true -> Forall canon (tk_packed tag vs).
Proof.
  intros tag vs Ht Hl. unfold tk_packed. destruct vs; [constructor|].
  constructor; [|constructor]. cbn [mk_bytes canon]. apply len_ok_lt in Hl. auto.
Qed.

Lemma canon_tk_int32 : forall tag z, tag_ok tag -> Forall canon (tk_int32 tag z).
Proof.
  intros tag z Ht. unfold tk_int32. destruct (z =? 0)%Z; [constructor|].
  constructor; [|constructor]. cbn [mk_var canon]. pose proof (u64_of_int32_lt z). auto.
Qed.

Lemma canon_tk_bytes : forall tag p, tag_ok tag -> len_ok p = true -> Forall canon (tk_bytes tag p).
Proof.
  intros tag p Ht Hl. unfold tk_bytes. destruct p; [constructor|].
  constructor; [|constructor]. cbn [mk_bytes canon]. apply len_ok_lt in Hl. auto.
Qed.

Lemma canon_tk_msg : forall {M} (ser : M -> list byte) tag o,
  tag_ok tag -> opt_all (fun m => len_ok (ser m)) o = true -> Forall canon (tk_msg ser tag o).
Proof.
  intros M ser tag o Ht Hl. unfold tk_msg. destruct o; [|constructor].
  constructor; [|constructor]. cbn [mk_bytes canon]. cbn [opt_all] in Hl. apply len_ok_lt in Hl. auto.
Qed.

Ltac tag_ok_tac := unfold tag_ok; lia.

Ltac split_and H :=
  repeat match type of H with
         | (_ && _) = true => let H1 := fresh H in apply andb_true_iff in H; destruct H as [H H1]
         end.

(* ---- Bitmap ------------------------------------------------------------------------ *)
Theorem parse_bitmap_ser : forall b,
  wf_bitmap b = true -> parse_bitmap_into empty_bitmap (ser_bitmap b) = Some b.
Proof.
  intros [ws rs ss unk] H. unfold wf_bitmap in H. cbn [bm_words bm_rank bm_select bm_unk] in H.
  apply andb_true_iff in H. destruct H as [H Hl3].
  apply andb_true_iff in H. destruct H as [H Hl2].
  apply andb_true_iff in H. destruct H as [H Hl1].
  apply andb_true_iff in H. destruct H as [H Hu].
  apply andb_true_iff in H. destruct H as [H Hs].
  apply andb_true_iff in H. destruct H as [Hw Hr].
  apply nil_bytes_nil in Hu. subst unk.
  unfold parse_bitmap_into, ser_bitmap. cbn [bm_unk]. rewrite app_nil_r.
  rewrite tokenize_ser_len.
  2:{ unfold toks_bitmap. cbn [bm_words bm_rank bm_select].
      apply Forall_app; split; [|apply Forall_app; split];
        apply canon_tk_packed; try tag_ok_tac; assumption. }
  unfold toks_bitmap. cbn [bm_words bm_rank bm_select].
  (* words *)
  assert (E1 : fold_opt step_bitmap (tk_packed 20 ws) empty_bitmap = Some (mkBitmap ws [] [] [])).
  { unfold tk_packed. destruct ws as [|w ws']; [reflexivity|].
    set (wl := w :: ws') in *.
    cbn [fold_opt step_bitmap mk_bytes]. change (bm_is_rep 20) with true. cbv iota.
    rewrite unpack_payload by (apply forallb_u64_lt; exact Hw). reflexivity. }
  rewrite fold_opt_app, E1. cbv beta iota.
  assert (E2 : fold_opt step_bitmap (tk_packed 30 (map u64_of_int32 rs)) (mkBitmap ws [] [] []) = Some (mkBitmap ws rs [] [])).
  { unfold tk_packed. destruct rs as [|r rs']; [reflexivity|].
    set (rl := r :: rs') in *. change (map u64_of_int32 rl) with (u64_of_int32 r :: map u64_of_int32 rs') at 1.
    cbv iota. change (u64_of_int32 r :: map u64_of_int32 rs') with (map u64_of_int32 rl).
    cbn [fold_opt step_bitmap mk_bytes]. change (bm_is_rep 30) with true. cbv iota.
    rewrite unpack_payload by apply map_u64_of_int32_lt.
    unfold bm_rep. change (30 =? 20) with false. change (30 =? 30) with true. cbv iota.
    cbn [bm_words bm_rank bm_select bm_unk app].
    rewrite map_int32_roundtrip by exact Hr. reflexivity. }
  rewrite fold_opt_app, E2. cbv beta iota.
  unfold tk_packed. destruct ss as [|s ss']; [reflexivity|].
  set (sl := s :: ss') in *. change (map u64_of_int32 sl) with (u64_of_int32 s :: map u64_of_int32 ss') at 1.
  cbv iota. change (u64_of_int32 s :: map u64_of_int32 ss') with (map u64_of_int32 sl).
  cbn [fold_opt step_bitmap mk_bytes]. change (bm_is_rep 40) with true. cbv iota.
  rewrite unpack_payload by apply map_u64_of_int32_lt.
  unfold bm_rep. change (40 =? 20) with false. change (40 =? 30) with false. cbv iota.
  cbn [bm_words bm_rank bm_select bm_unk app].
  rewrite map_int32_roundtrip by exact Hs. reflexivity.
Qed.

(* closed comparisons of field numbers *)
Ltac red_tags :=
  repeat match goal with
         | |- context [N.eqb (Npos ?a) (Npos ?b)] =>
           let r := eval vm_compute in (N.eqb (Npos a) (Npos b)) in
           change (N.eqb (Npos a) (Npos b)) with r
         end;
  cbn [orb andb negb]; cbv iota.

(* ---- VLenArray --------------------------------------------------------------------- *)
Theorem parse_vlen_ser : forall a,
  wf_vlen a = true -> parse_vlen_into empty_vlen (ser_vlen a) = Some a.
Proof.
  intros [n e pos f by_ pre unk] H. unfold wf_vlen in H.
  cbn [vl_n vl_eltcnt vl_position vl_fixed vl_bytes vl_presence vl_unk] in H.
  apply andb_true_iff in H. destruct H as [H Hu].
  apply andb_true_iff in H. destruct H as [H Hlby].
  apply andb_true_iff in H. destruct H as [H Hlpre].
  apply andb_true_iff in H. destruct H as [H Hlpos].
  apply andb_true_iff in H. destruct H as [H Hwpre].
  apply andb_true_iff in H. destruct H as [H Hwpos].
  apply andb_true_iff in H. destruct H as [H Hf].
  apply andb_true_iff in H. destruct H as [Hn He].
  apply nil_bytes_nil in Hu. subst unk.
  unfold parse_vlen_into, ser_vlen. cbn [vl_unk]. rewrite app_nil_r.
  rewrite tokenize_ser_len.
  2:{ unfold toks_vlen. cbn [vl_n vl_eltcnt vl_position vl_fixed vl_bytes vl_presence].
      apply Forall_app; split; [apply canon_tk_int32; tag_ok_tac|].
      apply Forall_app; split; [apply canon_tk_int32; tag_ok_tac|].
      apply Forall_app; split; [apply canon_tk_msg; [tag_ok_tac|exact Hlpos]|].
      apply Forall_app; split; [apply canon_tk_int32; tag_ok_tac|].
      apply Forall_app; split; [apply canon_tk_bytes; [tag_ok_tac|exact Hlby]|].
      apply canon_tk_msg; [tag_ok_tac|exact Hlpre]. }
  unfold toks_vlen. cbn [vl_n vl_eltcnt vl_position vl_fixed vl_bytes vl_presence].
  assert (E1 : fold_opt step_vlen (tk_int32 10 n) empty_vlen = Some (mkVlen n 0 None 0 [] None [])).
  { unfold tk_int32. destruct (n =? 0)%Z eqn:Ez; [apply Z.eqb_eq in Ez; subst; reflexivity|].
    cbn [fold_opt step_vlen mk_var]. red_tags. rewrite int32_roundtrip by exact Hn. reflexivity. }
  rewrite fold_opt_app, E1. cbv beta iota.
  assert (E2 : fold_opt step_vlen (tk_int32 11 e) (mkVlen n 0 None 0 [] None []) = Some (mkVlen n e None 0 [] None [])).
  { unfold tk_int32. destruct (e =? 0)%Z eqn:Ez; [apply Z.eqb_eq in Ez; subst; reflexivity|].
    cbn [fold_opt step_vlen mk_var]. red_tags. rewrite int32_roundtrip by exact He. reflexivity. }
  rewrite fold_opt_app, E2. cbv beta iota.
  assert (E3 : fold_opt step_vlen (tk_msg ser_bitmap 20 pos) (mkVlen n e None 0 [] None []) = Some (mkVlen n e pos 0 [] None [])).
  { unfold tk_msg. destruct pos as [b|]; [|reflexivity].
    cbn [fold_opt step_vlen mk_bytes]. red_tags. cbn [vl_position or_empty_bitmap].
    rewrite parse_bitmap_ser by exact Hwpos. reflexivity. }
  rewrite fold_opt_app, E3. cbv beta iota.
  assert (E4 : fold_opt step_vlen (tk_int32 23 f) (mkVlen n e pos 0 [] None []) = Some (mkVlen n e pos f [] None [])).
  { unfold tk_int32. destruct (f =? 0)%Z eqn:Ez; [apply Z.eqb_eq in Ez; subst; reflexivity|].
    cbn [fold_opt step_vlen mk_var]. red_tags. rewrite int32_roundtrip by exact Hf. reflexivity. }
  rewrite fold_opt_app, E4. cbv beta iota.
  assert (E5 : fold_opt step_vlen (tk_bytes 30 by_) (mkVlen n e pos f [] None []) = Some (mkVlen n e pos f by_ None [])).
  { unfold tk_bytes. destruct by_ as [|x r]; [reflexivity|].
    cbn [fold_opt step_vlen mk_bytes]. red_tags. reflexivity. }
  rewrite fold_opt_app, E5. cbv beta iota.
  unfold tk_msg. destruct pre as [b|]; [|reflexivity].
  cbn [fold_opt step_vlen mk_bytes]. red_tags. cbn [vl_presence or_empty_bitmap].
  rewrite parse_bitmap_ser by exact Hwpre. reflexivity.
Qed.

(* ---- Slim ---------------------------------------------------------------------------- *)
Theorem parse_slim_ser : forall s,
  wf_slim s = true -> parse_slim (ser_slim s) = Some s.
Proof.
  intros [big short nt inn sb tab ip lp lv unk] H. unfold wf_slim in H.
  cbn [s_bigcnt s_shortsize s_nodetype s_inners s_shortbm s_shorttable s_innerpref s_leafpref s_leaves s_unk] in H.
  apply andb_true_iff in H. destruct H as [H Hu].
  apply andb_true_iff in H. destruct H as [H Hllv].
  apply andb_true_iff in H. destruct H as [H Hllp].
  apply andb_true_iff in H. destruct H as [H Hlip].
  apply andb_true_iff in H. destruct H as [H Hwlv].
  apply andb_true_iff in H. destruct H as [H Hwlp].
  apply andb_true_iff in H. destruct H as [H Hwip].
  apply andb_true_iff in H. destruct H as [H Hltab].
  apply andb_true_iff in H. destruct H as [H Htab].
  apply andb_true_iff in H. destruct H as [H Hlsb].
  apply andb_true_iff in H. destruct H as [H Hlinn].
  apply andb_true_iff in H. destruct H as [H Hlnt].
  apply andb_true_iff in H. destruct H as [H Hwsb].
  apply andb_true_iff in H. destruct H as [H Hwinn].
  apply andb_true_iff in H. destruct H as [H Hwnt].
  apply andb_true_iff in H. destruct H as [Hbig Hshort].
  apply nil_bytes_nil in Hu. subst unk.
  unfold parse_slim, parse_slim_into, ser_slim. cbn [s_unk]. rewrite app_nil_r.
  rewrite tokenize_ser_len.
  2:{ unfold toks_slim.
      cbn [s_bigcnt s_shortsize s_nodetype s_inners s_shortbm s_shorttable s_innerpref s_leafpref s_leaves].
      apply Forall_app; split; [apply canon_tk_int32; tag_ok_tac|].
      apply Forall_app; split; [apply canon_tk_int32; tag_ok_tac|].
      apply Forall_app; split; [apply canon_tk_msg; [tag_ok_tac|exact Hlnt]|].
      apply Forall_app; split; [apply canon_tk_msg; [tag_ok_tac|exact Hlinn]|].
      apply Forall_app; split; [apply canon_tk_msg; [tag_ok_tac|exact Hlsb]|].
      apply Forall_app; split; [apply canon_tk_packed; [tag_ok_tac|exact Hltab]|].
      apply Forall_app; split; [apply canon_tk_msg; [tag_ok_tac|exact Hlip]|].
      apply Forall_app; split; [apply canon_tk_msg; [tag_ok_tac|exact Hllp]|].
      apply canon_tk_msg; [tag_ok_tac|exact Hllv]. }
  unfold toks_slim.
  cbn [s_bigcnt s_shortsize s_nodetype s_inners s_shortbm s_shorttable s_innerpref s_leafpref s_leaves].
  assert (E1 : fold_opt step_slim (tk_int32 11 big) empty_slim = Some (mkSlim big 0 None None None [] None None None [])).
  { unfold tk_int32. destruct (big =? 0)%Z eqn:Ez; [apply Z.eqb_eq in Ez; subst; reflexivity|].
    cbn [fold_opt step_slim mk_var]. red_tags. rewrite int32_roundtrip by exact Hbig. reflexivity. }
  rewrite fold_opt_app, E1. cbv beta iota.
  assert (E2 : fold_opt step_slim (tk_int32 14 short) (mkSlim big 0 None None None [] None None None [])
               = Some (mkSlim big short None None None [] None None None [])).
  { unfold tk_int32. destruct (short =? 0)%Z eqn:Ez; [apply Z.eqb_eq in Ez; subst; reflexivity|].
    cbn [fold_opt step_slim mk_var]. red_tags. rewrite int32_roundtrip by exact Hshort. reflexivity. }
  rewrite fold_opt_app, E2. cbv beta iota.
  assert (E3 : fold_opt step_slim (tk_msg ser_bitmap 20 nt) (mkSlim big short None None None [] None None None [])
               = Some (mkSlim big short nt None None [] None None None [])).
  { unfold tk_msg. destruct nt as [b|]; [|reflexivity].
    cbn [fold_opt step_slim mk_bytes]. unfold s_is_bitmap, s_get_bitmap, s_set_bitmap. red_tags.
    cbn [s_nodetype or_empty_bitmap].
    rewrite parse_bitmap_ser by exact Hwnt. reflexivity. }
  rewrite fold_opt_app, E3. cbv beta iota.
  assert (E4 : fold_opt step_slim (tk_msg ser_bitmap 30 inn) (mkSlim big short nt None None [] None None None [])
               = Some (mkSlim big short nt inn None [] None None None [])).
  { unfold tk_msg. destruct inn as [b|]; [|reflexivity].
    cbn [fold_opt step_slim mk_bytes]. unfold s_is_bitmap, s_get_bitmap, s_set_bitmap. red_tags.
    cbn [s_inners or_empty_bitmap].
    rewrite parse_bitmap_ser by exact Hwinn. reflexivity. }
  rewrite fold_opt_app, E4. cbv beta iota.
  assert (E5 : fold_opt step_slim (tk_msg ser_bitmap 31 sb) (mkSlim big short nt inn None [] None None None [])
               = Some (mkSlim big short nt inn sb [] None None None [])).
  { unfold tk_msg. destruct sb as [b|]; [|reflexivity].
    cbn [fold_opt step_slim mk_bytes]. unfold s_is_bitmap, s_get_bitmap, s_set_bitmap. red_tags.
    cbn [s_shortbm or_empty_bitmap].
    rewrite parse_bitmap_ser by exact Hwsb. reflexivity. }
  rewrite fold_opt_app, E5. cbv beta iota.
  assert (E6 : fold_opt step_slim (tk_packed 32 tab) (mkSlim big short nt inn sb [] None None None [])
               = Some (mkSlim big short nt inn sb tab None None None [])).
  { unfold tk_packed. destruct tab as [|t tab']; [reflexivity|].
    set (tl := t :: tab') in *.
    cbn [fold_opt step_slim mk_bytes]. unfold s_is_bitmap. red_tags.
    rewrite unpack_payload by (apply forallb_u32_lt; exact Htab).
    unfold s_add_shorttable.
    cbn [s_bigcnt s_shortsize s_nodetype s_inners s_shortbm s_shorttable s_innerpref s_leafpref s_leaves s_unk app].
    rewrite map_uint32_roundtrip by exact Htab. reflexivity. }
  rewrite fold_opt_app, E6. cbv beta iota.
  assert (E7 : fold_opt step_slim (tk_msg ser_vlen 38 ip) (mkSlim big short nt inn sb tab None None None [])
               = Some (mkSlim big short nt inn sb tab ip None None [])).
  { unfold tk_msg. destruct ip as [a|]; [|reflexivity].
    cbn [fold_opt step_slim mk_bytes]. unfold s_is_bitmap, s_is_vlen, s_get_vlen, s_set_vlen. red_tags.
    cbn [s_innerpref or_empty_vlen].
    rewrite parse_vlen_ser by exact Hwip. reflexivity. }
  rewrite fold_opt_app, E7. cbv beta iota.
  assert (E8 : fold_opt step_slim (tk_msg ser_vlen 58 lp) (mkSlim big short nt inn sb tab ip None None [])
               = Some (mkSlim big short nt inn sb tab ip lp None [])).
  { unfold tk_msg. destruct lp as [a|]; [|reflexivity].
    cbn [fold_opt step_slim mk_bytes]. unfold s_is_bitmap, s_is_vlen, s_get_vlen, s_set_vlen. red_tags.
    cbn [s_leafpref or_empty_vlen].
    rewrite parse_vlen_ser by exact Hwlp. reflexivity. }
  rewrite fold_opt_app, E8. cbv beta iota.
  unfold tk_msg. destruct lv as [a|]; [|reflexivity].
  cbn [fold_opt step_slim mk_bytes]. unfold s_is_bitmap, s_is_vlen, s_get_vlen, s_set_vlen. red_tags.
  cbn [s_leaves or_empty_vlen].
  rewrite parse_vlen_ser by exact Hwlv. reflexivity.
Qed.

(* ---- proto.Size ------------------------------------------------------------------------ *)
Lemma ser_toks_app : forall a b, ser_toks (a ++ b) = ser_toks a ++ ser_toks b.
Proof. intros. unfold ser_toks. rewrite map_app, concat_app. reflexivity. Qed.

Lemma blen_nil : blen [] = 0.
Proof. reflexivity. Qed.

Lemma ser_toks_one : forall t, ser_toks [t] = ser_tok t.
Proof. intro t. unfold ser_toks. cbn [map concat]. apply app_nil_r. Qed.

Lemma blen_mk_bytes : forall tag p, blen (ser_tok (mk_bytes tag p)) = sz_lenfield tag (blen p).
Proof.
  intros. unfold mk_bytes, sz_lenfield. cbn [ser_tok]. rewrite !blen_app.
  unfold tag_bytes. rewrite !size_varint_length. lia.
Qed.

Lemma blen_mk_var : forall tag v, blen (ser_tok (mk_var tag v)) = size_varint (tag * 8) + size_varint v.
Proof.
  intros. unfold mk_var. cbn [ser_tok]. rewrite blen_app. unfold tag_bytes.
  rewrite N.add_0_r. rewrite !size_varint_length. reflexivity.
Qed.

Lemma blen_packed_payload : forall vs, blen (packed_payload vs) = sum_N (map size_varint vs).
Proof.
  induction vs as [|v vs IH]; [reflexivity|].
  unfold packed_payload in *. cbn [map concat sum_N]. rewrite blen_app, IH, size_varint_length. reflexivity.
Qed.

Lemma blen_tk_packed : forall tag vs, blen (ser_toks (tk_packed tag vs)) = sz_packed tag vs.
Proof.
  intros tag vs. unfold tk_packed, sz_packed. destruct vs as [|v r]; [reflexivity|].
  rewrite ser_toks_one, blen_mk_bytes, blen_packed_payload. reflexivity.
Qed.

Lemma blen_tk_int32 : forall tag z, blen (ser_toks (tk_int32 tag z)) = sz_int32 tag z.
Proof.
  intros tag z. unfold tk_int32, sz_int32. destruct (z =? 0)%Z; [reflexivity|].
  rewrite ser_toks_one, blen_mk_var. reflexivity.
Qed.

Lemma blen_tk_bytes : forall tag p, blen (ser_toks (tk_bytes tag p)) = sz_bytes tag p.
Proof.
  intros tag p. unfold tk_bytes, sz_bytes. destruct p as [|x r]; [reflexivity|].
  rewrite ser_toks_one, blen_mk_bytes. reflexivity.
Qed.

Lemma blen_tk_msg : forall {M} (ser : M -> list byte) (size : M -> N) tag o,
  (forall m, blen (ser m) = size m) -> blen (ser_toks (tk_msg ser tag o)) = sz_msg size tag o.
Proof.
  intros M ser size tag o H. unfold tk_msg, sz_msg. destruct o as [m|]; [|reflexivity].
  rewrite ser_toks_one, blen_mk_bytes, H. reflexivity.
Qed.

Theorem size_bitmap_length : forall b, blen (ser_bitmap b) = size_bitmap b.
Proof.
  intro b. unfold ser_bitmap, toks_bitmap, size_bitmap.
  rewrite blen_app, !ser_toks_app, !blen_app, !blen_tk_packed. lia.
Qed.

Theorem size_vlen_length : forall a, blen (ser_vlen a) = size_vlen a.
Proof.
  intro a. unfold ser_vlen, toks_vlen, size_vlen.
  rewrite blen_app, !ser_toks_app, !blen_app, !blen_tk_int32, blen_tk_bytes.
  rewrite !(blen_tk_msg ser_bitmap size_bitmap) by apply size_bitmap_length. lia.
Qed.

Theorem size_slim_length : forall s, blen (ser_slim s) = size_slim s.
Proof.
  intro s. unfold ser_slim, toks_slim, size_slim.
  rewrite blen_app, !ser_toks_app, !blen_app, !blen_tk_int32, blen_tk_packed.
  rewrite !(blen_tk_msg ser_bitmap size_bitmap) by apply size_bitmap_length.
  rewrite !(blen_tk_msg ser_vlen size_vlen) by apply size_vlen_length. lia.
Qed.
