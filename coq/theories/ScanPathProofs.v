(* ScanPathProofs.v - paths from a node down to a leaf ([psplit]: the path, the
   items to its left, the items from its leaf on), and newIter: the stack built
   from such a path lists exactly the items from the path's leaf on. *)
From Slim Require Import Base Keys KeysProofs ListFacts Model TrieInv Scan ScanBasicProofs ScanIdProofs ScanIterProofs.
From Coq Require Import Sorting.Sorted ZifyNat ZifyBool.

Arguments Nat.div : simpl never.
Arguments Nat.modulo : simpl never.

Inductive psplit : tree -> list nat -> nat -> list tree -> list item -> list item -> Prop :=
| ps_leaf id ord tail eidx buf from :
    psplit (Leaf id ord tail eidx) buf from [Leaf id ord tail eidx] []
           (items (Leaf id ord tail eidx) buf from)
| ps_inner id big step pfx fc ch buf from j lb c p B A :
    nth_error ch j = Some (lb, c) ->
    psplit c (b1_of pfx from buf ++ label_nibs big lb) (pe_of pfx from + label_width big lb) p B A ->
    psplit (Inner id big step pfx fc ch) buf from (Inner id big step pfx fc ch :: p)
           (kids_items big (b1_of pfx from buf) (pe_of pfx from) (firstn j ch) ++ B)
           (A ++ kids_items big (b1_of pfx from buf) (pe_of pfx from) (skipn (S j) ch)).

Lemma kids_items_app big b1 pe a b : kids_items big b1 pe (a ++ b) = kids_items big b1 pe a ++ kids_items big b1 pe b.
Proof. unfold kids_items. apply flat_map_app. Qed.

Lemma nth_split_skipn {A} (l : list A) j x : nth_error l j = Some x -> l = firstn j l ++ x :: skipn (S j) l.
Proof. intros H. rewrite <- (firstn_skipn j l) at 1. f_equal. apply skipn_nth_cons. exact H. Qed.

Lemma psplit_items t buf from p B A : psplit t buf from p B A -> items t buf from = B ++ A.
Proof.
  induction 1 as [|id big step pfx fc ch buf from j lb c p B A Hn Hp IH]; [reflexivity|].
  rewrite items_inner. rewrite (nth_split_skipn ch j (lb, c) Hn) at 1.
  rewrite kids_items_app. unfold kids_items at 2. cbn [flat_map fst snd].
  fold (kids_items big (b1_of pfx from buf) (pe_of pfx from) (skipn (S j) ch)).
  rewrite IH, <- !app_assoc. reflexivity.
Qed.

Lemma psplit_hd t buf from p B A : psplit t buf from p B A -> exists p', p = t :: p'.
Proof. destruct 1; eauto. Qed.

Lemma psplit_A_nonempty t buf from p B A : psplit t buf from p B A -> A <> [].
Proof.
  induction 1; [discriminate|]. intros E. apply app_eq_nil in E. tauto.
Qed.

(* the path along first children *)
Lemma psplit_leftmost : forall t buf from, scan_wf t from ->
  psplit t buf from (leftmost_path t) [] (items t buf from).
Proof.
  induction t as [id ord tail eidx|id big step pfx fc ch IH] using tree_ind'; intros buf from Hwf.
  - apply ps_leaf.
  - apply scan_wf_inner in Hwf. destruct Hwf as (Hne & _ & _ & Hk).
    destruct ch as [|[lb c] r]; [congruence|].
    inversion IH as [|? ? IHc _]; subst. inversion Hk as [|? ? [_ Hc] _]; subst. cbn [fst snd] in *.
    cbn [leftmost_path].
    pose proof (ps_inner id big step pfx fc ((lb, c) :: r) buf from 0 lb c (leftmost_path c) [] _ eq_refl
                         (IHc _ _ Hc)) as H.
    cbn [firstn skipn app] in H. unfold kids_items at 1 in H. cbn [flat_map app] in H.
    rewrite items_inner. unfold kids_items at 1. cbn [flat_map fst snd]. exact H.
Qed.

(* ---------- the set-up of one frame ---------- *)
Lemma frame_setup big ch j lb c pfx from buf :
  nth_error ch j = Some (lb, c) -> from <= length buf -> (big = true -> Nat.even (pe_of pfx from) = true) ->
  let f := {| f_big := big; f_ch := ch; f_idx := j; f_ps := from; f_pe := pe_of pfx from;
              f_le := pe_of pfx from + label_width big lb |} in
  (do buf1 <- append_inner_prefix f pfx buf; append_label f buf1) = Ok (b1_of pfx from buf ++ label_nibs big lb).
Proof.
  intros Hn Hlen Hbig f. pose proof (even_down_le from) as Hed.
  unfold append_inner_prefix. cbn [f_ps f].
  assert ((match pfx with
           | Some p => if length buf <? even_down from then Err (EPanic 41) else Ok (firstn (even_down from) buf ++ p)
           | None => Ok buf
           end) = Ok (match pfx with Some p => firstn (even_down from) buf ++ p | None => buf end)) as E1.
  { destruct pfx; [|reflexivity]. destruct (Nat.ltb_spec (length buf) (even_down from)); [lia|reflexivity]. }
  rewrite E1. cbn [bind]. unfold append_label. cbn [f_ch f_idx f_pe f_big f]. rewrite Hn.
  set (bufx := match pfx with Some p => firstn (even_down from) buf ++ p | None => buf end).
  set (pe := pe_of pfx from) in *.
  assert (pe <= length bufx /\ firstn pe bufx = b1_of pfx from buf) as [Hx1 Hx2].
  { unfold bufx, b1_of, pe, pe_of. destruct pfx as [p|].
    - rewrite app_length, firstn_length. split; [lia|].
      rewrite firstn_all2; [reflexivity|]. rewrite app_length, firstn_length. lia.
    - split; [lia|reflexivity]. }
  destruct (Nat.ltb_spec (length bufx) pe) as [|_]; [lia|].
  assert (big && negb (Nat.even pe) && negb (lb =? 0) = false) as E2.
  { destruct big; [|reflexivity]. rewrite (Hbig eq_refl). reflexivity. }
  rewrite E2, Hx2. reflexivity.
Qed.

(* ---------- newIter's loop over the path ---------- *)
Lemma init_frames_spec : forall t buf from p B A,
  psplit t buf from p B A -> ids_ok t -> scan_wf t from -> from <= length buf ->
  forall stk, exists pushed buf',
    init_frames p from buf stk = Ok (pushed ++ stk, buf') /\
    (pushed = [] -> buf' = buf /\ exists id ord tail eidx, p = [Leaf id ord tail eidx] /\ t = Leaf id ord tail eidx /\
                                    A = items t buf from) /\
    (pushed <> [] -> rem pushed buf' = A /\ exists x, A = x :: below_all pushed buf') /\
    stack_ok pushed buf' /\
    (forall n, n <= even_down from -> firstn n buf' = firstn n buf) /\
    Forall (fun g => from <= f_pe g) pushed.
Proof.
  induction 1 as [id ord tail eidx buf from|id big step pfx fc ch buf from j lb c p B A Hn Hp IH];
    intros Hids Hwf Hlen stk.
  - exists [], buf. cbn [init_frames app]. split; [reflexivity|].
    split; [intros _; split; [reflexivity|]; eauto 10|].
    split; [congruence|]. split; [repeat split; constructor|]. split; [reflexivity|constructor].
  - apply scan_wf_inner in Hwf. destruct Hwf as (Hne & Hfrom & Hbig & Hk).
    apply ids_ok_inner in Hids. destruct Hids as [Hkid Hsub].
    set (pe := pe_of pfx from) in *. set (b1 := b1_of pfx from buf) in *.
    set (f := {| f_big := big; f_ch := ch; f_idx := j; f_ps := from; f_pe := pe; f_le := pe + label_width big lb |}).
    pose proof (nth_error_In _ _ Hn) as Hin.
    rewrite Forall_forall in Hk, Hsub. destruct (Hk _ Hin) as [Hz Hc]. specialize (Hsub _ Hin). cbn [fst snd] in Hz, Hc, Hsub.
    destruct (psplit_hd _ _ _ _ _ _ Hp) as (p' & ->).
    set (buf2 := b1 ++ label_nibs big lb).
    assert (length b1 = pe) as Lb1 by (apply b1_of_length; exact Hlen).
    assert (length buf2 = f_le f) as Lbuf2.
    { unfold buf2. rewrite app_length, Lb1, label_nibs_length. reflexivity. }
    assert (pe <= even_down (f_le f)) as Hpe_ed by (apply even_down_add_width; assumption).
    pose proof (even_down_le from) as Hed.
    destruct (IH Hsub Hc (ltac:(fold buf2; change (pe + label_width big lb) with (f_le f); lia)) (f :: stk))
      as (pushed0 & buf' & Hif & Hnil & Hcons & Hok & Hpres & Hge).
    fold buf2 in Hif, Hnil, Hcons, Hpres. change (pe + label_width big lb) with (f_le f) in Hif, Hnil, Hcons, Hpres, Hge.
    exists (pushed0 ++ [f]), buf'.
    assert (init_frames (Inner id big step pfx fc ch :: c :: p') from buf stk = init_frames (c :: p') (f_le f) buf2 (f :: stk)) as Hstep.
    { cbn [init_frames init_frame node_pfx]. rewrite (Hkid j lb c Hn).
      destruct (Nat.ltb_spec (fc + j) fc) as [|_]; [lia|]. cbn [bind].
      replace (fc + j - fc) with j by lia. rewrite Hn. cbn [bind].
      change (match pfx with Some p => even_down from + length p | None => from end) with pe. fold f.
      pose proof (frame_setup big ch j lb c pfx from buf Hn Hlen Hbig) as Hfs. cbv zeta in Hfs. fold pe f b1 buf2 in Hfs.
      destruct (append_inner_prefix f pfx buf) as [bufx|e]; cbn [bind] in Hfs |- *; [|discriminate].
      rewrite Hfs. cbn [bind]. reflexivity. }
    rewrite Hstep, Hif, <- app_assoc. cbn [app]. split; [reflexivity|].
    assert (firstn pe buf' = b1) as Hb1'.
    { rewrite (Hpres pe Hpe_ed). unfold buf2. rewrite firstn_app_le by lia. rewrite firstn_all2 by lia. reflexivity. }
    assert (frame_ok f) as Hfok.
    { constructor; cbn [f_idx f_ch f_le f_pe f_big f].
      - apply nth_error_Some. rewrite Hn. discriminate.
      - intros lb' c' H'. rewrite Hn in H'. inversion H'; subst. reflexivity.
      - exact Hbig.
      - rewrite Forall_forall. exact Hk. }
    split; [intros E; destruct pushed0; discriminate|].
    split.
    { intros _. destruct pushed0 as [|g0 r0].
      - destruct (Hnil eq_refl) as (-> & id0 & ord0 & tail0 & eidx0 & Ep & -> & ->).
        cbn [app rem]. unfold below_all. cbn [flat_map]. rewrite !app_nil_r.
        unfold frame_items. cbn [f_big f_pe f_ch f_idx f].
        assert (firstn pe buf2 = b1) as Eb by (unfold buf2; rewrite firstn_app_le by lia; rewrite firstn_all2 by lia; reflexivity).
        rewrite Eb. rewrite (skipn_nth_cons _ _ _ Hn). unfold kids_items at 1. cbn [flat_map fst snd].
        fold buf2. change (pe + label_width big lb) with (f_le f).
        fold (kids_items big b1 pe (skipn (S j) ch)).
        split; [reflexivity|]. cbn [items app]. eexists. reflexivity.
      - destruct Hcons as [Hr (x & Hx)]; [discriminate|].
        assert (below_all [f] buf' = kids_items big b1 pe (skipn (S j) ch)) as Ebf.
        { unfold below_all. cbn [flat_map]. rewrite app_nil_r. unfold frame_items. cbn [f_big f_pe f_ch f_idx f]. rewrite Hb1'. reflexivity. }
        split.
        + cbn [app rem] in Hr |- *. rewrite below_all_app, app_assoc, Hr, Ebf. reflexivity.
        + exists x. rewrite Hx. rewrite below_all_app, Ebf. reflexivity. }
    destruct Hok as (Hf0 & Hs0 & Hl0).
    split.
    { repeat split.
      - apply Forall_app. split; [exact Hf0|constructor; [exact Hfok|constructor]].
      - unfold pe_sorted. clear - Hs0 Hge Hpe_ed. induction pushed0 as [|g r IHr]; [constructor; constructor|].
        inversion Hs0 as [|? ? Hs1 Hs2]; subst. inversion Hge as [|? ? Hg1 Hg2]; subst.
        cbn [app]. constructor; [apply IHr; assumption|].
        apply Forall_app. split; [exact Hs2|]. constructor; [|constructor].
        cbn [f_pe f]. pose proof (even_down_le (f_le f)). lia.
      - apply Forall_app. split; [exact Hl0|]. constructor; [|constructor]. cbn [f_pe f].
        apply (firstn_eq_length pe buf' buf2); [rewrite Hb1'; unfold buf2; rewrite firstn_app_le by lia; rewrite firstn_all2 by lia; reflexivity|].
        rewrite Lbuf2. cbn [f_le f]. lia. }
    split.
    { intros n Hn'. rewrite (Hpres n) by lia. unfold buf2. rewrite firstn_app_le by lia.
      apply b1_of_firstn; assumption. }
    apply Forall_app. split.
    + eapply Forall_impl; [|exact Hge]. intros g Hg. cbn beta in Hg. cbn [f_le f] in Hg. lia.
    + constructor; [|constructor]. exact Hfrom.
Qed.

(* ---------- newIter ---------- *)
Lemma even_down_0 : even_down 0 = 0.
Proof. reflexivity. Qed.

Theorem new_iter_spec r p B A skip withv :
  psplit r [] 0 p B A -> ids_ok r -> scan_wf r 0 ->
  exists it, new_iter p skip withv = Ok it /\ iter_ok it /\ it_withv it = withv /\
             iter_rem it = (if skip then tl A else A).
Proof.
  intros Hp Hids Hwf.
  destruct (init_frames_spec r [] 0 p B A Hp Hids Hwf (Nat.le_0_l _) []) as (pushed & buf' & Hif & Hnil & Hcons & Hok & _ & _).
  rewrite app_nil_r in Hif. unfold new_iter. rewrite Hif. cbn [bind].
  destruct pushed as [|g0 r0].
  - destruct (Hnil eq_refl) as (-> & id & ord & tail & eidx & -> & -> & ->).
    destruct skip.
    + eexists. split; [reflexivity|]. cbn [next_stack]. repeat split; try constructor.
    + eexists. split; [reflexivity|]. repeat split.
  - destruct Hcons as [Hr (x & Hx)]; [discriminate|].
    destruct skip.
    + eexists. split; [reflexivity|]. unfold iter_ok, iter_rem. cbn [it_mode it_stack it_buf it_withv].
      split; [apply next_stack_ok; exact Hok|]. split; [reflexivity|].
      rewrite next_stack_rem, Hx. reflexivity.
    + assert (exists it, match p with
                         | [c] => Ok {| it_mode := MSingle c false; it_stack := g0 :: r0; it_buf := buf'; it_withv := withv |}
                         | _ => Ok {| it_mode := MNormal; it_stack := g0 :: r0; it_buf := buf'; it_withv := withv |}
                         end = Ok it /\ it = {| it_mode := MNormal; it_stack := g0 :: r0; it_buf := buf'; it_withv := withv |}) as (it & -> & ->).
      { destruct p as [|t0 [|t1 p']]; [eauto| |eauto].
        exfalso. destruct t0; cbn in Hif; inversion Hif. }
      eexists. split; [reflexivity|]. unfold iter_ok, iter_rem. cbn [it_mode it_stack it_buf it_withv].
      split; [exact Hok|]. split; [reflexivity|exact Hr].
Qed.
