(* BitsFlatProofs.v - L3: the link from the tree model to the flat list.
     built_trie_wf          every trie returned by Model.build yields a flat node list (breadth-first)
                            accepted by the checker flat_wf: id = position, first child = 1 + labels
                            before, leaf ordinal = leaves before, big nodes first, labels non-empty
                            ascending below 17 / 257, prefix data fit the storage mode, one value
                            per leaf
     built_trie_refinement  hence the message of a built trie decodes to the trie's own node view
   Proved directly on build_levels / process_level / assemble (independent of the Stat proofs). *)
From Coq Require Import List Arith Bool NArith ZArith Lia Sorted.
From Coq Require Import ZifyN ZifyNat ZifyBool.
From Coq.Strings Require Import Byte.
From Slim Require Import Base Keys KeysProofs ListFacts Model TrieInv BuildProofs
     BitmapRank BitmapRank2 Bits BitsWfProofs BitsProofs.
Import ListNotations.

(* ---------- the checker on a concatenation ---------- *)
Definition v_labs (l : list nview) : nat := sum_list (map nlabels l).
Definition v_leaves (l : list nview) : nat := length (tails_of l).
Definition v_big (v : nview) : bool := match v with VInner _ big _ _ _ _ => big | VLeaf _ _ _ => true end.
Definition v_bigs (l : list nview) : bool := forallb v_big l.

Lemma wf_from_app : forall ipfx lpfx a b pos nlab nleaf bigok,
  wf_from ipfx lpfx (a ++ b) pos nlab nleaf bigok =
  wf_from ipfx lpfx a pos nlab nleaf bigok &&
  wf_from ipfx lpfx b (pos + length a) (nlab + v_labs a) (nleaf + v_leaves a) (bigok && v_bigs a).
Proof.
  intros ipfx lpfx. induction a as [|v a IH]; intros b pos nlab nleaf bigok.
  - cbn. rewrite !Nat.add_0_r, andb_true_r. reflexivity.
  - destruct v as [id ord tail|id big step pfx fc labels]; cbn [app wf_from].
    + rewrite IH. unfold v_labs, v_leaves, v_bigs. cbn [map nlabels sum_list tails_of length forallb v_big].
      replace (pos + S (length a)) with (S pos + length a) by lia.
      replace (nlab + (0 + sum_list (map nlabels a))) with (nlab + sum_list (map nlabels a)) by lia.
      replace (nleaf + S (length (tails_of a))) with (S nleaf + length (tails_of a)) by lia.
      cbn [andb]. rewrite !andb_assoc. reflexivity.
    + rewrite IH. unfold v_labs, v_leaves, v_bigs. cbn [map nlabels sum_list tails_of length forallb v_big].
      replace (pos + S (length a)) with (S pos + length a) by lia.
      replace (nlab + (length labels + sum_list (map nlabels a))) with (nlab + length labels + sum_list (map nlabels a)) by lia.
      rewrite !andb_assoc. reflexivity.
Qed.

(* ---------- one subset ---------- *)
Lemma label_at_bound : forall big ns w, Forall (fun x => x < 16) ns ->
  label_at big ns w < (if big then 257 else 17).
Proof.
  intros big ns w H. unfold label_at.
  assert (Hs : Forall (fun x => x < 16) (skipn w ns)).
  { rewrite Forall_forall in *. intros x Hx. apply H. eapply In_skipn_in; exact Hx. }
  destruct (skipn w ns) as [|a r]; [destruct big; lia|]. inversion Hs as [|? ? Ha Hr]; subst.
  destruct big; [|lia]. destruct r as [|b r']; [lia|]. inversion Hr; subst. lia.
Qed.

Lemma sorted_lt_ascending : forall l, StronglySorted lt l -> ascending_nat l = true.
Proof.
  induction l as [|a r IH]; intros H; [reflexivity|]. inversion H as [|? ? Hs Hall]; subst.
  destruct r as [|b r']; [reflexivity|].
  change (ascending_nat (a :: b :: r')) with ((a <? b) && ascending_nat (b :: r')).
  rewrite (IH Hs). inversion Hall; subst. apply andb_true_iff. split; [apply Nat.ltb_lt; assumption|reflexivity].
Qed.

Definition desc_ok (o : opts) (d : desc) : Prop :=
  match d with
  | DLeaf tail _ => tail_ok (o_leaf o) tail = true
  | DInner big step pfx labels kids =>
    labels_ok big labels = true /\ pfx_ok (o_inner o) step pfx = true /\ length kids = length labels
  end.

Lemma leaf_tail_ok : forall o e from, tail_ok (o_leaf o) (leaf_tail o e from) = true.
Proof.
  intros o e from. unfold leaf_tail, tail_ok. destruct (o_leaf o); [|reflexivity].
  destruct (skipn (from / 2) (e_key e)); reflexivity.
Qed.

Lemma process_subset_ok : forall o isbig s d b',
  SubInv s -> process_subset o isbig s = Ok (d, b') ->
  desc_ok o d /\ Forall SubInv (kids_of d) /\
  match d with
  | DLeaf _ _ => b' = isbig
  | DInner big _ _ _ _ => b' = big /\ implb big isbig = true
  end.
Proof.
  intros o isbig s d b' I H. destruct d as [tail eidx|big step pfx labels kids].
  - destruct (process_leaf_inv _ _ _ _ _ _ H) as (e & Es & -> & _). split; [apply leaf_tail_ok|]. split; [constructor|].
    unfold process_subset in H. rewrite Es in H. injection H as _ <-. reflexivity.
  - pose proof (inner_facts _ _ _ _ _ _ _ _ _ I H) as F.
    pose proof (process_inner_inv _ _ _ _ _ _ _ _ _ H) as Hinv. cbv zeta in Hinv.
    destruct Hinv as ((e0 & e1 & r & Es & Hpfx) & Hw & Hlab & Hkids & Hstep & Hmax & Hbig).
    assert (Hb' : b' = big).
    { unfold process_subset in H. rewrite Es in H. cbv zeta in H.
      repeat match type of H with context [if ?c then _ else _] => destruct c; try discriminate end;
      injection H; intros; subst; reflexivity. }
    pose proof (si_ok s I) as Hok. rewrite Forall_forall in Hok.
    split; [|split].
    + unfold desc_ok. split; [|split].
      * unfold labels_ok. apply andb_true_iff. split; [apply andb_true_iff; split|].
        -- pose proof (if_nonempty _ _ _ _ _ F). destruct labels; [congruence|reflexivity].
        -- apply sorted_lt_ascending. apply (if_asc _ _ _ _ _ F).
        -- apply forallb_forall. intros x Hx. apply Nat.ltb_lt.
           rewrite Hlab in Hx. apply (proj1 (dedup_adj_In _ _)) in Hx. apply in_map_iff in Hx.
           destruct Hx as (e & <- & He). apply filter_In in He. destruct He as [He _].
           unfold ent_label. apply label_at_bound. apply ent_ok_lt16. apply Hok. exact He.
      * unfold pfx_ok. rewrite Hstep, Hpfx. destruct (o_inner o) eqn:Ei; cbn [andb].
        -- destruct (Nat.ltb_spec 0 (sub_w big s - s_from s)) as [Hpos|Hz]; [|reflexivity].
           assert (He0 : In e0 (s_ents s)) by (rewrite Es; left; reflexivity).
           pose proof (sub_w_len big s e0 (if_two _ _ _ _ _ F) He0) as Hlen.
           pose proof (even_down_le (s_from s)) as Hed.
           pose proof (ent_ok_lt16 e0 (Hok e0 He0)) as H16.
           set (p := firstn (sub_w big s - even_down (s_from s)) (skipn (even_down (s_from s)) (e_nibs e0))).
           assert (Hlp : length p = sub_w big s - even_down (s_from s)).
           { unfold p. rewrite firstn_length, skipn_length. lia. }
           change ((0 =? 0)%nat) with true. cbn [andb]. apply andb_true_iff. split.
           ++ destruct p; [cbn [length] in Hlp; lia|reflexivity].
           ++ apply forallb_forall. intros x Hx. apply Nat.ltb_lt. rewrite Forall_forall in H16. apply H16.
              unfold p in Hx. apply In_firstn_in in Hx. apply In_skipn_in in Hx. exact Hx.
        -- rewrite andb_true_r. apply N.leb_le. specialize (Hmax eq_refl). unfold max_step in Hmax. exact Hmax.
      * rewrite Hkids. apply split_kids_length.
    + cbn [kids_of]. rewrite Forall_forall. intros k Hk. eapply kids_inv; eassumption.
    + split; [exact Hb'|]. destruct big; [rewrite (Hbig eq_refl); reflexivity|reflexivity].
Qed.

(* ---------- one level ---------- *)
Fixpoint flags_ok (bigok : bool) (ds : list desc) (b' : bool) : Prop :=
  match ds with
  | [] => b' = bigok
  | DLeaf _ _ :: r => flags_ok bigok r b'
  | DInner big _ _ _ _ :: r => implb big bigok = true /\ flags_ok (bigok && big) r b'
  end.

Lemma process_level_ok : forall o ss isbig ds b',
  Forall SubInv ss -> process_level o isbig ss = Ok (ds, b') ->
  Forall (desc_ok o) ds /\ flags_ok isbig ds b' /\ Forall SubInv (flat_map kids_of ds) /\ length ds = length ss.
Proof.
  intros o. induction ss as [|s r IH]; intros isbig ds b' HI H; cbn [process_level] in H.
  - injection H as <- <-. repeat split; constructor.
  - inversion HI as [|? ? Hs Hr]; subst. unfold bind in H.
    destruct (process_subset o isbig s) as [[d b]|] eqn:E; [|discriminate].
    destruct (process_level o b r) as [[ds' b'']|] eqn:E2; [|discriminate]. injection H as <- <-.
    destruct (process_subset_ok _ _ _ _ _ Hs E) as (Hd & Hk & Hb).
    destruct (IH _ _ _ Hr E2) as (A & B & C & D).
    split; [constructor; assumption|]. split; [|split].
    + destruct d as [tail eidx|big step pfx labels kids]; cbn [flags_ok].
      * subst b. exact B.
      * destruct Hb as [-> Himp]. split; [exact Himp|].
        replace (isbig && big) with big; [exact B|]. destruct big; [|rewrite andb_false_r; reflexivity].
        destruct isbig; [reflexivity|discriminate].
    + cbn [flat_map]. apply Forall_app. split; assumption.
    + cbn [length]. lia.
Qed.

Lemma map_fst_combine_firstn : forall (labels : list nat) (forest : list tree) n,
  n = length labels -> n <= length forest -> map fst (combine labels (firstn n forest)) = labels.
Proof.
  intros labels forest n -> H. apply map_fst_combine. rewrite firstn_length. lia.
Qed.

Lemma map_snd_combine_firstn : forall (labels : list nat) (forest : list tree) n,
  n = length labels -> n <= length forest -> map snd (combine labels (firstn n forest)) = firstn n forest.
Proof.
  intros labels forest n -> H. apply map_snd_combine. rewrite firstn_length. lia.
Qed.

Lemma assemble_wf : forall o ds id cid lord forest bigok b' nlab,
  Forall (desc_ok o) ds -> flags_ok bigok ds b' ->
  length forest = length (flat_map kids_of ds) -> cid = 1 + nlab ->
  let level := map view_of_tree (assemble ds id cid lord forest) in
  wf_from (o_inner o) (o_leaf o) level id nlab lord bigok = true /\
  length level = length ds /\ v_labs level = length forest /\
  v_leaves level = length (flat_map leaf_idx_of ds) /\ (bigok && v_bigs level) = b' /\
  flat_map tree_kids (assemble ds id cid lord forest) = forest.
Proof.
  intros o. induction ds as [|d ds IH]; intros id cid lord forest bigok b' nlab Hok Hfl Hlen Hcid; cbv zeta.
  - cbn in Hlen. destruct forest; [|discriminate]. cbn in Hfl. subst b'. cbn. rewrite andb_true_r. auto 10.
  - inversion Hok as [|? ? Hd Hr]; subst. destruct d as [tail eidx|big step pfx labels kids]; cbn [assemble map view_of_tree].
    + cbn [flags_ok] in Hfl. cbn [flat_map kids_of app] in Hlen.
      destruct (IH (S id) (1 + nlab) (S lord) forest bigok b' nlab Hr Hfl Hlen eq_refl) as (A & B & C & D & E & F).
      cbn [desc_ok] in Hd. cbn [wf_from]. rewrite !Nat.eqb_refl, Hd, A.
      unfold v_labs, v_leaves, v_bigs in *. cbn [map nlabels sum_list tails_of length forallb v_big flat_map leaf_idx_of app tree_kids].
      repeat split; try lia; try assumption.
    + cbn [flags_ok] in Hfl. destruct Hfl as [Himp Hfl]. cbn [desc_ok] in Hd. destruct Hd as (Hl & Hp & Hk).
      cbn [flat_map kids_of] in Hlen. rewrite app_length in Hlen.
      set (n := length kids) in *.
      assert (Hn : n <= length forest) by lia.
      assert (Hsk : length (skipn n forest) = length (flat_map kids_of ds)) by (rewrite skipn_length; lia).
      destruct (IH (S id) (1 + nlab + n) lord (skipn n forest) (bigok && big) b' (nlab + length labels) Hr Hfl Hsk ltac:(lia))
        as (A & B & C & D & E & F).
      rewrite (map_fst_combine_firstn labels forest n ltac:(lia) Hn).
      cbn [wf_from]. rewrite !Nat.eqb_refl, Himp, Hl, Hp. cbn [andb].
      replace (1 + nlab + n) with (1 + nlab + n) in A by reflexivity. rewrite A.
      unfold v_labs, v_leaves, v_bigs in *. cbn [map nlabels sum_list tails_of length forallb v_big flat_map leaf_idx_of app tree_kids].
      rewrite (map_snd_combine_firstn labels forest n ltac:(lia) Hn), F, firstn_skipn.
      repeat split; try lia; try assumption.
      rewrite andb_assoc. exact E.
Qed.

(* ---------- all levels ---------- *)
Lemma bfs_trees_nil : forall fuel, bfs_trees fuel [] = [].
Proof. induction fuel as [|f IH]; [reflexivity|]. cbn [bfs_trees flat_map app]. exact IH. Qed.

Lemma build_levels_wf : forall o fuel isbig base lbase ss forest lidx nlab,
  build_levels fuel o isbig base lbase ss = Ok (forest, lidx) ->
  Forall SubInv ss -> base + length ss = 1 + nlab ->
  let l := map view_of_tree (bfs_trees fuel forest) in
  wf_from (o_inner o) (o_leaf o) l base nlab lbase isbig = true /\
  (forall k, bfs_trees (fuel + k) forest = bfs_trees fuel forest) /\
  v_leaves l = length lidx /\ length forest = length ss.
Proof.
  intros o. induction fuel as [|f IH]; intros isbig base lbase ss forest lidx nlab H HI Hb; cbv zeta.
  - destruct ss; cbn in H; [|discriminate]. injection H as <- <-. cbn. repeat split. intros k. apply bfs_trees_nil.
  - destruct ss as [|s0 ss0]; [cbn in H; injection H as <- <-; rewrite bfs_trees_nil; cbn; repeat split; intros; apply bfs_trees_nil|].
    remember (s0 :: ss0) as ss eqn:Ess.
    assert (build_levels (S f) o isbig base lbase ss =
            (do (ds, b) <- process_level o isbig ss;
             let lidx := flat_map leaf_idx_of ds in
             let cbase := base + length ss in
             do (forest, lidx') <- build_levels f o b cbase (lbase + length lidx) (flat_map kids_of ds);
             Ok (assemble ds base cbase lbase forest, lidx ++ lidx'))) as Hunf.
    { rewrite Ess. reflexivity. }
    rewrite Hunf in H. clear Hunf. unfold bind in H.
    destruct (process_level o isbig ss) as [[ds b]|] eqn:E1; [|discriminate].
    cbv zeta in H.
    destruct (build_levels f o b (base + length ss) (lbase + length (flat_map leaf_idx_of ds)) (flat_map kids_of ds))
      as [[forest' lidx']|] eqn:E2; [|discriminate].
    injection H as <- <-.
    destruct (process_level_ok _ _ _ _ _ HI E1) as (Hds & Hfl & HIk & Lds).
    destruct (IH _ _ _ _ _ _ (nlab + length (flat_map kids_of ds)) E2 HIk ltac:(lia)) as (A & B & C & D).
    destruct (assemble_wf o ds base (base + length ss) lbase forest' isbig b nlab Hds Hfl D ltac:(lia))
      as (W & L1 & L2 & L3 & L4 & L5).
    cbn [bfs_trees]. rewrite L5, map_app, wf_from_app.
    rewrite map_length in L1. rewrite map_length, L1, L2, L3, L4, W, Lds. rewrite <- D in A. cbn [andb].
    split; [exact A|]. split; [|split].
    + intros k. cbn [Nat.add bfs_trees]. rewrite L5, B. reflexivity.
    + unfold v_leaves in *. rewrite tails_of_app, !app_length, L3, C. reflexivity.
    + rewrite <- Lds. rewrite <- L1. reflexivity.
Qed.

(* ---------- enough fuel ---------- *)
Definition forest_height (F : list tree) : nat := fold_right (fun t a => Nat.max (tree_height t) a) 0 F.

Lemma tree_height_pos : forall t, 1 <= tree_height t.
Proof. destruct t; cbn [tree_height]; lia. Qed.

Lemma kids_height : forall t, forest_height (tree_kids t) < tree_height t.
Proof.
  destruct t as [id ord tail eidx|id big step pfx fc ch]; [cbn; lia|].
  cbn [tree_kids tree_height]. apply Nat.lt_succ_r.
  induction ch as [|[x c] r IH]; [cbn; lia|]. cbn [map snd forest_height fold_right]. fold (forest_height (map snd r)). lia.
Qed.

Lemma forest_kids_height : forall F, forest_height (flat_map tree_kids F) <= pred (forest_height F).
Proof.
  induction F as [|t F IH]; [cbn; lia|]. cbn [flat_map].
  assert (Happ : forall A B, forest_height (A ++ B) = Nat.max (forest_height A) (forest_height B)).
  { induction A as [|a A IHA]; intros B; [reflexivity|]. cbn [app forest_height fold_right].
    fold (forest_height (A ++ B)). fold (forest_height A). rewrite IHA. lia. }
  rewrite Happ. cbn [forest_height fold_right]. fold (forest_height F).
  pose proof (kids_height t). pose proof (tree_height_pos t). lia.
Qed.

Lemma bfs_trees_enough : forall m F k, forest_height F <= m -> bfs_trees (m + k) F = bfs_trees m F.
Proof.
  induction m as [|m IH]; intros F k H.
  - destruct F as [|t F]; [rewrite !bfs_trees_nil; reflexivity|].
    cbn [forest_height fold_right] in H. pose proof (tree_height_pos t). lia.
  - cbn [Nat.add bfs_trees]. rewrite IH; [reflexivity|]. pose proof (forest_kids_height F). lia.
Qed.

Lemma bfs_trees_same : forall n h F,
  (forall k, bfs_trees (n + k) F = bfs_trees n F) -> forest_height F <= h ->
  bfs_trees h F = bfs_trees n F.
Proof.
  intros n h F Hn Hh. destruct (Nat.le_gt_cases h n) as [Hle|Hgt].
  - replace n with (h + (n - h)) by lia. symmetry. apply bfs_trees_enough. exact Hh.
  - replace h with (n + (h - n)) by lia. apply Hn.
Qed.

(* ---------- build ---------- *)
Theorem built_trie_wf : forall o keys vals T, build o keys vals = Ok T -> trie_wf T = true.
Proof.
  intros o keys vals T Hb. destruct keys as [|k0 kr]; [injection Hb as <-; reflexivity|].
  rewrite build_unfold in Hb by discriminate.
  destruct (check_order (k0 :: kr)) as [i|] eqn:Ec; [discriminate|]. cbv zeta in Hb. unfold bind in Hb.
  destruct (build_levels _ o true 0 0 _) as [[forest lidx]|] eqn:Eb; [|discriminate].
  destruct forest as [|r [|r2 rest]]; try discriminate. injection Hb as <-.
  apply check_order_none in Ec.
  pose proof (root_inv o (k0 :: kr) vals Ec ltac:(discriminate)) as HI. unfold root_subset in HI.
  destruct (build_levels_wf o _ true 0 0 _ [r] lidx 0 Eb (Forall_cons _ HI (Forall_nil _)) eq_refl) as (W & Hk & Hl & _).
  cbv zeta in W, Hl.
  unfold trie_wf, flat_wf. cbn [t_root t_innerpfx t_leafpfx t_leaves]. unfold flat_nodes.
  assert (Hsame : bfs_trees (tree_height r) [r] = bfs_trees (max_nibs (k0 :: kr) + 3) [r]).
  { apply bfs_trees_same; [exact Hk|]. cbn [forest_height fold_right]. lia. }
  rewrite Hsame, W. cbn [andb]. unfold leaves_ok, select_leaves.
  destruct vals as [vs|]; [|reflexivity].
  destruct (total_size (map (fun i => nth i vs []) lidx) =? 0); [reflexivity|].
  apply Nat.eqb_eq. rewrite map_length. unfold v_leaves in Hl. rewrite Hl. reflexivity.
Qed.

Theorem built_trie_refinement : forall o keys vals T r,
  build o keys vals = Ok T -> t_root T = Some r ->
  exists m vs, encode_trie T = Val m /\ init_vars m = Val vs /\
    forall p v, nth_error (flat_nodes r) p = Some v -> get_view m vs (N.of_nat p) = Val v.
Proof.
  intros o keys vals T r Hb Hr. pose proof (built_trie_wf o keys vals T Hb) as Hwf.
  unfold trie_wf in Hwf. unfold encode_trie. rewrite Hr in *.
  assert (Hne : flat_nodes r <> []).
  { unfold flat_nodes. destruct r; cbn [tree_height bfs_trees app map]; discriminate. }
  pose proof Hwf as Hwf2. unfold flat_wf in Hwf2. apply andb_true_iff in Hwf2. destruct Hwf2 as [Hw _].
  destruct (encode_total _ _ _ (t_leaves T) Hw Hne) as (m & vs & Em & Ev & _).
  exists m, vs. split; [exact Em|]. split; [exact Ev|].
  intros p v Hp. apply (get_view_correct _ _ _ _ m vs Hw Em Ev p v Hp).
Qed.

(* ---------- closing forms under flat_wf (used by props/L3.v) ---------- *)
Lemma flat_wf_from : forall ipfx lpfx nodes leaves,
  flat_wf ipfx lpfx nodes leaves = true -> wf_from ipfx lpfx nodes 0 0 0 true = true.
Proof. intros ipfx lpfx nodes leaves H. unfold flat_wf in H. apply andb_true_iff in H. tauto. Qed.

Local Open Scope N_scope.

Lemma rank128_both : forall ws i,
  words_ok ws ->
  (forall r bit, rank128 ws (index_rank128 ws 0) i = Val (r, bit) ->
                 r = rank_spec ws i /\ bit = N.b2n (bm_get ws i)) /\
  (i < 64 * N.of_nat (length ws) -> exists r bit, rank128 ws (index_rank128 ws 0) i = Val (r, bit)).
Proof.
  intros ws i Hok. split.
  - intros r bit. exact (BitmapRank2Proofs.rank128_correct ws i r bit Hok).
  - exact (BitmapRank2Proofs.rank128_total ws i).
Qed.

Lemma encode_total_fw : forall nodes ipfx lpfx leaves,
  flat_wf ipfx lpfx nodes leaves = true -> nodes <> [] ->
  exists m vs, encode_msg nodes ipfx lpfx leaves = Val m /\ init_vars m = Val vs /\ m_shortsize m <= 10.
Proof. intros nodes ipfx lpfx leaves H. exact (encode_total nodes ipfx lpfx leaves (flat_wf_from _ _ _ _ H)). Qed.

Lemma get_view_fw : forall nodes ipfx lpfx leaves m vs,
  flat_wf ipfx lpfx nodes leaves = true ->
  encode_msg nodes ipfx lpfx leaves = Val m -> init_vars m = Val vs ->
  forall p v, nth_error nodes p = Some v -> get_view m vs (N.of_nat p) = Val v.
Proof. intros nodes ipfx lpfx leaves m vs H. exact (get_view_correct nodes ipfx lpfx leaves m vs (flat_wf_from _ _ _ _ H)). Qed.

Lemma children_fw : forall nodes ipfx lpfx leaves m vs,
  flat_wf ipfx lpfx nodes leaves = true ->
  encode_msg nodes ipfx lpfx leaves = Val m -> init_vars m = Val vs ->
  forall p id big step pfx fc labels,
    nth_error nodes p = Some (VInner id big step pfx fc labels) ->
    exists ith wsz from to bm plen pfxb,
      get_node m vs (N.of_nat p) = Val (DnInner ith wsz from to bm plen pfxb) /\
      first_child m from = Val (N.of_nat fc) /\
      last_child m to = Val (N.of_nat (fc + length labels - 1)) /\
      forall k, k < (if big then 257 else 17) ->
        left_child m from to bm k =
        Val (N.of_nat (fc - 1 + count_lt (map N.of_nat labels) k),
             N.b2n (existsb (N.eqb k) (map N.of_nat labels))).
Proof. intros nodes ipfx lpfx leaves m vs H. exact (children_correct nodes ipfx lpfx leaves m vs (flat_wf_from _ _ _ _ H)). Qed.

Lemma leaves_fw : forall nodes ipfx lpfx leaves m,
  flat_wf ipfx lpfx nodes leaves = true -> nodes <> [] ->
  encode_msg nodes ipfx lpfx leaves = Val m ->
  match leaves with
  | None => forall l, ith_leaf_bytes m l = Val None
  | Some elts =>
    (Forall (fun e => e = []) elts -> forall l, ith_leaf_bytes m l = Val None) /\
    (~ Forall (fun e => e = []) elts ->
     (forall l, (l < length elts)%nat -> ith_leaf_bytes m (N.of_nat l) = Val (Some (nth l elts []))) /\
     (forall l, blen elts <= l -> ith_leaf_bytes m l = Panic))
  end.
Proof. intros nodes ipfx lpfx leaves m H. exact (leaves_correct nodes ipfx lpfx leaves m (flat_wf_from _ _ _ _ H)). Qed.
