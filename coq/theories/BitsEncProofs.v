(* BitsEncProofs.v - L3: the pieces of creator.build.
     bm17_spec          bitmap.Of(labels)[0]: the 17-bit label bitmap, popcount = number of labels
     count_bms_spec     innerBMCnt: no panic; every counted bitmap has as many bits as its key says
     find_min_le        findMinShortSize <= maxShortSize
     table_loop_spec    ShortTable / mostUsed: table[code] = bitmap, code < 2^ShortSize,
                        popcount code = popcount bitmap   (the property getNode relies on)
     inner_segs_spec    the (sub-bitmap, size) list handed to OfMany and the short-node indexes *)
From Coq Require Import List Arith Bool NArith ZArith Lia Sorted.
From Coq Require Import ZifyN ZifyNat ZifyBool.
From Coq.Strings Require Import Byte.
From Slim Require Import Base Keys Model BitmapRank BitmapRankProofs BitmapRank2 BitmapRank2Proofs
     BitmapSelectProofs Bits BitsWfProofs BitsVlenProofs.
Import ListNotations.
Local Open Scope N_scope.
Ltac Zify.zify_post_hook ::= Z.div_mod_to_equations.

(* ---------- the label bitmap of a non-big node ---------- *)
Lemma last_N_some : forall l, l <> [] -> exists m, last_N l = Some m.
Proof.
  induction l as [|x r IH]; intros H; [congruence|]. destruct r as [|y r']; [exists x; reflexivity|].
  change (last_N (x :: y :: r')) with (last_N (y :: r')). apply IH. discriminate.
Qed.

Lemma popcount_listed : forall w idx,
  w < 2 ^ 64 -> StronglySorted N.lt idx -> Forall (fun k => k < 64) idx ->
  (forall k, k < 64 -> (N.testbit w k = true <-> In k idx)) ->
  popcount w = N.of_nat (length idx).
Proof.
  intros w idx Hw Hs Hb Hf. rewrite (popcount_spec 64 w Hw).
  rewrite (count_below_sorted (N.testbit w) idx Hs).
  - f_equal. apply count_lt_all. eapply Forall_impl; [|exact Hb]. cbv beta. intros. lia.
  - intros k. destruct (N.lt_ge_cases k 64) as [Hk|Hk]; [apply Hf; exact Hk|]. split.
    + intros Ht. pose proof (testbit_true_lt _ _ _ Hw Ht). lia.
    + intros Hin. rewrite Forall_forall in Hb. apply Hb in Hin. lia.
Qed.

Lemma bm17_spec : forall labels,
  labels <> [] -> StronglySorted N.lt labels -> Forall (fun k => k < 64) labels ->
  exists w, bm17 labels = Val w /\ w < 2 ^ 64 /\
            (forall k, k < 64 -> (N.testbit w k = true <-> In k labels)) /\
            popcount w = N.of_nat (length labels).
Proof.
  intros labels Hne Hs Hb. destruct (of_cap_sorted labels 0 (sorted_lt_le _ Hs)) as (ws & E & L & O & G).
  destruct (last_N_some labels Hne) as [m Em].
  assert (Hm : m < 64) by (rewrite Forall_forall in Hb; apply Hb; apply last_N_in; exact Em).
  assert (Hl : N.of_nat (length ws) = 1).
  { rewrite L. unfold bits_cap. rewrite Em. unfold nwords_for. rewrite N.shiftr_div_pow2. change (2 ^ 6) with 64. lia. }
  destruct ws as [|w [|w2 r]]; cbn [length] in Hl; try lia.
  exists w. unfold bm17, obind. rewrite E. inversion O; subst.
  assert (Hf : forall k, k < 64 -> (N.testbit w k = true <-> In k labels)).
  { intros k Hk. rewrite <- G. rewrite bm_get_cons_low by assumption. reflexivity. }
  repeat split; try assumption; try (apply Hf; assumption).
  apply popcount_listed; assumption.
Qed.

Lemma lt17_lt64 : forall l : list N, Forall (fun k => k < 17) l -> Forall (fun k => k < 64) l.
Proof. intros l H. eapply Forall_impl; [|exact H]. cbv beta. intros. lia. Qed.

(* an inner record is well formed: what labels_ok gives *)
Definition rec_ok (i : inner_rec) : Prop :=
  i_labels i <> [] /\ StronglySorted N.lt (i_labels i) /\
  Forall (fun x => x < (if i_big i then 257 else 17)) (i_labels i).

(* ---------- innerBMCnt ---------- *)
Definition cs_ok (cs : list (N * N * N)) : Prop :=
  Forall (fun e => popcount (snd (fst e)) = fst (fst e)) cs.

Lemma cnt_incr_ok : forall cs nbit bm, cs_ok cs -> popcount bm = nbit -> cs_ok (cnt_incr cs nbit bm).
Proof.
  induction cs as [|[[n b] c] r IH]; intros nbit bm H Hp; cbn [cnt_incr].
  - constructor; [exact Hp|constructor].
  - inversion H as [|? ? H1 H2]. destruct ((n =? nbit) && (b =? bm)); constructor; auto. apply IH; assumption.
Qed.

Lemma count_bms_spec : forall ins cs, Forall rec_ok ins -> cs_ok cs ->
  exists cs', count_bms ins cs = Val cs' /\ cs_ok cs'.
Proof.
  induction ins as [|i r IH]; intros cs H Hcs; [exists cs; split; [reflexivity|exact Hcs]|].
  inversion H as [|? ? (Hne & Hs & Hb) Hr]; subst. cbn [count_bms]. destruct (i_big i) eqn:Eb; [apply IH; assumption|].
  destruct (blen (i_labels i) <? 11); [|apply IH; assumption].
  destruct (bm17_spec (i_labels i) Hne Hs (lt17_lt64 _ Hb)) as (w & E & _ & _ & Hp).
  destruct (i_labels i) eqn:El; [congruence|]. rewrite E. cbn [obind]. apply IH; [assumption|].
  apply cnt_incr_ok; [assumption|exact Hp].
Qed.

(* ---------- sortedBMCounts ---------- *)
Definition sorted_ok (sorted : list (list (N * N))) : Prop :=
  forall nbit l e, nth_error sorted nbit = Some l -> In e l -> popcount (fst e) = N.of_nat nbit.

Lemma cnt_insert_in : forall x l e, In e (cnt_insert x l) <-> e = x \/ In e l.
Proof.
  induction l as [|y r IH]; intros e; cbn [cnt_insert].
  - cbn. intuition.
  - destruct (cnt_before x y); cbn [In]; [intuition|]. rewrite IH. intuition.
Qed.

Lemma cnt_sort_in : forall l e, In e (cnt_sort l) <-> In e l.
Proof.
  induction l as [|x r IH]; intros e; cbn [cnt_sort]; [reflexivity|].
  rewrite cnt_insert_in, IH. cbn. intuition.
Qed.

Lemma nseq_nth : forall n start k, (k < n)%nat -> nth_error (nseq start n) k = Some (start + N.of_nat k).
Proof.
  induction n as [|n IH]; intros start k H; [lia|]. cbn [nseq]. destruct k as [|k]; [cbn; f_equal; lia|].
  cbn [nth_error]. rewrite IH by lia. f_equal. lia.
Qed.

Lemma nseq_length : forall n start, length (nseq start n) = n.
Proof. induction n; intros; cbn [nseq length]; auto. Qed.

Lemma sorted_counts_ok : forall cs, cs_ok cs -> sorted_ok (sorted_counts cs).
Proof.
  intros cs H nbit l e Hn He. unfold sorted_counts in Hn.
  rewrite nth_error_map in Hn. destruct (nth_error (nseq 0 11) nbit) as [nb|] eqn:En; [|discriminate].
  cbn [option_map] in Hn. injection Hn as <-.
  assert (Hlt : (nbit < 11)%nat) by (rewrite <- (nseq_length 11 0); apply nth_error_Some; congruence).
  rewrite nseq_nth in En by assumption. injection En as <-.
  rewrite cnt_sort_in in He. apply in_map_iff in He. destruct He as ([[n b] c] & <- & Hin).
  apply filter_In in Hin. destruct Hin as [Hin Hf]. cbn [fst snd] in *. apply N.eqb_eq in Hf.
  unfold cs_ok in H. rewrite Forall_forall in H. specialize (H _ Hin). cbn [fst snd] in H. lia.
Qed.

Lemma pop_nth_spec : forall sorted k e sorted',
  pop_nth sorted k = Some (e, sorted') ->
  (exists l, nth_error sorted k = Some l /\ In e l) /\
  (forall j l', nth_error sorted' j = Some l' -> exists l, nth_error sorted j = Some l /\ incl l' l).
Proof.
  induction sorted as [|l r IH]; intros k e sorted' H; [destruct k; discriminate|].
  destruct k as [|k]; cbn [pop_nth] in H.
  - destruct l as [|x l']; [discriminate|]. injection H as <- <-. split.
    + exists (x :: l'). split; [reflexivity|left; reflexivity].
    + intros [|j] l2 Hj; cbn [nth_error] in *.
      * injection Hj as <-. exists (x :: l'). split; [reflexivity|]. intros z Hz. right. exact Hz.
      * exists l2. split; [exact Hj|apply incl_refl].
  - destruct (pop_nth r k) as [[x r']|] eqn:E; [|discriminate]. injection H as <- <-.
    destruct (IH _ _ _ E) as [A B]. split; [exact A|].
    intros [|j] l2 Hj; cbn [nth_error] in *.
    + injection Hj as <-. exists l. split; [reflexivity|apply incl_refl].
    + apply B. exact Hj.
Qed.

Lemma pop_nth_ok : forall sorted k e sorted',
  sorted_ok sorted -> pop_nth sorted k = Some (e, sorted') ->
  popcount (fst e) = N.of_nat k /\ sorted_ok sorted'.
Proof.
  intros sorted k e sorted' Hok H. destruct (pop_nth_spec _ _ _ _ H) as [(l & Hl & He) B]. split.
  - eapply Hok; eassumption.
  - intros j l' e' Hj He'. destruct (B _ _ Hj) as (l0 & Hl0 & Hinc). eapply Hok; [exact Hl0|apply Hinc; exact He'].
Qed.

(* ---------- findMinShortSize ---------- *)
Lemma find_min_in : forall sorted sizes sz c, In (find_min sorted sizes sz c) (sz :: sizes).
Proof.
  induction sizes as [|s r IH]; intros sz c; cbn [find_min]; [left; reflexivity|].
  destruct (mem_incr sorted s <? c)%Z.
  - destruct (IH s (mem_incr sorted s)) as [E|E]; [right; left; exact E|right; right; exact E].
  - destruct (IH sz c) as [E|E]; [left; exact E|right; right; exact E].
Qed.

Lemma nseq_in : forall n start x, In x (nseq start n) -> start <= x /\ x < start + N.of_nat n.
Proof.
  induction n as [|n IH]; intros start x H; [destruct H|]. cbn [nseq] in H. destruct H as [<-|H]; [lia|].
  apply IH in H. lia.
Qed.

Lemma find_min_le : forall sorted, find_min_short_size sorted <= 10.
Proof.
  intros sorted. unfold find_min_short_size.
  generalize (mem_incr sorted 0) as c. intros c.
  destruct (find_min_in sorted (nseq 1 10) 0 c) as [E|E]; [lia|].
  apply nseq_in in E. lia.
Qed.

(* ---------- ShortTable / mostUsed ---------- *)
Lemma most_lookup_in : forall most bm sh, most_lookup most bm = Some sh -> In (bm, sh) most.
Proof.
  induction most as [|[b s] r IH]; intros bm sh H; [discriminate|]. cbn [most_lookup] in H.
  destruct (N.eqb_spec b bm) as [->|]; [injection H as <-; left; reflexivity|right; apply IH; exact H].
Qed.

Lemma table_loop_spec : forall n base sorted most0 table most,
  sorted_ok sorted ->
  table_loop (nseq base n) sorted most0 = (table, most) ->
  length table = n /\
  forall bm sh, In (bm, sh) most ->
    In (bm, sh) most0 \/
    (base <= sh /\ sh < base + N.of_nat n /\ nth (N.to_nat (sh - base)) table 0 = bm /\ popcount bm = popcount sh).
Proof.
  induction n as [|n IH]; intros base sorted most0 table most Hok H.
  - cbn in H. injection H as <- <-. split; [reflexivity|]. intros; left; assumption.
  - cbn [nseq table_loop] in H.
    destruct (pop_nth sorted (N.to_nat (popcount base))) as [[[bm0 c0] sorted']|] eqn:Ep.
    + destruct (table_loop (nseq (N.succ base) n) sorted' ((bm0, base) :: most0)) as [t m] eqn:Et.
      injection H as <- <-. destruct (pop_nth_ok _ _ _ _ Hok Ep) as [Hp Hok'].
      destruct (IH _ _ _ _ _ Hok' Et) as [L Hm]. split; [cbn [length]; lia|].
      intros bm sh Hin. destruct (Hm _ _ Hin) as [[E|E]|(A & B & C & D)].
      * injection E as <- <-. right. split; [lia|]. split; [lia|]. rewrite N.sub_diag. cbn [fst] in Hp. split; [reflexivity|lia].
      * left. exact E.
      * right. split; [lia|]. split; [lia|]. split; [|exact D].
        replace (N.to_nat (sh - base)) with (S (N.to_nat (sh - N.succ base))) by lia. exact C.
    + destruct (table_loop (nseq (N.succ base) n) sorted most0) as [t m] eqn:Et.
      injection H as <- <-. destruct (IH _ _ _ _ _ Hok Et) as [L Hm]. split; [cbn [length]; lia|].
      intros bm sh Hin. destruct (Hm _ _ Hin) as [E|(A & B & C & D)]; [left; exact E|].
      right. split; [lia|]. split; [lia|]. split; [|exact D].
      replace (N.to_nat (sh - base)) with (S (N.to_nat (sh - N.succ base))) by lia. exact C.
Qed.

(* what getNode needs from the table *)
Definition table_ok (s : N) (table : list N) (most : list (N * N)) : Prop :=
  N.of_nat (length table) = 2 ^ s /\
  forall bm sh, most_lookup most bm = Some sh ->
    sh < 2 ^ s /\ nthN table sh = Some bm /\ popcount bm = popcount sh.

Lemma table_loop_ok : forall s sorted table most,
  sorted_ok sorted -> table_loop (shorts_of s) sorted [] = (table, most) -> table_ok s table most.
Proof.
  intros s sorted table most Hok H. unfold shorts_of in H.
  destruct (table_loop_spec _ _ _ _ _ _ Hok H) as [L Hm]. split; [rewrite L; lia|].
  intros bm sh Hl. apply most_lookup_in in Hl. destruct (Hm _ _ Hl) as [[]|(A & B & C & D)].
  rewrite N.sub_0_r in C. split; [lia|]. split; [|exact D].
  rewrite nthN_nth_error. rewrite <- C. apply nth_error_nth'. lia.
Qed.

(* ---------- "convert most used node bitmap to short" ---------- *)
Definition code_of (most : list (N * N)) (i : inner_rec) : option N :=
  match bm17 (i_labels i) with Val bm => most_lookup most bm | Panic => None end.

Definition is_short (most : list (N * N)) (i : inner_rec) : bool :=
  negb (i_big i) && match code_of most i with Some _ => true | None => false end.

Definition seg_of (s : N) (most : list (N * N)) (i : inner_rec) : list N * N :=
  if i_big i then (i_labels i, 257)
  else match code_of most i with
       | Some sh => (to_array [sh], s)
       | None => (i_labels i, 17)
       end.

Definition ind (b : bool) : N := if b then 1 else 0.

Lemma inner_segs_spec : forall ins ith s most,
  Forall rec_ok ins ->
  inner_segs ins ith s most =
  Val (map (seg_of s most) ins, nonzero_idx ith (map (fun i => ind (is_short most i)) ins)).
Proof.
  induction ins as [|i r IH]; intros ith s most H; [reflexivity|].
  inversion H as [|? ? (Hne & Hs & Hb) Hr]; subst. cbn [inner_segs map nonzero_idx].
  unfold seg_of at 1, is_short at 1, code_of. destruct (i_big i) eqn:Eb.
  - rewrite IH by assumption. cbn [obind negb andb ind N.eqb app]. reflexivity.
  - destruct (bm17_spec (i_labels i) Hne Hs (lt17_lt64 _ Hb)) as (w & E & _). rewrite E. cbn [obind negb andb].
    destruct (most_lookup most w) as [sh|]; rewrite IH by assumption; cbn [obind ind N.eqb app]; reflexivity.
Qed.

Lemma to_array_single : forall sh s, sh < 2 ^ s -> s <= 64 ->
  StronglySorted N.lt (to_array [sh]) /\ Forall (fun k => k < s) (to_array [sh]) /\
  (forall k, In k (to_array [sh]) <-> N.testbit sh k = true) /\
  N.of_nat (length (to_array [sh])) = popcount sh.
Proof.
  intros sh s Hsh Hs. destruct (to_array_spec [sh]) as [Hsort Hin].
  assert (Hsh64 : sh < 2 ^ 64).
  { eapply N.lt_le_trans; [exact Hsh|]. apply N.pow_le_mono_r; lia. }
  assert (Hmem : forall k, In k (to_array [sh]) <-> N.testbit sh k = true).
  { intros k. rewrite <- Hin. destruct (N.lt_ge_cases k 64) as [Hk|Hk].
    - rewrite bm_get_cons_low by assumption. reflexivity.
    - split.
      + intros Hg. apply bm_get_true_lt in Hg. cbn [length] in Hg. lia.
      + intros Ht. pose proof (testbit_true_lt _ _ _ Hsh64 Ht). lia. }
  assert (Hb : Forall (fun k => k < s) (to_array [sh])).
  { rewrite Forall_forall. intros k Hk. apply Hmem in Hk. eapply testbit_true_lt; eassumption. }
  repeat split; try assumption; try apply Hmem.
  symmetry. apply popcount_listed; try assumption.
  - eapply Forall_impl; [|exact Hb]. cbv beta. intros. lia.
  - intros k _. symmetry. apply Hmem.
Qed.

Lemma seg_of_ok : forall s most table i,
  s <= 10 -> table_ok s table most -> rec_ok i ->
  seg_ok (seg_of s most i) /\ length (fst (seg_of s most i)) = length (i_labels i).
Proof.
  intros s most table i Hs [_ Ht] (Hne & Hsort & Hb). unfold seg_of, code_of. destruct (i_big i) eqn:Eb.
  - split; [split; assumption|reflexivity].
  - destruct (bm17_spec (i_labels i) Hne Hsort (lt17_lt64 _ Hb)) as (w & E & Hw & Hf & Hp). rewrite E.
    destruct (most_lookup most w) as [sh|] eqn:El.
    + destruct (Ht _ _ El) as (A & B & C).
      destruct (to_array_single sh s A ltac:(lia)) as (T1 & T2 & T3 & T4). cbn [fst snd].
      split; [split; assumption|]. lia.
    + split; [split; assumption|reflexivity].
Qed.

(* sizes: 257 for a big node, ShortSize for a short one, 17 otherwise *)
Lemma seg_of_size : forall s most i,
  snd (seg_of s most i) = if i_big i then 257 else if is_short most i then s else 17.
Proof.
  intros s most i. unfold seg_of, is_short. destruct (i_big i); [reflexivity|].
  cbn [negb andb]. destruct (code_of most i); reflexivity.
Qed.

Lemma is_short_not_big : forall most i, is_short most i = true -> i_big i = false.
Proof. intros most i H. unfold is_short in H. destruct (i_big i); [discriminate|reflexivity]. Qed.

(* offset of the j-th label bitmap in Inners *)
Lemma seg_off_formula : forall s most ins j,
  (j <= length ins)%nat ->
  seg_off (map (seg_of s most) ins) j =
  257 * N.of_nat (cnt_nz (firstn j (map (fun i => ind (i_big i)) ins)))
  + s * N.of_nat (cnt_nz (firstn j (map (fun i => ind (is_short most i)) ins)))
  + 17 * (N.of_nat j - N.of_nat (cnt_nz (firstn j (map (fun i => ind (i_big i)) ins)))
                     - N.of_nat (cnt_nz (firstn j (map (fun i => ind (is_short most i)) ins)))).
Proof.
  intros s most. induction ins as [|i r IH]; intros j Hj.
  - destruct j; [unfold seg_off, cnt_nz; cbn; lia|cbn in Hj; lia].
  - destruct j as [|j]; [unfold seg_off, cnt_nz; cbn; lia|]. cbn [length] in Hj. unfold seg_off. cbn [map firstn fold_right].
    fold (seg_off (map (seg_of s most) r) j). rewrite IH by lia. rewrite seg_of_size.
    unfold cnt_nz. cbn [filter].
    set (nb := length (filter nz (firstn j (map (fun i0 => ind (i_big i0)) r)))).
    set (ns := length (filter nz (firstn j (map (fun i0 => ind (is_short most i0)) r)))).
    assert (Hle : (nb + ns <= j)%nat).
    { unfold nb, ns. clear. revert j. induction r as [|x r IH]; intros j; [destruct j; cbn; lia|].
      destruct j as [|j]; [cbn; lia|]. cbn [map firstn filter]. specialize (IH j).
      destruct (is_short most x) eqn:E.
      - rewrite (is_short_not_big _ _ E). cbn [ind nz N.eqb negb length]. lia.
      - destruct (i_big x); cbn [ind nz N.eqb negb length]; lia. }
    destruct (is_short most i) eqn:Es.
    + rewrite (is_short_not_big _ _ Es). cbn [ind nz N.eqb negb length]. fold nb ns. lia.
    + destruct (i_big i); cbn [ind nz N.eqb negb length]; fold nb ns; lia.
Qed.

(* number of label bits before the j-th label bitmap *)
Lemma seg_cnt_labels : forall s most table ins j,
  s <= 10 -> table_ok s table most -> Forall rec_ok ins ->
  seg_cnt (map (seg_of s most) ins) j =
  fold_right (fun i a => (length (i_labels i) + a)%nat) 0%nat (firstn j ins).
Proof.
  intros s most table ins j Hs Ht. revert j. induction ins as [|i r IH]; intros j H; [destruct j; reflexivity|].
  destruct j as [|j]; [reflexivity|]. inversion H; subst. unfold seg_cnt. cbn [map firstn fold_right].
  fold (seg_cnt (map (seg_of s most) r) j). rewrite IH by assumption.
  destruct (seg_of_ok s most table i Hs Ht) as [_ L]; [assumption|]. rewrite L. reflexivity.
Qed.

(* big nodes first: the number of big nodes among the first j *)
Lemma big_prefix_count : forall (l : list inner_rec) c d j,
  map i_big l = repeat true c ++ repeat false d ->
  cnt_nz (firstn j (map (fun i => ind (i_big i)) l)) = Nat.min j c /\
  count_big l = N.of_nat c /\
  (forall i, nth_error l j = Some i -> i_big i = (j <? c)%nat).
Proof.
  induction l as [|x r IH]; intros c d j H.
  - destruct c; [|discriminate]. destruct j; repeat split; try reflexivity; intros; discriminate.
  - destruct c as [|c].
    + cbn [repeat app] in H. destruct d as [|d]; [discriminate|]. cbn [repeat map] in H. injection H as Hx Hr.
      destruct (IH 0%nat d (pred j) Hr) as (A & B & C). unfold count_big, blen in *. cbn [filter]. rewrite Hx.
      split; [|split; [exact B|]].
      * destruct j as [|j]; [reflexivity|]. cbn [map firstn]. unfold cnt_nz in *. cbn [filter]. rewrite Hx.
        cbn [ind nz N.eqb negb]. cbn [pred] in A. rewrite A. lia.
      * intros i Hi. destruct j as [|j]; [cbn in Hi; injection Hi as <-; exact Hx|].
        cbn [nth_error] in Hi. cbn [pred] in C. rewrite (C i Hi). reflexivity.
    + cbn [repeat app map] in H. injection H as Hx Hr.
      destruct (IH c d (pred j) Hr) as (A & B & C). unfold count_big, blen in *. cbn [filter]. rewrite Hx.
      split; [|split].
      * destruct j as [|j]; [reflexivity|]. cbn [map firstn]. unfold cnt_nz in *. cbn [filter]. rewrite Hx.
        cbn [ind nz N.eqb negb length]. cbn [pred] in A. rewrite A. lia.
      * cbn [length]. lia.
      * intros i Hi. destruct j as [|j]; [cbn in Hi; injection Hi as <-; exact Hx|].
        cbn [nth_error] in Hi. cbn [pred] in C. rewrite (C i Hi). reflexivity.
Qed.
